//go:build verif

// Contracts for package render, checked by /verif (govc). Comment-only file.

package render

//-----------------------------------------------------------------------------
// C20: the canonical-form equality of triangle sets is order independent.
// sort.Sort needs Less to be a strict weak order; Equals additionally needs
// distinct canonical triples to be ordered (total on distinct triples).

//@ spec lexlt(a0 int, a1 int, a2 int, b0 int, b1 int, b2 int) = a0 < b0 || (a0 == b0 && (a1 < b1 || (a1 == b1 && a2 < b2)))

//@ func TriangleIByIndex.Less
//@   property C20
//@   id lexicographic
//@   requires 0 <= i && i < len(a) && 0 <= j && j < len(a)
//@   ensures [is-lexicographic-order] r <==> lexlt(a[i][0], a[i][1], a[i][2], a[j][0], a[j][1], a[j][2])
//@ end

//@ lemma less_strict_weak_order(a TriangleIByIndex, i int, j int, k int)
//@   property C20
//@   requires 0 <= i && i < len(a) && 0 <= j && j < len(a) && 0 <= k && k < len(a)
//@   ensures [irreflexive] !a.Less(i, i)
//@   ensures [asymmetric] a.Less(i, j) ==> !a.Less(j, i)
//@   ensures [transitive] a.Less(i, j) && a.Less(j, k) ==> a.Less(i, k)
//@   ensures [total-on-distinct] a[i] != a[j] ==> a.Less(i, j) || a.Less(j, i)
//@ end

//@ func TriangleI.Canonical
//@   property C20
//@   requires t[0] != t[1] && t[1] != t[2] && t[0] != t[2]
//@   ensures [min-first] t[0] == min(old(t[0]), old(t[1]), old(t[2]))
//@   ensures [is-rotation] (t[0] == old(t[0]) && t[1] == old(t[1]) && t[2] == old(t[2])) || (t[0] == old(t[1]) && t[1] == old(t[2]) && t[2] == old(t[0])) || (t[0] == old(t[2]) && t[1] == old(t[0]) && t[2] == old(t[1]))
//@ end

//@ lemma canonical_rotation_unique(a int, b int, c int, x int, y int, z int, u int, v int, w int)
//@   property C20
//@   requires a != b && b != c && a != c
//@   requires (x == a && y == b && z == c) || (x == b && y == c && z == a) || (x == c && y == a && z == b)
//@   requires (u == a && v == b && w == c) || (u == b && v == c && w == a) || (u == c && v == a && w == b)
//@   requires x == min(a, b, c) && u == min(a, b, c)
//@   ensures [rotations-canonicalise-identically] x == u && y == v && z == w
//@ end

//-----------------------------------------------------------------------------
// C05 / C06 / C08: the vertex placed on a crossing lattice edge

//@ spec between(x real, a real, b real) = min(a, b) <= x && x <= max(a, b)

//@ func mcInterpolate
//@   property C05 C06
//@   requires (v1 < x && x <= v2) || (v2 < x && x <= v1)
//@   ensures [on-the-edge-x] between(r.X, p1.X, p2.X)
//@   ensures [on-the-edge-y] between(r.Y, p1.Y, p2.Y)
//@   ensures [on-the-edge-z] between(r.Z, p1.Z, p2.Z)
//@   ensures [collinear-with-edge] r.Sub(p1).Cross(p2.Sub(p1)) == v3.Vec{0, 0, 0}
//@   ensures [linear-zero-crossing] abs(x - v1) >= epsilon && abs(x - v2) >= epsilon ==> r.Sub(p1).MulScalar(v2 - v1) == p2.Sub(p1).MulScalar(x - v1)
//@   ensures [snaps-to-corner-1] abs(x - v1) < epsilon && abs(x - v2) >= epsilon ==> r == p1
//@   ensures [snaps-to-corner-2] abs(x - v2) < epsilon && abs(x - v1) >= epsilon ==> r == p2
//@   ensures [same-vertex-from-either-cell] r == mcInterpolate(p2, p1, v2, v1, x)
//@ end

//@ func msInterpolate
//@   property C08
//@   requires (k1 < x && x <= k2) || (k2 < x && x <= k1)
//@   ensures [on-the-edge-x] between(r.X, p1.X, p2.X)
//@   ensures [on-the-edge-y] between(r.Y, p1.Y, p2.Y)
//@   ensures [collinear-with-edge] r.Sub(p1).Cross(p2.Sub(p1)) == 0
//@   ensures [linear-zero-crossing] abs(x - k1) >= epsilon && abs(x - k2) >= epsilon ==> r.Sub(p1).MulScalar(k2 - k1) == p2.Sub(p1).MulScalar(x - k1)
//@   ensures [snaps-to-corner-1] abs(x - k1) < epsilon && abs(x - k2) >= epsilon ==> r == p1
//@   ensures [snaps-to-corner-2] abs(x - k2) < epsilon && abs(x - k1) >= epsilon ==> r == p2
//@   ensures [same-vertex-from-either-cell] r == msInterpolate(p2, p1, k2, k1, x)
//@ end

//-----------------------------------------------------------------------------
// C14: the STL loader is total. Safety contracts: every index, slice bound,
// nil dereference, make size and explicit panic becomes an obligation; the
// file system, bufio, strings, strconv and encoding/binary are external
// (arbitrary results, error or not).

//@ func parseFloats
//@   property C14
//@   opt safety
//@   modular
//@   invariant 0 rangeindex >= -1 && rangeindex < len(in) && len(out) == len(in)
//@   ensures [length-preserved] isnil(err) ==> len(r) == len(in)
//@ end

//@ func loadSTLAscii
//@   property C14
//@   opt safety
//@   modular
//@   invariant 0 len(v) >= 0
//@   invariant 1 i >= 0 && i % 3 == 0
//@   ensures [returns] true
//@ end

//@ func loadSTLBinary
//@   property C14
//@   opt safety
//@   modular
//@   invariant 0 rangeindex >= -1 && rangeindex < len(mesh)
//@   ensures [returns] true
//@ end

//@ func LoadSTL
//@   property C14
//@   opt safety
//@   callassert loadSTLBinary size == header.Count*50 + 84
//@   ensures [returns] true
//@ end

//-----------------------------------------------------------------------------
// C13 / C11: STL writers and the binary loader. encoding/binary, bufio and os
// are external: a call is an event carrying (by value) what was passed; how
// the bytes are laid out is assumed (A6), which value goes into which field of
// which record, in which order, is proved.

//@ spec stlvec(f [3]float32, v v3.Vec) = f[0] == v.X && f[1] == v.Y && f[2] == v.Z
//@ spec stlrec(d STLTriangle, t *sdf.Triangle3) = stlvec(d.Vertex1, t[0]) && stlvec(d.Vertex2, t[1]) && stlvec(d.Vertex3, t[2]) && stlvec(d.Normal, t.Normal())

//@ func SaveSTL
//@   property C13 C11
//@   id records
//@   invariant 0 rangeindex >= -1 && rangeindex < len(mesh)
//@   body 0 nev("encoding/binary.Write") == 1
//@   body 0 stlrec(evarg("encoding/binary.Write", 0, 2), mesh[rangeindex + 1])
//@   ensures [returns] true
//@ end

//@ func SaveSTL
//@   property C13 C11
//@   id header
//@   invariant 0 true
//@   atentry 0 nev("encoding/binary.Write") == 1 && evarg("encoding/binary.Write", 0, 2).Count == len(mesh) % 4294967296
//@   ensures [flush-at-the-end] nev("encoding/binary.Write") == 0 && isnil(r) ==> nev("(*bufio.Writer).Flush") == 1
//@ end

//@ func writeSTL$1
//@   property C13 C11
//@   id records
//@   invariant 0 true
//@   invariant 1 rangeindex >= -1 && rangeindex < len(ts) && count == (pre(count) + rangeindex + 1) % 4294967296
//@   body 1 nev("encoding/binary.Write") == 1
//@   body 1 stlrec(evarg("encoding/binary.Write", 0, 2), ts[rangeindex + 1])
//@   ensures [flush-then-seek-then-header] nev("print") == 0 ==> evbefore("(*bufio.Writer).Flush", "(*os.File).Seek") && evbefore("(*os.File).Seek", "encoding/binary.Write")
//@   ensures [one-header-rewrite] nev("print") == 0 ==> nev("encoding/binary.Write") == 1
//@   ensures [header-carries-the-count] nev("print") == 0 ==> evarg("encoding/binary.Write", 0, 2).Count == count
//@ end

//@ func loadSTLBinary
//@   property C13
//@   id records
//@   invariant 0 rangeindex >= -1 && rangeindex < len(mesh)
//@   body 0 stlvec(d.Vertex1, (*mesh[rangeindex + 1])[0]) && stlvec(d.Vertex2, (*mesh[rangeindex + 1])[1]) && stlvec(d.Vertex3, (*mesh[rangeindex + 1])[2])
//@   ensures [count-from-header] isnil(err) ==> len(r) == header.Count
//@ end
