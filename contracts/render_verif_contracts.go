//go:build verif

// Contracts for package render, checked by /verif (govc). Comment-only file.

package render

//-----------------------------------------------------------------------------
// C20: the canonical-form equality of triangle sets is order independent.
// sort.Sort needs Less to be a strict weak order; Equals additionally needs
// distinct canonical triples to be ordered (total on distinct triples).

//@ spec lexlt(a0 int, a1 int, a2 int, b0 int, b1 int, b2 int) = a0 < b0 || (a0 == b0 && (a1 < b1 || (a1 == b1 && a2 < b2)))

//@ func TriangleIByIndex.Less
//@   property C20
//@   id lexicographic
//@   requires 0 <= i && i < len(a) && 0 <= j && j < len(a)
//@   ensures [is-lexicographic-order] r <==> lexlt(a[i][0], a[i][1], a[i][2], a[j][0], a[j][1], a[j][2])
//@ end

//@ lemma less_strict_weak_order(a TriangleIByIndex, i int, j int, k int)
//@   property C20
//@   requires 0 <= i && i < len(a) && 0 <= j && j < len(a) && 0 <= k && k < len(a)
//@   ensures [irreflexive] !a.Less(i, i)
//@   ensures [asymmetric] a.Less(i, j) ==> !a.Less(j, i)
//@   ensures [transitive] a.Less(i, j) && a.Less(j, k) ==> a.Less(i, k)
//@   ensures [total-on-distinct] a[i] != a[j] ==> a.Less(i, j) || a.Less(j, i)
//@ end

//@ func TriangleI.Canonical
//@   property C20
//@   requires t[0] != t[1] && t[1] != t[2] && t[0] != t[2]
//@   ensures [min-first] t[0] == min(old(t[0]), old(t[1]), old(t[2]))
//@   ensures [is-rotation] (t[0] == old(t[0]) && t[1] == old(t[1]) && t[2] == old(t[2])) || (t[0] == old(t[1]) && t[1] == old(t[2]) && t[2] == old(t[0])) || (t[0] == old(t[2]) && t[1] == old(t[0]) && t[2] == old(t[1]))
//@ end

//@ lemma canonical_rotation_unique(a int, b int, c int, x int, y int, z int, u int, v int, w int)
//@   property C20
//@   requires a != b && b != c && a != c
//@   requires (x == a && y == b && z == c) || (x == b && y == c && z == a) || (x == c && y == a && z == b)
//@   requires (u == a && v == b && w == c) || (u == b && v == c && w == a) || (u == c && v == a && w == b)
//@   requires x == min(a, b, c) && u == min(a, b, c)
//@   ensures [rotations-canonicalise-identically] x == u && y == v && z == w
//@ end

//-----------------------------------------------------------------------------
// C05 / C06 / C08: the vertex placed on a crossing lattice edge

//@ spec between(x real, a real, b real) = min(a, b) <= x && x <= max(a, b)

//@ func mcInterpolate
//@   property C05 C06
//@   requires (v1 < x && x <= v2) || (v2 < x && x <= v1)
//@   ensures [on-the-edge-x] between(r.X, p1.X, p2.X)
//@   ensures [on-the-edge-y] between(r.Y, p1.Y, p2.Y)
//@   ensures [on-the-edge-z] between(r.Z, p1.Z, p2.Z)
//@   ensures [collinear-with-edge] r.Sub(p1).Cross(p2.Sub(p1)) == v3.Vec{0, 0, 0}
//@   ensures [linear-zero-crossing] abs(x - v1) >= epsilon && abs(x - v2) >= epsilon ==> r.Sub(p1).MulScalar(v2 - v1) == p2.Sub(p1).MulScalar(x - v1)
//@   ensures [snaps-to-corner-1] abs(x - v1) < epsilon && abs(x - v2) >= epsilon ==> r == p1
//@   ensures [snaps-to-corner-2] abs(x - v2) < epsilon && abs(x - v1) >= epsilon ==> r == p2
//@   ensures [same-vertex-from-either-cell] r == mcInterpolate(p2, p1, v2, v1, x)
//@   ensures [translation-equivariant] forall c v3.Vec :: mcInterpolate(p1.Add(c), p2.Add(c), v1, v2, x) == r.Add(c)
//@ end

//@ func msInterpolate
//@   property C08
//@   requires (k1 < x && x <= k2) || (k2 < x && x <= k1)
//@   ensures [on-the-edge-x] between(r.X, p1.X, p2.X)
//@   ensures [on-the-edge-y] between(r.Y, p1.Y, p2.Y)
//@   ensures [collinear-with-edge] r.Sub(p1).Cross(p2.Sub(p1)) == 0
//@   ensures [linear-zero-crossing] abs(x - k1) >= epsilon && abs(x - k2) >= epsilon ==> r.Sub(p1).MulScalar(k2 - k1) == p2.Sub(p1).MulScalar(x - k1)
//@   ensures [snaps-to-corner-1] abs(x - k1) < epsilon && abs(x - k2) >= epsilon ==> r == p1
//@   ensures [snaps-to-corner-2] abs(x - k2) < epsilon && abs(x - k1) >= epsilon ==> r == p2
//@   ensures [same-vertex-from-either-cell] r == msInterpolate(p2, p1, k2, k1, x)
//@   ensures [translation-equivariant] forall c v2.Vec :: msInterpolate(p1.Add(c), p2.Add(c), k1, k2, x) == r.Add(c)
//@ end

//-----------------------------------------------------------------------------
// C14: the STL loader is total. Safety contracts: every index, slice bound,
// nil dereference, make size and explicit panic becomes an obligation; the
// file system, bufio, strings, strconv and encoding/binary are external
// (arbitrary results, error or not).

//@ func parseFloats
//@   property C14
//@   opt safety
//@   modular
//@   invariant 0 rangeindex >= -1 && rangeindex < len(in) && len(out) == len(in)
//@   ensures [length-preserved] isnil(err) ==> len(r) == len(in)
//@ end

//@ func loadSTLAscii
//@   property C14
//@   opt safety
//@   modular
//@   invariant 0 len(v) >= 0
//@   invariant 1 i >= 0 && i % 3 == 0
//@   ensures [returns] true
//@ end

//@ func loadSTLBinary
//@   property C14
//@   opt safety
//@   modular
//@   invariant 0 rangeindex >= -1 && rangeindex < len(mesh)
//@   ensures [returns] true
//@ end

//@ func LoadSTL
//@   property C14
//@   opt safety
//@   callassert loadSTLBinary size == header.Count*50 + 84
//@   ensures [returns] true
//@ end

//-----------------------------------------------------------------------------
// C13 / C11: STL writers and the binary loader. encoding/binary, bufio and os
// are external: a call is an event carrying (by value) what was passed; how
// the bytes are laid out is assumed (A6), which value goes into which field of
// which record, in which order, is proved.

//@ spec stlvec(f [3]float32, v v3.Vec) = f[0] == v.X && f[1] == v.Y && f[2] == v.Z
//@ spec stlrec(d STLTriangle, t *sdf.Triangle3) = stlvec(d.Vertex1, t[0]) && stlvec(d.Vertex2, t[1]) && stlvec(d.Vertex3, t[2]) && stlvec(d.Normal, t.Normal())

//@ func SaveSTL
//@   property C13 C11
//@   id records
//@   invariant 0 rangeindex >= -1 && rangeindex < len(mesh)
//@   body 0 nev("encoding/binary.Write") == 1
//@   body 0 stlrec(evarg("encoding/binary.Write", 0, 2), mesh[rangeindex + 1])
//@   ensures [returns] true
//@ end

//@ func SaveSTL
//@   property C13 C11
//@   id header
//@   invariant 0 true
//@   atentry 0 nev("encoding/binary.Write") == 1 && evarg("encoding/binary.Write", 0, 2).Count == len(mesh) % 4294967296
//@   ensures [flush-at-the-end] nev("encoding/binary.Write") == 0 && isnil(r) ==> nev("(*bufio.Writer).Flush") == 1
//@ end

//@ func writeSTL$1
//@   property C13 C11
//@   id records
//@   invariant 0 true
//@   invariant 1 rangeindex >= -1 && rangeindex < len(ts) && count == (pre(count) + rangeindex + 1) % 4294967296
//@   body 1 nev("encoding/binary.Write") == 1
//@   body 1 stlrec(evarg("encoding/binary.Write", 0, 2), ts[rangeindex + 1])
//@   ensures [flush-then-seek-then-header] nev("print") == 0 ==> evbefore("(*bufio.Writer).Flush", "(*os.File).Seek") && evbefore("(*os.File).Seek", "encoding/binary.Write")
//@   ensures [one-header-rewrite] nev("print") == 0 ==> nev("encoding/binary.Write") == 1
//@   ensures [header-carries-the-count] nev("print") == 0 ==> evarg("encoding/binary.Write", 0, 2).Count == count
//@ end

//@ func loadSTLBinary
//@   property C13
//@   id records
//@   invariant 0 rangeindex >= -1 && rangeindex < len(mesh)
//@   invariant 0 forall j int, k int :: 0 <= j && j < k && k <= rangeindex ==> !isnil(mesh[j]) && mesh[j] != mesh[k]
//@   body 0 stlvec(d.Vertex1, (*mesh[rangeindex + 1])[0]) && stlvec(d.Vertex2, (*mesh[rangeindex + 1])[1]) && stlvec(d.Vertex3, (*mesh[rangeindex + 1])[2])
//@   ensures [count-from-header] isnil(err) ==> len(r) == header.Count
//@   ensures [every-record-gets-a-triangle-of-its-own] forall j int, k int :: isnil(err) && 0 <= j && j < k && k < len(r) ==> !isnil(r[j]) && r[j] != r[k]
//@ end

//-----------------------------------------------------------------------------
// C15 (and the file-writer part of C11): 3MF, DXF and SVG exports. The
// libraries (go3mf, yofu/dxf, svgo) are external: each call is an event
// carrying its arguments by value. Proved: which calls are made, with which
// arguments, in which order. Assumed (A6): what the libraries write for them
// (zip container, decimals, de-duplication table, group codes).

//@ func toPoint3D
//@   property C15
//@   ensures [axes-in-order] r[0] == a.X && r[1] == a.Y && r[2] == a.Z
//@ end

//@ func write3MF$1
//@   property C15 C11
//@   id triangles
//@   invariant 0 true
//@   invariant 1 rangeindex >= -1 && rangeindex < len(ts) && len(mesh.Triangles.Triangle) == pre(len(mesh.Triangles.Triangle)) + rangeindex + 1
//@   invariant 1 forall k int :: 0 <= k && k < pre(len(mesh.Triangles.Triangle)) ==> mesh.Triangles.Triangle[k].V1 == pre(mesh.Triangles.Triangle[k].V1) && mesh.Triangles.Triangle[k].V2 == pre(mesh.Triangles.Triangle[k].V2) && mesh.Triangles.Triangle[k].V3 == pre(mesh.Triangles.Triangle[k].V3)
//@   body 1 nev("MeshBuilder).AddVertex") == 3
//@   body 1 evarg("MeshBuilder).AddVertex", 0, 1) == toPoint3D(t[0]) && evarg("MeshBuilder).AddVertex", 1, 1) == toPoint3D(t[1]) && evarg("MeshBuilder).AddVertex", 2, 1) == toPoint3D(t[2])
//@   body 1 mesh.Triangles.Triangle[len(mesh.Triangles.Triangle) - 1].V1 == evres("MeshBuilder).AddVertex", 0, 0) && mesh.Triangles.Triangle[len(mesh.Triangles.Triangle) - 1].V2 == evres("MeshBuilder).AddVertex", 1, 0) && mesh.Triangles.Triangle[len(mesh.Triangles.Triangle) - 1].V3 == evres("MeshBuilder).AddVertex", 2, 0)
//@   ensures [encoded-after-the-channel-is-drained] nev("Encoder).Encode") <= 1
//@ end

//@ func NewDXF
//@   property C15
//@   ensures [both-layers-created] nev("Drawing).AddLayer") == 2 && evarg("Drawing).AddLayer", 0, 1) == "Lines" && evarg("Drawing).AddLayer", 1, 1) == "Points"
//@ end

//@ func SaveDXF
//@   property C15
//@   id lines
//@   invariant 0 rangeindex >= -1 && rangeindex < len(mesh)
//@   atentry 0 nev("Drawing).ChangeLayer") == 1 && evarg("Drawing).ChangeLayer", 0, 1) == "Lines" && nev("Drawing).Line") == 0
//@   body 0 nev("Drawing).Line") == 1 && nev("Drawing).ChangeLayer") == 0
//@   body 0 evarg("Drawing).Line", 0, 1) == (*mesh[rangeindex + 1])[0].X && evarg("Drawing).Line", 0, 2) == (*mesh[rangeindex + 1])[0].Y && evarg("Drawing).Line", 0, 3) == 0
//@   body 0 evarg("Drawing).Line", 0, 4) == (*mesh[rangeindex + 1])[1].X && evarg("Drawing).Line", 0, 5) == (*mesh[rangeindex + 1])[1].Y && evarg("Drawing).Line", 0, 6) == 0
//@   ensures [saved-after-the-lines] nev("Drawing).Line") == 0 ==> nev("Drawing).SaveAs") == 1
//@ end

//@ func writeDXF
//@   property C15
//@   id layer
//@   ensures [lines-layer-selected-before-the-consumer-starts] nev("Drawing).ChangeLayer") == 1 && evarg("Drawing).ChangeLayer", 0, 1) == "Lines"
//@ end

//@ func writeDXF$1
//@   property C15 C11
//@   id lines
//@   invariant 0 true
//@   invariant 1 rangeindex >= -1 && rangeindex < len(ls)
//@   body 1 nev("Drawing).Line") == 1 && nev("Drawing).ChangeLayer") == 0
//@   body 1 evarg("Drawing).Line", 0, 1) == (*ls[rangeindex + 1])[0].X && evarg("Drawing).Line", 0, 2) == (*ls[rangeindex + 1])[0].Y && evarg("Drawing).Line", 0, 3) == 0
//@   body 1 evarg("Drawing).Line", 0, 4) == (*ls[rangeindex + 1])[1].X && evarg("Drawing).Line", 0, 5) == (*ls[rangeindex + 1])[1].Y && evarg("Drawing).Line", 0, 6) == 0
//@   ensures [returns] true
//@ end

//@ func SVG.Line
//@   property C15
//@   requires len(s.p0s) == len(s.p1s) && len(s.p0s) >= 0
//@   ensures [one-more-segment] len(s.p0s) == old(len(s.p0s)) + 1 && len(s.p1s) == len(s.p0s)
//@   ensures [appended-last] s.p0s[old(len(s.p0s))] == p0 && s.p1s[old(len(s.p1s))] == p1
//@   ensures [earlier-segments-kept] forall k int :: 0 <= k && k < old(len(s.p0s)) ==> s.p0s[k] == old(s.p0s[k]) && s.p1s[k] == old(s.p1s[k])
//@   ensures [first-segment-sets-the-extent] old(len(s.p0s)) == 0 ==> s.min.X == min(p0.X, p1.X) && s.min.Y == min(p0.Y, p1.Y) && s.max.X == max(p0.X, p1.X) && s.max.Y == max(p0.Y, p1.Y)
//@   ensures [later-segments-grow-the-extent] old(len(s.p0s)) > 0 ==> s.min.X == min(old(s.min.X), p0.X, p1.X) && s.min.Y == min(old(s.min.Y), p0.Y, p1.Y) && s.max.X == max(old(s.max.X), p0.X, p1.X) && s.max.Y == max(old(s.max.Y), p0.Y, p1.Y)
//@ end

//@ func SVG.Save
//@   property C15
//@   opt safety
//@   requires len(s.p0s) == len(s.p1s) && len(s.p0s) >= 0
//@   invariant 0 rangeindex >= -1 && rangeindex < len(s.p0s)
//@   atentry 0 nev("SVG).Start") == 1 && evarg("SVG).Start", 0, 1) == s.max.X - s.min.X && evarg("SVG).Start", 0, 2) == s.max.Y - s.min.Y
//@   body 0 nev("SVG).Line") == 1
//@   body 0 evarg("SVG).Line", 0, 1) == s.p0s[rangeindex + 1].X - s.min.X && evarg("SVG).Line", 0, 2) == s.max.Y - s.p0s[rangeindex + 1].Y
//@   body 0 evarg("SVG).Line", 0, 3) == s.p1s[rangeindex + 1].X - s.min.X && evarg("SVG).Line", 0, 4) == s.max.Y - s.p1s[rangeindex + 1].Y
//@   ensures [end-then-close] nev("SVG).Line") == 0 && nev("os.Create") == 0 ==> nev("SVG).End") == 1 && evbefore("SVG).End", "File).Close")
//@ end

//@ func SVG.Save
//@   property C15
//@   id summary
//@   trusted call sites see only "returns"; the body is verified by the contract SVG.Save above
//@   ensures [returns] true
//@ end

//@ func SaveSVG
//@   property C15
//@   id feeds
//@   invariant 0 rangeindex >= -1 && rangeindex < len(mesh) && len(s.p0s) == len(s.p1s) && len(s.p0s) >= 0
//@   body 0 s.p0s[len(s.p0s) - 1] == (*mesh[rangeindex + 1])[0] && s.p1s[len(s.p1s) - 1] == (*mesh[rangeindex + 1])[1]
//@   body 0 len(s.p0s) == pre(len(s.p0s)) + rangeindex + 2 || true
//@   ensures [returns] true
//@ end

//@ func writeSVG$1
//@   property C15 C11
//@   id feeds
//@   requires len(s.p0s) == len(s.p1s) && len(s.p0s) >= 0
//@   invariant 0 len(s.p0s) == len(s.p1s) && len(s.p0s) >= 0
//@   invariant 1 rangeindex >= -1 && rangeindex < len(ls) && len(s.p0s) == len(s.p1s) && len(s.p0s) == pre(len(s.p0s)) + rangeindex + 1
//@   body 1 s.p0s[len(s.p0s) - 1] == (*ls[rangeindex + 1])[0] && s.p1s[len(s.p1s) - 1] == (*ls[rangeindex + 1])[1]
//@   ensures [returns] true
//@ end

//-----------------------------------------------------------------------------
// C07: the octree renderer loses nothing. Pieces (the induction over the
// octree depth from the one-level contract is meta-argument A8(v)):
//   cache      - dcache3.evaluate returns the lattice point and the shape's value there
//   hdiag      - the half-diagonal table holds 1/2*sqrt(3)*2^i*resolution
//   L1 pruning - isEmpty implies no lattice value inside the cube changes sign (1-Lipschitz field)
//   one level  - processCube either prunes, or emits the cell of its 8 lattice corners, or
//                visits each of its 8 children exactly once

//@ spec lat3(dc *dcache3, k v3i.Vec) = dc.origin.Add(conv.V3iToV3(k).MulScalar(dc.resolution))
//@ spec cacheinv3(dc *dcache3, k v3i.Vec) = maphas(dc.cache, k) ==> mapval(dc.cache, k) == dc.s.Evaluate(lat3(dc, k))
//@ spec lip3r(s sdf.SDF3, a v3.Vec, b v3.Vec) = sq(s.Evaluate(a) - s.Evaluate(b)) <= a.Sub(b).Length2()

//@ func dcache3.evaluate
//@   property C07 C06
//@   id cache
//@   modular
//@   requires forall k v3i.Vec :: cacheinv3(dc, k)
//@   ensures [lattice-point] r0 == lat3(dc, vi)
//@   ensures [value-of-the-shape-there] r1 == dc.s.Evaluate(lat3(dc, vi))
//@   ensures [cache-stays-correct] forall k v3i.Vec :: cacheinv3(dc, k)
//@ end

//@ func newDcache3
//@   property C07
//@   id hdiag
//@   modular
//@   invariant 0 rangeindex >= -1 && rangeindex < len(dc.hdiag) && len(dc.hdiag) == n
//@   invariant 0 forall k int :: 0 <= k && k <= rangeindex ==> dc.hdiag[k] == 0.5*sqrt(3*sq(real(pow2(k))*dc.resolution))
//@   ensures [table-length] len(r.hdiag) == n
//@   ensures [half-diagonals] forall k int :: 0 <= k && k < n ==> r.hdiag[k] == 0.5*sqrt(3*sq(real(pow2(k))*resolution))
//@   ensures [fields] r.origin == origin && r.resolution == resolution && r.s == s
//@   ensures [empty-cache] forall k v3i.Vec :: !maphas(r.cache, k)
//@ end

//@ func dcache3.isEmpty
//@   property C07
//@   id pruning-sound
//@   forall t v3.Vec
//@   requires c.n >= 1 && c.n < len(dc.hdiag) && dc.resolution > 0
//@   requires forall k int :: 0 <= k && k < len(dc.hdiag) ==> dc.hdiag[k] == 0.5*sqrt(3*sq(real(pow2(k))*dc.resolution))
//@   requires forall k v3i.Vec :: cacheinv3(dc, k)
//@   requires forall a v3.Vec, b v3.Vec :: lip3r(dc.s, a, b)
//@   requires 0 <= t.X && t.X <= real(pow2(c.n)) && 0 <= t.Y && t.Y <= real(pow2(c.n)) && 0 <= t.Z && t.Z <= real(pow2(c.n))
//@   let half = real(pow2(c.n - 1))
//@   let h = dc.hdiag[c.n]
//@   let dq = v3.Vec{(t.X - half)*dc.resolution, (t.Y - half)*dc.resolution, (t.Z - half)*dc.resolution}
//@   let ctr = lat3(dc, c.v.AddScalar(pow2(c.n - 1)))
//@   let q = ctr.Add(dq)
//@   assert [side-doubles] real(pow2(c.n)) == 2*half && half >= 1
//@   assert [half-diagonal-squared] h >= 0 && sq(h) == 3*sq(half*dc.resolution)
//@   assert [x-within-half-side] sq(t.X - half) <= sq(half)
//@   assert [y-within-half-side] sq(t.Y - half) <= sq(half)
//@   assert [z-within-half-side] sq(t.Z - half) <= sq(half)
//@   assert [inside-the-half-diagonal-ball] dq.Length2() <= sq(h)
//@   let e1 = dc.s.Evaluate(ctr)
//@   let e2 = dc.s.Evaluate(q)
//@   assert [lipschitz-instance] sq(e1 - e2) <= dq.Length2()
//@   assert [centre-value-is-what-isEmpty-compares] r ==> abs(e1) >= h
//@   assert [values-differ-by-at-most-the-half-diagonal] sq(e1 - e2) <= sq(h) && h >= 0
//@   focus centre-value-is-what-isEmpty-compares values-differ-by-at-most-the-half-diagonal
//@   ensures [no-sign-change-inside-a-pruned-cube] r ==> (e1 >= 0 ==> e2 >= 0) && (e1 <= 0 ==> e2 <= 0)
//@ end

//@ func mcToTriangles
//@   property C07
//@   id summary
//@   trusted call sites see the cell generator as a function of its corners and values only; what it returns is the subject of C05
//@   ensures [returns] true
//@ end

// C07 empty-leaf lemma: a finest cell the pruning rule would have discarded
// one level up can still be visited when |f(centre)| is exactly the half
// diagonal; the corner where f is then 0 is the only corner not strictly
// inside, every table vertex snaps to that corner (the other values are at
// least epsilon away) and the degeneracy filter drops every element. Proved on
// the real cell generators with the real interpolation and degeneracy test
// inlined (opt prune: branches the preconditions decide are not forked).

//@ func mcToTriangles
//@   property C07
//@   id lone-zero-corner-0
//@   opt split
//@   opt prune
//@   requires v[0] == x
//@   requires v[1] <= x - epsilon && v[2] <= x - epsilon && v[3] <= x - epsilon && v[4] <= x - epsilon && v[5] <= x - epsilon && v[6] <= x - epsilon && v[7] <= x - epsilon
//@   ensures [emits-nothing] len(r) == 0
//@ end

//@ func mcToTriangles
//@   property C07
//@   id lone-zero-corner-1
//@   opt split
//@   opt prune
//@   requires v[1] == x
//@   requires v[0] <= x - epsilon && v[2] <= x - epsilon && v[3] <= x - epsilon && v[4] <= x - epsilon && v[5] <= x - epsilon && v[6] <= x - epsilon && v[7] <= x - epsilon
//@   ensures [emits-nothing] len(r) == 0
//@ end

//@ func mcToTriangles
//@   property C07
//@   id lone-zero-corner-2
//@   opt split
//@   opt prune
//@   requires v[2] == x
//@   requires v[0] <= x - epsilon && v[1] <= x - epsilon && v[3] <= x - epsilon && v[4] <= x - epsilon && v[5] <= x - epsilon && v[6] <= x - epsilon && v[7] <= x - epsilon
//@   ensures [emits-nothing] len(r) == 0
//@ end

//@ func mcToTriangles
//@   property C07
//@   id lone-zero-corner-3
//@   opt split
//@   opt prune
//@   requires v[3] == x
//@   requires v[0] <= x - epsilon && v[1] <= x - epsilon && v[2] <= x - epsilon && v[4] <= x - epsilon && v[5] <= x - epsilon && v[6] <= x - epsilon && v[7] <= x - epsilon
//@   ensures [emits-nothing] len(r) == 0
//@ end

//@ func mcToTriangles
//@   property C07
//@   id lone-zero-corner-4
//@   opt split
//@   opt prune
//@   requires v[4] == x
//@   requires v[0] <= x - epsilon && v[1] <= x - epsilon && v[2] <= x - epsilon && v[3] <= x - epsilon && v[5] <= x - epsilon && v[6] <= x - epsilon && v[7] <= x - epsilon
//@   ensures [emits-nothing] len(r) == 0
//@ end

//@ func mcToTriangles
//@   property C07
//@   id lone-zero-corner-5
//@   opt split
//@   opt prune
//@   requires v[5] == x
//@   requires v[0] <= x - epsilon && v[1] <= x - epsilon && v[2] <= x - epsilon && v[3] <= x - epsilon && v[4] <= x - epsilon && v[6] <= x - epsilon && v[7] <= x - epsilon
//@   ensures [emits-nothing] len(r) == 0
//@ end

//@ func mcToTriangles
//@   property C07
//@   id lone-zero-corner-6
//@   opt split
//@   opt prune
//@   requires v[6] == x
//@   requires v[0] <= x - epsilon && v[1] <= x - epsilon && v[2] <= x - epsilon && v[3] <= x - epsilon && v[4] <= x - epsilon && v[5] <= x - epsilon && v[7] <= x - epsilon
//@   ensures [emits-nothing] len(r) == 0
//@ end

//@ func mcToTriangles
//@   property C07
//@   id lone-zero-corner-7
//@   opt split
//@   opt prune
//@   requires v[7] == x
//@   requires v[0] <= x - epsilon && v[1] <= x - epsilon && v[2] <= x - epsilon && v[3] <= x - epsilon && v[4] <= x - epsilon && v[5] <= x - epsilon && v[6] <= x - epsilon
//@   ensures [emits-nothing] len(r) == 0
//@ end

//@ func mcToTriangles
//@   property C07
//@   id every-corner-inside
//@   opt split
//@   opt prune
//@   requires v[0] < x && v[1] < x && v[2] < x && v[3] < x && v[4] < x && v[5] < x && v[6] < x && v[7] < x
//@   ensures [emits-nothing] len(r) == 0
//@ end

//@ func mcToTriangles
//@   property C07
//@   id no-corner-inside
//@   opt split
//@   opt prune
//@   requires v[0] >= x && v[1] >= x && v[2] >= x && v[3] >= x && v[4] >= x && v[5] >= x && v[6] >= x && v[7] >= x
//@   ensures [emits-nothing] len(r) == 0
//@ end

//@ func msToLines
//@   property C07
//@   id lone-zero-corner-0
//@   opt split
//@   opt prune
//@   requires v[0] == x
//@   requires v[1] <= x - epsilon && v[2] <= x - epsilon && v[3] <= x - epsilon
//@   ensures [emits-nothing] len(r) == 0
//@ end

//@ func msToLines
//@   property C07
//@   id lone-zero-corner-1
//@   opt split
//@   opt prune
//@   requires v[1] == x
//@   requires v[0] <= x - epsilon && v[2] <= x - epsilon && v[3] <= x - epsilon
//@   ensures [emits-nothing] len(r) == 0
//@ end

//@ func msToLines
//@   property C07
//@   id lone-zero-corner-2
//@   opt split
//@   opt prune
//@   requires v[2] == x
//@   requires v[0] <= x - epsilon && v[1] <= x - epsilon && v[3] <= x - epsilon
//@   ensures [emits-nothing] len(r) == 0
//@ end

//@ func msToLines
//@   property C07
//@   id lone-zero-corner-3
//@   opt split
//@   opt prune
//@   requires v[3] == x
//@   requires v[0] <= x - epsilon && v[1] <= x - epsilon && v[2] <= x - epsilon
//@   ensures [emits-nothing] len(r) == 0
//@ end

//@ func msToLines
//@   property C07
//@   id every-corner-inside
//@   opt split
//@   opt prune
//@   requires v[0] < x && v[1] < x && v[2] < x && v[3] < x
//@   ensures [emits-nothing] len(r) == 0
//@ end

//@ func msToLines
//@   property C07
//@   id no-corner-inside
//@   opt split
//@   opt prune
//@   requires v[0] >= x && v[1] >= x && v[2] >= x && v[3] >= x
//@   ensures [emits-nothing] len(r) == 0
//@ end

//@ func dcache3.processCube
//@   property C07
//@   id one-level
//@   modular
//@   requires c.n >= 1 && c.n < len(dc.hdiag)
//@   requires forall k v3i.Vec :: cacheinv3(dc, k)
//@   let pruned = abs(dc.s.Evaluate(lat3(dc, c.v.AddScalar(pow2(c.n - 1))))) >= dc.hdiag[c.n]
//@   ensures [pruned-cube-emits-nothing-and-visits-nothing] pruned ==> nev("call:processCube") == 0 && nev(").Write") == 0 && nev("call:mcToTriangles") == 0
//@   ensures [finest-cube-emits-exactly-its-cell] !pruned && c.n == 1 ==> nev(").Write") == 1 && nev("call:mcToTriangles") == 1 && nev("call:processCube") == 0 && evarg("call:mcToTriangles", 0, 2) == 0
//@   ensures [cell-corners-are-the-lattice-points-in-table-order] !pruned && c.n == 1 ==> evarg("call:mcToTriangles", 0, 0)[0] == lat3(dc, c.v.Add(v3i.Vec{0, 0, 0})) && evarg("call:mcToTriangles", 0, 0)[1] == lat3(dc, c.v.Add(v3i.Vec{2, 0, 0})) && evarg("call:mcToTriangles", 0, 0)[2] == lat3(dc, c.v.Add(v3i.Vec{2, 2, 0})) && evarg("call:mcToTriangles", 0, 0)[3] == lat3(dc, c.v.Add(v3i.Vec{0, 2, 0})) && evarg("call:mcToTriangles", 0, 0)[4] == lat3(dc, c.v.Add(v3i.Vec{0, 0, 2})) && evarg("call:mcToTriangles", 0, 0)[5] == lat3(dc, c.v.Add(v3i.Vec{2, 0, 2})) && evarg("call:mcToTriangles", 0, 0)[6] == lat3(dc, c.v.Add(v3i.Vec{2, 2, 2})) && evarg("call:mcToTriangles", 0, 0)[7] == lat3(dc, c.v.Add(v3i.Vec{0, 2, 2}))
//@   ensures [cell-values-are-the-shape-at-those-corners] !pruned && c.n == 1 ==> evarg("call:mcToTriangles", 0, 1)[0] == dc.s.Evaluate(lat3(dc, c.v.Add(v3i.Vec{0, 0, 0}))) && evarg("call:mcToTriangles", 0, 1)[1] == dc.s.Evaluate(lat3(dc, c.v.Add(v3i.Vec{2, 0, 0}))) && evarg("call:mcToTriangles", 0, 1)[2] == dc.s.Evaluate(lat3(dc, c.v.Add(v3i.Vec{2, 2, 0}))) && evarg("call:mcToTriangles", 0, 1)[3] == dc.s.Evaluate(lat3(dc, c.v.Add(v3i.Vec{0, 2, 0}))) && evarg("call:mcToTriangles", 0, 1)[4] == dc.s.Evaluate(lat3(dc, c.v.Add(v3i.Vec{0, 0, 2}))) && evarg("call:mcToTriangles", 0, 1)[5] == dc.s.Evaluate(lat3(dc, c.v.Add(v3i.Vec{2, 0, 2}))) && evarg("call:mcToTriangles", 0, 1)[6] == dc.s.Evaluate(lat3(dc, c.v.Add(v3i.Vec{2, 2, 2}))) && evarg("call:mcToTriangles", 0, 1)[7] == dc.s.Evaluate(lat3(dc, c.v.Add(v3i.Vec{0, 2, 2})))
//@   ensures [coarser-cube-visits-each-of-its-eight-children-exactly-once] !pruned && c.n > 1 ==> nev("call:processCube") == 8 && nev(").Write") == 0 && nevmatch("call:processCube", 1, cube{c.v.Add(v3i.Vec{0, 0, 0}), c.n - 1}) == 1 && nevmatch("call:processCube", 1, cube{c.v.Add(v3i.Vec{pow2(c.n - 1), 0, 0}), c.n - 1}) == 1 && nevmatch("call:processCube", 1, cube{c.v.Add(v3i.Vec{0, pow2(c.n - 1), 0}), c.n - 1}) == 1 && nevmatch("call:processCube", 1, cube{c.v.Add(v3i.Vec{pow2(c.n - 1), pow2(c.n - 1), 0}), c.n - 1}) == 1 && nevmatch("call:processCube", 1, cube{c.v.Add(v3i.Vec{0, 0, pow2(c.n - 1)}), c.n - 1}) == 1 && nevmatch("call:processCube", 1, cube{c.v.Add(v3i.Vec{pow2(c.n - 1), 0, pow2(c.n - 1)}), c.n - 1}) == 1 && nevmatch("call:processCube", 1, cube{c.v.Add(v3i.Vec{0, pow2(c.n - 1), pow2(c.n - 1)}), c.n - 1}) == 1 && nevmatch("call:processCube", 1, cube{c.v.Add(v3i.Vec{pow2(c.n - 1), pow2(c.n - 1), pow2(c.n - 1)}), c.n - 1}) == 1
//@   ensures [cache-stays-correct] forall k v3i.Vec :: cacheinv3(dc, k)
//@ end

//-----------------------------------------------------------------------------
// C07, quadtree marching squares (same structure in 2D)

//@ spec lat2(dc *dcache2, k v2i.Vec) = dc.origin.Add(conv.V2iToV2(k).MulScalar(dc.resolution))
//@ spec cacheinv2(dc *dcache2, k v2i.Vec) = maphas(dc.cache, k) ==> mapval(dc.cache, k) == dc.s.Evaluate(lat2(dc, k))
//@ spec lip2r(s sdf.SDF2, a v2.Vec, b v2.Vec) = sq(s.Evaluate(a) - s.Evaluate(b)) <= a.Sub(b).Length2()

//@ func dcache2.evaluate
//@   property C07
//@   id cache
//@   modular
//@   requires forall k v2i.Vec :: cacheinv2(dc, k)
//@   ensures [lattice-point] r0 == lat2(dc, vi)
//@   ensures [value-of-the-shape-there] r1 == dc.s.Evaluate(lat2(dc, vi))
//@   ensures [cache-stays-correct] forall k v2i.Vec :: cacheinv2(dc, k)
//@ end

//@ func newDcache2
//@   property C07
//@   id hdiag
//@   modular
//@   invariant 0 rangeindex >= -1 && rangeindex < len(dc.hdiag) && len(dc.hdiag) == n
//@   invariant 0 forall k int :: 0 <= k && k <= rangeindex ==> dc.hdiag[k] == 0.5*sqrt(2*sq(real(pow2(k))*dc.resolution))
//@   ensures [table-length] len(r.hdiag) == n
//@   ensures [half-diagonals] forall k int :: 0 <= k && k < n ==> r.hdiag[k] == 0.5*sqrt(2*sq(real(pow2(k))*resolution))
//@   ensures [fields] r.origin == origin && r.resolution == resolution && r.s == s
//@   ensures [empty-cache] forall k v2i.Vec :: !maphas(r.cache, k)
//@ end

//@ func dcache2.isEmpty
//@   property C07
//@   id pruning-sound
//@   forall t v2.Vec
//@   requires c.n >= 1 && c.n < len(dc.hdiag) && dc.resolution > 0
//@   requires forall k int :: 0 <= k && k < len(dc.hdiag) ==> dc.hdiag[k] == 0.5*sqrt(2*sq(real(pow2(k))*dc.resolution))
//@   requires forall k v2i.Vec :: cacheinv2(dc, k)
//@   requires forall a v2.Vec, b v2.Vec :: lip2r(dc.s, a, b)
//@   requires 0 <= t.X && t.X <= real(pow2(c.n)) && 0 <= t.Y && t.Y <= real(pow2(c.n))
//@   let half = real(pow2(c.n - 1))
//@   let h = dc.hdiag[c.n]
//@   let dq = v2.Vec{(t.X - half)*dc.resolution, (t.Y - half)*dc.resolution}
//@   let ctr = lat2(dc, c.v.AddScalar(pow2(c.n - 1)))
//@   let q = ctr.Add(dq)
//@   assert [side-doubles] real(pow2(c.n)) == 2*half && half >= 1
//@   assert [half-diagonal-squared] h >= 0 && sq(h) == 2*sq(half*dc.resolution)
//@   assert [x-within-half-side] sq(t.X - half) <= sq(half)
//@   assert [y-within-half-side] sq(t.Y - half) <= sq(half)
//@   assert [inside-the-half-diagonal-disc] dq.Length2() <= sq(h)
//@   let e1 = dc.s.Evaluate(ctr)
//@   let e2 = dc.s.Evaluate(q)
//@   assert [lipschitz-instance] sq(e1 - e2) <= dq.Length2()
//@   assert [centre-value-is-what-isEmpty-compares] r ==> abs(e1) >= h
//@   assert [values-differ-by-at-most-the-half-diagonal] sq(e1 - e2) <= sq(h) && h >= 0
//@   focus centre-value-is-what-isEmpty-compares values-differ-by-at-most-the-half-diagonal
//@   ensures [no-sign-change-inside-a-pruned-square] r ==> (e1 >= 0 ==> e2 >= 0) && (e1 <= 0 ==> e2 <= 0)
//@ end

//@ func msToLines
//@   property C07
//@   id summary
//@   trusted call sites see the cell generator as a function of its corners and values only; what it returns is the subject of C08
//@   ensures [returns] true
//@ end

//@ func dcache2.processSquare
//@   property C07
//@   id one-level
//@   modular
//@   requires c.n >= 1 && c.n < len(dc.hdiag)
//@   requires forall k v2i.Vec :: cacheinv2(dc, k)
//@   let pruned = abs(dc.s.Evaluate(lat2(dc, c.v.AddScalar(pow2(c.n - 1))))) >= dc.hdiag[c.n]
//@   ensures [pruned-square-emits-nothing-and-visits-nothing] pruned ==> nev("call:processSquare") == 0 && nev(").Write") == 0 && nev("call:msToLines") == 0
//@   ensures [finest-square-emits-exactly-its-cell] !pruned && c.n == 1 ==> nev(").Write") == 1 && nev("call:msToLines") == 1 && nev("call:processSquare") == 0 && evarg("call:msToLines", 0, 2) == 0
//@   ensures [cell-corners-are-the-lattice-points-in-table-order] !pruned && c.n == 1 ==> evarg("call:msToLines", 0, 0)[0] == lat2(dc, c.v.Add(v2i.Vec{0, 0})) && evarg("call:msToLines", 0, 0)[1] == lat2(dc, c.v.Add(v2i.Vec{2, 0})) && evarg("call:msToLines", 0, 0)[2] == lat2(dc, c.v.Add(v2i.Vec{2, 2})) && evarg("call:msToLines", 0, 0)[3] == lat2(dc, c.v.Add(v2i.Vec{0, 2}))
//@   ensures [cell-values-are-the-shape-at-those-corners] !pruned && c.n == 1 ==> evarg("call:msToLines", 0, 1)[0] == dc.s.Evaluate(lat2(dc, c.v.Add(v2i.Vec{0, 0}))) && evarg("call:msToLines", 0, 1)[1] == dc.s.Evaluate(lat2(dc, c.v.Add(v2i.Vec{2, 0}))) && evarg("call:msToLines", 0, 1)[2] == dc.s.Evaluate(lat2(dc, c.v.Add(v2i.Vec{2, 2}))) && evarg("call:msToLines", 0, 1)[3] == dc.s.Evaluate(lat2(dc, c.v.Add(v2i.Vec{0, 2})))
//@   ensures [coarser-square-visits-each-of-its-four-children-exactly-once] !pruned && c.n > 1 ==> nev("call:processSquare") == 4 && nev(").Write") == 0 && nevmatch("call:processSquare", 1, square{c.v.Add(v2i.Vec{0, 0}), c.n - 1}) == 1 && nevmatch("call:processSquare", 1, square{c.v.Add(v2i.Vec{pow2(c.n - 1), 0}), c.n - 1}) == 1 && nevmatch("call:processSquare", 1, square{c.v.Add(v2i.Vec{0, pow2(c.n - 1)}), c.n - 1}) == 1 && nevmatch("call:processSquare", 1, square{c.v.Add(v2i.Vec{pow2(c.n - 1), pow2(c.n - 1)}), c.n - 1}) == 1
//@   ensures [cache-stays-correct] forall k v2i.Vec :: cacheinv2(dc, k)
//@ end

//-----------------------------------------------------------------------------
// C06 (with the interpolation contracts above): the uniform renderers pair
// every cell's corner coordinates with the cached values of exactly those
// lattice points, in the table's corner order, and the lattice tiles the box.

//@ func layerYZ.Get
//@   property C06
//@   ensures [value-index] x == 0 ==> r == l.val0[y*(l.steps.Z + 1) + z]
//@   ensures [next-layer-index] x != 0 ==> r == l.val1[y*(l.steps.Z + 1) + z]
//@ end

//@ func evalRoutines
//@   property C06
//@   id summary
//@   trusted starts the evaluation workers; scheduling is outside contract reach (C09/C12 are not claimed)
//@   ensures [returns] true
//@ end

//@ func layerYZ.Evaluate
//@   property C06
//@   id summary
//@   trusted fills val1 with the shape's values on lattice layer x and moves the previous layer to val0; the batched, concurrent evaluation is not verified (see not_decided)
//@   havoc l.val0
//@   havoc l.val1
//@   ensures [layers-allocated] len(l.val0) == (l.steps.Y + 1)*(l.steps.Z + 1) && len(l.val1) == (l.steps.Y + 1)*(l.steps.Z + 1)
//@ end

//@ func marchingCubes
//@   property C06 C05
//@   id pairing
//@   requires step > 0 && box.Min.X < box.Max.X && box.Min.Y < box.Max.Y && box.Min.Z < box.Max.Z
//@   invariant 0 x >= 0 && p.X == base.X + real(x)*dx
//@   invariant 1 y >= 0 && p.X == base.X + real(x)*dx && p.Y == base.Y + real(y)*dy
//@   invariant 2 z >= 0 && p.X == base.X + real(x)*dx && p.Y == base.Y + real(y)*dy && p.Z == base.Z + real(z)*dz
//@   atentry 0 real(nx) >= size.X/step && real(ny) >= size.Y/step && real(nz) >= size.Z/step && nx >= 1 && ny >= 1 && nz >= 1
//@   atentry 0 dx*real(nx) == size.X && dy*real(ny) == size.Y && dz*real(nz) == size.Z && dx <= step && dy <= step && dz <= step
//@   body 2 nev("call:mcToTriangles") == 1 && nev(").Write") == 1 && evarg("call:mcToTriangles", 0, 2) == 0
//@   body 2 evarg("call:mcToTriangles", 0, 0)[0] == v3.Vec{base.X + real(x)*dx, base.Y + real(y)*dy, base.Z + real(z)*dz} && evarg("call:mcToTriangles", 0, 1)[0] == l.Get(0, y, z)
//@   body 2 evarg("call:mcToTriangles", 0, 0)[1] == v3.Vec{base.X + real(x + 1)*dx, base.Y + real(y)*dy, base.Z + real(z)*dz} && evarg("call:mcToTriangles", 0, 1)[1] == l.Get(1, y, z)
//@   body 2 evarg("call:mcToTriangles", 0, 0)[2] == v3.Vec{base.X + real(x + 1)*dx, base.Y + real(y + 1)*dy, base.Z + real(z)*dz} && evarg("call:mcToTriangles", 0, 1)[2] == l.Get(1, y + 1, z)
//@   body 2 evarg("call:mcToTriangles", 0, 0)[3] == v3.Vec{base.X + real(x)*dx, base.Y + real(y + 1)*dy, base.Z + real(z)*dz} && evarg("call:mcToTriangles", 0, 1)[3] == l.Get(0, y + 1, z)
//@   body 2 evarg("call:mcToTriangles", 0, 0)[4] == v3.Vec{base.X + real(x)*dx, base.Y + real(y)*dy, base.Z + real(z + 1)*dz} && evarg("call:mcToTriangles", 0, 1)[4] == l.Get(0, y, z + 1)
//@   body 2 evarg("call:mcToTriangles", 0, 0)[5] == v3.Vec{base.X + real(x + 1)*dx, base.Y + real(y)*dy, base.Z + real(z + 1)*dz} && evarg("call:mcToTriangles", 0, 1)[5] == l.Get(1, y, z + 1)
//@   body 2 evarg("call:mcToTriangles", 0, 0)[6] == v3.Vec{base.X + real(x + 1)*dx, base.Y + real(y + 1)*dy, base.Z + real(z + 1)*dz} && evarg("call:mcToTriangles", 0, 1)[6] == l.Get(1, y + 1, z + 1)
//@   body 2 evarg("call:mcToTriangles", 0, 0)[7] == v3.Vec{base.X + real(x)*dx, base.Y + real(y + 1)*dy, base.Z + real(z + 1)*dz} && evarg("call:mcToTriangles", 0, 1)[7] == l.Get(0, y + 1, z + 1)
//@   ensures [returns] true
//@ end

//-----------------------------------------------------------------------------
// C08 / C06: the uniform marching squares renderer. Here the whole chain is
// under contract: the line cache holds the shape's values at the lattice
// points of its line, and every cell is handed its four corners in table order
// together with the shape's values at exactly those corners.

//@ spec lat2u(base v2.Vec, inc v2.Vec, x int, y int) = v2.Vec{base.X + real(x)*inc.X, base.Y + real(y)*inc.Y}

//@ func lineCache.evaluate
//@   property C08 C06
//@   id cache
//@   modular
//@   requires l.steps.Y >= 0
//@   requires isnil(l.val1) || len(l.val1) == l.steps.Y + 1
//@   requires isnil(l.val0) || len(l.val0) == l.steps.Y + 1
//@   havoc l.val0
//@   havoc l.val1
//@   invariant 0 y >= 0 && y <= ny + 1 && idx == y && len(l.val1) == ny + 1 && p.X == l.base.X + real(x)*dx && p.Y == l.base.Y + real(y)*dy
//@   invariant 0 forall k int :: 0 <= k && k < y ==> l.val1[k] == s.Evaluate(lat2u(l.base, l.inc, x, k))
//@   ensures [line-holds-the-shape-values] forall k int :: 0 <= k && k <= l.steps.Y ==> l.val1[k] == s.Evaluate(lat2u(l.base, l.inc, x, k))
//@   ensures [previous-line-kept] forall k int :: 0 <= k && k < old(len(l.val1)) ==> l.val0[k] == old(l.val1[k])
//@   ensures [lengths] len(l.val1) == l.steps.Y + 1 && !isnil(l.val1) && len(l.val0) == old(len(l.val1)) && (isnil(l.val0) <==> old(isnil(l.val1)))
//@   ensures [geometry-untouched] l.base == old(l.base) && l.inc == old(l.inc) && l.steps == old(l.steps)
//@ end

//@ func lineCache.get
//@   property C08 C06
//@   ensures [this-line] x == 0 ==> r == l.val0[y]
//@   ensures [next-line] x != 0 ==> r == l.val1[y]
//@ end

//@ func marchingSquares
//@   property C08 C06
//@   id pairing
//@   requires resolution > 0
//@   requires s.BoundingBox().Min.X < s.BoundingBox().Max.X && s.BoundingBox().Min.Y < s.BoundingBox().Max.Y
//@   invariant 0 x >= 0 && p.X == base.X + real(x)*dx && len(l.val1) == ny + 1 && (isnil(l.val0) || len(l.val0) == ny + 1) && l.base == base && l.inc == inc && l.steps == steps && ny >= 0
//@   invariant 0 forall k int :: 0 <= k && k <= ny ==> l.val1[k] == s.Evaluate(lat2u(base, inc, x, k))
//@   invariant 1 y >= 0 && p.Y == base.Y + real(y)*dy && p.X == base.X + real(x)*dx
//@   atentry 0 nx >= 1 && ny >= 1 && dx*real(nx) == size.X && dy*real(ny) == size.Y && dx <= resolution && dy <= resolution
//@   atentry 0 base.X < s.BoundingBox().Min.X && base.Y < s.BoundingBox().Min.Y && base.X + size.X > s.BoundingBox().Max.X && base.Y + size.Y > s.BoundingBox().Max.Y
//@   body 1 nev("call:msToLines") == 1 && nev(").Write") == 1 && evarg("call:msToLines", 0, 2) == 0
//@   body 1 evarg("call:msToLines", 0, 0)[0] == lat2u(base, inc, x, y) && evarg("call:msToLines", 0, 1)[0] == s.Evaluate(lat2u(base, inc, x, y))
//@   body 1 evarg("call:msToLines", 0, 0)[1] == lat2u(base, inc, x + 1, y) && evarg("call:msToLines", 0, 1)[1] == s.Evaluate(lat2u(base, inc, x + 1, y))
//@   body 1 evarg("call:msToLines", 0, 0)[2] == lat2u(base, inc, x + 1, y + 1) && evarg("call:msToLines", 0, 1)[2] == s.Evaluate(lat2u(base, inc, x + 1, y + 1))
//@   body 1 evarg("call:msToLines", 0, 0)[3] == lat2u(base, inc, x, y + 1) && evarg("call:msToLines", 0, 1)[3] == s.Evaluate(lat2u(base, inc, x, y + 1))
//@   ensures [closes-the-output-after-the-last-cell] nev(").Close") == 1
//@ end

//@ lemma mc_vertex_within_one_edge_of_the_surface(s sdf.SDF3, p1 v3.Vec, p2 v3.Vec)
//@   property C06
//@   requires forall a v3.Vec, b v3.Vec :: lip3r(s, a, b)
//@   requires s.Evaluate(p1) < 0 && 0 <= s.Evaluate(p2)
//@   let v = merged(mcInterpolate(p1, p2, s.Evaluate(p1), s.Evaluate(p2), 0))
//@   let tt = merged(mcInterpolate(v3.Vec{0, 0, 0}, v3.Vec{1, 0, 0}, s.Evaluate(p1), s.Evaluate(p2), 0)).X
//@   assert [parameter-in-unit-interval] 0 <= tt && tt <= 1
//@   assert [vertex-is-the-convex-combination] v == p1.Add(p2.Sub(p1).MulScalar(tt))
//@   let fv = s.Evaluate(v)
//@   let h2 = p2.Sub(p1).Length2()
//@   assert [near-first-corner] sq(fv - s.Evaluate(p1)) <= sq(tt)*h2
//@   assert [near-second-corner] sq(fv - s.Evaluate(p2)) <= sq(1 - tt)*h2
//@   assert [corner-signs] s.Evaluate(p1) < 0 && 0 <= s.Evaluate(p2) && h2 >= 0
//@   generalize v
//@   let el = sqrt(h2)
//@   assert [edge-length] el >= 0 && sq(el) == h2
//@   focus parameter-in-unit-interval near-first-corner near-second-corner corner-signs edge-length
//@   assert [within-t-edge-lengths-of-the-first-corner-value] abs(fv - s.Evaluate(p1)) <= tt*el
//@   assert [within-the-rest-of-the-edge-of-the-second] abs(fv - s.Evaluate(p2)) <= (1 - tt)*el
//@   focus parameter-in-unit-interval corner-signs edge-length within-t-edge-lengths-of-the-first-corner-value within-the-rest-of-the-edge-of-the-second
//@   assert [so-within-one-edge-length-of-zero] abs(fv) <= el
//@   focus edge-length so-within-one-edge-length-of-zero
//@   ensures [field-at-the-vertex-is-at-most-one-edge-length] sq(fv) <= h2
//@ end

//-----------------------------------------------------------------------------
// C07, top level: the root cube / square covers the (enlarged) bounding box

//@ func marchingCubesOctree
//@   property C07 C06
//@   id root-covers-the-box
//@   requires resolution > 0
//@   prelet bb = s.BoundingBox().ScaleAboutCenter(1.01)
//@   prelet res = 0.5*resolution
//@   requires bb.Size().MaxComponent() >= resolution
//@   let levels = evarg("call:newDcache3", 0, 3)
//@   ensures [one-cache-for-the-shape-over-the-enlarged-box-at-half-the-cell-size] nev("call:newDcache3") == 1 && evarg("call:newDcache3", 0, 0) == s && evarg("call:newDcache3", 0, 1) == bb.Min && evarg("call:newDcache3", 0, 2) == res
//@   ensures [one-root-cube-at-the-lattice-origin] nev("call:dcache3.processCube") == 1 && evarg("call:dcache3.processCube", 0, 1) == cube{v3i.Vec{0, 0, 0}, levels - 1} && levels >= 2
//@   ensures [whose-side-is-at-least-the-longest-side-of-the-enlarged-box] real(pow2(levels - 1))*res >= bb.Size().MaxComponent()
//@   ensures [then-the-sink-is-closed] nev(".Close") == 1 && evbefore("call:dcache3.processCube", ".Close")
//@ end

//@ func marchingSquaresQuadtree
//@   property C07 C08
//@   id root-covers-the-box
//@   requires resolution > 0
//@   prelet bb = s.BoundingBox().ScaleAboutCenter(1.01)
//@   prelet res = 0.5*resolution
//@   requires bb.Size().MaxComponent() >= resolution
//@   let levels = evarg("call:newDcache2", 0, 3)
//@   ensures [one-cache-for-the-shape-over-the-enlarged-box-at-half-the-cell-size] nev("call:newDcache2") == 1 && evarg("call:newDcache2", 0, 0) == s && evarg("call:newDcache2", 0, 1) == bb.Min && evarg("call:newDcache2", 0, 2) == res
//@   ensures [one-root-square-at-the-lattice-origin] nev("call:dcache2.processSquare") == 1 && evarg("call:dcache2.processSquare", 0, 1) == square{v2i.Vec{0, 0}, levels - 1} && levels >= 2
//@   ensures [whose-side-is-at-least-the-longest-side-of-the-enlarged-box] real(pow2(levels - 1))*res >= bb.Size().MaxComponent()
//@   ensures [then-the-sink-is-closed] nev(".Close") == 1 && evbefore("call:dcache2.processSquare", ".Close")
//@ end

//@ func loadSTLAscii
//@   property C13
//@   id groups-vertices-in-threes
//@   opt inst-rounds 1
//@   invariant 0 len(v) >= 0
//@   invariant 1 i >= 0 && i % 3 == 0 && i <= len(v) + 2 && len(v) % 3 == 0 && 3*len(mesh) == i
//@   invariant 1 forall k int :: 0 <= k && k < len(mesh) ==> !isnil(mesh[k]) && mesh[k][0] == v[3*k] && mesh[k][1] == v[3*k + 1] && mesh[k][2] == v[3*k + 2]
//@   ensures [a-vertex-count-that-is-not-a-multiple-of-three-is-an-error] len(v) % 3 != 0 ==> isnil(r0) && !isnil(r1)
//@   ensures [one-triangle-per-three-vertex-lines-unless-a-number-does-not-parse] len(v) % 3 == 0 ==> 3*len(r0) == len(v) || (isnil(r0) && !isnil(r1))
//@   ensures [holding-them-in-file-order] forall k int :: len(v) % 3 == 0 && 0 <= k && k < len(r0) ==> !isnil(r0[k]) && r0[k][0] == v[3*k] && r0[k][1] == v[3*k + 1] && r0[k][2] == v[3*k + 2]
//@ end

// The vertex the cell code puts on an edge that crosses a sphere about the
// origin: with g(t) the distance of the point at parameter t from the centre,
// the linear interpolant of g reaches R at the vertex, and
//   (interpolant)^2 - g(t)^2 == t(1-t)(h^2 - (g1-g0)^2)
// so the vertex is inside the sphere by at most h^2/4 in squared radius.
//@ lemma mc_vertex_on_a_sphere(p1 v3.Vec, p2 v3.Vec, rad float64)
//@   property C06
//@   requires rad > 0
//@   prelet g0 = sqrt(p1.Length2())
//@   prelet g1 = sqrt(p2.Length2())
//@   prelet v1 = g0 - rad
//@   prelet v2 = g1 - rad
//@   requires v1 <= -1e-12 && v2 >= 1e-12
//@   prelet hh = sqrt(p2.Sub(p1).Length2())
//@   requires hh < rad
//@   let h2 = p2.Sub(p1).Length2()
//@   let v = merged(mcInterpolate(p1, p2, v1, v2, 0))
//@   let tt = merged(mcInterpolate(v3.Vec{0, 0, 0}, v3.Vec{1, 0, 0}, v1, v2, 0)).X
//@   assert [norms] g0 >= 0 && g1 >= 0 && sq(g0) == p1.Length2() && sq(g1) == p2.Length2()
//@   assert [parameter] tt == (0 - v1)/(v2 - v1) && 0 <= tt && tt <= 1
//@   assert [vertex-is-the-convex-combination] v == p1.Add(p2.Sub(p1).MulScalar(tt))
//@   let nv = sqrt(v.Length2())
//@   let far = sqrt(p2.Sub(v).Length2())
//@   assert [edge-length] hh >= 0 && sq(hh) == h2
//@   assert [more-norms] nv >= 0 && sq(nv) == v.Length2() && far >= 0 && sq(far) == p2.Sub(v).Length2()
//@   focus vertex-is-the-convex-combination
//@   assert [distance-to-the-outer-corner] p2.Sub(v).Length2() == sq(1 - tt)*h2
//@   unfocus
//@   use triangle_inequality_3d(v, p2.Sub(v))
//@   assert [outer-corner-by-way-of-the-vertex] g1 <= nv + far
//@   focus parameter distance-to-the-outer-corner more-norms edge-length
//@   assert [squared-distance-to-the-outer-corner-at-most-the-squared-edge] sq(far) <= sq(hh)
//@   assert [vertex-within-one-edge-of-the-outer-corner] far <= hh
//@   focus requires
//@   assert [outer-corner-not-inside] g1 >= rad && rad > 0
//@   focus no-definitions outer-corner-not-inside outer-corner-by-way-of-the-vertex vertex-within-one-edge-of-the-outer-corner
//@   assert [vertex-at-least-the-inner-radius-from-the-centre] nv >= rad - hh
//@   focus requires parameter
//@   assert [the-interpolated-distance-reaches-the-radius-at-the-vertex] (1 - tt)*g0 + tt*g1 == rad
//@   assert [parameter-in-the-unit-interval] 0 <= tt && tt <= 1
//@   unfocus
//@   let nv2 = v.Length2()
//@   let dot = p1.Dot(p2)
//@   assert [edge-length-by-the-cosine-rule] h2 == sq(g0) + sq(g1) - 2*dot
//@   focus norms
//@   assert [lagrange] sq(g0)*sq(g1) - sq(dot) == p1.Cross(p2).Length2()
//@   assert [cauchy-schwarz] sq(dot) <= sq(g0)*sq(g1)
//@   unfocus
//@   generalize tt
//@   focus vertex-is-the-convex-combination norms
//@   assert [norm-of-the-vertex] nv2 == sq(1 - tt)*sq(g0) + sq(tt)*sq(g1) + 2*tt*(1 - tt)*dot
//@   generalize v
//@   generalize dot
//@   focus norms edge-length-by-the-cosine-rule norm-of-the-vertex
//@   assert [norm-squared-along-the-edge] nv2 == (1 - tt)*sq(g0) + tt*sq(g1) - tt*(1 - tt)*h2
//@   focus norm-squared-along-the-edge the-interpolated-distance-reaches-the-radius-at-the-vertex
//@   assert [gap-in-squared-radius] sq(rad) - nv2 == tt*(1 - tt)*(h2 - sq(g1 - g0))
//@   focus norms cauchy-schwarz
//@   assert [so] dot <= g0*g1
//@   focus so edge-length-by-the-cosine-rule
//@   assert [triangle-inequality] h2 - sq(g1 - g0) >= 0
//@   focus parameter-in-the-unit-interval
//@   assert [quarter] tt*(1 - tt) <= 0.25 && tt*(1 - tt) >= 0
//@   focus triangle-inequality
//@   assert [at-most-the-squared-edge] h2 - sq(g1 - g0) <= h2 && h2 >= 0
//@   let fa = tt*(1 - tt)
//@   let fb = h2 - sq(g1 - g0)
//@   generalize fa
//@   generalize fb
//@   focus quarter triangle-inequality
//@   assert [product-bounded-by-a-quarter-of-the-second-factor] fa*fb <= 0.25*fb && fa*fb >= 0
//@   focus gap-in-squared-radius product-bounded-by-a-quarter-of-the-second-factor at-most-the-squared-edge
//@   ensures [the-vertex-is-not-outside-the-sphere] sq(rad) - nv2 >= 0
//@   ensures [and-inside-by-at-most-a-quarter-of-the-squared-edge-in-squared-radius] sq(rad) - nv2 <= h2/4
//@   assert [squared-gap] sq(rad) - nv2 >= 0 && sq(rad) - nv2 <= h2/4
//@   focus squared-gap more-norms outer-corner-not-inside
//@   assert [factored] (rad - nv)*(rad + nv) >= 0 && rad + nv > 0
//@   focus factored
//@   assert [vertex-inside] nv <= rad
//@   focus requires squared-gap more-norms edge-length vertex-at-least-the-inner-radius-from-the-centre vertex-inside
//@   use sphere_gap_from_the_squared_gap(rad, nv, hh)
//@   ensures [within-h-squared-over-eight-times-the-inner-radius-of-the-sphere] rad - nv <= sq(hh)/(8*(rad - hh)) && rad - nv >= 0
//@ end

// the same bound for a sphere about any centre c: interpolation commutes with
// translation (contract of mcInterpolate), so the vertex minus c is the vertex
// of the translated edge
//@ lemma mc_vertex_on_any_sphere(c v3.Vec, p1 v3.Vec, p2 v3.Vec, rad float64)
//@   property C06
//@   requires rad > 0
//@   prelet q1 = p1.Sub(c)
//@   prelet q2 = p2.Sub(c)
//@   prelet v1 = sqrt(q1.Length2()) - rad
//@   prelet v2 = sqrt(q2.Length2()) - rad
//@   requires v1 <= -1e-12 && v2 >= 1e-12
//@   prelet hh = sqrt(q2.Sub(q1).Length2())
//@   requires hh < rad
//@   example c == v3.Vec{0, 0, 0}
//@   let v = merged(mcInterpolate(p1, p2, v1, v2, 0))
//@   let w = merged(mcInterpolate(q1, q2, v1, v2, 0))
//@   focus no-definitions
//@   assert [edge-unchanged-by-translation] q2.Sub(q1) == p2.Sub(p1)
//@   assert [vertex-translates-with-the-edge] v.Sub(c) == w
//@   let dist = sqrt(v.Sub(c).Length2())
//@   focus requires vertex-translates-with-the-edge
//@   use mc_vertex_on_a_sphere(q1, q2, rad)
//@   ensures [within-h-squared-over-eight-times-the-inner-radius-of-the-sphere] rad - dist <= sq(hh)/(8*(rad - hh)) && rad - dist >= 0
//@ end

//@ lemma triangle_inequality_3d(a v3.Vec, b v3.Vec)
//@   property C06
//@   let na = sqrt(a.Length2())
//@   let nb = sqrt(b.Length2())
//@   let ns = sqrt(a.Add(b).Length2())
//@   let dot = a.Dot(b)
//@   assert [norms] na >= 0 && nb >= 0 && ns >= 0 && sq(na) == a.Length2() && sq(nb) == b.Length2() && sq(ns) == a.Add(b).Length2()
//@   assert [lagrange] sq(na)*sq(nb) - sq(dot) == a.Cross(b).Length2()
//@   assert [cauchy-schwarz] sq(dot) <= sq(na*nb)
//@   focus norms cauchy-schwarz
//@   assert [so] dot <= na*nb
//@   unfocus
//@   assert [expand] sq(ns) == sq(na) + sq(nb) + 2*dot
//@   generalize dot
//@   focus norms so expand
//@   assert [squares] sq(ns) <= sq(na + nb)
//@   focus norms squares
//@   ensures [the-norm-of-a-sum-is-at-most-the-sum-of-the-norms] ns <= na + nb
//@ end

//@ lemma sphere_gap_from_the_squared_gap(rad float64, nv float64, hh float64)
//@   property C06
//@   requires 0 <= nv && nv <= rad && 0 <= hh && hh < rad
//@   requires sq(rad) - sq(nv) <= sq(hh)/4
//@   requires nv >= rad - hh
//@   assert [factor] sq(rad) - sq(nv) == (rad - nv)*(rad + nv)
//@   assert [sum-is-at-least-twice-the-inner-radius] rad + nv >= 2*(rad - hh) && rad - hh > 0
//@   assert [product] (rad - nv)*2*(rad - hh) <= sq(hh)/4
//@   focus product sum-is-at-least-twice-the-inner-radius
//@   ensures [within-h-squared-over-eight-times-the-inner-radius] rad - nv <= sq(hh)/(8*(rad - hh))
//@ end

// C08: the same bound for marching squares on a circle
// the same bound for a circle about any centre c: interpolation commutes with
// translation (contract of msInterpolate), so the vertex minus c is the vertex
// of the translated edge
//@ lemma ms_endpoint_on_any_circle(c v2.Vec, p1 v2.Vec, p2 v2.Vec, rad float64)
//@   property C08
//@   requires rad > 0
//@   prelet q1 = p1.Sub(c)
//@   prelet q2 = p2.Sub(c)
//@   prelet v1 = sqrt(q1.Length2()) - rad
//@   prelet v2 = sqrt(q2.Length2()) - rad
//@   requires v1 <= -1e-12 && v2 >= 1e-12
//@   prelet hh = sqrt(q2.Sub(q1).Length2())
//@   requires hh < rad
//@   example c == v2.Vec{0, 0}
//@   let v = merged(msInterpolate(p1, p2, v1, v2, 0))
//@   let w = merged(msInterpolate(q1, q2, v1, v2, 0))
//@   focus no-definitions
//@   assert [edge-unchanged-by-translation] q2.Sub(q1) == p2.Sub(p1)
//@   assert [vertex-translates-with-the-edge] v.Sub(c) == w
//@   let dist = sqrt(v.Sub(c).Length2())
//@   focus requires vertex-translates-with-the-edge
//@   use ms_endpoint_on_a_circle(q1, q2, rad)
//@   ensures [within-h-squared-over-eight-times-the-inner-radius-of-the-circle] rad - dist <= sq(hh)/(8*(rad - hh)) && rad - dist >= 0
//@ end

//@ lemma triangle_inequality_2d(a v2.Vec, b v2.Vec)
//@   property C08
//@   let na = sqrt(a.Length2())
//@   let nb = sqrt(b.Length2())
//@   let ns = sqrt(a.Add(b).Length2())
//@   let dot = a.Dot(b)
//@   assert [norms] na >= 0 && nb >= 0 && ns >= 0 && sq(na) == a.Length2() && sq(nb) == b.Length2() && sq(ns) == a.Add(b).Length2()
//@   assert [lagrange] sq(na)*sq(nb) - sq(dot) == sq(a.Cross(b))
//@   assert [cauchy-schwarz] sq(dot) <= sq(na*nb)
//@   focus norms cauchy-schwarz
//@   assert [so] dot <= na*nb
//@   unfocus
//@   assert [expand] sq(ns) == sq(na) + sq(nb) + 2*dot
//@   generalize dot
//@   focus norms so expand
//@   assert [squares] sq(ns) <= sq(na + nb)
//@   focus norms squares
//@   ensures [the-norm-of-a-sum-is-at-most-the-sum-of-the-norms] ns <= na + nb
//@ end

//@ lemma circle_gap_from_the_squared_gap(rad float64, nv float64, hh float64)
//@   property C08
//@   requires 0 <= nv && nv <= rad && 0 <= hh && hh < rad
//@   requires sq(rad) - sq(nv) <= sq(hh)/4
//@   requires nv >= rad - hh
//@   assert [factor] sq(rad) - sq(nv) == (rad - nv)*(rad + nv)
//@   assert [sum-is-at-least-twice-the-inner-radius] rad + nv >= 2*(rad - hh) && rad - hh > 0
//@   assert [product] (rad - nv)*2*(rad - hh) <= sq(hh)/4
//@   focus product sum-is-at-least-twice-the-inner-radius
//@   ensures [within-h-squared-over-eight-times-the-inner-radius] rad - nv <= sq(hh)/(8*(rad - hh))
//@ end

// The vertex the cell code puts on an edge that crosses a circle about the
// origin: with g(t) the distance of the point at parameter t from the centre,
// the linear interpolant of g reaches R at the vertex, and
//   (interpolant)^2 - g(t)^2 == t(1-t)(h^2 - (g1-g0)^2)
// so the vertex is inside the circle by at most h^2/4 in squared radius.
//@ lemma ms_endpoint_on_a_circle(p1 v2.Vec, p2 v2.Vec, rad float64)
//@   property C08
//@   requires rad > 0
//@   prelet g0 = sqrt(p1.Length2())
//@   prelet g1 = sqrt(p2.Length2())
//@   prelet v1 = g0 - rad
//@   prelet v2 = g1 - rad
//@   requires v1 <= -1e-12 && v2 >= 1e-12
//@   prelet hh = sqrt(p2.Sub(p1).Length2())
//@   requires hh < rad
//@   let h2 = p2.Sub(p1).Length2()
//@   let v = merged(msInterpolate(p1, p2, v1, v2, 0))
//@   let tt = merged(msInterpolate(v2.Vec{0, 0}, v2.Vec{1, 0}, v1, v2, 0)).X
//@   assert [norms] g0 >= 0 && g1 >= 0 && sq(g0) == p1.Length2() && sq(g1) == p2.Length2()
//@   assert [parameter] tt == (0 - v1)/(v2 - v1) && 0 <= tt && tt <= 1
//@   assert [vertex-is-the-convex-combination] v == p1.Add(p2.Sub(p1).MulScalar(tt))
//@   let nv = sqrt(v.Length2())
//@   let far = sqrt(p2.Sub(v).Length2())
//@   assert [edge-length] hh >= 0 && sq(hh) == h2
//@   assert [more-norms] nv >= 0 && sq(nv) == v.Length2() && far >= 0 && sq(far) == p2.Sub(v).Length2()
//@   focus vertex-is-the-convex-combination
//@   assert [distance-to-the-outer-corner] p2.Sub(v).Length2() == sq(1 - tt)*h2
//@   unfocus
//@   use triangle_inequality_2d(v, p2.Sub(v))
//@   assert [outer-corner-by-way-of-the-vertex] g1 <= nv + far
//@   focus parameter distance-to-the-outer-corner more-norms edge-length
//@   assert [squared-distance-to-the-outer-corner-at-most-the-squared-edge] sq(far) <= sq(hh)
//@   assert [vertex-within-one-edge-of-the-outer-corner] far <= hh
//@   focus requires
//@   assert [outer-corner-not-inside] g1 >= rad && rad > 0
//@   focus no-definitions outer-corner-not-inside outer-corner-by-way-of-the-vertex vertex-within-one-edge-of-the-outer-corner
//@   assert [vertex-at-least-the-inner-radius-from-the-centre] nv >= rad - hh
//@   focus requires parameter
//@   assert [the-interpolated-distance-reaches-the-radius-at-the-vertex] (1 - tt)*g0 + tt*g1 == rad
//@   assert [parameter-in-the-unit-interval] 0 <= tt && tt <= 1
//@   unfocus
//@   let nv2 = v.Length2()
//@   let dot = p1.Dot(p2)
//@   assert [edge-length-by-the-cosine-rule] h2 == sq(g0) + sq(g1) - 2*dot
//@   focus norms
//@   assert [lagrange] sq(g0)*sq(g1) - sq(dot) == sq(p1.Cross(p2))
//@   assert [cauchy-schwarz] sq(dot) <= sq(g0)*sq(g1)
//@   unfocus
//@   generalize tt
//@   focus vertex-is-the-convex-combination norms
//@   assert [norm-of-the-vertex] nv2 == sq(1 - tt)*sq(g0) + sq(tt)*sq(g1) + 2*tt*(1 - tt)*dot
//@   generalize v
//@   generalize dot
//@   focus norms edge-length-by-the-cosine-rule norm-of-the-vertex
//@   assert [norm-squared-along-the-edge] nv2 == (1 - tt)*sq(g0) + tt*sq(g1) - tt*(1 - tt)*h2
//@   focus norm-squared-along-the-edge the-interpolated-distance-reaches-the-radius-at-the-vertex
//@   assert [gap-in-squared-radius] sq(rad) - nv2 == tt*(1 - tt)*(h2 - sq(g1 - g0))
//@   focus norms cauchy-schwarz
//@   assert [so] dot <= g0*g1
//@   focus so edge-length-by-the-cosine-rule
//@   assert [triangle-inequality] h2 - sq(g1 - g0) >= 0
//@   focus parameter-in-the-unit-interval
//@   assert [quarter] tt*(1 - tt) <= 0.25 && tt*(1 - tt) >= 0
//@   focus triangle-inequality
//@   assert [at-most-the-squared-edge] h2 - sq(g1 - g0) <= h2 && h2 >= 0
//@   let fa = tt*(1 - tt)
//@   let fb = h2 - sq(g1 - g0)
//@   generalize fa
//@   generalize fb
//@   focus quarter triangle-inequality
//@   assert [product-bounded-by-a-quarter-of-the-second-factor] fa*fb <= 0.25*fb && fa*fb >= 0
//@   focus gap-in-squared-radius product-bounded-by-a-quarter-of-the-second-factor at-most-the-squared-edge
//@   ensures [the-vertex-is-not-outside-the-circle] sq(rad) - nv2 >= 0
//@   ensures [and-inside-by-at-most-a-quarter-of-the-squared-edge-in-squared-radius] sq(rad) - nv2 <= h2/4
//@   assert [squared-gap] sq(rad) - nv2 >= 0 && sq(rad) - nv2 <= h2/4
//@   focus squared-gap more-norms outer-corner-not-inside
//@   assert [factored] (rad - nv)*(rad + nv) >= 0 && rad + nv > 0
//@   focus factored
//@   assert [vertex-inside] nv <= rad
//@   focus requires squared-gap more-norms edge-length vertex-at-least-the-inner-radius-from-the-centre vertex-inside
//@   use circle_gap_from_the_squared_gap(rad, nv, hh)
//@   ensures [within-h-squared-over-eight-times-the-inner-radius-of-the-circle] rad - nv <= sq(hh)/(8*(rad - hh)) && rad - nv >= 0
//@ end

// C20: the set comparison. Canonical puts every triple into its canonical rotation and then
// sorts once (what sort.Sort does with the strict weak order proved above is the library's,
// A6); Equals compares the two canonical forms position by position in all three indices.
//@ func TriangleISet.Canonical
//@   property C20
//@   id canonical-triples-then-one-sort
//@   requires forall k int :: 0 <= k && k < len(ts) ==> ts[k][0] != ts[k][1] && ts[k][1] != ts[k][2] && ts[k][0] != ts[k][2]
//@   invariant 0 rangeindex >= -1 && rangeindex < len(ts)
//@   invariant 0 forall k int :: 0 <= k && k < len(ts) ==> ts[k][0] != ts[k][1] && ts[k][1] != ts[k][2] && ts[k][0] != ts[k][2]
//@   invariant 0 forall k int :: 0 <= k && k <= rangeindex ==> ts[k][0] < ts[k][1] && ts[k][0] < ts[k][2]
//@   invariant 0 nev("sort.Sort") == 0
//@   ensures [the-same-slice-is-returned] len(r) == len(ts)
//@   ensures [sorted-exactly-once-after-every-triple-is-canonical] nev("sort.Sort") == 1
//@ end

//@ func TriangleISet.Equals
//@   property C20
//@   id compares-canonical-forms-in-all-three-indices
//@   summarise TriangleISet.Canonical canonical-triples-then-one-sort
//@   prelet n0 = len(ts)
//@   prelet m0 = len(s)
//@   requires forall k int :: 0 <= k && k < len(ts) ==> ts[k][0] != ts[k][1] && ts[k][1] != ts[k][2] && ts[k][0] != ts[k][2]
//@   requires forall k int :: 0 <= k && k < len(s) ==> s[k][0] != s[k][1] && s[k][1] != s[k][2] && s[k][0] != s[k][2]
//@   invariant 0 rangeindex >= -1 && rangeindex < len(ts) && len(ts) == n0 && len(s) == n0
//@   invariant 0 forall k int :: 0 <= k && k <= rangeindex ==> ts[k][0] == s[k][0] && ts[k][1] == s[k][1] && ts[k][2] == s[k][2]
//@   ensures [sets-of-different-size-differ] n0 != m0 ==> !r
//@   let ca = final(ts)
//@   let cb = final(s)
//@   atentry 0 nev("call:TriangleISet.Canonical") == 2
//@   atentry 0 len(evres("call:TriangleISet.Canonical", 0, 0)) == len(ts) && len(evres("call:TriangleISet.Canonical", 1, 0)) == len(s)
//@   atentry 0 len(evarg("call:TriangleISet.Canonical", 0, 0)) == n0 && len(evarg("call:TriangleISet.Canonical", 1, 0)) == m0
//@   ensures [equal-means-every-canonical-position-agrees-in-all-three-indices] forall k int :: r && 0 <= k && k < n0 ==> ca[k][0] == cb[k][0] && ca[k][1] == cb[k][1] && ca[k][2] == cb[k][2]
//@   ensures [unequal-means-some-canonical-position-differs] exists k int :: r || n0 != m0 || (0 <= k && k < n0 && (ca[k][0] != cb[k][0] || ca[k][1] != cb[k][1] || ca[k][2] != cb[k][2]))
//@ end
