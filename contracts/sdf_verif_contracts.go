//go:build verif

// Contracts for package sdf, checked by /verif (govc). Comment-only file: with
// the build tag off it does not exist for the compiler; with it on it adds
// nothing but a package clause.

package sdf

//@ spec clampd2(x real, lo real, hi real) = sq(x - max(lo, min(x, hi)))
//@ spec fard2(x real, lo real, hi real) = sq(max(abs(x-lo), abs(x-hi)))

//-----------------------------------------------------------------------------
// C16: point-to-box distance intervals are exact; intervals overlap iff they share a value

//@ func Box2.MinMaxDist2
//@   property C16
//@   requires a.Min.X <= a.Max.X && a.Min.Y <= a.Max.Y
//@   ensures [min] r[0] == clampd2(p.X, a.Min.X, a.Max.X) + clampd2(p.Y, a.Min.Y, a.Max.Y)
//@   ensures [max] r[1] == fard2(p.X, a.Min.X, a.Max.X) + fard2(p.Y, a.Min.Y, a.Max.Y)
//@ end

//@ func Box3.MinMaxDist2
//@   property C16
//@   requires a.Min.X <= a.Max.X && a.Min.Y <= a.Max.Y && a.Min.Z <= a.Max.Z
//@   assert sq(p.X-a.Min.X) <= sq(p.X-a.Max.X) <==> abs(p.X-a.Min.X) <= abs(p.X-a.Max.X)
//@   assert sq(p.Y-a.Min.Y) <= sq(p.Y-a.Max.Y) <==> abs(p.Y-a.Min.Y) <= abs(p.Y-a.Max.Y)
//@   assert sq(p.Z-a.Min.Z) <= sq(p.Z-a.Max.Z) <==> abs(p.Z-a.Min.Z) <= abs(p.Z-a.Max.Z)
//@   cases abs(p.X-a.Min.X) <= abs(p.X-a.Max.X)
//@   cases abs(p.Y-a.Min.Y) <= abs(p.Y-a.Max.Y)
//@   cases abs(p.Z-a.Min.Z) <= abs(p.Z-a.Max.Z)
//@   ensures [min] r[0] == clampd2(p.X, a.Min.X, a.Max.X) + clampd2(p.Y, a.Min.Y, a.Max.Y) + clampd2(p.Z, a.Min.Z, a.Max.Z)
//@   ensures [max] r[1] == fard2(p.X, a.Min.X, a.Max.X) + fard2(p.Y, a.Min.Y, a.Max.Y) + fard2(p.Z, a.Min.Z, a.Max.Z)
//@ end

//@ func Interval.Overlap
//@   property C16
//@   id sound
//@   forall v real
//@   requires a[0] <= a[1] && b[0] <= b[1]
//@   ensures [shared-value-implies-overlap] (a[0] <= v && v <= a[1] && b[0] <= v && v <= b[1]) ==> r
//@   ensures [overlap-implies-shared-value] r ==> (a[0] <= max(a[0], b[0]) && max(a[0], b[0]) <= a[1] && b[0] <= max(a[0], b[0]) && max(a[0], b[0]) <= b[1])
//@ end

//-----------------------------------------------------------------------------
// C02: blend functions never remove material and are symmetric; the
// polynomial blend adds only a bounded fillet.

//@ func RoundMin$1
//@   property C02
//@   requires k > 0
//@   ensures [never-removes-material] r <= min(a, b)
//@   ensures [symmetric] r == RoundMin(k)(b, a)
//@ end

//@ func ChamferMin$1
//@   property C02
//@   requires k > 0
//@   ensures [never-removes-material] r <= min(a, b)
//@   ensures [symmetric] r == ChamferMin(k)(b, a)
//@ end

//@ func ExpMin$1
//@   property C02
//@   requires k > 0
//@   ensures [never-removes-material] r <= min(a, b)
//@   ensures [symmetric] r == ExpMin(k)(b, a)
//@ end

//@ func PolyMin$1
//@   property C02
//@   requires k > 0
//@   ensures [never-removes-material] r <= min(a, b)
//@   ensures [bounded-fillet] min(a, b) - k/4 <= r
//@   ensures [equals-min-beyond-k] abs(a-b) >= k ==> r == min(a, b)
//@   ensures [symmetric] r == PolyMin(k)(b, a)
//@ end

//@ func PolyMax$1
//@   property C02
//@   requires k > 0
//@   ensures [never-removes-material] r >= max(a, b)
//@   ensures [bounded-fillet] r <= max(a, b) + k/4
//@   ensures [equals-max-beyond-k] abs(a-b) >= k ==> r == max(a, b)
//@   ensures [symmetric] r == PolyMax(k)(b, a)
//@   ensures [mirror-of-polymin] r == -PolyMin(k)(-a, -b)
//@ end

//-----------------------------------------------------------------------------
// C02 / C01: matrices

//@ func M44.Inverse
//@   property C02
//@   modular
//@   requires a.Determinant() != 0
//@   ensures [right-inverse] a.Mul(r) == Identity3d()
//@   ensures [left-inverse] r.Mul(a) == Identity3d()
//@ end

//@ func M33.Inverse
//@   property C02
//@   modular
//@   requires a.Determinant() != 0
//@   ensures [right-inverse] a.Mul(r) == Identity2d()
//@   ensures [left-inverse] r.Mul(a) == Identity2d()
//@ end

//@ func M22.Inverse
//@   property C02
//@   modular
//@   requires a.Determinant() != 0
//@   ensures [right-inverse] a.Mul(r) == Identity()
//@   ensures [left-inverse] r.Mul(a) == Identity()
//@ end

//@ func M44.MulBox
//@   property C01
//@   id X
//@   modular
//@   cases a[0] >= 0
//@   cases a[1] >= 0
//@   cases a[2] >= 0
//@   ensures [image-of-box-point-in-result] forall q v3.Vec :: box.Contains(q) ==> r.Min.X <= a.MulPosition(q).X && a.MulPosition(q).X <= r.Max.X
//@   ensures [ordered] ord3(box) ==> r.Min.X <= r.Max.X
//@ end

//@ func M44.MulBox
//@   property C01
//@   id Y
//@   modular
//@   cases a[4] >= 0
//@   cases a[5] >= 0
//@   cases a[6] >= 0
//@   ensures [image-of-box-point-in-result] forall q v3.Vec :: box.Contains(q) ==> r.Min.Y <= a.MulPosition(q).Y && a.MulPosition(q).Y <= r.Max.Y
//@   ensures [ordered] ord3(box) ==> r.Min.Y <= r.Max.Y
//@ end

//@ func M44.MulBox
//@   property C01
//@   id Z
//@   modular
//@   cases a[8] >= 0
//@   cases a[9] >= 0
//@   cases a[10] >= 0
//@   ensures [image-of-box-point-in-result] forall q v3.Vec :: box.Contains(q) ==> r.Min.Z <= a.MulPosition(q).Z && a.MulPosition(q).Z <= r.Max.Z
//@   ensures [ordered] ord3(box) ==> r.Min.Z <= r.Max.Z
//@ end

//@ func M33.MulBox
//@   property C01
//@   id X
//@   modular
//@   cases a[0] >= 0
//@   cases a[1] >= 0
//@   ensures [image-of-box-point-in-result] forall q v2.Vec :: box.Contains(q) ==> r.Min.X <= a.MulPosition(q).X && a.MulPosition(q).X <= r.Max.X
//@   ensures [ordered] ord2(box) ==> r.Min.X <= r.Max.X
//@ end

//@ func M33.MulBox
//@   property C01
//@   id Y
//@   modular
//@   cases a[3] >= 0
//@   cases a[4] >= 0
//@   ensures [image-of-box-point-in-result] forall q v2.Vec :: box.Contains(q) ==> r.Min.Y <= a.MulPosition(q).Y && a.MulPosition(q).Y <= r.Max.Y
//@   ensures [ordered] ord2(box) ==> r.Min.Y <= r.Max.Y
//@ end

//@ func Rotate3d
//@   property C02
//@   forall q v3.Vec
//@   requires v.X*v.X + v.Y*v.Y + v.Z*v.Z > 0
//@   ensures [preserves-length] r.MulPosition(q).Length2() == q.Length2()
//@   ensures [fixes-axis] r.MulPosition(v) == v
//@   ensures [affine-rigid] r[3] == 0 && r[7] == 0 && r[11] == 0 && r[12] == 0 && r[13] == 0 && r[14] == 0 && r[15] == 1
//@   ensures [proper] r.Determinant() == 1
//@ end

//@ func Rotate
//@   property C02
//@   forall q v2.Vec
//@   ensures [preserves-length] r.MulPosition(q).Length2() == q.Length2()
//@   ensures [proper] r.Determinant() == 1
//@ end

//@ func Rotate2d
//@   property C02
//@   forall q v2.Vec
//@   ensures [preserves-length] r.MulPosition(q).Length2() == q.Length2()
//@   ensures [proper] r.Determinant() == 1
//@ end

//-----------------------------------------------------------------------------
// C01: bounding boxes enclose the solid. Vocabulary:
//   ord2/ord3  - box ordered;  enc2/enc3 - a solid point lies in the box.

//@ spec ord2(b Box2) = b.Min.X <= b.Max.X && b.Min.Y <= b.Max.Y
//@ spec ord3(b Box3) = b.Min.X <= b.Max.X && b.Min.Y <= b.Max.Y && b.Min.Z <= b.Max.Z
//@ spec enc2(s SDF2, q v2.Vec) = s.Evaluate(q) < 0 ==> s.BoundingBox().Contains(q)
//@ spec enc3(s SDF3, q v3.Vec) = s.Evaluate(q) < 0 ==> s.BoundingBox().Contains(q)

//@ spec linfd2(b Box2, q v2.Vec) = max(b.Min.X - q.X, q.X - b.Max.X, b.Min.Y - q.Y, q.Y - b.Max.Y)
//@ spec linfd3(b Box3, q v3.Vec) = max(b.Min.X - q.X, q.X - b.Max.X, b.Min.Y - q.Y, q.Y - b.Max.Y, b.Min.Z - q.Z, q.Z - b.Max.Z)
//@ spec linf2(s SDF2, q v2.Vec) = s.Evaluate(q) >= linfd2(s.BoundingBox(), q)
//@ spec linf3(s SDF3, q v3.Vec) = s.Evaluate(q) >= linfd3(s.BoundingBox(), q)

//@ spec vlen2(x real, y real) = x*x + y*y
//@ spec boxr2(b Box2) = max(vlen2(b.Min.X, b.Min.Y), vlen2(b.Max.X, b.Min.Y), vlen2(b.Min.X, b.Max.Y), vlen2(b.Max.X, b.Max.Y))

//@ lemma sq_bound(x real, lo real, hi real)
//@   property C01
//@   requires lo <= x && x <= hi
//@   ensures sq(x) <= max(sq(lo), sq(hi))
//@ end

//@ func TwistExtrude3D
//@   property C01
//@   id ENC
//@   opt search p
//@   opt solid-operands
//@   forall p v3.Vec
//@   requires height > 0
//@   requires ord2(sdf.BoundingBox())
//@   requires forall q v2.Vec :: enc2(sdf, q)
//@   let d = r.Evaluate(p)
//@   let e = r.extrude(p)
//@   let bb = r.BoundingBox()
//@   assert [twist-preserves-radius] e.Length2() == vlen2(p.X, p.Y)
//@   assert [box-radius] sq(bb.Max.X) == boxr2(sdf.BoundingBox()) && bb.Max.X >= 0
//@   assert [box-shape] bb.Max.Y == bb.Max.X && bb.Min.X == -bb.Max.X && bb.Min.Y == -bb.Max.X && bb.Max.Z == height/2 && bb.Min.Z == -height/2
//@   generalize e
//@   generalize bb
//@   use sq_bound(e.X, sdf.BoundingBox().Min.X, sdf.BoundingBox().Max.X)
//@   use sq_bound(e.Y, sdf.BoundingBox().Min.Y, sdf.BoundingBox().Max.Y)
//@   assert [in-box-in-disc] sdf.BoundingBox().Contains(e) ==> e.Length2() <= boxr2(sdf.BoundingBox())
//@   ensures [ordered] ord3(bb)
//@   ensures [encloses] d < 0 ==> bb.Contains(p)
//@ end

//@ spec sfac(s real, h real, z real) = ((1/s - 1)/h)*z + ((1/s)*0.5 + 0.5)

//@ func ScaleTwistExtrude3D
//@   property C01
//@   id ENC
//@   opt search p
//@   opt solid-operands
//@   forall p v3.Vec
//@   requires height > 0
//@   requires scale.X > 0 && scale.Y > 0
//@   requires ord2(sdf.BoundingBox())
//@   requires forall q v2.Vec :: enc2(sdf, q)
//@   let d = r.Evaluate(p)
//@   let e = r.extrude(p)
//@   let bb = r.BoundingBox()
//@   assert [twist-preserves-radius] e.Length2() == sq(p.X*sfac(scale.X, height, p.Z)) + sq(p.Y*sfac(scale.Y, height, p.Z))
//@   assert [box-radius-x] sq(bb.Max.X) == boxr2(sdf.BoundingBox())*sq(max(1, scale.X)) && bb.Max.X >= 0
//@   assert [box-radius-y] sq(bb.Max.Y) == boxr2(sdf.BoundingBox())*sq(max(1, scale.Y)) && bb.Max.Y >= 0
//@   assert [box-shape] bb.Min.X == -bb.Max.X && bb.Min.Y == -bb.Max.Y && bb.Max.Z == height/2 && bb.Min.Z == -height/2
//@   generalize e
//@   generalize bb
//@   use sq_bound(e.X, sdf.BoundingBox().Min.X, sdf.BoundingBox().Max.X)
//@   use sq_bound(e.Y, sdf.BoundingBox().Min.Y, sdf.BoundingBox().Max.Y)
//@   assert [in-box-in-disc] sdf.BoundingBox().Contains(e) ==> e.Length2() <= boxr2(sdf.BoundingBox())
//@   assert [factor-x] abs(p.Z) <= height/2 ==> sfac(scale.X, height, p.Z)*max(1, scale.X) >= 1 && sfac(scale.X, height, p.Z) > 0
//@   assert [factor-y] abs(p.Z) <= height/2 ==> sfac(scale.Y, height, p.Z)*max(1, scale.Y) >= 1 && sfac(scale.Y, height, p.Z) > 0
//@   assert [x-in] d < 0 ==> sq(p.X) <= sq(bb.Max.X)
//@   assert [y-in] d < 0 ==> sq(p.Y) <= sq(bb.Max.Y)
//@   ensures [ordered] ord3(bb)
//@   ensures [encloses] d < 0 ==> bb.Contains(p)
//@ end

//@ func RotateCopy2D
//@   property C01
//@   id ENC
//@   opt search p
//@   opt solid-operands
//@   forall p v2.Vec
//@   requires n > 0
//@   requires ord2(sdf.BoundingBox())
//@   requires forall q v2.Vec :: enc2(sdf, q)
//@   let d = r.Evaluate(p)
//@   let e = conv.P2ToV2(p2.Vec{p.Length(), SawTooth(math.Atan2(p.Y, p.X), r.theta)})
//@   let bb = r.BoundingBox()
//@   let rho = p.Length()
//@   let ang = SawTooth(math.Atan2(p.Y, p.X), r.theta)
//@   assert [radius-squared] sq(rho) == vlen2(p.X, p.Y)
//@   assert [unit-direction] sq(cos(ang)) + sq(sin(ang)) == 1
//@   assert [mapped-point-is-polar] e.X == rho*cos(ang) && e.Y == rho*sin(ang)
//@   focus radius-squared unit-direction mapped-point-is-polar
//@   assert [sector-mapping-preserves-radius] e.Length2() == vlen2(p.X, p.Y)
//@   unfocus
//@   assert [box-radius] sq(bb.Max.X) == boxr2(sdf.BoundingBox()) && bb.Max.X >= 0
//@   assert [box-shape] bb.Max.Y == bb.Max.X && bb.Min.X == -bb.Max.X && bb.Min.Y == -bb.Max.X
//@   generalize e
//@   generalize bb
//@   use sq_bound(e.X, sdf.BoundingBox().Min.X, sdf.BoundingBox().Max.X)
//@   use sq_bound(e.Y, sdf.BoundingBox().Min.Y, sdf.BoundingBox().Max.Y)
//@   assert [in-box-in-disc] sdf.BoundingBox().Contains(e) ==> e.Length2() <= boxr2(sdf.BoundingBox())
//@   ensures [ordered] ord2(bb)
//@   ensures [encloses] d < 0 ==> bb.Contains(p)
//@ end

//@ func RotateCopy3D
//@   property C01
//@   id ENC
//@   opt search p
//@   opt solid-operands
//@   forall p v3.Vec
//@   requires num > 0
//@   requires ord3(sdf.BoundingBox())
//@   requires forall q v3.Vec :: enc3(sdf, q)
//@   let d = r.Evaluate(p)
//@   let e = conv.P2ToV2(p2.Vec{v2.Vec{p.X, p.Y}.Length(), SawTooth(math.Atan2(p.Y, p.X), r.theta)})
//@   let bb = r.BoundingBox()
//@   let ob = sdf.BoundingBox()
//@   let rho = v2.Vec{p.X, p.Y}.Length()
//@   let ang = SawTooth(math.Atan2(p.Y, p.X), r.theta)
//@   assert [radius-squared] sq(rho) == vlen2(p.X, p.Y)
//@   assert [unit-direction] sq(cos(ang)) + sq(sin(ang)) == 1
//@   assert [mapped-point-is-polar] e.X == rho*cos(ang) && e.Y == rho*sin(ang)
//@   focus radius-squared unit-direction mapped-point-is-polar
//@   assert [sector-mapping-preserves-radius] e.Length2() == vlen2(p.X, p.Y)
//@   unfocus
//@   assert [box-radius-covers-every-vertex] bb.Max.X >= 0 && sq(bb.Max.X) >= vlen2(ob.Min.X, ob.Min.Y) && sq(bb.Max.X) >= vlen2(ob.Max.X, ob.Min.Y) && sq(bb.Max.X) >= vlen2(ob.Min.X, ob.Max.Y) && sq(bb.Max.X) >= vlen2(ob.Max.X, ob.Max.Y)
//@   assert [box-shape] bb.Max.Y == bb.Max.X && bb.Min.X == -bb.Max.X && bb.Min.Y == -bb.Max.X && bb.Min.Z == ob.Min.Z && bb.Max.Z == ob.Max.Z
//@   generalize e
//@   generalize bb
//@   use sq_bound(e.X, ob.Min.X, ob.Max.X)
//@   use sq_bound(e.Y, ob.Min.Y, ob.Max.Y)
//@   assert [in-box-in-disc] ob.Min.X <= e.X && e.X <= ob.Max.X && ob.Min.Y <= e.Y && e.Y <= ob.Max.Y ==> e.Length2() <= sq(bb.Max.X)
//@   ensures [ordered] ord3(bb)
//@   ensures [encloses] d < 0 ==> bb.Contains(p)
//@ end

// BEGIN GENERATED SHAPES
//-----------------------------------------------------------------------------
// C01 (generated block list, see /verif/tools/gen_shape_contracts.py): one ENC contract per constructor.

//@ func Sphere3D
//@   property C01
//@   id ENC
//@   opt search p
//@   opt solid-operands
//@   forall p v3.Vec
//@   let d = r.Evaluate(p)
//@   ensures [ordered] isnil(err) ==> ord3(r.BoundingBox())
//@   ensures [encloses] isnil(err) && d < 0 ==> r.BoundingBox().Contains(p)
//@ end

//@ func Box3D
//@   property C01
//@   id ENC
//@   opt search p
//@   opt solid-operands
//@   forall p v3.Vec
//@   let d = r.Evaluate(p)
//@   ensures [ordered] isnil(err) ==> ord3(r.BoundingBox())
//@   ensures [encloses] isnil(err) && d < 0 ==> r.BoundingBox().Contains(p)
//@ end

//@ func Cylinder3D
//@   property C01
//@   id ENC
//@   opt search p
//@   opt solid-operands
//@   forall p v3.Vec
//@   let d = r.Evaluate(p)
//@   ensures [ordered] isnil(err) ==> ord3(r.BoundingBox())
//@   ensures [encloses] isnil(err) && d < 0 ==> r.BoundingBox().Contains(p)
//@ end

//@ func Capsule3D
//@   property C01
//@   id ENC
//@   opt search p
//@   opt solid-operands
//@   forall p v3.Vec
//@   let d = r.Evaluate(p)
//@   ensures [ordered] isnil(err) ==> ord3(r.BoundingBox())
//@   ensures [encloses] isnil(err) && d < 0 ==> r.BoundingBox().Contains(p)
//@ end

//@ func Cone3D
//@   property C01
//@   id ENC
//@   opt search p
//@   opt solid-operands
//@   opt thorough
//@   forall p v3.Vec
//@   requires r0 >= 0
//@   requires r1 >= 0
//@   requires r0 > 0 || r1 > 0
//@   let d = r.Evaluate(p)
//@   ensures [ordered] isnil(err) ==> ord3(r.BoundingBox())
//@   ensures [encloses] isnil(err) && d < 0 ==> r.BoundingBox().Contains(p)
//@ end

//@ func Extrude3D
//@   property C01
//@   id ENC
//@   opt search p
//@   opt solid-operands
//@   forall p v3.Vec
//@   requires height > 0
//@   requires ord2(sdf.BoundingBox())
//@   requires forall q v2.Vec :: enc2(sdf, q)
//@   let d = r.Evaluate(p)
//@   ensures [ordered] ord3(r.BoundingBox())
//@   ensures [encloses] d < 0 ==> r.BoundingBox().Contains(p)
//@ end

//@ func ScaleExtrude3D
//@   property C01
//@   id ENC
//@   opt search p
//@   opt solid-operands
//@   forall p v3.Vec
//@   requires height > 0
//@   requires scale.X > 0
//@   requires scale.Y > 0
//@   requires ord2(sdf.BoundingBox())
//@   requires forall q v2.Vec :: enc2(sdf, q)
//@   let d = r.Evaluate(p)
//@   ensures [ordered] ord3(r.BoundingBox())
//@   ensures [encloses] d < 0 ==> r.BoundingBox().Contains(p)
//@ end

//@ func ExtrudeRounded3D
//@   property C01
//@   id ENC
//@   opt search p
//@   opt solid-operands
//@   forall p v3.Vec
//@   requires height > 0
//@   requires ord2(sdf.BoundingBox())
//@   requires forall q v2.Vec :: enc2(sdf, q)
//@   requires forall q v2.Vec :: linf2(sdf, q)
//@   let d = r.Evaluate(p)
//@   ensures [ordered] isnil(err) ==> ord3(r.BoundingBox())
//@   ensures [encloses] isnil(err) && d < 0 ==> r.BoundingBox().Contains(p)
//@ end

//@ func Loft3D
//@   property C01
//@   id ENC
//@   opt search p
//@   opt solid-operands
//@   forall p v3.Vec
//@   requires ord2(sdf0.BoundingBox())
//@   requires forall q v2.Vec :: enc2(sdf0, q)
//@   requires forall q v2.Vec :: linf2(sdf0, q)
//@   requires ord2(sdf1.BoundingBox())
//@   requires forall q v2.Vec :: enc2(sdf1, q)
//@   requires forall q v2.Vec :: linf2(sdf1, q)
//@   let d = r.Evaluate(p)
//@   ensures [ordered] isnil(err) ==> ord3(r.BoundingBox())
//@   ensures [encloses] isnil(err) && d < 0 ==> r.BoundingBox().Contains(p)
//@ end

//@ func RevolveTheta3D
//@   property C01
//@   id ENC
//@   opt search p
//@   opt solid-operands
//@   opt trig-quadrants
//@   forall p v3.Vec
//@   requires ord2(sdf.BoundingBox())
//@   requires forall q v2.Vec :: enc2(sdf, q)
//@   let d = r.Evaluate(p)
//@   ensures [ordered] isnil(err) ==> ord3(r.BoundingBox())
//@   ensures [encloses] isnil(err) && d < 0 ==> r.BoundingBox().Contains(p)
//@ end

//@ func Revolve3D
//@   property C01
//@   id ENC
//@   opt search p
//@   opt solid-operands
//@   opt trig-quadrants
//@   forall p v3.Vec
//@   requires ord2(sdf.BoundingBox())
//@   requires forall q v2.Vec :: enc2(sdf, q)
//@   let d = r.Evaluate(p)
//@   ensures [ordered] isnil(err) ==> ord3(r.BoundingBox())
//@   ensures [encloses] isnil(err) && d < 0 ==> r.BoundingBox().Contains(p)
//@ end

//@ func Transform3D
//@   property C01
//@   id ENC
//@   opt search p
//@   opt solid-operands
//@   forall p v3.Vec
//@   requires matrix.Determinant() != 0
//@   requires matrix[12] == 0 && matrix[13] == 0 && matrix[14] == 0 && matrix[15] == 1
//@   requires ord3(sdf.BoundingBox())
//@   requires forall q v3.Vec :: enc3(sdf, q)
//@   let d = r.Evaluate(p)
//@   let q = r.inverse.MulPosition(p)
//@   assert [inverse-maps-back] matrix.MulPosition(q) == p
//@   generalize q
//@   ensures [ordered] ord3(r.BoundingBox())
//@   ensures [encloses] d < 0 ==> r.BoundingBox().Contains(p)
//@ end

//@ func ScaleUniform3D
//@   property C01
//@   id ENC
//@   opt search p
//@   opt solid-operands
//@   forall p v3.Vec
//@   requires k > 0
//@   requires ord3(sdf.BoundingBox())
//@   requires forall q v3.Vec :: enc3(sdf, q)
//@   let d = r.Evaluate(p)
//@   ensures [ordered] ord3(r.BoundingBox())
//@   ensures [encloses] d < 0 ==> r.BoundingBox().Contains(p)
//@ end

//@ func Difference3D
//@   property C01
//@   id ENC
//@   opt search p
//@   opt solid-operands
//@   forall p v3.Vec
//@   requires ord3(s0.BoundingBox())
//@   requires forall q v3.Vec :: enc3(s0, q)
//@   requires ord3(s1.BoundingBox())
//@   requires forall q v3.Vec :: enc3(s1, q)
//@   let d = r.Evaluate(p)
//@   ensures [ordered] ord3(r.BoundingBox())
//@   ensures [encloses] d < 0 ==> r.BoundingBox().Contains(p)
//@ end

//@ func Intersect3D
//@   property C01
//@   id ENC
//@   opt search p
//@   opt solid-operands
//@   forall p v3.Vec
//@   requires ord3(s0.BoundingBox())
//@   requires forall q v3.Vec :: enc3(s0, q)
//@   requires ord3(s1.BoundingBox())
//@   requires forall q v3.Vec :: enc3(s1, q)
//@   let d = r.Evaluate(p)
//@   ensures [ordered] ord3(r.BoundingBox())
//@   ensures [encloses] d < 0 ==> r.BoundingBox().Contains(p)
//@ end

//@ func Cut3D
//@   property C01
//@   id ENC
//@   opt search p
//@   opt solid-operands
//@   forall p v3.Vec
//@   requires n.X*n.X + n.Y*n.Y + n.Z*n.Z > 0
//@   requires ord3(sdf.BoundingBox())
//@   requires forall q v3.Vec :: enc3(sdf, q)
//@   let d = r.Evaluate(p)
//@   ensures [ordered] ord3(r.BoundingBox())
//@   ensures [encloses] d < 0 ==> r.BoundingBox().Contains(p)
//@ end

//@ func Elongate3D
//@   property C01
//@   id ENC
//@   opt search p
//@   opt solid-operands
//@   forall p v3.Vec
//@   requires ord3(sdf.BoundingBox())
//@   requires forall q v3.Vec :: enc3(sdf, q)
//@   let d = r.Evaluate(p)
//@   ensures [ordered] ord3(r.BoundingBox())
//@   ensures [encloses] d < 0 ==> r.BoundingBox().Contains(p)
//@ end

//@ func Shell3D
//@   property C01
//@   id ENC
//@   opt search p
//@   opt solid-operands
//@   forall p v3.Vec
//@   requires ord3(sdf.BoundingBox())
//@   requires forall q v3.Vec :: enc3(sdf, q)
//@   requires forall q v3.Vec :: linf3(sdf, q)
//@   let d = r.Evaluate(p)
//@   ensures [ordered] isnil(err) ==> ord3(r.BoundingBox())
//@   ensures [encloses] isnil(err) && d < 0 ==> r.BoundingBox().Contains(p)
//@ end

//@ func Offset3D
//@   property C01
//@   id ENC
//@   opt search p
//@   opt solid-operands
//@   forall p v3.Vec
//@   requires sdf.BoundingBox().Size().X + 2*offset >= 0
//@   requires sdf.BoundingBox().Size().Y + 2*offset >= 0
//@   requires sdf.BoundingBox().Size().Z + 2*offset >= 0
//@   requires ord3(sdf.BoundingBox())
//@   requires forall q v3.Vec :: enc3(sdf, q)
//@   requires forall q v3.Vec :: linf3(sdf, q)
//@   let d = r.Evaluate(p)
//@   ensures [ordered] ord3(r.BoundingBox())
//@   ensures [encloses] d < 0 ==> r.BoundingBox().Contains(p)
//@ end

//@ func Circle2D
//@   property C01
//@   id ENC
//@   opt search p
//@   opt solid-operands
//@   forall p v2.Vec
//@   let d = r.Evaluate(p)
//@   ensures [ordered] isnil(err) ==> ord2(r.BoundingBox())
//@   ensures [encloses] isnil(err) && d < 0 ==> r.BoundingBox().Contains(p)
//@ end

//@ func Box2D
//@   property C01
//@   id ENC
//@   opt search p
//@   opt solid-operands
//@   forall p v2.Vec
//@   requires size.X > 0 && size.Y > 0
//@   requires round >= 0
//@   requires 2*round <= size.X && 2*round <= size.Y
//@   let d = r.Evaluate(p)
//@   ensures [ordered] ord2(r.BoundingBox())
//@   ensures [encloses] d < 0 ==> r.BoundingBox().Contains(p)
//@ end

//@ func Line2D
//@   property C01
//@   id ENC
//@   opt search p
//@   opt solid-operands
//@   forall p v2.Vec
//@   requires l >= 0
//@   requires round >= 0
//@   let d = r.Evaluate(p)
//@   ensures [ordered] ord2(r.BoundingBox())
//@   ensures [encloses] d < 0 ==> r.BoundingBox().Contains(p)
//@ end

//@ func Offset2D
//@   property C01
//@   id ENC
//@   opt search p
//@   opt solid-operands
//@   forall p v2.Vec
//@   requires sdf.BoundingBox().Size().X + 2*offset >= 0
//@   requires sdf.BoundingBox().Size().Y + 2*offset >= 0
//@   requires ord2(sdf.BoundingBox())
//@   requires forall q v2.Vec :: enc2(sdf, q)
//@   requires forall q v2.Vec :: linf2(sdf, q)
//@   let d = r.Evaluate(p)
//@   ensures [ordered] ord2(r.BoundingBox())
//@   ensures [encloses] d < 0 ==> r.BoundingBox().Contains(p)
//@ end

//@ func Intersect2D
//@   property C01
//@   id ENC
//@   opt search p
//@   opt solid-operands
//@   forall p v2.Vec
//@   requires ord2(s0.BoundingBox())
//@   requires forall q v2.Vec :: enc2(s0, q)
//@   requires ord2(s1.BoundingBox())
//@   requires forall q v2.Vec :: enc2(s1, q)
//@   let d = r.Evaluate(p)
//@   ensures [ordered] ord2(r.BoundingBox())
//@   ensures [encloses] d < 0 ==> r.BoundingBox().Contains(p)
//@ end

//@ func Difference2D
//@   property C01
//@   id ENC
//@   opt search p
//@   opt solid-operands
//@   forall p v2.Vec
//@   requires ord2(s0.BoundingBox())
//@   requires forall q v2.Vec :: enc2(s0, q)
//@   requires ord2(s1.BoundingBox())
//@   requires forall q v2.Vec :: enc2(s1, q)
//@   let d = r.Evaluate(p)
//@   ensures [ordered] ord2(r.BoundingBox())
//@   ensures [encloses] d < 0 ==> r.BoundingBox().Contains(p)
//@ end

//@ func Cut2D
//@   property C01
//@   id ENC
//@   opt search p
//@   opt solid-operands
//@   forall p v2.Vec
//@   requires v.X*v.X + v.Y*v.Y > 0
//@   requires ord2(sdf.BoundingBox())
//@   requires forall q v2.Vec :: enc2(sdf, q)
//@   let d = r.Evaluate(p)
//@   ensures [ordered] ord2(r.BoundingBox())
//@   ensures [encloses] d < 0 ==> r.BoundingBox().Contains(p)
//@ end

//@ func Transform2D
//@   property C01
//@   id ENC
//@   opt search p
//@   opt solid-operands
//@   forall p v2.Vec
//@   requires m.Determinant() != 0
//@   requires m[6] == 0 && m[7] == 0 && m[8] == 1
//@   requires ord2(sdf.BoundingBox())
//@   requires forall q v2.Vec :: enc2(sdf, q)
//@   let d = r.Evaluate(p)
//@   let q = r.mInv.MulPosition(p)
//@   assert [inverse-maps-back] m.MulPosition(q) == p
//@   generalize q
//@   ensures [ordered] ord2(r.BoundingBox())
//@   ensures [encloses] d < 0 ==> r.BoundingBox().Contains(p)
//@ end

//@ func ScaleUniform2D
//@   property C01
//@   id ENC
//@   opt search p
//@   opt solid-operands
//@   forall p v2.Vec
//@   requires k > 0
//@   requires ord2(sdf.BoundingBox())
//@   requires forall q v2.Vec :: enc2(sdf, q)
//@   let d = r.Evaluate(p)
//@   ensures [ordered] ord2(r.BoundingBox())
//@   ensures [encloses] d < 0 ==> r.BoundingBox().Contains(p)
//@ end

//@ func Center2D
//@   property C01
//@   id ENC
//@   opt search p
//@   opt solid-operands
//@   forall p v2.Vec
//@   requires ord2(s.BoundingBox())
//@   requires forall q v2.Vec :: enc2(s, q)
//@   let d = r.Evaluate(p)
//@   ensures [ordered] ord2(r.BoundingBox())
//@   ensures [encloses] d < 0 ==> r.BoundingBox().Contains(p)
//@ end

//@ func CenterAndScale2D
//@   property C01
//@   id ENC
//@   opt search p
//@   opt solid-operands
//@   forall p v2.Vec
//@   requires k > 0
//@   requires ord2(s.BoundingBox())
//@   requires forall q v2.Vec :: enc2(s, q)
//@   let d = r.Evaluate(p)
//@   ensures [ordered] ord2(r.BoundingBox())
//@   ensures [encloses] d < 0 ==> r.BoundingBox().Contains(p)
//@ end

//@ func Elongate2D
//@   property C01
//@   id ENC
//@   opt search p
//@   opt solid-operands
//@   forall p v2.Vec
//@   requires ord2(sdf.BoundingBox())
//@   requires forall q v2.Vec :: enc2(sdf, q)
//@   let d = r.Evaluate(p)
//@   ensures [ordered] ord2(r.BoundingBox())
//@   ensures [encloses] d < 0 ==> r.BoundingBox().Contains(p)
//@ end

//@ func Slice2D
//@   property C01
//@   id ENC
//@   opt search p
//@   opt solid-operands
//@   forall p v2.Vec
//@   requires n.X*n.X + n.Y*n.Y + n.Z*n.Z > 0
//@   requires ord3(sdf.BoundingBox())
//@   requires forall q v3.Vec :: enc3(sdf, q)
//@   let d = r.Evaluate(p)
//@   ensures [ordered] ord2(r.BoundingBox())
//@   ensures [encloses] d < 0 ==> r.BoundingBox().Contains(p)
//@ end

// END GENERATED SHAPES

//-----------------------------------------------------------------------------
// C02: each combinator denotes the operation it names (value at every point,
// operands abstract).

//@ spec elong(x real, h real) = x - max(-abs(h)/2, min(x, abs(h)/2))
//@ spec rcomb(a real, b real) = sqrt(sq(max(a, 0)) + sq(max(b, 0))) + min(max(a, b), 0)
//@ spec clamp01(x real) = max(0, min(x, 1))

//@ func Difference3D
//@   property C02
//@   id denotes
//@   forall p v3.Vec
//@   let d = r.Evaluate(p)
//@   ensures [is-max-a-minus-b] d == max(s0.Evaluate(p), -s1.Evaluate(p))
//@ end

//@ func Difference3D
//@   property C02
//@   id nil-subtrahend
//@   nil s1
//@   ensures [returns-minuend] r == s0
//@ end

//@ func Difference3D
//@   property C02
//@   id nil-minuend
//@   nil s0
//@   ensures [returns-nil] isnil(r)
//@ end

//@ func Difference2D
//@   property C02
//@   id denotes
//@   forall p v2.Vec
//@   let d = r.Evaluate(p)
//@   ensures [is-max-a-minus-b] d == max(s0.Evaluate(p), -s1.Evaluate(p))
//@ end

//@ func Difference2D
//@   property C02
//@   id nil-subtrahend
//@   nil s1
//@   ensures [returns-minuend] r == s0
//@ end

//@ func Intersect3D
//@   property C02
//@   id denotes
//@   forall p v3.Vec
//@   let d = r.Evaluate(p)
//@   ensures [is-max] d == max(s0.Evaluate(p), s1.Evaluate(p))
//@ end

//@ func Intersect3D
//@   property C02
//@   id nil-operand
//@   nil s1
//@   ensures [returns-nil] isnil(r)
//@ end

//@ func Intersect2D
//@   property C02
//@   id denotes
//@   forall p v2.Vec
//@   let d = r.Evaluate(p)
//@   ensures [is-max] d == max(s0.Evaluate(p), s1.Evaluate(p))
//@ end

//@ func Transform3D
//@   property C02
//@   id denotes
//@   forall q v3.Vec
//@   requires matrix.Determinant() != 0
//@   requires matrix[12] == 0 && matrix[13] == 0 && matrix[14] == 0 && matrix[15] == 1
//@   let e = r.inverse.MulPosition(matrix.MulPosition(q))
//@   assert [inverse-undoes-matrix] e == q
//@   let d = r.Evaluate(matrix.MulPosition(q))
//@   ensures [operand-at-preimage] d == sdf.Evaluate(q)
//@ end

//@ func Transform2D
//@   property C02
//@   id denotes
//@   forall q v2.Vec
//@   requires m.Determinant() != 0
//@   requires m[6] == 0 && m[7] == 0 && m[8] == 1
//@   let e = r.mInv.MulPosition(m.MulPosition(q))
//@   assert [inverse-undoes-matrix] e == q
//@   let d = r.Evaluate(m.MulPosition(q))
//@   ensures [operand-at-preimage] d == sdf.Evaluate(q)
//@ end

//@ func ScaleUniform3D
//@   property C02
//@   id denotes
//@   forall q v3.Vec
//@   requires k > 0
//@   let d = r.Evaluate(q.MulScalar(k))
//@   ensures [distance-scales-by-k] d == k*sdf.Evaluate(q)
//@ end

//@ func ScaleUniform2D
//@   property C02
//@   id denotes
//@   forall q v2.Vec
//@   requires k > 0
//@   let d = r.Evaluate(q.MulScalar(k))
//@   ensures [distance-scales-by-k] d == k*sdf.Evaluate(q)
//@ end

//@ func Elongate3D
//@   property C02
//@   id denotes
//@   forall p v3.Vec
//@   let d = r.Evaluate(p)
//@   ensures [operand-at-p-minus-clamp] d == sdf.Evaluate(v3.Vec{elong(p.X, h.X), elong(p.Y, h.Y), elong(p.Z, h.Z)})
//@ end

//@ func Elongate2D
//@   property C02
//@   id denotes
//@   forall p v2.Vec
//@   let d = r.Evaluate(p)
//@   ensures [operand-at-p-minus-clamp] d == sdf.Evaluate(v2.Vec{elong(p.X, h.X), elong(p.Y, h.Y)})
//@ end

//@ func Cut3D
//@   property C02
//@   id denotes
//@   forall p v3.Vec
//@   requires n.X*n.X + n.Y*n.Y + n.Z*n.Z > 0
//@   let d = r.Evaluate(p)
//@   ensures [keeps-normal-side] d == max(-(p.Sub(a).Dot(n))/n.Length(), sdf.Evaluate(p))
//@ end

//@ func Cut2D
//@   property C02
//@   id denotes
//@   forall p v2.Vec
//@   requires v.X*v.X + v.Y*v.Y > 0
//@   let d = r.Evaluate(p)
//@   ensures [keeps-right-side] d == max(((p.Y-a.Y)*v.X - (p.X-a.X)*v.Y)/v.Length(), sdf.Evaluate(p))
//@ end

//@ func Offset3D
//@   property C02
//@   id denotes
//@   forall p v3.Vec
//@   let d = r.Evaluate(p)
//@   ensures [distance-minus-offset] d == sdf.Evaluate(p) - offset
//@ end

//@ func Offset2D
//@   property C02
//@   id denotes
//@   forall p v2.Vec
//@   let d = r.Evaluate(p)
//@   ensures [distance-minus-offset] d == sdf.Evaluate(p) - offset
//@ end

//@ func Shell3D
//@   property C02
//@   id denotes
//@   forall p v3.Vec
//@   let d = r.Evaluate(p)
//@   ensures [abs-distance-minus-half-thickness] isnil(err) ==> d == abs(sdf.Evaluate(p)) - thickness/2
//@ end

//@ func Extrude3D
//@   property C02
//@   id denotes
//@   forall p v3.Vec
//@   let d = r.Evaluate(p)
//@   ensures [profile-intersect-slab] d == max(sdf.Evaluate(v2.Vec{p.X, p.Y}), abs(p.Z) - height/2)
//@ end

//@ func TwistExtrude3D
//@   property C02
//@   id denotes
//@   forall p v3.Vec
//@   requires height > 0
//@   let d = r.Evaluate(p)
//@   ensures [profile-rotated-by-plus-z-twist-over-height] d == max(sdf.Evaluate(v2.Vec{cos(p.Z*(twist/height))*p.X - sin(p.Z*(twist/height))*p.Y, sin(p.Z*(twist/height))*p.X + cos(p.Z*(twist/height))*p.Y}), abs(p.Z) - height/2)
//@ end

//@ func ScaleExtrude3D
//@   property C02
//@   id denotes
//@   forall p v3.Vec
//@   requires height > 0 && scale.X > 0 && scale.Y > 0
//@   let d = r.Evaluate(p)
//@   ensures [profile-scaled-linearly-in-z] d == max(sdf.Evaluate(v2.Vec{p.X*sfac(scale.X, height, p.Z), p.Y*sfac(scale.Y, height, p.Z)}), abs(p.Z) - height/2)
//@   ensures [scale-one-at-bottom] sfac(scale.X, height, -height/2) == 1 && sfac(scale.Y, height, -height/2) == 1
//@   ensures [scale-at-top] sfac(scale.X, height, height/2) == 1/scale.X && sfac(scale.Y, height, height/2) == 1/scale.Y
//@ end

//@ func ScaleTwistExtrude3D
//@   property C02
//@   id denotes
//@   forall p v3.Vec
//@   requires height > 0 && scale.X > 0 && scale.Y > 0
//@   let d = r.Evaluate(p)
//@   ensures [scaled-then-twisted] d == max(sdf.Evaluate(v2.Vec{cos(p.Z*(twist/height))*(p.X*sfac(scale.X, height, p.Z)) - sin(p.Z*(twist/height))*(p.Y*sfac(scale.Y, height, p.Z)), sin(p.Z*(twist/height))*(p.X*sfac(scale.X, height, p.Z)) + cos(p.Z*(twist/height))*(p.Y*sfac(scale.Y, height, p.Z))}), abs(p.Z) - height/2)
//@ end

//@ func ExtrudeRounded3D
//@   property C02
//@   id denotes
//@   forall p v3.Vec
//@   requires round > 0
//@   let d = r.Evaluate(p)
//@   ensures [round-combine-minus-round] isnil(err) ==> d == rcomb(sdf.Evaluate(v2.Vec{p.X, p.Y}), abs(p.Z) - (height/2 - round)) - round
//@ end

//@ func Loft3D
//@   property C02
//@   id denotes
//@   forall p v3.Vec
//@   requires height > 2*round
//@   let d = r.Evaluate(p)
//@   ensures [mix-then-round-combine] isnil(err) ==> d == rcomb(sdf0.Evaluate(v2.Vec{p.X, p.Y}) + clamp01(0.5*p.Z/(height/2 - round) + 0.5)*(sdf1.Evaluate(v2.Vec{p.X, p.Y}) - sdf0.Evaluate(v2.Vec{p.X, p.Y})), abs(p.Z) - (height/2 - round)) - round
//@ end

//@ func Revolve3D
//@   property C02
//@   id denotes
//@   forall p v3.Vec
//@   let d = r.Evaluate(p)
//@   ensures [profile-at-radius-and-height] isnil(err) ==> d == sdf.Evaluate(v2.Vec{sqrt(p.X*p.X + p.Y*p.Y), p.Z})
//@ end

//@ func RevolveTheta3D
//@   property C02
//@   id denotes
//@   opt trig-quadrants
//@   forall p v3.Vec
//@   requires 0 < theta && theta < 2*PI
//@   let d = r.Evaluate(p)
//@   let a = sdf.Evaluate(v2.Vec{sqrt(p.X*p.X + p.Y*p.Y), p.Z})
//@   ensures [acute-wedge-is-intersection-of-half-planes] isnil(err) && theta < PI ==> (d < 0 <==> a < 0 && p.Y > 0 && p.X*sin(theta) - p.Y*cos(theta) > 0)
//@   ensures [reflex-wedge-is-union-of-half-planes] isnil(err) && theta >= PI ==> (d < 0 <==> a < 0 && (p.Y > 0 || p.X*sin(theta) - p.Y*cos(theta) > 0))
//@ end

//@ func Slice2D
//@   property C02
//@   id denotes
//@   forall p v2.Vec
//@   requires n.X*n.X + n.Y*n.Y + n.Z*n.Z > 0
//@   let d = r.Evaluate(p)
//@   ensures [operand-on-plane-point] d == sdf.Evaluate(a.Add(r.u.MulScalar(p.X)).Add(r.v.MulScalar(p.Y)))
//@   ensures [axes-unit] r.u.Length2() == 1 && r.v.Length2() == 1
//@   ensures [axes-orthogonal] r.u.Dot(r.v) == 0
//@   ensures [axes-in-plane] r.u.Dot(n) == 0 && r.v.Dot(n) == 0
//@ end

//-----------------------------------------------------------------------------
// C03: exact primitives equal the independent closed-form Euclidean signed
// distance; distance-preserving operators keep the 1-Lipschitz property.

//@ spec boxsd2(dx real, dy real) = sqrt(sq(max(dx, 0)) + sq(max(dy, 0))) + min(max(dx, dy), 0)
//@ spec boxsd3(dx real, dy real, dz real) = sqrt(sq(max(dx, 0)) + sq(max(dy, 0)) + sq(max(dz, 0))) + min(max(dx, dy, dz), 0)
//@ spec lip2(s SDF2, a v2.Vec, b v2.Vec) = sq(s.Evaluate(a) - s.Evaluate(b)) <= a.Sub(b).Length2()
//@ spec lip3(s SDF3, a v3.Vec, b v3.Vec) = sq(s.Evaluate(a) - s.Evaluate(b)) <= a.Sub(b).Length2()

//@ func Sphere3D
//@   property C03
//@   id EXACT
//@   forall p v3.Vec
//@   let d = r.Evaluate(p)
//@   ensures [euclidean] isnil(err) ==> d == sqrt(p.X*p.X + p.Y*p.Y + p.Z*p.Z) - radius
//@ end

//@ func Circle2D
//@   property C03
//@   id EXACT
//@   forall p v2.Vec
//@   let d = r.Evaluate(p)
//@   ensures [euclidean] isnil(err) ==> d == sqrt(p.X*p.X + p.Y*p.Y) - radius
//@ end

//@ func Box3D
//@   property C03
//@   id EXACT
//@   forall p v3.Vec
//@   requires 2*round <= size.X && 2*round <= size.Y && 2*round <= size.Z
//@   let d = r.Evaluate(p)
//@   ensures [euclidean-to-inset-box-minus-round] isnil(err) ==> d == boxsd3(abs(p.X) - (size.X/2 - round), abs(p.Y) - (size.Y/2 - round), abs(p.Z) - (size.Z/2 - round)) - round
//@ end

//@ func Box2D
//@   property C03
//@   id EXACT
//@   forall p v2.Vec
//@   requires size.X > 0 && size.Y > 0 && round >= 0 && 2*round <= size.X && 2*round <= size.Y
//@   let d = r.Evaluate(p)
//@   ensures [euclidean-to-inset-box-minus-round] d == boxsd2(abs(p.X) - (size.X/2 - round), abs(p.Y) - (size.Y/2 - round)) - round
//@ end

//@ func Line2D
//@   property C03
//@   id EXACT
//@   forall p v2.Vec
//@   requires l >= 0 && round >= 0
//@   let d = r.Evaluate(p)
//@   ensures [distance-to-segment-minus-round] d == sqrt(sq(max(abs(p.X) - l/2, 0)) + sq(p.Y)) - round
//@ end

//@ func Cylinder3D
//@   property C03
//@   id EXACT
//@   forall p v3.Vec
//@   let d = r.Evaluate(p)
//@   ensures [euclidean-in-meridian-plane] isnil(err) ==> d == boxsd2(sqrt(p.X*p.X + p.Y*p.Y) - (radius - round), abs(p.Z) - (height/2 - round)) - round
//@ end

//@ func Capsule3D
//@   property C03
//@   id EXACT
//@   forall p v3.Vec
//@   let d = r.Evaluate(p)
//@   ensures [euclidean-in-meridian-plane] isnil(err) ==> d == boxsd2(sqrt(p.X*p.X + p.Y*p.Y), abs(p.Z) - (height/2 - radius)) - radius
//@ end

// --- Lipschitz preservation (two-point form)

//@ func Difference3D
//@   property C03
//@   id LIP
//@   forall p v3.Vec, q v3.Vec
//@   requires forall a v3.Vec, b v3.Vec :: lip3(s0, a, b)
//@   requires forall a v3.Vec, b v3.Vec :: lip3(s1, a, b)
//@   let dp = r.Evaluate(p)
//@   let dq = r.Evaluate(q)
//@   ensures [one-lipschitz] sq(dp - dq) <= p.Sub(q).Length2()
//@ end

//@ func Intersect3D
//@   property C03
//@   id LIP
//@   forall p v3.Vec, q v3.Vec
//@   requires forall a v3.Vec, b v3.Vec :: lip3(s0, a, b)
//@   requires forall a v3.Vec, b v3.Vec :: lip3(s1, a, b)
//@   let dp = r.Evaluate(p)
//@   let dq = r.Evaluate(q)
//@   ensures [one-lipschitz] sq(dp - dq) <= p.Sub(q).Length2()
//@ end

//@ func Difference2D
//@   property C03
//@   id LIP
//@   forall p v2.Vec, q v2.Vec
//@   requires forall a v2.Vec, b v2.Vec :: lip2(s0, a, b)
//@   requires forall a v2.Vec, b v2.Vec :: lip2(s1, a, b)
//@   let dp = r.Evaluate(p)
//@   let dq = r.Evaluate(q)
//@   ensures [one-lipschitz] sq(dp - dq) <= p.Sub(q).Length2()
//@ end

//@ func Intersect2D
//@   property C03
//@   id LIP
//@   forall p v2.Vec, q v2.Vec
//@   requires forall a v2.Vec, b v2.Vec :: lip2(s0, a, b)
//@   requires forall a v2.Vec, b v2.Vec :: lip2(s1, a, b)
//@   let dp = r.Evaluate(p)
//@   let dq = r.Evaluate(q)
//@   ensures [one-lipschitz] sq(dp - dq) <= p.Sub(q).Length2()
//@ end

//@ lemma union3d_lip(s0 SDF3, s1 SDF3, p v3.Vec, q v3.Vec)
//@   property C03
//@   requires forall a v3.Vec, b v3.Vec :: lip3(s0, a, b)
//@   requires forall a v3.Vec, b v3.Vec :: lip3(s1, a, b)
//@   let u = Union3D(s0, s1)
//@   let dp = u.Evaluate(p)
//@   let dq = u.Evaluate(q)
//@   ensures [one-lipschitz] sq(dp - dq) <= p.Sub(q).Length2()
//@ end

//@ lemma polymin_lip(a1 real, b1 real, a2 real, b2 real, k real)
//@   property C03
//@   requires k > 0
//@   cases b1 - a1 >= k
//@   cases b1 - a1 <= -k
//@   cases b2 - a2 >= k
//@   cases b2 - a2 <= -k
//@   ensures [sup-norm-lipschitz] abs(PolyMin(k)(a1, b1) - PolyMin(k)(a2, b2)) <= max(abs(a1 - a2), abs(b1 - b2))
//@ end

//@ lemma polymax_lip(a1 real, b1 real, a2 real, b2 real, k real)
//@   property C03
//@   requires k > 0
//@   cases b1 - a1 >= k
//@   cases b1 - a1 <= -k
//@   cases b2 - a2 >= k
//@   cases b2 - a2 <= -k
//@   ensures [sup-norm-lipschitz] abs(PolyMax(k)(a1, b1) - PolyMax(k)(a2, b2)) <= max(abs(a1 - a2), abs(b1 - b2))
//@ end

//@ lemma lagrange3(u v3.Vec, v v3.Vec)
//@   property C03
//@   ensures [lagrange-identity] u.Length2()*v.Length2() - sq(u.Dot(v)) == u.Cross(v).Length2()
//@ end

//@ lemma union3d_polymin_lip(s0 SDF3, s1 SDF3, k real, p v3.Vec, q v3.Vec)
//@   property C03
//@   requires k > 0
//@   requires forall a v3.Vec, b v3.Vec :: lip3(s0, a, b)
//@   requires forall a v3.Vec, b v3.Vec :: lip3(s1, a, b)
//@   let u = Union3D(s0, s1)
//@   do u.SetMin(PolyMin(k))
//@   let dp = u.Evaluate(p)
//@   let dq = u.Evaluate(q)
//@   assert [is-polymin-of-operands] dp == PolyMin(k)(s0.Evaluate(p), s1.Evaluate(p)) && dq == PolyMin(k)(s0.Evaluate(q), s1.Evaluate(q))
//@   use polymin_lip(s0.Evaluate(p), s1.Evaluate(p), s0.Evaluate(q), s1.Evaluate(q), k)
//@   generalize dp
//@   generalize dq
//@   ensures [one-lipschitz] sq(dp - dq) <= p.Sub(q).Length2()
//@ end

//@ lemma difference3d_polymax_lip(s0 SDF3, s1 SDF3, k real, p v3.Vec, q v3.Vec)
//@   property C03
//@   requires k > 0
//@   requires forall a v3.Vec, b v3.Vec :: lip3(s0, a, b)
//@   requires forall a v3.Vec, b v3.Vec :: lip3(s1, a, b)
//@   let u = Difference3D(s0, s1)
//@   do u.SetMax(PolyMax(k))
//@   let dp = u.Evaluate(p)
//@   let dq = u.Evaluate(q)
//@   assert [is-polymax-of-operands] dp == PolyMax(k)(s0.Evaluate(p), -s1.Evaluate(p)) && dq == PolyMax(k)(s0.Evaluate(q), -s1.Evaluate(q))
//@   use polymax_lip(s0.Evaluate(p), -s1.Evaluate(p), s0.Evaluate(q), -s1.Evaluate(q), k)
//@   generalize dp
//@   generalize dq
//@   ensures [one-lipschitz] sq(dp - dq) <= p.Sub(q).Length2()
//@ end

//@ func Cut3D
//@   property C03
//@   id LIP
//@   forall p v3.Vec, q v3.Vec
//@   requires n.X*n.X + n.Y*n.Y + n.Z*n.Z > 0
//@   requires forall a v3.Vec, b v3.Vec :: lip3(sdf, a, b)
//@   let dp = r.Evaluate(p)
//@   let dq = r.Evaluate(q)
//@   let nn = r.n
//@   assert [unit-normal] nn.Length2() == 1
//@   generalize nn
//@   let v = p.Sub(q)
//@   let dt = nn.Dot(v)
//@   let cr = nn.Cross(v)
//@   let pp = p.Sub(a).Dot(nn)
//@   let pq = q.Sub(a).Dot(nn)
//@   assert [plane-difference-is-dot] pp - pq == dt
//@   use lagrange3(nn, v)
//@   generalize dt
//@   generalize cr
//@   generalize pp
//@   generalize pq
//@   assert [cauchy-schwarz] sq(dt) <= v.Length2()
//@   ensures [one-lipschitz] sq(dp - dq) <= p.Sub(q).Length2()
//@ end

//@ func Offset3D
//@   property C03
//@   id LIP
//@   forall p v3.Vec, q v3.Vec
//@   requires forall a v3.Vec, b v3.Vec :: lip3(sdf, a, b)
//@   let dp = r.Evaluate(p)
//@   let dq = r.Evaluate(q)
//@   ensures [one-lipschitz] sq(dp - dq) <= p.Sub(q).Length2()
//@ end

//@ func Shell3D
//@   property C03
//@   id LIP
//@   forall p v3.Vec, q v3.Vec
//@   requires forall a v3.Vec, b v3.Vec :: lip3(sdf, a, b)
//@   let dp = r.Evaluate(p)
//@   let dq = r.Evaluate(q)
//@   ensures [one-lipschitz] isnil(err) ==> sq(dp - dq) <= p.Sub(q).Length2()
//@ end

//@ func Elongate3D
//@   property C03
//@   id LIP
//@   forall p v3.Vec, q v3.Vec
//@   requires forall a v3.Vec, b v3.Vec :: lip3(sdf, a, b)
//@   let dp = r.Evaluate(p)
//@   let dq = r.Evaluate(q)
//@   let ep = p.Sub(p.Clamp(r.hn, r.hp))
//@   let eq = q.Sub(q.Clamp(r.hn, r.hp))
//@   assert [x-nonexpansive] sq(ep.X - eq.X) <= sq(p.X - q.X)
//@   assert [y-nonexpansive] sq(ep.Y - eq.Y) <= sq(p.Y - q.Y)
//@   assert [z-nonexpansive] sq(ep.Z - eq.Z) <= sq(p.Z - q.Z)
//@   generalize ep
//@   generalize eq
//@   ensures [one-lipschitz] sq(dp - dq) <= p.Sub(q).Length2()
//@ end

//@ func Extrude3D
//@   property C03
//@   id LIP
//@   forall p v3.Vec, q v3.Vec
//@   requires forall a v2.Vec, b v2.Vec :: lip2(sdf, a, b)
//@   let dp = r.Evaluate(p)
//@   let dq = r.Evaluate(q)
//@   ensures [one-lipschitz] sq(dp - dq) <= p.Sub(q).Length2()
//@ end

//@ func ScaleUniform3D
//@   property C03
//@   id LIP
//@   forall p v3.Vec, q v3.Vec
//@   requires k > 0
//@   requires forall a v3.Vec, b v3.Vec :: lip3(sdf, a, b)
//@   let dp = r.Evaluate(p)
//@   let dq = r.Evaluate(q)
//@   ensures [one-lipschitz] sq(dp - dq) <= p.Sub(q).Length2()
//@ end

//@ lemma lagrange2(a real, b real, c real, d real)
//@   property C03
//@   ensures [lagrange-identity] (sq(a) + sq(b))*(sq(c) + sq(d)) - sq(a*c + b*d) == sq(a*d - b*c)
//@ end

//@ func Revolve3D
//@   property C03
//@   id LIP
//@   forall p v3.Vec, q v3.Vec
//@   requires forall a v2.Vec, b v2.Vec :: lip2(sdf, a, b)
//@   let dp = r.Evaluate(p)
//@   let dq = r.Evaluate(q)
//@   let rp = sqrt(p.X*p.X + p.Y*p.Y)
//@   let rq = sqrt(q.X*q.X + q.Y*q.Y)
//@   assert [radii] rp >= 0 && rq >= 0 && sq(rp) == sq(p.X) + sq(p.Y) && sq(rq) == sq(q.X) + sq(q.Y)
//@   use lagrange2(p.X, p.Y, q.X, q.Y)
//@   generalize rp
//@   generalize rq
//@   assert [cauchy-schwarz] sq(p.X*q.X + p.Y*q.Y) <= sq(rp*rq)
//@   assert [dot-below-product-of-radii] p.X*q.X + p.Y*q.Y <= rp*rq
//@   assert [radius-map-is-nonexpansive] sq(rp - rq) <= sq(p.X - q.X) + sq(p.Y - q.Y)
//@   assert [lipschitz-instance] isnil(err) ==> sq(dp - dq) <= sq(rp - rq) + sq(p.Z - q.Z)
//@   focus radius-map-is-nonexpansive lipschitz-instance
//@   ensures [one-lipschitz] isnil(err) ==> sq(dp - dq) <= p.Sub(q).Length2()
//@ end

//-----------------------------------------------------------------------------
// C05 / C08: the degeneracy filter of the mesh generators rejects exactly the
// elements with two identical vertices

//@ func Triangle3.Degenerate
//@   property C05
//@   requires tolerance == 0
//@   ensures [iff-two-vertices-equal] r <==> (t[0] == t[1] || t[1] == t[2] || t[2] == t[0])
//@ end

//@ func Line2.Degenerate
//@   property C08
//@   requires tolerance == 0
//@   ensures [iff-end-points-equal] r <==> a[0] == a[1]
//@ end

//-----------------------------------------------------------------------------
// C03: truncated cone. Layer A: Evaluate equals the signed Euclidean distance
// in the meridian half plane to the (inset) trapezoid (0,-h) (r0,-h) (r1,h)
// (0,h), minus round, under the struct invariant. Layer B: the constructor
// establishes that invariant and the inset that makes the rounded surface pass
// through the nominal radii.

//@ spec segt(px real, py real, ax real, ay real, bx real, by real) = clamp01(((px-ax)*(bx-ax) + (py-ay)*(by-ay)) / (sq(bx-ax) + sq(by-ay)))
//@ spec segd2(px real, py real, ax real, ay real, bx real, by real) = sq(px - ax - segt(px, py, ax, ay, bx, by)*(bx-ax)) + sq(py - ay - segt(px, py, ax, ay, bx, by)*(by-ay))
//@ spec trapin(rho real, z real, r0 real, r1 real, h real) = -h < z && z < h && (rho - r0)*(2*h) < (r1 - r0)*(z + h)
//@ spec trapd2(rho real, z real, r0 real, r1 real, h real) = min(segd2(rho, z, 0, -h, r0, -h), segd2(rho, z, r0, -h, r1, h), segd2(rho, z, r1, h, 0, h))

//@ func ConeSDF3.Evaluate
//@   property C03
//@   id EXACT
//@   requires s.height > 0 && s.r0 > 0 && s.r1 > 0 && s.l > 0
//@   requires s.l*s.l == sq(s.r1 - s.r0) + sq(2*s.height)
//@   requires s.u.X*s.l == s.r1 - s.r0 && s.u.Y*s.l == 2*s.height
//@   requires s.n.X == s.u.Y && s.n.Y == -s.u.X
//@   let rho = sqrt(p.X*p.X + p.Y*p.Y)
//@   ensures [inside-negative] trapin(rho, p.Z, s.r0, s.r1, s.height) ==> r + s.round <= 0 && sq(r + s.round) == trapd2(rho, p.Z, s.r0, s.r1, s.height)
//@   ensures [outside-positive] !trapin(rho, p.Z, s.r0, s.r1, s.height) ==> r + s.round >= 0 && sq(r + s.round) == trapd2(rho, p.Z, s.r0, s.r1, s.height)
//@ end

//@ func Cone3D
//@   property C03
//@   id invariant
//@   requires r0 > 0 && r1 > 0
//@   ensures [half-height] isnil(err) ==> r.height == height/2 - round && r.round == round
//@   ensures [slope-unit] isnil(err) ==> r.u.Length2() == 1 && r.u.Y > 0
//@   ensures [slope-direction] isnil(err) ==> r.u.X*height == r.u.Y*(r1 - r0)
//@   ensures [normal] isnil(err) ==> r.n.X == r.u.Y && r.n.Y == -r.u.X
//@   ensures [slope-length-of-inset-trapezoid] isnil(err) ==> r.l >= 0 && sq(r.l) == sq(r.r1 - r.r0) + sq(2*r.height)
//@   ensures [inset-slope-parallel-to-nominal] isnil(err) ==> (r.r1 - r.r0)*height == (r1 - r0)*(2*r.height)
//@   ensures [offset-surface-through-nominal-base-radius] isnil(err) ==> r.r0 + round*(1 + r.n.Y)/r.n.X == r0
//@   ensures [offset-surface-through-nominal-top-radius] isnil(err) ==> r.r1 + round*(1 - r.n.Y)/r.n.X == r1
//@ end

//-----------------------------------------------------------------------------
// C02: the evaluation cache returns the wrapped shape's own values for every
// query history. Data-structure invariant: every cached entry is the wrapped
// shape's value at its key.

//@ func Cache2D
//@   property C02
//@   id invariant-established
//@   forall k v2.Vec
//@   ensures [fresh-cache-is-empty] !maphas(r.cache, k)
//@   ensures [wraps-the-operand] r.sdf == sdf
//@ end

//@ func CacheSDF2.Evaluate
//@   property C02
//@   id returns-wrapped-values
//@   requires forall k v2.Vec :: maphas(s.cache, k) ==> mapval(s.cache, k) == s.sdf.Evaluate(k)
//@   ensures [value-of-wrapped-shape] r == s.sdf.Evaluate(p)
//@   ensures [invariant-preserved] forall k v2.Vec :: maphas(s.cache, k) ==> mapval(s.cache, k) == s.sdf.Evaluate(k)
//@ end

//@ func CacheSDF2.BoundingBox
//@   property C02
//@   id returns-wrapped-box
//@   ensures [box-of-wrapped-shape] r == s.sdf.BoundingBox()
//@ end

//-----------------------------------------------------------------------------
// C11: nothing written to a buffer is lost, duplicated or reordered.
// Abstract view of a buffer = concatenation of the batches sent so far ++ buf;
// Write appends its input to the view, Close moves buf into the sent part.

//@ func Triangle3Buffer.Write
//@   property C11
//@   id view
//@   requires len(a.buf) >= 0 && len(a.buf) < 256
//@   ensures [no-flush-below-threshold] old(len(a.buf)) + len(in) < 256 ==> nsent() == 0 && len(a.buf) == old(len(a.buf)) + len(in)
//@   ensures [no-flush-keeps-buffered-prefix] forall i int :: old(len(a.buf)) + len(in) < 256 && 0 <= i && i < old(len(a.buf)) ==> a.buf[i] == old(a.buf[i])
//@   ensures [no-flush-appends-input-in-order] forall i int :: old(len(a.buf)) + len(in) < 256 && 0 <= i && i < len(in) ==> a.buf[old(len(a.buf)) + i] == in[i]
//@   ensures [flush-sends-exactly-one-batch] old(len(a.buf)) + len(in) >= 256 ==> nsent() == 1 && len(sent(0)) == old(len(a.buf)) + len(in) && len(a.buf) == 0
//@   ensures [flushed-batch-starts-with-buffered-items] forall i int :: old(len(a.buf)) + len(in) >= 256 && 0 <= i && i < old(len(a.buf)) ==> sent(0)[i] == old(a.buf[i])
//@   ensures [flushed-batch-continues-with-input-in-order] forall i int :: old(len(a.buf)) + len(in) >= 256 && 0 <= i && i < len(in) ==> sent(0)[old(len(a.buf)) + i] == in[i]
//@   ensures [buffer-after-flush-is-fresh] old(len(a.buf)) + len(in) >= 256 ==> !samecell(a.buf, sent(0))
//@   ensures [returns-nil] isnil(r)
//@ end

//@ func Triangle3Buffer.Close
//@   property C11
//@   id view
//@   requires len(a.buf) >= 0
//@   ensures [flushes-the-remainder] old(len(a.buf)) != 0 ==> nsent() == 1 && len(sent(0)) == old(len(a.buf)) && len(a.buf) == 0
//@   ensures [remainder-in-order] forall i int :: old(len(a.buf)) != 0 && 0 <= i && i < old(len(a.buf)) ==> sent(0)[i] == old(a.buf[i])
//@   ensures [nothing-sent-when-empty] old(len(a.buf)) == 0 ==> nsent() == 0 && len(a.buf) == 0
//@   ensures [returns-nil] isnil(r)
//@ end

//@ func NewTriangle3Buffer
//@   property C11
//@   id view
//@   ensures [starts-empty] len(r.buf) == 0 && nsent() == 0
//@ end

//@ func Line2Buffer.Write
//@   property C11
//@   id view
//@   requires len(a.buf) >= 0 && len(a.buf) < 128
//@   ensures [no-flush-below-threshold] old(len(a.buf)) + len(in) < 128 ==> nsent() == 0 && len(a.buf) == old(len(a.buf)) + len(in)
//@   ensures [no-flush-keeps-buffered-prefix] forall i int :: old(len(a.buf)) + len(in) < 128 && 0 <= i && i < old(len(a.buf)) ==> a.buf[i] == old(a.buf[i])
//@   ensures [no-flush-appends-input-in-order] forall i int :: old(len(a.buf)) + len(in) < 128 && 0 <= i && i < len(in) ==> a.buf[old(len(a.buf)) + i] == in[i]
//@   ensures [flush-sends-exactly-one-batch] old(len(a.buf)) + len(in) >= 128 ==> nsent() == 1 && len(sent(0)) == old(len(a.buf)) + len(in) && len(a.buf) == 0
//@   ensures [flushed-batch-starts-with-buffered-items] forall i int :: old(len(a.buf)) + len(in) >= 128 && 0 <= i && i < old(len(a.buf)) ==> sent(0)[i] == old(a.buf[i])
//@   ensures [flushed-batch-continues-with-input-in-order] forall i int :: old(len(a.buf)) + len(in) >= 128 && 0 <= i && i < len(in) ==> sent(0)[old(len(a.buf)) + i] == in[i]
//@   ensures [buffer-after-flush-is-fresh] old(len(a.buf)) + len(in) >= 128 ==> !samecell(a.buf, sent(0))
//@   ensures [returns-nil] isnil(r)
//@ end

//@ func Line2Buffer.Close
//@   property C11
//@   id view
//@   requires len(a.buf) >= 0
//@   ensures [flushes-the-remainder] old(len(a.buf)) != 0 ==> nsent() == 1 && len(sent(0)) == old(len(a.buf)) && len(a.buf) == 0
//@   ensures [remainder-in-order] forall i int :: old(len(a.buf)) != 0 && 0 <= i && i < old(len(a.buf)) ==> sent(0)[i] == old(a.buf[i])
//@   ensures [nothing-sent-when-empty] old(len(a.buf)) == 0 ==> nsent() == 0 && len(a.buf) == 0
//@   ensures [returns-nil] isnil(r)
//@ end

//@ func NewLine2Buffer
//@   property C11
//@   id view
//@   ensures [starts-empty] len(r.buf) == 0 && nsent() == 0
//@ end

//@ func WriteTriangles$1
//@   property C11
//@   id collector
//@   invariant 0 true
//@   invariant 1 rangeindex >= -1 && rangeindex < len(ts) && len(*triangles) == pre(len(*triangles)) + rangeindex + 1
//@   invariant 1 forall k int :: 0 <= k && k < pre(len(*triangles)) ==> (*triangles)[k] == pre((*triangles)[k])
//@   invariant 1 forall k int :: 0 <= k && k <= rangeindex ==> (*triangles)[pre(len(*triangles)) + k] == ts[k]
//@   ensures [returns] true
//@ end

//-----------------------------------------------------------------------------
// C13: the facet normal written to STL files

//@ func Triangle3.Normal
//@   property C13
//@   requires t[1].Sub(t[0]).Cross(t[2].Sub(t[0])).Length2() > 0
//@   ensures [unit-length] r.Length2() == 1
//@   ensures [perpendicular-to-first-edge] r.Dot(t[1].Sub(t[0])) == 0
//@   ensures [perpendicular-to-second-edge] r.Dot(t[2].Sub(t[0])) == 0
//@   ensures [right-hand-rule] r.Dot(t[1].Sub(t[0]).Cross(t[2].Sub(t[0]))) > 0
//@ end

//-----------------------------------------------------------------------------
// C18: unit conversion, the sawtooth that makes the thread periodic, and the
// helical mapping of the screw.

//@ func ThreadParameters.ToMillimetre
//@   property C18
//@   pure
//@   ensures [already-metric-is-returned-unchanged] t.Units == "mm" ==> r == t
//@   ensures [lengths-scaled-by-25.4] t.Units != "mm" ==> r.Radius == t.Radius*25.4 && r.Pitch == t.Pitch*25.4 && r.HexFlat2Flat == t.HexFlat2Flat*25.4
//@   ensures [angle-and-name-kept] r.Taper == t.Taper && r.Name == t.Name
//@   ensures [result-is-metric-hence-a-second-conversion-returns-it-unchanged] r.Units == "mm"
//@ end

//@ func SawTooth
//@   property C18 C02 C03
//@   id range
//@   requires period > 0
//@   ensures [at-least-minus-half-period] -period/2 <= r
//@   ensures [below-half-period] r < period/2
//@   ensures [differs-from-x-by-a-multiple-of-the-period] real(floor((x + period/2)/period))*period == x - r
//@ end

//@ lemma sawtooth_periodic(x real, period real, n int)
//@   property C18 C02 C03
//@   requires period > 0
//@   let a = SawTooth(x + real(n)*period, period)
//@   let b = SawTooth(x, period)
//@   let tq = (x + real(n)*period + period/2)/period
//@   let q = (x + period/2)/period
//@   assert [shifted-quotient] tq == q + real(n)
//@   generalize tq
//@   generalize q
//@   ensures [period-invariant] SawTooth(x + real(n)*period, period) == SawTooth(x, period)
//@ end

//@ func Screw3D
//@   property C18 C02
//@   id handedness
//@   ensures [lead-is-minus-pitch-times-starts] isnil(err) ==> r.lead == -pitch*real(starts) && r.pitch == pitch && r.length == length/2 && r.taper == taper
//@ end

//@ func ScrewSDF3.Evaluate
//@   property C18 C02
//@   id denotes
//@   requires s.taper == 0 && s.pitch > 0
//@   ensures [thread-profile-on-the-helix-within-the-length] r == max(s.thread.Evaluate(v2.Vec{SawTooth(p.Z + s.lead*math.Atan2(p.Y, p.X)/Tau, s.pitch), sqrt(p.X*p.X + p.Y*p.Y)}), abs(p.Z) - s.length)
//@ end

//@ lemma screw_z_periodic(s *ScrewSDF3, p v3.Vec)
//@   property C18
//@   requires s.taper == 0 && s.pitch > 0
//@   requires abs(p.Z) <= s.length && abs(p.Z + s.pitch) <= s.length
//@   use sawtooth_periodic(p.Z + s.lead*math.Atan2(p.Y, p.X)/Tau, s.pitch, 1)
//@   ensures [thread-term-periodic-in-z] s.Evaluate(v3.Vec{p.X, p.Y, p.Z + s.pitch}) <= 0 <==> s.Evaluate(p) <= 0
//@ end

//-----------------------------------------------------------------------------
// C16: the 2D union's box-pruned Evaluate against evaluating every operand.
// Operand assumptions (what "an operand with its surface in its box" means):
//   l2: outside its box an operand is non-negative and at least as far as the box
//   up: an operand is non-positive or no farther than the farthest box corner
// BOUNDED: proved for unions of exactly 2 and exactly 3 operands (loops unroll
// on the concrete operand count); the statement for arbitrary operand counts
// needs the loop-invariant form and is not claimed.

//@ spec l2(s SDF2, q v2.Vec) = !s.BoundingBox().Contains(q) ==> s.Evaluate(q) >= 0 && sq(s.Evaluate(q)) >= s.BoundingBox().MinMaxDist2(q)[0]
//@ spec up(s SDF2, q v2.Vec) = s.Evaluate(q) <= 0 || sq(s.Evaluate(q)) <= s.BoundingBox().MinMaxDist2(q)[1]

//@ lemma union2d_pruned_equals_exhaustive_2(a SDF2, b SDF2, p v2.Vec)
//@   property C16
//@   requires ord2(a.BoundingBox()) && ord2(b.BoundingBox())
//@   requires forall q v2.Vec :: l2(a, q) && up(a, q)
//@   requires forall q v2.Vec :: l2(b, q) && up(b, q)
//@   let u = Union2D(a, b)
//@   let va = merged(a.BoundingBox().MinMaxDist2(p))
//@   let vb = merged(b.BoundingBox().MinMaxDist2(p))
//@   assert [a-min-zero-inside-box] a.BoundingBox().Contains(p) ==> va[0] == 0
//@   assert [a-interval-ordered] 0 <= va[0] && va[0] <= va[1]
//@   assert [b-min-zero-inside-box] b.BoundingBox().Contains(p) ==> vb[0] == 0
//@   assert [b-interval-ordered] 0 <= vb[0] && vb[0] <= vb[1]
//@   generalize va
//@   generalize vb
//@   let fast = u.Evaluate(p)
//@   ensures [pruned-is-the-minimum] fast == min(a.Evaluate(p), b.Evaluate(p))
//@   ensures [exhaustive-is-the-minimum] u.EvaluateSlow(p) == min(a.Evaluate(p), b.Evaluate(p))
//@ end

//@ lemma union2d_pruned_equals_exhaustive_3(a SDF2, b SDF2, c SDF2, p v2.Vec)
//@   property C16
//@   requires ord2(a.BoundingBox()) && ord2(b.BoundingBox()) && ord2(c.BoundingBox())
//@   requires forall q v2.Vec :: l2(a, q) && up(a, q)
//@   requires forall q v2.Vec :: l2(b, q) && up(b, q)
//@   requires forall q v2.Vec :: l2(c, q) && up(c, q)
//@   let u = Union2D(a, b, c)
//@   let va = merged(a.BoundingBox().MinMaxDist2(p))
//@   let vb = merged(b.BoundingBox().MinMaxDist2(p))
//@   let vc = merged(c.BoundingBox().MinMaxDist2(p))
//@   assert [a-min-zero-inside-box] a.BoundingBox().Contains(p) ==> va[0] == 0
//@   assert [a-interval-ordered] 0 <= va[0] && va[0] <= va[1]
//@   assert [b-min-zero-inside-box] b.BoundingBox().Contains(p) ==> vb[0] == 0
//@   assert [b-interval-ordered] 0 <= vb[0] && vb[0] <= vb[1]
//@   assert [c-min-zero-inside-box] c.BoundingBox().Contains(p) ==> vc[0] == 0
//@   assert [c-interval-ordered] 0 <= vc[0] && vc[0] <= vc[1]
//@   generalize va
//@   generalize vb
//@   generalize vc
//@   let fast = u.Evaluate(p)
//@   ensures [pruned-is-the-minimum] fast == min(a.Evaluate(p), b.Evaluate(p), c.Evaluate(p))
//@   ensures [exhaustive-is-the-minimum] u.EvaluateSlow(p) == min(a.Evaluate(p), b.Evaluate(p), c.Evaluate(p))
//@ end

//@ lemma union2d_blend_same_inside_outside_2(a SDF2, b SDF2, k real, p v2.Vec)
//@   property C16
//@   requires k > 0
//@   requires ord2(a.BoundingBox()) && ord2(b.BoundingBox())
//@   requires forall q v2.Vec :: l2(a, q) && up(a, q)
//@   requires forall q v2.Vec :: l2(b, q) && up(b, q)
//@   let u = Union2D(a, b)
//@   do u.SetMin(PolyMin(k))
//@   let fast = u.Evaluate(p)
//@   ensures [same-inside-outside-with-a-blend] fast < 0 <==> u.EvaluateSlow(p) < 0
//@ end

//-----------------------------------------------------------------------------
// C04: polygon SDF (sdf/mesh2.go, sdf/box2.go)
//
// The segment record is well formed when its cached direction and length
// describe the segment it points at (what newLineInfo establishes).

//@ spec liwf(a *lineInfo) = a.length > 0 && a.unitVector.Length2() == 1 && a.line[1] == a.line[0].Add(a.unitVector.MulScalar(a.length))
//@ spec segpt(a *lineInfo, s float64) = a.line[0].Add(a.unitVector.MulScalar(s))
//@ spec cross2(a v2.Vec, b v2.Vec, p v2.Vec) = (b.X - a.X)*(p.Y - a.Y) - (b.Y - a.Y)*(p.X - a.X)

//@ func newLineInfo
//@   property C04
//@   id well-formed
//@   modular
//@   ensures [a-record] !isnil(r)
//@   ensures [same-segment] r.line == l
//@   ensures [record-describes-the-segment] l[0] != l[1] ==> liwf(r)
//@ end

//@ func lineInfo.minDistance2
//@   property C04
//@   id exact
//@   pure
//@   forall s float64
//@   requires liwf(a)
//@   requires 0 <= s && s <= a.length
//@   let t = p.Sub(a.line[0]).Dot(a.unitVector)
//@   let tc = max(0, min(t, a.length))
//@   ensures [is-the-squared-distance-to-the-nearest-point-of-the-segment] r == p.Sub(segpt(a, tc)).Length2()
//@   ensures [no-point-of-the-segment-is-nearer] r <= p.Sub(segpt(a, s)).Length2()
//@   ensures [not-negative] r >= 0
//@ end

//@ func lineInfo.winding
//@   property C04
//@   id crossing-rule
//@   pure
//@   requires liwf(a)
//@   let ay = a.line[0].Y
//@   let by = a.line[1].Y
//@   let c = cross2(a.line[0], a.line[1], p)
//@   ensures [upward-crossing-counts-plus-one] r == 1 <==> (ay <= p.Y && p.Y < by && c > 0)
//@   ensures [downward-crossing-counts-minus-one] r == -1 <==> (by <= p.Y && p.Y < ay && c < 0)
//@   ensures [nothing-else-counts] r == 1 || r == -1 || r == 0
//@   ensures [a-function-of-the-end-points] r == wnof(a.line[0], a.line[1], p)
//@ end

//@ lemma crossing_side_is_where_the_edge_meets_the_ray(a v2.Vec, b v2.Vec, p v2.Vec)
//@   property C04
//@   requires a.Y != b.Y
//@   let xc = a.X + (p.Y - a.Y)*(b.X - a.X)/(b.Y - a.Y)
//@   ensures [upward-edge-left-of-means-crossing-to-the-right] a.Y < b.Y ==> (cross2(a, b, p) > 0 <==> xc > p.X)
//@   ensures [downward-edge-right-of-means-crossing-to-the-right] a.Y > b.Y ==> (cross2(a, b, p) < 0 <==> xc > p.X)
//@ end

//@ func qtNode.minBoxDist2
//@   property C04
//@   id exact
//@   pure
//@   forall q v2.Vec
//@   requires abs(q.X - node.center.X) <= node.halfSide && abs(q.Y - node.center.Y) <= node.halfSide
//@   ensures [squared-distance-to-the-square] r == sq(max(0, abs(p.X - node.center.X) - node.halfSide)) + sq(max(0, abs(p.Y - node.center.Y) - node.halfSide))
//@   ensures [no-point-of-the-square-is-nearer] r <= p.Sub(q).Length2()
//@ end

//@ func qtNode.searchOrder
//@   property C04
//@   id permutation
//@   pure
//@   ensures [child-indices] 0 <= r[0] && r[0] <= 3 && 0 <= r[1] && r[1] <= 3 && 0 <= r[2] && r[2] <= 3 && 0 <= r[3] && r[3] <= 3
//@   ensures [every-child-is-visited] (r[0] == 0 || r[1] == 0 || r[2] == 0 || r[3] == 0) && (r[0] == 1 || r[1] == 1 || r[2] == 1 || r[3] == 1) && (r[0] == 2 || r[1] == 2 || r[2] == 2 || r[3] == 2) && (r[0] == 3 || r[1] == 3 || r[2] == 3 || r[3] == 3)
//@   ensures [the-quadrant-holding-the-point-first] r[0] == ite(p.X >= node.center.X, 1, 0) + ite(p.Y >= node.center.Y, 2, 0)
//@ end

//@ func qtNode.minLeafDist2
//@   property C04
//@   id minimum-over-the-leaf
//@   pure
//@   requires forall a *lineInfo :: !isnil(a) ==> liwf(a)
//@   invariant 0 rangeindex >= -1 && rangeindex < len(node.leaf)
//@   invariant 0 forall k int :: 0 <= k && k <= rangeindex ==> dd <= node.leaf[k].minDistance2(p)
//@   invariant 0 exists w int :: dd == math.MaxFloat64 || (0 <= w && w <= rangeindex && dd == node.leaf[w].minDistance2(p))
//@   ensures [no-segment-of-the-leaf-is-nearer] forall k int :: 0 <= k && k < len(node.leaf) ==> r <= node.leaf[k].minDistance2(p)
//@   invariant 0 dd >= 0
//@   ensures [not-negative] r >= 0
//@   ensures [the-distance-to-one-of-them] exists w int :: r == math.MaxFloat64 || (0 <= w && w < len(node.leaf) && r == node.leaf[w].minDistance2(p))
//@ end

// Sum of the crossing increments of the first n segments of a leaf / of a mesh,
// and the smallest squared distance among them (recursive definitions, unfolded on demand).
//@ spec rec leafwn(node *qtNode, p v2.Vec, n int) int = ite(n <= 0, 0, leafwn(node, p, n - 1) + node.leaf[n - 1].winding(p))
//@ spec rec meshwn(s *MeshSDF2Slow, p v2.Vec, n int) int = ite(n <= 0, 0, meshwn(s, p, n - 1) + s.mesh[n - 1].winding(p))
//@ spec rec meshd2(s *MeshSDF2Slow, p v2.Vec, n int) real = ite(n <= 0, math.MaxFloat64, min(meshd2(s, p, n - 1), s.mesh[n - 1].minDistance2(p)))

//@ func qtNode.minDist2
//@   property C04
//@   id nil-node
//@   nil node
//@   ensures [nothing-to-measure] r == dd
//@   ensures [not-negative] dd >= 0 ==> r >= 0
//@ end

//@ func qtNode.minDist2
//@   property C04
//@   id one-level
//@   pure
//@   requires forall a *lineInfo :: !isnil(a) ==> liwf(a)
//@   let pruned = node.minBoxDist2(p) >= dd
//@   let leaf = !isnil(node.leaf)
//@   let order = node.searchOrder(p)
//@   ensures [never-larger-than-the-bound-so-far] r <= dd
//@   ensures [not-negative] dd >= 0 ==> r >= 0
//@   ensures [a-box-no-nearer-than-the-bound-is-skipped] pruned ==> r == dd && nev("call:qtNode.minDist2") == 0
//@   ensures [a-leaf-is-measured] !pruned && leaf ==> r == min(dd, node.minLeafDist2(p)) && nev("call:qtNode.minDist2") == 0
//@   ensures [four-searches] !pruned && !leaf ==> nev("call:qtNode.minDist2") == 4
//@   ensures [one-per-child-in-search-order] !pruned && !leaf ==> evarg("call:qtNode.minDist2", 0, 0) == node.child[order[0]] && evarg("call:qtNode.minDist2", 1, 0) == node.child[order[1]] && evarg("call:qtNode.minDist2", 2, 0) == node.child[order[2]] && evarg("call:qtNode.minDist2", 3, 0) == node.child[order[3]]
//@   ensures [for-the-same-point] !pruned && !leaf ==> evarg("call:qtNode.minDist2", 0, 1) == p && evarg("call:qtNode.minDist2", 1, 1) == p && evarg("call:qtNode.minDist2", 2, 1) == p && evarg("call:qtNode.minDist2", 3, 1) == p
//@   ensures [each-child-starts-from-the-best-so-far] !pruned && !leaf ==> evarg("call:qtNode.minDist2", 0, 2) == dd && evarg("call:qtNode.minDist2", 1, 2) == evres("call:qtNode.minDist2", 0, 0) && evarg("call:qtNode.minDist2", 2, 2) == evres("call:qtNode.minDist2", 1, 0) && evarg("call:qtNode.minDist2", 3, 2) == evres("call:qtNode.minDist2", 2, 0) && r == evres("call:qtNode.minDist2", 3, 0)
//@ end

//@ func qtNode.winding
//@   property C04
//@   id nil-node
//@   nil node
//@   ensures [nothing-to-count] r == wn
//@ end

//@ func qtNode.winding
//@   property C04
//@   id one-level
//@   pure
//@   requires forall a *lineInfo :: !isnil(a) ==> liwf(a)
//@   invariant 0 rangeindex >= -1 && rangeindex < len(node.leaf)
//@   invariant 0 wn == pre(wn) + leafwn(node, p, rangeindex + 1)
//@   let leaf = !isnil(node.leaf)
//@   let left = p.X < node.center.X
//@   let low = p.Y < node.center.Y
//@   ensures [a-leaf-adds-the-crossings-of-all-its-segments] leaf ==> r == wn + leafwn(node, p, len(node.leaf)) && nev("call:qtNode.winding") == 0
//@   ensures [left-of-centre-both-children-of-the-row-in-x-order] !leaf && left ==> nev("call:qtNode.winding") == 2 && evarg("call:qtNode.winding", 0, 0) == node.child[ite(low, 0, 2)] && evarg("call:qtNode.winding", 1, 0) == node.child[ite(low, 1, 3)] && evarg("call:qtNode.winding", 0, 2) == wn && evarg("call:qtNode.winding", 1, 2) == evres("call:qtNode.winding", 0, 0) && r == evres("call:qtNode.winding", 1, 0)
//@   ensures [right-of-centre-only-the-right-child-of-the-row] !leaf && !left ==> nev("call:qtNode.winding") == 1 && evarg("call:qtNode.winding", 0, 0) == node.child[ite(low, 1, 3)] && evarg("call:qtNode.winding", 0, 2) == wn && r == evres("call:qtNode.winding", 0, 0)
//@   ensures [for-the-same-point] !leaf ==> evarg("call:qtNode.winding", 0, 1) == p
//@ end

//@ func MeshSDF2Slow.Evaluate
//@   property C04
//@   id brute-force-reference
//@   requires forall a *lineInfo :: !isnil(a) ==> liwf(a)
//@   invariant 0 rangeindex >= -1 && rangeindex < len(s.mesh)
//@   invariant 0 wn == meshwn(s, p, rangeindex + 1)
//@   invariant 0 d2 == meshd2(s, p, rangeindex + 1)
//@   invariant 0 d2 >= 0
//@   ensures [distance-to-the-nearest-segment] abs(r) == sqrt(meshd2(s, p, len(s.mesh)))
//@   ensures [negative-exactly-when-the-winding-number-is-not-zero] (meshwn(s, p, len(s.mesh)) != 0 ==> r <= 0) && (meshwn(s, p, len(s.mesh)) == 0 ==> r >= 0)
//@ end

//@ func tAppend
//@   property C04
//@   id candidate-parameters
//@   modular
//@   invariant 0 rangeindex >= -1 && rangeindex < len(set)
//@   ensures [kept-or-one-more] len(r) == len(set) || (len(r) == len(set) + 1 && r[len(set)] == t && 0 <= t && t <= 1)
//@   ensures [earlier-values-untouched] forall k int :: 0 <= k && k < len(set) ==> r[k] == set[k]
//@ end

//@ func Box2.Snap
//@   property C04
//@   id summary
//@   pure
//@   ensures [returns] true
//@ end

//@ func Box2.lineIntersect
//@   property C04
//@   id clip
//@   modular
//@   requires a.Min.X <= a.Max.X && a.Min.Y <= a.Max.Y
//@   invariant 0 rangeindex >= -1 && rangeindex < len(tSet)
//@   invariant 0 forall k int :: 0 <= k && k < len(pSet) ==> a.Contains(pSet[k])
//@   ensures [what-is-kept-lies-in-the-box] !isnil(r) ==> a.Contains(r[0]) && a.Contains(r[1])
//@   ensures [and-keeps-the-direction-of-the-segment] !isnil(r) ==> r[1].Sub(r[0]).Dot(l[1].Sub(l[0])) >= 0
//@   ensures [a-horizontal-segment-on-the-top-edge-belongs-to-the-box-above] l[0].Y == l[1].Y && l[0].Y == a.Max.Y ==> isnil(r)
//@   ensures [a-vertical-segment-on-the-right-edge-belongs-to-the-box-to-the-right] l[0].X == l[1].X && l[0].X == a.Max.X ==> isnil(r)
//@   ensures [a-segment-inside-the-box-is-kept-whole] a.Contains(l[0]) && a.Contains(l[1]) && !(l[0].Y == l[1].Y && l[0].Y == a.Max.Y) && !(l[0].X == l[1].X && l[0].X == a.Max.X) ==> r == l
//@ end

//@ func Box2.lineFilter
//@   property C04
//@   id clip-all
//@   modular
//@   requires a.Min.X <= a.Max.X && a.Min.Y <= a.Max.Y
//@   invariant 0 rangeindex >= -1 && rangeindex < len(lSet)
//@   invariant 0 len(out) <= rangeindex + 1
//@   invariant 0 forall k int :: 0 <= k && k < len(out) ==> a.Contains(out[k][0]) && a.Contains(out[k][1])
//@   ensures [every-kept-piece-lies-in-the-box] forall k int :: 0 <= k && k < len(r) ==> a.Contains(r[k][0]) && a.Contains(r[k][1])
//@   ensures [no-more-pieces-than-segments] len(r) <= len(lSet)
//@ end

//@ func convertLines
//@   property C04
//@   id records
//@   modular
//@   invariant 0 rangeindex >= -1 && rangeindex < len(lSet) && len(li) == len(lSet)
//@   invariant 0 forall k int :: 0 <= k && k <= rangeindex ==> !isnil(li[k]) && li[k].line == lSet[k] && (lSet[k][0] != lSet[k][1] ==> liwf(li[k]))
//@   ensures [one-record-per-segment] len(r) == len(lSet) && !isnil(r)
//@   ensures [each-describing-its-segment] forall k int :: 0 <= k && k < len(lSet) ==> !isnil(r[k]) && r[k].line == lSet[k] && (lSet[k][0] != lSet[k][1] ==> liwf(r[k]))
//@ end

// The crossing increment as a function of the segment's end points.
//@ spec wnof(a v2.Vec, b v2.Vec, p v2.Vec) = ite(a.Y <= p.Y && p.Y < b.Y && cross2(a, b, p) > 0, 1, ite(b.Y <= p.Y && p.Y < a.Y && cross2(a, b, p) < 0, -1, 0))

//@ lemma a_piece_in_another_row_is_not_crossed(a v2.Vec, b v2.Vec, p v2.Vec)
//@   property C04
//@   requires (a.Y <= p.Y && b.Y <= p.Y) || (p.Y < a.Y && p.Y < b.Y)
//@   ensures [no-crossing] wnof(a, b, p) == 0
//@ end

//@ lemma a_piece_left_of_the_point_is_not_crossed(a v2.Vec, b v2.Vec, p v2.Vec)
//@   property C04
//@   requires a.X <= p.X && b.X <= p.X
//@   ensures [no-crossing] wnof(a, b, p) == 0
//@ end

//@ lemma a_box_no_nearer_than_the_bound_holds_no_nearer_segment(c v2.Vec, h float64, a v2.Vec, b v2.Vec, lam float64, p v2.Vec)
//@   property C04
//@   requires abs(a.X - c.X) <= h && abs(a.Y - c.Y) <= h && abs(b.X - c.X) <= h && abs(b.Y - c.Y) <= h
//@   requires 0 <= lam && lam <= 1
//@   let q = a.Add(b.Sub(a).MulScalar(lam))
//@   assert [the-point-of-the-segment-is-in-the-square] abs(q.X - c.X) <= h && abs(q.Y - c.Y) <= h
//@   generalize q
//@   focus the-point-of-the-segment-is-in-the-square
//@   ensures [box-distance-bounds-segment-distance] sq(max(0, abs(p.X - c.X) - h)) + sq(max(0, abs(p.Y - c.Y) - h)) <= p.Sub(q).Length2()
//@ end

//@ lemma the_four_quadrants_tile_a_square_about_its_centre(b Box2, q v2.Vec)
//@   property C04
//@   requires b.Min.X <= b.Max.X && b.Min.Y <= b.Max.Y
//@   let c = b.Center()
//@   ensures [lower-left] b.quad0().Min == b.Min && b.quad0().Max == c
//@   ensures [lower-right] b.quad1().Min == v2.Vec{c.X, b.Min.Y} && b.quad1().Max == v2.Vec{b.Max.X, c.Y}
//@   ensures [upper-left] b.quad2().Min == v2.Vec{b.Min.X, c.Y} && b.quad2().Max == v2.Vec{c.X, b.Max.Y}
//@   ensures [upper-right] b.quad3().Min == c && b.quad3().Max == b.Max
//@   ensures [nothing-falls-between] b.Contains(q) ==> b.quad0().Contains(q) || b.quad1().Contains(q) || b.quad2().Contains(q) || b.quad3().Contains(q)
//@ end

//@ func qtBuild
//@   property C04
//@   id one-level
//@   modular
//@   requires box.Min.X <= box.Max.X && box.Min.Y <= box.Max.Y
//@   let isleaf = len(lSet) == 1 || level == 3
//@   ensures [no-segments-no-node] len(lSet) == 0 <==> isnil(r)
//@   ensures [the-node-records-its-box] !isnil(r) ==> r.level == level && r.box == box && r.center == box.Center() && r.halfSide == 0.5*(box.Max.X - box.Min.X)
//@   ensures [a-leaf-holds-every-segment-it-was-given] len(lSet) > 0 && isleaf ==> !isnil(r.leaf) && len(r.leaf) == len(lSet) && nev("call:qtBuild") == 0
//@   ensures [each-with-its-record] forall k int :: len(lSet) > 0 && isleaf && 0 <= k && k < len(lSet) ==> !isnil(r.leaf[k]) && r.leaf[k].line == lSet[k] && (lSet[k][0] != lSet[k][1] ==> liwf(r.leaf[k]))
//@   ensures [an-inner-node-has-four-children] len(lSet) > 0 && !isleaf ==> isnil(r.leaf) && nev("call:qtBuild") == 4 && nev("call:Box2.lineFilter") == 4
//@   ensures [one-level-down] len(lSet) > 0 && !isleaf ==> evarg("call:qtBuild", 0, 0) == level + 1 && evarg("call:qtBuild", 1, 0) == level + 1 && evarg("call:qtBuild", 2, 0) == level + 1 && evarg("call:qtBuild", 3, 0) == level + 1
//@   ensures [over-the-four-quadrants] len(lSet) > 0 && !isleaf ==> evarg("call:qtBuild", 0, 1) == box.quad0() && evarg("call:qtBuild", 1, 1) == box.quad1() && evarg("call:qtBuild", 2, 1) == box.quad2() && evarg("call:qtBuild", 3, 1) == box.quad3()
//@   ensures [each-clipping-the-same-segments-to-its-quadrant] len(lSet) > 0 && !isleaf ==> evarg("call:Box2.lineFilter", 0, 0) == box.quad0() && evarg("call:Box2.lineFilter", 1, 0) == box.quad1() && evarg("call:Box2.lineFilter", 2, 0) == box.quad2() && evarg("call:Box2.lineFilter", 3, 0) == box.quad3() && evarg("call:Box2.lineFilter", 0, 1) == lSet && evarg("call:Box2.lineFilter", 1, 1) == lSet && evarg("call:Box2.lineFilter", 2, 1) == lSet && evarg("call:Box2.lineFilter", 3, 1) == lSet
//@   ensures [and-given-the-clipped-pieces] len(lSet) > 0 && !isleaf ==> evarg("call:qtBuild", 0, 2) == evres("call:Box2.lineFilter", 0, 0) && evarg("call:qtBuild", 1, 2) == evres("call:Box2.lineFilter", 1, 0) && evarg("call:qtBuild", 2, 2) == evres("call:Box2.lineFilter", 2, 0) && evarg("call:qtBuild", 3, 2) == evres("call:Box2.lineFilter", 3, 0)
//@   ensures [children-in-quadrant-order] len(lSet) > 0 && !isleaf ==> r.child[0] == evres("call:qtBuild", 0, 0) && r.child[1] == evres("call:qtBuild", 1, 0) && r.child[2] == evres("call:qtBuild", 2, 0) && r.child[3] == evres("call:qtBuild", 3, 0)
//@ end

//@ func VertexToLine
//@   property C04
//@   id edges
//@   modular
//@   let n = len(vertex)
//@   let closes = closed && !vertex[0].Equals(vertex[n - 1], tolerance)
//@   invariant 0 rangeindex >= -1 && rangeindex < len(line)
//@   invariant 0 forall k int :: 0 <= k && k <= rangeindex ==> !isnil(line[k]) && line[k][0] == vertex[k] && line[k][1] == vertex[k + 1]
//@   ensures [fewer-than-two-vertices-no-edges] n < 2 ==> isnil(r)
//@   ensures [one-edge-per-consecutive-pair] n >= 2 ==> len(r) == ite(closes, n, n - 1)
//@   ensures [joining-neighbours] forall k int :: n >= 2 && 0 <= k && k < n - 1 ==> !isnil(r[k]) && r[k][0] == vertex[k] && r[k][1] == vertex[k + 1]
//@   ensures [and-back-to-the-start-when-closed] n >= 2 && closes ==> !isnil(r[n - 1]) && r[n - 1][0] == vertex[n - 1] && r[n - 1][1] == vertex[0]
//@ end

//@ func Mesh2D
//@   property C04
//@   id quadtree-over-the-bounding-square
//@   modular
//@   let n = len(mesh)
//@   invariant 0 rangeindex >= -1 && rangeindex < len(mesh)
//@   invariant 0 bb.Min.X <= bb.Max.X && bb.Min.Y <= bb.Max.Y
//@   invariant 0 forall k int :: 0 <= k && k <= rangeindex ==> bb.Contains(mesh[k][0]) && bb.Contains(mesh[k][1])
//@   ensures [no-segments-is-an-error] n == 0 <==> !isnil(err)
//@   ensures [the-box-holds-every-end-point] forall k int :: isnil(err) && 0 <= k && k < n ==> r.BoundingBox().Contains(mesh[k][0]) && r.BoundingBox().Contains(mesh[k][1])
//@   ensures [one-tree-over-all-segments-from-level-zero] n > 0 ==> nev("call:qtBuild") == 1 && evarg("call:qtBuild", 0, 0) == 0 && evarg("call:qtBuild", 0, 2) == mesh
//@   ensures [whose-square-contains-the-box] isnil(err) ==> evarg("call:qtBuild", 0, 1).Min.X <= r.BoundingBox().Min.X && evarg("call:qtBuild", 0, 1).Min.Y <= r.BoundingBox().Min.Y && evarg("call:qtBuild", 0, 1).Max.X >= r.BoundingBox().Max.X && evarg("call:qtBuild", 0, 1).Max.Y >= r.BoundingBox().Max.Y && evarg("call:qtBuild", 0, 1).Max.X - evarg("call:qtBuild", 0, 1).Min.X == evarg("call:qtBuild", 0, 1).Max.Y - evarg("call:qtBuild", 0, 1).Min.Y
//@ end

//@ func Polygon2D
//@   property C04
//@   id closed-outline
//@   let n = len(vertex)
//@   ensures [fewer-than-three-vertices-is-an-error] n < 3 ==> !isnil(err) && nev("call:Mesh2D") == 0
//@   ensures [otherwise-the-mesh-of-the-closed-outline] n >= 3 ==> nev("call:VertexToLine") == 1 && evarg("call:VertexToLine", 0, 0) == vertex && evarg("call:VertexToLine", 0, 1) == true && nev("call:Mesh2D") == 1 && evarg("call:Mesh2D", 0, 0) == evres("call:VertexToLine", 0, 0) && r == evres("call:Mesh2D", 0, 0)
//@ end

//@ func MeshSDF2.Evaluate
//@   property C04
//@   id distance-and-sign
//@   requires forall a *lineInfo :: !isnil(a) ==> liwf(a)
//@   let d2 = s.qt.minDist2(p, math.MaxFloat64)
//@   let wn = s.qt.winding(p, 0)
//@   ensures [distance-found-by-the-tree-search] d2 >= 0 ==> abs(r) == sqrt(d2)
//@   ensures [negative-exactly-when-the-winding-number-is-not-zero] (wn != 0 ==> r <= 0) && (wn == 0 ==> r >= 0)
//@ end

//-----------------------------------------------------------------------------
// C17: profile builders (sdf/poly.go, sdf/bezier.go)

//@ func PolygonVertex.Rel
//@   property C17
//@   id marks-relative
//@   ensures [marked] v.relative && r == v
//@   ensures [nothing-else-changes] v.vertex == old(v.vertex) && v.vtype == old(v.vtype) && v.facets == old(v.facets) && v.radius == old(v.radius)
//@ end

//@ func PolygonVertex.Polar
//@   property C17
//@   id polar-to-cartesian
//@   ensures [radius-angle-to-x-y] v.vertex.X == old(v.vertex.X)*cos(old(v.vertex.Y)) && v.vertex.Y == old(v.vertex.X)*sin(old(v.vertex.Y)) && r == v
//@   ensures [nothing-else-changes] v.relative == old(v.relative) && v.vtype == old(v.vtype) && v.facets == old(v.facets) && v.radius == old(v.radius)
//@ end

//@ func PolygonVertex.Smooth
//@   property C17
//@   id marks-fillet
//@   ensures [fillet-of-that-radius-and-facets] radius != 0 && facets != 0 ==> v.vtype == pvSmooth && v.radius == radius && v.facets == facets
//@   ensures [nothing-to-do] radius == 0 || facets == 0 ==> v.vtype == old(v.vtype) && v.radius == old(v.radius) && v.facets == old(v.facets)
//@   ensures [position-kept] v.vertex == old(v.vertex) && v.relative == old(v.relative) && r == v
//@ end

//@ func PolygonVertex.Chamfer
//@   property C17
//@   id one-facet-fillet
//@   ensures [a-single-facet-whose-cut-points-are-size-from-a-right-angle-vertex] size != 0 ==> v.vtype == pvSmooth && v.facets == 1 && v.radius == size*0.7071067811865476
//@   ensures [nothing-to-do] size == 0 ==> v.vtype == old(v.vtype) && v.radius == old(v.radius) && v.facets == old(v.facets)
//@   ensures [position-kept] v.vertex == old(v.vertex) && v.relative == old(v.relative) && r == v
//@ end

//@ func PolygonVertex.Arc
//@   property C17
//@   id marks-arc
//@   ensures [arc-of-that-radius-and-facets] radius != 0 && facets != 0 ==> v.vtype == pvArc && v.radius == radius && v.facets == facets
//@   ensures [nothing-to-do] radius == 0 || facets == 0 ==> v.vtype == old(v.vtype) && v.radius == old(v.radius) && v.facets == old(v.facets)
//@   ensures [position-kept] v.vertex == old(v.vertex) && v.relative == old(v.relative) && r == v
//@ end

//@ func Nagon
//@   property C17
//@   id regular
//@   invariant 0 0 <= i && i <= n && len(v) == n
//@   invariant 0 p.Length2() == sq(radius)
//@   invariant 0 forall k int :: 0 <= k && k < i ==> v[k].Length2() == sq(radius)
//@   invariant 0 forall k int :: 1 <= k && k < i ==> v[k] == m.MulPosition(v[k - 1])
//@   invariant 0 i >= 1 ==> p == m.MulPosition(v[i - 1])
//@   invariant 0 i == 0 ==> p == v2.Vec{radius, 0}
//@   invariant 0 i >= 1 ==> v[0] == v2.Vec{radius, 0}
//@   ensures [fewer-than-three-sides-is-nothing] n < 3 ==> isnil(r)
//@   ensures [n-vertices] n >= 3 ==> len(r) == n && r[0] == v2.Vec{radius, 0}
//@   ensures [all-on-the-circle] forall k int :: n >= 3 && 0 <= k && k < n ==> r[k].Length2() == sq(radius)
//@   ensures [each-the-previous-one-turned-by-a-full-turn-over-n] forall k int :: n >= 3 && 1 <= k && k < n ==> r[k] == Rotate(2*PI/real(n)).MulPosition(r[k - 1])
//@ end

// Bezier: power-basis coefficients of the Bernstein form, per degree.
//@ spec zs(c float64, sum float64, exact float64) = c == exact || (c == 0 && abs(exact)/sum < 1e-12)
//@ spec bpwf(p *BezierPolynomial) = 0 <= p.n && p.n <= 4 && (p.n < 4 ==> p.e == 0) && (p.n < 3 ==> p.d == 0) && (p.n < 2 ==> p.c == 0) && (p.n < 1 ==> p.b == 0)
//@ spec horner(p *BezierPolynomial, t float64) = p.a + t*(p.b + t*(p.c + t*(p.d + t*p.e)))

//@ func BezierPolynomial.f0
//@   property C17
//@   id horner
//@   pure
//@   requires bpwf(p)
//@   ensures [the-polynomial-with-the-stored-coefficients] r == horner(p, t)
//@ end

//@ func BezierPolynomial.Set
//@   property C17
//@   id power-basis-of-the-bernstein-form
//@   requires 1 <= len(x) && len(x) <= 5
//@   requires p.a == 0 && p.b == 0 && p.c == 0 && p.d == 0 && p.e == 0
//@   let n = len(x) - 1
//@   let a = x[0]
//@   let b = ite(n == 1, x[1] - x[0], ite(n == 2, 2*(x[1] - x[0]), ite(n == 3, 3*(x[1] - x[0]), ite(n == 4, 4*(x[1] - x[0]), 0))))
//@   let c = ite(n == 2, x[0] - 2*x[1] + x[2], ite(n == 3, 3*(x[0] - 2*x[1] + x[2]), ite(n == 4, 6*(x[0] - 2*x[1] + x[2]), 0)))
//@   let d = ite(n == 3, x[3] - 3*x[2] + 3*x[1] - x[0], ite(n == 4, 4*(x[3] - 3*x[2] + 3*x[1] - x[0]), 0))
//@   let e = ite(n == 4, x[4] - 4*x[3] + 6*x[2] - 4*x[1] + x[0], 0)
//@   let sum = abs(a) + abs(b) + abs(c) + abs(d) + abs(e)
//@   ensures [coefficients-of-the-control-points-or-zeroed-when-negligible] zs(p.a, sum, a) && zs(p.b, sum, b) && zs(p.c, sum, c) && zs(p.d, sum, d) && zs(p.e, sum, e)
//@   ensures [order-is-the-highest-non-zero-coefficient-at-most-the-control-count] 0 <= p.n && p.n <= n && (p.n < 4 ==> p.e == 0) && (p.n < 3 ==> p.d == 0) && (p.n < 2 ==> p.c == 0) && (p.n < 1 ==> p.b == 0)
//@ end

//@ lemma bezier_power_basis_is_the_bernstein_form(x0 float64, x1 float64, x2 float64, x3 float64, x4 float64, t float64)
//@   property C17
//@   let u = 1 - t
//@   ensures [linear] x0 + t*(x1 - x0) == u*x0 + t*x1
//@   ensures [quadratic] x0 + t*(2*(x1 - x0) + t*(x0 - 2*x1 + x2)) == u*u*x0 + 2*u*t*x1 + t*t*x2
//@   ensures [cubic] x0 + t*(3*(x1 - x0) + t*(3*(x0 - 2*x1 + x2) + t*(x3 - 3*x2 + 3*x1 - x0))) == u*u*u*x0 + 3*u*u*t*x1 + 3*u*t*t*x2 + t*t*t*x3
//@   ensures [quartic] x0 + t*(4*(x1 - x0) + t*(6*(x0 - 2*x1 + x2) + t*(4*(x3 - 3*x2 + 3*x1 - x0) + t*(x4 - 4*x3 + 6*x2 - 4*x1 + x0)))) == u*u*u*u*x0 + 4*u*u*u*t*x1 + 6*u*u*t*t*x2 + 4*u*t*t*t*x3 + t*t*t*t*x4
//@ end

//@ func BezierSpline.f0
//@   property C17
//@   id point-of-the-curve
//@   pure
//@   requires bpwf(s.px) && bpwf(s.py)
//@   ensures [x-and-y-polynomials-at-the-same-parameter] r.X == horner(s.px, t) && r.Y == horner(s.py, t)
//@ end

//@ func Polygon.AddV2
//@   property C17
//@   id appends-a-plain-vertex
//@   modular
//@   havoc p.vlist
//@   ensures [one-more-vertex] len(p.vlist) == old(len(p.vlist)) + 1
//@   ensures [the-given-point-as-a-plain-absolute-vertex-at-the-end] p.vlist[old(len(p.vlist))].vertex == x && p.vlist[old(len(p.vlist))].vtype == pvNormal && !p.vlist[old(len(p.vlist))].relative && p.vlist[old(len(p.vlist))].radius == 0 && p.vlist[old(len(p.vlist))].facets == 0
//@   ensures [earlier-vertices-untouched] forall k int :: 0 <= k && k < old(len(p.vlist)) ==> p.vlist[k] == old(p.vlist[k])
//@ end

//@ func BezierSpline.Sample
//@   property C17
//@   id one-level
//@   modular
//@   havoc p.vlist
//@   requires t0 < t1
//@   requires bpwf(s.px) && bpwf(s.py)
//@   requires p0 == s.f0(t0) && p1 == s.f0(t1)
//@   let tmid = (t0 + t1)/2
//@   let pmid = s.f0(tmid)
//@   let flat = nev("call:BezierSpline.Sample") == 0
//@   ensures [either-the-span-is-emitted-as-one-segment-or-it-is-halved] nev("call:BezierSpline.Sample") == 0 || nev("call:BezierSpline.Sample") == 2
//@   ensures [a-flat-span-at-the-start-of-the-curve-adds-both-its-end-points] flat && t0 == 0 ==> nev("call:Polygon.AddV2") == 2 && evarg("call:Polygon.AddV2", 0, 1) == p0 && evarg("call:Polygon.AddV2", 1, 1) == p1
//@   ensures [a-later-flat-span-adds-only-its-far-end-point] flat && t0 != 0 ==> nev("call:Polygon.AddV2") == 1 && evarg("call:Polygon.AddV2", 0, 1) == p1
//@   ensures [a-curved-span-is-split-at-the-middle-parameter-first-half-first] !flat ==> nev("call:Polygon.AddV2") == 0 && evarg("call:BezierSpline.Sample", 0, 2) == t0 && evarg("call:BezierSpline.Sample", 0, 3) == tmid && evarg("call:BezierSpline.Sample", 1, 2) == tmid && evarg("call:BezierSpline.Sample", 1, 3) == t1
//@   ensures [with-the-curve-points-at-those-parameters] !flat ==> evarg("call:BezierSpline.Sample", 0, 4) == p0 && evarg("call:BezierSpline.Sample", 0, 5) == pmid && evarg("call:BezierSpline.Sample", 1, 4) == pmid && evarg("call:BezierSpline.Sample", 1, 5) == p1
//@   ensures [into-the-same-polygon-one-level-deeper] !flat ==> evptr("call:BezierSpline.Sample", 0, 1) == p && evptr("call:BezierSpline.Sample", 1, 1) == p && evptr("call:BezierSpline.Sample", 0, 0) == s && evptr("call:BezierSpline.Sample", 1, 0) == s && evarg("call:BezierSpline.Sample", 0, 6) == n + 1 && evarg("call:BezierSpline.Sample", 1, 6) == n + 1 && n <= 8
//@ end

//@ func BezierPolynomial.Set
//@   property C17
//@   id summary
//@   modular
//@   havoc p.n
//@   havoc p.a
//@   havoc p.b
//@   havoc p.c
//@   havoc p.d
//@   havoc p.e
//@   requires 1 <= len(x) && len(x) <= 5
//@   requires p.a == 0 && p.b == 0 && p.c == 0 && p.d == 0 && p.e == 0
//@   ensures [well-formed] bpwf(p) && p.n <= len(x) - 1
//@ end

//@ func NewBezierSpline
//@   property C17
//@   id x-and-y-polynomials-of-the-control-points
//@   modular
//@   requires 1 <= len(p) && len(p) <= 5
//@   invariant 0 rangeindex >= -1 && rangeindex < len(p) && len(x) == len(p) && len(y) == len(p)
//@   invariant 0 forall k int :: 0 <= k && k <= rangeindex ==> x[k] == p[k].X && y[k] == p[k].Y
//@   let xs = evarg("call:BezierPolynomial.Set", 0, 1)
//@   let ys = evarg("call:BezierPolynomial.Set", 1, 1)
//@   ensures [a-spline] !isnil(r) && r.tolerance == 0.02
//@   ensures [x-polynomial-from-the-x-coordinates-y-from-the-y-coordinates] nev("call:BezierPolynomial.Set") == 2 && evptr("call:BezierPolynomial.Set", 0, 0) == &r.px && evptr("call:BezierPolynomial.Set", 1, 0) == &r.py && len(xs) == len(p) && len(ys) == len(p)
//@   ensures [in-control-point-order] forall k int :: 0 <= k && k < len(p) ==> xs[k] == p[k].X && ys[k] == p[k].Y
//@   ensures [both-well-formed] bpwf(r.px) && bpwf(r.py)
//@ end

//@ func Polygon.relToAbs
//@   property C17
//@   id relative-to-absolute
//@   requires len(p.vlist) >= 1 && !p.vlist[0].relative
//@   invariant 0 rangeindex >= -1 && rangeindex < len(p.vlist) && len(p.vlist) == pre(len(p.vlist))
//@   invariant 0 forall k int :: 0 <= k && k <= rangeindex ==> !p.vlist[k].relative
//@   invariant 0 forall k int :: 1 <= k && k <= rangeindex ==> p.vlist[k].vertex == ite(pre(p.vlist[k].relative), pre(p.vlist[k].vertex).Add(p.vlist[k - 1].vertex), pre(p.vlist[k].vertex))
//@   invariant 0 rangeindex >= 0 ==> p.vlist[0].vertex == pre(p.vlist[0].vertex)
//@   invariant 0 forall k int :: rangeindex < k && k < len(p.vlist) ==> p.vlist[k].relative == pre(p.vlist[k].relative) && p.vlist[k].vertex == pre(p.vlist[k].vertex)
//@   invariant 0 forall k int :: 0 <= k && k < len(p.vlist) ==> p.vlist[k].vtype == pre(p.vlist[k].vtype) && p.vlist[k].facets == pre(p.vlist[k].facets) && p.vlist[k].radius == pre(p.vlist[k].radius)
//@   ensures [no-error-when-the-first-vertex-is-absolute] isnil(r)
//@   ensures [every-vertex-absolute-afterwards] forall k int :: 0 <= k && k < len(p.vlist) ==> !p.vlist[k].relative
//@   ensures [a-relative-vertex-is-its-offset-added-to-the-resolved-previous-vertex] forall k int :: 1 <= k && k < len(p.vlist) ==> p.vlist[k].vertex == ite(old(p.vlist[k].relative), old(p.vlist[k].vertex).Add(p.vlist[k - 1].vertex), old(p.vlist[k].vertex))
//@   ensures [first-vertex-and-everything-else-kept] len(p.vlist) == old(len(p.vlist)) && p.vlist[0].vertex == old(p.vlist[0].vertex)
//@   ensures [smoothing-and-arc-marks-kept] forall k int :: 0 <= k && k < len(p.vlist) ==> p.vlist[k].vtype == old(p.vlist[k].vtype) && p.vlist[k].facets == old(p.vlist[k].facets) && p.vlist[k].radius == old(p.vlist[k].radius)
//@ end

//@ func Polygon.fixups
//@   property C17
//@   id frame
//@   modular
//@   trusted call sites see only that the fix-up passes rewrite the vertex list (what each pass does is the subject of relToAbs, arcVertex and smoothVertex)
//@   havoc p.vlist
//@   ensures [returns] true
//@ end

//@ func Polygon.Vertices
//@   property C17
//@   id order
//@   invariant 0 rangeindex >= -1 && rangeindex < len(p.vlist) && len(v) == n && n == len(p.vlist)
//@   invariant 0 forall k int :: 0 <= k && k <= rangeindex ==> v[n - 1 - k] == p.vlist[k].vertex
//@   invariant 1 rangeindex >= -1 && rangeindex < len(p.vlist) && len(v) == n && n == len(p.vlist)
//@   invariant 1 forall k int :: 0 <= k && k <= rangeindex ==> v[k] == p.vlist[k].vertex
//@   ensures [an-empty-polygon-has-no-vertices] old(isnil(p.vlist)) ==> isnil(r)
//@   atentry 0 nev("call:Polygon.fixups") == 1
//@   atentry 1 nev("call:Polygon.fixups") == 1
//@   ensures [one-point-per-vertex-after-the-fix-ups] !old(isnil(p.vlist)) ==> len(r) == len(p.vlist)
//@   ensures [in-list-order] forall k int :: !old(isnil(p.vlist)) && !p.reverse && 0 <= k && k < len(p.vlist) ==> r[k] == p.vlist[k].vertex
//@   ensures [or-in-reverse-order-when-asked] forall k int :: !old(isnil(p.vlist)) && p.reverse && 0 <= k && k < len(p.vlist) ==> r[len(p.vlist) - 1 - k] == p.vlist[k].vertex
//@ end

//@ func Polygon.nextVertex
//@   property C17
//@   id ring-successor
//@   requires 0 <= i && i < len(p.vlist)
//@   ensures [next-in-the-list-wrapping-when-closed] i < len(p.vlist) - 1 ==> r == &p.vlist[i + 1]
//@   ensures [wraps-to-the-first-when-closed] i == len(p.vlist) - 1 && p.closed ==> r == &p.vlist[0]
//@   ensures [open-end-has-none] i == len(p.vlist) - 1 && !p.closed ==> isnil(r)
//@ end

//@ func Polygon.prevVertex
//@   property C17
//@   id ring-predecessor
//@   requires 0 <= i && i < len(p.vlist)
//@   ensures [previous-in-the-list] i > 0 ==> r == &p.vlist[i - 1]
//@   ensures [wraps-to-the-last-when-closed] i == 0 && p.closed ==> r == &p.vlist[len(p.vlist) - 1]
//@   ensures [open-end-has-none] i == 0 && !p.closed ==> isnil(r)
//@ end

//@ func Polygon.smoothVertex
//@   property C17
//@   id fillet-structure
//@   requires 0 <= i && i < len(p.vlist) && len(p.vlist) >= 3
//@   requires p.vlist[i].vtype == pvSmooth ==> p.vlist[i].facets >= 1
//@   prelet n0 = len(p.vlist)
//@   prelet f = p.vlist[i].facets
//@   prelet vx = p.vlist[i].vertex
//@   forget 0 p0 c v0 v1 d1 d2 theta dtheta vc
//@   invariant 0 rangeindex >= -1 && rangeindex < len(points) && len(points) == f + 1
//@   invariant 0 rm[0] == rm[3] && rm[1] == -rm[2] && sq(rm[0]) + sq(rm[2]) == 1
//@   invariant 0 rv.Length2() == p0.Sub(c).Length2()
//@   invariant 0 forall k int :: 0 <= k && k <= rangeindex ==> points[k].vertex.Sub(c).Length2() == p0.Sub(c).Length2() && points[k].vtype == pvNormal && !points[k].relative
//@   invariant 0 rangeindex >= 0 ==> points[0].vertex == p0
//@   invariant 0 rangeindex == -1 ==> rv == p0.Sub(c)
//@   atentry 0 p0 == vx.Add(vp.vertex.Sub(vx).Normalize().MulScalar(d1)) && d1 <= vp.vertex.Sub(vx).Length() && d1 <= vn.vertex.Sub(vx).Length()
//@   atentry 0 c == vx.Add(vp.vertex.Sub(vx).Normalize().Add(vn.vertex.Sub(vx).Normalize()).Normalize().MulScalar(d2))
//@   ensures [a-vertex-that-is-not-smoothed-leaves-the-polygon-untouched] !r ==> len(p.vlist) == n0
//@   ensures [and-every-vertex-as-it-was] forall k int :: !r && 0 <= k && k < n0 ==> p.vlist[k] == old(p.vlist[k])
//@   ensures [only-marked-vertices-are-smoothed] r ==> old(p.vlist[i].vtype) == pvSmooth
//@   ensures [the-vertex-is-replaced-by-facets-plus-one-points] r ==> len(p.vlist) == n0 + f
//@   ensures [vertices-before-it-kept] forall k int :: r && 0 <= k && k < i ==> p.vlist[k] == old(p.vlist[k])
//@   ensures [vertices-after-it-kept-in-order] forall k int :: r && i < k && k < n0 ==> p.vlist[k + f] == old(p.vlist[k])
//@   ensures [the-new-points-are-plain-absolute-vertices] forall k int :: r && 0 <= k && k <= f ==> p.vlist[i + k].vtype == pvNormal && !p.vlist[i + k].relative
//@   ensures [all-on-one-circle-about-the-fillet-centre] forall k int :: r && 0 <= k && k <= f ==> p.vlist[i + k].vertex.Sub(c).Length2() == p0.Sub(c).Length2()
//@   ensures [starting-at-the-tangent-point-on-the-edge-to-the-previous-vertex] r ==> p.vlist[i].vertex == p0
//@ end

//@ func Polygon.arcVertex
//@   property C17
//@   id arc-structure
//@   havoc p.vlist
//@   requires 0 <= i && i < len(p.vlist) && len(p.vlist) >= 2
//@   requires p.vlist[i].vtype == pvArc ==> p.vlist[i].facets >= 1
//@   prelet n0 = len(p.vlist)
//@   prelet f = p.vlist[i].facets
//@   prelet wasarc = p.vlist[i].vtype == pvArc
//@   forget 0 c ac bc dtheta n ba mid dMid dCenter side radius a b
//@   invariant 0 rangeindex >= -1 && rangeindex < len(vlist) && len(vlist) == f - 1
//@   invariant 0 m[0] == m[3] && m[1] == -m[2] && sq(m[0]) + sq(m[2]) == 1
//@   invariant 0 rv.Length2() == a.Sub(c).Length2()
//@   invariant 0 forall k int :: 0 <= k && k <= rangeindex ==> vlist[k].vertex.Sub(c).Length2() == a.Sub(c).Length2() && vlist[k].vtype == pvNormal && !vlist[k].relative
//@   atentry 0 a == pv.vertex && b == v.vertex && mid == a.Add(b).MulScalar(0.5) && c == mid.Add(n.MulScalar(dCenter))
//@   ensures [a-vertex-that-is-not-an-arc-end-leaves-the-list-untouched] !r ==> len(p.vlist) == n0
//@   ensures [every-vertex-where-it-was] forall k int :: !r && 0 <= k && k < n0 ==> p.vlist[k].vertex == old(p.vlist[k].vertex) && p.vlist[k].relative == old(p.vlist[k].relative) && p.vlist[k].facets == old(p.vlist[k].facets) && p.vlist[k].radius == old(p.vlist[k].radius)
//@   ensures [marks-elsewhere-untouched] forall k int :: !r && 0 <= k && k < n0 && k != i ==> p.vlist[k].vtype == old(p.vlist[k].vtype)
//@   ensures [a-vertex-that-is-not-an-arc-end-keeps-its-mark] !wasarc ==> p.vlist[i].vtype == old(p.vlist[i].vtype)
//@   ensures [only-marked-vertices-become-arcs] r ==> wasarc
//@   ensures [facets-minus-one-points-are-inserted-before-the-arc-end] r ==> len(p.vlist) == n0 + f - 1
//@   ensures [vertices-before-kept] forall k int :: r && 0 <= k && k < i ==> p.vlist[k] == old(p.vlist[k])
//@   ensures [the-arc-end-and-what-follows-kept-in-order-now-plain] forall k int :: r && i <= k && k < n0 ==> p.vlist[k + f - 1].vertex == old(p.vlist[k].vertex) && (k > i ==> p.vlist[k + f - 1] == old(p.vlist[k]))
//@   ensures [the-arc-end-is-a-plain-vertex-afterwards] wasarc ==> p.vlist[ite(r, i + f - 1, i)].vtype == pvNormal
//@   ensures [what-follows-the-arc-end-by-its-new-position] forall k int :: r && i + f - 1 < k && k < n0 + f - 1 ==> p.vlist[k] == old(p.vlist[k - (f - 1)])
//@   ensures [the-new-points-are-plain] forall k int :: r && 0 <= k && k < f - 1 ==> p.vlist[i + k].vtype == pvNormal && !p.vlist[i + k].relative
//@   ensures [the-new-points-are-plain-and-on-the-circle-through-the-previous-vertex-about-the-arc-centre] forall k int :: r && 0 <= k && k < f - 1 ==> p.vlist[i + k].vtype == pvNormal && !p.vlist[i + k].relative && p.vlist[i + k].vertex.Sub(c).Length2() == a.Sub(c).Length2()
//@ end

// The fillet circle: unit directions a, b to the neighbours, half-angle sine s and
// cosine c (a.b = cos(theta) = 1 - 2 s^2), tangent length d1 = r c/s, centre
// distance d2 = r/s along the unit bisector (a+b)/l.
//@ lemma fillet_circle_touches_both_edges(a v2.Vec, b v2.Vec, s float64, c float64, l float64, r float64)
//@   property C17
//@   requires a.Length2() == 1 && b.Length2() == 1
//@   requires sq(s) + sq(c) == 1 && s > 0 && c > 0
//@   requires a.Dot(b) == 1 - 2*sq(s)
//@   requires l >= 0 && sq(l) == a.Add(b).Length2()
//@   let k = r/(2*c*s)
//@   let ctr = a.Add(b).MulScalar((r/s)/l)
//@   let p0 = a.MulScalar(r*c/s)
//@   let p1 = b.MulScalar(r*c/s)
//@   assert [bisector-length-is-twice-the-half-angle-cosine] sq(l) == 4*sq(c)
//@   assert [so] l == 2*c
//@   assert [centre] ctr.X == k*(a.X + b.X) && ctr.Y == k*(a.Y + b.Y)
//@   assert [tangent-points] p0.X == k*2*sq(c)*a.X && p0.Y == k*2*sq(c)*a.Y && p1.X == k*2*sq(c)*b.X && p1.Y == k*2*sq(c)*b.Y
//@   let ca = a.Dot(b)
//@   assert [radius-vector-to-the-first-tangent-point] p0.X - ctr.X == k*(ca*a.X - b.X) && p0.Y - ctr.Y == k*(ca*a.Y - b.Y)
//@   assert [radius-vector-to-the-second-tangent-point] p1.X - ctr.X == k*(ca*b.X - a.X) && p1.Y - ctr.Y == k*(ca*b.Y - a.Y)
//@   assert [sine-squared] 1 - sq(ca) == 4*sq(s)*sq(c)
//@   assert [k-squared] sq(k)*4*sq(s)*sq(c) == sq(r)
//@   ensures [first-tangent-point-at-the-radius] p0.Sub(ctr).Length2() == sq(r)
//@   ensures [radius-perpendicular-to-the-first-edge] p0.Sub(ctr).Dot(a) == 0
//@   ensures [second-tangent-point-at-the-radius] p1.Sub(ctr).Length2() == sq(r)
//@   ensures [radius-perpendicular-to-the-second-edge] p1.Sub(ctr).Dot(b) == 0
//@ end

//@ func Polygon.smoothVertex
//@   property C17
//@   id fillet-geometry
//@   opt trig-quadrants
//@   requires 0 <= i && i < len(p.vlist) && len(p.vlist) >= 3
//@   requires p.vlist[i].vtype == pvSmooth ==> p.vlist[i].facets >= 1
//@   requires forall k int :: 0 <= k && k < len(p.vlist) && k != i ==> p.vlist[k].vertex != p.vlist[i].vertex
//@   invariant 0 rangeindex >= -1 && rangeindex < len(points)
//@   let dp = vp.vertex.Sub(v.vertex)
//@   let dn = vn.vertex.Sub(v.vertex)
//@   let lp = dp.Length()
//@   let ln = dn.Length()
//@   let ca = v0.Dot(v1)
//@   let sh = sin(theta/2)
//@   let ch = cos(theta/2)
//@   let lb = v0.Add(v1).Length()
//@   let rr = v.radius
//@   focus requires path-int
//@   assert [edges-differ-from-the-vertex] r ==> dp.Length2() > 0 && dn.Length2() > 0
//@   assert [edges-have-length] r ==> lp > 0 && ln > 0 && sq(lp) == dp.Length2() && sq(ln) == dn.Length2()
//@   focus edges-have-length
//@   assert [unit-direction-to-the-previous-vertex] r ==> v0.Length2() == 1
//@   assert [unit-direction-to-the-next-vertex] r ==> v1.Length2() == 1
//@   generalize v0
//@   generalize v1
//@   focus unit-direction-to-the-previous-vertex unit-direction-to-the-next-vertex
//@   assert [lagrange] r ==> sq(ca) + sq(v0.Cross(v1)) == 1
//@   assert [cosine-of-the-corner-angle] r ==> -1 <= ca && ca <= 1
//@   focus cosine-of-the-corner-angle
//@   assert [angle-from-its-cosine] r ==> cos(theta) == ca && 0 <= theta && theta <= PI
//@   assert [corner-not-straight-or-folded] r && -1 < ca && ca < 1 ==> 0 < theta && theta < PI
//@   focus angle-from-its-cosine corner-not-straight-or-folded
//@   assert [half-angle-in-the-first-quadrant] r && -1 < ca && ca < 1 ==> sh > 0 && ch > 0
//@   assert [half-angle] r && -1 < ca && ca < 1 ==> sq(sh) + sq(ch) == 1 && ca == 1 - 2*sq(sh)
//@   focus half-angle-in-the-first-quadrant half-angle unit-direction-to-the-previous-vertex unit-direction-to-the-next-vertex
//@   assert [bisector-length] r ==> lb >= 0 && sq(lb) == v0.Add(v1).Length2()
//@   assert [bisector-not-zero] r && -1 < ca && ca < 1 ==> lb > 0
//@   generalize lb
//@   focus half-angle-in-the-first-quadrant bisector-not-zero
//@   assert [tangent-length] r && -1 < ca && ca < 1 ==> d1 == rr*ch/sh && d2 == rr/sh
//@   assert [tangent-point-relative-to-the-vertex] r ==> p0.Sub(v.vertex) == v0.MulScalar(d1)
//@   assert [centre-relative-to-the-vertex] r && -1 < ca && ca < 1 ==> c.Sub(v.vertex) == v0.Add(v1).MulScalar((rr/sh)/lb)
//@   generalize d1
//@   generalize d2
//@   generalize p0
//@   generalize c
//@   focus half-angle-in-the-first-quadrant half-angle unit-direction-to-the-previous-vertex unit-direction-to-the-next-vertex bisector-length bisector-not-zero tangent-length tangent-point-relative-to-the-vertex centre-relative-to-the-vertex
//@   use fillet_circle_touches_both_edges(v0, v1, sh, ch, lb, rr)
//@   ensures [tangent-point-on-the-previous-edge-at-the-given-radius-from-the-centre] r && -1 < ca && ca < 1 ==> p0.Sub(c).Length2() == sq(rr)
//@   ensures [where-the-radius-is-perpendicular-to-that-edge] r && -1 < ca && ca < 1 ==> p0.Sub(c).Dot(v0) == 0
//@   ensures [and-the-centre-is-as-far-from-the-next-edge-touching-it-at-the-same-tangent-length] r && -1 < ca && ca < 1 ==> v.vertex.Add(v1.MulScalar(d1)).Sub(c).Length2() == sq(rr) && v.vertex.Add(v1.MulScalar(d1)).Sub(c).Dot(v1) == 0
//@ end

//@ func BezierVertex.Mid
//@   property C17
//@   id marks-midpoint
//@   ensures [a-control-point-not-on-the-curve] v.vtype == midpoint && r == v && v.vertex == old(v.vertex) && v.handleFwd == old(v.handleFwd) && v.handleRev == old(v.handleRev)
//@ end

//@ func BezierVertex.HandleFwd
//@   property C17
//@   id forward-handle
//@   requires v.vtype == endpoint
//@   ensures [polar-handle-of-that-length-and-direction] v.handleFwd == v2.Vec{abs(r), theta} && result == v
//@   ensures [nothing-else-changes] v.vertex == old(v.vertex) && v.vtype == old(v.vtype) && v.handleRev == old(v.handleRev)
//@ end

//@ func BezierVertex.HandleRev
//@   property C17
//@   id reverse-handle
//@   requires v.vtype == endpoint
//@   ensures [polar-handle-of-that-length-and-direction] v.handleRev == v2.Vec{abs(r), theta} && result == v
//@   ensures [nothing-else-changes] v.vertex == old(v.vertex) && v.vtype == old(v.vtype) && v.handleFwd == old(v.handleFwd)
//@ end

//@ func BezierVertex.Handle
//@   property C17
//@   id slope-handle
//@   requires v.vtype == endpoint
//@   ensures [forward-along-theta-reverse-along-the-opposite-direction] v.handleFwd == v2.Vec{abs(fwd), theta} && v.handleRev == v2.Vec{abs(rev), theta + PI} && r == v
//@   ensures [nothing-else-changes] v.vertex == old(v.vertex) && v.vtype == old(v.vtype)
//@ end

//-----------------------------------------------------------------------------
// Unions of any number of operands (C02 denotes, C16 pruned == exhaustive).
// The operands are a symbolic array of abstract shapes; the blend function is
// the abstract function value held in s.min.

//@ spec rec ufold2(s *UnionSDF2, p v2.Vec, n int) real = ite(n <= 1, s.sdf[0].Evaluate(p), s.min(ufold2(s, p, n - 1), s.sdf[n - 1].Evaluate(p)))
//@ spec rec ufold3(s *UnionSDF3, p v3.Vec, n int) real = ite(n <= 1, s.sdf[0].Evaluate(p), s.min(ufold3(s, p, n - 1), s.sdf[n - 1].Evaluate(p)))

//@ func UnionSDF2.EvaluateSlow
//@   property C02 C16
//@   id fold-of-the-blend-over-all-operands
//@   requires len(s.sdf) >= 1
//@   requires forall k int :: 0 <= k && k < len(s.sdf) ==> !isnil(s.sdf[k])
//@   invariant 0 rangeindex >= -1 && rangeindex < len(s.sdf)
//@   invariant 0 rangeindex >= 0 ==> d == ufold2(s, p, rangeindex + 1)
//@   ensures [every-operand-in-order-combined-by-the-installed-minimum] r == ufold2(s, p, len(s.sdf))
//@ end

//@ func UnionSDF3.Evaluate
//@   property C02
//@   id fold-of-the-blend-over-all-operands
//@   requires len(s.sdf) >= 1
//@   requires forall k int :: 0 <= k && k < len(s.sdf) ==> !isnil(s.sdf[k])
//@   invariant 0 rangeindex >= -1 && rangeindex < len(s.sdf)
//@   invariant 0 rangeindex >= 0 ==> d == ufold3(s, p, rangeindex + 1)
//@   ensures [every-operand-in-order-combined-by-the-installed-minimum] r == ufold3(s, p, len(s.sdf))
//@ end

//@ spec considered(s *UnionSDF2, vs []Interval, mi int, k int) = k == mi || vs[mi].Overlap(vs[k])

//@ func UnionSDF2.Evaluate
//@   property C16
//@   id pruned-is-the-minimum-for-any-number-of-operands
//@   requires len(s.sdf) >= 1
//@   requires forall k int :: 0 <= k && k < len(s.sdf) ==> !isnil(s.sdf[k]) && ord2(s.sdf[k].BoundingBox())
//@   requires forall a float64, b float64 :: s.min(a, b) == min(a, b)
//@   requires forall k int :: 0 <= k && k < len(s.sdf) ==> l2(s.sdf[k], p) && up(s.sdf[k], p)
//@   invariant 0 rangeindex >= -1 && rangeindex < len(s.sdf) && len(vs) == len(s.sdf)
//@   invariant 0 forall k int :: 0 <= k && k <= rangeindex ==> vs[k] == s.sdf[k].BoundingBox().MinMaxDist2(p)
//@   invariant 0 0 <= minIndex && (rangeindex >= 0 ==> minIndex <= rangeindex)
//@   invariant 0 rangeindex == -1 ==> minDist2 == -1
//@   invariant 0 rangeindex >= 0 ==> minDist2 == vs[minIndex][0] && minDist2 >= 0
//@   invariant 0 forall k int :: 0 <= k && k <= rangeindex ==> vs[minIndex][0] <= vs[k][0]
//@   invariant 1 rangeindex >= -1 && rangeindex < len(s.sdf) && len(vs) == len(s.sdf) && 0 <= minIndex && minIndex < len(s.sdf)
//@   invariant 1 forall k int :: 0 <= k && k < len(s.sdf) ==> vs[k] == s.sdf[k].BoundingBox().MinMaxDist2(p) && vs[minIndex][0] <= vs[k][0]
//@   invariant 1 forall k int :: 0 <= k && k <= rangeindex && considered(s, vs, minIndex, k) ==> !first && d <= s.sdf[k].Evaluate(p)
//@   invariant 1 exists w int :: first || (0 <= w && w <= rangeindex && considered(s, vs, minIndex, w) && d == s.sdf[w].Evaluate(p))
//@   ensures [no-operand-is-nearer-than-the-result] forall k int :: 0 <= k && k < len(s.sdf) ==> r <= s.sdf[k].Evaluate(p)
//@   ensures [and-the-result-is-the-distance-to-one-of-them] exists w int :: 0 <= w && w < len(s.sdf) && r == s.sdf[w].Evaluate(p)
//@ end

//@ func UnionSDF3.Evaluate
//@   property C02 C01
//@   id minimum-over-all-operands
//@   pure
//@   local
//@   requires len(s.sdf) >= 1
//@   requires forall k int :: 0 <= k && k < len(s.sdf) ==> !isnil(s.sdf[k])
//@   requires forall a float64, b float64 :: s.min(a, b) == min(a, b)
//@   invariant 0 rangeindex >= -1 && rangeindex < len(s.sdf)
//@   invariant 0 forall k int :: 0 <= k && k <= rangeindex ==> d <= s.sdf[k].Evaluate(p)
//@   invariant 0 exists w int :: rangeindex == -1 || (0 <= w && w <= rangeindex && d == s.sdf[w].Evaluate(p))
//@   ensures [no-operand-is-nearer-than-the-result] forall k int :: 0 <= k && k < len(s.sdf) ==> r <= s.sdf[k].Evaluate(p)
//@   ensures [and-the-result-is-the-distance-to-one-of-them] exists w int :: 0 <= w && w < len(s.sdf) && r == s.sdf[w].Evaluate(p)
//@ end

//@ func Union3D
//@   property C01
//@   id ENC
//@   summarise UnionSDF3.Evaluate minimum-over-all-operands
//@   forall p v3.Vec
//@   requires forall k int :: 0 <= k && k < len(sdf) && !isnil(sdf[k]) ==> ord3(sdf[k].BoundingBox())
//@   requires forall k int, q v3.Vec :: 0 <= k && k < len(sdf) && !isnil(sdf[k]) ==> enc3(sdf[k], q)
//@   invariant 0 rangeindex >= -1 && rangeindex < len(sdf) && len(s.sdf) <= rangeindex + 1
//@   invariant 0 forall j int :: 0 <= j && j < len(s.sdf) ==> !isnil(s.sdf[j]) && ord3(s.sdf[j].BoundingBox())
//@   invariant 0 forall j int, q v3.Vec :: 0 <= j && j < len(s.sdf) ==> enc3(s.sdf[j], q)
//@   invariant 1 rangeindex >= -1 && rangeindex < len(s.sdf) && ord3(bb)
//@   invariant 1 forall j int :: 0 <= j && j <= rangeindex ==> bb.Min.X <= s.sdf[j].BoundingBox().Min.X && bb.Min.Y <= s.sdf[j].BoundingBox().Min.Y && bb.Min.Z <= s.sdf[j].BoundingBox().Min.Z && bb.Max.X >= s.sdf[j].BoundingBox().Max.X && bb.Max.Y >= s.sdf[j].BoundingBox().Max.Y && bb.Max.Z >= s.sdf[j].BoundingBox().Max.Z
//@   let d = r.Evaluate(p)
//@   ensures [nothing-to-unite] len(sdf) == 0 ==> isnil(r)
//@   ensures [ordered] !isnil(r) ==> ord3(r.BoundingBox())
//@   ensures [encloses] !isnil(r) && d < 0 ==> r.BoundingBox().Contains(p)
//@ end

//@ func UnionSDF2.Evaluate
//@   property C01
//@   id value-of-one-operand
//@   pure
//@   local
//@   requires len(s.sdf) >= 1
//@   requires forall k int :: 0 <= k && k < len(s.sdf) ==> !isnil(s.sdf[k])
//@   requires forall a float64, b float64 :: s.min(a, b) == min(a, b)
//@   invariant 0 rangeindex >= -1 && rangeindex < len(s.sdf) && len(vs) == len(s.sdf) && 0 <= minIndex && (rangeindex >= 0 ==> minIndex <= rangeindex)
//@   invariant 0 rangeindex == -1 ==> minDist2 == -1 && minIndex == 0
//@   invariant 1 rangeindex >= -1 && rangeindex < len(s.sdf) && len(vs) == len(s.sdf) && 0 <= minIndex && minIndex < len(s.sdf)
//@   invariant 1 rangeindex >= minIndex ==> !first
//@   invariant 1 exists w int :: first || (0 <= w && w <= rangeindex && d == s.sdf[w].Evaluate(p))
//@   ensures [the-result-is-the-value-of-one-operand] exists w int :: 0 <= w && w < len(s.sdf) && r == s.sdf[w].Evaluate(p)
//@ end

//@ func Union2D
//@   property C01
//@   id ENC
//@   summarise UnionSDF2.Evaluate value-of-one-operand
//@   forall p v2.Vec
//@   requires forall k int :: 0 <= k && k < len(sdf) && !isnil(sdf[k]) ==> ord2(sdf[k].BoundingBox())
//@   requires forall k int, q v2.Vec :: 0 <= k && k < len(sdf) && !isnil(sdf[k]) ==> enc2(sdf[k], q)
//@   invariant 0 rangeindex >= -1 && rangeindex < len(sdf) && len(s.sdf) <= rangeindex + 1
//@   invariant 0 forall j int :: 0 <= j && j < len(s.sdf) ==> !isnil(s.sdf[j]) && ord2(s.sdf[j].BoundingBox())
//@   invariant 0 forall j int, q v2.Vec :: 0 <= j && j < len(s.sdf) ==> enc2(s.sdf[j], q)
//@   invariant 1 rangeindex >= -1 && rangeindex < len(s.sdf) && ord2(bb)
//@   invariant 1 forall j int :: 0 <= j && j <= rangeindex ==> bb.Min.X <= s.sdf[j].BoundingBox().Min.X && bb.Min.Y <= s.sdf[j].BoundingBox().Min.Y && bb.Max.X >= s.sdf[j].BoundingBox().Max.X && bb.Max.Y >= s.sdf[j].BoundingBox().Max.Y
//@   let d = r.Evaluate(p)
//@   ensures [nothing-to-unite] len(sdf) == 0 ==> isnil(r)
//@   ensures [ordered] !isnil(r) ==> ord2(r.BoundingBox())
//@   ensures [encloses] !isnil(r) && d < 0 ==> r.BoundingBox().Contains(p)
//@ end

//@ func Union3D
//@   property C03
//@   id LIP
//@   summarise UnionSDF3.Evaluate minimum-over-all-operands
//@   forall p v3.Vec, q v3.Vec
//@   requires forall k int, a v3.Vec, b v3.Vec :: 0 <= k && k < len(sdf) && !isnil(sdf[k]) ==> lip3(sdf[k], a, b)
//@   invariant 0 rangeindex >= -1 && rangeindex < len(sdf) && len(s.sdf) <= rangeindex + 1
//@   invariant 0 forall j int :: 0 <= j && j < len(s.sdf) ==> !isnil(s.sdf[j])
//@   invariant 0 forall j int, a v3.Vec, b v3.Vec :: 0 <= j && j < len(s.sdf) ==> lip3(s.sdf[j], a, b)
//@   invariant 1 rangeindex >= -1 && rangeindex < len(s.sdf)
//@   let dp = r.Evaluate(p)
//@   let dq = r.Evaluate(q)
//@   ensures [one-lipschitz-whatever-the-number-of-operands] !isnil(r) ==> sq(dp - dq) <= p.Sub(q).Length2()
//@ end

//@ func ArraySDF2.Evaluate
//@   property C01 C02 C03
//@   id value-of-the-operand-at-one-grid-offset
//@   pure
//@   local
//@   requires s.num.X >= 1 && s.num.Y >= 1
//@   requires forall a float64, b float64 :: s.min(a, b) == min(a, b)
//@   requires forall q v2.Vec :: s.sdf.Evaluate(q) <= math.MaxFloat64
//@   invariant 0 0 <= j && j <= s.num.X
//@   invariant 0 exists wj int, wk int :: (j == 0 && d == math.MaxFloat64) || (0 <= wj && wj < j && 0 <= wk && wk < s.num.Y && d == s.sdf.Evaluate(p.Sub(v2.Vec{real(wj)*s.step.X, real(wk)*s.step.Y})))
//@   witnesses 1 j, k - 1
//@   invariant 0 forall a int, b int :: 0 <= a && a < j && 0 <= b && b < s.num.Y ==> d <= s.sdf.Evaluate(p.Sub(v2.Vec{real(a)*s.step.X, real(b)*s.step.Y}))
//@   invariant 1 0 <= k && k <= s.num.Y && 0 <= j && j < s.num.X
//@   invariant 1 forall a int, b int :: 0 <= a && 0 <= b && b < s.num.Y && (a < j || (a == j && b < k)) ==> d <= s.sdf.Evaluate(p.Sub(v2.Vec{real(a)*s.step.X, real(b)*s.step.Y}))
//@   invariant 1 exists wj int, wk int :: (j == 0 && k == 0 && d == math.MaxFloat64) || (0 <= wj && wj <= j && 0 <= wk && wk < s.num.Y && (wj < j || wk < k) && d == s.sdf.Evaluate(p.Sub(v2.Vec{real(wj)*s.step.X, real(wk)*s.step.Y})))
//@   ensures [the-result-is-the-operand-evaluated-at-the-point-moved-back-by-one-grid-offset] exists wj int, wk int :: 0 <= wj && wj < s.num.X && 0 <= wk && wk < s.num.Y && r == s.sdf.Evaluate(p.Sub(v2.Vec{real(wj)*s.step.X, real(wk)*s.step.Y}))
//@   ensures [and-no-copy-is-nearer] forall a int, b int :: 0 <= a && a < s.num.X && 0 <= b && b < s.num.Y ==> r <= s.sdf.Evaluate(p.Sub(v2.Vec{real(a)*s.step.X, real(b)*s.step.Y}))
//@ end

//@ func Array2D
//@   property C01
//@   id ENC
//@   summarise ArraySDF2.Evaluate value-of-the-operand-at-one-grid-offset
//@   forall p v2.Vec
//@   requires ord2(sdf.BoundingBox())
//@   requires forall q v2.Vec :: enc2(sdf, q) && sdf.Evaluate(q) <= math.MaxFloat64
//@   let d = r.Evaluate(p)
//@   ensures [no-copies-no-shape] (num.X <= 0 || num.Y <= 0) <==> isnil(r)
//@   ensures [ordered] !isnil(r) ==> ord2(r.BoundingBox())
//@   ensures [encloses-every-copy] !isnil(r) && d < 0 ==> r.BoundingBox().Contains(p)
//@ end

//@ spec off3(s *ArraySDF3, p v3.Vec, j int, k int, l int) = p.Sub(v3.Vec{real(j)*s.step.X, real(k)*s.step.Y, real(l)*s.step.Z})

//@ func ArraySDF3.Evaluate
//@   property C01 C02 C03
//@   id value-of-the-operand-at-one-grid-offset
//@   pure
//@   local
//@   requires s.num.X >= 1 && s.num.Y >= 1 && s.num.Z >= 1
//@   requires forall a float64, b float64 :: s.min(a, b) == min(a, b)
//@   requires forall q v3.Vec :: s.sdf.Evaluate(q) <= math.MaxFloat64
//@   witnesses 0 j - 1, s.num.Y - 1, s.num.Z - 1
//@   invariant 0 0 <= j && j <= s.num.X
//@   invariant 0 exists wj int, wk int, wl int :: (j == 0 && d == math.MaxFloat64) || (0 <= wj && wj < j && 0 <= wk && wk < s.num.Y && 0 <= wl && wl < s.num.Z && d == s.sdf.Evaluate(off3(s, p, wj, wk, wl)))
//@   invariant 0 forall a int, b int, c int :: 0 <= a && a < j && 0 <= b && b < s.num.Y && 0 <= c && c < s.num.Z ==> d <= s.sdf.Evaluate(off3(s, p, a, b, c))
//@   witnesses 1 j, k - 1, s.num.Z - 1
//@   invariant 1 0 <= k && k <= s.num.Y && 0 <= j && j < s.num.X
//@   invariant 1 exists wj int, wk int, wl int :: (j == 0 && k == 0 && d == math.MaxFloat64) || (0 <= wj && wj <= j && 0 <= wk && wk < s.num.Y && 0 <= wl && wl < s.num.Z && (wj < j || wk < k) && d == s.sdf.Evaluate(off3(s, p, wj, wk, wl)))
//@   invariant 1 forall a int, b int, c int :: 0 <= a && 0 <= b && b < s.num.Y && 0 <= c && c < s.num.Z && (a < j || (a == j && b < k)) ==> d <= s.sdf.Evaluate(off3(s, p, a, b, c))
//@   witnesses 2 j, k, l - 1
//@   invariant 2 0 <= l && l <= s.num.Z && 0 <= k && k < s.num.Y && 0 <= j && j < s.num.X
//@   invariant 2 exists wj int, wk int, wl int :: (j == 0 && k == 0 && l == 0 && d == math.MaxFloat64) || (0 <= wj && wj <= j && 0 <= wk && wk < s.num.Y && 0 <= wl && wl < s.num.Z && (wj < j || wk < k || (wk == k && wl < l)) && d == s.sdf.Evaluate(off3(s, p, wj, wk, wl)))
//@   invariant 2 forall a int, b int, c int :: 0 <= a && 0 <= b && b < s.num.Y && 0 <= c && c < s.num.Z && (a < j || (a == j && (b < k || (b == k && c < l)))) ==> d <= s.sdf.Evaluate(off3(s, p, a, b, c))
//@   ensures [the-result-is-the-operand-evaluated-at-the-point-moved-back-by-one-grid-offset] exists wj int, wk int, wl int :: 0 <= wj && wj < s.num.X && 0 <= wk && wk < s.num.Y && 0 <= wl && wl < s.num.Z && r == s.sdf.Evaluate(off3(s, p, wj, wk, wl))
//@   ensures [and-no-copy-is-nearer] forall a int, b int, c int :: 0 <= a && a < s.num.X && 0 <= b && b < s.num.Y && 0 <= c && c < s.num.Z ==> r <= s.sdf.Evaluate(off3(s, p, a, b, c))
//@ end

//@ func Array3D
//@   property C01
//@   id ENC
//@   summarise ArraySDF3.Evaluate value-of-the-operand-at-one-grid-offset
//@   forall p v3.Vec
//@   requires ord3(sdf.BoundingBox())
//@   requires forall q v3.Vec :: enc3(sdf, q) && sdf.Evaluate(q) <= math.MaxFloat64
//@   let d = r.Evaluate(p)
//@   ensures [no-copies-no-shape] (num.X <= 0 || num.Y <= 0 || num.Z <= 0) <==> isnil(r)
//@   ensures [ordered] !isnil(r) ==> ord3(r.BoundingBox())
//@   ensures [encloses-every-copy] !isnil(r) && d < 0 ==> r.BoundingBox().Contains(p)
//@ end

//@ func Polygon.arcVertex
//@   property C17
//@   id arc-geometry
//@   requires 0 <= i && i < len(p.vlist) && len(p.vlist) >= 2
//@   requires p.vlist[i].vtype == pvArc ==> p.vlist[i].facets >= 1
//@   requires forall k int :: 0 <= k && k < len(p.vlist) && k != i ==> p.vlist[k].vertex != p.vlist[i].vertex
//@   invariant 0 rangeindex >= -1 && rangeindex < len(vlist)
//@   let ch = b.Sub(a)
//@   let lc = ch.Length()
//@   let hm = mid.Sub(a)
//@   focus requires path-int
//@   assert [chord-has-length] r ==> ch.Length2() > 0
//@   assert [chord-length] r ==> lc > 0 && sq(lc) == ch.Length2()
//@   focus chord-length
//@   assert [unit-chord-direction] r ==> ba.Length2() == 1
//@   assert [normal-turned-to-the-chosen-side] r ==> n == v2.Vec{ba.Y, -ba.X}.MulScalar(side) && (side == 1 || side == -1 || side == 0)
//@   assert [half-chord] r ==> hm == ch.MulScalar(0.5) && sq(dMid) == hm.Length2() && dMid >= 0
//@   assert [half-chord-along-the-chord] r ==> hm == ba.MulScalar(0.5*lc)
//@   assert [start-relative-to-the-centre] r ==> a.Sub(c) == hm.MulScalar(-1).Sub(c.Sub(mid))
//@   assert [end-relative-to-the-centre] r ==> b.Sub(c) == hm.Sub(c.Sub(mid))
//@   assert [centre-offset-from-the-midpoint] r && sq(radius) >= sq(dMid) ==> dCenter >= 0 && sq(dCenter) == sq(radius) - sq(dMid)
//@   assert [centre] r ==> c.Sub(mid) == n.MulScalar(dCenter)
//@   generalize ba
//@   generalize lc
//@   generalize hm
//@   generalize dCenter
//@   generalize dMid
//@   focus unit-chord-direction normal-turned-to-the-chosen-side half-chord-along-the-chord
//@   assert [unit-normal-to-the-chord] r ==> n.Length2() == sq(side) && n.Dot(ba) == 0
//@   assert [side-of-the-chord] r ==> n.Dot(v2.Vec{ba.Y, -ba.X}) == side
//@   assert [half-chord-perpendicular-to-the-normal] r ==> hm.Dot(n) == 0.5*lc*n.Dot(ba)
//@   focus unit-normal-to-the-chord half-chord-perpendicular-to-the-normal centre half-chord
//@   assert [half-chord-perpendicular-to-the-offset] r ==> hm.Dot(c.Sub(mid)) == 0
//@   assert [offset-length] r ==> c.Sub(mid).Length2() == sq(side)*sq(dCenter)
//@   assert [half-chord-length] r ==> hm.Length2() == sq(dMid)
//@   focus start-relative-to-the-centre end-relative-to-the-centre half-chord-perpendicular-to-the-offset offset-length half-chord-length centre-offset-from-the-midpoint side-of-the-chord centre normal-turned-to-the-chosen-side
//@   ensures [the-centre-is-one-radius-from-the-previous-vertex] r && side != 0 && sq(radius) >= sq(dMid) ==> a.Sub(c).Length2() == sq(radius)
//@   ensures [and-from-the-arc-end] r && side != 0 && sq(radius) >= sq(dMid) ==> b.Sub(c).Length2() == sq(radius)
//@   ensures [on-the-side-of-the-chord-chosen-by-the-sign-of-the-radius] r ==> c.Sub(mid).Dot(v2.Vec{ba.Y, -ba.X}) == side*dCenter
//@ end

//-----------------------------------------------------------------------------
// Rotate-unions: the n-th copy is seen through the n-th power of the stored
// (inverse) step; the box is the hull of the operand box's corners under the
// powers of the step itself.

//@ spec rec rupow3(s *RotateUnionSDF3, n int) M44 = ite(n <= 0, Identity3d(), rupow3(s, n - 1).Mul(s.step))
//@ spec rec fpow3(m M44, n int) M44 = ite(n <= 0, Identity3d(), m.Mul(fpow3(m, n - 1)))
//@ spec rec rupow2(s *RotateUnionSDF2, n int) M33 = ite(n <= 0, Identity2d(), rupow2(s, n - 1).Mul(s.step))
//@ spec rec fpow2(m M33, n int) M33 = ite(n <= 0, Identity2d(), m.Mul(fpow2(m, n - 1)))

//@ func RotateUnionSDF3.Evaluate
//@   property C02 C01
//@   id value-of-the-operand-at-one-rotated-point
//@   requires s.num >= 1
//@   requires forall a float64, b float64 :: s.min(a, b) == min(a, b)
//@   requires forall q v3.Vec :: s.sdf.Evaluate(q) <= math.MaxFloat64
//@   witnesses 0 i - 1
//@   invariant 0 0 <= i && i <= s.num && rot == rupow3(s, i)
//@   invariant 0 exists w int :: (i == 0 && d == math.MaxFloat64) || (0 <= w && w < i && d == s.sdf.Evaluate(rupow3(s, w).MulPosition(p)))
//@   ensures [the-operand-seen-from-the-point-moved-by-one-of-the-first-num-powers-of-the-stored-step-starting-with-none] exists w int :: 0 <= w && w < s.num && r == s.sdf.Evaluate(rupow3(s, w).MulPosition(p))
//@ end

//@ func RotateUnionSDF2.Evaluate
//@   property C02 C01
//@   id value-of-the-operand-at-one-rotated-point
//@   requires s.num >= 1
//@   requires forall a float64, b float64 :: s.min(a, b) == min(a, b)
//@   requires forall q v2.Vec :: s.sdf.Evaluate(q) <= math.MaxFloat64
//@   witnesses 0 i - 1
//@   invariant 0 0 <= i && i <= s.num && rot == rupow2(s, i)
//@   invariant 0 exists w int :: (i == 0 && d == math.MaxFloat64) || (0 <= w && w < i && d == s.sdf.Evaluate(rupow2(s, w).MulPosition(p)))
//@   ensures [the-operand-seen-from-the-point-moved-by-one-of-the-first-num-powers-of-the-stored-step-starting-with-none] exists w int :: 0 <= w && w < s.num && r == s.sdf.Evaluate(rupow2(s, w).MulPosition(p))
//@ end

//@ spec rec cpos3(step M44, x v3.Vec, n int) v3.Vec = ite(n <= 0, x, step.MulPosition(cpos3(step, x, n - 1)))
//@ spec inb3(lo v3.Vec, hi v3.Vec, q v3.Vec) = lo.X <= q.X && lo.Y <= q.Y && lo.Z <= q.Z && hi.X >= q.X && hi.Y >= q.Y && hi.Z >= q.Z

//@ func RotateUnion3D
//@   property C01 C02
//@   id corners-follow-the-step
//@   requires ord3(sdf.BoundingBox())
//@   requires step.Determinant() != 0
//@   prelet v0 = sdf.BoundingBox().Vertices()
//@   invariant 0 0 <= i && i <= s.num && len(v) == 8 && s.num == num && num >= 1
//@   invariant 0 v[0] == cpos3(step, v0[0], i) && v[1] == cpos3(step, v0[1], i) && v[2] == cpos3(step, v0[2], i) && v[3] == cpos3(step, v0[3], i) && v[4] == cpos3(step, v0[4], i) && v[5] == cpos3(step, v0[5], i) && v[6] == cpos3(step, v0[6], i) && v[7] == cpos3(step, v0[7], i)
//@   invariant 0 bbMin.X <= v0[0].X && bbMin.Y <= v0[0].Y && bbMin.Z <= v0[0].Z && bbMax.X >= v0[0].X && bbMax.Y >= v0[0].Y && bbMax.Z >= v0[0].Z
//@   ensures [no-copies-no-shape] num <= 0 <==> isnil(r)
//@   ensures [the-union-looks-back-through-the-inverse-step] !isnil(r) ==> r.step == step.Inverse() && r.num == num && r.sdf == sdf
//@   ensures [the-box-starts-from-the-operand-box] !isnil(r) ==> r.bb.Contains(v0[0]) && ord3(r.bb)
//@ end

//@ spec rec cpos2(step M33, x v2.Vec, n int) v2.Vec = ite(n <= 0, x, step.MulPosition(cpos2(step, x, n - 1)))

//@ func RotateUnion2D
//@   property C01 C02
//@   id corners-follow-the-step
//@   requires ord2(sdf.BoundingBox())
//@   requires step.Determinant() != 0
//@   prelet v0 = sdf.BoundingBox().Vertices()
//@   invariant 0 0 <= i && i <= s.num && len(v) == 4 && s.num == num && num >= 1
//@   invariant 0 v[0] == cpos2(step, v0[0], i) && v[1] == cpos2(step, v0[1], i) && v[2] == cpos2(step, v0[2], i) && v[3] == cpos2(step, v0[3], i)
//@   invariant 0 bbMin.X <= v0[0].X && bbMin.Y <= v0[0].Y && bbMax.X >= v0[0].X && bbMax.Y >= v0[0].Y
//@   ensures [no-copies-no-shape] num <= 0 <==> isnil(r)
//@   ensures [the-union-looks-back-through-the-inverse-step] !isnil(r) ==> r.step == step.Inverse() && r.num == num && r.sdf == sdf
//@   ensures [the-box-starts-from-the-operand-box] !isnil(r) ==> r.bb.Contains(v0[0]) && ord2(r.bb)
//@ end

//-----------------------------------------------------------------------------
// C20: the circumcircle predicate of the Bowyer-Watson insertion

//@ spec tcross(t Triangle2) = (t[1].X - t[0].X)*(t[2].Y - t[0].Y) - (t[1].Y - t[0].Y)*(t[2].X - t[0].X)

//@ func Triangle2.Circumcenter
//@   property C20
//@   id equidistant
//@   requires tcross(t) != 0
//@   requires abs(t[0].Y - t[1].Y) >= 1e-12 || abs(t[1].Y - t[2].Y) >= 1e-12
//@   let exacty = (abs(t[0].Y - t[1].Y) >= 1e-12 || t[0].Y == t[1].Y) && (abs(t[1].Y - t[2].Y) >= 1e-12 || t[1].Y == t[2].Y)
//@   ensures [a-proper-triangle-has-a-circumcentre] isnil(r1)
//@   ensures [as-far-from-the-first-vertex-as-from-the-second] exacty ==> r0.Sub(t[0]).Length2() == r0.Sub(t[1]).Length2()
//@   ensures [and-from-the-third] exacty ==> r0.Sub(t[1]).Length2() == r0.Sub(t[2]).Length2()
//@ end

//@ func Triangle2.InCircumcircle
//@   property C20
//@   id inside-and-early-out
//@   forall q v2.Vec
//@   requires tcross(t) != 0
//@   requires abs(t[0].Y - t[1].Y) >= 1e-12 || abs(t[1].Y - t[2].Y) >= 1e-12
//@   requires q.X >= p.X
//@   let c = t.Circumcenter()
//@   let r2 = c[0].Sub(t[0]).Length2()
//@   ensures [inside-means-within-the-circumradius-up-to-epsilon] inside <==> p.Sub(c[0]).Length2() - r2 <= 1e-12
//@   ensures [done-means-no-later-point-in-x-order-can-be-inside] done ==> q.Sub(c[0]).Length2() > r2
//@ end

//@ func Center2D
//@   property C02 C01
//@   id centred-copy
//@   forall p v2.Vec
//@   requires ord2(s.BoundingBox())
//@   requires forall q v2.Vec :: enc2(s, q)
//@   let c = s.BoundingBox().Center()
//@   let d = r.Evaluate(p)
//@   ensures [the-operand-seen-from-the-point-moved-back-to-its-box-centre] d == s.Evaluate(p.Add(c))
//@   ensures [and-encloses-the-solid] d < 0 ==> r.BoundingBox().Contains(p)
//@ end

//@ func CenterAndScale2D
//@   property C02 C01
//@   id centred-scaled-copy
//@   forall p v2.Vec
//@   requires k > 0
//@   requires ord2(s.BoundingBox())
//@   requires forall q v2.Vec :: enc2(s, q)
//@   let c = s.BoundingBox().Center()
//@   let d = r.Evaluate(p)
//@   ensures [the-operand-at-the-unscaled-uncentred-point-with-distance-scaled-back] d == k*s.Evaluate(p.MulScalar(1/k).Add(c))
//@   ensures [and-the-box-encloses-the-solid] d < 0 ==> r.BoundingBox().Contains(p)
//@ end

//@ func Union2D
//@   property C03
//@   id LIP
//@   summarise UnionSDF2.Evaluate pruned-is-the-minimum-for-any-number-of-operands
//@   opt opaque MinMaxDist2
//@   forall p v2.Vec, q v2.Vec
//@   requires forall k int :: 0 <= k && k < len(sdf) && !isnil(sdf[k]) ==> ord2(sdf[k].BoundingBox())
//@   requires forall k int, a v2.Vec, b v2.Vec :: 0 <= k && k < len(sdf) && !isnil(sdf[k]) ==> lip2(sdf[k], a, b)
//@   requires forall k int, a v2.Vec :: 0 <= k && k < len(sdf) && !isnil(sdf[k]) ==> l2(sdf[k], a) && up(sdf[k], a)
//@   invariant 0 rangeindex >= -1 && rangeindex < len(sdf) && len(s.sdf) <= rangeindex + 1
//@   invariant 0 forall j int :: 0 <= j && j < len(s.sdf) ==> !isnil(s.sdf[j]) && ord2(s.sdf[j].BoundingBox())
//@   invariant 0 forall j int, a v2.Vec, b v2.Vec :: 0 <= j && j < len(s.sdf) ==> lip2(s.sdf[j], a, b)
//@   invariant 0 forall j int, a v2.Vec :: 0 <= j && j < len(s.sdf) ==> l2(s.sdf[j], a) && up(s.sdf[j], a)
//@   invariant 1 rangeindex >= -1 && rangeindex < len(s.sdf)
//@   let dp = r.Evaluate(p)
//@   let dq = r.Evaluate(q)
//@   ensures [one-lipschitz-whatever-the-number-of-operands] !isnil(r) ==> sq(dp - dq) <= p.Sub(q).Length2()
//@ end


//@ func Array2D
//@   property C03
//@   id LIP
//@   summarise ArraySDF2.Evaluate value-of-the-operand-at-one-grid-offset
//@   forall p v2.Vec, q v2.Vec
//@   requires forall a v2.Vec, b v2.Vec :: lip2(sdf, a, b)
//@   requires forall a v2.Vec :: sdf.Evaluate(a) <= math.MaxFloat64
//@   assert [moving-both-points-by-one-grid-offset-keeps-their-difference] forall a int, b int :: sq(sdf.Evaluate(p.Sub(v2.Vec{real(a)*step.X, real(b)*step.Y})) - sdf.Evaluate(q.Sub(v2.Vec{real(a)*step.X, real(b)*step.Y}))) <= p.Sub(q).Length2()
//@   let dp = r.Evaluate(p)
//@   let dq = r.Evaluate(q)
//@   ensures [one-lipschitz-whatever-the-grid-size] !isnil(r) ==> sq(dp - dq) <= p.Sub(q).Length2()
//@ end

//@ func Array3D
//@   property C03
//@   id LIP
//@   summarise ArraySDF3.Evaluate value-of-the-operand-at-one-grid-offset
//@   forall p v3.Vec, q v3.Vec
//@   requires forall a v3.Vec, b v3.Vec :: lip3(sdf, a, b)
//@   requires forall a v3.Vec :: sdf.Evaluate(a) <= math.MaxFloat64
//@   assert [moving-both-points-by-one-grid-offset-keeps-their-difference] forall a int, b int, c int :: sq(sdf.Evaluate(p.Sub(v3.Vec{real(a)*step.X, real(b)*step.Y, real(c)*step.Z})) - sdf.Evaluate(q.Sub(v3.Vec{real(a)*step.X, real(b)*step.Y, real(c)*step.Z}))) <= p.Sub(q).Length2()
//@   let dp = r.Evaluate(p)
//@   let dq = r.Evaluate(q)
//@   let dist2 = p.Sub(q).Length2()
//@   generalize dist2
//@   ensures [one-lipschitz-whatever-the-grid-size] !isnil(r) ==> sq(dp - dq) <= p.Sub(q).Length2()
//@ end

// C18, helical invariance: turning a point by phi about the axis and advancing it by
// starts*pitch*phi/tau (= -lead*phi/tau; left-handed for negative starts) does not change
// inside/outside of an untapered screw while both points are within its length. The one fact
// about atan2 the axiom set does not contain - the angle of a vector turned by phi is the old
// angle plus phi up to a whole number m of turns - is a stated hypothesis (listed under
// assumptions); everything else is the real Evaluate.
//@ lemma screw_helical_invariance(s *ScrewSDF3, p v3.Vec, phi real, n int, m int)
//@   property C18
//@   requires s.taper == 0 && s.pitch > 0
//@   requires s.lead == -s.pitch*real(n)
//@   prelet q = v3.Vec{cos(phi)*p.X - sin(phi)*p.Y, sin(phi)*p.X + cos(phi)*p.Y, p.Z - s.lead*phi/Tau}
//@   requires math.Atan2(q.Y, q.X) == math.Atan2(p.Y, p.X) + phi + Tau*real(m)
//@   assumes atan2 of a vector turned by phi is the old angle plus phi up to a whole number m of turns (true of math.Atan2 for some m in {-1,0,1} off the axis; not among the axioms of DESIGN 3.5)
//@   requires abs(p.Z) <= s.length && abs(q.Z) <= s.length
//@   let k = n*m
//@   let cs = cos(phi)
//@   let sn = sin(phi)
//@   assert [unit-circle] sq(cs) + sq(sn) == 1
//@   generalize cs
//@   generalize sn
//@   assert [same-distance-from-the-axis] q.X*q.X + q.Y*q.Y == p.X*p.X + p.Y*p.Y
//@   assert [the-helix-coordinate-moves-by-whole-pitches] q.Z + s.lead*math.Atan2(q.Y, q.X)/Tau == p.Z + s.lead*math.Atan2(p.Y, p.X)/Tau + real(-k)*s.pitch
//@   use sawtooth_periodic(p.Z + s.lead*math.Atan2(p.Y, p.X)/Tau, s.pitch, -k)
//@   ensures [inside-outside-unchanged-along-the-helix] s.Evaluate(q) <= 0 <==> s.Evaluate(p) <= 0
//@ end

// C02, voxel wrapper: Evaluate is the trilinear interpolation of the eight stored corner
// values of the cell that holds p; at a lattice corner it is the stored value, inside a cell it
// stays within the range of the cell's corner values.
//@ func VoxelSDF3.Evaluate
//@   property C02
//@   id trilinear-of-the-stored-corners
//@   requires m.numVoxels.X >= 1 && m.numVoxels.Y >= 1 && m.numVoxels.Z >= 1
//@   requires m.bb.Min.X < m.bb.Max.X && m.bb.Min.Y < m.bb.Max.Y && m.bb.Min.Z < m.bb.Max.Z
//@   requires m.bb.Contains(p)
//@   let lo = min(c000, c001, c010, c011, c100, c101, c110, c111)
//@   let hi = max(c000, c001, c010, c011, c100, c101, c110, c111)
//@   assert [cell-size-positive] voxelSize.X > 0 && voxelSize.Y > 0 && voxelSize.Z > 0
//@   assert [offset-within-the-cell] 0 <= d.X && d.X < 1 && 0 <= d.Y && d.Y < 1 && 0 <= d.Z && d.Z < 1
//@   assert [first-level] lo <= c00 && c00 <= hi && lo <= c01 && c01 <= hi && lo <= c10 && c10 <= hi && lo <= c11 && c11 <= hi
//@   assert [second-level] lo <= c0 && c0 <= hi && lo <= c1 && c1 <= hi
//@   ensures [the-stored-value-at-a-lattice-corner] d.X == 0 && d.Y == 0 && d.Z == 0 ==> r == c000
//@   ensures [within-the-range-of-the-cell-corners] lo <= r && r <= hi
//@   ensures [the-corners-are-the-stored-entries-of-the-cell-in-xyz-order] (maphas(m.voxelCorners, voxelStartIndex.Add(v3i.Vec{0, 0, 0})) ==> c000 == mapval(m.voxelCorners, voxelStartIndex.Add(v3i.Vec{0, 0, 0}))) && (maphas(m.voxelCorners, voxelStartIndex.Add(v3i.Vec{0, 0, 1})) ==> c001 == mapval(m.voxelCorners, voxelStartIndex.Add(v3i.Vec{0, 0, 1}))) && (maphas(m.voxelCorners, voxelStartIndex.Add(v3i.Vec{0, 1, 0})) ==> c010 == mapval(m.voxelCorners, voxelStartIndex.Add(v3i.Vec{0, 1, 0}))) && (maphas(m.voxelCorners, voxelStartIndex.Add(v3i.Vec{0, 1, 1})) ==> c011 == mapval(m.voxelCorners, voxelStartIndex.Add(v3i.Vec{0, 1, 1}))) && (maphas(m.voxelCorners, voxelStartIndex.Add(v3i.Vec{1, 0, 0})) ==> c100 == mapval(m.voxelCorners, voxelStartIndex.Add(v3i.Vec{1, 0, 0}))) && (maphas(m.voxelCorners, voxelStartIndex.Add(v3i.Vec{1, 0, 1})) ==> c101 == mapval(m.voxelCorners, voxelStartIndex.Add(v3i.Vec{1, 0, 1}))) && (maphas(m.voxelCorners, voxelStartIndex.Add(v3i.Vec{1, 1, 0})) ==> c110 == mapval(m.voxelCorners, voxelStartIndex.Add(v3i.Vec{1, 1, 0}))) && (maphas(m.voxelCorners, voxelStartIndex.Add(v3i.Vec{1, 1, 1})) ==> c111 == mapval(m.voxelCorners, voxelStartIndex.Add(v3i.Vec{1, 1, 1})))
//@   ensures [the-cell-index-and-the-offset-locate-p] p.X == m.bb.Min.X + voxelSize.X*(real(voxelStartIndex.X) + d.X) && p.Y == m.bb.Min.Y + voxelSize.Y*(real(voxelStartIndex.Y) + d.Y) && p.Z == m.bb.Min.Z + voxelSize.Z*(real(voxelStartIndex.Z) + d.Z)
//@   ensures [cell-size-is-the-box-divided-by-the-cell-counts] voxelSize.X*real(m.numVoxels.X) == m.bb.Max.X - m.bb.Min.X && voxelSize.Y*real(m.numVoxels.Y) == m.bb.Max.Y - m.bb.Min.Y && voxelSize.Z*real(m.numVoxels.Z) == m.bb.Max.Z - m.bb.Min.Z
//@   ensures [trilinear-x-then-y-then-z] r == ((c000*(1-d.X) + c100*d.X)*(1-d.Y) + (c010*(1-d.X) + c110*d.X)*d.Y)*(1-d.Z) + ((c001*(1-d.X) + c101*d.X)*(1-d.Y) + (c011*(1-d.X) + c111*d.X)*d.Y)*d.Z
//@ end
