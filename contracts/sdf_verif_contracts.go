//go:build verif

// Contracts for package sdf, checked by /verif (govc). Comment-only file: with
// the build tag off it does not exist for the compiler; with it on it adds
// nothing but a package clause.

package sdf

//@ spec clampd2(x real, lo real, hi real) = sq(x - max(lo, min(x, hi)))
//@ spec fard2(x real, lo real, hi real) = sq(max(abs(x-lo), abs(x-hi)))

//-----------------------------------------------------------------------------
// C16: point-to-box distance intervals are exact; intervals overlap iff they share a value

//@ func Box2.MinMaxDist2
//@   property C16
//@   requires a.Min.X <= a.Max.X && a.Min.Y <= a.Max.Y
//@   ensures [min] r[0] == clampd2(p.X, a.Min.X, a.Max.X) + clampd2(p.Y, a.Min.Y, a.Max.Y)
//@   ensures [max] r[1] == fard2(p.X, a.Min.X, a.Max.X) + fard2(p.Y, a.Min.Y, a.Max.Y)
//@ end

//@ func Box3.MinMaxDist2
//@   property C16
//@   requires a.Min.X <= a.Max.X && a.Min.Y <= a.Max.Y && a.Min.Z <= a.Max.Z
//@   assert sq(p.X-a.Min.X) <= sq(p.X-a.Max.X) <==> abs(p.X-a.Min.X) <= abs(p.X-a.Max.X)
//@   assert sq(p.Y-a.Min.Y) <= sq(p.Y-a.Max.Y) <==> abs(p.Y-a.Min.Y) <= abs(p.Y-a.Max.Y)
//@   assert sq(p.Z-a.Min.Z) <= sq(p.Z-a.Max.Z) <==> abs(p.Z-a.Min.Z) <= abs(p.Z-a.Max.Z)
//@   cases abs(p.X-a.Min.X) <= abs(p.X-a.Max.X)
//@   cases abs(p.Y-a.Min.Y) <= abs(p.Y-a.Max.Y)
//@   cases abs(p.Z-a.Min.Z) <= abs(p.Z-a.Max.Z)
//@   ensures [min] r[0] == clampd2(p.X, a.Min.X, a.Max.X) + clampd2(p.Y, a.Min.Y, a.Max.Y) + clampd2(p.Z, a.Min.Z, a.Max.Z)
//@   ensures [max] r[1] == fard2(p.X, a.Min.X, a.Max.X) + fard2(p.Y, a.Min.Y, a.Max.Y) + fard2(p.Z, a.Min.Z, a.Max.Z)
//@ end

//@ func Interval.Overlap
//@   property C16
//@   id sound
//@   forall v real
//@   requires a[0] <= a[1] && b[0] <= b[1]
//@   ensures [shared-value-implies-overlap] (a[0] <= v && v <= a[1] && b[0] <= v && v <= b[1]) ==> r
//@   ensures [overlap-implies-shared-value] r ==> (a[0] <= max(a[0], b[0]) && max(a[0], b[0]) <= a[1] && b[0] <= max(a[0], b[0]) && max(a[0], b[0]) <= b[1])
//@ end

//-----------------------------------------------------------------------------
// C02: blend functions never remove material and are symmetric; the
// polynomial blend adds only a bounded fillet.

//@ func RoundMin$1
//@   property C02
//@   requires k > 0
//@   ensures [never-removes-material] r <= min(a, b)
//@   ensures [symmetric] r == RoundMin(k)(b, a)
//@ end

//@ func ChamferMin$1
//@   property C02
//@   requires k > 0
//@   ensures [never-removes-material] r <= min(a, b)
//@   ensures [symmetric] r == ChamferMin(k)(b, a)
//@ end

//@ func ExpMin$1
//@   property C02
//@   requires k > 0
//@   ensures [never-removes-material] r <= min(a, b)
//@   ensures [symmetric] r == ExpMin(k)(b, a)
//@ end

//@ func PolyMin$1
//@   property C02
//@   requires k > 0
//@   ensures [never-removes-material] r <= min(a, b)
//@   ensures [bounded-fillet] min(a, b) - k/4 <= r
//@   ensures [equals-min-beyond-k] abs(a-b) >= k ==> r == min(a, b)
//@   ensures [symmetric] r == PolyMin(k)(b, a)
//@ end

//@ func PolyMax$1
//@   property C02
//@   requires k > 0
//@   ensures [never-removes-material] r >= max(a, b)
//@   ensures [bounded-fillet] r <= max(a, b) + k/4
//@   ensures [equals-max-beyond-k] abs(a-b) >= k ==> r == max(a, b)
//@   ensures [symmetric] r == PolyMax(k)(b, a)
//@   ensures [mirror-of-polymin] r == -PolyMin(k)(-a, -b)
//@ end

//-----------------------------------------------------------------------------
// C02 / C01: matrices

//@ func M44.Inverse
//@   property C02
//@   requires a.Determinant() != 0
//@   ensures [right-inverse] a.Mul(r) == Identity3d()
//@   ensures [left-inverse] r.Mul(a) == Identity3d()
//@ end

//@ func M33.Inverse
//@   property C02
//@   requires a.Determinant() != 0
//@   ensures [right-inverse] a.Mul(r) == Identity2d()
//@   ensures [left-inverse] r.Mul(a) == Identity2d()
//@ end

//@ func M22.Inverse
//@   property C02
//@   requires a.Determinant() != 0
//@   ensures [right-inverse] a.Mul(r) == Identity()
//@   ensures [left-inverse] r.Mul(a) == Identity()
//@ end

//@ func M44.MulBox
//@   property C01
//@   forall q v3.Vec
//@   requires box.Contains(q)
//@   ensures [image-of-box-point-in-result] r.Contains(a.MulPosition(q))
//@   ensures [ordered] r.Min.X <= r.Max.X && r.Min.Y <= r.Max.Y && r.Min.Z <= r.Max.Z
//@ end

//@ func M33.MulBox
//@   property C01
//@   forall q v2.Vec
//@   requires box.Contains(q)
//@   ensures [image-of-box-point-in-result] r.Contains(a.MulPosition(q))
//@   ensures [ordered] r.Min.X <= r.Max.X && r.Min.Y <= r.Max.Y
//@ end

//@ func Rotate3d
//@   property C02
//@   forall q v3.Vec
//@   requires v.X*v.X + v.Y*v.Y + v.Z*v.Z > 0
//@   ensures [preserves-length] r.MulPosition(q).Length2() == q.Length2()
//@   ensures [fixes-axis] r.MulPosition(v) == v
//@   ensures [affine-rigid] r[3] == 0 && r[7] == 0 && r[11] == 0 && r[12] == 0 && r[13] == 0 && r[14] == 0 && r[15] == 1
//@   ensures [proper] r.Determinant() == 1
//@ end

//@ func Rotate
//@   property C02
//@   forall q v2.Vec
//@   ensures [preserves-length] r.MulPosition(q).Length2() == q.Length2()
//@   ensures [proper] r.Determinant() == 1
//@ end

//@ func Rotate2d
//@   property C02
//@   forall q v2.Vec
//@   ensures [preserves-length] r.MulPosition(q).Length2() == q.Length2()
//@   ensures [proper] r.Determinant() == 1
//@ end
