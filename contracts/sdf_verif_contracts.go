//go:build verif

// Contracts for package sdf, checked by /verif (govc). Comment-only file: with
// the build tag off it does not exist for the compiler; with it on it adds
// nothing but a package clause.

package sdf

//@ spec clampd2(x real, lo real, hi real) = sq(x - max(lo, min(x, hi)))
//@ spec fard2(x real, lo real, hi real) = sq(max(abs(x-lo), abs(x-hi)))

//-----------------------------------------------------------------------------
// C16: point-to-box distance intervals are exact; intervals overlap iff they share a value

//@ func Box2.MinMaxDist2
//@   property C16
//@   requires a.Min.X <= a.Max.X && a.Min.Y <= a.Max.Y
//@   ensures [min] r[0] == clampd2(p.X, a.Min.X, a.Max.X) + clampd2(p.Y, a.Min.Y, a.Max.Y)
//@   ensures [max] r[1] == fard2(p.X, a.Min.X, a.Max.X) + fard2(p.Y, a.Min.Y, a.Max.Y)
//@ end

//@ func Box3.MinMaxDist2
//@   property C16
//@   requires a.Min.X <= a.Max.X && a.Min.Y <= a.Max.Y && a.Min.Z <= a.Max.Z
//@   assert sq(p.X-a.Min.X) <= sq(p.X-a.Max.X) <==> abs(p.X-a.Min.X) <= abs(p.X-a.Max.X)
//@   assert sq(p.Y-a.Min.Y) <= sq(p.Y-a.Max.Y) <==> abs(p.Y-a.Min.Y) <= abs(p.Y-a.Max.Y)
//@   assert sq(p.Z-a.Min.Z) <= sq(p.Z-a.Max.Z) <==> abs(p.Z-a.Min.Z) <= abs(p.Z-a.Max.Z)
//@   cases abs(p.X-a.Min.X) <= abs(p.X-a.Max.X)
//@   cases abs(p.Y-a.Min.Y) <= abs(p.Y-a.Max.Y)
//@   cases abs(p.Z-a.Min.Z) <= abs(p.Z-a.Max.Z)
//@   ensures [min] r[0] == clampd2(p.X, a.Min.X, a.Max.X) + clampd2(p.Y, a.Min.Y, a.Max.Y) + clampd2(p.Z, a.Min.Z, a.Max.Z)
//@   ensures [max] r[1] == fard2(p.X, a.Min.X, a.Max.X) + fard2(p.Y, a.Min.Y, a.Max.Y) + fard2(p.Z, a.Min.Z, a.Max.Z)
//@ end

//@ func Interval.Overlap
//@   property C16
//@   id sound
//@   forall v real
//@   requires a[0] <= a[1] && b[0] <= b[1]
//@   ensures [shared-value-implies-overlap] (a[0] <= v && v <= a[1] && b[0] <= v && v <= b[1]) ==> r
//@   ensures [overlap-implies-shared-value] r ==> (a[0] <= max(a[0], b[0]) && max(a[0], b[0]) <= a[1] && b[0] <= max(a[0], b[0]) && max(a[0], b[0]) <= b[1])
//@ end

//-----------------------------------------------------------------------------
// C02: blend functions never remove material and are symmetric; the
// polynomial blend adds only a bounded fillet.

//@ func RoundMin$1
//@   property C02
//@   requires k > 0
//@   ensures [never-removes-material] r <= min(a, b)
//@   ensures [symmetric] r == RoundMin(k)(b, a)
//@ end

//@ func ChamferMin$1
//@   property C02
//@   requires k > 0
//@   ensures [never-removes-material] r <= min(a, b)
//@   ensures [symmetric] r == ChamferMin(k)(b, a)
//@ end

//@ func ExpMin$1
//@   property C02
//@   requires k > 0
//@   ensures [never-removes-material] r <= min(a, b)
//@   ensures [symmetric] r == ExpMin(k)(b, a)
//@ end

//@ func PolyMin$1
//@   property C02
//@   requires k > 0
//@   ensures [never-removes-material] r <= min(a, b)
//@   ensures [bounded-fillet] min(a, b) - k/4 <= r
//@   ensures [equals-min-beyond-k] abs(a-b) >= k ==> r == min(a, b)
//@   ensures [symmetric] r == PolyMin(k)(b, a)
//@ end

//@ func PolyMax$1
//@   property C02
//@   requires k > 0
//@   ensures [never-removes-material] r >= max(a, b)
//@   ensures [bounded-fillet] r <= max(a, b) + k/4
//@   ensures [equals-max-beyond-k] abs(a-b) >= k ==> r == max(a, b)
//@   ensures [symmetric] r == PolyMax(k)(b, a)
//@   ensures [mirror-of-polymin] r == -PolyMin(k)(-a, -b)
//@ end

//-----------------------------------------------------------------------------
// C02 / C01: matrices

//@ func M44.Inverse
//@   property C02
//@   modular
//@   requires a.Determinant() != 0
//@   ensures [right-inverse] a.Mul(r) == Identity3d()
//@   ensures [left-inverse] r.Mul(a) == Identity3d()
//@ end

//@ func M33.Inverse
//@   property C02
//@   modular
//@   requires a.Determinant() != 0
//@   ensures [right-inverse] a.Mul(r) == Identity2d()
//@   ensures [left-inverse] r.Mul(a) == Identity2d()
//@ end

//@ func M22.Inverse
//@   property C02
//@   modular
//@   requires a.Determinant() != 0
//@   ensures [right-inverse] a.Mul(r) == Identity()
//@   ensures [left-inverse] r.Mul(a) == Identity()
//@ end

//@ func M44.MulBox
//@   property C01
//@   id X
//@   modular
//@   cases a[0] >= 0
//@   cases a[1] >= 0
//@   cases a[2] >= 0
//@   ensures [image-of-box-point-in-result] forall q v3.Vec :: box.Contains(q) ==> r.Min.X <= a.MulPosition(q).X && a.MulPosition(q).X <= r.Max.X
//@   ensures [ordered] ord3(box) ==> r.Min.X <= r.Max.X
//@ end

//@ func M44.MulBox
//@   property C01
//@   id Y
//@   modular
//@   cases a[4] >= 0
//@   cases a[5] >= 0
//@   cases a[6] >= 0
//@   ensures [image-of-box-point-in-result] forall q v3.Vec :: box.Contains(q) ==> r.Min.Y <= a.MulPosition(q).Y && a.MulPosition(q).Y <= r.Max.Y
//@   ensures [ordered] ord3(box) ==> r.Min.Y <= r.Max.Y
//@ end

//@ func M44.MulBox
//@   property C01
//@   id Z
//@   modular
//@   cases a[8] >= 0
//@   cases a[9] >= 0
//@   cases a[10] >= 0
//@   ensures [image-of-box-point-in-result] forall q v3.Vec :: box.Contains(q) ==> r.Min.Z <= a.MulPosition(q).Z && a.MulPosition(q).Z <= r.Max.Z
//@   ensures [ordered] ord3(box) ==> r.Min.Z <= r.Max.Z
//@ end

//@ func M33.MulBox
//@   property C01
//@   id X
//@   modular
//@   cases a[0] >= 0
//@   cases a[1] >= 0
//@   ensures [image-of-box-point-in-result] forall q v2.Vec :: box.Contains(q) ==> r.Min.X <= a.MulPosition(q).X && a.MulPosition(q).X <= r.Max.X
//@   ensures [ordered] ord2(box) ==> r.Min.X <= r.Max.X
//@ end

//@ func M33.MulBox
//@   property C01
//@   id Y
//@   modular
//@   cases a[3] >= 0
//@   cases a[4] >= 0
//@   ensures [image-of-box-point-in-result] forall q v2.Vec :: box.Contains(q) ==> r.Min.Y <= a.MulPosition(q).Y && a.MulPosition(q).Y <= r.Max.Y
//@   ensures [ordered] ord2(box) ==> r.Min.Y <= r.Max.Y
//@ end

//@ func Rotate3d
//@   property C02
//@   forall q v3.Vec
//@   requires v.X*v.X + v.Y*v.Y + v.Z*v.Z > 0
//@   ensures [preserves-length] r.MulPosition(q).Length2() == q.Length2()
//@   ensures [fixes-axis] r.MulPosition(v) == v
//@   ensures [affine-rigid] r[3] == 0 && r[7] == 0 && r[11] == 0 && r[12] == 0 && r[13] == 0 && r[14] == 0 && r[15] == 1
//@   ensures [proper] r.Determinant() == 1
//@ end

//@ func Rotate
//@   property C02
//@   forall q v2.Vec
//@   ensures [preserves-length] r.MulPosition(q).Length2() == q.Length2()
//@   ensures [proper] r.Determinant() == 1
//@ end

//@ func Rotate2d
//@   property C02
//@   forall q v2.Vec
//@   ensures [preserves-length] r.MulPosition(q).Length2() == q.Length2()
//@   ensures [proper] r.Determinant() == 1
//@ end

//-----------------------------------------------------------------------------
// C01: bounding boxes enclose the solid. Vocabulary:
//   ord2/ord3  - box ordered;  enc2/enc3 - a solid point lies in the box.

//@ spec ord2(b Box2) = b.Min.X <= b.Max.X && b.Min.Y <= b.Max.Y
//@ spec ord3(b Box3) = b.Min.X <= b.Max.X && b.Min.Y <= b.Max.Y && b.Min.Z <= b.Max.Z
//@ spec enc2(s SDF2, q v2.Vec) = s.Evaluate(q) < 0 ==> s.BoundingBox().Contains(q)
//@ spec enc3(s SDF3, q v3.Vec) = s.Evaluate(q) < 0 ==> s.BoundingBox().Contains(q)

//@ spec linfd2(b Box2, q v2.Vec) = max(b.Min.X - q.X, q.X - b.Max.X, b.Min.Y - q.Y, q.Y - b.Max.Y)
//@ spec linfd3(b Box3, q v3.Vec) = max(b.Min.X - q.X, q.X - b.Max.X, b.Min.Y - q.Y, q.Y - b.Max.Y, b.Min.Z - q.Z, q.Z - b.Max.Z)
//@ spec linf2(s SDF2, q v2.Vec) = s.Evaluate(q) >= linfd2(s.BoundingBox(), q)
//@ spec linf3(s SDF3, q v3.Vec) = s.Evaluate(q) >= linfd3(s.BoundingBox(), q)

//@ spec vlen2(x real, y real) = x*x + y*y
//@ spec boxr2(b Box2) = max(vlen2(b.Min.X, b.Min.Y), vlen2(b.Max.X, b.Min.Y), vlen2(b.Min.X, b.Max.Y), vlen2(b.Max.X, b.Max.Y))

//@ lemma sq_bound(x real, lo real, hi real)
//@   property C01
//@   requires lo <= x && x <= hi
//@   ensures sq(x) <= max(sq(lo), sq(hi))
//@ end

//@ func TwistExtrude3D
//@   property C01
//@   id ENC
//@   opt search p
//@   opt solid-operands
//@   forall p v3.Vec
//@   requires height > 0
//@   requires ord2(sdf.BoundingBox())
//@   requires forall q v2.Vec :: enc2(sdf, q)
//@   let d = r.Evaluate(p)
//@   let e = r.extrude(p)
//@   let bb = r.BoundingBox()
//@   assert [twist-preserves-radius] e.Length2() == vlen2(p.X, p.Y)
//@   assert [box-radius] sq(bb.Max.X) == boxr2(sdf.BoundingBox()) && bb.Max.X >= 0
//@   assert [box-shape] bb.Max.Y == bb.Max.X && bb.Min.X == -bb.Max.X && bb.Min.Y == -bb.Max.X && bb.Max.Z == height/2 && bb.Min.Z == -height/2
//@   generalize e
//@   generalize bb
//@   use sq_bound(e.X, sdf.BoundingBox().Min.X, sdf.BoundingBox().Max.X)
//@   use sq_bound(e.Y, sdf.BoundingBox().Min.Y, sdf.BoundingBox().Max.Y)
//@   assert [in-box-in-disc] sdf.BoundingBox().Contains(e) ==> e.Length2() <= boxr2(sdf.BoundingBox())
//@   ensures [ordered] ord3(bb)
//@   ensures [encloses] d < 0 ==> bb.Contains(p)
//@ end

//@ spec sfac(s real, h real, z real) = ((1/s - 1)/h)*z + ((1/s)*0.5 + 0.5)

//@ func ScaleTwistExtrude3D
//@   property C01
//@   id ENC
//@   opt search p
//@   opt solid-operands
//@   forall p v3.Vec
//@   requires height > 0
//@   requires scale.X > 0 && scale.Y > 0
//@   requires ord2(sdf.BoundingBox())
//@   requires forall q v2.Vec :: enc2(sdf, q)
//@   let d = r.Evaluate(p)
//@   let e = r.extrude(p)
//@   let bb = r.BoundingBox()
//@   assert [twist-preserves-radius] e.Length2() == sq(p.X*sfac(scale.X, height, p.Z)) + sq(p.Y*sfac(scale.Y, height, p.Z))
//@   assert [box-radius-x] sq(bb.Max.X) == boxr2(sdf.BoundingBox())*sq(max(1, scale.X)) && bb.Max.X >= 0
//@   assert [box-radius-y] sq(bb.Max.Y) == boxr2(sdf.BoundingBox())*sq(max(1, scale.Y)) && bb.Max.Y >= 0
//@   assert [box-shape] bb.Min.X == -bb.Max.X && bb.Min.Y == -bb.Max.Y && bb.Max.Z == height/2 && bb.Min.Z == -height/2
//@   generalize e
//@   generalize bb
//@   use sq_bound(e.X, sdf.BoundingBox().Min.X, sdf.BoundingBox().Max.X)
//@   use sq_bound(e.Y, sdf.BoundingBox().Min.Y, sdf.BoundingBox().Max.Y)
//@   assert [in-box-in-disc] sdf.BoundingBox().Contains(e) ==> e.Length2() <= boxr2(sdf.BoundingBox())
//@   assert [factor-x] abs(p.Z) <= height/2 ==> sfac(scale.X, height, p.Z)*max(1, scale.X) >= 1 && sfac(scale.X, height, p.Z) > 0
//@   assert [factor-y] abs(p.Z) <= height/2 ==> sfac(scale.Y, height, p.Z)*max(1, scale.Y) >= 1 && sfac(scale.Y, height, p.Z) > 0
//@   assert [x-in] d < 0 ==> sq(p.X) <= sq(bb.Max.X)
//@   assert [y-in] d < 0 ==> sq(p.Y) <= sq(bb.Max.Y)
//@   ensures [ordered] ord3(bb)
//@   ensures [encloses] d < 0 ==> bb.Contains(p)
//@ end

//@ func RotateCopy2D
//@   property C01
//@   id ENC
//@   opt search p
//@   opt solid-operands
//@   forall p v2.Vec
//@   requires n > 0
//@   requires ord2(sdf.BoundingBox())
//@   requires forall q v2.Vec :: enc2(sdf, q)
//@   let d = r.Evaluate(p)
//@   let e = conv.P2ToV2(p2.Vec{p.Length(), SawTooth(math.Atan2(p.Y, p.X), r.theta)})
//@   let bb = r.BoundingBox()
//@   let rho = p.Length()
//@   let ang = SawTooth(math.Atan2(p.Y, p.X), r.theta)
//@   assert [radius-squared] sq(rho) == vlen2(p.X, p.Y)
//@   assert [unit-direction] sq(cos(ang)) + sq(sin(ang)) == 1
//@   assert [mapped-point-is-polar] e.X == rho*cos(ang) && e.Y == rho*sin(ang)
//@   focus radius-squared unit-direction mapped-point-is-polar
//@   assert [sector-mapping-preserves-radius] e.Length2() == vlen2(p.X, p.Y)
//@   unfocus
//@   assert [box-radius] sq(bb.Max.X) == boxr2(sdf.BoundingBox()) && bb.Max.X >= 0
//@   assert [box-shape] bb.Max.Y == bb.Max.X && bb.Min.X == -bb.Max.X && bb.Min.Y == -bb.Max.X
//@   generalize e
//@   generalize bb
//@   use sq_bound(e.X, sdf.BoundingBox().Min.X, sdf.BoundingBox().Max.X)
//@   use sq_bound(e.Y, sdf.BoundingBox().Min.Y, sdf.BoundingBox().Max.Y)
//@   assert [in-box-in-disc] sdf.BoundingBox().Contains(e) ==> e.Length2() <= boxr2(sdf.BoundingBox())
//@   ensures [ordered] ord2(bb)
//@   ensures [encloses] d < 0 ==> bb.Contains(p)
//@ end

//@ func RotateCopy3D
//@   property C01
//@   id ENC
//@   opt search p
//@   opt solid-operands
//@   forall p v3.Vec
//@   requires num > 0
//@   requires ord3(sdf.BoundingBox())
//@   requires forall q v3.Vec :: enc3(sdf, q)
//@   let d = r.Evaluate(p)
//@   let e = conv.P2ToV2(p2.Vec{v2.Vec{p.X, p.Y}.Length(), SawTooth(math.Atan2(p.Y, p.X), r.theta)})
//@   let bb = r.BoundingBox()
//@   let ob = sdf.BoundingBox()
//@   let rho = v2.Vec{p.X, p.Y}.Length()
//@   let ang = SawTooth(math.Atan2(p.Y, p.X), r.theta)
//@   assert [radius-squared] sq(rho) == vlen2(p.X, p.Y)
//@   assert [unit-direction] sq(cos(ang)) + sq(sin(ang)) == 1
//@   assert [mapped-point-is-polar] e.X == rho*cos(ang) && e.Y == rho*sin(ang)
//@   focus radius-squared unit-direction mapped-point-is-polar
//@   assert [sector-mapping-preserves-radius] e.Length2() == vlen2(p.X, p.Y)
//@   unfocus
//@   assert [box-radius-covers-every-vertex] bb.Max.X >= 0 && sq(bb.Max.X) >= vlen2(ob.Min.X, ob.Min.Y) && sq(bb.Max.X) >= vlen2(ob.Max.X, ob.Min.Y) && sq(bb.Max.X) >= vlen2(ob.Min.X, ob.Max.Y) && sq(bb.Max.X) >= vlen2(ob.Max.X, ob.Max.Y)
//@   assert [box-shape] bb.Max.Y == bb.Max.X && bb.Min.X == -bb.Max.X && bb.Min.Y == -bb.Max.X && bb.Min.Z == ob.Min.Z && bb.Max.Z == ob.Max.Z
//@   generalize e
//@   generalize bb
//@   use sq_bound(e.X, ob.Min.X, ob.Max.X)
//@   use sq_bound(e.Y, ob.Min.Y, ob.Max.Y)
//@   assert [in-box-in-disc] ob.Min.X <= e.X && e.X <= ob.Max.X && ob.Min.Y <= e.Y && e.Y <= ob.Max.Y ==> e.Length2() <= sq(bb.Max.X)
//@   ensures [ordered] ord3(bb)
//@   ensures [encloses] d < 0 ==> bb.Contains(p)
//@ end

// BEGIN GENERATED SHAPES
//-----------------------------------------------------------------------------
// C01 (generated block list, see /verif/tools/gen_shape_contracts.py): one ENC contract per constructor.

//@ func Sphere3D
//@   property C01
//@   id ENC
//@   opt search p
//@   opt solid-operands
//@   forall p v3.Vec
//@   let d = r.Evaluate(p)
//@   ensures [ordered] isnil(err) ==> ord3(r.BoundingBox())
//@   ensures [encloses] isnil(err) && d < 0 ==> r.BoundingBox().Contains(p)
//@ end

//@ func Box3D
//@   property C01
//@   id ENC
//@   opt search p
//@   opt solid-operands
//@   forall p v3.Vec
//@   let d = r.Evaluate(p)
//@   ensures [ordered] isnil(err) ==> ord3(r.BoundingBox())
//@   ensures [encloses] isnil(err) && d < 0 ==> r.BoundingBox().Contains(p)
//@ end

//@ func Cylinder3D
//@   property C01
//@   id ENC
//@   opt search p
//@   opt solid-operands
//@   forall p v3.Vec
//@   let d = r.Evaluate(p)
//@   ensures [ordered] isnil(err) ==> ord3(r.BoundingBox())
//@   ensures [encloses] isnil(err) && d < 0 ==> r.BoundingBox().Contains(p)
//@ end

//@ func Capsule3D
//@   property C01
//@   id ENC
//@   opt search p
//@   opt solid-operands
//@   forall p v3.Vec
//@   let d = r.Evaluate(p)
//@   ensures [ordered] isnil(err) ==> ord3(r.BoundingBox())
//@   ensures [encloses] isnil(err) && d < 0 ==> r.BoundingBox().Contains(p)
//@ end

//@ func Cone3D
//@   property C01
//@   id ENC
//@   opt search p
//@   opt solid-operands
//@   opt thorough
//@   forall p v3.Vec
//@   requires r0 >= 0
//@   requires r1 >= 0
//@   requires r0 > 0 || r1 > 0
//@   let d = r.Evaluate(p)
//@   ensures [ordered] isnil(err) ==> ord3(r.BoundingBox())
//@   ensures [encloses] isnil(err) && d < 0 ==> r.BoundingBox().Contains(p)
//@ end

//@ func Extrude3D
//@   property C01
//@   id ENC
//@   opt search p
//@   opt solid-operands
//@   forall p v3.Vec
//@   requires height > 0
//@   requires ord2(sdf.BoundingBox())
//@   requires forall q v2.Vec :: enc2(sdf, q)
//@   let d = r.Evaluate(p)
//@   ensures [ordered] ord3(r.BoundingBox())
//@   ensures [encloses] d < 0 ==> r.BoundingBox().Contains(p)
//@ end

//@ func ScaleExtrude3D
//@   property C01
//@   id ENC
//@   opt search p
//@   opt solid-operands
//@   forall p v3.Vec
//@   requires height > 0
//@   requires scale.X > 0
//@   requires scale.Y > 0
//@   requires ord2(sdf.BoundingBox())
//@   requires forall q v2.Vec :: enc2(sdf, q)
//@   let d = r.Evaluate(p)
//@   ensures [ordered] ord3(r.BoundingBox())
//@   ensures [encloses] d < 0 ==> r.BoundingBox().Contains(p)
//@ end

//@ func ExtrudeRounded3D
//@   property C01
//@   id ENC
//@   opt search p
//@   opt solid-operands
//@   forall p v3.Vec
//@   requires height > 0
//@   requires ord2(sdf.BoundingBox())
//@   requires forall q v2.Vec :: enc2(sdf, q)
//@   requires forall q v2.Vec :: linf2(sdf, q)
//@   let d = r.Evaluate(p)
//@   ensures [ordered] isnil(err) ==> ord3(r.BoundingBox())
//@   ensures [encloses] isnil(err) && d < 0 ==> r.BoundingBox().Contains(p)
//@ end

//@ func Loft3D
//@   property C01
//@   id ENC
//@   opt search p
//@   opt solid-operands
//@   forall p v3.Vec
//@   requires ord2(sdf0.BoundingBox())
//@   requires forall q v2.Vec :: enc2(sdf0, q)
//@   requires forall q v2.Vec :: linf2(sdf0, q)
//@   requires ord2(sdf1.BoundingBox())
//@   requires forall q v2.Vec :: enc2(sdf1, q)
//@   requires forall q v2.Vec :: linf2(sdf1, q)
//@   let d = r.Evaluate(p)
//@   ensures [ordered] isnil(err) ==> ord3(r.BoundingBox())
//@   ensures [encloses] isnil(err) && d < 0 ==> r.BoundingBox().Contains(p)
//@ end

//@ func RevolveTheta3D
//@   property C01
//@   id ENC
//@   opt search p
//@   opt solid-operands
//@   opt trig-quadrants
//@   forall p v3.Vec
//@   requires ord2(sdf.BoundingBox())
//@   requires forall q v2.Vec :: enc2(sdf, q)
//@   let d = r.Evaluate(p)
//@   ensures [ordered] isnil(err) ==> ord3(r.BoundingBox())
//@   ensures [encloses] isnil(err) && d < 0 ==> r.BoundingBox().Contains(p)
//@ end

//@ func Revolve3D
//@   property C01
//@   id ENC
//@   opt search p
//@   opt solid-operands
//@   opt trig-quadrants
//@   forall p v3.Vec
//@   requires ord2(sdf.BoundingBox())
//@   requires forall q v2.Vec :: enc2(sdf, q)
//@   let d = r.Evaluate(p)
//@   ensures [ordered] isnil(err) ==> ord3(r.BoundingBox())
//@   ensures [encloses] isnil(err) && d < 0 ==> r.BoundingBox().Contains(p)
//@ end

//@ func Transform3D
//@   property C01
//@   id ENC
//@   opt search p
//@   opt solid-operands
//@   forall p v3.Vec
//@   requires matrix.Determinant() != 0
//@   requires matrix[12] == 0 && matrix[13] == 0 && matrix[14] == 0 && matrix[15] == 1
//@   requires ord3(sdf.BoundingBox())
//@   requires forall q v3.Vec :: enc3(sdf, q)
//@   let d = r.Evaluate(p)
//@   let q = r.inverse.MulPosition(p)
//@   assert [inverse-maps-back] matrix.MulPosition(q) == p
//@   generalize q
//@   ensures [ordered] ord3(r.BoundingBox())
//@   ensures [encloses] d < 0 ==> r.BoundingBox().Contains(p)
//@ end

//@ func ScaleUniform3D
//@   property C01
//@   id ENC
//@   opt search p
//@   opt solid-operands
//@   forall p v3.Vec
//@   requires k > 0
//@   requires ord3(sdf.BoundingBox())
//@   requires forall q v3.Vec :: enc3(sdf, q)
//@   let d = r.Evaluate(p)
//@   ensures [ordered] ord3(r.BoundingBox())
//@   ensures [encloses] d < 0 ==> r.BoundingBox().Contains(p)
//@ end

//@ func Difference3D
//@   property C01
//@   id ENC
//@   opt search p
//@   opt solid-operands
//@   forall p v3.Vec
//@   requires ord3(s0.BoundingBox())
//@   requires forall q v3.Vec :: enc3(s0, q)
//@   requires ord3(s1.BoundingBox())
//@   requires forall q v3.Vec :: enc3(s1, q)
//@   let d = r.Evaluate(p)
//@   ensures [ordered] ord3(r.BoundingBox())
//@   ensures [encloses] d < 0 ==> r.BoundingBox().Contains(p)
//@ end

//@ func Intersect3D
//@   property C01
//@   id ENC
//@   opt search p
//@   opt solid-operands
//@   forall p v3.Vec
//@   requires ord3(s0.BoundingBox())
//@   requires forall q v3.Vec :: enc3(s0, q)
//@   requires ord3(s1.BoundingBox())
//@   requires forall q v3.Vec :: enc3(s1, q)
//@   let d = r.Evaluate(p)
//@   ensures [ordered] ord3(r.BoundingBox())
//@   ensures [encloses] d < 0 ==> r.BoundingBox().Contains(p)
//@ end

//@ func Cut3D
//@   property C01
//@   id ENC
//@   opt search p
//@   opt solid-operands
//@   forall p v3.Vec
//@   requires n.X*n.X + n.Y*n.Y + n.Z*n.Z > 0
//@   requires ord3(sdf.BoundingBox())
//@   requires forall q v3.Vec :: enc3(sdf, q)
//@   let d = r.Evaluate(p)
//@   ensures [ordered] ord3(r.BoundingBox())
//@   ensures [encloses] d < 0 ==> r.BoundingBox().Contains(p)
//@ end

//@ func Elongate3D
//@   property C01
//@   id ENC
//@   opt search p
//@   opt solid-operands
//@   forall p v3.Vec
//@   requires ord3(sdf.BoundingBox())
//@   requires forall q v3.Vec :: enc3(sdf, q)
//@   let d = r.Evaluate(p)
//@   ensures [ordered] ord3(r.BoundingBox())
//@   ensures [encloses] d < 0 ==> r.BoundingBox().Contains(p)
//@ end

//@ func Shell3D
//@   property C01
//@   id ENC
//@   opt search p
//@   opt solid-operands
//@   forall p v3.Vec
//@   requires ord3(sdf.BoundingBox())
//@   requires forall q v3.Vec :: enc3(sdf, q)
//@   requires forall q v3.Vec :: linf3(sdf, q)
//@   let d = r.Evaluate(p)
//@   ensures [ordered] isnil(err) ==> ord3(r.BoundingBox())
//@   ensures [encloses] isnil(err) && d < 0 ==> r.BoundingBox().Contains(p)
//@ end

//@ func Offset3D
//@   property C01
//@   id ENC
//@   opt search p
//@   opt solid-operands
//@   forall p v3.Vec
//@   requires sdf.BoundingBox().Size().X + 2*offset >= 0
//@   requires sdf.BoundingBox().Size().Y + 2*offset >= 0
//@   requires sdf.BoundingBox().Size().Z + 2*offset >= 0
//@   requires ord3(sdf.BoundingBox())
//@   requires forall q v3.Vec :: enc3(sdf, q)
//@   requires forall q v3.Vec :: linf3(sdf, q)
//@   let d = r.Evaluate(p)
//@   ensures [ordered] ord3(r.BoundingBox())
//@   ensures [encloses] d < 0 ==> r.BoundingBox().Contains(p)
//@ end

//@ func Circle2D
//@   property C01
//@   id ENC
//@   opt search p
//@   opt solid-operands
//@   forall p v2.Vec
//@   let d = r.Evaluate(p)
//@   ensures [ordered] isnil(err) ==> ord2(r.BoundingBox())
//@   ensures [encloses] isnil(err) && d < 0 ==> r.BoundingBox().Contains(p)
//@ end

//@ func Box2D
//@   property C01
//@   id ENC
//@   opt search p
//@   opt solid-operands
//@   forall p v2.Vec
//@   requires size.X > 0 && size.Y > 0
//@   requires round >= 0
//@   requires 2*round <= size.X && 2*round <= size.Y
//@   let d = r.Evaluate(p)
//@   ensures [ordered] ord2(r.BoundingBox())
//@   ensures [encloses] d < 0 ==> r.BoundingBox().Contains(p)
//@ end

//@ func Line2D
//@   property C01
//@   id ENC
//@   opt search p
//@   opt solid-operands
//@   forall p v2.Vec
//@   requires l >= 0
//@   requires round >= 0
//@   let d = r.Evaluate(p)
//@   ensures [ordered] ord2(r.BoundingBox())
//@   ensures [encloses] d < 0 ==> r.BoundingBox().Contains(p)
//@ end

//@ func Offset2D
//@   property C01
//@   id ENC
//@   opt search p
//@   opt solid-operands
//@   forall p v2.Vec
//@   requires sdf.BoundingBox().Size().X + 2*offset >= 0
//@   requires sdf.BoundingBox().Size().Y + 2*offset >= 0
//@   requires ord2(sdf.BoundingBox())
//@   requires forall q v2.Vec :: enc2(sdf, q)
//@   requires forall q v2.Vec :: linf2(sdf, q)
//@   let d = r.Evaluate(p)
//@   ensures [ordered] ord2(r.BoundingBox())
//@   ensures [encloses] d < 0 ==> r.BoundingBox().Contains(p)
//@ end

//@ func Intersect2D
//@   property C01
//@   id ENC
//@   opt search p
//@   opt solid-operands
//@   forall p v2.Vec
//@   requires ord2(s0.BoundingBox())
//@   requires forall q v2.Vec :: enc2(s0, q)
//@   requires ord2(s1.BoundingBox())
//@   requires forall q v2.Vec :: enc2(s1, q)
//@   let d = r.Evaluate(p)
//@   ensures [ordered] ord2(r.BoundingBox())
//@   ensures [encloses] d < 0 ==> r.BoundingBox().Contains(p)
//@ end

//@ func Difference2D
//@   property C01
//@   id ENC
//@   opt search p
//@   opt solid-operands
//@   forall p v2.Vec
//@   requires ord2(s0.BoundingBox())
//@   requires forall q v2.Vec :: enc2(s0, q)
//@   requires ord2(s1.BoundingBox())
//@   requires forall q v2.Vec :: enc2(s1, q)
//@   let d = r.Evaluate(p)
//@   ensures [ordered] ord2(r.BoundingBox())
//@   ensures [encloses] d < 0 ==> r.BoundingBox().Contains(p)
//@ end

//@ func Cut2D
//@   property C01
//@   id ENC
//@   opt search p
//@   opt solid-operands
//@   forall p v2.Vec
//@   requires v.X*v.X + v.Y*v.Y > 0
//@   requires ord2(sdf.BoundingBox())
//@   requires forall q v2.Vec :: enc2(sdf, q)
//@   let d = r.Evaluate(p)
//@   ensures [ordered] ord2(r.BoundingBox())
//@   ensures [encloses] d < 0 ==> r.BoundingBox().Contains(p)
//@ end

//@ func Transform2D
//@   property C01
//@   id ENC
//@   opt search p
//@   opt solid-operands
//@   forall p v2.Vec
//@   requires m.Determinant() != 0
//@   requires m[6] == 0 && m[7] == 0 && m[8] == 1
//@   requires ord2(sdf.BoundingBox())
//@   requires forall q v2.Vec :: enc2(sdf, q)
//@   let d = r.Evaluate(p)
//@   let q = r.mInv.MulPosition(p)
//@   assert [inverse-maps-back] m.MulPosition(q) == p
//@   generalize q
//@   ensures [ordered] ord2(r.BoundingBox())
//@   ensures [encloses] d < 0 ==> r.BoundingBox().Contains(p)
//@ end

//@ func ScaleUniform2D
//@   property C01
//@   id ENC
//@   opt search p
//@   opt solid-operands
//@   forall p v2.Vec
//@   requires k > 0
//@   requires ord2(sdf.BoundingBox())
//@   requires forall q v2.Vec :: enc2(sdf, q)
//@   let d = r.Evaluate(p)
//@   ensures [ordered] ord2(r.BoundingBox())
//@   ensures [encloses] d < 0 ==> r.BoundingBox().Contains(p)
//@ end

//@ func Center2D
//@   property C01
//@   id ENC
//@   opt search p
//@   opt solid-operands
//@   forall p v2.Vec
//@   requires ord2(s.BoundingBox())
//@   requires forall q v2.Vec :: enc2(s, q)
//@   let d = r.Evaluate(p)
//@   ensures [ordered] ord2(r.BoundingBox())
//@   ensures [encloses] d < 0 ==> r.BoundingBox().Contains(p)
//@ end

//@ func CenterAndScale2D
//@   property C01
//@   id ENC
//@   opt search p
//@   opt solid-operands
//@   forall p v2.Vec
//@   requires k > 0
//@   requires ord2(s.BoundingBox())
//@   requires forall q v2.Vec :: enc2(s, q)
//@   let d = r.Evaluate(p)
//@   ensures [ordered] ord2(r.BoundingBox())
//@   ensures [encloses] d < 0 ==> r.BoundingBox().Contains(p)
//@ end

//@ func Elongate2D
//@   property C01
//@   id ENC
//@   opt search p
//@   opt solid-operands
//@   forall p v2.Vec
//@   requires ord2(sdf.BoundingBox())
//@   requires forall q v2.Vec :: enc2(sdf, q)
//@   let d = r.Evaluate(p)
//@   ensures [ordered] ord2(r.BoundingBox())
//@   ensures [encloses] d < 0 ==> r.BoundingBox().Contains(p)
//@ end

//@ func Slice2D
//@   property C01
//@   id ENC
//@   opt search p
//@   opt solid-operands
//@   forall p v2.Vec
//@   requires n.X*n.X + n.Y*n.Y + n.Z*n.Z > 0
//@   requires ord3(sdf.BoundingBox())
//@   requires forall q v3.Vec :: enc3(sdf, q)
//@   let d = r.Evaluate(p)
//@   ensures [ordered] ord2(r.BoundingBox())
//@   ensures [encloses] d < 0 ==> r.BoundingBox().Contains(p)
//@ end

// END GENERATED SHAPES

//-----------------------------------------------------------------------------
// C02: each combinator denotes the operation it names (value at every point,
// operands abstract).

//@ spec elong(x real, h real) = x - max(-abs(h)/2, min(x, abs(h)/2))
//@ spec rcomb(a real, b real) = sqrt(sq(max(a, 0)) + sq(max(b, 0))) + min(max(a, b), 0)
//@ spec clamp01(x real) = max(0, min(x, 1))

//@ func Difference3D
//@   property C02
//@   id denotes
//@   forall p v3.Vec
//@   let d = r.Evaluate(p)
//@   ensures [is-max-a-minus-b] d == max(s0.Evaluate(p), -s1.Evaluate(p))
//@ end

//@ func Difference3D
//@   property C02
//@   id nil-subtrahend
//@   nil s1
//@   ensures [returns-minuend] r == s0
//@ end

//@ func Difference3D
//@   property C02
//@   id nil-minuend
//@   nil s0
//@   ensures [returns-nil] isnil(r)
//@ end

//@ func Difference2D
//@   property C02
//@   id denotes
//@   forall p v2.Vec
//@   let d = r.Evaluate(p)
//@   ensures [is-max-a-minus-b] d == max(s0.Evaluate(p), -s1.Evaluate(p))
//@ end

//@ func Difference2D
//@   property C02
//@   id nil-subtrahend
//@   nil s1
//@   ensures [returns-minuend] r == s0
//@ end

//@ func Intersect3D
//@   property C02
//@   id denotes
//@   forall p v3.Vec
//@   let d = r.Evaluate(p)
//@   ensures [is-max] d == max(s0.Evaluate(p), s1.Evaluate(p))
//@ end

//@ func Intersect3D
//@   property C02
//@   id nil-operand
//@   nil s1
//@   ensures [returns-nil] isnil(r)
//@ end

//@ func Intersect2D
//@   property C02
//@   id denotes
//@   forall p v2.Vec
//@   let d = r.Evaluate(p)
//@   ensures [is-max] d == max(s0.Evaluate(p), s1.Evaluate(p))
//@ end

//@ func Transform3D
//@   property C02
//@   id denotes
//@   forall q v3.Vec
//@   requires matrix.Determinant() != 0
//@   requires matrix[12] == 0 && matrix[13] == 0 && matrix[14] == 0 && matrix[15] == 1
//@   let e = r.inverse.MulPosition(matrix.MulPosition(q))
//@   assert [inverse-undoes-matrix] e == q
//@   let d = r.Evaluate(matrix.MulPosition(q))
//@   ensures [operand-at-preimage] d == sdf.Evaluate(q)
//@ end

//@ func Transform2D
//@   property C02
//@   id denotes
//@   forall q v2.Vec
//@   requires m.Determinant() != 0
//@   requires m[6] == 0 && m[7] == 0 && m[8] == 1
//@   let e = r.mInv.MulPosition(m.MulPosition(q))
//@   assert [inverse-undoes-matrix] e == q
//@   let d = r.Evaluate(m.MulPosition(q))
//@   ensures [operand-at-preimage] d == sdf.Evaluate(q)
//@ end

//@ func ScaleUniform3D
//@   property C02
//@   id denotes
//@   forall q v3.Vec
//@   requires k > 0
//@   let d = r.Evaluate(q.MulScalar(k))
//@   ensures [distance-scales-by-k] d == k*sdf.Evaluate(q)
//@ end

//@ func ScaleUniform2D
//@   property C02
//@   id denotes
//@   forall q v2.Vec
//@   requires k > 0
//@   let d = r.Evaluate(q.MulScalar(k))
//@   ensures [distance-scales-by-k] d == k*sdf.Evaluate(q)
//@ end

//@ func Elongate3D
//@   property C02
//@   id denotes
//@   forall p v3.Vec
//@   let d = r.Evaluate(p)
//@   ensures [operand-at-p-minus-clamp] d == sdf.Evaluate(v3.Vec{elong(p.X, h.X), elong(p.Y, h.Y), elong(p.Z, h.Z)})
//@ end

//@ func Elongate2D
//@   property C02
//@   id denotes
//@   forall p v2.Vec
//@   let d = r.Evaluate(p)
//@   ensures [operand-at-p-minus-clamp] d == sdf.Evaluate(v2.Vec{elong(p.X, h.X), elong(p.Y, h.Y)})
//@ end

//@ func Cut3D
//@   property C02
//@   id denotes
//@   forall p v3.Vec
//@   requires n.X*n.X + n.Y*n.Y + n.Z*n.Z > 0
//@   let d = r.Evaluate(p)
//@   ensures [keeps-normal-side] d == max(-(p.Sub(a).Dot(n))/n.Length(), sdf.Evaluate(p))
//@ end

//@ func Cut2D
//@   property C02
//@   id denotes
//@   forall p v2.Vec
//@   requires v.X*v.X + v.Y*v.Y > 0
//@   let d = r.Evaluate(p)
//@   ensures [keeps-right-side] d == max(((p.Y-a.Y)*v.X - (p.X-a.X)*v.Y)/v.Length(), sdf.Evaluate(p))
//@ end

//@ func Offset3D
//@   property C02
//@   id denotes
//@   forall p v3.Vec
//@   let d = r.Evaluate(p)
//@   ensures [distance-minus-offset] d == sdf.Evaluate(p) - offset
//@ end

//@ func Offset2D
//@   property C02
//@   id denotes
//@   forall p v2.Vec
//@   let d = r.Evaluate(p)
//@   ensures [distance-minus-offset] d == sdf.Evaluate(p) - offset
//@ end

//@ func Shell3D
//@   property C02
//@   id denotes
//@   forall p v3.Vec
//@   let d = r.Evaluate(p)
//@   ensures [abs-distance-minus-half-thickness] isnil(err) ==> d == abs(sdf.Evaluate(p)) - thickness/2
//@ end

//@ func Extrude3D
//@   property C02
//@   id denotes
//@   forall p v3.Vec
//@   let d = r.Evaluate(p)
//@   ensures [profile-intersect-slab] d == max(sdf.Evaluate(v2.Vec{p.X, p.Y}), abs(p.Z) - height/2)
//@ end

//@ func TwistExtrude3D
//@   property C02
//@   id denotes
//@   forall p v3.Vec
//@   requires height > 0
//@   let d = r.Evaluate(p)
//@   ensures [profile-rotated-by-plus-z-twist-over-height] d == max(sdf.Evaluate(v2.Vec{cos(p.Z*(twist/height))*p.X - sin(p.Z*(twist/height))*p.Y, sin(p.Z*(twist/height))*p.X + cos(p.Z*(twist/height))*p.Y}), abs(p.Z) - height/2)
//@ end

//@ func ScaleExtrude3D
//@   property C02
//@   id denotes
//@   forall p v3.Vec
//@   requires height > 0 && scale.X > 0 && scale.Y > 0
//@   let d = r.Evaluate(p)
//@   ensures [profile-scaled-linearly-in-z] d == max(sdf.Evaluate(v2.Vec{p.X*sfac(scale.X, height, p.Z), p.Y*sfac(scale.Y, height, p.Z)}), abs(p.Z) - height/2)
//@   ensures [scale-one-at-bottom] sfac(scale.X, height, -height/2) == 1 && sfac(scale.Y, height, -height/2) == 1
//@   ensures [scale-at-top] sfac(scale.X, height, height/2) == 1/scale.X && sfac(scale.Y, height, height/2) == 1/scale.Y
//@ end

//@ func ScaleTwistExtrude3D
//@   property C02
//@   id denotes
//@   forall p v3.Vec
//@   requires height > 0 && scale.X > 0 && scale.Y > 0
//@   let d = r.Evaluate(p)
//@   ensures [scaled-then-twisted] d == max(sdf.Evaluate(v2.Vec{cos(p.Z*(twist/height))*(p.X*sfac(scale.X, height, p.Z)) - sin(p.Z*(twist/height))*(p.Y*sfac(scale.Y, height, p.Z)), sin(p.Z*(twist/height))*(p.X*sfac(scale.X, height, p.Z)) + cos(p.Z*(twist/height))*(p.Y*sfac(scale.Y, height, p.Z))}), abs(p.Z) - height/2)
//@ end

//@ func ExtrudeRounded3D
//@   property C02
//@   id denotes
//@   forall p v3.Vec
//@   requires round > 0
//@   let d = r.Evaluate(p)
//@   ensures [round-combine-minus-round] isnil(err) ==> d == rcomb(sdf.Evaluate(v2.Vec{p.X, p.Y}), abs(p.Z) - (height/2 - round)) - round
//@ end

//@ func Loft3D
//@   property C02
//@   id denotes
//@   forall p v3.Vec
//@   requires height > 2*round
//@   let d = r.Evaluate(p)
//@   ensures [mix-then-round-combine] isnil(err) ==> d == rcomb(sdf0.Evaluate(v2.Vec{p.X, p.Y}) + clamp01(0.5*p.Z/(height/2 - round) + 0.5)*(sdf1.Evaluate(v2.Vec{p.X, p.Y}) - sdf0.Evaluate(v2.Vec{p.X, p.Y})), abs(p.Z) - (height/2 - round)) - round
//@ end

//@ func Revolve3D
//@   property C02
//@   id denotes
//@   forall p v3.Vec
//@   let d = r.Evaluate(p)
//@   ensures [profile-at-radius-and-height] isnil(err) ==> d == sdf.Evaluate(v2.Vec{sqrt(p.X*p.X + p.Y*p.Y), p.Z})
//@ end

//@ func RevolveTheta3D
//@   property C02
//@   id denotes
//@   opt trig-quadrants
//@   forall p v3.Vec
//@   requires 0 < theta && theta < 2*PI
//@   let d = r.Evaluate(p)
//@   let a = sdf.Evaluate(v2.Vec{sqrt(p.X*p.X + p.Y*p.Y), p.Z})
//@   ensures [acute-wedge-is-intersection-of-half-planes] isnil(err) && theta < PI ==> (d < 0 <==> a < 0 && p.Y > 0 && p.X*sin(theta) - p.Y*cos(theta) > 0)
//@   ensures [reflex-wedge-is-union-of-half-planes] isnil(err) && theta >= PI ==> (d < 0 <==> a < 0 && (p.Y > 0 || p.X*sin(theta) - p.Y*cos(theta) > 0))
//@ end

//@ func Slice2D
//@   property C02
//@   id denotes
//@   forall p v2.Vec
//@   requires n.X*n.X + n.Y*n.Y + n.Z*n.Z > 0
//@   let d = r.Evaluate(p)
//@   ensures [operand-on-plane-point] d == sdf.Evaluate(a.Add(r.u.MulScalar(p.X)).Add(r.v.MulScalar(p.Y)))
//@   ensures [axes-unit] r.u.Length2() == 1 && r.v.Length2() == 1
//@   ensures [axes-orthogonal] r.u.Dot(r.v) == 0
//@   ensures [axes-in-plane] r.u.Dot(n) == 0 && r.v.Dot(n) == 0
//@ end

//-----------------------------------------------------------------------------
// C03: exact primitives equal the independent closed-form Euclidean signed
// distance; distance-preserving operators keep the 1-Lipschitz property.

//@ spec boxsd2(dx real, dy real) = sqrt(sq(max(dx, 0)) + sq(max(dy, 0))) + min(max(dx, dy), 0)
//@ spec boxsd3(dx real, dy real, dz real) = sqrt(sq(max(dx, 0)) + sq(max(dy, 0)) + sq(max(dz, 0))) + min(max(dx, dy, dz), 0)
//@ spec lip2(s SDF2, a v2.Vec, b v2.Vec) = sq(s.Evaluate(a) - s.Evaluate(b)) <= a.Sub(b).Length2()
//@ spec lip3(s SDF3, a v3.Vec, b v3.Vec) = sq(s.Evaluate(a) - s.Evaluate(b)) <= a.Sub(b).Length2()

//@ func Sphere3D
//@   property C03
//@   id EXACT
//@   forall p v3.Vec
//@   let d = r.Evaluate(p)
//@   ensures [euclidean] isnil(err) ==> d == sqrt(p.X*p.X + p.Y*p.Y + p.Z*p.Z) - radius
//@ end

//@ func Circle2D
//@   property C03
//@   id EXACT
//@   forall p v2.Vec
//@   let d = r.Evaluate(p)
//@   ensures [euclidean] isnil(err) ==> d == sqrt(p.X*p.X + p.Y*p.Y) - radius
//@ end

//@ func Box3D
//@   property C03
//@   id EXACT
//@   forall p v3.Vec
//@   requires 2*round <= size.X && 2*round <= size.Y && 2*round <= size.Z
//@   let d = r.Evaluate(p)
//@   ensures [euclidean-to-inset-box-minus-round] isnil(err) ==> d == boxsd3(abs(p.X) - (size.X/2 - round), abs(p.Y) - (size.Y/2 - round), abs(p.Z) - (size.Z/2 - round)) - round
//@ end

//@ func Box2D
//@   property C03
//@   id EXACT
//@   forall p v2.Vec
//@   requires size.X > 0 && size.Y > 0 && round >= 0 && 2*round <= size.X && 2*round <= size.Y
//@   let d = r.Evaluate(p)
//@   ensures [euclidean-to-inset-box-minus-round] d == boxsd2(abs(p.X) - (size.X/2 - round), abs(p.Y) - (size.Y/2 - round)) - round
//@ end

//@ func Line2D
//@   property C03
//@   id EXACT
//@   forall p v2.Vec
//@   requires l >= 0 && round >= 0
//@   let d = r.Evaluate(p)
//@   ensures [distance-to-segment-minus-round] d == sqrt(sq(max(abs(p.X) - l/2, 0)) + sq(p.Y)) - round
//@ end

//@ func Cylinder3D
//@   property C03
//@   id EXACT
//@   forall p v3.Vec
//@   let d = r.Evaluate(p)
//@   ensures [euclidean-in-meridian-plane] isnil(err) ==> d == boxsd2(sqrt(p.X*p.X + p.Y*p.Y) - (radius - round), abs(p.Z) - (height/2 - round)) - round
//@ end

//@ func Capsule3D
//@   property C03
//@   id EXACT
//@   forall p v3.Vec
//@   let d = r.Evaluate(p)
//@   ensures [euclidean-in-meridian-plane] isnil(err) ==> d == boxsd2(sqrt(p.X*p.X + p.Y*p.Y), abs(p.Z) - (height/2 - radius)) - radius
//@ end

// --- Lipschitz preservation (two-point form)

//@ func Difference3D
//@   property C03
//@   id LIP
//@   forall p v3.Vec, q v3.Vec
//@   requires forall a v3.Vec, b v3.Vec :: lip3(s0, a, b)
//@   requires forall a v3.Vec, b v3.Vec :: lip3(s1, a, b)
//@   let dp = r.Evaluate(p)
//@   let dq = r.Evaluate(q)
//@   ensures [one-lipschitz] sq(dp - dq) <= p.Sub(q).Length2()
//@ end

//@ func Intersect3D
//@   property C03
//@   id LIP
//@   forall p v3.Vec, q v3.Vec
//@   requires forall a v3.Vec, b v3.Vec :: lip3(s0, a, b)
//@   requires forall a v3.Vec, b v3.Vec :: lip3(s1, a, b)
//@   let dp = r.Evaluate(p)
//@   let dq = r.Evaluate(q)
//@   ensures [one-lipschitz] sq(dp - dq) <= p.Sub(q).Length2()
//@ end

//@ func Difference2D
//@   property C03
//@   id LIP
//@   forall p v2.Vec, q v2.Vec
//@   requires forall a v2.Vec, b v2.Vec :: lip2(s0, a, b)
//@   requires forall a v2.Vec, b v2.Vec :: lip2(s1, a, b)
//@   let dp = r.Evaluate(p)
//@   let dq = r.Evaluate(q)
//@   ensures [one-lipschitz] sq(dp - dq) <= p.Sub(q).Length2()
//@ end

//@ func Intersect2D
//@   property C03
//@   id LIP
//@   forall p v2.Vec, q v2.Vec
//@   requires forall a v2.Vec, b v2.Vec :: lip2(s0, a, b)
//@   requires forall a v2.Vec, b v2.Vec :: lip2(s1, a, b)
//@   let dp = r.Evaluate(p)
//@   let dq = r.Evaluate(q)
//@   ensures [one-lipschitz] sq(dp - dq) <= p.Sub(q).Length2()
//@ end

//@ lemma union3d_lip(s0 SDF3, s1 SDF3, p v3.Vec, q v3.Vec)
//@   property C03
//@   requires forall a v3.Vec, b v3.Vec :: lip3(s0, a, b)
//@   requires forall a v3.Vec, b v3.Vec :: lip3(s1, a, b)
//@   let u = Union3D(s0, s1)
//@   let dp = u.Evaluate(p)
//@   let dq = u.Evaluate(q)
//@   ensures [one-lipschitz] sq(dp - dq) <= p.Sub(q).Length2()
//@ end

//@ lemma polymin_lip(a1 real, b1 real, a2 real, b2 real, k real)
//@   property C03
//@   requires k > 0
//@   cases b1 - a1 >= k
//@   cases b1 - a1 <= -k
//@   cases b2 - a2 >= k
//@   cases b2 - a2 <= -k
//@   ensures [sup-norm-lipschitz] abs(PolyMin(k)(a1, b1) - PolyMin(k)(a2, b2)) <= max(abs(a1 - a2), abs(b1 - b2))
//@ end

//@ lemma polymax_lip(a1 real, b1 real, a2 real, b2 real, k real)
//@   property C03
//@   requires k > 0
//@   cases b1 - a1 >= k
//@   cases b1 - a1 <= -k
//@   cases b2 - a2 >= k
//@   cases b2 - a2 <= -k
//@   ensures [sup-norm-lipschitz] abs(PolyMax(k)(a1, b1) - PolyMax(k)(a2, b2)) <= max(abs(a1 - a2), abs(b1 - b2))
//@ end

//@ lemma lagrange3(u v3.Vec, v v3.Vec)
//@   property C03
//@   ensures [lagrange-identity] u.Length2()*v.Length2() - sq(u.Dot(v)) == u.Cross(v).Length2()
//@ end

//@ lemma union3d_polymin_lip(s0 SDF3, s1 SDF3, k real, p v3.Vec, q v3.Vec)
//@   property C03
//@   requires k > 0
//@   requires forall a v3.Vec, b v3.Vec :: lip3(s0, a, b)
//@   requires forall a v3.Vec, b v3.Vec :: lip3(s1, a, b)
//@   let u = Union3D(s0, s1)
//@   do u.SetMin(PolyMin(k))
//@   let dp = u.Evaluate(p)
//@   let dq = u.Evaluate(q)
//@   assert [is-polymin-of-operands] dp == PolyMin(k)(s0.Evaluate(p), s1.Evaluate(p)) && dq == PolyMin(k)(s0.Evaluate(q), s1.Evaluate(q))
//@   use polymin_lip(s0.Evaluate(p), s1.Evaluate(p), s0.Evaluate(q), s1.Evaluate(q), k)
//@   generalize dp
//@   generalize dq
//@   ensures [one-lipschitz] sq(dp - dq) <= p.Sub(q).Length2()
//@ end

//@ lemma difference3d_polymax_lip(s0 SDF3, s1 SDF3, k real, p v3.Vec, q v3.Vec)
//@   property C03
//@   requires k > 0
//@   requires forall a v3.Vec, b v3.Vec :: lip3(s0, a, b)
//@   requires forall a v3.Vec, b v3.Vec :: lip3(s1, a, b)
//@   let u = Difference3D(s0, s1)
//@   do u.SetMax(PolyMax(k))
//@   let dp = u.Evaluate(p)
//@   let dq = u.Evaluate(q)
//@   assert [is-polymax-of-operands] dp == PolyMax(k)(s0.Evaluate(p), -s1.Evaluate(p)) && dq == PolyMax(k)(s0.Evaluate(q), -s1.Evaluate(q))
//@   use polymax_lip(s0.Evaluate(p), -s1.Evaluate(p), s0.Evaluate(q), -s1.Evaluate(q), k)
//@   generalize dp
//@   generalize dq
//@   ensures [one-lipschitz] sq(dp - dq) <= p.Sub(q).Length2()
//@ end

//@ func Cut3D
//@   property C03
//@   id LIP
//@   forall p v3.Vec, q v3.Vec
//@   requires n.X*n.X + n.Y*n.Y + n.Z*n.Z > 0
//@   requires forall a v3.Vec, b v3.Vec :: lip3(sdf, a, b)
//@   let dp = r.Evaluate(p)
//@   let dq = r.Evaluate(q)
//@   let nn = r.n
//@   assert [unit-normal] nn.Length2() == 1
//@   generalize nn
//@   let v = p.Sub(q)
//@   let dt = nn.Dot(v)
//@   let cr = nn.Cross(v)
//@   let pp = p.Sub(a).Dot(nn)
//@   let pq = q.Sub(a).Dot(nn)
//@   assert [plane-difference-is-dot] pp - pq == dt
//@   use lagrange3(nn, v)
//@   generalize dt
//@   generalize cr
//@   generalize pp
//@   generalize pq
//@   assert [cauchy-schwarz] sq(dt) <= v.Length2()
//@   ensures [one-lipschitz] sq(dp - dq) <= p.Sub(q).Length2()
//@ end

//@ func Offset3D
//@   property C03
//@   id LIP
//@   forall p v3.Vec, q v3.Vec
//@   requires forall a v3.Vec, b v3.Vec :: lip3(sdf, a, b)
//@   let dp = r.Evaluate(p)
//@   let dq = r.Evaluate(q)
//@   ensures [one-lipschitz] sq(dp - dq) <= p.Sub(q).Length2()
//@ end

//@ func Shell3D
//@   property C03
//@   id LIP
//@   forall p v3.Vec, q v3.Vec
//@   requires forall a v3.Vec, b v3.Vec :: lip3(sdf, a, b)
//@   let dp = r.Evaluate(p)
//@   let dq = r.Evaluate(q)
//@   ensures [one-lipschitz] isnil(err) ==> sq(dp - dq) <= p.Sub(q).Length2()
//@ end

//@ func Elongate3D
//@   property C03
//@   id LIP
//@   forall p v3.Vec, q v3.Vec
//@   requires forall a v3.Vec, b v3.Vec :: lip3(sdf, a, b)
//@   let dp = r.Evaluate(p)
//@   let dq = r.Evaluate(q)
//@   let ep = p.Sub(p.Clamp(r.hn, r.hp))
//@   let eq = q.Sub(q.Clamp(r.hn, r.hp))
//@   assert [x-nonexpansive] sq(ep.X - eq.X) <= sq(p.X - q.X)
//@   assert [y-nonexpansive] sq(ep.Y - eq.Y) <= sq(p.Y - q.Y)
//@   assert [z-nonexpansive] sq(ep.Z - eq.Z) <= sq(p.Z - q.Z)
//@   generalize ep
//@   generalize eq
//@   ensures [one-lipschitz] sq(dp - dq) <= p.Sub(q).Length2()
//@ end

//@ func Extrude3D
//@   property C03
//@   id LIP
//@   forall p v3.Vec, q v3.Vec
//@   requires forall a v2.Vec, b v2.Vec :: lip2(sdf, a, b)
//@   let dp = r.Evaluate(p)
//@   let dq = r.Evaluate(q)
//@   ensures [one-lipschitz] sq(dp - dq) <= p.Sub(q).Length2()
//@ end

//@ func ScaleUniform3D
//@   property C03
//@   id LIP
//@   forall p v3.Vec, q v3.Vec
//@   requires k > 0
//@   requires forall a v3.Vec, b v3.Vec :: lip3(sdf, a, b)
//@   let dp = r.Evaluate(p)
//@   let dq = r.Evaluate(q)
//@   ensures [one-lipschitz] sq(dp - dq) <= p.Sub(q).Length2()
//@ end

//@ lemma lagrange2(a real, b real, c real, d real)
//@   property C03
//@   ensures [lagrange-identity] (sq(a) + sq(b))*(sq(c) + sq(d)) - sq(a*c + b*d) == sq(a*d - b*c)
//@ end

//@ func Revolve3D
//@   property C03
//@   id LIP
//@   forall p v3.Vec, q v3.Vec
//@   requires forall a v2.Vec, b v2.Vec :: lip2(sdf, a, b)
//@   let dp = r.Evaluate(p)
//@   let dq = r.Evaluate(q)
//@   let rp = sqrt(p.X*p.X + p.Y*p.Y)
//@   let rq = sqrt(q.X*q.X + q.Y*q.Y)
//@   assert [radii] rp >= 0 && rq >= 0 && sq(rp) == sq(p.X) + sq(p.Y) && sq(rq) == sq(q.X) + sq(q.Y)
//@   use lagrange2(p.X, p.Y, q.X, q.Y)
//@   generalize rp
//@   generalize rq
//@   assert [cauchy-schwarz] sq(p.X*q.X + p.Y*q.Y) <= sq(rp*rq)
//@   assert [dot-below-product-of-radii] p.X*q.X + p.Y*q.Y <= rp*rq
//@   assert [radius-map-is-nonexpansive] sq(rp - rq) <= sq(p.X - q.X) + sq(p.Y - q.Y)
//@   assert [lipschitz-instance] isnil(err) ==> sq(dp - dq) <= sq(rp - rq) + sq(p.Z - q.Z)
//@   focus radius-map-is-nonexpansive lipschitz-instance
//@   ensures [one-lipschitz] isnil(err) ==> sq(dp - dq) <= p.Sub(q).Length2()
//@ end

//-----------------------------------------------------------------------------
// C05 / C08: the degeneracy filter of the mesh generators rejects exactly the
// elements with two identical vertices

//@ func Triangle3.Degenerate
//@   property C05
//@   requires tolerance == 0
//@   ensures [iff-two-vertices-equal] r <==> (t[0] == t[1] || t[1] == t[2] || t[2] == t[0])
//@ end

//@ func Line2.Degenerate
//@   property C08
//@   requires tolerance == 0
//@   ensures [iff-end-points-equal] r <==> a[0] == a[1]
//@ end

//-----------------------------------------------------------------------------
// C03: truncated cone. Layer A: Evaluate equals the signed Euclidean distance
// in the meridian half plane to the (inset) trapezoid (0,-h) (r0,-h) (r1,h)
// (0,h), minus round, under the struct invariant. Layer B: the constructor
// establishes that invariant and the inset that makes the rounded surface pass
// through the nominal radii.

//@ spec segt(px real, py real, ax real, ay real, bx real, by real) = clamp01(((px-ax)*(bx-ax) + (py-ay)*(by-ay)) / (sq(bx-ax) + sq(by-ay)))
//@ spec segd2(px real, py real, ax real, ay real, bx real, by real) = sq(px - ax - segt(px, py, ax, ay, bx, by)*(bx-ax)) + sq(py - ay - segt(px, py, ax, ay, bx, by)*(by-ay))
//@ spec trapin(rho real, z real, r0 real, r1 real, h real) = -h < z && z < h && (rho - r0)*(2*h) < (r1 - r0)*(z + h)
//@ spec trapd2(rho real, z real, r0 real, r1 real, h real) = min(segd2(rho, z, 0, -h, r0, -h), segd2(rho, z, r0, -h, r1, h), segd2(rho, z, r1, h, 0, h))

//@ func ConeSDF3.Evaluate
//@   property C03
//@   id EXACT
//@   opt thorough
//@   requires s.height > 0 && s.r0 > 0 && s.r1 > 0 && s.l > 0
//@   requires s.l*s.l == sq(s.r1 - s.r0) + sq(2*s.height)
//@   requires s.u.X*s.l == s.r1 - s.r0 && s.u.Y*s.l == 2*s.height
//@   requires s.n.X == s.u.Y && s.n.Y == -s.u.X
//@   let rho = sqrt(p.X*p.X + p.Y*p.Y)
//@   ensures [inside-negative] trapin(rho, p.Z, s.r0, s.r1, s.height) ==> r + s.round <= 0 && sq(r + s.round) == trapd2(rho, p.Z, s.r0, s.r1, s.height)
//@   ensures [outside-positive] !trapin(rho, p.Z, s.r0, s.r1, s.height) ==> r + s.round >= 0 && sq(r + s.round) == trapd2(rho, p.Z, s.r0, s.r1, s.height)
//@ end

//@ func Cone3D
//@   property C03
//@   id invariant
//@   requires r0 > 0 && r1 > 0
//@   ensures [half-height] isnil(err) ==> r.height == height/2 - round && r.round == round
//@   ensures [slope-unit] isnil(err) ==> r.u.Length2() == 1 && r.u.Y > 0
//@   ensures [slope-direction] isnil(err) ==> r.u.X*height == r.u.Y*(r1 - r0)
//@   ensures [normal] isnil(err) ==> r.n.X == r.u.Y && r.n.Y == -r.u.X
//@   ensures [slope-length-of-inset-trapezoid] isnil(err) ==> r.l >= 0 && sq(r.l) == sq(r.r1 - r.r0) + sq(2*r.height)
//@   ensures [inset-slope-parallel-to-nominal] isnil(err) ==> (r.r1 - r.r0)*height == (r1 - r0)*(2*r.height)
//@   ensures [offset-surface-through-nominal-base-radius] isnil(err) ==> r.r0 + round*(1 + r.n.Y)/r.n.X == r0
//@   ensures [offset-surface-through-nominal-top-radius] isnil(err) ==> r.r1 + round*(1 - r.n.Y)/r.n.X == r1
//@ end

//-----------------------------------------------------------------------------
// C02: the evaluation cache returns the wrapped shape's own values for every
// query history. Data-structure invariant: every cached entry is the wrapped
// shape's value at its key.

//@ func Cache2D
//@   property C02
//@   id invariant-established
//@   forall k v2.Vec
//@   ensures [fresh-cache-is-empty] !maphas(r.cache, k)
//@   ensures [wraps-the-operand] r.sdf == sdf
//@ end

//@ func CacheSDF2.Evaluate
//@   property C02
//@   id returns-wrapped-values
//@   requires forall k v2.Vec :: maphas(s.cache, k) ==> mapval(s.cache, k) == s.sdf.Evaluate(k)
//@   ensures [value-of-wrapped-shape] r == s.sdf.Evaluate(p)
//@   ensures [invariant-preserved] forall k v2.Vec :: maphas(s.cache, k) ==> mapval(s.cache, k) == s.sdf.Evaluate(k)
//@ end

//@ func CacheSDF2.BoundingBox
//@   property C02
//@   id returns-wrapped-box
//@   ensures [box-of-wrapped-shape] r == s.sdf.BoundingBox()
//@ end

//-----------------------------------------------------------------------------
// C11: nothing written to a buffer is lost, duplicated or reordered.
// Abstract view of a buffer = concatenation of the batches sent so far ++ buf;
// Write appends its input to the view, Close moves buf into the sent part.

//@ func Triangle3Buffer.Write
//@   property C11
//@   id view
//@   requires len(a.buf) >= 0 && len(a.buf) < 256
//@   ensures [no-flush-below-threshold] old(len(a.buf)) + len(in) < 256 ==> nsent() == 0 && len(a.buf) == old(len(a.buf)) + len(in)
//@   ensures [no-flush-keeps-buffered-prefix] forall i int :: old(len(a.buf)) + len(in) < 256 && 0 <= i && i < old(len(a.buf)) ==> a.buf[i] == old(a.buf[i])
//@   ensures [no-flush-appends-input-in-order] forall i int :: old(len(a.buf)) + len(in) < 256 && 0 <= i && i < len(in) ==> a.buf[old(len(a.buf)) + i] == in[i]
//@   ensures [flush-sends-exactly-one-batch] old(len(a.buf)) + len(in) >= 256 ==> nsent() == 1 && len(sent(0)) == old(len(a.buf)) + len(in) && len(a.buf) == 0
//@   ensures [flushed-batch-starts-with-buffered-items] forall i int :: old(len(a.buf)) + len(in) >= 256 && 0 <= i && i < old(len(a.buf)) ==> sent(0)[i] == old(a.buf[i])
//@   ensures [flushed-batch-continues-with-input-in-order] forall i int :: old(len(a.buf)) + len(in) >= 256 && 0 <= i && i < len(in) ==> sent(0)[old(len(a.buf)) + i] == in[i]
//@   ensures [buffer-after-flush-is-fresh] old(len(a.buf)) + len(in) >= 256 ==> !samecell(a.buf, sent(0))
//@   ensures [returns-nil] isnil(r)
//@ end

//@ func Triangle3Buffer.Close
//@   property C11
//@   id view
//@   requires len(a.buf) >= 0
//@   ensures [flushes-the-remainder] old(len(a.buf)) != 0 ==> nsent() == 1 && len(sent(0)) == old(len(a.buf)) && len(a.buf) == 0
//@   ensures [remainder-in-order] forall i int :: old(len(a.buf)) != 0 && 0 <= i && i < old(len(a.buf)) ==> sent(0)[i] == old(a.buf[i])
//@   ensures [nothing-sent-when-empty] old(len(a.buf)) == 0 ==> nsent() == 0 && len(a.buf) == 0
//@   ensures [returns-nil] isnil(r)
//@ end

//@ func NewTriangle3Buffer
//@   property C11
//@   id view
//@   ensures [starts-empty] len(r.buf) == 0 && nsent() == 0
//@ end

//@ func Line2Buffer.Write
//@   property C11
//@   id view
//@   requires len(a.buf) >= 0 && len(a.buf) < 128
//@   ensures [no-flush-below-threshold] old(len(a.buf)) + len(in) < 128 ==> nsent() == 0 && len(a.buf) == old(len(a.buf)) + len(in)
//@   ensures [no-flush-keeps-buffered-prefix] forall i int :: old(len(a.buf)) + len(in) < 128 && 0 <= i && i < old(len(a.buf)) ==> a.buf[i] == old(a.buf[i])
//@   ensures [no-flush-appends-input-in-order] forall i int :: old(len(a.buf)) + len(in) < 128 && 0 <= i && i < len(in) ==> a.buf[old(len(a.buf)) + i] == in[i]
//@   ensures [flush-sends-exactly-one-batch] old(len(a.buf)) + len(in) >= 128 ==> nsent() == 1 && len(sent(0)) == old(len(a.buf)) + len(in) && len(a.buf) == 0
//@   ensures [flushed-batch-starts-with-buffered-items] forall i int :: old(len(a.buf)) + len(in) >= 128 && 0 <= i && i < old(len(a.buf)) ==> sent(0)[i] == old(a.buf[i])
//@   ensures [flushed-batch-continues-with-input-in-order] forall i int :: old(len(a.buf)) + len(in) >= 128 && 0 <= i && i < len(in) ==> sent(0)[old(len(a.buf)) + i] == in[i]
//@   ensures [buffer-after-flush-is-fresh] old(len(a.buf)) + len(in) >= 128 ==> !samecell(a.buf, sent(0))
//@   ensures [returns-nil] isnil(r)
//@ end

//@ func Line2Buffer.Close
//@   property C11
//@   id view
//@   requires len(a.buf) >= 0
//@   ensures [flushes-the-remainder] old(len(a.buf)) != 0 ==> nsent() == 1 && len(sent(0)) == old(len(a.buf)) && len(a.buf) == 0
//@   ensures [remainder-in-order] forall i int :: old(len(a.buf)) != 0 && 0 <= i && i < old(len(a.buf)) ==> sent(0)[i] == old(a.buf[i])
//@   ensures [nothing-sent-when-empty] old(len(a.buf)) == 0 ==> nsent() == 0 && len(a.buf) == 0
//@   ensures [returns-nil] isnil(r)
//@ end

//@ func NewLine2Buffer
//@   property C11
//@   id view
//@   ensures [starts-empty] len(r.buf) == 0 && nsent() == 0
//@ end

//@ func WriteTriangles$1
//@   property C11
//@   id collector
//@   invariant 0 true
//@   invariant 1 rangeindex >= -1 && rangeindex < len(ts) && len(*triangles) == pre(len(*triangles)) + rangeindex + 1
//@   invariant 1 forall k int :: 0 <= k && k < pre(len(*triangles)) ==> (*triangles)[k] == pre((*triangles)[k])
//@   invariant 1 forall k int :: 0 <= k && k <= rangeindex ==> (*triangles)[pre(len(*triangles)) + k] == ts[k]
//@   ensures [returns] true
//@ end

//-----------------------------------------------------------------------------
// C13: the facet normal written to STL files

//@ func Triangle3.Normal
//@   property C13
//@   requires t[1].Sub(t[0]).Cross(t[2].Sub(t[0])).Length2() > 0
//@   ensures [unit-length] r.Length2() == 1
//@   ensures [perpendicular-to-first-edge] r.Dot(t[1].Sub(t[0])) == 0
//@   ensures [perpendicular-to-second-edge] r.Dot(t[2].Sub(t[0])) == 0
//@   ensures [right-hand-rule] r.Dot(t[1].Sub(t[0]).Cross(t[2].Sub(t[0]))) > 0
//@ end

//-----------------------------------------------------------------------------
// C18: unit conversion, the sawtooth that makes the thread periodic, and the
// helical mapping of the screw.

//@ func ThreadParameters.ToMillimetre
//@   property C18
//@   ensures [already-metric-is-returned-unchanged] t.Units == "mm" ==> r == t
//@   ensures [lengths-scaled-by-25.4] t.Units != "mm" ==> r.Radius == t.Radius*25.4 && r.Pitch == t.Pitch*25.4 && r.HexFlat2Flat == t.HexFlat2Flat*25.4
//@   ensures [angle-and-name-kept] r.Taper == t.Taper && r.Name == t.Name
//@   ensures [result-is-metric-hence-a-second-conversion-returns-it-unchanged] r.Units == "mm"
//@ end

//@ func SawTooth
//@   property C18
//@   id range
//@   requires period > 0
//@   ensures [at-least-minus-half-period] -period/2 <= r
//@   ensures [below-half-period] r < period/2
//@   ensures [differs-from-x-by-a-multiple-of-the-period] real(floor((x + period/2)/period))*period == x - r
//@ end

//@ lemma sawtooth_periodic(x real, period real, n int)
//@   property C18
//@   requires period > 0
//@   let a = SawTooth(x + real(n)*period, period)
//@   let b = SawTooth(x, period)
//@   let tq = (x + real(n)*period + period/2)/period
//@   let q = (x + period/2)/period
//@   assert [shifted-quotient] tq == q + real(n)
//@   generalize tq
//@   generalize q
//@   ensures [period-invariant] SawTooth(x + real(n)*period, period) == SawTooth(x, period)
//@ end

//@ func Screw3D
//@   property C18 C02
//@   id handedness
//@   ensures [lead-is-minus-pitch-times-starts] isnil(err) ==> r.lead == -pitch*real(starts) && r.pitch == pitch && r.length == length/2 && r.taper == taper
//@ end

//@ func ScrewSDF3.Evaluate
//@   property C18 C02
//@   id denotes
//@   requires s.taper == 0 && s.pitch > 0
//@   ensures [thread-profile-on-the-helix-within-the-length] r == max(s.thread.Evaluate(v2.Vec{SawTooth(p.Z + s.lead*math.Atan2(p.Y, p.X)/Tau, s.pitch), sqrt(p.X*p.X + p.Y*p.Y)}), abs(p.Z) - s.length)
//@ end

//@ lemma screw_z_periodic(s *ScrewSDF3, p v3.Vec)
//@   property C18
//@   requires s.taper == 0 && s.pitch > 0
//@   requires abs(p.Z) <= s.length && abs(p.Z + s.pitch) <= s.length
//@   use sawtooth_periodic(p.Z + s.lead*math.Atan2(p.Y, p.X)/Tau, s.pitch, 1)
//@   ensures [thread-term-periodic-in-z] s.Evaluate(v3.Vec{p.X, p.Y, p.Z + s.pitch}) <= 0 <==> s.Evaluate(p) <= 0
//@ end

//-----------------------------------------------------------------------------
// C16: the 2D union's box-pruned Evaluate against evaluating every operand.
// Operand assumptions (what "an operand with its surface in its box" means):
//   l2: outside its box an operand is non-negative and at least as far as the box
//   up: an operand is non-positive or no farther than the farthest box corner
// BOUNDED: proved for unions of exactly 2 and exactly 3 operands (loops unroll
// on the concrete operand count); the statement for arbitrary operand counts
// needs the loop-invariant form and is not claimed.

//@ spec l2(s SDF2, q v2.Vec) = !s.BoundingBox().Contains(q) ==> s.Evaluate(q) >= 0 && sq(s.Evaluate(q)) >= s.BoundingBox().MinMaxDist2(q)[0]
//@ spec up(s SDF2, q v2.Vec) = s.Evaluate(q) <= 0 || sq(s.Evaluate(q)) <= s.BoundingBox().MinMaxDist2(q)[1]

//@ lemma union2d_pruned_equals_exhaustive_2(a SDF2, b SDF2, p v2.Vec)
//@   property C16
//@   requires ord2(a.BoundingBox()) && ord2(b.BoundingBox())
//@   requires forall q v2.Vec :: l2(a, q) && up(a, q)
//@   requires forall q v2.Vec :: l2(b, q) && up(b, q)
//@   let u = Union2D(a, b)
//@   let va = merged(a.BoundingBox().MinMaxDist2(p))
//@   let vb = merged(b.BoundingBox().MinMaxDist2(p))
//@   assert [a-min-zero-inside-box] a.BoundingBox().Contains(p) ==> va[0] == 0
//@   assert [a-interval-ordered] 0 <= va[0] && va[0] <= va[1]
//@   assert [b-min-zero-inside-box] b.BoundingBox().Contains(p) ==> vb[0] == 0
//@   assert [b-interval-ordered] 0 <= vb[0] && vb[0] <= vb[1]
//@   generalize va
//@   generalize vb
//@   let fast = u.Evaluate(p)
//@   ensures [pruned-is-the-minimum] fast == min(a.Evaluate(p), b.Evaluate(p))
//@   ensures [exhaustive-is-the-minimum] u.EvaluateSlow(p) == min(a.Evaluate(p), b.Evaluate(p))
//@ end

//@ lemma union2d_pruned_equals_exhaustive_3(a SDF2, b SDF2, c SDF2, p v2.Vec)
//@   property C16
//@   requires ord2(a.BoundingBox()) && ord2(b.BoundingBox()) && ord2(c.BoundingBox())
//@   requires forall q v2.Vec :: l2(a, q) && up(a, q)
//@   requires forall q v2.Vec :: l2(b, q) && up(b, q)
//@   requires forall q v2.Vec :: l2(c, q) && up(c, q)
//@   let u = Union2D(a, b, c)
//@   let va = merged(a.BoundingBox().MinMaxDist2(p))
//@   let vb = merged(b.BoundingBox().MinMaxDist2(p))
//@   let vc = merged(c.BoundingBox().MinMaxDist2(p))
//@   assert [a-min-zero-inside-box] a.BoundingBox().Contains(p) ==> va[0] == 0
//@   assert [a-interval-ordered] 0 <= va[0] && va[0] <= va[1]
//@   assert [b-min-zero-inside-box] b.BoundingBox().Contains(p) ==> vb[0] == 0
//@   assert [b-interval-ordered] 0 <= vb[0] && vb[0] <= vb[1]
//@   assert [c-min-zero-inside-box] c.BoundingBox().Contains(p) ==> vc[0] == 0
//@   assert [c-interval-ordered] 0 <= vc[0] && vc[0] <= vc[1]
//@   generalize va
//@   generalize vb
//@   generalize vc
//@   let fast = u.Evaluate(p)
//@   ensures [pruned-is-the-minimum] fast == min(a.Evaluate(p), b.Evaluate(p), c.Evaluate(p))
//@   ensures [exhaustive-is-the-minimum] u.EvaluateSlow(p) == min(a.Evaluate(p), b.Evaluate(p), c.Evaluate(p))
//@ end

//@ lemma union2d_blend_same_inside_outside_2(a SDF2, b SDF2, k real, p v2.Vec)
//@   property C16
//@   requires k > 0
//@   requires ord2(a.BoundingBox()) && ord2(b.BoundingBox())
//@   requires forall q v2.Vec :: l2(a, q) && up(a, q)
//@   requires forall q v2.Vec :: l2(b, q) && up(b, q)
//@   let u = Union2D(a, b)
//@   do u.SetMin(PolyMin(k))
//@   let fast = u.Evaluate(p)
//@   ensures [same-inside-outside-with-a-blend] fast < 0 <==> u.EvaluateSlow(p) < 0
//@ end
