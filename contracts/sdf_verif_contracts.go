//go:build verif

// Contracts for package sdf, checked by /verif (govc). Comment-only file: with
// the build tag off it does not exist for the compiler; with it on it adds
// nothing but a package clause.

package sdf

//@ spec clampd2(x real, lo real, hi real) = sq(x - max(lo, min(x, hi)))
//@ spec fard2(x real, lo real, hi real) = sq(max(abs(x-lo), abs(x-hi)))

//-----------------------------------------------------------------------------
// C16: point-to-box distance intervals are exact; intervals overlap iff they share a value

//@ func Box2.MinMaxDist2
//@   property C16
//@   requires a.Min.X <= a.Max.X && a.Min.Y <= a.Max.Y
//@   ensures [min] r[0] == clampd2(p.X, a.Min.X, a.Max.X) + clampd2(p.Y, a.Min.Y, a.Max.Y)
//@   ensures [max] r[1] == fard2(p.X, a.Min.X, a.Max.X) + fard2(p.Y, a.Min.Y, a.Max.Y)
//@ end

//@ func Box3.MinMaxDist2
//@   property C16
//@   requires a.Min.X <= a.Max.X && a.Min.Y <= a.Max.Y && a.Min.Z <= a.Max.Z
//@   assert sq(p.X-a.Min.X) <= sq(p.X-a.Max.X) <==> abs(p.X-a.Min.X) <= abs(p.X-a.Max.X)
//@   assert sq(p.Y-a.Min.Y) <= sq(p.Y-a.Max.Y) <==> abs(p.Y-a.Min.Y) <= abs(p.Y-a.Max.Y)
//@   assert sq(p.Z-a.Min.Z) <= sq(p.Z-a.Max.Z) <==> abs(p.Z-a.Min.Z) <= abs(p.Z-a.Max.Z)
//@   cases abs(p.X-a.Min.X) <= abs(p.X-a.Max.X)
//@   cases abs(p.Y-a.Min.Y) <= abs(p.Y-a.Max.Y)
//@   cases abs(p.Z-a.Min.Z) <= abs(p.Z-a.Max.Z)
//@   ensures [min] r[0] == clampd2(p.X, a.Min.X, a.Max.X) + clampd2(p.Y, a.Min.Y, a.Max.Y) + clampd2(p.Z, a.Min.Z, a.Max.Z)
//@   ensures [max] r[1] == fard2(p.X, a.Min.X, a.Max.X) + fard2(p.Y, a.Min.Y, a.Max.Y) + fard2(p.Z, a.Min.Z, a.Max.Z)
//@ end

//@ func Interval.Overlap
//@   property C16
//@   id sound
//@   forall v real
//@   requires a[0] <= a[1] && b[0] <= b[1]
//@   ensures [shared-value-implies-overlap] (a[0] <= v && v <= a[1] && b[0] <= v && v <= b[1]) ==> r
//@   ensures [overlap-implies-shared-value] r ==> (a[0] <= max(a[0], b[0]) && max(a[0], b[0]) <= a[1] && b[0] <= max(a[0], b[0]) && max(a[0], b[0]) <= b[1])
//@ end
