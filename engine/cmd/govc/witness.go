package main

// Recorded counterexamples ("witnesses"): concrete inputs on which the real
// code once violated a property - found by a replayed solver model, by a
// sub-agent's demonstration or while triaging - kept as small Go tests under
// /verif/witnesses/<property>/ and run against the current working tree on
// every check by overlay (nothing is written to the repository). They are
// concrete replays, not proofs: they make sure a repaired defect is reported
// again if it returns, and they reach what the real-arithmetic reading of
// float64 (assumption A1) cannot see - rounding in the last bit.

import (
	"encoding/json"
	"fmt"
	"os"
	"os/exec"
	"path/filepath"
	"regexp"
	"sort"
	"strings"
	"time"
)

var witnessHdr = regexp.MustCompile(`(?m)^// witness: pkg=(\S+) test=(\S+)\s*$`)
var witnessWhat = regexp.MustCompile(`(?m)^// what: (.*)$`)

func witnessChecks(e *Engine, prop string) []*groupResult {
	dir := filepath.Join(e.verif, "witnesses", prop)
	ents, err := os.ReadDir(dir)
	if err != nil {
		return nil
	}
	type wit struct {
		file, pkg, test, what string
	}
	byPkg := map[string][]wit{}
	var names []string
	for _, en := range ents {
		if !strings.HasSuffix(en.Name(), ".go.txt") {
			continue
		}
		names = append(names, en.Name())
	}
	sort.Strings(names)
	var out []*groupResult
	for _, n := range names {
		path := filepath.Join(dir, n)
		src, _ := os.ReadFile(path)
		m := witnessHdr.FindStringSubmatch(string(src))
		if m == nil {
			out = append(out, &groupResult{Name: "witness." + strings.TrimSuffix(n, ".go.txt"), Status: "undecided", Queries: 1, Backends: []string{"go test"}, Detail: "witness file lacks the '// witness: pkg=… test=…' header"})
			continue
		}
		w := wit{file: path, pkg: m[1], test: m[2]}
		if mm := witnessWhat.FindStringSubmatch(string(src)); mm != nil {
			w.what = mm[1]
		}
		byPkg[w.pkg] = append(byPkg[w.pkg], w)
	}
	var pkgs []string
	for p := range byPkg {
		pkgs = append(pkgs, p)
	}
	sort.Strings(pkgs)
	for _, pkg := range pkgs {
		ws := byPkg[pkg]
		tmp, err := os.MkdirTemp("", "govc-witness")
		if err != nil {
			continue
		}
		repl := map[string]string{}
		var pats []string
		for i, w := range ws {
			repl[filepath.Join(e.repo, pkg, fmt.Sprintf("zz_verif_witness_%d_test.go", i))] = w.file
			pats = append(pats, "^"+w.test+"$")
		}
		ov, _ := json.Marshal(map[string]interface{}{"Replace": repl})
		ovf := filepath.Join(tmp, "overlay.json")
		os.WriteFile(ovf, ov, 0o644)
		t0 := time.Now()
		cmd := exec.Command("go", "test", "-overlay", ovf, "-vet=off", "-count=1", "-timeout", "120s", "-v", "-run", strings.Join(pats, "|"), "./"+pkg)
		cmd.Dir = e.repo
		cmd.Env = append(os.Environ(), "GOFLAGS=-mod=mod", "GOPROXY=off", "GOSUMDB=off", "GOTOOLCHAIN=local")
		outb, _ := cmd.CombinedOutput()
		ms := time.Since(t0).Milliseconds()
		os.RemoveAll(tmp)
		txt := string(outb)
		for _, w := range ws {
			g := &groupResult{Name: "witness." + w.test, Queries: 1, Backends: []string{"go test -overlay (concrete replay of a recorded counterexample on the real code; not a proof)"}, Ms: ms / int64(len(ws)),
				What: w.what, replayFile: w.file}
			switch {
			case strings.Contains(txt, "--- PASS: "+w.test+" "):
				g.Status = "discharged"
			case strings.Contains(txt, "--- FAIL: "+w.test+" "):
				g.Status = "refuted"
				g.reproduced = true
				// keep the test's own log lines
				var keep []string
				for _, l := range strings.Split(txt, "\n") {
					if strings.Contains(l, "_test.go:") {
						keep = append(keep, strings.TrimSpace(l))
					}
				}
				if len(keep) > 6 {
					keep = keep[:6]
				}
				g.Detail = strings.Join(keep, " | ")
			default:
				g.Status = "undecided"
				d := txt
				if len(d) > 400 {
					d = d[len(d)-400:]
				}
				g.Detail = "witness did not run: " + d
			}
			out = append(out, g)
		}
	}
	return out
}
