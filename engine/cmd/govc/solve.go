package main

// SMT back ends: race z3 4.8.12, z3-new 5.1.0 (and cvc5 for non-polynomial
// goals) per query under a timeout.

import (
	"bytes"
	"context"
	"fmt"
	"os"
	"os/exec"
	"path/filepath"
	"regexp"
	"strings"
	"sync"
	"time"
)

type Result struct {
	status  string // unsat sat unknown timeout error
	backend string
	ms      int64
	model   map[string]string
	raw     string
	file    string
}

type solverSpec struct {
	name string
	cmd  []string
}

var solvers = []solverSpec{
	{"z3-4.8.12", []string{"/usr/bin/z3", "-smt2"}},
	{"z3-5.1.0", []string{"z3-new", "-smt2"}},
}

var cvc5Spec = solverSpec{"cvc5-1.0", []string{"cvc5", "--lang=smt2", "--produce-models"}}

func nonlinear(ts []*Term) bool {
	_, _, order := collect(ts)
	for _, t := range order {
		switch t.op {
		case "*":
			if !t.args[0].isConst() && !t.args[1].isConst() {
				return true
			}
		case "/":
			if !t.args[1].isConst() {
				return true
			}
		}
	}
	return false
}

func hasInts(ts []*Term) bool {
	_, _, order := collect(ts)
	for _, t := range order {
		if t.sort == SInt {
			return true
		}
	}
	return false
}

// solveQuery runs the race. asserts must already contain the negated goal.
func solveQuery(asserts []*Term, comments []string, file string, timeout time.Duration, all bool) Result {
	script := smtScript(asserts, comments, true)
	declared := map[string]bool{}
	{
		vs, _, _ := collect(asserts)
		for _, v := range vs {
			declared[v.name] = true
		}
	}
	if file != "" {
		os.MkdirAll(filepath.Dir(file), 0o755)
		os.WriteFile(file, []byte(script), 0o644)
	}
	use := append([]solverSpec{}, solvers...)
	nl := nonlinear(asserts)
	// cvc5 joins every race: its incremental linearisation proves polynomial identities that
	// stall nlsat; on nonlinear goals only its "unsat" is used (models come from z3)
	use = append(use, cvc5Spec)
	ctx, cancel := context.WithTimeout(context.Background(), timeout)
	defer cancel()
	type ans struct {
		r Result
	}
	ch := make(chan ans, len(use))
	var wg sync.WaitGroup
	start := time.Now()
	for _, s := range use {
		wg.Add(1)
		go func(s solverSpec) {
			defer wg.Done()
			args := append([]string{}, s.cmd[1:]...)
			if strings.HasPrefix(s.name, "z3") {
				args = append(args, fmt.Sprintf("-T:%d", int(timeout.Seconds())+1), "-in")
			}
			c := exec.CommandContext(ctx, s.cmd[0], args...)
			in := script
			if strings.HasPrefix(s.name, "cvc5") {
				in = "(set-logic ALL)\n" + strings.Replace(script, "(set-option :produce-models true)\n", "", 1)
			}
			c.Stdin = strings.NewReader(in)
			var out bytes.Buffer
			c.Stdout = &out
			c.Stderr = &out
			c.Run()
			txt := out.String()
			first := strings.TrimSpace(strings.SplitN(txt, "\n", 2)[0])
			r := Result{backend: s.name, ms: time.Since(start).Milliseconds(), raw: txt, file: file}
			switch first {
			case "unsat":
				r.status = "unsat"
			case "sat":
				if nl && strings.HasPrefix(s.name, "cvc5") {
					r.status = "unknown"
					break
				}
				r.status = "sat"
				r.model = parseModel(txt)
				for k := range r.model {
					if !declared[k] {
						delete(r.model, k)
					}
				}
			case "unknown":
				r.status = "unknown"
			default:
				if ctx.Err() != nil || strings.Contains(txt, "timeout") {
					r.status = "timeout"
				} else if strings.HasPrefix(s.name, "cvc5") {
					r.status = "timeout" // cvc5 is an optional extra: what it cannot parse it simply does not decide
				} else {
					r.status = "error"
				}
			}
			ch <- ans{r}
		}(s)
	}
	var best Result
	best.status = "timeout"
	var got []Result
	var grace <-chan time.Time
	for i := 0; i < len(use); i++ {
		var a ans
		select {
		case a = <-ch:
		case <-grace:
			// cross-checking mode: the other back ends had their extra time after the first answer
			cancel()
			grace = nil
			a = <-ch
		}
		if all && grace == nil && (a.r.status == "unsat" || a.r.status == "sat") && best.status != "unsat" && best.status != "sat" {
			grace = time.After(8 * time.Second)
		}
		got = append(got, a.r)
		if a.r.status == "unsat" || a.r.status == "sat" {
			if best.status != "unsat" && best.status != "sat" {
				best = a.r
				if !all {
					cancel()
				}
			} else if all && best.status != a.r.status {
				best = Result{status: "error", backend: "disagreement", raw: fmt.Sprintf("%s says %s, %s says %s", best.backend, best.status, a.r.backend, a.r.status)}
			}
		} else if best.status == "timeout" && a.r.status != "timeout" {
			if best.backend == "" || a.r.status == "unknown" {
				best = a.r
			}
		}
	}
	wg.Wait()
	if best.backend == "" {
		best.backend = "all"
		best.ms = time.Since(start).Milliseconds()
	}
	if best.status == "error" && best.backend != "disagreement" {
		// keep an error message excerpt
		if len(best.raw) > 600 {
			best.raw = best.raw[:600]
		}
	}
	return best
}

var defRe = regexp.MustCompile(`\(define-fun\s+(\|[^|]*\||\S+)\s+\(\)\s+(\S+)\s+`)

// parseModel extracts constant definitions from a get-model answer.
func parseModel(txt string) map[string]string {
	m := map[string]string{}
	idx := defRe.FindAllStringSubmatchIndex(txt, -1)
	for _, loc := range idx {
		name := txt[loc[2]:loc[3]]
		name = strings.Trim(name, "|")
		// value: balanced s-expression starting at loc[1]
		i := loc[1]
		depth := 0
		j := i
		for j < len(txt) {
			c := txt[j]
			if c == '(' {
				depth++
			} else if c == ')' {
				if depth == 0 {
					break
				}
				depth--
				if depth == 0 {
					j++
					break
				}
			} else if depth == 0 && (c == ' ' || c == '\n') && j > i {
				break
			}
			j++
		}
		m[name] = strings.TrimSpace(txt[i:j])
	}
	return m
}

// smtValueToFloat evaluates simple numeric s-expressions from models.
func smtValueToFloat(s string) (float64, bool) {
	s = strings.TrimSpace(s)
	s = strings.ReplaceAll(s, "?", "")
	if strings.HasPrefix(s, "(") {
		inner := strings.TrimSpace(s[1 : len(s)-1])
		parts := splitSexp(inner)
		if len(parts) == 0 {
			return 0, false
		}
		switch parts[0] {
		case "-":
			if len(parts) == 2 {
				v, ok := smtValueToFloat(parts[1])
				return -v, ok
			}
			if len(parts) == 3 {
				a, ok1 := smtValueToFloat(parts[1])
				b, ok2 := smtValueToFloat(parts[2])
				return a - b, ok1 && ok2
			}
		case "/":
			a, ok1 := smtValueToFloat(parts[1])
			b, ok2 := smtValueToFloat(parts[2])
			if b == 0 {
				return 0, false
			}
			return a / b, ok1 && ok2
		case "+":
			a, ok1 := smtValueToFloat(parts[1])
			b, ok2 := smtValueToFloat(parts[2])
			return a + b, ok1 && ok2
		case "*":
			a, ok1 := smtValueToFloat(parts[1])
			b, ok2 := smtValueToFloat(parts[2])
			return a * b, ok1 && ok2
		}
		return 0, false
	}
	var f float64
	if _, err := fmt.Sscanf(s, "%g", &f); err == nil {
		return f, true
	}
	return 0, false
}

func splitSexp(s string) []string {
	var out []string
	depth := 0
	cur := ""
	for _, c := range s {
		switch {
		case c == '(':
			depth++
			cur += string(c)
		case c == ')':
			depth--
			cur += string(c)
		case (c == ' ' || c == '\n' || c == '\t') && depth == 0:
			if cur != "" {
				out = append(out, cur)
				cur = ""
			}
		default:
			cur += string(c)
		}
	}
	if cur != "" {
		out = append(out, cur)
	}
	return out
}

// termVars returns the set of variable ids occurring in t (memoized).
var termVarsMemo = map[int]map[int]bool{}

func termVars(t *Term) map[int]bool {
	if m, ok := termVarsMemo[t.id]; ok {
		return m
	}
	m := map[int]bool{}
	if t.op == "v" && t.name != "PI" {
		m[t.id] = true
	}
	for _, a := range t.args {
		for k := range termVars(a) {
			m[k] = true
		}
	}
	termVarsMemo[t.id] = m
	return m
}

// axiomDefines: a definitional axiom (what sqrt / sin / cos / acos ... of some
// argument is, or that two applications agree on equal arguments) is only of
// use once the value it defines is mentioned: term id -> ids of those values.
var axiomDefines = map[int][]int{}

// axiomNeedsAll: congruence axioms (equal arguments give equal results) tie two
// applications together; they are only of use when both results matter.
var axiomNeedsAll = map[int]bool{}

func registerDef(ax *Term, results ...*Term) {
	if ax == nil || len(ax.args) == 0 {
		return
	}
	var ids []int
	for _, r := range results {
		if r != nil && len(r.args) == 0 && !r.isConst() {
			ids = append(ids, r.id)
		}
	}
	if len(ids) > 0 {
		axiomDefines[ax.id] = ids
	}
}

// relevant keeps the assumptions connected (through shared variables) to the goal.
func relevant(assume []*Term, goal *Term) []*Term {
	seed := map[int]bool{}
	for k := range termVars(goal) {
		seed[k] = true
	}
	used := make([]bool, len(assume))
	changed := true
	for changed {
		changed = false
		for i, a := range assume {
			if used[i] {
				continue
			}
			vs := termVars(a)
			hit := len(vs) == 0
			if defs, isDef := axiomDefines[a.id]; isDef {
				if axiomNeedsAll[a.id] {
					hit = true
					for _, d := range defs {
						if !seed[d] {
							hit = false
						}
					}
				} else {
					for _, d := range defs {
						if seed[d] {
							hit = true
							break
						}
					}
				}
			} else {
				for k := range vs {
					if seed[k] {
						hit = true
						break
					}
				}
			}
			if hit {
				used[i] = true
				changed = true
				for k := range vs {
					seed[k] = true
				}
			}
		}
	}
	var out []*Term
	for i, a := range assume {
		if used[i] {
			out = append(out, a)
		}
	}
	return out
}

// solveAll discharges obligations in parallel.
func solveAll(obls []*Obligation, outDir string, timeout time.Duration, all bool, workers int) {
	sem := make(chan struct{}, workers)
	var wg sync.WaitGroup
	type job struct {
		o       *Obligation
		asserts []*Term
		file    string
		full    []*Term // all hypotheses, when the relevance filter dropped some
	}
	var jobs []job
	for i, o := range obls {
		var asserts []*Term
		if o.expectSat {
			asserts = append(asserts, o.assume...)
		} else {
			ng := mkNot(o.goal)
			asserts = append(relevant(o.assume, ng), ng)
		}
		triv := false
		for _, a := range asserts {
			if a.isFalse() {
				triv = true
			}
		}
		if triv {
			o.res = Result{status: "unsat", backend: "simplifier"}
			continue
		}
		if len(asserts) == 0 {
			o.res = Result{status: "sat", backend: "simplifier", model: map[string]string{}}
			continue
		}
		jb := job{o: o, asserts: asserts, file: filepath.Join(outDir, sanitize(o.name)+fmt.Sprintf("_%d.smt2", i))}
		if !o.expectSat && len(asserts) < len(o.assume)+1 {
			jb.full = append(append([]*Term{}, o.assume...), mkNot(o.goal))
		}
		jobs = append(jobs, jb)
	}
	for _, j := range jobs {
		wg.Add(1)
		sem <- struct{}{}
		go func(j job) {
			defer wg.Done()
			defer func() { <-sem }()
			j.o.res = solveQuery(j.asserts, []string{j.o.name, j.o.what}, j.file, timeout, all)
			if j.o.res.status == "sat" && j.o.incomplete && !j.o.expectSat {
				j.o.res.status = "unknown"
				j.o.res.raw = "model not trusted: functional consistency of an uninterpreted function was left out (too many applications)"
				j.o.res.model = nil
			}
			if j.o.res.status == "sat" && j.full != nil {
				// a model of the filtered query is a counterexample only if the dropped hypotheses
				// (e.g. the rest of the path condition) can be satisfied too: decide the full query
				triv := false
				for _, a := range j.full {
					if a.isFalse() {
						triv = true
					}
				}
				if triv {
					j.o.res = Result{status: "unsat", backend: "simplifier"}
				} else {
					first := j.o.res
					j.o.res = solveQuery(j.full, []string{j.o.name + " (all hypotheses)", j.o.what}, strings.TrimSuffix(j.file, ".smt2")+"_full.smt2", timeout, all)
					j.o.res.ms += first.ms
				}
			}
		}(j)
	}
	wg.Wait()
}
