package main

// Contract files (//@ blocks), the spec expression language and its evaluator.

import (
	"fmt"
	"go/types"
	"math/big"
	"os"
	"path/filepath"
	"strconv"
	"strings"
	"unicode"

	"golang.org/x/tools/go/ssa"
)

//-----------------------------------------------------------------------------
// AST

type Expr interface{}

type (
	ENum struct {
		rat   *big.Rat
		isInt bool
	}
	EIdent struct{ name string }
	ESel   struct {
		x    Expr
		name string
	}
	ECall struct {
		fun  Expr
		args []Expr
	}
	EIndex struct{ x, i Expr }
	EUn    struct {
		op string
		x  Expr
	}
	EBin struct {
		op   string
		l, r Expr
	}
	EComp struct {
		typ   string
		elems []Expr
	}
	EStr struct{ s string }
)

type qvar struct {
	name string
	typ  string
	ex   bool // existentially quantified (leading "exists k int ::"), int only
}

type Clause struct {
	label string
	text  string
	vars  []qvar // leading forall variables
	expr  Expr
	line  int
}

type scriptStmt struct {
	kind   string // let assert use generalize
	let    letStmt
	clause *Clause
	name   string // lemma name (use) or variable (generalize)
	args   []Expr
	text   string
}

type letStmt struct {
	name string
	expr Expr
	text string
}

type Contract struct {
	pkg      string
	fnName   string // as written: Type.Method or Func or Func$1
	id       string
	props    []string
	requires []*Clause
	ensures  []*Clause
	lets     []letStmt // executed after the call, before ensures (forking allowed)
	prelets  []letStmt // executed before the call
	examples []*Clause // extra constraints of the vacuity probe only
	called   map[*ssa.Function]bool // lemmas: the real functions their statements mention
	foralls  []qvar    // contract-level universally quantified variables
	nilParams []string // parameters bound to nil
	callAsserts []*Clause // label = callee name
	havocs    []Expr    // modular contract: locations the callee may modify
	cases    []*Clause // explicit case split applied to every postcondition
	asserts  []*Clause // proved at function exit, then available to the postconditions
	script   []scriptStmt // let / assert / use / generalize in source order
	bodies   map[int][]*Clause // per-iteration obligations checked at the back edge
	entries  map[int][]*Clause // obligations checked when the loop is first reached
	invs     map[int][]*Clause
	forget   map[int][]string
	witnesses map[int][][]Expr // loop ordinal (-1: postconditions) -> witness tuples for existential clauses
	summarise [][2]string // callee, contract id: calls seen through that contract while verifying this one
	decr     map[int]*Clause
	opts     map[string]string
	uses     []string
	file     string
	line     int
	modular  bool
	pure     bool
	trusted  string
	assumes  []string // stated hypotheses that are facts about the outside world (listed under assumptions in the evidence)
	lemma    bool // stand-alone lemma: no function body
	params   []qvar
	fn       *ssa.Function
}

func (c *Contract) key() string { return c.pkg + "." + c.fnName }
func (c *Contract) label() string {
	if c.id != "" {
		return c.key() + "/" + c.id
	}
	return c.key()
}

type SpecFunc struct {
	name   string
	params []qvar
	body   Expr
	text   string
	rec    bool   // recursive definition over its last (int) parameter
	result string // result type of a recursive definition: int, real or bool
}

//-----------------------------------------------------------------------------
// lexer / parser

type tok struct {
	kind string // num ident str op eof
	s    string
}

func lex(s string) ([]tok, error) {
	var out []tok
	i := 0
	for i < len(s) {
		c := rune(s[i])
		switch {
		case c == ' ' || c == '\t':
			i++
		case unicode.IsDigit(c) || (c == '.' && i+1 < len(s) && unicode.IsDigit(rune(s[i+1]))):
			j := i
			for j < len(s) && (unicode.IsDigit(rune(s[j])) || s[j] == '.' || s[j] == '_') {
				j++
			}
			if j < len(s) && (s[j] == 'e' || s[j] == 'E') {
				k := j + 1
				if k < len(s) && (s[k] == '+' || s[k] == '-') {
					k++
				}
				if k < len(s) && unicode.IsDigit(rune(s[k])) {
					for k < len(s) && unicode.IsDigit(rune(s[k])) {
						k++
					}
					j = k
				}
			}
			out = append(out, tok{"num", s[i:j]})
			i = j
		case unicode.IsLetter(c) || c == '_' || c == '\\':
			j := i + 1
			for j < len(s) && (unicode.IsLetter(rune(s[j])) || unicode.IsDigit(rune(s[j])) || s[j] == '_' || s[j] == '$') {
				j++
			}
			out = append(out, tok{"ident", s[i:j]})
			i = j
		case c == '"':
			j := i + 1
			for j < len(s) && s[j] != '"' {
				j++
			}
			if j >= len(s) {
				return nil, fmt.Errorf("unterminated string")
			}
			out = append(out, tok{"str", s[i+1 : j]})
			i = j + 1
		default:
			ops := []string{"==>", "<==>", "::", "==", "!=", "<=", ">=", "&&", "||", "+", "-", "*", "/", "%", "<", ">", "!", "(", ")", "[", "]", "{", "}", ",", ".", ":", "&"}
			matched := false
			for _, op := range ops {
				if strings.HasPrefix(s[i:], op) {
					out = append(out, tok{"op", op})
					i += len(op)
					matched = true
					break
				}
			}
			if !matched {
				return nil, fmt.Errorf("unexpected character %q", c)
			}
		}
	}
	out = append(out, tok{"eof", ""})
	return out, nil
}

type parser struct {
	toks []tok
	pos  int
}

func (p *parser) peek() tok { return p.toks[p.pos] }
func (p *parser) next() tok { t := p.toks[p.pos]; p.pos++; return t }
func (p *parser) isOp(s string) bool {
	t := p.peek()
	return t.kind == "op" && t.s == s
}
func (p *parser) expect(s string) {
	if !p.isOp(s) {
		panic(fmt.Errorf("expected %q, found %q", s, p.peek().s))
	}
	p.pos++
}

func parseExpr(s string) (e Expr, vars []qvar, err error) {
	toks, err := lex(s)
	if err != nil {
		return nil, nil, err
	}
	p := &parser{toks: toks}
	defer func() {
		if r := recover(); r != nil {
			if pe, ok := r.(error); ok {
				err = fmt.Errorf("%v in %q", pe, s)
				return
			}
			panic(r)
		}
	}()
	// leading quantifiers: forall x T, y U ::
	for p.peek().kind == "ident" && (p.peek().s == "forall" || p.peek().s == "exists") {
		ex := p.next().s == "exists"
		for {
			nm := p.next()
			if nm.kind != "ident" {
				panic(fmt.Errorf("expected variable name after quantifier"))
			}
			ty := p.parseTypeName()
			if ex && ty != "int" {
				panic(fmt.Errorf("exists ranges over int only"))
			}
			vars = append(vars, qvar{nm.s, ty, ex})
			if p.isOp(",") {
				p.next()
				continue
			}
			break
		}
		p.expect("::")
	}
	e = p.parseImplies()
	if p.peek().kind != "eof" {
		panic(fmt.Errorf("trailing input at %q", p.peek().s))
	}
	return e, vars, nil
}

func (p *parser) parseTypeName() string {
	s := ""
	if p.isOp("*") {
		p.next()
		s = "*"
	}
	if p.isOp("[") {
		p.next()
		p.expect("]")
		s += "[]"
	}
	t := p.next()
	if t.kind != "ident" {
		panic(fmt.Errorf("expected type name, found %q", t.s))
	}
	s += t.s
	if p.isOp(".") {
		p.next()
		t2 := p.next()
		s += "." + t2.s
	}
	return s
}

func (p *parser) parseImplies() Expr {
	l := p.parseOr()
	if p.isOp("==>") {
		p.next()
		r := p.parseImplies()
		return &EBin{"==>", l, r}
	}
	if p.isOp("<==>") {
		p.next()
		r := p.parseOr()
		return &EBin{"<==>", l, r}
	}
	return l
}
func (p *parser) parseOr() Expr {
	l := p.parseAnd()
	for p.isOp("||") {
		p.next()
		l = &EBin{"||", l, p.parseAnd()}
	}
	return l
}
func (p *parser) parseAnd() Expr {
	l := p.parseCmp()
	for p.isOp("&&") {
		p.next()
		l = &EBin{"&&", l, p.parseCmp()}
	}
	return l
}
func (p *parser) parseCmp() Expr {
	l := p.parseAdd()
	for {
		t := p.peek()
		if t.kind == "op" && (t.s == "==" || t.s == "!=" || t.s == "<" || t.s == "<=" || t.s == ">" || t.s == ">=") {
			p.next()
			r := p.parseAdd()
			l = &EBin{t.s, l, r}
			continue
		}
		return l
	}
}
func (p *parser) parseAdd() Expr {
	l := p.parseMul()
	for p.isOp("+") || p.isOp("-") {
		op := p.next().s
		l = &EBin{op, l, p.parseMul()}
	}
	return l
}
func (p *parser) parseMul() Expr {
	l := p.parseUnary()
	for p.isOp("*") || p.isOp("/") || p.isOp("%") {
		op := p.next().s
		l = &EBin{op, l, p.parseUnary()}
	}
	return l
}
func (p *parser) parseUnary() Expr {
	if p.isOp("-") || p.isOp("!") || p.isOp("*") || p.isOp("&") {
		op := p.next().s
		return &EUn{op, p.parseUnary()}
	}
	return p.parsePostfix()
}
func (p *parser) parseArgs(close string) []Expr {
	var args []Expr
	if p.isOp(close) {
		p.next()
		return args
	}
	for {
		args = append(args, p.parseImplies())
		if p.isOp(",") {
			p.next()
			if p.isOp(close) {
				p.next()
				return args
			}
			continue
		}
		p.expect(close)
		return args
	}
}
func (p *parser) parsePostfix() Expr {
	e := p.parsePrimary()
	for {
		switch {
		case p.isOp("."):
			p.next()
			t := p.next()
			if t.kind != "ident" {
				panic(fmt.Errorf("expected identifier after '.'"))
			}
			e = &ESel{e, t.s}
		case p.isOp("("):
			p.next()
			e = &ECall{e, p.parseArgs(")")}
		case p.isOp("["):
			p.next()
			i := p.parseImplies()
			p.expect("]")
			e = &EIndex{e, i}
		case p.isOp("{"):
			// composite literal: Type{...}
			tn := typeNameOf(e)
			if tn == "" {
				return e
			}
			p.next()
			e = &EComp{tn, p.parseArgs("}")}
		default:
			return e
		}
	}
}
func typeNameOf(e Expr) string {
	switch x := e.(type) {
	case *EIdent:
		if len(x.name) > 0 {
			return x.name // there are no blocks in spec expressions, so ident{...} is always a literal
		}
	case *ESel:
		if id, ok := x.x.(*EIdent); ok {
			return id.name + "." + x.name
		}
	}
	return ""
}
func (p *parser) parsePrimary() Expr {
	t := p.next()
	switch t.kind {
	case "num":
		s := strings.ReplaceAll(t.s, "_", "")
		isInt := !strings.ContainsAny(s, ".eE")
		r, ok := new(big.Rat).SetString(s)
		if !ok {
			panic(fmt.Errorf("bad number %q", t.s))
		}
		return &ENum{r, isInt}
	case "ident":
		return &EIdent{t.s}
	case "str":
		return &EStr{t.s}
	case "op":
		if t.s == "(" {
			e := p.parseImplies()
			p.expect(")")
			return e
		}
	}
	panic(fmt.Errorf("unexpected token %q", t.s))
}

//-----------------------------------------------------------------------------
// contract file parsing

type ContractSet struct {
	contracts []*Contract
	specs     map[string]*SpecFunc
	files     []string
	fromRepo  bool
}

func loadContracts(repo string, mirror string) (*ContractSet, error) {
	cs := &ContractSet{specs: map[string]*SpecFunc{}}
	for _, pkg := range []string{"sdf", "render", "obj"} {
		path := filepath.Join(repo, pkg, "verif_contracts.go")
		data, err := os.ReadFile(path)
		if os.Getenv("VERIF_CONTRACTS") == "mirror" {
			err = fmt.Errorf("mirror forced")
		}
		if err != nil {
			path = filepath.Join(mirror, pkg+"_verif_contracts.go")
			data, err = os.ReadFile(path)
			if err != nil {
				continue
			}
		} else {
			cs.fromRepo = true
		}
		cs.files = append(cs.files, path)
		if err := cs.parseFile(pkg, path, string(data)); err != nil {
			return nil, err
		}
	}
	return cs, nil
}

func (cs *ContractSet) parseFile(pkg, path, src string) error {
	lines := strings.Split(src, "\n")
	var cur *Contract
	for ln, raw := range lines {
		line := strings.TrimSpace(raw)
		if !strings.HasPrefix(line, "//@") {
			continue
		}
		body := strings.TrimSpace(line[3:])
		if body == "" || strings.HasPrefix(body, "#") {
			continue
		}
		// strip trailing comment
		if i := strings.Index(body, " # "); i >= 0 {
			body = strings.TrimSpace(body[:i])
		}
		word := body
		rest := ""
		if i := strings.IndexAny(body, " \t"); i >= 0 {
			word, rest = body[:i], strings.TrimSpace(body[i+1:])
		}
		errf := func(format string, a ...interface{}) error {
			return fmt.Errorf("%s:%d: %s", path, ln+1, fmt.Sprintf(format, a...))
		}
		if cur == nil {
			switch word {
			case "spec":
				sf, err := parseSpecFunc(rest)
				if err != nil {
					return errf("%v", err)
				}
				cs.specs[sf.name] = sf
			case "func", "lemma":
				cur = &Contract{pkg: pkg, opts: map[string]string{}, invs: map[int][]*Clause{}, bodies: map[int][]*Clause{}, entries: map[int][]*Clause{}, decr: map[int]*Clause{}, file: path, line: ln + 1}
				if word == "lemma" {
					cur.lemma = true
					// lemma name(params)
					i := strings.Index(rest, "(")
					if i < 0 {
						return errf("lemma needs parameter list")
					}
					cur.fnName = strings.TrimSpace(rest[:i])
					ps, err := parseParams(strings.TrimSuffix(strings.TrimSpace(rest[i+1:]), ")"))
					if err != nil {
						return errf("%v", err)
					}
					cur.params = ps
				} else {
					cur.fnName = rest
					if strings.HasPrefix(rest, pkg+".") {
						cur.fnName = rest[len(pkg)+1:]
					}
				}
			default:
				return errf("unexpected %q outside a contract block", word)
			}
			continue
		}
		switch word {
		case "end":
			cs.contracts = append(cs.contracts, cur)
			cur = nil
		case "property":
			cur.props = append(cur.props, strings.Fields(strings.ReplaceAll(rest, ",", " "))...)
		case "id":
			cur.id = rest
		case "requires", "ensures":
			label := ""
			if strings.HasPrefix(rest, "[") {
				if i := strings.Index(rest, "]"); i > 0 {
					label = rest[1:i]
					rest = strings.TrimSpace(rest[i+1:])
				}
			}
			e, vars, err := parseExpr(rest)
			if err != nil {
				return errf("%v", err)
			}
			cl := &Clause{label: label, text: rest, vars: vars, expr: e, line: ln + 1}
			if word == "requires" {
				cur.requires = append(cur.requires, cl)
			} else {
				cur.ensures = append(cur.ensures, cl)
			}
		case "assert":
			label := ""
			if strings.HasPrefix(rest, "[") {
				if i := strings.Index(rest, "]"); i > 0 {
					label = rest[1:i]
					rest = strings.TrimSpace(rest[i+1:])
				}
			}
			e, vars, err := parseExpr(rest)
			if err != nil {
				return errf("%v", err)
			}
			cl := &Clause{label: label, text: rest, expr: e, vars: vars, line: ln + 1}
			cur.asserts = append(cur.asserts, cl)
			cur.script = append(cur.script, scriptStmt{kind: "assert", clause: cl, text: rest})
		case "cases":
			e, _, err := parseExpr(rest)
			if err != nil {
				return errf("%v", err)
			}
			cur.cases = append(cur.cases, &Clause{text: rest, expr: e, line: ln + 1})
		case "forall":
			ps, err := parseParams(rest)
			if err != nil {
				return errf("%v", err)
			}
			cur.foralls = append(cur.foralls, ps...)
		case "do":
			e, _, err := parseExpr(rest)
			if err != nil {
				return errf("%v", err)
			}
			cur.script = append(cur.script, scriptStmt{kind: "do", let: letStmt{name: "_", expr: e, text: rest}, text: rest})
		case "let", "prelet":
			i := strings.Index(rest, "=")
			if i < 0 {
				return errf("let needs '='")
			}
			e, _, err := parseExpr(strings.TrimSpace(rest[i+1:]))
			if err != nil {
				return errf("%v", err)
			}
			l := letStmt{name: strings.TrimSpace(rest[:i]), expr: e, text: rest}
			if word == "let" {
				cur.lets = append(cur.lets, l)
				cur.script = append(cur.script, scriptStmt{kind: "let", let: l, text: rest})
			} else {
				cur.prelets = append(cur.prelets, l)
			}
		case "example":
			// example <bool expr>: narrows the search of the precondition-satisfiability probe only
			// (a model found under an extra constraint is still a model of the preconditions)
			e, _, err := parseExpr(rest)
			if err != nil {
				return errf("%v", err)
			}
			cur.examples = append(cur.examples, &Clause{text: rest, expr: e, line: ln + 1})
		case "local":
			// the contract is not applied at call sites by default (only where a caller says "summarise")
			cur.modular = false
		case "witnesses":
			// witnesses <loop ordinal | post> e1, e2, ...: a tuple of expressions offered (together with
			// the tuple assumed so far) as the witness of the existential clauses of that loop / of the
			// postconditions, instead of trying every combination of the integers in scope
			f := strings.SplitN(rest, " ", 2)
			if len(f) < 2 {
				return errf("witnesses needs a loop ordinal (or post) and expressions")
			}
			key := -1
			if f[0] != "post" {
				n, err := strconv.Atoi(f[0])
				if err != nil {
					return errf("witnesses needs a loop ordinal or post")
				}
				key = n
			}
			var tuple []Expr
			for _, part := range splitTopLevel(f[1]) {
				e, _, err := parseExpr(strings.TrimSpace(part))
				if err != nil {
					return errf("%v", err)
				}
				tuple = append(tuple, e)
			}
			if cur.witnesses == nil {
				cur.witnesses = map[int][][]Expr{}
			}
			cur.witnesses[key] = append(cur.witnesses[key], tuple)
		case "summarise":
			f := strings.Fields(rest)
			if len(f) != 2 {
				return errf("summarise needs a function and a contract id")
			}
			cur.summarise = append(cur.summarise, [2]string{f[0], f[1]})
		case "forget":
			// forget <loop> <name>...: when the loop is cut, the named (unmodified) Go variables are
			// replaced by arbitrary values; what the loop needs to know about them goes into invariants
			f := strings.Fields(rest)
			if len(f) < 2 {
				return errf("forget needs a loop ordinal and variable names")
			}
			n, err := strconv.Atoi(f[0])
			if err != nil {
				return errf("forget needs a loop ordinal")
			}
			if cur.forget == nil {
				cur.forget = map[int][]string{}
			}
			cur.forget[n] = append(cur.forget[n], f[1:]...)
		case "body", "atentry":
			f := strings.SplitN(rest, " ", 2)
			n, err := strconv.Atoi(f[0])
			if err != nil || len(f) < 2 {
				return errf("%s needs a loop ordinal and an expression", word)
			}
			e, vars, err := parseExpr(f[1])
			if err != nil {
				return errf("%v", err)
			}
			if word == "body" {
				cur.bodies[n] = append(cur.bodies[n], &Clause{text: f[1], vars: vars, expr: e, line: ln + 1})
			} else {
				cur.entries[n] = append(cur.entries[n], &Clause{text: f[1], vars: vars, expr: e, line: ln + 1})
			}
		case "invariant", "decreases":
			f := strings.SplitN(rest, " ", 2)
			n, err := strconv.Atoi(f[0])
			if err != nil || len(f) < 2 {
				return errf("%s needs a loop ordinal and an expression", word)
			}
			e, vars, err := parseExpr(f[1])
			if err != nil {
				return errf("%v", err)
			}
			cl := &Clause{text: f[1], vars: vars, expr: e, line: ln + 1}
			if word == "invariant" {
				cur.invs[n] = append(cur.invs[n], cl)
			} else {
				cur.decr[n] = cl
			}
		case "use":
			cur.uses = append(cur.uses, rest)
			e, _, err := parseExpr(rest)
			if err != nil {
				return errf("%v", err)
			}
			call, ok := e.(*ECall)
			if !ok {
				return errf("use needs lemma(args)")
			}
			id, ok := call.fun.(*EIdent)
			if !ok {
				return errf("use needs lemma(args)")
			}
			cur.script = append(cur.script, scriptStmt{kind: "use", name: id.name, args: call.args, text: rest})
		case "focus":
			cur.script = append(cur.script, scriptStmt{kind: "focus", text: rest})
		case "unfocus":
			cur.script = append(cur.script, scriptStmt{kind: "unfocus"})
		case "generalize":
			for _, n := range strings.Fields(strings.ReplaceAll(rest, ",", " ")) {
				cur.script = append(cur.script, scriptStmt{kind: "generalize", name: n, text: rest})
			}
		case "havoc":
			e, _, err := parseExpr(rest)
			if err != nil {
				return errf("%v", err)
			}
			cur.havocs = append(cur.havocs, e)
		case "callassert":
			f := strings.SplitN(rest, " ", 2)
			if len(f) < 2 {
				return errf("callassert needs a callee and an expression")
			}
			e, vars, err := parseExpr(f[1])
			if err != nil {
				return errf("%v", err)
			}
			cur.callAsserts = append(cur.callAsserts, &Clause{label: f[0], text: f[1], expr: e, vars: vars, line: ln + 1})
		case "nil":
			cur.nilParams = append(cur.nilParams, strings.Fields(rest)...)
		case "modular":
			cur.modular = true
		case "pure":
			// reads only (checked by the frame analysis): calls with the same object and heap give the same result
			cur.pure = true
			cur.modular = true
		case "trusted":
			cur.trusted = rest
			cur.modular = true
		case "assumes":
			// documentation of a hypothesis that is meant as an assumed fact (not a condition the
			// caller establishes): it is reported with the evidence of every run that proves the contract
			cur.assumes = append(cur.assumes, rest)
		case "opt":
			f := strings.Fields(rest)
			if len(f) == 1 {
				cur.opts[f[0]] = "1"
			} else if len(f) >= 2 {
				cur.opts[f[0]] = strings.Join(f[1:], " ")
			}
		default:
			return errf("unknown contract keyword %q", word)
		}
	}
	if cur != nil {
		return fmt.Errorf("%s: unterminated contract block for %s", path, cur.fnName)
	}
	return nil
}

func parseParams(s string) ([]qvar, error) {
	var out []qvar
	s = strings.TrimSpace(s)
	if s == "" {
		return nil, nil
	}
	for _, part := range strings.Split(s, ",") {
		f := strings.Fields(part)
		if len(f) == 1 && len(out) > 0 {
			// "a, b T" style handled below
			out = append(out, qvar{name: f[0]})
			continue
		}
		if len(f) != 2 {
			if len(f) == 1 {
				out = append(out, qvar{name: f[0]})
				continue
			}
			return nil, fmt.Errorf("bad parameter %q", part)
		}
		out = append(out, qvar{name: f[0], typ: f[1]})
	}
	// propagate types backwards: a, b T
	for i := len(out) - 1; i >= 0; i-- {
		if out[i].typ == "" {
			if i+1 < len(out) {
				out[i].typ = out[i+1].typ
			} else {
				return nil, fmt.Errorf("parameter %s lacks a type", out[i].name)
			}
		}
	}
	return out, nil
}

func parseSpecFunc(s string) (*SpecFunc, error) {
	// [rec] name(params) [type] = expr
	rec := false
	if strings.HasPrefix(s, "rec ") {
		rec = true
		s = strings.TrimSpace(s[4:])
	}
	i := strings.Index(s, "(")
	j := strings.Index(s, ")")
	k := strings.Index(s, "=")
	if i < 0 || j < i || k < j {
		return nil, fmt.Errorf("bad spec function %q", s)
	}
	// find '=' after the closing paren of the parameter list
	k = j + 1 + strings.Index(s[j+1:], "=")
	ps, err := parseParams(s[i+1 : j])
	if err != nil {
		return nil, err
	}
	e, _, err := parseExpr(strings.TrimSpace(s[k+1:]))
	if err != nil {
		return nil, err
	}
	sf := &SpecFunc{name: strings.TrimSpace(s[:i]), params: ps, body: e, text: s, rec: rec}
	if rec {
		sf.result = strings.TrimSpace(s[j+1 : k])
		if sf.result == "" {
			return nil, fmt.Errorf("recursive spec function %s needs a result type (int, real, bool or a struct / array type of numbers)", sf.name)
		}
		if err := checkWellFounded(sf); err != nil {
			return nil, err
		}
	}
	return sf, nil
}

// checkWellFounded accepts only definitions of the shape
//   f(..., n) = ite(n <= c, base, step)   with every recursive call in step being f(..., n - 1)
// and no recursive call in base, so that the defining equations have a (unique) model.
func checkWellFounded(sf *SpecFunc) error {
	bad := fmt.Errorf("recursive spec function %s must have the shape ite(n <= c, base, step) with recursive calls f(..., n - 1) only in step", sf.name)
	if len(sf.params) == 0 || sf.params[len(sf.params)-1].typ != "int" {
		return bad
	}
	n := sf.params[len(sf.params)-1].name
	c, ok := sf.body.(*ECall)
	if !ok || len(c.args) != 3 {
		return bad
	}
	if id, ok := c.fun.(*EIdent); !ok || id.name != "ite" {
		return bad
	}
	cond, ok := c.args[0].(*EBin)
	if !ok || cond.op != "<=" {
		return bad
	}
	if id, ok := cond.l.(*EIdent); !ok || id.name != n {
		return bad
	}
	if _, ok := cond.r.(*ENum); !ok {
		return bad
	}
	self := map[string]bool{sf.name: true}
	if mentionsIdent(c.args[1], self) || mentionsIdent(c.args[0], self) {
		return bad
	}
	okCalls := true
	var walk func(e Expr)
	walk = func(e Expr) {
		switch t := e.(type) {
		case *ECall:
			if id, ok := t.fun.(*EIdent); ok && id.name == sf.name {
				if len(t.args) != len(sf.params) {
					okCalls = false
					return
				}
				last, ok := t.args[len(t.args)-1].(*EBin)
				if !ok || last.op != "-" {
					okCalls = false
					return
				}
				li, ok1 := last.l.(*EIdent)
				ln, ok2 := last.r.(*ENum)
				if !ok1 || !ok2 || li.name != n || !ln.isInt || ln.rat.Cmp(big.NewRat(1, 1)) != 0 {
					okCalls = false
					return
				}
				for _, a := range t.args[:len(t.args)-1] {
					walk(a)
				}
				return
			}
			walk(t.fun)
			for _, a := range t.args {
				walk(a)
			}
		case *ESel:
			walk(t.x)
		case *EIndex:
			walk(t.x)
			walk(t.i)
		case *EUn:
			walk(t.x)
		case *EBin:
			walk(t.l)
			walk(t.r)
		case *EComp:
			for _, a := range t.elems {
				walk(a)
			}
		}
	}
	walk(c.args[2])
	if !okCalls {
		return bad
	}
	return nil
}


//-----------------------------------------------------------------------------
// evaluation

type Env struct {
	vars   map[string]Value
	parent *Env
	pkg    *ssa.Package
	old    *State          // entry state for old()
	oldEnv *Env            // entry environment
	frame  *Frame          // for Go source variables in loop invariants
	frameFirst bool        // frame variables shadow the contract environment (loop invariants)
	inherited  bool        // the frame belongs to an enclosing environment (bound variables of this one come first)
	preSt  *State          // state at entry of the innermost cut loop (for pre())
	preEnv *Env
}

func (e *Env) lookup(n string) (Value, bool) {
	for c := e; c != nil; c = c.parent {
		if v, ok := c.vars[n]; ok {
			return v, true
		}
	}
	// Go variables of an attached frame also shadow package names
	for c := e; c != nil; c = c.parent {
		if c.frame != nil {
			if ee, ok := c.frame.env[n]; ok {
				return ee.v, true
			}
		}
	}
	return nil, false
}
func (e *Env) child() *Env {
	return &Env{vars: map[string]Value{}, parent: e, pkg: e.pkg, old: e.old, oldEnv: e.oldEnv, frame: e.frame, frameFirst: e.frameFirst, preSt: e.preSt, preEnv: e.preEnv, inherited: e.frame != nil}
}

func (x *Exec) resolveType(pkg *ssa.Package, name string) types.Type {
	ptr := false
	if strings.HasPrefix(name, "*") {
		ptr = true
		name = name[1:]
	}
	slice := false
	if strings.HasPrefix(name, "[]") {
		slice = true
		name = name[2:]
	}
	var t types.Type
	if i := strings.Index(name, "."); i >= 0 {
		p := x.pkgByNm[name[:i]]
		if p == nil {
			fail("unknown package %q in type %s", name[:i], name)
		}
		o := p.Pkg.Scope().Lookup(name[i+1:])
		if o == nil {
			fail("unknown type %s", name)
		}
		t = o.Type()
	} else {
		switch name {
		case "real", "float64":
			t = types.Typ[types.Float64]
		case "int":
			t = types.Typ[types.Int]
		case "bool":
			t = types.Typ[types.Bool]
		case "uint8":
			t = types.Typ[types.Uint8]
		case "string":
			t = types.Typ[types.String]
		default:
			o := pkg.Pkg.Scope().Lookup(name)
			if o == nil {
				fail("unknown type %s", name)
			}
			t = o.Type()
		}
	}
	if slice {
		t = types.NewSlice(t)
	}
	if ptr {
		t = types.NewPointer(t)
	}
	return t
}

func (x *Exec) evalBool(st *State, env *Env, e Expr) *Term {
	v := x.eval(st, env, e)
	t, ok := v.(*Term)
	if !ok || t.sort != SBool {
		fail("spec expression is not boolean: %s", valueString(v))
	}
	return t
}

func (x *Exec) evalNum(st *State, env *Env, e Expr) *Term {
	v := x.eval(st, env, e)
	t, ok := v.(*Term)
	if !ok || t.sort == SBool {
		fail("spec expression is not numeric: %s", valueString(v))
	}
	return t
}

func (x *Exec) eval(st *State, env *Env, e Expr) Value {
	switch n := e.(type) {
	case *ENum:
		if n.isInt {
			return mkRat(n.rat, SInt)
		}
		// like Go constants in float64 context, decimal literals denote the nearest float64
		f, _ := n.rat.Float64()
		return mkReal(f)
	case *EStr:
		return &Str{s: n.s}
	case *EIdent:
		return x.evalIdent(st, env, n.name)
	case *EUn:
		if n.op == "&" {
			// address of a field of a pointed-to struct: &q.f
			if ix, ok := n.x.(*EIndex); ok {
				// address of a slice element: &s[i]
				sl, ok := x.eval(st, env, ix.x).(*SliceV)
				if !ok || sl.cell == nil {
					fail("&s[i]: s is not a non-nil slice")
				}
				i := x.evalNum(st, env, ix.i)
				if _, isSym := st.store[sl.cell].(*SymArr); isSym {
					return &Ptr{cell: sl.cell, sym: mkAdd(sl.off, i)}
				}
				off, ok1 := concreteInt(sl.off)
				k, ok2 := concreteInt(i)
				if !ok1 || !ok2 {
					fail("&s[i]: symbolic index into a concrete array")
				}
				return &Ptr{cell: sl.cell, path: []int{off + k}}
			}
			sel, ok := n.x.(*ESel)
			if !ok {
				fail("& applies to a field selection q.f or a slice element s[i] in specifications")
			}
			bp, ok := x.eval(st, env, sel.x).(*Ptr)
			if !ok || bp.cell == nil {
				fail("&%s: the base is not a non-nil pointer", sel.name)
			}
			pt, _ := x.typeOfValue(st, bp).(*types.Pointer)
			if pt != nil {
				if stt, ok := pt.Elem().Underlying().(*types.Struct); ok {
					for i := 0; i < stt.NumFields(); i++ {
						if stt.Field(i).Name() == sel.name {
							return &Ptr{cell: bp.cell, path: appendPath(bp.path, i), sym: bp.sym}
						}
					}
				}
			}
			fail("&: no field %s", sel.name)
		}
		v := x.eval(st, env, n.x)
		if n.op == "*" {
			p, ok := v.(*Ptr)
			if !ok || p.cell == nil {
				fail("dereference of non-pointer in spec")
			}
			return x.load(st, p)
		}
		t, ok := v.(*Term)
		if !ok {
			fail("unary %s on non-scalar", n.op)
		}
		if n.op == "-" {
			return mkNeg(t)
		}
		return mkNot(t)
	case *EBin:
		return x.evalBin(st, env, n)
	case *ESel:
		// package-qualified name?
		if id, ok := n.x.(*EIdent); ok {
			if _, bound := env.lookup(id.name); !bound {
				if p := x.pkgByNm[id.name]; p != nil {
					return x.pkgMember(st, p, n.name)
				}
				if id.name == "math" {
					if n.name == "Pi" {
						return piTerm()
					}
					if mp := x.prog.ImportedPackage("math"); mp != nil {
						if nc, ok := mp.Members[n.name].(*ssa.NamedConst); ok {
							return x.constValue(nc.Value)
						}
					}
					return &Func{builtin: "math." + n.name}
				}
			}
		}
		v := x.eval(st, env, n.x)
		return x.selectField(st, v, n.name)
	case *EIndex:
		v := x.eval(st, env, n.x)
		i := x.evalNum(st, env, n.i)
		return x.indexValue(st, v, i)
	case *EComp:
		t := x.resolveType(env.pkg, n.typ)
		var el []Value
		for _, a := range n.elems {
			el = append(el, x.eval(st, env, a))
		}
		switch u := t.Underlying().(type) {
		case *types.Struct:
			if len(el) != u.NumFields() {
				fail("composite literal %s needs %d fields", n.typ, u.NumFields())
			}
			for i := range el {
				el[i] = x.coerceTo(el[i], u.Field(i).Type())
			}
		case *types.Array:
			for i := range el {
				el[i] = x.coerceTo(el[i], u.Elem())
			}
		}
		return &Tuple{typ: t, el: el}
	case *ECall:
		return x.evalCall(st, env, n)
	}
	fail("unsupported spec expression %T", e)
	return nil
}

func (x *Exec) coerceTo(v Value, t types.Type) Value {
	if tm, ok := v.(*Term); ok {
		if s, ok := sortOf(t); ok && s != tm.sort && tm.sort != SBool {
			return coerce(tm, s)
		}
	}
	return v
}

func (x *Exec) evalIdent(st *State, env *Env, name string) Value {
	switch name {
	case "true":
		return tTrue
	case "false":
		return tFalse
	case "nil":
		return &Ptr{}
	case "PI", "Pi":
		return piTerm()
	}
	frameLookup := func(f *Frame) (Value, bool) {
		if ee, ok := f.env[name]; ok {
			if ee.addr {
				if p, ok := ee.v.(*Ptr); ok {
					return x.load(st, p), true
				}
			}
			return ee.v, true
		}
		return nil, false
	}
	// loop invariants see the current Go variables first; postconditions see
	// the entry values of parameters first and other locals afterwards
	for c := env; c != nil; c = c.parent {
		if v, ok := c.vars[name]; ok {
			if po, bad := v.(*Poison); bad {
				fail("%s", po.msg)
			}
			return v
		}
		if c.frame != nil && c.frameFirst && !c.inherited {
			if v, ok := frameLookup(c.frame); ok {
				return v
			}
		}
	}
	for c := env; c != nil; c = c.parent {
		if c.frame != nil && !c.frameFirst {
			if v, ok := frameLookup(c.frame); ok {
				return v
			}
		}
	}
	if nn, ok := x.renamed[name]; ok && nn != name {
		// the local was renamed since the contract was written (same position, same type); this
		// comes before the package scope: the old name of a parameter may also be a package constant
		x.note("local " + name + " of the function under contract is now called " + nn)
		return x.evalIdent(st, env, nn)
	}
	if env.pkg != nil {
		if _, ok := env.pkg.Members[name]; ok {
			return x.pkgMember(st, env.pkg, name)
		}
	}
	fail("unknown identifier %q in spec expression", name)
	return nil
}

func (x *Exec) pkgMember(st *State, p *ssa.Package, name string) Value {
	m, ok := p.Members[name]
	if !ok {
		fail("package %s has no member %s", p.Pkg.Name(), name)
	}
	switch mm := m.(type) {
	case *ssa.NamedConst:
		return x.constValue(mm.Value)
	case *ssa.Function:
		return &Func{fn: mm}
	case *ssa.Global:
		return x.load(st, &Ptr{cell: x.globalCell(mm)})
	case *ssa.Type:
		fail("type %s used as value", name)
	}
	fail("unsupported package member %s", name)
	return nil
}

func (x *Exec) typeOfValue(st *State, v Value) types.Type {
	switch t := v.(type) {
	case *Tuple:
		return t.typ
	case *Ptr:
		if t.cell == nil {
			return nil
		}
		ty := t.cell.typ
		if t.sym != nil {
			if at, ok := ty.Underlying().(*types.Array); ok {
				ty = at.Elem()
			}
		}
		for _, i := range t.path {
			if i <= -1000000 {
				if at, ok := ty.Underlying().(*types.Array); ok {
					ty = at.Elem()
				}
				continue
			}
			switch u := ty.Underlying().(type) {
			case *types.Struct:
				ty = u.Field(i).Type()
			case *types.Array:
				ty = u.Elem()
			}
		}
		return types.NewPointer(ty)
	case *Iface:
		return t.dyn
	case *SliceV:
		return t.named
	}
	return nil
}

func (x *Exec) selectField(st *State, v Value, name string) Value {
	switch t := v.(type) {
	case *Ptr:
		if t.cell == nil {
			if t.elem != nil && x.specMode > 0 {
				// reading through nil in a specification: an unspecified object (the clause has to guard it)
				x.symArrCtr++
				return x.selectField(st, x.symValue(st, t.elem, fmt.Sprintf("unspec%d", x.symArrCtr)), name)
			}
			fail("field %s of nil pointer", name)
		}
		return x.selectField(st, x.load(st, t), name)
	case *Iface:
		if t.dyn != nil {
			return x.selectField(st, t.val, name)
		}
	case *Tuple:
		if s, ok := t.typ.Underlying().(*types.Struct); ok {
			for i := 0; i < s.NumFields(); i++ {
				if s.Field(i).Name() == name {
					return t.el[i]
				}
			}
			// promoted through embedded fields
			for i := 0; i < s.NumFields(); i++ {
				if s.Field(i).Embedded() {
					if sub, ok := t.el[i].(*Tuple); ok {
						if ss, ok := sub.typ.Underlying().(*types.Struct); ok {
							for k := 0; k < ss.NumFields(); k++ {
								if ss.Field(k).Name() == name {
									return sub.el[k]
								}
							}
						}
					}
				}
			}
		}
	case *SliceV:
		if name == "len" {
			return t.len
		}
	}
	if o, ok := v.(*Opaque); ok && o.id != nil {
		x.symArrCtr++
		return &Opaque{tag: o.tag, id: freshVar(fmt.Sprintf("unspec%d", x.symArrCtr), SInt)}
	}
	fail("no field %s in %s", name, valueString(v))
	return nil
}

func (x *Exec) indexValue(st *State, v Value, i *Term) Value {
	switch t := v.(type) {
	case *Tuple:
		if k, ok := concreteInt(i); ok {
			if k < 0 || k >= len(t.el) {
				fail("spec index %d out of range", k)
			}
			return t.el[k]
		}
		return x.selectSym(t.el, 0, len(t.el), i)
	case *SliceV:
		if t.cell == nil {
			// reading a nil slice in a specification: unspecified value (the clause has to guard it)
			x.symArrCtr++
			if t.elem != nil && ufSupported(t.elem) {
				return x.symValue(st, t.elem, fmt.Sprintf("unspec%d", x.symArrCtr))
			}
			if t.elem != nil {
				if pt, ok := t.elem.Underlying().(*types.Pointer); ok && !foreignType(pt.Elem()) && regionable(pt.Elem()) {
					id := freshVar(fmt.Sprintf("unspec%d$id", x.symArrCtr), SInt)
					st.axiom(mkLe(mkInt(0), id))
					return &Ptr{cell: x.regionCell(pt.Elem()), sym: id, mayNil: true}
				}
			}
			return &Opaque{tag: "unspecified", id: freshVar(fmt.Sprintf("unspec%d", x.symArrCtr), SInt)}
		}
		if _, ok := st.store[t.cell].(*SymArr); ok {
			return x.load(st, &Ptr{cell: t.cell, sym: mkAdd(t.off, i)})
		}
		off, _ := concreteInt(t.off)
		arr := st.store[t.cell].(*Tuple)
		if k, ok := concreteInt(i); ok {
			if off+k >= len(arr.el) || k < 0 {
				fail("spec index %d out of range", k)
			}
			return arr.el[off+k]
		}
		l, ok := concreteInt(t.len)
		if !ok {
			fail("spec index: symbolic length")
		}
		return x.selectSym(arr.el, off, l, i)
	case *Ptr:
		if t.cell == nil && t.elem != nil && x.specMode > 0 {
			x.symArrCtr++
			return x.indexValue(st, x.symValue(st, t.elem, fmt.Sprintf("unspec%d", x.symArrCtr)), i)
		}
		return x.indexValue(st, x.load(st, t), i)
	}
	if o, ok := v.(*Opaque); ok && o.id != nil {
		// component of an unspecified value (e.g. argument of an event that did not happen on this path)
		x.symArrCtr++
		return &Opaque{tag: o.tag, id: freshVar(fmt.Sprintf("unspec%d", x.symArrCtr), SInt)}
	}
	fail("cannot index %s", valueString(v))
	return nil
}

func (x *Exec) evalBin(st *State, env *Env, n *EBin) Value {
	switch n.op {
	case "&&":
		l := x.evalBool(st, env, n.l)
		if l.isFalse() {
			return tFalse // short circuit: the right operand may not be evaluable (nil result on an error path)
		}
		return mkAnd(l, x.evalBool(st, env, n.r))
	case "||":
		l := x.evalBool(st, env, n.l)
		if l.isTrue() {
			return tTrue
		}
		return mkOr(l, x.evalBool(st, env, n.r))
	case "==>":
		l := x.evalBool(st, env, n.l)
		if l.isFalse() {
			return tTrue
		}
		return mkImplies(l, x.evalBool(st, env, n.r))
	case "<==>":
		return mkEq(x.evalBool(st, env, n.l), x.evalBool(st, env, n.r))
	}
	l := x.eval(st, env, n.l)
	r := x.eval(st, env, n.r)
	if n.op == "==" {
		return x.valuesEqual(l, r)
	}
	if n.op == "!=" {
		return mkNot(x.valuesEqual(l, r))
	}
	a, ok1 := l.(*Term)
	b, ok2 := r.(*Term)
	if !ok1 || !ok2 {
		fail("operator %s on non-scalar operands %s, %s", n.op, valueString(l), valueString(r))
	}
	switch n.op {
	case "+":
		return mkAdd(a, b)
	case "-":
		return mkSub(a, b)
	case "*":
		return mkMul(a, b)
	case "/":
		if a.sort == SInt && b.sort == SInt {
			return mkIntQuo(a, b)
		}
		return mkDiv(a, b)
	case "%":
		return mkIntRem(a, b)
	case "<":
		return mkLt(a, b)
	case "<=":
		return mkLe(a, b)
	case ">":
		return mkGt(a, b)
	case ">=":
		return mkGe(a, b)
	}
	fail("unknown operator %s", n.op)
	return nil
}

func (x *Exec) evalCall(st *State, env *Env, n *ECall) Value {
	// builtin spec functions and macros
	if id, ok := n.fun.(*EIdent); ok {
		bv, bound := env.lookup(id.name)
		if _, isFn := bv.(*Func); bound && !isFn {
			bound = false // a Go variable that happens to share the name of a spec function is not callable
		}
		if !bound {
			if v, ok := x.specBuiltin(st, env, id.name, n.args); ok {
				return v
			}
			if sf, ok := x.specs[id.name]; ok {
				if len(sf.params) != len(n.args) {
					fail("spec function %s: wrong number of arguments", id.name)
				}
				if sf.rec {
					return x.evalRecSpec(st, env, sf, n.args)
				}
				ne := &Env{vars: map[string]Value{}, pkg: env.pkg, old: env.old, oldEnv: env.oldEnv}
				for i, p := range sf.params {
					v := x.eval(st, env, n.args[i])
					if p.typ == "real" {
						v = x.coerceTo(v, types.Typ[types.Float64])
					}
					ne.vars[p.name] = v
				}
				return x.eval(st, ne, sf.body)
			}
		}
	}
	var args []Value
	for _, a := range n.args {
		args = append(args, x.eval(st, env, a))
	}
	// method call?
	if sel, ok := n.fun.(*ESel); ok {
		isPkg := false
		if id, ok := sel.x.(*EIdent); ok {
			if _, bound := env.lookup(id.name); !bound {
				if x.pkgByNm[id.name] != nil || id.name == "math" {
					isPkg = true
				}
			}
		}
		if !isPkg {
			recv := x.eval(st, env, sel.x)
			if f, ok := x.funcField(st, recv, sel.name); ok {
				if f.fn != nil {
					x.coerceArgs(args, f.fn.Signature)
				}
				return x.specGoCall(st, func() []Out { return x.callClosure(st, f, args, 1) })
			}
			return x.specMethodCall(st, recv, sel.name, args)
		}
	}
	fv := x.eval(st, env, n.fun)
	f, ok := fv.(*Func)
	if !ok {
		fail("call of non-function in spec: %s", valueString(fv))
	}
	if strings.HasPrefix(f.builtin, "math.") {
		mp := x.prog.ImportedPackage("math")
		if mp == nil {
			fail("package math not loaded")
		}
		f = &Func{fn: mp.Func(f.builtin[5:])}
		if f.fn == nil {
			fail("unknown math function")
		}
	}
	if f.fn != nil {
		args = x.packVariadic(st, args, f.fn.Signature)
		x.coerceArgs(args, f.fn.Signature)
	}
	return x.specGoCall(st, func() []Out { return x.callClosure(st, f, args, 1) })
}

// evalRecSpec: an application of a recursively defined spec function is an
// uninterpreted value constrained by one unfolding of its defining equation
// (the recursive calls inside the unfolding are left folded).
func (x *Exec) evalRecSpec(st *State, env *Env, sf *SpecFunc, argEs []Expr) Value {
	ne := &Env{vars: map[string]Value{}, pkg: env.pkg, old: env.old, oldEnv: env.oldEnv}
	var flat []*Term
	usedHeap := false
	for i, p := range sf.params {
		v := x.eval(st, env, argEs[i])
		if p.typ == "real" {
			v = x.coerceTo(v, types.Typ[types.Float64])
		}
		ne.vars[p.name] = v
		if !x.flattenIdentity(v, &flat, &usedHeap) {
			fail("spec function %s: argument %s cannot be an argument of a recursive definition", sf.name, p.name)
		}
	}
	if usedHeap {
		flat = append(flat, mkInt(int64(x.heapEpoch(st))))
	}
	srt := SInt
	scalar := true
	switch sf.result {
	case "int":
	case "real":
		srt = SReal
	case "bool":
		srt = SBool
	default:
		scalar = false
	}
	if !scalar {
		// aggregate result (a matrix, a vector): one uninterpreted application per component
		rt := x.resolveType(env.pkg, sf.result)
		if !ufSupported(rt) {
			fail("spec function %s: result type %s is not an aggregate of numbers", sf.name, sf.result)
		}
		rv := x.ufResult(st, "spec_"+sf.name, rt, flat)
		var leaves []*Term
		flatten(rv, &leaves)
		if len(leaves) == 0 {
			fail("spec function %s: empty result", sf.name)
		}
		key := leaves[0].id
		if x.recDepth == 0 && !st.unfolded[key] {
			m := make(map[int]bool, len(st.unfolded)+1)
			for k := range st.unfolded {
				m[k] = true
			}
			m[key] = true
			st.unfolded = m
			x.recDepth++
			body := x.coerceTo(x.eval(st, ne, sf.body), rt)
			x.recDepth--
			st.axiom(x.valuesEqual(rv, body))
		}
		return rv
	}
	r := x.ufApp(st, "spec_"+sf.name, srt, flat)
	if x.recDepth == 0 && !st.unfolded[r.id] {
		m := make(map[int]bool, len(st.unfolded)+1)
		for k := range st.unfolded {
			m[k] = true
		}
		m[r.id] = true
		st.unfolded = m
		x.recDepth++
		body := x.eval(st, ne, sf.body)
		x.recDepth--
		bt, ok := body.(*Term)
		if !ok {
			fail("spec function %s: body is not a scalar", sf.name)
		}
		st.axiom(mkEq(r, coerce(bt, srt)))
	}
	return r
}

// flattenIdentity: scalars by value, pointers and slices by identity (the
// result then also depends on the heap epoch).
func (x *Exec) flattenIdentity(v Value, out *[]*Term, usedHeap *bool) bool {
	switch t := v.(type) {
	case *Ptr:
		*usedHeap = true
		if t.cell == nil {
			*out = append(*out, mkInt(0), mkInt(0))
			return true
		}
		*out = append(*out, mkInt(int64(t.cell.id)))
		for _, k := range t.path {
			*out = append(*out, mkInt(int64(k)))
		}
		if t.sym != nil {
			*out = append(*out, t.sym)
		} else {
			*out = append(*out, mkInt(-1))
		}
		return true
	case *SliceV:
		*usedHeap = true
		if t.cell == nil {
			*out = append(*out, mkInt(0), mkInt(0), mkInt(0))
			return true
		}
		*out = append(*out, mkInt(int64(t.cell.id)), t.off, t.len)
		return true
	case *Tuple:
		for _, e := range t.el {
			if !x.flattenIdentity(e, out, usedHeap) {
				return false
			}
		}
		return true
	}
	return flatten(v, out)
}

// eventMatches: an event of the ghost log is named by its full kind, by a
// suffix of it, or - for summarised calls of methods, logged as
// "call:Type.method" - by "call:method" (any receiver type).
func eventMatches(kind, nm string) bool {
	if kind == "ext:"+nm || kind == nm || strings.HasSuffix(kind, nm) {
		return true
	}
	if strings.HasPrefix(kind, "call:") && strings.HasPrefix(nm, "call:") && !strings.Contains(nm[5:], ".") {
		return strings.HasSuffix(kind, "."+nm[5:])
	}
	return false
}

// splitTopLevel splits at commas that are not nested in brackets.
func splitTopLevel(s string) []string {
	var out []string
	depth := 0
	last := 0
	for i, c := range s {
		switch c {
		case '(', '[', '{':
			depth++
		case ')', ']', '}':
			depth--
		case ',':
			if depth == 0 {
				out = append(out, s[last:i])
				last = i + 1
			}
		}
	}
	return append(out, s[last:])
}

// funcField: a function-valued struct field reachable from v (e.g. s.extrude).
func (x *Exec) funcField(st *State, v Value, name string) (f *Func, ok bool) {
	defer func() {
		if r := recover(); r != nil {
			f, ok = nil, false
		}
	}()
	fv := x.selectField(st, v, name)
	f, ok = fv.(*Func)
	return
}

// packVariadic turns trailing spec arguments into the slice a variadic
// function expects.
func (x *Exec) packVariadic(st *State, args []Value, sig *types.Signature) []Value {
	if !sig.Variadic() {
		return args
	}
	n := sig.Params().Len()
	if len(args) == n {
		if _, ok := args[n-1].(*SliceV); ok {
			return args
		}
	}
	if len(args) < n-1 {
		return args
	}
	st2 := sig.Params().At(n - 1).Type().(*types.Slice)
	rest := args[n-1:]
	el := make([]Value, len(rest))
	for i, a := range rest {
		el[i] = x.coerceTo(a, st2.Elem())
		if ao, ok := a.(*AbsObj); ok {
			el[i] = ao
		}
	}
	cell := newCell("variadic", types.NewArray(st2.Elem(), int64(len(el))))
	st.store[cell] = &Tuple{typ: cell.typ, el: el}
	out := append([]Value{}, args[:n-1]...)
	return append(out, &SliceV{cell: cell, off: mkInt(0), len: mkInt(int64(len(el))), cap: mkInt(int64(len(el))), elem: st2.Elem()})
}

func (x *Exec) coerceArgs(args []Value, sig *types.Signature) {
	ps := sig.Params()
	for i := 0; i < ps.Len() && i < len(args); i++ {
		args[i] = x.coerceTo(args[i], ps.At(i).Type())
	}
}

// specGoCall runs real code from within a spec expression; outcomes are merged.
func (x *Exec) specGoCall(st *State, call func() []Out) Value {
	x.specMode++
	defer func() { x.specMode-- }()
	work := st.fork()
	saved := *st
	_ = saved
	// run on the state itself so that axioms/apps accumulate
	mark := cellCtr
	outs := call()
	_ = work
	outs = x.maybeMergeOuts(st, outs, mark)
	var rets []Out
	for _, o := range outs {
		if o.kind == oRet {
			rets = append(rets, o)
		}
	}
	if len(rets) != 1 {
		why := ""
		for _, o := range outs {
			if o.kind != oRet {
				why += " [" + o.msg + "]"
			}
		}
		fail("call in spec expression has %d returning outcomes of %d (not mergeable: impure or panicking)%s", len(rets), len(outs), why)
	}
	if rets[0].st != st {
		// adopt callee state (pure calls only add fresh cells/axioms)
		*st = *rets[0].st
	}
	if len(rets[0].vals) == 1 {
		return rets[0].vals[0]
	}
	return &Tuple{el: rets[0].vals}
}

func (x *Exec) specMethodCall(st *State, recv Value, name string, args []Value) Value {
	if ao, ok := recv.(*AbsObj); ok {
		return x.absObjCall(st, ao, name, args)[0].vals[0]
	}
	if i, ok := recv.(*Iface); ok {
		if i.dyn == nil {
			var it *types.Interface
			if i.styp != nil {
				it, _ = i.styp.Underlying().(*types.Interface)
			}
			if it != nil {
				// a call on a nil interface value in a specification: an unspecified result
				// (the clause has to guard it)
				for k := 0; k < it.NumMethods(); k++ {
					if m := it.Method(k); m.Name() == name {
						rs := m.Type().(*types.Signature).Results()
						if rs.Len() == 1 {
							x.symArrCtr++
							return x.symValue(st, rs.At(0).Type(), fmt.Sprintf("unspec%d", x.symArrCtr))
						}
					}
				}
			}
			fail("method %s on nil interface in spec", name)
		}
		if ao, ok := i.val.(*AbsObj); ok {
			return x.absObjCall(st, ao, name, args)[0].vals[0]
		}
		fn := x.findMethod(i.dyn, name)
		if fn == nil {
			fail("no method %s on %v", name, i.dyn)
		}
		all := append([]Value{i.val}, args...)
		x.coerceArgs(all, fn.Signature)
		return x.specGoCall(st, func() []Out { return x.callFn(st, fn, all, 1) })
	}
	t := x.typeOfValue(st, recv)
	if t == nil {
		fail("cannot call method %s on %s", name, valueString(recv))
	}
	fn := x.findMethod(t, name)
	rv := recv
	if fn == nil {
		if pt, ok := t.(*types.Pointer); ok {
			// value-receiver method through pointer
			fn = x.findMethod(pt.Elem(), name)
			if fn != nil {
				rv = x.load(st, recv.(*Ptr))
			}
		} else {
			// pointer-receiver method on addressable value: make a temp cell
			fn = x.findMethod(types.NewPointer(t), name)
			if fn != nil {
				c := newCell("spec$tmp", t)
				st.store[c] = recv
				rv = &Ptr{cell: c}
			}
		}
	}
	if fn == nil {
		fail("no method %s on %v", name, t)
	}
	all := append([]Value{rv}, args...)
	// signature params exclude receiver; coerce explicit args
	ps := fn.Signature.Params()
	for i := 0; i < ps.Len() && i < len(args); i++ {
		all[i+1] = x.coerceTo(all[i+1], ps.At(i).Type())
	}
	return x.specGoCall(st, func() []Out { return x.callFn(st, fn, all, 1) })
}

func (x *Exec) findMethod(t types.Type, name string) *ssa.Function {
	ms := x.prog.MethodSets.MethodSet(t)
	for i := 0; i < ms.Len(); i++ {
		sel := ms.At(i)
		if sel.Obj().Name() == name {
			return x.prog.MethodValue(sel)
		}
	}
	return nil
}

func (x *Exec) specBuiltin(st *State, env *Env, name string, args []Expr) (Value, bool) {
	num := func(i int) *Term { return x.evalNum(st, env, args[i]) }
	switch name {
	case "sq":
		a := num(0)
		return mkMul(a, a), true
	case "abs":
		return mkAbs(num(0)), true
	case "min":
		r := num(0)
		for i := 1; i < len(args); i++ {
			r = mkMin(r, num(i))
		}
		return r, true
	case "max":
		r := num(0)
		for i := 1; i < len(args); i++ {
			r = mkMax(r, num(i))
		}
		return r, true
	case "sqrt":
		return x.sqrt(st, coerce(num(0), SReal)), true
	case "ite":
		c := x.evalBool(st, env, args[0])
		a := x.eval(st, env, args[1])
		b := x.eval(st, env, args[2])
		v, ok := iteValue(c, a, b)
		if !ok {
			fail("ite: branches not mergeable")
		}
		return v, true
	case "real":
		return coerce(num(0), SReal), true
	case "floor":
		return mkFloor(num(0)), true
	case "len":
		v := x.eval(st, env, args[0])
		switch s := v.(type) {
		case *SliceV:
			return s.len, true
		case *Tuple:
			return mkInt(int64(len(s.el))), true
		case *Str:
			if s.sym == nil {
				return mkInt(int64(len(s.s))), true
			}
		}
		fail("len of %s", valueString(v))
	case "final":
		// the Go variable's value where the clause is evaluated (a parameter that the body
		// reassigns is otherwise read as its entry value in postconditions)
		id, isId := args[0].(*EIdent)
		if !isId || len(args) != 1 {
			fail("final() takes the name of a Go variable")
		}
		for c := env; c != nil; c = c.parent {
			if c.frame != nil {
				if ee, ok := c.frame.env[id.name]; ok {
					if ee.addr {
						if p, ok := ee.v.(*Ptr); ok {
							return x.load(st, p), true
						}
					}
					return ee.v, true
				}
			}
		}
		fail("final(%s): no such Go variable on this path", id.name)
	case "old":
		if env.old == nil || env.oldEnv == nil {
			fail("old() outside postcondition")
		}
		tmp := env.old.fork()
		tmp.apps = st.apps
		tmp.ax = st.ax
		oe := env.oldEnv.child()
		for c := env; c != nil && c != env.oldEnv; c = c.parent {
			for k, v := range c.vars {
				if _, isParam := env.oldEnv.lookup(k); !isParam {
					if _, set := oe.vars[k]; !set {
						oe.vars[k] = v
					}
				}
			}
		}
		v := x.eval(tmp, oe, args[0])
		st.apps = tmp.apps
		st.ax = tmp.ax
		return v, true
	case "pre":
		if env.preSt == nil || env.preEnv == nil {
			fail("pre() outside a loop invariant")
		}
		tmp := env.preSt.fork()
		tmp.apps = st.apps
		tmp.ax = st.ax
		pe := env.preEnv.child()
		for c := env; c != nil; c = c.parent {
			// quantified / let variables of the current clause stay visible
			for k, v := range c.vars {
				if _, ok := pe.vars[k]; !ok {
					pe.vars[k] = v
				}
			}
			if c.frame != nil {
				break
			}
		}
		v := x.eval(tmp, pe, args[0])
		st.apps = tmp.apps
		st.ax = tmp.ax
		return v, true
	case "nev", "evarg", "evptr", "evbefore", "evres":
		strArg := func(i int) string {
			s, ok := x.eval(st, env, args[i]).(*Str)
			if !ok || s.sym != nil {
				fail("%s needs a literal event name", name)
			}
			return s.s
		}
		match := func(ev Event, nm string) bool { return eventMatches(ev.kind, nm) }
		evs := st.log[st.logMark:]
		switch name {
		case "nev":
			nm := strArg(0)
			n := 0
			for _, ev := range evs {
				if match(ev, nm) {
					n++
				}
			}
			return mkInt(int64(n)), true
		case "evarg", "evres", "evptr":
			nm := strArg(0)
			k, ok1 := concreteInt(num(1))
			ai, ok2 := concreteInt(num(2))
			if !ok1 || !ok2 {
				fail("evarg needs concrete indices")
			}
			n := 0
			for _, ev := range evs {
				if match(ev, nm) {
					if n == k {
						if name == "evres" {
							if ai >= len(ev.res) {
								fail("evres: event %s has %d results", nm, len(ev.res))
							}
							return ev.res[ai], true
						}
						if ai >= len(ev.args) {
							fail("evarg: event %s has %d arguments", nm, len(ev.args))
						}
						if name == "evptr" {
							// the argument as passed (a pointer stays a pointer)
							if ai >= len(ev.raw) {
								fail("evptr: event %s does not record its arguments as passed", nm)
							}
							return ev.raw[ai], true
						}
						return ev.args[ai], true
					}
					n++
				}
			}
			x.symArrCtr++
			return &Opaque{tag: "noevent", id: freshVar(fmt.Sprintf("noevent%d", x.symArrCtr), SInt)}, true
		default:
			a, b := strArg(0), strArg(1)
			ia, ib := -1, -1
			for i, ev := range evs {
				if match(ev, a) && ia < 0 {
					ia = i
				}
				if match(ev, b) {
					ib = i
				}
			}
			return mkBool(ia >= 0 && ib >= 0 && ia < ib), true
		}
	case "nsent":
		n := 0
		base := 0
		if env.old != nil {
			base = len(env.old.log)
		}
		for _, ev := range st.log[base:] {
			if ev.kind == "send" {
				n++
			}
		}
		return mkInt(int64(n)), true
	case "sent":
		k, ok := concreteInt(num(0))
		if !ok {
			fail("sent(k) needs a concrete k")
		}
		base := 0
		if env.old != nil {
			base = len(env.old.log)
		}
		n := 0
		for _, ev := range st.log[base:] {
			if ev.kind == "send" {
				if n == k {
					return ev.args[1], true
				}
				n++
			}
		}
		// no such send on this path: unspecified batch (the clause must guard it)
		x.symArrCtr++
		return x.symValue(st, types.NewSlice(types.NewPointer(types.Typ[types.Int])), fmt.Sprintf("nosend%d", x.symArrCtr)), true
	case "samecell":
		a, ok1 := x.eval(st, env, args[0]).(*SliceV)
		b, ok2 := x.eval(st, env, args[1]).(*SliceV)
		if !ok1 || !ok2 {
			fail("samecell needs slices")
		}
		return mkBool(a.cell != nil && a.cell == b.cell), true
	case "maphas", "mapval":
		mv, ok := x.eval(st, env, args[0]).(*MapV)
		if !ok {
			fail("%s needs a map", name)
		}
		k := x.eval(st, env, args[1])
		if mv.cell == nil {
			r, concrete := keyRepr(k)
			if !concrete {
				if len(mv.keys) == 0 {
					if name == "maphas" {
						return tFalse, true
					}
					return zeroValue(mv.typ.Underlying().(*types.Map).Elem()), true
				}
				fail("%s: symbolic key on a concrete map", name)
			}
			e, found := mv.entries[r]
			if name == "maphas" {
				return mkBool(found), true
			}
			if found {
				return e[1], true
			}
			return zeroValue(mv.typ.Underlying().(*types.Map).Elem()), true
		}
		val, has := x.symMapLookup(st, mv, k)
		if name == "maphas" {
			return has, true
		}
		return val, true
	case "pow2":
		x.curState = st
		return x.pow2(num(0)), true
	case "nevmatch":
		// number of events of the given kind (since the last cut) whose argument equals the value
		s0, ok := x.eval(st, env, args[0]).(*Str)
		if !ok || s0.sym != nil {
			fail("nevmatch needs a literal event name")
		}
		ai, ok2 := concreteInt(num(1))
		if !ok2 {
			fail("nevmatch needs a concrete argument index")
		}
		want := x.eval(st, env, args[2])
		sum := mkInt(0)
		for _, ev := range st.log[st.logMark:] {
			if eventMatches(ev.kind, s0.s) {
				if ai < len(ev.args) {
					sum = mkAdd(sum, mkIte(x.valuesEqual(ev.args[ai], want), mkInt(1), mkInt(0)))
				}
			}
		}
		return sum, true
	case "folded":
		// the value of the expression with recursively defined spec functions left folded (no
		// defining equation is added for the applications inside): for clauses that only pass such
		// values around
		x.recDepth++
		v := x.eval(st, env, args[0])
		x.recDepth--
		return v, true
	case "merged":
		// identity; forces single-valued (path-merged) evaluation of a call in a let
		return x.eval(st, env, args[0]), true
	case "isnil":
		v := x.eval(st, env, args[0])
		return x.isNil(v), true
	case "sin", "cos":
		s, c := x.sincos(st, coerce(num(0), SReal))
		if name == "sin" {
			return s, true
		}
		return c, true
	}
	return nil, false
}

func (x *Exec) isNil(v Value) *Term {
	switch t := v.(type) {
	case *Ptr:
		if t.cell != nil && t.mayNil && t.sym != nil {
			return mkEq(t.sym, mkInt(0))
		}
		return mkBool(t.cell == nil)
	case *Iface:
		return mkBool(t.dyn == nil)
	case *AbsObj:
		if t.nilT != nil {
			return t.nilT
		}
		return tFalse
	case *SliceV:
		if t.cell != nil && t.nilT != nil {
			return t.nilT
		}
		return mkBool(t.cell == nil)
	case *Opaque:
		if t.nilT != nil {
			return t.nilT
		}
		return mkBool(t.nil)
	case *Func:
		return mkBool(t.fn == nil && t.abs == nil && t.builtin == "")
	case *MapV:
		return mkBool(t.nilmap)
	}
	fail("isnil of %s", valueString(v))
	return nil
}
