package main

// Replay of solver counterexamples against the real code: a Go test is
// generated from the contract and the model and injected with go test -overlay.

import (
	"bytes"
	"math/big"
	"context"
	"encoding/json"
	"fmt"
	"go/types"
	"math"
	"os"
	"os/exec"
	"path/filepath"
	"sort"
	"strconv"
	"strings"
	"time"
)

type replayGen struct {
	x      *Exec
	ct     *Contract
	model  map[string]string
	pkg    *types.Package
	st     *State // entry state (for pointer inputs)
	stubs  []string
	nstub  int
	helper map[string]bool
	o      *Obligation
	fail   string
	solid  bool
}

func (g *replayGen) qual(p *types.Package) string {
	if p == g.pkg {
		return ""
	}
	return p.Name()
}

func (g *replayGen) termLit(t *Term) string {
	switch t.op {
	case "c":
		if t.sort == SBool {
			return fmt.Sprintf("%v", t.b)
		}
		if t.sort == SInt {
			return t.rat.Num().String()
		}
		f, _ := t.rat.Float64()
		return fmtFloat(f)
	case "v":
		s, ok := g.model[t.name]
		if !ok {
			switch t.sort {
			case SBool:
				return "false"
			case SInt:
				return "0"
			}
			return "0.0"
		}
		if t.sort == SBool {
			return s
		}
		f, ok := smtValueToFloat(s)
		if !ok {
			g.fail = "model value not numeric: " + s
			return "0"
		}
		if t.sort == SInt {
			return strconv.FormatInt(int64(f), 10)
		}
		return fmtFloat(f)
	}
	// compound term: evaluate numerically under the model
	f, ok := g.evalTerm(t)
	if !ok {
		g.fail = "cannot evaluate input term"
		return "0"
	}
	if t.sort == SInt {
		return strconv.FormatInt(int64(f), 10)
	}
	if t.sort == SBool {
		return fmt.Sprintf("%v", f != 0)
	}
	return fmtFloat(f)
}

func fmtFloat(f float64) string {
	s := strconv.FormatFloat(f, 'g', -1, 64)
	if !strings.ContainsAny(s, ".eE") {
		s += ".0"
	}
	return "float64(" + s + ")"
}

func (g *replayGen) evalTerm(t *Term) (float64, bool) {
	switch t.op {
	case "c":
		if t.sort == SBool {
			if t.b {
				return 1, true
			}
			return 0, true
		}
		f, _ := t.rat.Float64()
		return f, true
	case "v":
		s, ok := g.model[t.name]
		if !ok {
			return 0, true
		}
		if s == "true" {
			return 1, true
		}
		if s == "false" {
			return 0, true
		}
		return smtValueToFloat(s)
	}
	var a []float64
	for _, x := range t.args {
		v, ok := g.evalTerm(x)
		if !ok {
			return 0, false
		}
		a = append(a, v)
	}
	b2f := func(b bool) float64 {
		if b {
			return 1
		}
		return 0
	}
	switch t.op {
	case "+":
		return a[0] + a[1], true
	case "-":
		return a[0] - a[1], true
	case "*":
		return a[0] * a[1], true
	case "/":
		return a[0] / a[1], true
	case "neg":
		return -a[0], true
	case "to_real":
		return a[0], true
	case "to_int":
		return math.Floor(a[0]), true
	case "ite":
		if a[0] != 0 {
			return a[1], true
		}
		return a[2], true
	case "<":
		return b2f(a[0] < a[1]), true
	case "<=":
		return b2f(a[0] <= a[1]), true
	case "=":
		return b2f(a[0] == a[1]), true
	case "not":
		return b2f(a[0] == 0), true
	case "and":
		for _, v := range a {
			if v == 0 {
				return 0, true
			}
		}
		return 1, true
	case "or":
		for _, v := range a {
			if v != 0 {
				return 1, true
			}
		}
		return 0, true
	}
	return 0, false
}

func (g *replayGen) typeStr(t types.Type) string {
	return types.TypeString(t, g.qual)
}

// lit renders an input value as a Go expression.
func (g *replayGen) lit(v Value, t types.Type) string {
	switch x := v.(type) {
	case *Term:
		s := g.termLit(x)
		if t != nil {
			if b, ok := t.Underlying().(*types.Basic); ok {
				if _, named := t.(*types.Named); named || (b.Kind() != types.Float64 && b.Kind() != types.Int && b.Kind() != types.Bool) {
					return g.typeStr(t) + "(" + s + ")"
				}
			}
		}
		return s
	case *Tuple:
		var parts []string
		for i, e := range x.el {
			var ft types.Type
			switch u := x.typ.Underlying().(type) {
			case *types.Struct:
				ft = u.Field(i).Type()
			case *types.Array:
				ft = u.Elem()
			}
			parts = append(parts, g.lit(e, ft))
		}
		return g.typeStr(x.typ) + "{" + strings.Join(parts, ", ") + "}"
	case *Ptr:
		if x.cell == nil {
			return "nil"
		}
		if len(x.path) == 0 {
			if inner, ok := g.st.store[x.cell]; ok {
				return "&" + g.lit(inner, x.cell.typ)
			}
		}
	case *AbsObj:
		if g.solid {
			bt := x.bb.(*Tuple)
			return fmt.Sprintf("verifSolid%d(%s)", x.dim, g.lit(bt, bt.typ))
		}
		return g.stubShape(x)
	case *Func:
		if x.abs != nil {
			return g.stubFunc(x.abs)
		}
	case *Iface:
		if x.dyn == nil {
			return "nil"
		}
	case *SliceV:
		if x.cell == nil {
			return "nil"
		}
		if sa, ok := g.st.store[x.cell].(*SymArr); ok {
			lf, ok := g.evalTerm(x.len)
			l := int(lf)
			if !ok || l < 0 || l > 256 {
				g.fail = "symbolic slice length not reconstructible"
				return "nil"
			}
			var parts []string
			for i := 0; i < l; i++ {
				parts = append(parts, g.symElemLit(sa.elem, sa.name, float64(i)))
			}
			ts := "[]" + g.typeStr(x.elem)
			if x.named != nil {
				ts = g.typeStr(x.named)
			}
			return ts + "{" + strings.Join(parts, ", ") + "}"
		}
		if l, ok := concreteInt(x.len); ok {
			if arr, ok := g.st.store[x.cell].(*Tuple); ok {
				off, _ := concreteInt(x.off)
				var parts []string
				for i := 0; i < l; i++ {
					parts = append(parts, g.lit(arr.el[off+i], x.elem))
				}
				return "[]" + g.typeStr(x.elem) + "{" + strings.Join(parts, ", ") + "}"
			}
		}
	}
	g.fail = "input of kind " + fmt.Sprintf("%T", v) + " cannot be reconstructed"
	return "nil"
}

// symElemLit reconstructs element idx of a symbolic array from the recorded
// (Ackermannized) select applications and the model.
func (g *replayGen) symElemLit(t types.Type, name string, idx float64) string {
	switch u := t.Underlying().(type) {
	case *types.Basic:
		val := "0"
		for _, ap := range g.o.apps {
			if ap.fn == "sel_"+name && len(ap.args) == 1 {
				if iv, ok := g.evalTerm(ap.args[0]); ok && iv == idx {
					val = g.termLit(ap.res)
				}
			}
		}
		if _, named := t.(*types.Named); named {
			return g.typeStr(t) + "(" + val + ")"
		}
		return val
	case *types.Struct:
		var parts []string
		for i := 0; i < u.NumFields(); i++ {
			parts = append(parts, g.symElemLit(u.Field(i).Type(), name+"."+u.Field(i).Name(), idx))
		}
		return g.typeStr(t) + "{" + strings.Join(parts, ", ") + "}"
	case *types.Array:
		var parts []string
		for i := 0; i < int(u.Len()); i++ {
			parts = append(parts, g.symElemLit(u.Elem(), fmt.Sprintf("%s.%d", name, i), idx))
		}
		return g.typeStr(t) + "{" + strings.Join(parts, ", ") + "}"
	}
	g.fail = "unsupported symbolic element type"
	return "nil"
}

// stubShape: table-driven stand-in for an abstract operand realising the
// model: returns the model's values at the points the obligation evaluated
// and +1e9 elsewhere; box as in the model.
func (g *replayGen) stubShape(o *AbsObj) string {
	g.nstub++
	name := fmt.Sprintf("verifStub%d", g.nstub)
	vecT := "v2.Vec"
	boxT := "Box2"
	if o.dim == 3 {
		vecT = "v3.Vec"
		boxT = "Box3"
	}
	if g.pkg.Name() != "sdf" {
		boxT = "sdf." + boxT
	}
	var pts, vals []string
	for _, ap := range g.o.apps {
		if ap.fn != "Ev_"+o.name {
			continue
		}
		var cs []string
		for _, a := range ap.args {
			f, ok := g.evalTerm(a)
			if !ok {
				g.fail = "cannot evaluate operand point"
			}
			cs = append(cs, fmtFloat(f))
		}
		pts = append(pts, vecT+"{"+strings.Join(cs, ", ")+"}")
		f, _ := g.evalTerm(ap.res)
		vals = append(vals, fmtFloat(f))
	}
	bt := o.bb.(*Tuple)
	g.stubs = append(g.stubs, fmt.Sprintf(`
type %[1]s struct{}

var %[1]sPts = []%[2]s{%[3]s}
var %[1]sVals = []float64{%[4]s}

func (%[1]s) Evaluate(p %[2]s) float64 {
	best, bi := 1e-6, -1
	for i, q := range %[1]sPts {
		if d := p.Sub(q).Length(); d <= best*(1+q.Length()) {
			best, bi = d/(1+q.Length()), i
		}
	}
	if bi >= 0 {
		return %[1]sVals[bi]
	}
	return 1e9
}
func (%[1]s) BoundingBox() %[5]s { return %[6]s }
`, name, vecT, strings.Join(pts, ", "), strings.Join(vals, ", "), boxT, g.lit(bt, bt.typ)))
	return name + "{}"
}

func (g *replayGen) stubFunc(a *AbsFun) string {
	// table-driven closure over the recorded applications
	var ps []string
	for i := 0; i < a.sig.Params().Len(); i++ {
		ps = append(ps, fmt.Sprintf("a%d %s", i, g.typeStr(a.sig.Params().At(i).Type())))
	}
	if a.sig.Results().Len() != 1 {
		g.fail = "abstract function with several results"
		return "nil"
	}
	rt := a.sig.Results().At(0).Type()
	if _, ok := rt.Underlying().(*types.Basic); !ok {
		g.fail = "abstract function with aggregate result"
		return "nil"
	}
	var cases []string
	for _, ap := range g.o.apps {
		if ap.fn != a.name+"#0" {
			continue
		}
		var conds []string
		for i, t := range ap.args {
			f, _ := g.evalTerm(t)
			conds = append(conds, fmt.Sprintf("verifNear(a%d, %s)", i, fmtFloat(f)))
		}
		f, _ := g.evalTerm(ap.res)
		cases = append(cases, fmt.Sprintf("if %s { return %s }", strings.Join(conds, " && "), fmtFloat(f)))
	}
	return fmt.Sprintf("func(%s) %s { %s; return 0 }", strings.Join(ps, ", "), g.typeStr(rt), strings.Join(cases, "; "))
}

//-----------------------------------------------------------------------------
// spec expression -> Go source

func (g *replayGen) goExpr(e Expr) string {
	switch n := e.(type) {
	case *ENum:
		if n.isInt {
			return n.rat.Num().String()
		}
		f, _ := n.rat.Float64()
		return strconv.FormatFloat(f, 'g', -1, 64)
	case *EStr:
		return strconv.Quote(n.s)
	case *EIdent:
		switch n.name {
		case "PI", "Pi":
			return "math.Pi"
		case "result":
			return "r"
		}
		return n.name
	case *EUn:
		if n.op == "-" {
			return "(-" + g.goExpr(n.x) + ")"
		}
		return "(!" + g.goExpr(n.x) + ")"
	case *EBin:
		l, r := g.goExpr(n.l), g.goExpr(n.r)
		switch n.op {
		case "==>":
			return "(!(" + l + ") || (" + r + "))"
		case "<==>":
			return "((" + l + ") == (" + r + "))"
		case "==":
			return "verifEq(" + l + ", " + r + ")"
		case "!=":
			return "!verifEq(" + l + ", " + r + ")"
		case "<":
			return "verifLt(" + l + ", " + r + ")"
		case "<=":
			return "verifLe(" + l + ", " + r + ")"
		case ">":
			return "verifLt(" + r + ", " + l + ")"
		case ">=":
			return "verifLe(" + r + ", " + l + ")"
		}
		return "(" + l + " " + n.op + " " + r + ")"
	case *ESel:
		return g.goExpr(n.x) + "." + n.name
	case *EIndex:
		return g.goExpr(n.x) + "[" + g.goExpr(n.i) + "]"
	case *EComp:
		var parts []string
		for _, a := range n.elems {
			parts = append(parts, g.goExpr(a))
		}
		return n.typ + "{" + strings.Join(parts, ", ") + "}"
	case *ECall:
		var args []string
		for _, a := range n.args {
			args = append(args, g.goExpr(a))
		}
		if id, ok := n.fun.(*EIdent); ok {
			switch id.name {
			case "sq", "abs", "min", "max", "sqrt", "floor":
				return "verif_" + id.name + "(" + strings.Join(args, ", ") + ")"
			case "real":
				return "float64(" + args[0] + ")"
			case "merged":
				return args[0]
			case "ite":
				return "verifIte(" + strings.Join(args, ", ") + ")"
			case "len":
				return "len(" + args[0] + ")"
			case "isnil":
				return "(" + args[0] + " == nil)"
			case "old":
				g.fail = "old() not supported in replay"
				return "nil"
			case "sin":
				return "math.Sin(" + args[0] + ")"
			case "cos":
				return "math.Cos(" + args[0] + ")"
			}
			if sf, ok := g.x.specs[id.name]; ok {
				g.needSpec(sf)
				return "verifSpec_" + id.name + "(" + strings.Join(args, ", ") + ")"
			}
		}
		return g.goExpr(n.fun) + "(" + strings.Join(args, ", ") + ")"
	}
	g.fail = fmt.Sprintf("cannot translate %T", e)
	return "nil"
}

func isBoolExpr(e Expr) bool {
	switch n := e.(type) {
	case *EBin:
		switch n.op {
		case "==>", "<==>", "==", "!=", "<", "<=", ">", ">=", "&&", "||":
			return true
		}
	case *EUn:
		return n.op == "!"
	case *EIdent:
		return n.name == "true" || n.name == "false"
	}
	return false
}

func (g *replayGen) needSpec(sf *SpecFunc) {
	if g.helper[sf.name] {
		return
	}
	g.helper[sf.name] = true
	var ps []string
	for _, p := range sf.params {
		t := p.typ
		if t == "real" {
			t = "float64"
		}
		ps = append(ps, p.name+" "+t)
	}
	rt := "float64"
	if isBoolExpr(sf.body) {
		rt = "bool"
	}
	body := g.goExpr(sf.body)
	g.stubs = append(g.stubs, fmt.Sprintf("func verifSpec_%s(%s) %s { return %s }\n", sf.name, strings.Join(ps, ", "), rt, body))
}

const replayHelpers = `
func verifF(a any) (float64, bool) {
	switch v := a.(type) {
	case float64:
		return v, true
	case float32:
		return float64(v), true
	case int:
		return float64(v), true
	case int64:
		return float64(v), true
	case uint32:
		return float64(v), true
	}
	return 0, false
}
func verifTol(a, b float64) float64 {
	return 1e-9 * math.Max(1, math.Max(math.Abs(a), math.Abs(b)))
}
func verifNear(a, b float64) bool { return math.Abs(a-b) <= verifTol(a, b) }
func verifEq(a, b any) bool {
	x, ok1 := verifF(a)
	y, ok2 := verifF(b)
	if ok1 && ok2 {
		return math.Abs(x-y) <= verifTol(x, y)
	}
	return reflect.DeepEqual(a, b)
}
func verifLe(a, b any) bool { x, _ := verifF(a); y, _ := verifF(b); return x <= y+verifTol(x, y) }
func verifLt(a, b any) bool { x, _ := verifF(a); y, _ := verifF(b); return x < y-verifTol(x, y) }
func verif_sq(a float64) float64    { return a * a }
func verif_abs(a float64) float64   { return math.Abs(a) }
func verif_sqrt(a float64) float64  { return math.Sqrt(a) }
func verif_floor(a float64) float64 { return math.Floor(a) }
func verif_min(a float64, b ...float64) float64 {
	for _, x := range b {
		a = math.Min(a, x)
	}
	return a
}
func verif_max(a float64, b ...float64) float64 {
	for _, x := range b {
		a = math.Max(a, x)
	}
	return a
}
func verifIte[T any](c bool, a, b T) T {
	if c {
		return a
	}
	return b
}
var _ = reflect.DeepEqual
var _ = v2.Vec{}
var _ = v3.Vec{}

// verifRegion: a search region around the shape under test and the model point.
func verifRegion(r any, m any) (lo, hi [3]float64) {
	for i := range lo {
		lo[i], hi[i] = -1, 1
	}
	grow := func(x, y, z float64) {
		for i, v := range [3]float64{x, y, z} {
			lo[i] = math.Min(lo[i], v)
			hi[i] = math.Max(hi[i], v)
		}
	}
	switch p := m.(type) {
	case v3.Vec:
		grow(p.X, p.Y, p.Z)
	case v2.Vec:
		grow(p.X, p.Y, 0)
	}
	switch s := r.(type) {
	case interface{ BoundingBox() SDFPKG_Box3 }:
		if !reflect.ValueOf(s).IsNil() {
			b := s.BoundingBox()
			grow(b.Min.X, b.Min.Y, b.Min.Z)
			grow(b.Max.X, b.Max.Y, b.Max.Z)
		}
	case interface{ BoundingBox() SDFPKG_Box2 }:
		if !reflect.ValueOf(s).IsNil() {
			b := s.BoundingBox()
			grow(b.Min.X, b.Min.Y, 0)
			grow(b.Max.X, b.Max.Y, 0)
		}
	}
	for i := range lo {
		d := hi[i] - lo[i]
		lo[i] -= 0.75*d + 0.013
		hi[i] += 0.75*d + 0.017
	}
	return
}

// solid operands: a library box that is solid on exactly the model's operand box
func verifSolid2(b SDFPKG_Box2) SDFPKG_SDF2 {
	size := b.Size()
	if size.X <= 0 || size.Y <= 0 {
		size = size.Max(v2.Vec{1e-6, 1e-6})
	}
	return SDFPKG_Transform2D(SDFPKG_Box2D(size, 0), SDFPKG_Translate2d(b.Center()))
}
func verifSolid3(b SDFPKG_Box3) SDFPKG_SDF3 {
	size := b.Size()
	if size.X <= 0 || size.Y <= 0 || size.Z <= 0 {
		size = size.Max(v3.Vec{1e-6, 1e-6, 1e-6})
	}
	s, _ := SDFPKG_Box3D(size, 0)
	return SDFPKG_Transform3D(s, SDFPKG_Translate3d(b.Center()))
}
`

// replayOnRealCode builds and runs the replay test. Returns a JSON-able record.
func replayOnRealCode(e *Engine, o *Obligation) map[string]interface{} {
	rec := map[string]interface{}{"reproduced": false}
	ct := o.contract
	if ct == nil || (ct.fn == nil && !ct.lemma) {
		rec["reason"] = "obligation is not attached to a function contract (table / frame obligation)"
		return rec
	}
	if (strings.Contains(o.name, "/safety.") || strings.Contains(o.name, "/call.")) && ct.pkg == "render" && (strings.Contains(ct.fnName, "STL") || ct.fnName == "parseFloats") {
		return stlLoaderReplay(e, o)
	}
	if !strings.Contains(o.name, "/post.") {
		rec["reason"] = "only postcondition obligations have a generated replay"
		return rec
	}
	// complete model: re-solve with all assumptions
	model := o.res.model
	full := append(append([]*Term{}, o.assume...), mkNot(o.goal))
	// prefer a robust witness: non-degenerate operand boxes, moderate magnitudes
	var extras []*Term
	half := mkRat(big.NewRat(1, 2), SReal)
	var inputLeaves []*Term
	for _, v := range o.inputs {
		if ao, ok := v.(*AbsObj); ok {
			bt := ao.bb.(*Tuple)
			mn, mx := bt.el[0].(*Tuple), bt.el[1].(*Tuple)
			for i := range mn.el {
				extras = append(extras, mkLe(half, mkSub(mx.el[i].(*Term), mn.el[i].(*Term))))
			}
			flatten(ao.bb, &inputLeaves)
			continue
		}
		flatten(v, &inputLeaves)
	}
	for _, t := range inputLeaves {
		if t.op == "v" && t.sort == SReal {
			extras = append(extras, mkLe(mkRealInt(-20), t), mkLe(t, mkRealInt(20)))
		}
	}
	solved := false
	if len(extras) > 0 {
		r2 := solveQuery(append(append([]*Term{}, full...), extras...), []string{"robust model for replay"}, "", 20*time.Second, false)
		if r2.status == "sat" {
			model = r2.model
			solved = true
		}
	}
	if !solved {
		r2 := solveQuery(full, []string{"full model for replay"}, "", 30*time.Second, false)
		if r2.status == "sat" {
			model = r2.model
		}
	}
	fn := ct.fn
	pkg := e.x.pkgByNm[ct.pkg]
	if fn != nil {
		pkg = fn.Package()
		if pkg == nil && fn.Parent() != nil {
			pkg = fn.Parent().Package()
		}
	}
	g := &replayGen{x: e.x, ct: ct, model: model, pkg: pkg.Pkg, st: o.entry, helper: map[string]bool{}, o: o}
	var body strings.Builder
	// inputs
	var names []string
	for n := range o.inputs {
		names = append(names, n)
	}
	sort.Strings(names)
	isParent := fn != nil && fn.Parent() != nil
	searchSet := map[string]bool{}
	searchTypes := map[string]string{}
	var searchVars []string
	for _, n := range strings.Fields(ct.opts["search"]) {
		if _, ok := o.inputs[n]; ok {
			searchSet[n] = true
			searchVars = append(searchVars, n)
		}
	}
	g.solid = ct.opts["solid-operands"] != ""
	for _, n := range names {
		v := o.inputs[n]
		var t types.Type
		if fn != nil {
			for _, p := range fn.Params {
				if p.Name() == n {
					t = p.Type()
				}
			}
		}
		if searchSet[n] {
			fmt.Fprintf(&body, "\t%s_model := %s\n\t_ = %s_model\n", n, g.lit(v, t), n)
			if tp, ok := v.(*Tuple); ok {
				searchTypes[n] = g.typeStr(tp.typ)
			} else {
				searchTypes[n] = "float64"
			}
			continue
		}
		fmt.Fprintf(&body, "\t%s := %s\n\t_ = %s\n", n, g.lit(v, t), n)
	}
	// the call
	var call string
	var args []string
	nres := 0
	if fn == nil {
		// lemma: no call; the clause itself runs the real code
	} else if isParent {
		par := fn.Parent()
		var pa []string
		for _, p := range par.Params {
			pa = append(pa, p.Name())
		}
		for _, p := range fn.Params {
			args = append(args, p.Name())
		}
		call = par.Name() + "(" + strings.Join(pa, ", ") + ")(" + strings.Join(args, ", ") + ")"
	} else if fn.Signature.Recv() != nil {
		for _, p := range fn.Params[1:] {
			args = append(args, p.Name())
		}
		call = fn.Params[0].Name() + "." + fn.Name() + "(" + strings.Join(args, ", ") + ")"
	} else {
		for _, p := range fn.Params {
			args = append(args, p.Name())
		}
		if fn.Signature.Variadic() && len(args) > 0 {
			args[len(args)-1] += "..."
		}
		call = fn.Name() + "(" + strings.Join(args, ", ") + ")"
	}
	if fn != nil {
		nres = fn.Signature.Results().Len()
	}
	switch {
	case fn == nil:
	case nres == 0:
		fmt.Fprintf(&body, "\t%s\n", call)
	case nres == 1 && o.resultDyn != nil && usesResultFields(ct):
		fmt.Fprintf(&body, "\tr, _ := (%s).(%s)\n\t_ = r\n", call, g.typeStr(o.resultDyn))
	case nres == 1:
		fmt.Fprintf(&body, "\tr := %s\n\t_ = r\n", call)
	default:
		var rs []string
		for i := 0; i < nres; i++ {
			rs = append(rs, fmt.Sprintf("verifRes%d", i))
		}
		fmt.Fprintf(&body, "\t%s := %s\n", strings.Join(rs, ", "), call)
		for _, r := range rs {
			fmt.Fprintf(&body, "\t_ = %s\n", r)
		}
		if o.resultDyn != nil && usesResultFields(ct) {
			fmt.Fprintf(&body, "\tr, _ := verifRes0.(%s)\n\t_ = r\n\terr := %s\n\t_ = err\n", g.typeStr(o.resultDyn), rs[nres-1])
		} else {
			fmt.Fprintf(&body, "\tr := verifRes0\n\t_ = r\n\terr := %s\n\t_ = err\n", rs[nres-1])
		}
		for i := 0; i < nres; i++ {
			if n := fn.Signature.Results().At(i).Name(); n != "" && n != "_" && n != "err" && n != "r" {
				fmt.Fprintf(&body, "\t%s := verifRes%d\n\t_ = %s\n", n, i, n)
			}
		}
	}
	var ev strings.Builder
	for _, sst := range ct.script {
		switch sst.kind {
		case "let":
			l := sst.let
			if dt, ok := o.letDyn[l.name]; ok {
				fmt.Fprintf(&ev, "\t\t%s, _ := (%s).(%s)\n\t\t_ = %s\n", l.name, g.goExpr(l.expr), g.typeStr(dt), l.name)
			} else {
				fmt.Fprintf(&ev, "\t\t%s := %s\n\t\t_ = %s\n", l.name, g.goExpr(l.expr), l.name)
			}
		case "do":
			fmt.Fprintf(&ev, "\t\t%s\n", g.goExpr(sst.let.expr))
		}
	}
	// preconditions and the failing clause
	var pre []string
	for _, cl := range ct.requires {
		if len(cl.vars) > 0 {
			continue
		}
		pre = append(pre, g.goExpr(cl.expr))
	}
	if len(pre) == 0 {
		pre = []string{"true"}
	}
	var clause *Clause
	for k, cl := range ct.ensures {
		lbl := cl.label
		if lbl == "" {
			lbl = fmt.Sprintf("%d", k)
		}
		if strings.HasSuffix(baseName(o.name), "/post."+lbl) {
			clause = cl
		}
	}
	if clause == nil {
		rec["reason"] = "failing clause not found"
		return rec
	}
	for _, v := range clause.vars {
		sv, ok := o.skolems[v.name]
		if !ok {
			rec["reason"] = "skolem value for " + v.name + " not recorded"
			return rec
		}
		fmt.Fprintf(&ev, "\t\t%s := %s\n\t\t_ = %s\n", v.name, g.lit(sv, nil), v.name)
	}
	fmt.Fprintf(&ev, "\t\tpre = %s\n", strings.Join(pre, " && "))
	fmt.Fprintf(&ev, "\t\tpost = %s\n", g.goExpr(clause.expr))
	var cparams, cmodel []string
	for _, n := range searchVars {
		cparams = append(cparams, n+" "+searchTypes[n])
		cmodel = append(cmodel, n+"_model")
	}
	fmt.Fprintf(&body, "\tcheck := func(%s) (pre, post bool) {\n%s\t\treturn\n\t}\n", strings.Join(cparams, ", "), ev.String())
	fmt.Fprintf(&body, "\tpre, post := check(%s)\n", strings.Join(cmodel, ", "))
	if len(searchVars) == 1 && (searchTypes[searchVars[0]] == "v3.Vec" || searchTypes[searchVars[0]] == "v2.Vec") {
		// the model fixes the parameters; the point is searched on a grid around the shape
		dim3 := searchTypes[searchVars[0]] == "v3.Vec"
		fmt.Fprintf(&body, "\tif !(pre && !post) {\n\t\tlo, hi := verifRegion(r, %s_model)\n", searchVars[0])
		if dim3 {
			fmt.Fprintf(&body, "\t\tconst N = 44\n\tsearch:\n\t\tfor i := 0; i <= N; i++ {\n\t\t\tfor j := 0; j <= N; j++ {\n\t\t\t\tfor k := 0; k <= N; k++ {\n\t\t\t\t\tq := v3.Vec{lo[0] + (hi[0]-lo[0])*float64(i)/N, lo[1] + (hi[1]-lo[1])*float64(j)/N, lo[2] + (hi[2]-lo[2])*float64(k)/N}\n\t\t\t\t\tif a, b := check(q); a && !b {\n\t\t\t\t\t\tpre, post = a, b\n\t\t\t\t\t\tfmt.Printf(\"REPLAY-WITNESS %%v\\n\", q)\n\t\t\t\t\t\tbreak search\n\t\t\t\t\t}\n\t\t\t\t}\n\t\t\t}\n\t\t}\n\t}\n")
		} else {
			fmt.Fprintf(&body, "\t\tconst N = 400\n\tsearch:\n\t\tfor i := 0; i <= N; i++ {\n\t\t\tfor j := 0; j <= N; j++ {\n\t\t\t\tq := v2.Vec{lo[0] + (hi[0]-lo[0])*float64(i)/N, lo[1] + (hi[1]-lo[1])*float64(j)/N}\n\t\t\t\tif a, b := check(q); a && !b {\n\t\t\t\t\tpre, post = a, b\n\t\t\t\t\tfmt.Printf(\"REPLAY-WITNESS %%v\\n\", q)\n\t\t\t\t\tbreak search\n\t\t\t\t}\n\t\t\t}\n\t\t}\n\t}\n")
		}
	}
	if nres >= 1 {
		fmt.Fprintf(&body, "\tfmt.Printf(\"REPLAY-RESULT %%v\\n\", r)\n")
	}
	fmt.Fprintf(&body, "\tfmt.Printf(\"REPLAY-PRE %%v\\nREPLAY-POST %%v\\n\", pre, post)\n")
	if g.fail != "" {
		rec["reason"] = g.fail
		return rec
	}
	var src strings.Builder
	fmt.Fprintf(&src, "package %s\n\nimport (\n\t\"fmt\"\n\t\"math\"\n\t\"reflect\"\n\t\"testing\"\n", pkg.Pkg.Name())
	if pkg.Pkg.Name() != "sdf" {
		fmt.Fprintf(&src, "\t\"%s/sdf\"\n", modulePath)
	}
	fmt.Fprintf(&src, "\tv2 \"%s/vec/v2\"\n\tv3 \"%s/vec/v3\"\n)\n", modulePath, modulePath)
	if pkg.Pkg.Name() == "sdf" {
		src.WriteString(strings.ReplaceAll(replayHelpers, "SDFPKG_", ""))
	} else {
		src.WriteString(strings.ReplaceAll(replayHelpers, "SDFPKG_", "sdf."))
	}
	if pkg.Pkg.Name() != "sdf" {
		src.WriteString("var _ sdf.SDF3\n")
	}
	for _, s := range g.stubs {
		src.WriteString(s)
	}
	fmt.Fprintf(&src, "\nfunc TestVerifReplay(t *testing.T) {\n\tdefer func() {\n\t\tif r := recover(); r != nil {\n\t\t\tfmt.Printf(\"REPLAY-PANIC %%v\\n\", r)\n\t\t}\n\t}()\n%s}\n", body.String())
	rec["test_source"] = src.String()
	relDir := strings.TrimPrefix(pkg.Pkg.Path(), modulePath+"/")
	out, cmdline := runOverlayTest(e, relDir, src.String(), "^TestVerifReplay$", false)
	rec["command"] = cmdline
	if len(out) > 3000 {
		out = out[:3000]
	}
	rec["output"] = out
	preOK := strings.Contains(out, "REPLAY-PRE true")
	postFail := strings.Contains(out, "REPLAY-POST false")
	if preOK && postFail {
		rec["reproduced"] = true
	} else if strings.Contains(out, "REPLAY-PANIC") && preOK {
		rec["reproduced"] = true
	} else if !preOK {
		rec["reason"] = "precondition does not hold for the float64 rendering of the model"
	} else {
		rec["reason"] = "real code satisfies the clause at the float64 rendering of the model (within 1e-9 relative tolerance)"
	}
	return rec
}

// runOverlayTest injects src as an in-package test file and runs it.
func runOverlayTest(e *Engine, relDir, src, runPat string, race bool) (string, string) {
	tmp, err := os.MkdirTemp(filepath.Join(e.verif, "out"), "replay")
	if err != nil {
		os.MkdirAll(filepath.Join(e.verif, "out"), 0o755)
		tmp, _ = os.MkdirTemp(filepath.Join(e.verif, "out"), "replay")
	}
	defer os.RemoveAll(tmp)
	testFile := filepath.Join(tmp, "zz_verif_replay_test.go")
	os.WriteFile(testFile, []byte(src), 0o644)
	target := filepath.Join(e.repo, relDir, "zz_verif_replay_test.go")
	ov := map[string]interface{}{"Replace": map[string]string{target: testFile}}
	ovData, _ := json.Marshal(ov)
	ovFile := filepath.Join(tmp, "overlay.json")
	os.WriteFile(ovFile, ovData, 0o644)
	args := []string{"test", "-overlay", ovFile, "-vet=off", "-count=1", "-timeout", "60s", "-run", runPat, "-v"}
	if race {
		args = append(args, "-race")
	}
	args = append(args, "./"+relDir)
	ctx, cancel := context.WithTimeout(context.Background(), 180*time.Second)
	defer cancel()
	c := exec.CommandContext(ctx, "go", args...)
	c.Dir = e.repo
	c.Env = append(os.Environ(), "GOFLAGS=-mod=mod", "GOPROXY=off", "GOSUMDB=off", "GOTOOLCHAIN=local")
	var out bytes.Buffer
	c.Stdout = &out
	c.Stderr = &out
	c.Run()
	return out.String(), "cd " + e.repo + " && go " + strings.Join(args, " ")
}

// stlLoaderReplay: for a refuted safety obligation of the STL loader build the
// file the model describes (number of vertex lines for the ASCII path, header
// count for the binary path) and call LoadSTL on it; a panic is the failure.
func stlLoaderReplay(e *Engine, o *Obligation) map[string]interface{} {
	rec := map[string]interface{}{"reproduced": false}
	nverts := -1
	count := -1
	for k, v := range o.res.model {
		f, ok := smtValueToFloat(v)
		if !ok {
			continue
		}
		if strings.Contains(k, "$v$len") {
			nverts = int(f)
		}
		if strings.Contains(k, "Count") {
			count = int(f)
		}
	}
	if strings.Contains(o.name, "loadSTLBinary.guard") {
		size := -1
		// prefer a model describing a small but possible file (it must at least hold the header)
		full := append(append([]*Term{}, o.assume...), mkNot(o.goal))
		vs, _, _ := collect(full)
		var extra []*Term
		for _, v := range vs {
			if strings.Contains(v.name, "Size") && v.sort == SInt {
				extra = append(extra, mkLe(mkInt(84), v), mkLe(v, mkInt(4096)))
			}
		}
		model := o.res.model
		if r2 := solveQuery(append(full, extra...), []string{"small-file model for replay"}, "", 20*time.Second, false); r2.status == "sat" {
			model = r2.model
		}
		for k, v := range model {
			f, ok := smtValueToFloat(v)
			if !ok {
				continue
			}
			if strings.HasSuffix(k, "binary.Read.1") {
				count = int(f)
			}
			if strings.Contains(k, "Size") {
				size = int(f)
			}
		}
		rec["model_file_size"] = size
		rec["model_header_count"] = count
		rec["model_used"] = model
		if size < 84 || size > 1<<20 || count < 0 {
			rec["reason"] = "model file size / count not usable for a replay file"
			return rec
		}
		src := fmt.Sprintf(`package render

import (
	"encoding/binary"
	"fmt"
	"os"
	"path/filepath"
	"runtime"
	"testing"
)

func TestVerifReplay(t *testing.T) {
	path := filepath.Join(t.TempDir(), "model.stl")
	buf := make([]byte, %d)
	binary.LittleEndian.PutUint32(buf[80:], uint32(%d))
	os.WriteFile(path, buf, 0o644)
	var m0, m1 runtime.MemStats
	runtime.GC()
	runtime.ReadMemStats(&m0)
	func() {
		defer func() {
			if r := recover(); r != nil {
				fmt.Printf("REPLAY-PANIC %%v\n", r)
			}
		}()
		m, err := LoadSTL(path)
		fmt.Printf("REPLAY-RETURNED %%d triangles, err=%%v\n", len(m), err)
	}()
	runtime.ReadMemStats(&m1)
	alloc := m1.TotalAlloc - m0.TotalAlloc
	fmt.Printf("REPLAY-ALLOC %%d bytes for a %%d byte file\n", alloc, len(buf))
	if alloc > 64*uint64(len(buf))+(1<<20) {
		fmt.Printf("REPLAY-DISPROPORTIONATE\n")
	}
}
`, size, count)
		rec["test_source"] = src
		out, cmdline := runOverlayTest(e, "render", src, "^TestVerifReplay$", false)
		rec["command"] = cmdline
		if len(out) > 2000 {
			out = out[:2000]
		}
		rec["output"] = out
		if strings.Contains(out, "REPLAY-PANIC") || strings.Contains(out, "REPLAY-DISPROPORTIONATE") || strings.Contains(out, "out of memory") {
			rec["reproduced"] = true
		} else {
			rec["reason"] = "LoadSTL stayed within proportion on the file built from the model"
		}
		return rec
	}
	if nverts < 0 {
		nverts = 1
	}
	if nverts > 10000 {
		nverts = nverts%3 + 3
	}
	rec["model_vertex_lines"] = nverts
	rec["model_header_count"] = count
	src := fmt.Sprintf(`package render

import (
	"fmt"
	"os"
	"path/filepath"
	"strings"
	"testing"
)

func TestVerifReplay(t *testing.T) {
	dir := t.TempDir()
	try := func(name string, content []byte) {
		path := filepath.Join(dir, name)
		os.WriteFile(path, content, 0o644)
		func() {
			defer func() {
				if r := recover(); r != nil {
					fmt.Printf("REPLAY-PANIC %%s: %%v\n", name, r)
				}
			}()
			m, err := LoadSTL(path)
			fmt.Printf("REPLAY-RETURNED %%s: %%d triangles, err=%%v\n", name, len(m), err)
		}()
	}
	var sb strings.Builder
	sb.WriteString("solid model\n")
	for i := 0; i < %d; i++ {
		fmt.Fprintf(&sb, "  vertex %%d.0 1.0 2.0\n", i)
	}
	sb.WriteString("endsolid model\n")
	for sb.Len() < 100 {
		sb.WriteString("\n")
	}
	try("model.stl", []byte(sb.String()))
}
`, nverts)
	rec["test_source"] = src
	out, cmdline := runOverlayTest(e, "render", src, "^TestVerifReplay$", false)
	rec["command"] = cmdline
	if len(out) > 2000 {
		out = out[:2000]
	}
	rec["output"] = out
	if strings.Contains(out, "REPLAY-PANIC") {
		rec["reproduced"] = true
	} else {
		rec["reason"] = "LoadSTL returned normally on the file built from the model"
	}
	return rec
}

// usesResultFields: does the contract select struct fields of the result
// (r.field rather than r.Method(...))? Then the replay asserts the dynamic type.
func usesResultFields(ct *Contract) bool {
	found := false
	var walk func(e Expr, callee bool)
	walk = func(e Expr, callee bool) {
		switch n := e.(type) {
		case *ESel:
			if id, ok := n.x.(*EIdent); ok && (id.name == "r" || id.name == "result") && !callee {
				found = true
			}
			walk(n.x, false)
		case *ECall:
			walk(n.fun, true)
			for _, a := range n.args {
				walk(a, false)
			}
		case *EBin:
			walk(n.l, false)
			walk(n.r, false)
		case *EUn:
			walk(n.x, false)
		case *EIndex:
			walk(n.x, false)
			walk(n.i, false)
		case *EComp:
			for _, a := range n.elems {
				walk(a, false)
			}
		}
	}
	for _, cl := range ct.ensures {
		walk(cl.expr, false)
	}
	for _, s := range ct.script {
		if s.clause != nil {
			walk(s.clause.expr, false)
		}
		if s.let.expr != nil {
			walk(s.let.expr, false)
		}
	}
	return found
}
