package main

// Intrinsics: math.*, error constructors, and other modelled externals.

import (
	"fmt"
	"math/big"
	"strings"

	"golang.org/x/tools/go/ssa"
)

func fnKey(fn *ssa.Function) string {
	s := fn.String()
	return s
}

func (x *Exec) intrinsic(st *State, fn *ssa.Function, args []Value) ([]Out, bool) {
	name := fnKey(fn)
	ret := func(v ...Value) ([]Out, bool) { return []Out{{st: st, vals: v}}, true }
	T := func(i int) *Term {
		t, ok := args[i].(*Term)
		if !ok {
			fail("intrinsic %s: non-scalar argument", name)
		}
		return t
	}
	for f := range x.opaque {
		if name == f || strings.HasSuffix(name, "."+f) || strings.HasSuffix(name, ")."+f) {
			return x.opaqueCall(st, fn, args), true
		}
	}
	switch name {
	case "math.Abs":
		return ret(mkAbs(T(0)))
	case "math.Min":
		return ret(mkMin(T(0), T(1)))
	case "math.Max":
		return ret(mkMax(T(0), T(1)))
	case "math.Sqrt":
		return ret(x.sqrt(st, T(0)))
	case "math.Hypot":
		return ret(x.sqrt(st, mkAdd(mkMul(T(0), T(0)), mkMul(T(1), T(1)))))
	case "math.Floor":
		return ret(coerce(mkFloor(T(0)), SReal))
	case "math.Ceil":
		return ret(coerce(mkNeg(mkFloor(mkNeg(T(0)))), SReal))
	case "math.Trunc":
		return ret(coerce(mkToInt(T(0)), SReal))
	case "math.Round":
		// round half away from zero
		a := T(0)
		half := mkRat(big.NewRat(1, 2), SReal)
		pos := coerce(mkFloor(mkAdd(a, half)), SReal)
		neg := coerce(mkNeg(mkFloor(mkAdd(mkNeg(a), half))), SReal)
		return ret(mkIte(mkLe(mkRealInt(0), a), pos, neg))
	case "math.Mod":
		// sign of dividend; x - y*trunc(x/y)
		a, b := T(0), T(1)
		q := coerce(mkToInt(mkDiv(a, b)), SReal)
		return ret(mkSub(a, mkMul(b, q)))
	case "math.Signbit":
		x.note("math.Signbit(x) read as x < 0 (no negative zero, A1)")
		return ret(mkLt(T(0), mkRealInt(0)))
	case "math.IsNaN":
		x.note("math.IsNaN is false (A1)")
		return ret(tFalse)
	case "math.IsInf":
		x.note("math.IsInf is false (A1)")
		return ret(tFalse)
	case "math.Inf":
		fail("math.Inf not representable in real semantics")
	case "math.Sin":
		s, _ := x.sincos(st, T(0))
		return ret(s)
	case "math.Cos":
		_, c := x.sincos(st, T(0))
		return ret(c)
	case "math.Tan":
		s, c := x.sincos(st, T(0))
		return ret(mkDiv(s, c))
	case "math.Atan2":
		return ret(x.atan2(st, T(0), T(1)))
	case "math.Atan":
		return ret(x.atan(st, T(0)))
	case "math.Acos":
		return ret(x.acos(st, T(0)))
	case "math.Asin":
		r := x.ufApp(st, "asin", SReal, []*Term{T(0)})
		return ret(r)
	case "math.Exp":
		r := x.ufApp(st, "exp", SReal, []*Term{T(0)})
		st.axiom(mkLt(mkRealInt(0), r))
		if T(0).isConst() && T(0).rat.Sign() == 0 {
			st.axiom(mkEq(r, mkRealInt(1)))
		}
		return ret(r)
	case "math.Log":
		r := x.ufApp(st, "log", SReal, []*Term{T(0)})
		return ret(r)
	case "math.Log2":
		r := x.ufApp(st, "log2", SReal, []*Term{T(0)})
		return ret(r)
	case "math.Pow":
		if e, ok := T(1).int64(); ok && T(1).rat.IsInt() && e >= 0 && e <= 8 {
			r := mkRealInt(1)
			for i := int64(0); i < e; i++ {
				r = mkMul(r, T(0))
			}
			return ret(r)
		}
		r := x.ufApp(st, "pow", SReal, []*Term{T(0), T(1)})
		return ret(r)
	case "math.Float64bits", "math.Float64frombits", "math.Float32bits", "math.Float32frombits":
		fail("bit-level float access not modelled")
	case "errors.New", "fmt.Errorf", modulePath + "/sdf.ErrMsg":
		return ret(&Iface{dyn: errDynType, val: &Opaque{tag: "error"}})
	case "fmt.Sprintf", "fmt.Sprint":
		return ret(&Str{sym: freshVar("sprintf", SInt)})
	case "fmt.Printf", "fmt.Println", "fmt.Print", "log.Printf", "log.Println", "log.Print":
		st.log = append(st.log, Event{kind: "print"})
		st.version++
		if fn.Signature.Results().Len() == 2 {
			return ret(mkInt(0), &Iface{})
		}
		return ret()
	case "strings.Fields", "strings.Split":
		return nil, false
	case "runtime.NumCPU":
		v := freshVar("numcpu", SInt)
		st.axiom(mkLe(mkInt(1), v))
		return ret(v)
	case "(*sync.Mutex).Lock", "(*sync.Mutex).Unlock", "(*sync.RWMutex).Lock", "(*sync.RWMutex).Unlock", "(*sync.RWMutex).RLock", "(*sync.RWMutex).RUnlock":
		st.log = append(st.log, Event{kind: strings.TrimPrefix(name, "(*sync."), args: args})
		return ret()
	case "(*sync.WaitGroup).Add", "(*sync.WaitGroup).Done", "(*sync.WaitGroup).Wait":
		st.log = append(st.log, Event{kind: "wg:" + name[len("(*sync.WaitGroup)."):], args: args})
		st.version++
		return ret()
	}
	return nil, false
}

var errDynType = newErrDyn()

// sqrt: fresh r with x >= 0 => (r >= 0 && r*r == x). Memoized per argument.
func (x *Exec) sqrt(st *State, a *Term) *Term {
	if a.isConst() {
		// exact rational square roots
		if a.rat.Sign() >= 0 {
			n := new(big.Int).Sqrt(a.rat.Num())
			d := new(big.Int).Sqrt(a.rat.Denom())
			if new(big.Int).Mul(n, n).Cmp(a.rat.Num()) == 0 && new(big.Int).Mul(d, d).Cmp(a.rat.Denom()) == 0 {
				return mkRat(new(big.Rat).SetFrac(n, d), SReal)
			}
		}
	}
	r := x.ufApp(st, "sqrt", SReal, []*Term{a})
	sqax := mkImplies(mkLe(mkRealInt(0), a), mkAnd(mkLe(mkRealInt(0), r), mkEq(mkMul(r, r), a)))
	registerDef(sqax, r)
	st.axiom(sqax)
	if !x.safety {
		x.note("math.Sqrt of a negative argument yields an unconstrained value (NaN not modelled, A1)")
	}
	return r
}

func (x *Exec) sincos(st *State, a *Term) (*Term, *Term) {
	if a.isConst() && a.rat.Sign() == 0 {
		return mkRealInt(0), mkRealInt(1)
	}
	s := x.ufApp(st, "sin", SReal, []*Term{a})
	c := x.ufApp(st, "cos", SReal, []*Term{a})
	pyth := mkEq(mkAdd(mkMul(s, s), mkMul(c, c)), mkRealInt(1))
	registerDef(pyth, s, c)
	st.axiom(pyth)
	x.trigFacts(st, a, s, c)
	return s, c
}

// trigFacts adds quadrant facts when the argument is a known multiple of PI
// and the range facts tied to the angle otherwise.
func (x *Exec) trigFacts(st *State, a, s, c *Term) {
	// sign and boundary facts define sin/cos of this angle: of use only where one of them is mentioned
	def := func(t *Term) {
		registerDef(t, s, c)
		st.axiom(t)
	}
	for _, ax := range piAxioms() {
		st.axiom(ax)
	}
	pi := piTerm()
	zero := mkRealInt(0)
	half := mkMul(mkRat(big.NewRat(1, 2), SReal), pi)
	// exact values at multiples of pi/2
	if a.op == "*" && a.args[1] == pi && a.args[0].isConst() || a == pi {
		k := big.NewRat(1, 1)
		if a != pi {
			k = a.args[0].rat
		}
		k2 := new(big.Rat).Mul(k, big.NewRat(2, 1))
		if k2.IsInt() {
			n := new(big.Int).Mod(k2.Num(), big.NewInt(4)).Int64()
			sv := []int64{0, 1, 0, -1}[n]
			cv := []int64{1, 0, -1, 0}[n]
			def(mkEq(s, mkRealInt(sv)))
			def(mkEq(c, mkRealInt(cv)))
			return
		}
	}
	if !x.trigQuadrants {
		return
	}
	// sign facts by quadrant (closed ranges weak, open ranges strict) and exact boundary values
	two := mkMul(mkRealInt(2), pi)
	th := mkMul(mkRat(big.NewRat(3, 2), SReal), pi)
	one := mkRealInt(1)
	mone := mkRealInt(-1)
	in := func(lo, hi *Term) *Term { return mkAnd(mkLe(lo, a), mkLe(a, hi)) }
	inS := func(lo, hi *Term) *Term { return mkAnd(mkLt(lo, a), mkLt(a, hi)) }
	def(mkImplies(in(zero, pi), mkLe(zero, s)))
	def(mkImplies(inS(zero, pi), mkLt(zero, s)))
	def(mkImplies(in(pi, two), mkLe(s, zero)))
	def(mkImplies(inS(pi, two), mkLt(s, zero)))
	def(mkImplies(in(mkNeg(pi), zero), mkLe(s, zero)))
	def(mkImplies(inS(mkNeg(pi), zero), mkLt(s, zero)))
	def(mkImplies(in(mkNeg(half), half), mkLe(zero, c)))
	def(mkImplies(inS(mkNeg(half), half), mkLt(zero, c)))
	def(mkImplies(in(half, th), mkLe(c, zero)))
	def(mkImplies(inS(half, th), mkLt(c, zero)))
	def(mkImplies(in(th, mkMul(mkRat(big.NewRat(5, 2), SReal), pi)), mkLe(zero, c)))
	def(mkImplies(inS(th, mkMul(mkRat(big.NewRat(5, 2), SReal), pi)), mkLt(zero, c)))
	def(mkImplies(mkEq(a, zero), mkAnd(mkEq(s, zero), mkEq(c, one))))
	def(mkImplies(mkEq(a, half), mkAnd(mkEq(s, one), mkEq(c, zero))))
	def(mkImplies(mkEq(a, pi), mkAnd(mkEq(s, zero), mkEq(c, mone))))
	def(mkImplies(mkEq(a, th), mkAnd(mkEq(s, mone), mkEq(c, zero))))
	def(mkImplies(mkEq(a, two), mkAnd(mkEq(s, zero), mkEq(c, one))))
	def(mkImplies(mkEq(a, mkNeg(half)), mkAnd(mkEq(s, mone), mkEq(c, zero))))
	def(mkImplies(mkEq(a, mkNeg(pi)), mkAnd(mkEq(s, zero), mkEq(c, mone))))
}

// atan2(y, x) = th with rho*cos(th) = x, rho*sin(th) = y, -pi < th <= pi
func (x *Exec) atan2(st *State, yv, xv *Term) *Term {
	th := x.ufApp(st, "atan2", SReal, []*Term{yv, xv})
	rho := x.sqrt(st, mkAdd(mkMul(xv, xv), mkMul(yv, yv)))
	s, c := x.sincos(st, th)
	st.axiom(mkEq(mkMul(rho, c), xv))
	st.axiom(mkEq(mkMul(rho, s), yv))
	st.axiom(mkLt(mkNeg(piTerm()), th))
	st.axiom(mkLe(th, piTerm()))
	return th
}

func (x *Exec) atan(st *State, a *Term) *Term {
	if a.isConst() && a.rat.Sign() == 0 {
		return mkRealInt(0)
	}
	th := x.ufApp(st, "atan", SReal, []*Term{a})
	s, c := x.sincos(st, th)
	half := mkMul(mkRat(big.NewRat(1, 2), SReal), piTerm())
	st.axiom(mkEq(s, mkMul(a, c)))
	st.axiom(mkLt(mkNeg(half), th))
	st.axiom(mkLt(th, half))
	st.axiom(mkLt(mkRealInt(0), c))
	return th
}

func (x *Exec) acos(st *State, a *Term) *Term {
	th := x.ufApp(st, "acos", SReal, []*Term{a})
	_, c := x.sincos(st, th)
	in := mkAnd(mkLe(mkRealInt(-1), a), mkLe(a, mkRealInt(1)))
	acax := mkImplies(in, mkAnd(mkEq(c, a), mkLe(mkRealInt(0), th), mkLe(th, piTerm())))
	registerDef(acax, th, c)
	st.axiom(acax)
	return th
}

// opaqueCall: a module function treated as an uninterpreted pure function.
func (x *Exec) opaqueCall(st *State, fn *ssa.Function, args []Value) []Out {
	var flat []*Term
	for _, a := range args {
		if p, ok := a.(*Ptr); ok && p.cell != nil {
			a = x.load(st, p)
		}
		if !flatten(a, &flat) {
			fail("opaque call %s with non-scalar argument", fn)
		}
	}
	res := fn.Signature.Results()
	vals := make([]Value, res.Len())
	for i := 0; i < res.Len(); i++ {
		vals[i] = x.ufResult(st, fmt.Sprintf("%s#%d", sanitize(fn.Name()), i), res.At(i).Type(), flat)
	}
	return []Out{{st: st, vals: vals}}
}
