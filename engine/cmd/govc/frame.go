package main

// C10: frame ("assigns \nothing") and lock-discipline analysis over SSA.
// Every Evaluate / BoundingBox method of every type implementing SDF2/SDF3
// must not write memory that is reachable from its receiver, its parameters,
// globals or captured variables, transitively through all module callees -
// unless the write (and every access to the same fields) happens under the
// receiver's own mutex.

import (
	"fmt"
	"go/token"
	"go/types"
	"sort"
	"strings"

	"golang.org/x/tools/go/ssa"
)

type rootKind int

const (
	rParam rootKind = iota
	rFree
	rGlobal
	rUnknown
)

type root struct {
	kind rootKind
	idx  int
	name string
}

func (r root) String() string {
	switch r.kind {
	case rParam:
		return fmt.Sprintf("param#%d", r.idx)
	case rFree:
		return fmt.Sprintf("captured#%d", r.idx)
	case rGlobal:
		return "global " + r.name
	}
	return "unknown(" + r.name + ")"
}

type writeRec struct {
	r       root
	what    string
	pos     token.Pos
	fn      *ssa.Function
	field   string // struct field written when known (for lock discipline)
	guarded bool
}

type frameAn struct {
	prog     *ssa.Program
	sum      map[*ssa.Function][]writeRec
	ret      map[*ssa.Function][]root // roots of returned values (nil slice = fresh)
	retKnown map[*ssa.Function]bool
	inprog   map[*ssa.Function]bool
	byName   map[string][]*ssa.Function // methods by name for CHA
	fnVals   []*ssa.Function            // address-taken functions / closures
	assumed  map[string]bool
	allFns   map[*ssa.Function]bool
}

var pureExternals = map[string]bool{
	"errors.New": true, "fmt.Errorf": true, "fmt.Sprintf": true, "fmt.Sprint": true, "strconv.Itoa": true,
	"runtime.Caller": true, "runtime.FuncForPC": true, "(*runtime.Func).Name": true, "runtime.NumCPU": true,
	"strings.Fields": true, "strings.Split": true, "strings.HasPrefix": true, "strconv.ParseFloat": true,
	"sort.Float64s": false,
}

func newFrameAn(prog *ssa.Program) *frameAn {
	fa := &frameAn{prog: prog, sum: map[*ssa.Function][]writeRec{}, ret: map[*ssa.Function][]root{}, retKnown: map[*ssa.Function]bool{},
		inprog: map[*ssa.Function]bool{}, byName: map[string][]*ssa.Function{}, assumed: map[string]bool{}, allFns: map[*ssa.Function]bool{}}
	for fn := range ssautilAllFunctions(prog) {
		if !inModule(fn) {
			continue
		}
		fa.allFns[fn] = true
	}
	// address-taken functions
	for fn := range fa.allFns {
		for _, b := range fn.Blocks {
			for _, in := range b.Instrs {
				if _, isDbg := in.(*ssa.DebugRef); isDbg {
					continue
				}
				var ops []*ssa.Value
				ops = in.Operands(ops)
				for i, op := range ops {
					if op == nil || *op == nil {
						continue
					}
					if callee, ok := (*op).(*ssa.Function); ok {
						if c, isCall := in.(ssa.CallInstruction); isCall && i == 0 && c.Common().Value == callee && !c.Common().IsInvoke() {
							continue
						}
						if inModule(callee) {
							fa.fnVals = append(fa.fnVals, callee)
						}
					}
				}
				if mc, ok := in.(*ssa.MakeClosure); ok {
					if f, ok := mc.Fn.(*ssa.Function); ok {
						fa.fnVals = append(fa.fnVals, f)
					}
				}
			}
		}
	}
	return fa
}

func inModule(fn *ssa.Function) bool {
	if fn.Pkg != nil {
		return strings.HasPrefix(fn.Pkg.Pkg.Path(), modulePath)
	}
	if fn.Parent() != nil {
		return inModule(fn.Parent())
	}
	if o := fn.Object(); o != nil && o.Pkg() != nil {
		return strings.HasPrefix(o.Pkg().Path(), modulePath)
	}
	return false
}

// roots of a value: where may the memory it points to come from?
func (fa *frameAn) roots(fn *ssa.Function, v ssa.Value, seen map[ssa.Value]bool) []root {
	if seen[v] {
		return nil
	}
	seen[v] = true
	switch x := v.(type) {
	case *ssa.Parameter:
		for i, p := range fn.Params {
			if p == x {
				return []root{{kind: rParam, idx: i, name: p.Name()}}
			}
		}
	case *ssa.FreeVar:
		for i, p := range fn.FreeVars {
			if p == x {
				return []root{{kind: rFree, idx: i, name: p.Name()}}
			}
		}
	case *ssa.Global:
		return []root{{kind: rGlobal, name: x.String()}}
	case *ssa.Const, *ssa.Function, *ssa.Builtin:
		return nil
	case *ssa.Alloc:
		return nil // fresh local cell; what it holds is handled at loads
	case *ssa.MakeSlice, *ssa.MakeMap, *ssa.MakeChan:
		return nil
	case *ssa.MakeClosure:
		var out []root
		for _, b := range x.Bindings {
			out = append(out, fa.roots(fn, b, seen)...)
		}
		return out
	case *ssa.FieldAddr:
		return fa.roots(fn, x.X, seen)
	case *ssa.IndexAddr:
		return fa.roots(fn, x.X, seen)
	case *ssa.Field:
		return fa.roots(fn, x.X, seen)
	case *ssa.Index:
		return fa.roots(fn, x.X, seen)
	case *ssa.Slice:
		return fa.roots(fn, x.X, seen)
	case *ssa.ChangeType:
		return fa.roots(fn, x.X, seen)
	case *ssa.Convert:
		return fa.roots(fn, x.X, seen)
	case *ssa.ChangeInterface:
		return fa.roots(fn, x.X, seen)
	case *ssa.MakeInterface:
		return fa.roots(fn, x.X, seen)
	case *ssa.TypeAssert:
		return fa.roots(fn, x.X, seen)
	case *ssa.Lookup:
		return fa.roots(fn, x.X, seen)
	case *ssa.Extract:
		return fa.roots(fn, x.Tuple, seen)
	case *ssa.Next:
		return fa.roots(fn, x.Iter, seen)
	case *ssa.Range:
		return fa.roots(fn, x.X, seen)
	case *ssa.Phi:
		var out []root
		for _, e := range x.Edges {
			out = append(out, fa.roots(fn, e, seen)...)
		}
		return out
	case *ssa.BinOp:
		return nil
	case *ssa.UnOp:
		if x.Op == token.MUL {
			if !pointerLike(x.Type()) {
				return nil
			}
			// loaded pointer: from local alloc -> whatever was stored there; else same root as the address
			if al, ok := x.X.(*ssa.Alloc); ok {
				var out []root
				for _, ref := range *al.Referrers() {
					if st, ok := ref.(*ssa.Store); ok && st.Addr == al {
						out = append(out, fa.roots(fn, st.Val, seen)...)
					}
				}
				// stores through derived addresses (fields of the local)
				out = append(out, fa.storedInto(fn, al, seen)...)
				return out
			}
			return fa.roots(fn, x.X, seen)
		}
		if x.Op == token.ARROW {
			return []root{{kind: rUnknown, name: "received from channel"}}
		}
		return nil
	case *ssa.Call:
		return fa.callResultRoots(fn, x, seen)
	}
	return []root{{kind: rUnknown, name: fmt.Sprintf("%T", v)}}
}

// storedInto: values stored into sub-locations of a local alloc.
func (fa *frameAn) storedInto(fn *ssa.Function, al *ssa.Alloc, seen map[ssa.Value]bool) []root {
	var out []root
	var visit func(addr ssa.Value)
	visited := map[ssa.Value]bool{}
	visit = func(addr ssa.Value) {
		if visited[addr] {
			return
		}
		visited[addr] = true
		refs := addr.Referrers()
		if refs == nil {
			return
		}
		for _, ref := range *refs {
			switch r := ref.(type) {
			case *ssa.FieldAddr:
				if r.X == addr {
					visit(r)
				}
			case *ssa.IndexAddr:
				if r.X == addr {
					visit(r)
				}
			case *ssa.Store:
				if r.Addr == addr && addr != al {
					out = append(out, fa.roots(fn, r.Val, seen)...)
				}
			}
		}
	}
	visit(al)
	return out
}

func pointerLike(t types.Type) bool {
	switch u := t.Underlying().(type) {
	case *types.Pointer, *types.Slice, *types.Map, *types.Chan, *types.Interface, *types.Signature:
		return true
	case *types.Struct:
		for i := 0; i < u.NumFields(); i++ {
			if pointerLike(u.Field(i).Type()) {
				return true
			}
		}
	case *types.Array:
		return pointerLike(u.Elem())
	case *types.Tuple:
		for i := 0; i < u.Len(); i++ {
			if pointerLike(u.At(i).Type()) {
				return true
			}
		}
	}
	return false
}

func (fa *frameAn) callResultRoots(fn *ssa.Function, c *ssa.Call, seen map[ssa.Value]bool) []root {
	if !pointerLike(c.Type()) {
		return nil
	}
	cc := c.Common()
	if b, ok := cc.Value.(*ssa.Builtin); ok {
		if b.Name() == "append" {
			return fa.roots(fn, cc.Args[0], seen)
		}
		return nil
	}
	callees := fa.callees(fn, cc)
	if callees == nil {
		// external: result may alias its arguments
		var out []root
		for _, a := range cc.Args {
			out = append(out, fa.roots(fn, a, seen)...)
		}
		return out
	}
	var out []root
	for _, callee := range callees {
		for _, r := range fa.retRoots(callee) {
			switch r.kind {
			case rParam:
				args := cc.Args
				if cc.IsInvoke() {
					if r.idx == 0 {
						out = append(out, fa.roots(fn, cc.Value, seen)...)
						continue
					}
					if r.idx-1 < len(args) {
						out = append(out, fa.roots(fn, args[r.idx-1], seen)...)
					}
					continue
				}
				if r.idx < len(args) {
					out = append(out, fa.roots(fn, args[r.idx], seen)...)
				}
			case rFree:
				out = append(out, root{kind: rUnknown, name: "captured variable of " + callee.Name()})
			default:
				out = append(out, r)
			}
		}
	}
	return out
}

func (fa *frameAn) retRoots(fn *ssa.Function) []root {
	if fa.retKnown[fn] {
		return fa.ret[fn]
	}
	fa.retKnown[fn] = true // recursion: assume fresh on the cycle
	var out []root
	for _, b := range fn.Blocks {
		for _, in := range b.Instrs {
			if r, ok := in.(*ssa.Return); ok {
				for _, v := range r.Results {
					if pointerLike(v.Type()) {
						out = append(out, fa.roots(fn, v, map[ssa.Value]bool{})...)
					}
				}
			}
		}
	}
	fa.ret[fn] = dedupRoots(out)
	return fa.ret[fn]
}

func dedupRoots(rs []root) []root {
	seen := map[string]bool{}
	var out []root
	for _, r := range rs {
		k := r.String()
		if !seen[k] {
			seen[k] = true
			out = append(out, r)
		}
	}
	return out
}

// callees resolves a call to module functions; nil means external/unknown.
func (fa *frameAn) callees(fn *ssa.Function, cc *ssa.CallCommon) []*ssa.Function {
	if cc.IsInvoke() {
		var out []*ssa.Function
		iface := cc.Value.Type().Underlying().(*types.Interface)
		for f := range fa.allFns {
			if f.Signature.Recv() == nil || f.Name() != cc.Method.Name() {
				continue
			}
			rt := f.Signature.Recv().Type()
			if types.Implements(rt, iface) {
				out = append(out, f)
			}
		}
		sort.Slice(out, func(i, j int) bool { return out[i].String() < out[j].String() })
		return out
	}
	switch v := cc.Value.(type) {
	case *ssa.Function:
		if v.Blocks != nil && inModule(v) {
			return []*ssa.Function{v}
		}
		return nil
	case *ssa.MakeClosure:
		return []*ssa.Function{v.Fn.(*ssa.Function)}
	case *ssa.Builtin:
		return nil
	}
	// dynamic call through a function value: every address-taken module function of identical signature
	sig, ok := cc.Value.Type().Underlying().(*types.Signature)
	if !ok {
		return nil
	}
	var out []*ssa.Function
	seen := map[*ssa.Function]bool{}
	for _, f := range fa.fnVals {
		if seen[f] {
			continue
		}
		fs := f.Signature
		if fs.Recv() != nil {
			continue
		}
		if types.Identical(types.NewSignatureType(nil, nil, nil, fs.Params(), fs.Results(), fs.Variadic()), types.NewSignatureType(nil, nil, nil, sig.Params(), sig.Results(), sig.Variadic())) {
			seen[f] = true
			out = append(out, f)
		}
	}
	return out
}

func isSDFMethod(m *types.Func) bool {
	if m == nil {
		return false
	}
	if m.Name() != "Evaluate" && m.Name() != "BoundingBox" {
		return false
	}
	return true
}

// summary computes the non-local writes of fn (transitively).
func (fa *frameAn) summary(fn *ssa.Function) []writeRec {
	if s, ok := fa.sum[fn]; ok {
		return s
	}
	if fa.inprog[fn] {
		return nil
	}
	fa.inprog[fn] = true
	defer func() { fa.inprog[fn] = false }()
	var out []writeRec
	addWrite := func(addr ssa.Value, what string, pos token.Pos, in ssa.Instruction) {
		for _, r := range dedupRoots(fa.roots(fn, addr, map[ssa.Value]bool{})) {
			w := writeRec{r: r, what: what, pos: pos, fn: fn}
			if fa2, ok := addr.(*ssa.FieldAddr); ok {
				st := fa2.X.Type().Underlying().(*types.Pointer).Elem().Underlying().(*types.Struct)
				w.field = st.Field(fa2.Field).Name()
			}
			w.guarded = fa.underLock(fn, in)
			out = append(out, w)
		}
	}
	for _, b := range fn.Blocks {
		for _, in := range b.Instrs {
			switch x := in.(type) {
			case *ssa.Store:
				addWrite(x.Addr, "store", x.Pos(), in)
			case *ssa.MapUpdate:
				addWrite(x.Map, "map update", x.Pos(), in)
			case *ssa.Send:
				addWrite(x.Chan, "channel send", x.Pos(), in)
			case *ssa.Go:
				out = append(out, writeRec{r: root{kind: rUnknown, name: "go statement"}, what: "starts a goroutine", pos: x.Pos(), fn: fn})
			case ssa.CallInstruction:
				cc := x.Common()
				if b, ok := cc.Value.(*ssa.Builtin); ok {
					switch b.Name() {
					case "append":
						addWrite(cc.Args[0], "append (may write the shared backing array)", x.Pos(), in)
					case "copy":
						addWrite(cc.Args[0], "copy", x.Pos(), in)
					case "delete":
						addWrite(cc.Args[0], "delete", x.Pos(), in)
					case "close":
						addWrite(cc.Args[0], "close", x.Pos(), in)
					}
					continue
				}
				if cc.IsInvoke() && isSDFMethod(cc.Method) && isSDFIface(cc.Value.Type()) != 0 {
					continue // covered by the universal obligation on every implementation
				}
				callees := fa.callees(fn, cc)
				if callees == nil {
					name := "dynamic call"
					if f, ok := cc.Value.(*ssa.Function); ok {
						name = f.String()
					} else if cc.IsInvoke() {
						name = "(" + cc.Value.Type().String() + ")." + cc.Method.Name()
					}
					if pureExternals[name] || strings.HasPrefix(name, "math.") {
						continue
					}
					if strings.HasSuffix(name, ".Lock") || strings.HasSuffix(name, ".Unlock") || strings.HasSuffix(name, ".RLock") || strings.HasSuffix(name, ".RUnlock") {
						continue
					}
					// external with possibly shared pointer arguments
					shared := false
					args := cc.Args
					if cc.IsInvoke() {
						args = append([]ssa.Value{cc.Value}, args...)
					}
					for _, a := range args {
						if pointerLike(a.Type()) && len(fa.roots(fn, a, map[ssa.Value]bool{})) > 0 {
							shared = true
						}
					}
					switch {
					case strings.HasPrefix(name, "fmt.Print") || strings.HasPrefix(name, "log.Print"):
						fa.assumed["external "+name+" writes only to stdout/stderr (called from "+fn.String()+")"] = true
					case strings.Contains(name, "rtreego"):
						fa.assumed["external "+name+" assumed read-only on the shared R-tree (called from "+fn.String()+")"] = true
					case !shared:
						fa.assumed["external "+name+" receives no shared pointer (called from "+fn.String()+")"] = true
					default:
						out = append(out, writeRec{r: root{kind: rUnknown, name: "external " + name}, what: "external call with shared pointer argument: effect unknown", pos: x.Pos(), fn: fn})
					}
					continue
				}
				for _, callee := range callees {
					for _, w := range fa.summary(callee) {
						switch w.r.kind {
						case rParam:
							var arg ssa.Value
							if cc.IsInvoke() {
								if w.r.idx == 0 {
									arg = cc.Value
								} else if w.r.idx-1 < len(cc.Args) {
									arg = cc.Args[w.r.idx-1]
								}
							} else if w.r.idx < len(cc.Args) {
								arg = cc.Args[w.r.idx]
							}
							if arg == nil {
								continue
							}
							for _, r := range dedupRoots(fa.roots(fn, arg, map[ssa.Value]bool{})) {
								nw := w
								nw.r = r
								nw.guarded = w.guarded || fa.underLock(fn, in)
								out = append(out, nw)
							}
						case rFree:
							// closure called here: where do its bindings come from?
							if mc, ok := cc.Value.(*ssa.MakeClosure); ok && w.r.idx < len(mc.Bindings) {
								for _, r := range dedupRoots(fa.roots(fn, mc.Bindings[w.r.idx], map[ssa.Value]bool{})) {
									nw := w
									nw.r = r
									out = append(out, nw)
								}
							} else {
								nw := w
								nw.r = root{kind: rUnknown, name: "variable captured by " + callee.Name()}
								out = append(out, nw)
							}
						default:
							out = append(out, w)
						}
					}
				}
			}
		}
	}
	fa.sum[fn] = out
	return out
}

// underLock: is the instruction dominated by a Lock() call on a mutex and
// followed (post-dominated or deferred) by the matching Unlock?
func (fa *frameAn) underLock(fn *ssa.Function, at ssa.Instruction) bool {
	var lockCalls, unlockCalls []ssa.Instruction
	deferredUnlock := false
	for _, b := range fn.Blocks {
		for _, in := range b.Instrs {
			var cc *ssa.CallCommon
			switch x := in.(type) {
			case *ssa.Call:
				cc = x.Common()
			case *ssa.Defer:
				cc = x.Common()
			default:
				continue
			}
			f, ok := cc.Value.(*ssa.Function)
			if !ok {
				continue
			}
			n := f.String()
			if n == "(*sync.Mutex).Lock" || n == "(*sync.RWMutex).Lock" {
				if _, isDefer := in.(*ssa.Defer); !isDefer {
					lockCalls = append(lockCalls, in)
				}
			}
			if n == "(*sync.Mutex).Unlock" || n == "(*sync.RWMutex).Unlock" {
				if _, isDefer := in.(*ssa.Defer); isDefer {
					deferredUnlock = true
				} else {
					unlockCalls = append(unlockCalls, in)
				}
			}
		}
	}
	if len(lockCalls) == 0 {
		return false
	}
	dominated := false
	for _, l := range lockCalls {
		if instrDominates(l, at) {
			// no unlock between the lock and the access on a dominating chain
			blocked := false
			for _, u := range unlockCalls {
				if instrDominates(l, u) && instrDominates(u, at) {
					blocked = true
				}
			}
			if !blocked {
				dominated = true
			}
		}
	}
	if !dominated {
		return false
	}
	return deferredUnlock || len(unlockCalls) > 0
}

func instrDominates(a, b ssa.Instruction) bool {
	if a.Block() == b.Block() {
		for _, in := range a.Block().Instrs {
			if in == a {
				return true
			}
			if in == b {
				return false
			}
		}
	}
	return a.Block().Dominates(b.Block())
}

// sdfTypes: all named module types implementing SDF2 or SDF3.
func (fa *frameAn) sdfMethods(x *Exec) []*ssa.Function {
	var ifaces []*types.Interface
	if p := x.pkgByNm["sdf"]; p != nil {
		for _, n := range []string{"SDF2", "SDF3"} {
			if o := p.Pkg.Scope().Lookup(n); o != nil {
				ifaces = append(ifaces, o.Type().Underlying().(*types.Interface))
			}
		}
	}
	var out []*ssa.Function
	seen := map[*ssa.Function]bool{}
	for _, p := range x.prog.AllPackages() {
		if !strings.HasPrefix(p.Pkg.Path(), modulePath) {
			continue
		}
		for _, m := range p.Members {
			tn, ok := m.(*ssa.Type)
			if !ok {
				continue
			}
			T := tn.Type()
			if _, isIface := T.Underlying().(*types.Interface); isIface {
				continue
			}
			for _, cand := range []types.Type{T, types.NewPointer(T)} {
				impl := false
				for _, it := range ifaces {
					if types.Implements(cand, it) {
						impl = true
					}
				}
				if !impl {
					continue
				}
				ms := x.prog.MethodSets.MethodSet(cand)
				for i := 0; i < ms.Len(); i++ {
					sel := ms.At(i)
					if sel.Obj().Name() != "Evaluate" && sel.Obj().Name() != "BoundingBox" {
						continue
					}
					f := x.prog.MethodValue(sel)
					if f == nil || seen[f] {
						continue
					}
					// skip synthetic pointer wrappers of value methods (same body)
					if f.Synthetic != "" {
						continue
					}
					seen[f] = true
					out = append(out, f)
				}
			}
		}
	}
	sort.Slice(out, func(i, j int) bool { return out[i].String() < out[j].String() })
	return out
}

func shortFn(fn *ssa.Function) string {
	s := fn.String()
	s = strings.ReplaceAll(s, modulePath+"/", "")
	s = strings.ReplaceAll(s, "(*", "")
	s = strings.ReplaceAll(s, "(", "")
	s = strings.ReplaceAll(s, ")", "")
	return s
}

// frameChecks produces one obligation per Evaluate/BoundingBox method.
func frameChecks(e *Engine) ([]*groupResult, []string) {
	x := e.x
	fa := newFrameAn(x.prog)
	var out []*groupResult
	for _, fn := range fa.sdfMethods(x) {
		name := shortFn(fn) + "/assigns-nothing"
		ws := fa.summary(fn)
		g := &groupResult{Name: name, Status: "discharged", Queries: 1, Backends: []string{"frame"}, What: "writes no memory reachable from receiver, parameters, globals or captured variables (or only under the receiver's mutex)"}
		var bad []string
		guardedFields := map[string]bool{}
		for _, w := range ws {
			if w.guarded {
				guardedFields[w.field] = true
				continue
			}
			p := x.prog.Fset.Position(w.pos)
			bad = append(bad, fmt.Sprintf("%s to %s%s in %s (%s:%d)", w.what, w.r, fieldSuffix(w.field), shortFn(w.fn), trimRepo(p.Filename, e.repo), p.Line))
		}
		// lock discipline: every access to a guarded field in the functions reached must also be under lock
		if len(bad) == 0 && len(guardedFields) > 0 {
			bad = append(bad, fa.unguardedReads(x, fn, guardedFields, e.repo)...)
			if len(bad) == 0 {
				g.What += "; guarded_by mutex: " + strings.Join(sortedKeys(guardedFields), ",")
			}
		}
		if len(bad) > 0 {
			sort.Strings(bad)
			g.Status = "refuted"
			if len(bad) > 6 {
				bad = append(bad[:6], fmt.Sprintf("… %d more", len(bad)-6))
			}
			g.Detail = strings.Join(bad, "; ")
			g.frameFn = fn
		}
		out = append(out, g)
	}
	return out, sortedKeys(fa.assumed)
}

func fieldSuffix(f string) string {
	if f == "" {
		return ""
	}
	return " (field " + f + ")"
}

func trimRepo(f, repo string) string {
	return strings.TrimPrefix(f, repo+"/")
}

// unguardedReads: accesses to guarded fields of the receiver outside the lock.
func (fa *frameAn) unguardedReads(x *Exec, fn *ssa.Function, fields map[string]bool, repo string) []string {
	var bad []string
	for _, b := range fn.Blocks {
		for _, in := range b.Instrs {
			f, ok := in.(*ssa.FieldAddr)
			if !ok {
				continue
			}
			st := f.X.Type().Underlying().(*types.Pointer).Elem().Underlying().(*types.Struct)
			name := st.Field(f.Field).Name()
			if !fields[name] {
				continue
			}
			if !fa.underLock(fn, in) {
				p := x.prog.Fset.Position(f.Pos())
				bad = append(bad, fmt.Sprintf("access to mutex-guarded field %s outside the lock in %s (%s:%d)", name, shortFn(fn), trimRepo(p.Filename, repo), p.Line))
			}
		}
	}
	return bad
}

// frameReplay hammers Evaluate from many goroutines under the race detector.
var frameRecipes = map[string]string{
	"sdf.CacheSDF2":  "func() SDF2 { c, _ := Circle2D(1); return Cache2D(c) }()",
	"sdf.VoxelSDF3":  "func() SDF3 { s, _ := Sphere3D(1); return NewVoxelSDF3(s, 8, nil) }()",
	"sdf.UnionSDF2":  "func() SDF2 { a, _ := Circle2D(1); b := Box2D(v2.Vec{1, 1}, 0); return Union2D(a, Transform2D(b, Translate2d(v2.Vec{1, 0}))) }()",
	"sdf.UnionSDF3":  "func() SDF3 { a, _ := Sphere3D(1); b, _ := Box3D(v3.Vec{1, 1, 1}, 0); return Union3D(a, Transform3D(b, Translate3d(v3.Vec{1, 0, 0}))) }()",
}

func frameReplay(e *Engine, g *groupResult) map[string]interface{} {
	rec := map[string]interface{}{"reproduced": false, "violating_instructions": g.Detail}
	fn := g.frameFn
	recv := fn.Signature.Recv().Type()
	if p, ok := recv.(*types.Pointer); ok {
		recv = p.Elem()
	}
	n, ok := recv.(*types.Named)
	if !ok {
		rec["reason"] = "receiver type not named"
		return rec
	}
	key := n.Obj().Pkg().Name() + "." + n.Obj().Name()
	recipe, ok := frameRecipes[key]
	if !ok || n.Obj().Pkg().Name() != "sdf" {
		rec["reason"] = "no construction recipe for " + key + "; the obligation names the instructions that write shared state"
		return rec
	}
	is3 := strings.Contains(recipe, "SDF3 {")
	vec, mk := "v2.Vec", "v2.Vec{float64(i%17) * 0.1, float64(i%13) * 0.1}"
	if is3 {
		vec, mk = "v3.Vec", "v3.Vec{float64(i%17) * 0.1, float64(i%13) * 0.1, float64(i%7) * 0.1}"
	}
	src := fmt.Sprintf(`package sdf

import (
	"fmt"
	"runtime"
	"sync"
	"testing"

	v2 "%[1]s/vec/v2"
	v3 "%[1]s/vec/v3"
)

var _ = v2.Vec{}
var _ = v3.Vec{}

func TestVerifReplay(t *testing.T) {
	defer func() {
		if r := recover(); r != nil {
			fmt.Printf("REPLAY-PANIC %%v\n", r)
		}
	}()
	ref := %[2]s
	pts := make([]%[3]s, 4000)
	want := make([]float64, len(pts))
	for i := range pts {
		pts[i] = %[4]s
		want[i] = ref.Evaluate(pts[i])
	}
	s := %[2]s
	var wg sync.WaitGroup
	var mu sync.Mutex
	bad := 0
	n := runtime.NumCPU()
	if n < 4 {
		n = 4
	}
	for w := 0; w < n; w++ {
		wg.Add(1)
		go func(w int) {
			defer wg.Done()
			for i := range pts {
				k := (i*7 + w*131) %% len(pts)
				if s.Evaluate(pts[k]) != want[k] {
					mu.Lock()
					bad++
					mu.Unlock()
				}
			}
		}(w)
	}
	wg.Wait()
	fmt.Printf("REPLAY-MISMATCHES %%d\n", bad)
}
`, modulePath, recipe, vec, mk)
	rec["test_source"] = src
	out, cmdline := runOverlayTest(e, "sdf", src, "^TestVerifReplay$", true)
	rec["command"] = cmdline
	if len(out) > 2500 {
		out = out[:2500]
	}
	rec["output"] = out
	if strings.Contains(out, "DATA RACE") || strings.Contains(out, "concurrent map") || (strings.Contains(out, "REPLAY-MISMATCHES") && !strings.Contains(out, "REPLAY-MISMATCHES 0")) {
		rec["reproduced"] = true
	} else {
		rec["reason"] = "no race reported by the race detector on this run"
	}
	return rec
}

func (fa *frameAn) takesLock(fn *ssa.Function) bool {
	for _, b := range fn.Blocks {
		for _, in := range b.Instrs {
			if c, ok := in.(*ssa.Call); ok {
				if f, ok := c.Common().Value.(*ssa.Function); ok {
					n := f.String()
					if n == "(*sync.Mutex).Lock" || n == "(*sync.RWMutex).Lock" {
						return true
					}
				}
			}
		}
	}
	return false
}
