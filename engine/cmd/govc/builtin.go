package main

import (
	"fmt"
	"sort"
	"go/types"
	"strings"
	"golang.org/x/tools/go/ssa"
	"golang.org/x/tools/go/ssa/ssautil"
)

// Built-in (non-contract) checks registered per property.

func builtinChecks(e *Engine, prop, tier string) []*groupResult {
	gs := builtinChecksFor(e, prop, tier)
	gs = append(gs, pureChecks(e, prop)...)
	if e.only == "" || strings.Contains(e.only, "witness") {
		gs = append(gs, witnessChecks(e, prop)...)
	}
	return gs
}

// pureChecks: every contract marked "pure" is checked by the frame analysis
// to write no memory reachable from its receiver, parameters or globals.
func pureChecks(e *Engine, prop string) []*groupResult {
	var out []*groupResult
	var fa *frameAn
	for _, ct := range e.cs.contracts {
		if !ct.pure || ct.lemma {
			continue
		}
		has := false
		for _, p := range ct.props {
			if p == prop {
				has = true
			}
		}
		if !has {
			continue
		}
		if fa == nil {
			fa = newFrameAn(e.x.prog)
		}
		g := &groupResult{Name: ct.label() + "/frame.reads-only", Status: "discharged", Queries: 1, Backends: []string{"frame"}, What: "declared pure: writes no memory reachable from receiver, parameters, globals or captured variables"}
		func() {
			defer func() {
				if r := recover(); r != nil {
					g.Status = "error"
					g.Detail = fmt.Sprint(r)
				}
			}()
			fn := e.x.resolveFunc(ct)
			var bad []string
			for _, w := range fa.summary(fn) {
				p := e.x.prog.Fset.Position(w.pos)
				bad = append(bad, fmt.Sprintf("%s to %s%s in %s (%s:%d)", w.what, w.r, fieldSuffix(w.field), shortFn(w.fn), trimRepo(p.Filename, e.repo), p.Line))
			}
			if len(bad) > 0 {
				g.Status = "refuted"
				g.Detail = strings.Join(bad, "; ")
			}
		}()
		out = append(out, g)
	}
	return out
}

func builtinChecksFor(e *Engine, prop, tier string) []*groupResult {
	switch prop {
	case "C05":
		gs := lemmaGroups("render.mcTables", mcTableLemmas(e.x))
		gs = append(gs, cellCodeCheck(e, "mcToTriangles", 8, e.x.intTable1("render", "mcEdgeTable"), e.x.intTable2("render", "mcPairTable"), e.x.intTable2("render", "mcTriangleTable"), 3, "mcInterpolate"))
		gs = append(gs, tablesImmutable(e, []string{"mcEdgeTable", "mcPairTable", "mcTriangleTable"}))
		return gs
	case "C08":
		gs := lemmaGroups("render.msTables", msTableLemmas(e.x))
		gs = append(gs, cellCodeCheck(e, "msToLines", 4, e.x.intTable1("render", "msEdgeTable"), e.x.intTable2("render", "msPairTable"), e.x.intTable2("render", "msLineTable"), 2, "msInterpolate"))
		gs = append(gs, tablesImmutable(e, []string{"msEdgeTable", "msPairTable", "msLineTable"}))
		return gs
	case "C04":
		return []*groupResult{
			soleWriters(e, "sdf", "lineInfo", []string{"newLineInfo"}, "so every segment record is one that newLineInfo built (its postcondition is the record invariant the evaluation contracts assume)"),
			soleWriters(e, "sdf", "qtNode", []string{"qtBuild"}, "so every quadtree node is one that qtBuild built and is never modified afterwards"),
		}
	case "C18":
		return threadDBChecks(e)
	case "C13":
		return stlLayoutChecks(e)
	case "C11":
		return bufferLockChecks(e)
	case "C10":
		gs, assumed := frameChecks(e)
		for _, a := range assumed {
			e.x.note(a)
		}
		return gs
	}
	return nil
}

func ssautilAllFunctions(prog *ssa.Program) map[*ssa.Function]bool {
	return ssautil.AllFunctions(prog)
}


// appendSym: append where a length or a backing store is symbolic. The result
// always lives in a fresh cell (functional array = old contents + writes).
// Not modelled: in-place reuse of spare capacity (aliasing with the old slice).
func (x *Exec) appendSym(st *State, fr *Frame, s, m *SliceV) Value {
	x.note("append modelled as copy into a fresh backing array (no aliasing through spare capacity)")
	et := s.elem
	if et == nil {
		et = m.elem
	}
	// source array as SymArr view
	toSym := func(sl *SliceV) (*SymArr, *Term) {
		if sl.cell == nil {
			x.symArrCtr++
			return &SymArr{elem: et, name: fmt.Sprintf("nil%d", x.symArrCtr)}, mkInt(0)
		}
		switch b := st.store[sl.cell].(type) {
		case *SymArr:
			return b, sl.off
		case *Tuple:
			x.symArrCtr++
			sa := &SymArr{elem: et, name: fmt.Sprintf("lit%d", x.symArrCtr)}
			for i, e := range b.el {
				sa.writes = append(sa.writes, symWrite{idx: mkInt(int64(i)), val: e})
			}
			return sa, sl.off
		}
		fail("append: unsupported backing store")
		return nil, nil
	}
	base, boff := toSym(s)
	if off, ok := concreteInt(boff); !ok || off != 0 {
		fail("append to a slice with non-zero offset into a symbolic array")
	}
	n := &SymArr{elem: et, name: base.name, pre: base.pre}
	n.writes = append([]symWrite{}, base.writes...)
	if ml, ok := concreteInt(m.len); ok && m.cell != nil {
		if src, ok := st.store[m.cell].(*Tuple); ok {
			mo, _ := concreteInt(m.off)
			for i := 0; i < ml; i++ {
				n.writes = append(n.writes, symWrite{idx: mkAdd(s.len, mkInt(int64(i))), val: x.escape(st, src.el[mo+i])})
			}
			cell := newCell("append", types.NewArray(et, -1))
			st.store[cell] = n
			nl := mkAdd(s.len, mkInt(int64(ml)))
			return &SliceV{cell: cell, off: mkInt(0), len: nl, cap: nl, elem: et, named: s.named}
		}
	}
	src, soff := toSym(m)
	n.writes = append(n.writes, symWrite{idx: s.len, src: src, srcOff: soff, n: m.len})
	cell := newCell("append", types.NewArray(et, -1))
	st.store[cell] = n
	nl := mkAdd(s.len, m.len)
	return &SliceV{cell: cell, off: mkInt(0), len: nl, cap: nl, elem: et, named: s.named}
}

// soleWriters: the fields of the named struct type are written (and objects of
// it are created) only by the listed functions.
func soleWriters(e *Engine, pkg, typeName string, allowed []string, why string) *groupResult {
	g := &groupResult{Name: pkg + "." + typeName + "/written-only-by-its-constructor", Status: "discharged", Queries: 1, Backends: []string{"frame"},
		What: "objects of type " + typeName + " are created and written only by " + strings.Join(allowed, ", ") + " - " + why}
	ok := map[string]bool{}
	for _, a := range allowed {
		ok[a] = true
	}
	isT := func(t types.Type) bool {
		if p, isP := t.Underlying().(*types.Pointer); isP {
			t = p.Elem()
		}
		n, isN := t.(*types.Named)
		return isN && n.Obj().Name() == typeName && n.Obj().Pkg() != nil && n.Obj().Pkg().Name() == pkg
	}
	var bad []string
	for fn := range ssautil.AllFunctions(e.x.prog) {
		if !inModule(fn) || ok[fn.Name()] {
			continue
		}
		for _, b := range fn.Blocks {
			for _, in := range b.Instrs {
				where := ""
				switch s := in.(type) {
				case *ssa.Store:
					addr := s.Addr
					for depth := 0; depth < 20 && addr != nil; depth++ {
						switch a := addr.(type) {
						case *ssa.FieldAddr:
							if isT(a.X.Type()) {
								where = "writes a field"
							}
							addr = a.X
						case *ssa.IndexAddr:
							addr = a.X
						default:
							if isT(addr.Type()) {
								where = "overwrites an object"
							}
							addr = nil
						}
					}
				case *ssa.Alloc:
					if isT(s.Type()) && s.Heap {
						where = "allocates an object"
					}
				}
				if where != "" {
					p := e.x.prog.Fset.Position(in.Pos())
					bad = append(bad, fmt.Sprintf("%s %s (%s:%d)", shortFn(fn), where, trimRepo(p.Filename, e.repo), p.Line))
				}
			}
		}
	}
	if len(bad) > 0 {
		sort.Strings(bad)
		g.Status = "refuted"
		g.Detail = strings.Join(bad, "; ")
	}
	return g
}

// tablesImmutable: no instruction outside the package initialiser stores
// through an address derived from the named package-level tables.
func tablesImmutable(e *Engine, names []string) *groupResult {
	g := &groupResult{Name: "render.tables/immutable", Status: "discharged", Queries: 1, Backends: []string{"frame"}, What: "the case tables " + strings.Join(names, ", ") + " are written only by the package initialiser (so reading them from init is reading the values every call sees)"}
	want := map[string]bool{}
	for _, n := range names {
		want[n] = true
	}
	var bad []string
	for fn := range ssautil.AllFunctions(e.x.prog) {
		if !inModule(fn) || fn.Name() == "init" {
			continue
		}
		for _, b := range fn.Blocks {
			for _, in := range b.Instrs {
				var addr ssa.Value
				switch s := in.(type) {
				case *ssa.Store:
					addr = s.Addr
				case *ssa.MapUpdate:
					addr = s.Map
				default:
					continue
				}
				// walk to the root
				for depth := 0; depth < 20 && addr != nil; depth++ {
					switch a := addr.(type) {
					case *ssa.FieldAddr:
						addr = a.X
					case *ssa.IndexAddr:
						addr = a.X
					case *ssa.Slice:
						addr = a.X
					case *ssa.UnOp:
						addr = a.X
					case *ssa.Global:
						if a.Pkg != nil && a.Pkg.Pkg.Name() == "render" && want[a.Name()] {
							p := e.x.prog.Fset.Position(in.Pos())
							bad = append(bad, fmt.Sprintf("%s writes %s (%s:%d)", shortFn(fn), a.Name(), trimRepo(p.Filename, e.repo), p.Line))
						}
						addr = nil
					default:
						addr = nil
					}
				}
			}
		}
	}
	if len(bad) > 0 {
		g.Status = "refuted"
		g.Detail = strings.Join(bad, "; ")
	}
	return g
}

// bufferLockChecks: guarded_by lock: buf for the output buffers (several
// producers may call Write concurrently; each call must be atomic).
func bufferLockChecks(e *Engine) []*groupResult {
	x := e.x
	fa := newFrameAn(x.prog)
	var out []*groupResult
	pkg := x.pkgByNm["sdf"]
	for _, tn := range []string{"Triangle3Buffer", "Line2Buffer"} {
		o := pkg.Pkg.Scope().Lookup(tn)
		if o == nil {
			continue
		}
		for _, mn := range []string{"Write", "Close"} {
			fn := x.findMethod(types.NewPointer(o.Type()), mn)
			if fn == nil {
				continue
			}
			g := &groupResult{Name: "sdf." + tn + "." + mn + "/buf-guarded-by-lock", Status: "discharged", Queries: 1, Backends: []string{"frame"}, What: "every access to the buf field happens between lock.Lock() and lock.Unlock() (each Write/Close is atomic, so concurrent producers interleave whole calls)"}
			bad := fa.unguardedReads(x, fn, map[string]bool{"buf": true}, e.repo)
			// the function must actually take the lock
			if !fa.takesLock(fn) {
				bad = append(bad, "no Lock() call in "+shortFn(fn))
			}
			if len(bad) > 0 {
				g.Status = "refuted"
				g.Detail = strings.Join(bad, "; ")
			}
			out = append(out, g)
		}
	}
	return out
}

// stlLayoutChecks: facts about the record types handed to encoding/binary,
// computed from the real declarations (binary.Write lays fixed-size values
// out field by field without padding - assumption A6).
func stlLayoutChecks(e *Engine) []*groupResult {
	x := e.x
	pkg := x.pkgByNm["render"]
	var out []*groupResult
	packed := func(t types.Type) int64 {
		var f func(t types.Type) int64
		f = func(t types.Type) int64 {
			switch u := t.Underlying().(type) {
			case *types.Basic:
				switch u.Kind() {
				case types.Uint8, types.Int8, types.Bool:
					return 1
				case types.Uint16, types.Int16:
					return 2
				case types.Uint32, types.Int32, types.Float32:
					return 4
				case types.Uint64, types.Int64, types.Float64:
					return 8
				}
				return -1 << 40
			case *types.Array:
				return u.Len() * f(u.Elem())
			case *types.Struct:
				var s int64
				for i := 0; i < u.NumFields(); i++ {
					s += f(u.Field(i).Type())
				}
				return s
			}
			return -1 << 40
		}
		return f(t)
	}
	check := func(name, what string, ok bool, detail string) {
		g := &groupResult{Name: "render." + name, Status: "discharged", Queries: 1, Backends: []string{"types"}, What: what}
		if !ok {
			g.Status = "refuted"
			g.Detail = detail
		}
		out = append(out, g)
	}
	if o := pkg.Pkg.Scope().Lookup("STLHeader"); o != nil {
		st := o.Type().Underlying().(*types.Struct)
		ok := st.NumFields() == 2 && packed(st.Field(0).Type()) == 80 && st.Field(1).Name() == "Count" && packed(st.Field(1).Type()) == 4
		if ok {
			b, isB := st.Field(1).Type().Underlying().(*types.Basic)
			ok = isB && b.Kind() == types.Uint32
		}
		check("STLHeader/layout", "STLHeader is 80 header bytes followed by a uint32 count (84 bytes packed)", ok && packed(o.Type()) == 84, fmt.Sprintf("packed size %d, fields %v", packed(o.Type()), st))
	} else {
		check("STLHeader/layout", "STLHeader exists", false, "type not found")
	}
	if o := pkg.Pkg.Scope().Lookup("STLTriangle"); o != nil {
		st := o.Type().Underlying().(*types.Struct)
		want := []string{"Normal", "Vertex1", "Vertex2", "Vertex3", "_"}
		ok := st.NumFields() == 5
		for i := 0; ok && i < 5; i++ {
			if st.Field(i).Name() != want[i] {
				ok = false
			}
		}
		for i := 0; ok && i < 4; i++ {
			a, isA := st.Field(i).Type().Underlying().(*types.Array)
			if !isA || a.Len() != 3 {
				ok = false
				break
			}
			bt, isB := a.Elem().Underlying().(*types.Basic)
			if !isB || bt.Kind() != types.Float32 {
				ok = false
			}
		}
		if ok {
			bt, isB := st.Field(4).Type().Underlying().(*types.Basic)
			ok = isB && bt.Kind() == types.Uint16
		}
		check("STLTriangle/layout", "STLTriangle is normal, vertex1, vertex2, vertex3 (3 x float32 each) and a uint16 attribute, in that order (50 bytes packed); the attribute field is blank, so never written by the code", ok && packed(o.Type()) == 50, fmt.Sprintf("packed size %d, fields %v", packed(o.Type()), st))
	} else {
		check("STLTriangle/layout", "STLTriangle exists", false, "type not found")
	}
	return out
}
