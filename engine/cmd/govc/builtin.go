package main

import (
	"fmt"
	"go/types"
	"strings"
	"golang.org/x/tools/go/ssa"
	"golang.org/x/tools/go/ssa/ssautil"
)

// Built-in (non-contract) checks registered per property.

func builtinChecks(e *Engine, prop, tier string) []*groupResult {
	switch prop {
	case "C05":
		gs := lemmaGroups("render.mcTables", mcTableLemmas(e.x))
		gs = append(gs, cellCodeCheck(e, "mcToTriangles", 8, e.x.intTable1("render", "mcEdgeTable"), e.x.intTable2("render", "mcPairTable"), e.x.intTable2("render", "mcTriangleTable"), 3, "mcInterpolate"))
		gs = append(gs, tablesImmutable(e, []string{"mcEdgeTable", "mcPairTable", "mcTriangleTable"}))
		return gs
	case "C08":
		gs := lemmaGroups("render.msTables", msTableLemmas(e.x))
		gs = append(gs, cellCodeCheck(e, "msToLines", 4, e.x.intTable1("render", "msEdgeTable"), e.x.intTable2("render", "msPairTable"), e.x.intTable2("render", "msLineTable"), 2, "msInterpolate"))
		gs = append(gs, tablesImmutable(e, []string{"msEdgeTable", "msPairTable", "msLineTable"}))
		return gs
	case "C10":
		gs, assumed := frameChecks(e)
		for _, a := range assumed {
			e.x.note(a)
		}
		return gs
	}
	return nil
}

func ssautilAllFunctions(prog *ssa.Program) map[*ssa.Function]bool {
	return ssautil.AllFunctions(prog)
}


// appendSym: append where a length or a backing store is symbolic. The result
// always lives in a fresh cell (functional array = old contents + writes).
// Not modelled: in-place reuse of spare capacity (aliasing with the old slice).
func (x *Exec) appendSym(st *State, fr *Frame, s, m *SliceV) Value {
	x.note("append modelled as copy into a fresh backing array (no aliasing through spare capacity)")
	et := s.elem
	if et == nil {
		et = m.elem
	}
	// source array as SymArr view
	toSym := func(sl *SliceV) (*SymArr, *Term) {
		if sl.cell == nil {
			x.symArrCtr++
			return &SymArr{elem: et, name: fmt.Sprintf("nil%d", x.symArrCtr)}, mkInt(0)
		}
		switch b := st.store[sl.cell].(type) {
		case *SymArr:
			return b, sl.off
		case *Tuple:
			x.symArrCtr++
			sa := &SymArr{elem: et, name: fmt.Sprintf("lit%d", x.symArrCtr)}
			for i, e := range b.el {
				sa.writes = append(sa.writes, symWrite{idx: mkInt(int64(i)), val: e})
			}
			return sa, sl.off
		}
		fail("append: unsupported backing store")
		return nil, nil
	}
	base, boff := toSym(s)
	if off, ok := concreteInt(boff); !ok || off != 0 {
		fail("append to a slice with non-zero offset into a symbolic array")
	}
	n := &SymArr{elem: et, name: base.name}
	n.writes = append([]symWrite{}, base.writes...)
	if ml, ok := concreteInt(m.len); ok && m.cell != nil {
		if src, ok := st.store[m.cell].(*Tuple); ok {
			mo, _ := concreteInt(m.off)
			for i := 0; i < ml; i++ {
				n.writes = append(n.writes, symWrite{idx: mkAdd(s.len, mkInt(int64(i))), val: src.el[mo+i]})
			}
			cell := newCell("append", types.NewArray(et, -1))
			st.store[cell] = n
			nl := mkAdd(s.len, mkInt(int64(ml)))
			return &SliceV{cell: cell, off: mkInt(0), len: nl, cap: nl, elem: et, named: s.named}
		}
	}
	src, soff := toSym(m)
	n.writes = append(n.writes, symWrite{idx: s.len, src: src, srcOff: soff, n: m.len})
	cell := newCell("append", types.NewArray(et, -1))
	st.store[cell] = n
	nl := mkAdd(s.len, m.len)
	return &SliceV{cell: cell, off: mkInt(0), len: nl, cap: nl, elem: et, named: s.named}
}

// tablesImmutable: no instruction outside the package initialiser stores
// through an address derived from the named package-level tables.
func tablesImmutable(e *Engine, names []string) *groupResult {
	g := &groupResult{Name: "render.tables/immutable", Status: "discharged", Queries: 1, Backends: []string{"frame"}, What: "the case tables " + strings.Join(names, ", ") + " are written only by the package initialiser (so reading them from init is reading the values every call sees)"}
	want := map[string]bool{}
	for _, n := range names {
		want[n] = true
	}
	var bad []string
	for fn := range ssautil.AllFunctions(e.x.prog) {
		if !inModule(fn) || fn.Name() == "init" {
			continue
		}
		for _, b := range fn.Blocks {
			for _, in := range b.Instrs {
				var addr ssa.Value
				switch s := in.(type) {
				case *ssa.Store:
					addr = s.Addr
				case *ssa.MapUpdate:
					addr = s.Map
				default:
					continue
				}
				// walk to the root
				for depth := 0; depth < 20 && addr != nil; depth++ {
					switch a := addr.(type) {
					case *ssa.FieldAddr:
						addr = a.X
					case *ssa.IndexAddr:
						addr = a.X
					case *ssa.Slice:
						addr = a.X
					case *ssa.UnOp:
						addr = a.X
					case *ssa.Global:
						if a.Pkg != nil && a.Pkg.Pkg.Name() == "render" && want[a.Name()] {
							p := e.x.prog.Fset.Position(in.Pos())
							bad = append(bad, fmt.Sprintf("%s writes %s (%s:%d)", shortFn(fn), a.Name(), trimRepo(p.Filename, e.repo), p.Line))
						}
						addr = nil
					default:
						addr = nil
					}
				}
			}
		}
	}
	if len(bad) > 0 {
		g.Status = "refuted"
		g.Detail = strings.Join(bad, "; ")
	}
	return g
}
