package main

// Built-in (non-contract) checks registered per property.

func builtinChecks(e *Engine, prop, tier string) []*groupResult {
	return nil
}

func replayOnRealCode(e *Engine, o *Obligation) map[string]interface{} {
	return map[string]interface{}{"reproduced": false, "reason": "replay generator not available for this obligation kind"}
}

func (x *Exec) appendSym(st *State, fr *Frame, s, m *SliceV) Value {
	fail("append with symbolic lengths not modelled")
	return nil
}
