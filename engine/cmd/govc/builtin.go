package main

import (
	"golang.org/x/tools/go/ssa"
	"golang.org/x/tools/go/ssa/ssautil"
)

// Built-in (non-contract) checks registered per property.

func builtinChecks(e *Engine, prop, tier string) []*groupResult {
	switch prop {
	case "C10":
		gs, assumed := frameChecks(e)
		for _, a := range assumed {
			e.x.note(a)
		}
		return gs
	}
	return nil
}

func ssautilAllFunctions(prog *ssa.Program) map[*ssa.Function]bool {
	return ssautil.AllFunctions(prog)
}


func (x *Exec) appendSym(st *State, fr *Frame, s, m *SliceV) Value {
	fail("append with symbolic lengths not modelled")
	return nil
}
