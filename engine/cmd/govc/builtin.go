package main

// Built-in (non-contract) checks registered per property.

func builtinChecks(e *Engine, prop, tier string) []*groupResult {
	return nil
}


func (x *Exec) appendSym(st *State, fr *Frame, s, m *SliceV) Value {
	fail("append with symbolic lengths not modelled")
	return nil
}
