package main

import (
	"encoding/json"
	"flag"
	"fmt"
	"go/types"
	"os"
	"path/filepath"
	"sort"
	"strconv"
	"strings"
	"time"

	"golang.org/x/tools/go/packages"
	"golang.org/x/tools/go/ssa"
	"golang.org/x/tools/go/ssa/ssautil"
)

func newErrDyn() types.Type {
	return types.NewNamed(types.NewTypeName(0, nil, "verifError", nil), types.NewStruct(nil, nil), nil)
}

type Engine struct {
	x       *Exec
	cs      *ContractSet
	repo    string
	verif   string
	pkgs    []*packages.Package
	spkgs   []*ssa.Package
	loadMs  int64
	only    string
}

func loadEngine(repo, verif string) (*Engine, error) {
	return loadEngineOverlay(repo, verif, nil)
}

func writeFileQuiet(path string, data []byte) {
	os.MkdirAll(filepath.Dir(path), 0o755)
	os.WriteFile(path, data, 0o644)
}

// loadEngineOverlay loads the tree with extra in-memory files (baseline copies).
func loadEngineOverlay(repo, verif string, overlay map[string][]byte) (*Engine, error) {
	t0 := time.Now()
	cfg := &packages.Config{
		Mode:       packages.LoadAllSyntax,
		Dir:        repo,
		Overlay:    overlay,
		BuildFlags: []string{"-tags=verif"},
		Env:        append(os.Environ(), "GOFLAGS=-mod=mod", "GOPROXY=off", "GOSUMDB=off", "GOTOOLCHAIN=local"),
	}
	pkgs, err := packages.Load(cfg, "./sdf", "./render", "./obj", "./vec/...", "./render/dc")
	if err != nil {
		return nil, err
	}
	nerr := 0
	packages.Visit(pkgs, nil, func(p *packages.Package) {
		for _, e := range p.Errors {
			if strings.HasPrefix(p.PkgPath, modulePath) {
				fmt.Fprintf(os.Stderr, "load error: %v\n", e)
				nerr++
			}
		}
	})
	if nerr > 0 {
		return nil, fmt.Errorf("%d package load errors (does /repo compile with -tags verif?)", nerr)
	}
	prog, spkgs := ssautil.AllPackages(pkgs, ssa.InstantiateGenerics|ssa.GlobalDebug)
	prog.Build()
	x := &Exec{
		prog:        prog,
		pkgByNm:     map[string]*ssa.Package{},
		globals:     map[*ssa.Global]*Cell{},
		gstate:      newState(),
		initRun:     map[*ssa.Package]bool{},
		postdom:     map[*ssa.Function]map[*ssa.BasicBlock]*ssa.BasicBlock{},
		loopInfo:    map[*ssa.Function]map[*ssa.BasicBlock]*loopT{},
		mergeIf:     true,
		mergeCallMax: 4,
		maxPaths:    20000,
		zeroArrays:  map[string]types.Type{},
		iters:       map[*Cell]*rangeIter{},
		oblCount:    map[string]int{},
		pathNaming:  map[string]bool{},
		byFn:        map[*ssa.Function][]*Contract{},
		usedModular: map[string]bool{},
		pathsOf:     map[string]int{},
		opaque:      map[string]bool{},
		regions:     map[string]*Cell{},
	}
	for _, p := range prog.AllPackages() {
		if strings.HasPrefix(p.Pkg.Path(), modulePath) {
			x.pkgByNm[p.Pkg.Name()] = p
		}
	}
	x.runInits(spkgs)
	// definitional facts created while running init (e.g. atan(1/32) of the
	// thread table) are not part of any contract's hypothesis set
	x.gstate.apps = nil
	x.gstate.ax = nil
	x.freshBase = map[string]int{}
	for k, n := range freshCtr {
		x.freshBase[k] = n
	}
	x.ufMemoBase = map[string]*Term{}
	for k, t := range ufMemo {
		x.ufMemoBase[k] = t
	}
	cs, err := loadContracts(repo, filepath.Join(verif, "contracts"))
	if err != nil {
		return nil, err
	}
	x.specs = cs.specs
	x.lemmaByName = map[string]*Contract{}
	x.usedLemmas = map[string]bool{}
	for _, ct := range cs.contracts {
		if ct.lemma {
			x.lemmaByName[ct.key()] = ct
		}
	}
	e := &Engine{x: x, cs: cs, repo: repo, verif: verif, pkgs: pkgs, spkgs: spkgs, loadMs: time.Since(t0).Milliseconds()}
	// resolve modular contracts up front
	summarised := map[string]bool{}
	for _, ct := range cs.contracts {
		for _, sm := range ct.summarise {
			summarised[ct.pkg+"."+sm[0]+"/"+sm[1]] = true
		}
	}
	for _, ct := range cs.contracts {
		if (ct.modular || summarised[ct.pkg+"."+ct.fnName+"/"+ct.id]) && !ct.lemma {
			func() {
				defer func() { recover() }()
				fn := x.resolveFunc(ct)
				ct.fn = fn
				x.byFn[fn] = append(x.byFn[fn], ct)
			}()
		}
	}
	return e, nil
}

type groupResult struct {
	Name      string   `json:"name"`
	Status    string   `json:"status"` // discharged refuted undecided
	Queries   int      `json:"queries"`
	Backends  []string `json:"backends"`
	Ms        int64    `json:"ms"`
	MaxMs     int64    `json:"max_query_ms,omitempty"`
	What      string   `json:"what,omitempty"`
	Detail    string   `json:"detail,omitempty"`
	Semantics string   `json:"semantics,omitempty"`
	obls      []*Obligation
	frameFn   *ssa.Function
	// concrete witness (a Go test replayed on the real code)
	replayFile string
	reproduced bool
}

type knownFinding struct {
	prop, obligation, witness, what string
}

func readKnownFindings(path string) (findings []knownFinding, fixed []string) {
	data, err := os.ReadFile(path)
	if err != nil {
		return
	}
	for _, line := range strings.Split(string(data), "\n") {
		line = strings.TrimSpace(line)
		if strings.HasPrefix(line, "finding:") {
			kf := knownFinding{}
			rest := strings.TrimSpace(line[len("finding:"):])
			// fields: property=.. obligation=.. witness=.. what=..
			for _, key := range []string{"property", "obligation", "witness", "what"} {
				i := strings.Index(rest, key+"=")
				if i < 0 {
					continue
				}
				v := rest[i+len(key)+1:]
				// value extends to next known key
				end := len(v)
				for _, k2 := range []string{" property=", " obligation=", " witness=", " what="} {
					if j := strings.Index(v, k2); j >= 0 && j < end {
						end = j
					}
				}
				v = strings.TrimSpace(v[:end])
				switch key {
				case "property":
					kf.prop = v
				case "obligation":
					kf.obligation = v
				case "witness":
					kf.witness = v
				case "what":
					kf.what = v
				}
			}
			findings = append(findings, kf)
		} else if strings.HasPrefix(line, "fixed:") {
			fixed = append(fixed, line)
		}
	}
	return
}

func readBaseline(path string) map[string]bool {
	m := map[string]bool{}
	data, err := os.ReadFile(path)
	if err != nil {
		return m
	}
	var names map[string]interface{}
	if json.Unmarshal(data, &names) == nil {
		for k := range names {
			m[k] = true
		}
	}
	return m
}

func baseName(n string) string {
	if i := strings.Index(n, "#p"); i >= 0 {
		return n[:i]
	}
	return n
}

func main() {
	if len(os.Args) < 2 {
		fmt.Fprintln(os.Stderr, "usage: govc check <property> [flags] | govc list")
		os.Exit(2)
	}
	cmd := os.Args[1]
	fs := flag.NewFlagSet(cmd, flag.ExitOnError)
	repo := fs.String("repo", "/repo", "repository root")
	verif := fs.String("verif", "/verif", "verif root")
	tier := fs.String("tier", envOr("VERIF_TIER", "quick"), "quick|thorough")
	only := fs.String("only", "", "substring filter on contract labels")
	updateBaseline := fs.Bool("update-baseline", false, "rewrite the baseline entries of this property (maintenance only)")
	verbose := fs.Bool("v", false, "verbose")
	noEvidence := fs.Bool("no-evidence", false, "do not write evidence")
	var prop string
	args := os.Args[2:]
	if cmd == "equiv" {
		// govc equiv <dir.Recv.Name|dir.Name> ... [flags]: compare functions with their verified predecessors
		var keys []declKey
		for len(args) > 0 && !strings.HasPrefix(args[0], "-") {
			keys = append(keys, parseDeclKey(args[0]))
			args = args[1:]
		}
		fs.Parse(args)
		c := newEquivChecker(*verif, *repo, filepath.Join(*verif, "out", "equiv"))
		defer c.close()
		if len(keys) == 0 && c.base != nil {
			// no function named: every declaration whose text differs from the snapshot
			for k := range c.base.delta {
				if _, ok := c.base.decls[k]; ok {
					keys = append(keys, k)
				}
			}
			sort.Slice(keys, func(i, j int) bool { return keys[i].String() < keys[j].String() })
		}
		c.prepare(keys)
		for _, k := range keys {
			r := c.check(k)
			fmt.Printf("%s: %s (%s) pairs=%d queries=%d %d ms\n", k, r.Status, r.Detail, r.Pairs, r.Queries, r.Ms)
		}
		return
	}
	if cmd == "check" {
		if len(args) == 0 {
			fmt.Fprintln(os.Stderr, "usage: govc check <property>")
			os.Exit(2)
		}
		prop = args[0]
		args = args[1:]
	}
	fs.Parse(args)
	switch cmd {
	case "check":
		os.Exit(runCheck(prop, *repo, *verif, *tier, *only, *updateBaseline, *verbose, *noEvidence))
	case "list":
		e, err := loadEngine(*repo, *verif)
		if err != nil {
			fmt.Fprintln(os.Stderr, err)
			os.Exit(2)
		}
		for _, c := range e.cs.contracts {
			fmt.Println(c.label(), c.props)
		}
	default:
		fmt.Fprintln(os.Stderr, "unknown command", cmd)
		os.Exit(2)
	}
}

// parseDeclKey: "sdf.Box3.MinMaxDist2", "render.mcToTriangles", "vec/v3.Vec.Add".
func parseDeclKey(s string) declKey {
	dir := s
	rest := ""
	if i := strings.LastIndex(s, "/"); i >= 0 {
		j := strings.Index(s[i:], ".")
		dir, rest = s[:i+j], s[i+j+1:]
	} else if j := strings.Index(s, "."); j >= 0 {
		dir, rest = s[:j], s[j+1:]
	}
	f := strings.SplitN(rest, ".", 2)
	if len(f) == 2 {
		return declKey{dir, f[0], f[1]}
	}
	return declKey{dir, "", rest}
}

func envOr(k, d string) string {
	if v := os.Getenv(k); v != "" {
		return v
	}
	return d
}

func hasProp(props []string, p string) bool {
	for _, q := range props {
		if q == p {
			return true
		}
	}
	return false
}

func runCheck(prop, repo, verif, tier, only string, updateBaseline, verbose, noEvidence bool) int {
	t0 := time.Now()
	if len(prop) != 3 || prop[0] != 'C' || prop[1] < '0' || prop[1] > '9' || prop[2] < '0' || prop[2] > '9' {
		fmt.Fprintf(os.Stderr, "usage: govc check <property id C01..C20> [flags]\n")
		return 2
	}
	seed, _ := strconv.Atoi(envOr("VERIF_SEED", "0"))
	e, err := loadEngine(repo, verif)
	if err != nil {
		fmt.Fprintf(os.Stderr, "engine error: %v\n", err)
		return 2
	}
	x := e.x
	x.recordedLocals = readLocals(filepath.Join(verif, "baseline_locals.json"))
	outDir := filepath.Join(verif, "out", prop)
	os.RemoveAll(outDir)
	os.MkdirAll(outDir, 0o755)
	var engineErrs []string
	var cts []*Contract
	for _, ct := range e.cs.contracts {
		if !hasProp(ct.props, prop) {
			continue
		}
		if only != "" && !strings.Contains(ct.label(), only) {
			continue
		}
		if tier == "quick" && ct.opts["thorough"] != "" {
			continue
		}
		cts = append(cts, ct)
	}
	var fnsUnder []string
	errByLabel := map[string]string{}
	for _, ct := range cts {
		if ct.trusted != "" {
			continue
		}
		n0 := len(x.obls)
		if err := x.verifyContract(ct); err != nil {
			// drop partial obligations of this contract; record engine failure
			x.obls = x.obls[:n0]
			engineErrs = append(engineErrs, fmt.Sprintf("%s: %v", ct.label(), err))
			errByLabel[ct.label()] = err.Error()
			continue
		}
		fnsUnder = append(fnsUnder, ct.label())
		if verbose {
			fmt.Printf("  %s: %d queries, %d paths\n", ct.label(), len(x.obls)-n0, x.pathsOf[ct.label()])
		}
	}
	// lemmas used by the verified contracts are proved in the same run
	for round := 0; round < 3; round++ {
		added := false
		for _, ct := range e.cs.contracts {
			if ct.lemma && !x.usedLemmas[ct.label()] {
				continue
			}
			if !ct.lemma {
				// a contract that was applied at a call site carries the caller's property: it is
				// proved in the same run whatever properties it is tagged with (a caller is checked
				// against the callee's contract, so the callee's body must be checked against it too)
				if !x.usedContracts[ct.label()] || ct.trusted != "" || only != "" {
					continue
				}
				if tier == "quick" && ct.opts["thorough"] != "" {
					continue
				}
			}
			already := false
			for _, c := range cts {
				if c == ct {
					already = true
				}
			}
			if already {
				continue
			}
			cts = append(cts, ct)
			added = true
			n0 := len(x.obls)
			if err := x.verifyContract(ct); err != nil {
				x.obls = x.obls[:n0]
				engineErrs = append(engineErrs, fmt.Sprintf("%s: %v", ct.label(), err))
				errByLabel[ct.label()] = err.Error()
				continue
			}
			fnsUnder = append(fnsUnder, ct.label())
		}
		if !added {
			break
		}
	}
	// built-in (non-contract) checks for the property
	e.only = only
	extra := builtinChecks(e, prop, tier)
	if only != "" {
		// a focused run keeps only the built-in results it names
		var keep []*groupResult
		for _, g := range extra {
			if strings.Contains(g.Name, only) || !strings.HasPrefix(g.Name, "witness.") {
				keep = append(keep, g)
			}
		}
		extra = keep
	}

	finalizeNames(x.obls)
	timeout := 40 * time.Second
	if tier == "thorough" {
		timeout = 150 * time.Second
	}
	solveAll(x.obls, outDir, timeout, tier == "thorough", 8)
	// Second chance: a few timeouts among many answers are what a loaded machine produces.
	// They are decided again, two at a time, with three times the time, before anything is
	// concluded from them (a query that genuinely stopped being provable still times out).
	{
		var again []*Obligation
		for _, o := range x.obls {
			if !o.expectSat && (o.res.status == "timeout") {
				again = append(again, o)
			}
		}
		if n := len(again); n > 0 && n <= 6 {
			prev := map[*Obligation]int64{}
			for _, o := range again {
				prev[o] = o.res.ms
			}
			rt := 3 * timeout
			if rt > 240*time.Second {
				rt = 240 * time.Second
			}
			solveAll(again, filepath.Join(outDir, "retry"), rt, false, 2)
			for _, o := range again {
				o.res.ms += prev[o]
			}
		}
	}

	// group
	groups := map[string]*groupResult{}
	var order []string
	for _, o := range x.obls {
		bn := baseName(o.name)
		g := groups[bn]
		if g == nil {
			g = &groupResult{Name: bn, Status: "discharged", What: o.what}
			groups[bn] = g
			order = append(order, bn)
		}
		g.obls = append(g.obls, o)
		g.Queries++
		g.Ms += o.res.ms
		if o.res.ms > g.MaxMs {
			g.MaxMs = o.res.ms
		}
		found := false
		for _, b := range g.Backends {
			if b == o.res.backend {
				found = true
			}
		}
		if !found && o.res.backend != "" {
			g.Backends = append(g.Backends, o.res.backend)
		}
		want := "unsat"
		if o.expectSat {
			want = "sat"
		}
		if o.res.status != want {
			if o.res.status == "sat" || (o.expectSat && o.res.status == "unsat") {
				g.Status = "refuted"
				g.Detail = o.name
			} else if g.Status != "refuted" {
				g.Status = "undecided"
				g.Detail = o.name + ": " + o.res.status
			}
		}
	}
	for label, msg := range errByLabel {
		bn := label + "/engine"
		groups[bn] = &groupResult{Name: bn, Status: "undecided", Detail: "engine: " + msg}
		order = append(order, bn)
	}
	for _, g := range extra {
		groups[g.Name] = g
		order = append(order, g.Name)
	}

	baselinePath := filepath.Join(verif, "baseline_obligations.json")
	baseline := readBaseline(baselinePath)
	findings, _ := readKnownFindings(filepath.Join(verif, "known_findings.txt"))
	isKnown := func(name string) *knownFinding {
		for i := range findings {
			if findings[i].prop == prop && findings[i].obligation == name {
				return &findings[i]
			}
		}
		return nil
	}

	// Stale proofs: before an obligation that no longer discharges is reported, the function it
	// belongs to is compared with its verified predecessor (equiv.go). Obligations of functions
	// shown equivalent are carried over (reported, never counted as proved, no violation).
	carried := map[string]*equivResult{}
	func() {
		// whatever goes wrong inside the fallback, the verdicts of the run itself stand
		defer func() {
			if r := recover(); r != nil {
				fmt.Fprintf(os.Stderr, "equivalence fallback unavailable (internal error: %v)\n", r)
				for k := range carried {
					delete(carried, k)
				}
			}
		}()
	if os.Getenv("VERIF_NO_EQUIV") == "" {
		contractOf := func(name string) *Contract {
			var best *Contract
			for _, ct := range e.cs.contracts {
				l := ct.label()
				if (name == l || strings.HasPrefix(name, l+"/")) && (best == nil || len(l) > len(best.label())) {
					best = ct
				}
			}
			return best
		}
		keysOf := func(ct *Contract) []declKey {
			if ct == nil {
				return nil
			}
			if !ct.lemma {
				return []declKey{parseDeclKey(ct.pkg + "." + ct.fnName)}
			}
			var ks []declKey
			for fn := range ct.called {
				if fo, ok := fn.Object().(*types.Func); ok && fo != nil {
					if k, ok := keyOfFunc(fo); ok {
						ks = append(ks, k)
					}
				}
			}
			sort.Slice(ks, func(i, j int) bool { return ks[i].String() < ks[j].String() })
			return ks
		}
		failing := map[string][]declKey{}
		for _, name := range order {
			g := groups[name]
			if strings.HasPrefix(name, "witness.") || strings.HasPrefix(name, "table.") {
				continue
			}
			bad := (g.Status == "refuted" && isKnown(g.Name) == nil) || (g.Status == "undecided" && (baseline[prop+"|"+g.Name] || strings.HasSuffix(name, "/engine")))
			if !bad {
				continue
			}
			if ks := keysOf(contractOf(name)); len(ks) > 0 {
				failing[name] = ks
			}
		}
		if only == "" {
			pfx := prop + "|"
			for bn := range baseline {
				if strings.HasPrefix(bn, pfx) {
					short := bn[len(pfx):]
					if _, ok := groups[short]; !ok {
						if ks := keysOf(contractOf(short)); len(ks) > 0 {
							failing[short] = ks
						}
					}
				}
			}
		}
		if len(failing) > 0 {
			var all []declKey
			seenK := map[declKey]bool{}
			for _, ks := range failing {
				for _, k := range ks {
					if !seenK[k] {
						seenK[k] = true
						all = append(all, k)
					}
				}
			}
			sort.Slice(all, func(i, j int) bool { return all[i].String() < all[j].String() })
			ck := newEquivChecker(verif, repo, outDir)
			ck.prepare(all)
			for name, ks := range failing {
				var worst *equivResult
				ok := true
				for _, k := range ks {
					r := ck.check(k)
					if r.Status == "unchanged" && len(ks) > 1 {
						continue // a lemma may mention functions that did not change
					}
					if !r.carries() && r.Status != "unchanged" {
						// not equivalent for arbitrary inputs: perhaps under the preconditions of
						// the contract these obligations belong to
						if ct := contractOf(name); ct != nil && !ct.lemma && len(ct.requires) > 0 {
							r = ck.checkUnder(k, ct.label())
						}
					}
					if !r.carries() {
						ok = false
						break
					}
					if worst == nil || r.Status == "bounded-equivalent" {
						worst = r
					}
				}
				if ok && worst != nil {
					carried[name] = worst
				}
			}
			if verbose {
				for _, k := range all {
					r := ck.check(k)
					fmt.Printf("  equivalence with the verified baseline: %s: %s %s (%d pairs, %d queries, %d ms)\n", k, r.Status, r.Detail, r.Pairs, r.Queries, r.Ms)
				}
			}
			ck.close()
		}
	}
	}()
	carriedLine := func(name string, r *equivResult) string {
		how := "equivalent to its verified predecessor on every path"
		if r.Status == "bounded-equivalent" {
			how = fmt.Sprintf("equivalent to its verified predecessor up to %d iterations per entry of a data-dependent loop (bounded, not counted as proved)", r.Bound)
		}
		return fmt.Sprintf("carried over: %s: the proof no longer fits the changed code, the function is %s", name, how)
	}

	nObl, nDis, nKnown, nUndecidedNew := 0, 0, 0, 0
	nCarried := 0
	violations := 0
	var lines []string
	var perObl []map[string]interface{}
	var solverMs int64
	for _, name := range order {
		g := groups[name]
		solverMs += g.Ms
		rec := map[string]interface{}{"name": g.Name, "status": g.Status, "queries": g.Queries, "backends": g.Backends, "ms": g.Ms, "max_query_ms": g.MaxMs}
		if g.What != "" {
			rec["what"] = g.What
		}
		if g.Detail != "" {
			rec["detail"] = g.Detail
		}
		perObl = append(perObl, rec)
		kf := isKnown(g.Name)
		switch g.Status {
		case "discharged":
			if kf != nil {
				// a listed finding that no longer fails: just note it
				lines = append(lines, fmt.Sprintf("note: known finding %s now discharges", g.Name))
			}
			nObl++
			nDis++
		case "refuted":
			if kf != nil {
				lines = append(lines, fmt.Sprintf("KNOWN-FINDING: property=%s %s (%s)", prop, kf.what, g.Name))
				nKnown++
				continue
			}
			rp := writeReplay(e, prop, g)
			if cr := carried[g.Name]; cr != nil && !rp.reproduced {
				// no input reproduces a failure on the real code and the function is unchanged in behaviour
				nCarried++
				rec["status"] = "carried-over"
				rec["equivalence"] = cr
				lines = append(lines, carriedLine(g.Name, cr))
				continue
			}
			nObl++
			violations++
			suffix := ""
			if !rp.reproduced {
				suffix = " no-failing-input-found"
			}
			lines = append(lines, fmt.Sprintf("VIOLATION property=%s replay=%s%s", prop, rp.path, suffix))
			lines = append(lines, fmt.Sprintf("  refuted obligation: %s  (%s)", g.Name, g.What))
		case "undecided":
			if cr := carried[g.Name]; cr != nil {
				nCarried++
				rec["status"] = "carried-over"
				rec["equivalence"] = cr
				lines = append(lines, carriedLine(g.Name, cr))
				continue
			}
			if baseline[prop+"|"+g.Name] {
				nObl++
				violations++
				rp := writeReplay(e, prop, g)
				lines = append(lines, fmt.Sprintf("VIOLATION property=%s replay=%s no-failing-input-found", prop, rp.path))
				lines = append(lines, fmt.Sprintf("  obligation no longer discharges: %s  (%s)", g.Name, g.Detail))
			} else {
				nUndecidedNew++
				lines = append(lines, fmt.Sprintf("undecided (not in baseline, not counted): %s  (%s)", g.Name, g.Detail))
			}
		}
	}
	// baseline obligations that were not even generated
	missing := 0
	if only == "" {
		var miss []string
		pfx := prop + "|"
		for bn := range baseline {
			if strings.HasPrefix(bn, pfx) {
				short := bn[len(pfx):]
				if _, ok := groups[short]; !ok {
					miss = append(miss, short)
				}
			}
		}
		sort.Strings(miss)
		for _, m := range miss {
			if cr := carried[m]; cr != nil {
				nCarried++
				perObl = append(perObl, map[string]interface{}{"name": m, "status": "carried-over", "equivalence": cr})
				lines = append(lines, carriedLine(m, cr))
				continue
			}
			missing++
			violations++
			nObl++
			g := &groupResult{Name: m, Status: "undecided", Detail: "obligation was not generated (contract missing, function removed or engine error)"}
			rp := writeReplay(e, prop, g)
			lines = append(lines, fmt.Sprintf("VIOLATION property=%s replay=%s no-failing-input-found", prop, rp.path))
			lines = append(lines, fmt.Sprintf("  baseline obligation missing: %s", m))
		}
	}
	_ = missing
	for _, l := range lines {
		fmt.Println(l)
	}
	wall := time.Since(t0).Seconds()
	fmt.Printf("%s [%s]: %d obligations, %d discharged, %d known findings, %d undecided-uncounted, %d carried over, %d violations, %d engine errors, %.1fs (load %.1fs, solver %.1fs cpu)\n",
		prop, tier, nObl, nDis, nKnown, nUndecidedNew, nCarried, violations, len(engineErrs), wall, float64(e.loadMs)/1000, float64(solverMs)/1000)
	if verbose {
		type kv struct {
			n  string
			ms int64
			q  int
		}
		var tops []kv
		for _, n := range order {
			tops = append(tops, kv{n, groups[n].Ms, groups[n].Queries})
		}
		sort.Slice(tops, func(i, j int) bool { return tops[i].ms > tops[j].ms })
		for i, t := range tops {
			if i >= 12 {
				break
			}
			fmt.Printf("  slowest: %-70s %6d ms in %d queries\n", t.n, t.ms, t.q)
		}
		for _, s := range engineErrs {
			fmt.Println("  engine:", s)
		}
	}

	if updateBaseline {
		writeBaseline(baselinePath, prop, groups, order)
		// the named variables of every function under contract, in order (rename tolerance)
		lp := filepath.Join(verif, "baseline_locals.json")
		locs := readLocals(lp)
		for _, ct := range e.cs.contracts {
			if ct.fn != nil && !ct.lemma {
				locs[ct.fn.String()] = orderedLocals(ct.fn)
			}
		}
		writeLocals(lp, locs)
	}
	carriedOver = nCarried
	if !noEvidence {
		writeEvidence(e, prop, tier, seed, wall, nObl, nDis, nKnown, violations, perObl, fnsUnder, engineErrs, solverMs, groups, order)
	}
	if nObl == 0 {
		fmt.Println("engine error: no obligations generated for", prop)
		return 2
	}
	if violations > 0 {
		return 1
	}
	return 0
}

func writeBaseline(path, prop string, groups map[string]*groupResult, order []string) {
	all := map[string]interface{}{}
	if data, err := os.ReadFile(path); err == nil {
		json.Unmarshal(data, &all)
	}
	pfx := prop + "|"
	for k := range all {
		if strings.HasPrefix(k, pfx) {
			delete(all, k)
		}
	}
	for _, n := range order {
		g := groups[n]
		if g.Status == "discharged" {
			all[pfx+n] = map[string]interface{}{"ms": g.Ms, "queries": g.Queries}
		}
	}
	data, _ := json.MarshalIndent(all, "", " ")
	os.WriteFile(path, append(data, '\n'), 0o644)
}
