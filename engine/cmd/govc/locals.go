package main

// Tolerance to renamed locals. Loop invariants and proof scripts name Go
// locals; a pure rename of a local would make a contract unreadable although
// nothing about the property changed. The ordered list of each function's
// named variables (parameters, then locals in declaration order, with their
// types) is recorded next to the baseline; when a contract names a variable the
// function no longer has, and the variable at the same position with the same
// type carries a new name that the recorded list does not know, the new name
// is used.

import (
	"encoding/json"
	"go/token"
	"go/types"
	"os"
	"sort"

	"golang.org/x/tools/go/ssa"
)

type localVar struct {
	Name string `json:"name"`
	Type string `json:"type"`
}

func orderedLocals(fn *ssa.Function) []localVar {
	type rec struct {
		pos token.Pos
		lv  localVar
	}
	seen := map[*types.Var]bool{}
	var recs []rec
	add := func(v *types.Var) {
		if v == nil || seen[v] || v.IsField() || v.Name() == "" || v.Name() == "_" {
			return
		}
		seen[v] = true
		recs = append(recs, rec{v.Pos(), localVar{v.Name(), types.TypeString(v.Type(), func(p *types.Package) string { return p.Name() })}})
	}
	for _, p := range fn.Params {
		if v, ok := p.Object().(*types.Var); ok {
			add(v)
		}
	}
	for _, b := range fn.Blocks {
		for _, in := range b.Instrs {
			if d, ok := in.(*ssa.DebugRef); ok {
				if v, ok := d.Object().(*types.Var); ok {
					add(v)
				}
			}
		}
	}
	sort.SliceStable(recs, func(i, j int) bool { return recs[i].pos < recs[j].pos })
	out := make([]localVar, len(recs))
	for i, r := range recs {
		out[i] = r.lv
	}
	return out
}

func readLocals(path string) map[string][]localVar {
	m := map[string][]localVar{}
	if data, err := os.ReadFile(path); err == nil {
		json.Unmarshal(data, &m)
	}
	return m
}

func writeLocals(path string, m map[string][]localVar) {
	data, _ := json.MarshalIndent(m, "", " ")
	os.WriteFile(path, append(data, '\n'), 0o644)
}

// renamedLocals: recorded name -> current name, for the variables of fn that
// kept position and type but changed name.
func renamedLocals(recorded []localVar, fn *ssa.Function) map[string]string {
	cur := orderedLocals(fn)
	if len(recorded) == 0 || len(recorded) != len(cur) {
		return nil
	}
	known := map[string]bool{}
	for _, r := range recorded {
		known[r.Name] = true
	}
	has := map[string]bool{}
	for _, c := range cur {
		has[c.Name] = true
	}
	out := map[string]string{}
	for i, r := range recorded {
		c := cur[i]
		if r.Name != c.Name && r.Type == c.Type && !has[r.Name] && !known[c.Name] {
			out[r.Name] = c.Name
		}
	}
	return out
}
