package main

// Tolerance to renamed locals. Loop invariants and proof scripts name Go
// locals; a pure rename of a local would make a contract unreadable although
// nothing about the property changed. The ordered list of each function's
// named variables (parameters, then locals in declaration order, with their
// types) is recorded next to the baseline; when a contract names a variable the
// function no longer has, and the variable at the same position with the same
// type carries a new name that the recorded list does not know, the new name
// is used.

import (
	"encoding/json"
	"go/token"
	"go/types"
	"os"
	"sort"

	"golang.org/x/tools/go/ssa"
)

type localVar struct {
	Name string `json:"name"`
	Type string `json:"type"`
}

func orderedLocals(fn *ssa.Function) []localVar {
	type rec struct {
		pos token.Pos
		lv  localVar
	}
	seen := map[*types.Var]bool{}
	var recs []rec
	add := func(v *types.Var) {
		if v == nil || seen[v] || v.IsField() || v.Name() == "" || v.Name() == "_" {
			return
		}
		seen[v] = true
		recs = append(recs, rec{v.Pos(), localVar{v.Name(), types.TypeString(v.Type(), func(p *types.Package) string { return p.Name() })}})
	}
	for _, p := range fn.Params {
		if v, ok := p.Object().(*types.Var); ok {
			add(v)
		}
	}
	for _, b := range fn.Blocks {
		for _, in := range b.Instrs {
			if d, ok := in.(*ssa.DebugRef); ok {
				if v, ok := d.Object().(*types.Var); ok {
					add(v)
				}
			}
		}
	}
	sort.SliceStable(recs, func(i, j int) bool { return recs[i].pos < recs[j].pos })
	out := make([]localVar, len(recs))
	for i, r := range recs {
		out[i] = r.lv
	}
	return out
}

func readLocals(path string) map[string][]localVar {
	m := map[string][]localVar{}
	if data, err := os.ReadFile(path); err == nil {
		json.Unmarshal(data, &m)
	}
	return m
}

func writeLocals(path string, m map[string][]localVar) {
	data, _ := json.MarshalIndent(m, "", " ")
	os.WriteFile(path, append(data, '\n'), 0o644)
}

// namedParams: the parameters of fn that orderedLocals lists (named ones), in order.
func namedParams(fn *ssa.Function) []*ssa.Parameter {
	var out []*ssa.Parameter
	for _, p := range fn.Params {
		if v, ok := p.Object().(*types.Var); ok && v != nil && v.Name() != "" && v.Name() != "_" {
			out = append(out, p)
		}
	}
	return out
}

// recordedParamNames: for each parameter of fn the name it had when the
// contracts were written ("" when unknown). Parameters keep their position
// whatever else changes in the body.
func recordedParamNames(recorded []localVar, fn *ssa.Function) map[*ssa.Parameter]string {
	out := map[*ssa.Parameter]string{}
	np := namedParams(fn)
	if len(recorded) < len(np) {
		return out
	}
	qual := func(p *types.Package) string { return p.Name() }
	for i, p := range np {
		if recorded[i].Type == types.TypeString(p.Type(), qual) {
			out[p] = recorded[i].Name
		}
	}
	return out
}

// renamedLocals: recorded name -> current name. Parameters are matched by
// position. Locals are aligned by a longest common subsequence over their
// types that prefers equal names, so that introducing or removing a temporary
// does not hide a rename next to it.
func renamedLocals(recorded []localVar, fn *ssa.Function) map[string]string {
	cur := orderedLocals(fn)
	if len(recorded) == 0 {
		return nil
	}
	known := map[string]bool{}
	for _, r := range recorded {
		known[r.Name] = true
	}
	has := map[string]bool{}
	for _, c := range cur {
		has[c.Name] = true
	}
	out := map[string]string{}
	np := len(namedParams(fn))
	if np > len(recorded) || np > len(cur) {
		return nil
	}
	for i := 0; i < np; i++ {
		r, c := recorded[i], cur[i]
		if r.Name != c.Name && r.Type == c.Type && !has[r.Name] {
			out[r.Name] = c.Name
		}
	}
	rl, cl := recorded[np:], cur[np:]
	n, m := len(rl), len(cl)
	if n == 0 || m == 0 || n*m > 40000 {
		return out
	}
	// score[i][j]: best alignment of rl[i:] with cl[j:]; a same-name pair scores 3, a same-type pair 2
	score := make([][]int, n+1)
	for i := range score {
		score[i] = make([]int, m+1)
	}
	pair := func(i, j int) int {
		if rl[i].Type != cl[j].Type {
			return -1
		}
		if rl[i].Name == cl[j].Name {
			return 3
		}
		if has[rl[i].Name] || known[cl[j].Name] {
			return -1 // the old name still exists / the new name is an old one: not a rename
		}
		return 2
	}
	for i := n - 1; i >= 0; i-- {
		for j := m - 1; j >= 0; j-- {
			best := score[i+1][j]
			if score[i][j+1] > best {
				best = score[i][j+1]
			}
			if p := pair(i, j); p > 0 && score[i+1][j+1]+p > best {
				best = score[i+1][j+1] + p
			}
			score[i][j] = best
		}
	}
	for i, j := 0, 0; i < n && j < m; {
		p := pair(i, j)
		switch {
		case p > 0 && score[i][j] == score[i+1][j+1]+p:
			if p == 2 {
				if _, dup := out[rl[i].Name]; !dup {
					out[rl[i].Name] = cl[j].Name
				}
			}
			i++
			j++
		case score[i][j] == score[i+1][j]:
			i++
		default:
			j++
		}
	}
	return out
}
