package main

// C18: every thread database entry agrees with its designation. The entries
// are read from the map built by the working tree's package initialiser
// (executed symbolically); the designation is parsed by an independent reader
// and compared exactly (rational arithmetic on the float64 constants).

import (
	"fmt"
	"math/big"
	"sort"
	"strconv"
	"strings"
)

var gaugeDiameter = map[string]float64{"4": 0.112, "6": 0.138, "8": 0.164, "10": 0.190}
var uncTPI = map[string]float64{"1/4": 20, "5/16": 18, "3/8": 16, "7/16": 14, "1/2": 13, "9/16": 12, "5/8": 11, "3/4": 10, "7/8": 9, "1": 8}
var unfTPI = map[string]float64{"1/4": 28, "5/16": 24, "3/8": 24, "7/16": 20, "1/2": 20, "9/16": 18, "5/8": 18, "3/4": 16, "7/8": 14, "1": 12}
var nptOD = map[string]float64{"1/8": 0.405, "1/4": 0.540, "3/8": 0.675, "1/2": 0.840, "3/4": 1.050, "1": 1.315, "1_1/4": 1.660, "1_1/2": 1.900, "2": 2.375, "2_1/2": 2.875, "3": 3.500, "4": 4.500}
var nptTPI = map[string]float64{"1/8": 27, "1/4": 18, "3/8": 18, "1/2": 14, "3/4": 14, "1": 11.5, "1_1/4": 11.5, "1_1/2": 11.5, "2": 11.5, "2_1/2": 8, "3": 8, "4": 8}

func ratOfFloat(f float64) *big.Rat {
	r := new(big.Rat)
	r.SetFloat64(f)
	return r
}

// fraction parses "a/b", "n" or "n_a/b" exactly as the quotient of float64 values Go would compute for a/b literals.
func fractionRat(s string) (*big.Rat, bool) {
	whole := new(big.Rat)
	if i := strings.Index(s, "_"); i >= 0 {
		w, err := strconv.ParseFloat(s[:i], 64)
		if err != nil {
			return nil, false
		}
		whole = ratOfFloat(w)
		s = s[i+1:]
	}
	if i := strings.Index(s, "/"); i >= 0 {
		a, err1 := strconv.ParseFloat(s[:i], 64)
		b, err2 := strconv.ParseFloat(s[i+1:], 64)
		if err1 != nil || err2 != nil || b == 0 {
			return nil, false
		}
		return new(big.Rat).Add(whole, new(big.Rat).Quo(ratOfFloat(a), ratOfFloat(b))), true
	}
	v, err := strconv.ParseFloat(s, 64)
	if err != nil {
		return nil, false
	}
	return new(big.Rat).Add(whole, ratOfFloat(v)), true
}

func threadDBChecks(e *Engine) []*groupResult {
	x := e.x
	var out []*groupResult
	g := &groupResult{Name: "sdf.threadDB/entries-match-designation", Status: "discharged", Backends: []string{"ground-eval"}}
	out = append(out, g)
	var bad []string
	failf := func(format string, a ...interface{}) {
		if len(bad) < 8 {
			bad = append(bad, fmt.Sprintf(format, a...))
		}
	}
	func() {
		defer func() {
			if r := recover(); r != nil {
				if ee, ok := r.(engineErr); ok {
					g.Status = "undecided"
					g.Detail = "engine: " + string(ee)
					return
				}
				panic(r)
			}
		}()
		mv, ok := x.globalValue("sdf", "threadDB").(*MapV)
		if !ok || mv.cell != nil {
			fail("threadDB is not a concrete map after running init")
		}
		keys := append([]string{}, mv.keys...)
		sort.Strings(keys)
		n := 0
		half := big.NewRat(1, 2)
		for _, k := range keys {
			ent := mv.entries[k]
			name := ent[0].(*Str).s
			p, ok := ent[1].(*Ptr)
			if !ok || p.cell == nil {
				failf("%s: entry is not a pointer to parameters", name)
				continue
			}
			tp := x.gstate.store[p.cell].(*Tuple)
			field := func(fn string) Value { return x.selectField(x.gstate, tp, fn) }
			rat := func(fn string) *big.Rat {
				t, ok := field(fn).(*Term)
				if !ok || !t.isConst() {
					return nil
				}
				return t.rat
			}
			n++
			if s, ok := field("Name").(*Str); !ok || s.s != name {
				failf("%s: stored Name differs from the key", name)
			}
			radius, pitch := rat("Radius"), rat("Pitch")
			if radius == nil || pitch == nil {
				failf("%s: radius/pitch are not constants", name)
				continue
			}
			units := field("Units").(*Str).s
			if ft := rat("HexFlat2Flat"); ft == nil || ft.Sign() <= 0 {
				failf("%s: hex flat-to-flat is not positive", name)
			}
			wantTaperZero := true
			var wantD, wantP *big.Rat
			wantUnits := ""
			switch {
			case strings.HasPrefix(name, "M"):
				parts := strings.SplitN(name[1:], "x", 2)
				if len(parts) != 2 {
					failf("%s: unparsable metric designation", name)
					continue
				}
				d, err1 := strconv.ParseFloat(parts[0], 64)
				pp, err2 := strconv.ParseFloat(parts[1], 64)
				if err1 != nil || err2 != nil {
					failf("%s: unparsable metric designation", name)
					continue
				}
				wantD, wantP, wantUnits = ratOfFloat(d), ratOfFloat(pp), "mm"
			case strings.HasPrefix(name, "unc_") || strings.HasPrefix(name, "unf_"):
				rest := name[4:]
				wantUnits = "inch"
				tab := uncTPI
				if strings.HasPrefix(name, "unf_") {
					tab = unfTPI
				}
				if i := strings.Index(rest, "_"); i >= 0 && !strings.Contains(rest, "/") {
					gd, ok := gaugeDiameter[rest[:i]]
					tpi, err := strconv.ParseFloat(rest[i+1:], 64)
					if !ok || err != nil {
						failf("%s: unknown gauge number or TPI", name)
						continue
					}
					wantD = ratOfFloat(gd)
					wantP = new(big.Rat).Inv(ratOfFloat(tpi))
				} else {
					d, ok := fractionRat(rest)
					tpi, ok2 := tab[rest]
					if !ok || !ok2 {
						failf("%s: size not in the unified thread standard table", name)
						continue
					}
					wantD = d
					wantP = new(big.Rat).Inv(ratOfFloat(tpi))
				}
			case strings.HasPrefix(name, "npt_"):
				rest := name[4:]
				od, ok := nptOD[rest]
				tpi, ok2 := nptTPI[rest]
				if !ok || !ok2 {
					failf("%s: size not in the NPT table", name)
					continue
				}
				wantD, wantP, wantUnits = ratOfFloat(od), new(big.Rat).Inv(ratOfFloat(tpi)), "inch"
				wantTaperZero = false
			default:
				failf("%s: designation family not recognised", name)
				continue
			}
			if radius.Cmp(new(big.Rat).Mul(wantD, half)) != 0 {
				f1, _ := radius.Float64()
				f2, _ := wantD.Float64()
				failf("%s: stored radius %g, designation diameter %g", name, f1, f2)
			}
			if pitch.Cmp(wantP) != 0 {
				f1, _ := pitch.Float64()
				f2, _ := wantP.Float64()
				failf("%s: stored pitch %g, designation pitch %g", name, f1, f2)
			}
			if units != wantUnits {
				failf("%s: units %q, expected %q", name, units, wantUnits)
			}
			taper, _ := field("Taper").(*Term)
			if wantTaperZero {
				if taper == nil || !taper.isConst() || taper.rat.Sign() != 0 {
					failf("%s: non-tapered thread has a taper", name)
				}
			} else {
				// must be exactly atan(1/32): the memoised application of atan to the constant 1/32
				want := ufMemo[fmt.Sprintf("atan,%d", mkRat(big.NewRat(1, 32), SReal).id)]
				if taper == nil || want == nil || taper != want {
					failf("%s: taper is not atan(1/32)", name)
				}
			}
		}
		for _, dup := range x.mapOverwrites {
			if strings.HasPrefix(dup, "s:") {
				failf("designation %q is added twice (the later entry silently replaces the earlier)", dup[2:])
			}
		}
		g.Queries = n
		g.What = fmt.Sprintf("all %d thread database entries: key = stored name, radius = designation diameter / 2, pitch = designation pitch (metric) or 1/TPI (unified, NPT), units, zero taper except NPT = atan(1/32), positive hex size, no duplicate designations (exact rational comparison)", n)
		if n < 50 {
			failf("only %d entries found (database not fully initialised?)", n)
		}
	}()
	if len(bad) > 0 {
		g.Status = "refuted"
		g.Detail = strings.Join(bad, "; ")
	}
	return out
}
