package main

import (
	"encoding/json"
	"fmt"
	"os"
	"path/filepath"
	"sort"
	"strings"
)

type replayInfo struct {
	path       string
	reproduced bool
}

func trustedBase() []string {
	return []string{
		"A1 float64 arithmetic read as exact real arithmetic (no NaN/Inf/-0, no rounding) unless an obligation says FP",
		"A2 integers mathematical; overflow checked only under safety contracts",
		"A3 math.* axioms of DESIGN.md 3.5 (sqrt exact; sin/cos/atan2/acos/exp/log uninterpreted with listed axioms; PI bounded symbol)",
		"A4 govc itself (SSA symbolic executor, contract evaluator, VC printer), go/ssa lowering of x/tools v0.29.0, z3 4.8.12 / z3 5.1.0 / cvc5 1.0 answers",
		"A5 distinct pointer parameters do not alias unless the contract says so",
	}
}

func writeEvidence(e *Engine, prop, tier string, seed int, wall float64, nObl, nDis, nKnown, violations int, perObl []map[string]interface{}, fns []string, engineErrs []string, solverMs int64, groups map[string]*groupResult, order []string) {
	var samples []interface{}
	for _, n := range order {
		g := groups[n]
		if len(g.obls) == 0 || g.Status != "discharged" {
			continue
		}
		o := g.obls[0]
		if o.expectSat {
			continue
		}
		goal := o.goal.String()
		if len(goal) > 600 {
			goal = goal[:600] + "…"
		}
		samples = append(samples, map[string]interface{}{
			"obligation": o.name, "what": o.what, "assumptions": len(o.assume), "negated_goal_smt": goal, "backend": o.res.backend, "ms": o.res.ms, "smt_file": o.res.file,
		})
		if len(samples) >= 5 {
			break
		}
	}
	if len(samples) == 0 {
		for _, n := range order {
			g := groups[n]
			samples = append(samples, map[string]interface{}{"obligation": g.Name, "status": g.Status, "detail": g.Detail})
			if len(samples) >= 3 {
				break
			}
		}
	}
	assumptions := append([]string{}, trustedBase()...)
	assumptions = append(assumptions, sortedKeys(e.x.notes)...)
	for k := range e.x.usedModular {
		assumptions = append(assumptions, "callee summarised by its contract at call sites: "+k)
	}
	for _, ct := range e.cs.contracts {
		if ct.trusted != "" && hasProp(ct.props, prop) {
			assumptions = append(assumptions, "TRUSTED contract (assumed, body not checked): "+ct.label()+": "+ct.trusted)
		}
	}
	for _, s := range engineErrs {
		assumptions = append(assumptions, "out of reach (engine): "+s)
	}
	if !e.cs.fromRepo {
		assumptions = append(assumptions, "contract files not found in /repo; mirror under /verif/contracts used")
	}
	var notDecided []string
	if data, err := os.ReadFile(filepath.Join(e.verif, "not_decided.json")); err == nil {
		json.Unmarshal(data, &notDecidedByProp)
	}
	if nd, ok := notDecidedByProp[prop]; ok {
		notDecided = nd
	}
	sort.Strings(fns)
	ev := map[string]interface{}{
		"property_id": prop,
		"tier":        tier,
		"seed":        seed,
		"level":       "proof",
		"coverage": map[string]interface{}{
			"obligations":              nObl,
			"discharged":               nDis,
			"checker_cmd":              fmt.Sprintf("/verif/check %s --tier %s", prop, tier),
			"trusted_base":             trustedBase(),
			"samples":                  samples,
			"functions_under_contract": fns,
			"per_obligation":           perObl,
			"known_findings":           nKnown,
			"carried_over_bounded":     carriedOver,
			"carried_over_rule":        "obligations whose proof no longer fits a changed function that the bounded symbolic comparison shows equivalent to its verified predecessor (baseline_src); listed in per_obligation with status carried-over; never counted in obligations/discharged",
			"not_decided":              notDecided,
			"solver_ms_total":          solverMs,
			"contract_files":           e.cs.files,
			"rule":                     "one logical obligation per contract clause / safety condition / lemma; each is the conjunction of per-path SMT queries generated from the SSA of /repo's working tree",
		},
		"assumptions": assumptions,
		"wall_s":      wall,
		"violations":  violations,
	}
	os.MkdirAll(filepath.Join(e.verif, "evidence"), 0o755)
	data, _ := json.MarshalIndent(ev, "", " ")
	os.WriteFile(filepath.Join(e.verif, "evidence", prop+".json"), append(data, '\n'), 0o644)
}

var notDecidedByProp = map[string][]string{}

// carriedOver: number of obligations carried over by equivalence in this run (see main.go).
var carriedOver int

func writeReplay(e *Engine, prop string, g *groupResult) replayInfo {
	dir := filepath.Join(e.verif, "replays", prop)
	os.MkdirAll(dir, 0o755)
	path := filepath.Join(dir, sanitize(strings.ReplaceAll(g.Name, "/", "__"))+".json")
	rec := map[string]interface{}{
		"property":   prop,
		"obligation": g.Name,
		"status":     g.Status,
		"what":       g.What,
		"detail":     g.Detail,
	}
	reproduced := false
	if g.replayFile != "" {
		rec["replay"] = map[string]interface{}{"reproduced": g.reproduced, "go_test_file": g.replayFile, "how": "copy the file into the named package directory as a _test.go file (or use go test -overlay) and run the named test"}
		rec["failing_query"] = g.Name
		reproduced = g.reproduced
	}
	if g.frameFn != nil {
		rr := frameReplay(e, g)
		rec["replay"] = rr
		if ok, _ := rr["reproduced"].(bool); ok {
			reproduced = true
		}
		rec["failing_query"] = g.Name
	}
	for _, o := range g.obls {
		if o.res.status == "sat" && !o.expectSat {
			rec["failing_query"] = o.name
			rec["semantics"] = "R (reals), Z (mathematical integers)"
			rec["solver"] = o.res.backend
			rec["model"] = modelForInputs(o)
			rec["smt_file"] = o.res.file
			rr := replayOnRealCode(e, o)
			rec["replay"] = rr
			if ok, _ := rr["reproduced"].(bool); ok {
				reproduced = true
			}
			break
		}
	}
	if _, ok := rec["failing_query"]; !ok {
		var outs []string
		for _, o := range g.obls {
			if o.res.status != "unsat" {
				raw := o.res.raw
				if len(raw) > 400 {
					raw = raw[:400]
				}
				outs = append(outs, fmt.Sprintf("%s: %s by %s: %s", o.name, o.res.status, o.res.backend, raw))
			}
		}
		rec["solver_output"] = outs
	}
	data, _ := json.MarshalIndent(rec, "", " ")
	os.WriteFile(path, append(data, '\n'), 0o644)
	return replayInfo{path: path, reproduced: reproduced}
}

func modelForInputs(o *Obligation) map[string]interface{} {
	m := map[string]interface{}{}
	for k, v := range o.res.model {
		if strings.Contains(k, "!") && !strings.HasPrefix(k, "sk$") {
			continue
		}
		if f, ok := smtValueToFloat(v); ok {
			m[k] = map[string]interface{}{"smt": v, "float64": f}
		} else {
			m[k] = map[string]interface{}{"smt": v}
		}
	}
	return m
}
