package main

// Term layer: hash-consed SMT terms with constant folding.

import (
	"fmt"
	"math/big"
	"sort"
	"strings"
)

type Sort int

const (
	SBool Sort = iota
	SInt
	SReal
)

func (s Sort) String() string {
	switch s {
	case SBool:
		return "Bool"
	case SInt:
		return "Int"
	case SReal:
		return "Real"
	}
	return "?"
}

type Term struct {
	op   string // "c" const, "v" var, or SMT operator
	sort Sort
	args []*Term
	name string   // var name
	rat  *big.Rat // numeric const
	b    bool     // bool const
	id   int
}

var (
	termTab  = map[string]*Term{}
	termNext = 1
	// declared variables (name -> sort)
	varDecls = map[string]Sort{}
	freshCtr = map[string]int{}
)

func intern(t *Term) *Term {
	var sb strings.Builder
	sb.WriteString(t.op)
	sb.WriteByte('|')
	sb.WriteString(t.sort.String())
	sb.WriteByte('|')
	switch t.op {
	case "c":
		if t.sort == SBool {
			fmt.Fprintf(&sb, "%v", t.b)
		} else {
			sb.WriteString(t.rat.RatString())
		}
	case "v":
		sb.WriteString(t.name)
	default:
		for _, a := range t.args {
			fmt.Fprintf(&sb, "%d,", a.id)
		}
	}
	k := sb.String()
	if o, ok := termTab[k]; ok {
		return o
	}
	t.id = termNext
	termNext++
	termTab[k] = t
	return t
}

var (
	tTrue  = intern(&Term{op: "c", sort: SBool, b: true})
	tFalse = intern(&Term{op: "c", sort: SBool, b: false})
)

func mkBool(b bool) *Term {
	if b {
		return tTrue
	}
	return tFalse
}
func mkRat(r *big.Rat, s Sort) *Term { return intern(&Term{op: "c", sort: s, rat: new(big.Rat).Set(r)}) }
func mkInt(i int64) *Term           { return mkRat(new(big.Rat).SetInt64(i), SInt) }
func mkReal(f float64) *Term {
	r := new(big.Rat)
	r.SetFloat64(f)
	return mkRat(r, SReal)
}
func mkRealInt(i int64) *Term { return mkRat(new(big.Rat).SetInt64(i), SReal) }

func mkVar(name string, s Sort) *Term {
	if o, ok := varDecls[name]; ok && o != s {
		panic("var redeclared with different sort: " + name)
	}
	varDecls[name] = s
	return intern(&Term{op: "v", sort: s, name: name})
}

func sanitize(s string) string {
	var sb strings.Builder
	for _, c := range s {
		if c >= 'a' && c <= 'z' || c >= 'A' && c <= 'Z' || c >= '0' && c <= '9' || c == '_' || c == '.' {
			sb.WriteRune(c)
		} else {
			sb.WriteByte('_')
		}
	}
	return sb.String()
}

// occMarker marks a name hint that already identifies "the n-th unknown of this kind on this
// path" (bounded equivalence runs): such a hint names its variable directly, so that two paths -
// and the two runs - that reach the same occurrence share the variable.
const occMarker = "_occ_"

func freshVar(hint string, s Sort) *Term {
	hint = sanitize(hint)
	if strings.Contains(hint, occMarker) {
		if o, ok := varDecls[hint]; !ok || o == s {
			return mkVar(hint, s)
		}
	}
	return freshVarCounted(hint, s)
}

// freshVarCounted always makes a new variable (uninterpreted applications are
// memoised by their arguments elsewhere: two applications must never share a
// variable because their name hint happens to carry an occurrence marker).
func freshVarCounted(hint string, s Sort) *Term {
	hint = sanitize(hint)
	n := freshCtr[hint]
	freshCtr[hint] = n + 1
	name := hint
	if n > 0 {
		name = fmt.Sprintf("%s!%d", hint, n)
	}
	if o, ok := varDecls[name]; ok && o != s {
		return freshVarCounted(hint, s)
	}
	return mkVar(name, s)
}

func (t *Term) isConst() bool { return t.op == "c" }
func (t *Term) isTrue() bool  { return t == tTrue }
func (t *Term) isFalse() bool { return t == tFalse }
func (t *Term) int64() (int64, bool) {
	if t.op == "c" && t.sort != SBool && t.rat.IsInt() && t.rat.Num().IsInt64() {
		return t.rat.Num().Int64(), true
	}
	return 0, false
}

func mkOp(op string, s Sort, args ...*Term) *Term {
	return intern(&Term{op: op, sort: s, args: args})
}

func numSort(a, b *Term) Sort {
	if a.sort == SReal || b.sort == SReal {
		return SReal
	}
	return SInt
}

func coerce(a *Term, s Sort) *Term {
	if a.sort == s {
		return a
	}
	if a.sort == SInt && s == SReal {
		if a.isConst() {
			return mkRat(a.rat, SReal)
		}
		return mkOp("to_real", SReal, a)
	}
	if a.sort == SReal && s == SInt {
		return mkToInt(a)
	}
	panic(fmt.Sprintf("cannot coerce %s to %s: %s", a.sort, s, a))
}

func mkAdd(a, b *Term) *Term {
	s := numSort(a, b)
	a, b = coerce(a, s), coerce(b, s)
	if a.isConst() && b.isConst() {
		return mkRat(new(big.Rat).Add(a.rat, b.rat), s)
	}
	if a.isConst() && a.rat.Sign() == 0 {
		return b
	}
	if b.isConst() && b.rat.Sign() == 0 {
		return a
	}
	return mkOp("+", s, a, b)
}

func mkSub(a, b *Term) *Term {
	s := numSort(a, b)
	a, b = coerce(a, s), coerce(b, s)
	if a.isConst() && b.isConst() {
		return mkRat(new(big.Rat).Sub(a.rat, b.rat), s)
	}
	if b.isConst() && b.rat.Sign() == 0 {
		return a
	}
	if a == b {
		return mkRat(new(big.Rat), s)
	}
	if a.isConst() && a.rat.Sign() == 0 {
		return mkNeg(b)
	}
	return mkOp("-", s, a, b)
}

func mkNeg(a *Term) *Term {
	if a.isConst() {
		return mkRat(new(big.Rat).Neg(a.rat), a.sort)
	}
	if a.op == "neg" {
		return a.args[0]
	}
	return mkOp("neg", a.sort, a)
}

func mkMul(a, b *Term) *Term {
	s := numSort(a, b)
	a, b = coerce(a, s), coerce(b, s)
	if a.isConst() && b.isConst() {
		return mkRat(new(big.Rat).Mul(a.rat, b.rat), s)
	}
	for i := 0; i < 2; i++ {
		if a.isConst() {
			if a.rat.Sign() == 0 {
				return a
			}
			if a.rat.Cmp(big.NewRat(1, 1)) == 0 {
				return b
			}
			if a.rat.Cmp(big.NewRat(-1, 1)) == 0 {
				return mkNeg(b)
			}
		}
		a, b = b, a
	}
	if b.isConst() { // canonical: constant first
		a, b = b, a
	}
	return mkOp("*", s, a, b)
}

// real division
func mkDiv(a, b *Term) *Term {
	a, b = coerce(a, SReal), coerce(b, SReal)
	if b.isConst() && b.rat.Sign() != 0 {
		if a.isConst() {
			return mkRat(new(big.Rat).Quo(a.rat, b.rat), SReal)
		}
		return mkMul(mkRat(new(big.Rat).Inv(b.rat), SReal), a)
	}
	return mkOp("/", SReal, a, b)
}

// Go integer division (truncating)
func mkIntQuo(a, b *Term) *Term {
	if a.isConst() && b.isConst() && b.rat.Sign() != 0 {
		q := new(big.Int).Quo(a.rat.Num(), b.rat.Num())
		return mkRat(new(big.Rat).SetInt(q), SInt)
	}
	// trunc division from floor division
	fd := mkOp("div", SInt, a, b)
	md := mkOp("mod", SInt, a, b)
	// SMT div/mod: a = b*div + mod, 0<=mod<|b|. Go truncates toward zero.
	// if a >= 0 or mod == 0: result = div ; else (a<0, mod != 0): b>0 -> div+1 ; b<0 -> div-1
	adj := mkIte(mkLt(b, mkInt(0)), mkSub(fd, mkInt(1)), mkAdd(fd, mkInt(1)))
	return mkIte(mkOr(mkLe(mkInt(0), a), mkEq(md, mkInt(0))), fd, adj)
}

func mkIntRem(a, b *Term) *Term {
	if a.isConst() && b.isConst() && b.rat.Sign() != 0 {
		q := new(big.Int).Rem(a.rat.Num(), b.rat.Num())
		return mkRat(new(big.Rat).SetInt(q), SInt)
	}
	return mkSub(a, mkMul(b, mkIntQuo(a, b)))
}

func ratFloor(r *big.Rat) *big.Int {
	q := new(big.Int)
	m := new(big.Int)
	q.DivMod(r.Num(), r.Denom(), m) // Euclidean, denom>0 so floor
	return q
}

// floor to Int
func mkFloor(a *Term) *Term {
	if a.sort == SInt {
		return a
	}
	if a.isConst() {
		return mkRat(new(big.Rat).SetInt(ratFloor(a.rat)), SInt)
	}
	if a.op == "to_real" {
		return a.args[0]
	}
	return mkOp("to_int", SInt, a)
}

// Go float->int conversion: truncation toward zero
func mkToInt(a *Term) *Term {
	if a.sort == SInt {
		return a
	}
	if a.isConst() {
		n := new(big.Int).Quo(a.rat.Num(), a.rat.Denom())
		return mkRat(new(big.Rat).SetInt(n), SInt)
	}
	if a.op == "to_real" {
		return a.args[0]
	}
	fl := mkFloor(a)
	ce := mkNeg(mkFloor(mkNeg(a)))
	return mkIte(mkLe(mkRealInt(0), a), fl, ce)
}

func cmpConst(a, b *Term) (int, bool) {
	if a.isConst() && b.isConst() && a.sort != SBool {
		return a.rat.Cmp(b.rat), true
	}
	return 0, false
}

func mkLt(a, b *Term) *Term {
	s := numSort(a, b)
	a, b = coerce(a, s), coerce(b, s)
	if c, ok := cmpConst(a, b); ok {
		return mkBool(c < 0)
	}
	if a == b {
		return tFalse
	}
	return mkOp("<", SBool, a, b)
}
func mkLe(a, b *Term) *Term {
	s := numSort(a, b)
	a, b = coerce(a, s), coerce(b, s)
	if c, ok := cmpConst(a, b); ok {
		return mkBool(c <= 0)
	}
	if a == b {
		return tTrue
	}
	return mkOp("<=", SBool, a, b)
}
func mkGt(a, b *Term) *Term { return mkLt(b, a) }
func mkGe(a, b *Term) *Term { return mkLe(b, a) }

func mkEq(a, b *Term) *Term {
	if a.sort != b.sort {
		if a.sort == SBool || b.sort == SBool {
			panic("eq sort mismatch")
		}
		a, b = coerce(a, SReal), coerce(b, SReal)
	}
	if a == b {
		return tTrue
	}
	if a.isConst() && b.isConst() {
		if a.sort == SBool {
			return mkBool(a.b == b.b)
		}
		return mkBool(a.rat.Cmp(b.rat) == 0)
	}
	if a.sort == SBool {
		if a.isConst() {
			a, b = b, a
		}
		if b.isTrue() {
			return a
		}
		if b.isFalse() {
			return mkNot(a)
		}
	}
	if a.id > b.id {
		a, b = b, a
	}
	return mkOp("=", SBool, a, b)
}

func mkNot(a *Term) *Term {
	if a.isConst() {
		return mkBool(!a.b)
	}
	if a.op == "not" {
		return a.args[0]
	}
	return mkOp("not", SBool, a)
}

func mkAnd(ts ...*Term) *Term {
	var out []*Term
	seen := map[int]bool{}
	for _, t := range ts {
		if t.isFalse() {
			return tFalse
		}
		if t.isTrue() {
			continue
		}
		if t.op == "and" {
			for _, u := range t.args {
				if !seen[u.id] {
					seen[u.id] = true
					out = append(out, u)
				}
			}
			continue
		}
		if !seen[t.id] {
			seen[t.id] = true
			out = append(out, t)
		}
	}
	if len(out) == 0 {
		return tTrue
	}
	if len(out) == 1 {
		return out[0]
	}
	return mkOp("and", SBool, out...)
}

func mkOr(ts ...*Term) *Term {
	var out []*Term
	seen := map[int]bool{}
	for _, t := range ts {
		if t.isTrue() {
			return tTrue
		}
		if t.isFalse() {
			continue
		}
		if t.op == "or" {
			for _, u := range t.args {
				if !seen[u.id] {
					seen[u.id] = true
					out = append(out, u)
				}
			}
			continue
		}
		if !seen[t.id] {
			seen[t.id] = true
			out = append(out, t)
		}
	}
	if len(out) == 0 {
		return tFalse
	}
	if len(out) == 1 {
		return out[0]
	}
	return mkOp("or", SBool, out...)
}

func mkImplies(a, b *Term) *Term { return mkOr(mkNot(a), b) }

func mkIte(c, a, b *Term) *Term {
	if c.isTrue() {
		return a
	}
	if c.isFalse() {
		return b
	}
	if a == b {
		return a
	}
	if a.sort != b.sort {
		s := numSort(a, b)
		a, b = coerce(a, s), coerce(b, s)
	}
	if a.sort == SBool {
		if a.isTrue() && b.isFalse() {
			return c
		}
		if a.isFalse() && b.isTrue() {
			return mkNot(c)
		}
		if b.isFalse() {
			return mkAnd(c, a)
		}
		if a.isTrue() {
			return mkOr(c, b)
		}
		if b.isTrue() {
			return mkOr(mkNot(c), a)
		}
		if a.isFalse() {
			return mkAnd(mkNot(c), b)
		}
	}
	return mkOp("ite", a.sort, c, a, b)
}

func mkMin(a, b *Term) *Term { return mkIte(mkLe(a, b), a, b) }
func mkMax(a, b *Term) *Term { return mkIte(mkLe(b, a), a, b) }
func mkAbs(a *Term) *Term    { return mkIte(mkLe(mkRat(new(big.Rat), a.sort), a), a, mkNeg(a)) }

// uninterpreted function application
var ufDecls = map[string]string{} // name -> "(Real Real) Real"

func mkApp(name string, s Sort, args ...*Term) *Term {
	var sb strings.Builder
	sb.WriteByte('(')
	for i, a := range args {
		if i > 0 {
			sb.WriteByte(' ')
		}
		sb.WriteString(a.sort.String())
	}
	sb.WriteString(") ")
	sb.WriteString(s.String())
	ufDecls[name] = sb.String()
	return intern(&Term{op: "app:" + name, sort: s, args: args})
}

//-----------------------------------------------------------------------------
// printing

func ratSMT(r *big.Rat, s Sort) string {
	if s == SInt {
		n := r.Num()
		if n.Sign() < 0 {
			return "(- " + new(big.Int).Neg(n).String() + ")"
		}
		return n.String()
	}
	num := new(big.Int).Set(r.Num())
	neg := num.Sign() < 0
	if neg {
		num.Neg(num)
	}
	var s2 string
	if r.IsInt() {
		s2 = num.String() + ".0"
	} else {
		s2 = "(/ " + num.String() + ".0 " + r.Denom().String() + ".0)"
	}
	if neg {
		return "(- " + s2 + ")"
	}
	return s2
}

func (t *Term) head() string {
	switch t.op {
	case "neg":
		return "-"
	}
	if strings.HasPrefix(t.op, "app:") {
		return t.op[4:]
	}
	return t.op
}

// String renders the term as a tree (for samples / debugging); may be large.
func (t *Term) String() string {
	var sb strings.Builder
	t.write(&sb, nil)
	return sb.String()
}

func (t *Term) write(sb *strings.Builder, names map[int]string) {
	if names != nil {
		if n, ok := names[t.id]; ok {
			sb.WriteString(n)
			return
		}
	}
	switch t.op {
	case "c":
		if t.sort == SBool {
			fmt.Fprintf(sb, "%v", t.b)
		} else {
			sb.WriteString(ratSMT(t.rat, t.sort))
		}
	case "v":
		sb.WriteString(smtName(t.name))
	default:
		if len(t.args) == 0 {
			sb.WriteString(t.head())
			return
		}
		sb.WriteByte('(')
		sb.WriteString(t.head())
		for _, a := range t.args {
			sb.WriteByte(' ')
			a.write(sb, names)
		}
		sb.WriteByte(')')
	}
}

func smtName(n string) string {
	return "|" + n + "|"
}

// collect gathers free variables, UFs and a topological order of the DAG.
func collect(roots []*Term) (vars []*Term, ufs []string, order []*Term) {
	seen := map[int]bool{}
	ufset := map[string]bool{}
	var visit func(t *Term)
	visit = func(t *Term) {
		if seen[t.id] {
			return
		}
		seen[t.id] = true
		for _, a := range t.args {
			visit(a)
		}
		if t.op == "v" {
			vars = append(vars, t)
		} else if strings.HasPrefix(t.op, "app:") {
			ufset[t.op[4:]] = true
		}
		order = append(order, t)
	}
	for _, r := range roots {
		visit(r)
	}
	for u := range ufset {
		ufs = append(ufs, u)
	}
	sort.Strings(ufs)
	sort.Slice(vars, func(i, j int) bool { return vars[i].name < vars[j].name })
	return
}

// smtScript renders asserts as an SMT-LIB script with every shared non-leaf
// subterm named through define-fun.
func smtScript(asserts []*Term, comments []string, wantModel bool) string {
	vars, ufs, order := collect(asserts)
	refs := map[int]int{}
	for _, t := range order {
		for _, a := range t.args {
			refs[a.id]++
		}
	}
	var sb strings.Builder
	for _, c := range comments {
		sb.WriteString("; " + c + "\n")
	}
	if wantModel {
		sb.WriteString("(set-option :produce-models true)\n")
	}
	for _, v := range vars {
		fmt.Fprintf(&sb, "(declare-const %s %s)\n", smtName(v.name), v.sort)
	}
	for _, u := range ufs {
		fmt.Fprintf(&sb, "(declare-fun %s %s)\n", u, ufDecls[u])
	}
	names := map[int]string{}
	n := 0
	for _, t := range order {
		if len(t.args) == 0 {
			continue
		}
		if refs[t.id] > 1 {
			n++
			nm := fmt.Sprintf("t!%d", n)
			fmt.Fprintf(&sb, "(define-fun %s () %s ", nm, t.sort)
			t.writeTop(&sb, names)
			sb.WriteString(")\n")
			names[t.id] = nm
		}
	}
	for _, a := range asserts {
		sb.WriteString("(assert ")
		a.write(&sb, names)
		sb.WriteString(")\n")
	}
	sb.WriteString("(check-sat)\n")
	if wantModel {
		sb.WriteString("(get-model)\n")
	}
	return sb.String()
}

// writeTop writes t's own operator but uses names for its children.
func (t *Term) writeTop(sb *strings.Builder, names map[int]string) {
	sb.WriteByte('(')
	sb.WriteString(t.head())
	for _, a := range t.args {
		sb.WriteByte(' ')
		a.write(sb, names)
	}
	sb.WriteByte(')')
}

// termSize counts DAG nodes.
func termSize(roots []*Term) int {
	_, _, o := collect(roots)
	return len(o)
}

// substitute replaces variables by terms.
func substitute(t *Term, m map[string]*Term, cache map[int]*Term) *Term {
	if r, ok := cache[t.id]; ok {
		return r
	}
	var r *Term
	switch t.op {
	case "c":
		r = t
	case "v":
		if x, ok := m[t.name]; ok {
			r = x
		} else {
			r = t
		}
	default:
		args := make([]*Term, len(t.args))
		ch := false
		for i, a := range t.args {
			args[i] = substitute(a, m, cache)
			if args[i] != a {
				ch = true
			}
		}
		if !ch {
			r = t
		} else {
			r = rebuild(t, args)
		}
	}
	cache[t.id] = r
	return r
}

func rebuild(t *Term, a []*Term) *Term {
	switch t.op {
	case "+":
		return mkAdd(a[0], a[1])
	case "-":
		return mkSub(a[0], a[1])
	case "*":
		return mkMul(a[0], a[1])
	case "/":
		return mkDiv(a[0], a[1])
	case "neg":
		return mkNeg(a[0])
	case "<":
		return mkLt(a[0], a[1])
	case "<=":
		return mkLe(a[0], a[1])
	case "=":
		return mkEq(a[0], a[1])
	case "not":
		return mkNot(a[0])
	case "and":
		return mkAnd(a...)
	case "or":
		return mkOr(a...)
	case "ite":
		return mkIte(a[0], a[1], a[2])
	case "to_real":
		return coerce(a[0], SReal)
	case "to_int":
		return mkFloor(a[0])
	}
	return intern(&Term{op: t.op, sort: t.sort, args: a})
}
