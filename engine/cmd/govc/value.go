package main

// Symbolic values, heap cells and execution state.

import (
	"fmt"
	"go/types"
	"strings"

	"golang.org/x/tools/go/ssa"
)

type Value interface{}

// Tuple is a struct or fixed array value (immutable: updates copy).
type Tuple struct {
	typ types.Type
	el  []Value
}

// Cell is a heap cell identity; contents live in State.store.
type Cell struct {
	id   int
	name string
	typ  types.Type
	// allocation site depth (for loop write-set tracking)
}

// Ptr points into a cell along a path of field/element indices. cell==nil is nil.
type Ptr struct {
	cell *Cell
	path []int
	sym  *Term // for symbolic element index into a SymArr cell (last step)
	// mayNil: a pointer of unknown nil-ness into an object region (a link of a
	// recursive structure): it is nil exactly when its identity sym is 0
	mayNil bool
	elem   types.Type // static element type of a nil pointer, when known
}

// Poison stands for a value that does not exist on the current path; using it is an error.
type Poison struct{ msg string }

// Fwd is the content of a cell whose object has moved into its type's symbolic
// region (it was stored into a symbolic array of pointers): every access
// through the old address goes to the region object.
type Fwd struct{ to *Ptr }

// SliceV is a slice header. cell==nil is the nil slice.
type SliceV struct {
	cell          *Cell // backing: value is *Tuple (concrete length) or *SymArr
	off, len, cap *Term
	elem          types.Type
	named         types.Type // static (possibly named) slice type when known
	nilT          *Term      // symbolic "is nil" flag for slice inputs whose nil-ness is unknown
}

// SymArr is a symbolic-length backing store: per-leaf SMT arrays are modelled
// as uninterpreted "select" functions with explicit store chains.
type SymArr struct {
	elem   types.Type
	name   string
	pre    []*Term    // leading select arguments (the identity of the object owning this array)
	ro     bool       // backing array of a slice held by an object of a symbolic region: reads only
	writes []symWrite // newest last
	// leaves are read through mkApp("sel:<name>.<leaf>", idx) when no write hits
}
type symWrite struct {
	idx *Term
	val Value
	// bulk copy (append(a, b...)): n elements from src starting at srcOff
	src    *SymArr
	srcOff *Term
	n      *Term
}

// Iface is an interface value; dyn==nil is the nil interface.
type Iface struct {
	dyn types.Type
	val Value
	styp types.Type // static interface type of a nil value, when known
}

// Func is a function value.
type Func struct {
	fn      *ssa.Function
	bind    []Value
	builtin string  // for *ssa.Builtin
	abs     *AbsFun // abstract (uninterpreted) function
}

// AbsFun is an uninterpreted function value (e.g. a blend function field).
type AbsFun struct {
	name string
	sig  *types.Signature
}

// AbsObj is an abstract shape (SDF2/SDF3 operand): Evaluate is uninterpreted,
// BoundingBox a tuple of symbolic reals.
type AbsObj struct {
	name  string
	typ   types.Type
	bb    Value
	dim   int
	stamp int // value of the cell counter when the object was made (freshness of havocked results)
	// member of a family of abstract shapes (element of a symbolic array of shapes): the family
	// is named by name, the member by the index terms; Evaluate / BoundingBox / nil-ness are
	// uninterpreted functions of the index
	fam  bool
	idx  []*Term
	nilT *Term // "this element is nil"
	// a shape that is one of two abstract shapes depending on a condition (an element of a
	// symbolic array of shapes that was overwritten at a symbolic index)
	alt *absAlt
}

type absAlt struct {
	c    *Term
	a, b *AbsObj
}

// Str is a string value.
type Str struct {
	s   string
	sym *Term // symbolic identity (Int-sorted id) when not concrete
}

// Opaque is an unmodelled value.
type Opaque struct {
	typ types.Type
	tag string
	nil bool
	nilT *Term // symbolic nil-ness (error results of external calls)
	id   *Term // symbolic identity (elements of symbolic arrays of pointers)
}

// MapV is a map with concrete keys (used for package-level tables) or a
// symbolic map.
type MapV struct {
	typ     types.Type
	keys    []string
	entries map[string][2]Value // key repr -> (key, value)
	nilmap  bool
	cell    *Cell // symbolic map: contents (*SymMap) live in the state
}

// SymMap is the (immutable) content of a symbolic map: an uninterpreted base
// relation plus a list of writes, newest last.
type SymMap struct {
	name   string
	vt     types.Type
	writes []mapWrite
}
type mapWrite struct {
	key []*Term
	val Value
}

type appRec struct {
	fn   string
	args []*Term
	res  *Term
}

type Event struct {
	kind string
	args []Value // by value: what a pointer argument pointed to at the time
	res  []Value
	raw  []Value // the arguments as passed (pointers as pointers), for evptr
}

type State struct {
	store   map[*Cell]Value
	pc      []*Term
	ax      []*Term
	apps    []appRec
	log     []Event
	version int // bumped on any externally visible effect
	wlog    []int // ids of cells written (stores), in order
	unfolded map[int]bool // recursive spec applications already unfolded in this state (copy on write)
	nalloc  int           // number of objects moved into symbolic regions on this path
	wits    []*Term       // witnesses of the existential clauses assumed on this path
	witTuples [][]*Term   // the same witnesses grouped by the clause that introduced them
	cutMark int           // cell counter when the innermost cut loop was entered (objects older than that are not fresh inside it)
	focusNoDefs bool      // a focused proof state without the definitional axioms
	focusSchemas bool     // a focused proof state that keeps the instances of quantified preconditions
	reqFacts []*Term      // the contract's unquantified preconditions (for focus requires)
	logMark int   // index into log of the most recent loop cut (events before it belong to earlier iterations)
	gen     map[int]*Term // generalised compound terms (term id -> fresh variable), applied to every later VC
	focus   []*Term       // when non-nil: later VCs use only these facts (plus what is assumed afterwards)
	focusAt int           // len(pc) when focus was set
	focused bool
	labelled map[string]*Term // asserted facts by label
	schemas []*schema // quantified facts valid on this path (loop invariants, callee postconditions)
	written map[*Cell]bool
	occ     map[string]int // bounded equivalence runs: occurrences of each kind of unknown on this path
}

func newState() *State {
	return &State{store: map[*Cell]Value{}}
}

func (s *State) fork() *State {
	n := &State{
		store:   make(map[*Cell]Value, len(s.store)),
		pc:      s.pc[:len(s.pc):len(s.pc)],
		ax:      s.ax[:len(s.ax):len(s.ax)],
		apps:    s.apps[:len(s.apps):len(s.apps)],
		log:     s.log[:len(s.log):len(s.log)],
		wlog:    s.wlog[:len(s.wlog):len(s.wlog)],
		schemas: s.schemas[:len(s.schemas):len(s.schemas)],
		version: s.version,
		logMark: s.logMark,
		unfolded: s.unfolded,
		occ:     s.occ,
		nalloc:  s.nalloc,
		cutMark: s.cutMark,
		wits:    s.wits[:len(s.wits):len(s.wits)],
		witTuples: s.witTuples[:len(s.witTuples):len(s.witTuples)],
		focusSchemas: s.focusSchemas,
		focusNoDefs: s.focusNoDefs,
		reqFacts: s.reqFacts[:len(s.reqFacts):len(s.reqFacts)],
	}
	for k, v := range s.store {
		n.store[k] = v
	}
	if s.gen != nil {
		n.gen = make(map[int]*Term, len(s.gen))
		for k, t := range s.gen {
			n.gen[k] = t
		}
	}
	n.focus, n.focusAt, n.focused = s.focus, s.focusAt, s.focused
	if s.labelled != nil {
		n.labelled = make(map[string]*Term, len(s.labelled))
		for k, t := range s.labelled {
			n.labelled[k] = t
		}
	}
	if s.written != nil {
		n.written = map[*Cell]bool{}
		for k := range s.written {
			n.written[k] = true
		}
	}
	return n
}

func (s *State) assume(t *Term) {
	if t.isTrue() {
		return
	}
	s.pc = append(s.pc, t)
}

func (s *State) axiom(t *Term) {
	if t.isTrue() {
		return
	}
	for _, a := range s.ax {
		if a == t {
			return
		}
	}
	s.ax = append(s.ax, t)
}

func (s *State) infeasible() bool {
	for _, t := range s.pc {
		if t.isFalse() {
			return true
		}
	}
	return false
}

var cellCtr int

func newCell(name string, typ types.Type) *Cell {
	cellCtr++
	return &Cell{id: cellCtr, name: name, typ: typ}
}

//-----------------------------------------------------------------------------

func sortOf(t types.Type) (Sort, bool) {
	b, ok := t.Underlying().(*types.Basic)
	if !ok {
		return 0, false
	}
	switch {
	case b.Info()&types.IsBoolean != 0:
		return SBool, true
	case b.Info()&types.IsFloat != 0:
		return SReal, true
	case b.Info()&types.IsInteger != 0:
		return SInt, true
	}
	return 0, false
}

func isSDFIface(t types.Type) int {
	n, ok := t.(*types.Named)
	if !ok {
		return 0
	}
	if _, ok := n.Underlying().(*types.Interface); !ok {
		return 0
	}
	switch n.Obj().Name() {
	case "SDF2":
		return 2
	case "SDF3":
		return 3
	}
	return 0
}

func zeroValue(t types.Type) Value {
	switch u := t.Underlying().(type) {
	case *types.Basic:
		if s, ok := sortOf(t); ok {
			switch s {
			case SBool:
				return tFalse
			case SInt:
				return mkInt(0)
			case SReal:
				return mkRealInt(0)
			}
		}
		if u.Info()&types.IsString != 0 {
			return &Str{s: ""}
		}
		if u.Kind() == types.UnsafePointer || u.Kind() == types.UntypedNil {
			return &Ptr{}
		}
		return &Opaque{typ: t, tag: "zero"}
	case *types.Struct:
		el := make([]Value, u.NumFields())
		for i := range el {
			el[i] = zeroValue(u.Field(i).Type())
		}
		return &Tuple{typ: t, el: el}
	case *types.Array:
		el := make([]Value, u.Len())
		for i := range el {
			el[i] = zeroValue(u.Elem())
		}
		return &Tuple{typ: t, el: el}
	case *types.Pointer:
		return &Ptr{elem: u.Elem()}
	case *types.Slice:
		return &SliceV{off: mkInt(0), len: mkInt(0), cap: mkInt(0), elem: u.Elem()}
	case *types.Interface:
		return &Iface{styp: t}
	case *types.Signature:
		return &Func{}
	case *types.Map:
		return &MapV{typ: t, nilmap: true, entries: map[string][2]Value{}}
	case *types.Chan:
		return &Opaque{typ: t, tag: "chan", nil: true}
	}
	return &Opaque{typ: t, tag: "zero"}
}

func valueString(v Value) string {
	switch x := v.(type) {
	case nil:
		return "<nil>"
	case *Term:
		s := x.String()
		if len(s) > 200 {
			s = s[:200] + "…"
		}
		return s
	case *Tuple:
		var parts []string
		for _, e := range x.el {
			parts = append(parts, valueString(e))
		}
		return "{" + strings.Join(parts, ", ") + "}"
	case *Ptr:
		if x.cell == nil {
			return "nilptr"
		}
		return fmt.Sprintf("&%s%v", x.cell.name, x.path)
	case *SliceV:
		if x.cell == nil {
			return "nilslice"
		}
		return fmt.Sprintf("slice(%s,off=%s,len=%s)", x.cell.name, x.off, x.len)
	case *Iface:
		if x.dyn == nil {
			return "niliface"
		}
		return fmt.Sprintf("iface(%s,%s)", x.dyn, valueString(x.val))
	case *Func:
		if x.fn != nil {
			return "func:" + x.fn.String()
		}
		if x.abs != nil {
			return "absfun:" + x.abs.name
		}
		return "func:" + x.builtin
	case *AbsObj:
		return "abs:" + x.name
	case *Str:
		if x.sym != nil {
			return "str:" + x.sym.String()
		}
		return fmt.Sprintf("%q", x.s)
	case *Opaque:
		return "opaque:" + x.tag
	case *MapV:
		return fmt.Sprintf("map[%d]", len(x.keys))
	}
	return fmt.Sprintf("%T", v)
}

// flatten returns the scalar leaves of a value (for events / equality).
func flatten(v Value, out *[]*Term) bool {
	switch x := v.(type) {
	case *Term:
		*out = append(*out, x)
		return true
	case *Tuple:
		for _, e := range x.el {
			if !flatten(e, out) {
				return false
			}
		}
		return true
	}
	return false
}

// iteValue merges two values under a condition; ok=false if not mergeable.
func iteValue(c *Term, a, b Value) (Value, bool) {
	// an unmodelled (opaque, identity-less) value on either side: the merge is unmodelled too
	if oa, ok := a.(*Opaque); ok && oa.nilT == nil {
		if _, same := b.(*Opaque); !same {
			return &Opaque{typ: oa.typ, tag: "merged"}, true
		}
	}
	if ob, ok := b.(*Opaque); ok && ob.nilT == nil {
		if _, same := a.(*Opaque); !same {
			return &Opaque{typ: ob.typ, tag: "merged"}, true
		}
	}
	// a nil interface value merged with an abstract shape: nil is the abstract shape that is nil
	if ia, ok := a.(*Iface); ok && ia.dyn == nil {
		if ob, ok := b.(*AbsObj); ok {
			a = &AbsObj{name: "nil", typ: ob.typ, dim: ob.dim, nilT: tTrue}
		}
	}
	if ib, ok := b.(*Iface); ok && ib.dyn == nil {
		if oa, ok := a.(*AbsObj); ok {
			b = &AbsObj{name: "nil", typ: oa.typ, dim: oa.dim, nilT: tTrue}
		}
	}
	switch x := a.(type) {
	case *Term:
		y, ok := b.(*Term)
		if !ok {
			return nil, false
		}
		if x.sort == SBool != (y.sort == SBool) {
			return nil, false
		}
		return mkIte(c, x, y), true
	case *Tuple:
		y, ok := b.(*Tuple)
		if !ok || len(x.el) != len(y.el) {
			return nil, false
		}
		el := make([]Value, len(x.el))
		for i := range el {
			v, ok := iteValue(c, x.el[i], y.el[i])
			if !ok {
				return nil, false
			}
			el[i] = v
		}
		return &Tuple{typ: x.typ, el: el}, true
	case *Ptr:
		y, ok := b.(*Ptr)
		if ok && x.cell == y.cell && pathEq(x.path, y.path) && x.sym == y.sym {
			return x, true
		}
		// nil merged with an object of a symbolic region: nil is the object of identity 0
		if ok && x.cell == nil && y.cell != nil && y.sym != nil && len(y.path) == 0 && strings.HasPrefix(y.cell.name, "region$") {
			return &Ptr{cell: y.cell, sym: mkIte(c, mkInt(0), y.sym), mayNil: true}, true
		}
		if ok && y.cell == nil && x.cell != nil && x.sym != nil && len(x.path) == 0 && strings.HasPrefix(x.cell.name, "region$") {
			return &Ptr{cell: x.cell, sym: mkIte(c, x.sym, mkInt(0)), mayNil: true}, true
		}
		if ok && x.cell != nil && x.cell == y.cell && pathEq(x.path, y.path) && x.sym != nil && y.sym != nil {
			return &Ptr{cell: x.cell, path: x.path, sym: mkIte(c, x.sym, y.sym), mayNil: x.mayNil || y.mayNil}, true
		}
		return nil, false
	case *Iface:
		y, ok := b.(*Iface)
		if !ok {
			return nil, false
		}
		if x.dyn == nil && y.dyn == nil {
			return x, true
		}
		if x.dyn != nil && y.dyn != nil && types.Identical(x.dyn, y.dyn) {
			v, ok := iteValue(c, x.val, y.val)
			if ok {
				return &Iface{dyn: x.dyn, val: v}, true
			}
		}
		return nil, false
	case *AbsObj:
		if y, ok := b.(*AbsObj); ok && x == y {
			return x, true
		}
		if y, ok := b.(*AbsObj); ok && x.fam && y.fam && x.name == y.name && len(x.idx) == len(y.idx) {
			// two members of one family: the member at the merged index
			idx := make([]*Term, len(x.idx))
			for i := range idx {
				idx[i] = mkIte(c, x.idx[i], y.idx[i])
			}
			return &AbsObj{name: x.name, typ: x.typ, dim: x.dim, fam: true, idx: idx, stamp: x.stamp, nilT: mkIte(c, x.nilT, y.nilT)}, true
		}
		if y, ok := b.(*AbsObj); ok && x.dim == y.dim {
			nx, ny := x.nilT, y.nilT
			if nx == nil {
				nx = tFalse
			}
			if ny == nil {
				ny = tFalse
			}
			return &AbsObj{name: "alt", typ: x.typ, dim: x.dim, stamp: x.stamp, nilT: mkIte(c, nx, ny), alt: &absAlt{c: c, a: x, b: y}}, true
		}
		return nil, false
	case *Func:
		if y, ok := b.(*Func); ok && x == y {
			return x, true
		}
		return nil, false
	case *Str:
		if y, ok := b.(*Str); ok && x.sym == nil && y.sym == nil && x.s == y.s {
			return x, true
		}
		return nil, false
	case *Opaque:
		if y, ok := b.(*Opaque); ok {
			if x.id != nil && y.id != nil {
				return &Opaque{typ: x.typ, tag: x.tag, id: mkIte(c, x.id, y.id)}, true
			}
			if x.id == nil && y.id == nil && x.nil == y.nil {
				return x, true
			}
		}
		return nil, false
	case *SliceV:
		y, ok := b.(*SliceV)
		if ok && x.cell == y.cell {
			return &SliceV{cell: x.cell, off: mkIte(c, x.off, y.off), len: mkIte(c, x.len, y.len), cap: mkIte(c, x.cap, y.cap), elem: x.elem}, true
		}
		return nil, false
	}
	return nil, false
}

func pathEq(a, b []int) bool {
	if len(a) != len(b) {
		return false
	}
	for i := range a {
		if a[i] != b[i] {
			return false
		}
	}
	return true
}

// getPath reads v along path.
func getPath(v Value, path []int) Value {
	for _, i := range path {
		t, ok := v.(*Tuple)
		if !ok {
			panic(fmt.Sprintf("getPath: not a tuple: %s", valueString(v)))
		}
		if i < 0 || i >= len(t.el) {
			panic(engineErr("index out of range in concrete aggregate"))
		}
		v = t.el[i]
	}
	return v
}

// setPath returns a copy of v with the value at path replaced.
func setPath(v Value, path []int, nv Value) Value {
	if len(path) == 0 {
		return nv
	}
	t, ok := v.(*Tuple)
	if !ok {
		panic(fmt.Sprintf("setPath: not a tuple: %s", valueString(v)))
	}
	el := make([]Value, len(t.el))
	copy(el, t.el)
	if path[0] < 0 || path[0] >= len(el) {
		panic(engineErr("index out of range in concrete aggregate"))
	}
	el[path[0]] = setPath(el[path[0]], path[1:], nv)
	return &Tuple{typ: t.typ, el: el}
}

type engineErr string

func (e engineErr) Error() string { return string(e) }
