package main

// C05 / C08: lemmas over the marching cubes / squares case tables as read
// from the working tree's package initialisers, and the code<->table
// correspondence of mcToTriangles / msToLines by symbolic execution.

import (
	"fmt"
	"sort"
	"strings"

	"golang.org/x/tools/go/ssa"
)

func (x *Exec) globalValue(pkg, name string) Value {
	p := x.pkgByNm[pkg]
	if p == nil {
		fail("package %s not loaded", pkg)
	}
	g, ok := p.Members[name].(*ssa.Global)
	if !ok {
		fail("no global %s.%s", pkg, name)
	}
	return x.gstate.store[x.globalCell(g)]
}

func (x *Exec) intOf(v Value) int {
	t, ok := v.(*Term)
	if !ok {
		fail("table entry is not a scalar")
	}
	i, ok := concreteInt(t)
	if !ok {
		fail("table entry is not concrete")
	}
	return i
}

// intTable1: [N]int ; intTable2: [N][M]int or [N][]int
func (x *Exec) intTable1(pkg, name string) []int {
	t, ok := x.globalValue(pkg, name).(*Tuple)
	if !ok {
		fail("%s is not an array", name)
	}
	out := make([]int, len(t.el))
	for i, e := range t.el {
		out[i] = x.intOf(e)
	}
	return out
}

func (x *Exec) intTable2(pkg, name string) [][]int {
	t, ok := x.globalValue(pkg, name).(*Tuple)
	if !ok {
		fail("%s is not an array", name)
	}
	out := make([][]int, len(t.el))
	for i, e := range t.el {
		switch r := e.(type) {
		case *Tuple:
			for _, c := range r.el {
				out[i] = append(out[i], x.intOf(c))
			}
		case *SliceV:
			if r.cell == nil {
				continue
			}
			arr := x.gstate.store[r.cell].(*Tuple)
			off, _ := concreteInt(r.off)
			ln, _ := concreteInt(r.len)
			for k := 0; k < ln; k++ {
				out[i] = append(out[i], x.intOf(arr.el[off+k]))
			}
		default:
			fail("%s[%d] has unsupported shape", name, i)
		}
	}
	return out
}

type tableLemma struct {
	name  string
	what  string
	cases int
	bad   []string
}

func (l *tableLemma) fail(format string, a ...interface{}) {
	if len(l.bad) < 5 {
		l.bad = append(l.bad, fmt.Sprintf(format, a...))
	}
}

func lemmaGroups(prefix string, ls []*tableLemma) []*groupResult {
	var out []*groupResult
	for _, l := range ls {
		g := &groupResult{Name: prefix + "/" + l.name, Status: "discharged", Queries: l.cases, Backends: []string{"ground-eval"}, What: l.what + fmt.Sprintf(" (%d ground cases enumerated exhaustively over the tables read from the working tree's init)", l.cases)}
		if len(l.bad) > 0 {
			g.Status = "refuted"
			g.Detail = strings.Join(l.bad, "; ")
		}
		out = append(out, g)
	}
	return out
}

// cube geometry: corner k offsets as used by every caller of mcToTriangles
var mcCorner = [8][3]int{{0, 0, 0}, {1, 0, 0}, {1, 1, 0}, {0, 1, 0}, {0, 0, 1}, {1, 0, 1}, {1, 1, 1}, {0, 1, 1}}

type vec3f [3]float64

func sub3(a, b vec3f) vec3f   { return vec3f{a[0] - b[0], a[1] - b[1], a[2] - b[2]} }
func cross3(a, b vec3f) vec3f { return vec3f{a[1]*b[2] - a[2]*b[1], a[2]*b[0] - a[0]*b[2], a[0]*b[1] - a[1]*b[0]} }
func dot3(a, b vec3f) float64 { return a[0]*b[0] + a[1]*b[1] + a[2]*b[2] }

func mcTableLemmas(x *Exec) []*tableLemma {
	edge := x.intTable1("render", "mcEdgeTable")
	pair := x.intTable2("render", "mcPairTable")
	tri := x.intTable2("render", "mcTriangleTable")
	var out []*tableLemma
	if len(edge) != 256 || len(tri) != 256 || len(pair) != 12 {
		l := &tableLemma{name: "table.shape", what: "tables have 256/256/12 rows", cases: 1}
		l.fail("unexpected table sizes %d %d %d", len(edge), len(tri), len(pair))
		return []*tableLemma{l}
	}
	inside := func(idx, corner int) bool { return idx&(1<<uint(corner)) != 0 }
	// pair table must be the 12 cube edges
	lp := &tableLemma{name: "table.pairs-are-cube-edges", what: "mcPairTable lists the 12 distinct cube edges (corners differing in exactly one coordinate)"}
	seenEdge := map[[2]int]bool{}
	for e, p := range pair {
		lp.cases++
		if len(p) != 2 || p[0] < 0 || p[0] > 7 || p[1] < 0 || p[1] > 7 {
			lp.fail("edge %d has bad corners %v", e, p)
			continue
		}
		d := 0
		for k := 0; k < 3; k++ {
			if mcCorner[p[0]][k] != mcCorner[p[1]][k] {
				d++
			}
		}
		if d != 1 {
			lp.fail("edge %d joins corners %d,%d which are not adjacent", e, p[0], p[1])
		}
		a, b := p[0], p[1]
		if a > b {
			a, b = b, a
		}
		if seenEdge[[2]int{a, b}] {
			lp.fail("edge %d duplicates another edge", e)
		}
		seenEdge[[2]int{a, b}] = true
	}
	out = append(out, lp)
	if len(lp.bad) > 0 {
		return out
	}
	// (a) edge table bit <=> sign change; triangle table names only crossing edges
	la := &tableLemma{name: "table.edge-bits-are-sign-changes", what: "bit e of mcEdgeTable[idx] is set iff the corners of edge e differ in sign; mcTriangleTable[idx] has length 0 mod 3 and names only crossing edges; every crossing edge is used"}
	for idx := 0; idx < 256; idx++ {
		la.cases++
		for e := 0; e < 12; e++ {
			cross := inside(idx, pair[e][0]) != inside(idx, pair[e][1])
			bit := edge[idx]&(1<<uint(e)) != 0
			if cross != bit {
				la.fail("idx %d edge %d: crossing=%v but table bit=%v", idx, e, cross, bit)
			}
		}
		if edge[idx]>>12 != 0 {
			la.fail("idx %d: edge table has bits above 11", idx)
		}
		if len(tri[idx])%3 != 0 {
			la.fail("idx %d: triangle row length %d not a multiple of 3", idx, len(tri[idx]))
		}
		used := 0
		for _, e := range tri[idx] {
			if e < 0 || e > 11 {
				la.fail("idx %d: triangle row names edge %d", idx, e)
				continue
			}
			if edge[idx]&(1<<uint(e)) == 0 {
				la.fail("idx %d: triangle row uses non-crossing edge %d", idx, e)
			}
			used |= 1 << uint(e)
		}
		if used != edge[idx] {
			la.fail("idx %d: crossing edges %03x but triangles use %03x", idx, edge[idx], used)
		}
		for i := 0; i+2 < len(tri[idx]); i += 3 {
			if tri[idx][i] == tri[idx][i+1] || tri[idx][i+1] == tri[idx][i+2] || tri[idx][i] == tri[idx][i+2] {
				la.fail("idx %d: triangle %d repeats an edge", idx, i/3)
			}
		}
	}
	out = append(out, la)
	if len(la.bad) > 0 {
		return out
	}
	// faces: axis a, side s; edges on a face
	faceOfEdge := func(e int) [][2]int { // list of (axis, side)
		var fs [][2]int
		for a := 0; a < 3; a++ {
			if mcCorner[pair[e][0]][a] == mcCorner[pair[e][1]][a] {
				fs = append(fs, [2]int{a, mcCorner[pair[e][0]][a]})
			}
		}
		return fs
	}
	commonFace := func(e1, e2 int) (int, int, bool) {
		for _, f1 := range faceOfEdge(e1) {
			for _, f2 := range faceOfEdge(e2) {
				if f1 == f2 {
					return f1[0], f1[1], true
				}
			}
		}
		return 0, 0, false
	}
	// directed edges of the emitted triangles (emission order is T[3i+2],T[3i+1],T[3i])
	type dedge [2]int
	directed := func(idx int) map[dedge]int {
		m := map[dedge]int{}
		row := tri[idx]
		for i := 0; i+2 < len(row); i += 3 {
			v := [3]int{row[i+2], row[i+1], row[i]}
			for k := 0; k < 3; k++ {
				m[dedge{v[k], v[(k+1)%3]}]++
			}
		}
		return m
	}
	// (b) interior balance
	lb := &tableLemma{name: "table.interior-edges-balanced", what: "in every configuration each directed triangle edge whose end points do not share a cube face is matched by its reverse within the same cell"}
	for idx := 0; idx < 256; idx++ {
		lb.cases++
		m := directed(idx)
		for d, n := range m {
			if _, _, ok := commonFace(d[0], d[1]); ok {
				continue
			}
			if m[dedge{d[1], d[0]}] != n {
				lb.fail("idx %d: interior edge %d->%d occurs %d times, reverse %d times", idx, d[0], d[1], n, m[dedge{d[1], d[0]}])
			}
		}
	}
	out = append(out, lb)
	// net directed face segments
	netFace := func(idx, axis, side int) map[dedge]int {
		m := directed(idx)
		res := map[dedge]int{}
		for d, n := range m {
			a, s, ok := commonFace(d[0], d[1])
			if !ok || a != axis || s != side {
				continue
			}
			net := n - m[dedge{d[1], d[0]}]
			if net > 0 {
				res[d] = net
			}
		}
		return res
	}
	// edge of the opposite face at the same position (shift along axis)
	edgeAt := func(c0, c1 [3]int) int {
		for e := 0; e < 12; e++ {
			a, b := mcCorner[pair[e][0]], mcCorner[pair[e][1]]
			if (a == c0 && b == c1) || (a == c1 && b == c0) {
				return e
			}
		}
		return -1
	}
	mirrorEdge := func(e, axis int) int { // edge on side 1 -> same position on side 0
		a, b := mcCorner[pair[e][0]], mcCorner[pair[e][1]]
		a[axis], b[axis] = 0, 0
		return edgeAt(a, b)
	}
	cornerAt := func(c [3]int) int {
		for k := 0; k < 8; k++ {
			if mcCorner[k] == c {
				return k
			}
		}
		return -1
	}
	// (c) face match between neighbouring cells
	lc := &tableLemma{name: "table.shared-faces-match", what: "for each axis and every pair of configurations agreeing on the four corners of the shared face, the net directed segments on A's +axis face are exactly the reverses of B's on its -axis face"}
	for axis := 0; axis < 3; axis++ {
		for A := 0; A < 256; A++ {
			for B := 0; B < 256; B++ {
				agree := true
				for k := 0; k < 8; k++ {
					if mcCorner[k][axis] != 1 {
						continue
					}
					c := mcCorner[k]
					c[axis] = 0
					if inside(A, k) != inside(B, cornerAt(c)) {
						agree = false
						break
					}
				}
				if !agree {
					continue
				}
				lc.cases++
				fa := netFace(A, axis, 1)
				fb := netFace(B, axis, 0)
				mapped := map[dedge]int{}
				for d, n := range fa {
					mapped[dedge{mirrorEdge(d[1], axis), mirrorEdge(d[0], axis)}] += n // reversed
				}
				same := len(mapped) == len(fb)
				for d, n := range mapped {
					if fb[d] != n {
						same = false
					}
				}
				if !same {
					lc.fail("axis %d: configurations A=%d (+face) and B=%d (-face) leave unmatched segments: A %v vs B %v", axis, A, B, fa, fb)
				}
			}
		}
	}
	out = append(out, lc)
	// (d) orientation of face segments + anchor
	mid := func(e int) vec3f {
		a, b := mcCorner[pair[e][0]], mcCorner[pair[e][1]]
		return vec3f{float64(a[0]+b[0]) / 2, float64(a[1]+b[1]) / 2, float64(a[2]+b[2]) / 2}
	}
	cpos := func(k int) vec3f { return vec3f{float64(mcCorner[k][0]), float64(mcCorner[k][1]), float64(mcCorner[k][2])} }
	ld := &tableLemma{name: "table.outward-orientation", what: "seen from outside the cube every net directed face segment has the solid (negative) corner of each of its two lattice edges on the same side as in the single-corner configuration and the void corner on the other side; the single-corner configuration has its right-hand normal pointing away from the solid corner"}
	// determine the expected side from the anchor configuration idx=1 (corner 0 solid)
	{
		ld.cases++
		row := tri[1]
		if len(row) != 3 {
			ld.fail("configuration 1 does not have exactly one triangle")
		} else {
			v0, v1, v2 := mid(row[2]), mid(row[1]), mid(row[0])
			n := cross3(sub3(v1, v0), sub3(v2, v0))
			g := vec3f{(v0[0] + v1[0] + v2[0]) / 3, (v0[1] + v1[1] + v2[1]) / 3, (v0[2] + v1[2] + v2[2]) / 3}
			if dot3(n, sub3(g, cpos(0))) <= 0 {
				ld.fail("configuration 1: right-hand normal %v points towards the solid corner", n)
			}
		}
	}
	// the side on which the solid corner lies is fixed by the anchor configuration
	sigma := 0.0
	for axis := 0; axis < 3 && sigma == 0; axis++ {
		for d := range netFace(1, axis, 0) {
			s, t := mid(d[0]), mid(d[1])
			N := vec3f{}
			N[axis] = -1
			sigma = dot3(cross3(sub3(t, s), sub3(cpos(0), s)), N)
			break
		}
	}
	if sigma == 0 {
		ld.fail("anchor configuration 1 has no face segment")
	}
	if sigma > 0 {
		sigma = 1
	} else {
		sigma = -1
	}
	for idx := 0; idx < 256; idx++ {
		for axis := 0; axis < 3; axis++ {
			for side := 0; side < 2; side++ {
				nf := netFace(idx, axis, side)
				for d := range nf {
					ld.cases++
					s, t := mid(d[0]), mid(d[1])
					N := vec3f{}
					N[axis] = float64(2*side - 1) // outward normal of the face
					for _, e := range []int{d[0], d[1]} {
						for _, k := range pair[e] {
							// side of corner k relative to s->t seen from outside: sign of ((t-s) x (c-s)) . N ; >0 = left
							sg := sigma * dot3(cross3(sub3(t, s), sub3(cpos(k), s)), N)
							if inside(idx, k) && sg <= 0 {
								ld.fail("idx %d face(axis %d side %d) segment %d->%d: solid corner %d is on the void side", idx, axis, side, d[0], d[1], k)
							}
							if !inside(idx, k) && sg >= 0 {
								ld.fail("idx %d face(axis %d side %d) segment %d->%d: void corner %d is on the solid side", idx, axis, side, d[0], d[1], k)
							}
						}
					}
				}
			}
		}
	}
	out = append(out, ld)
	return out
}

// marching squares tables
var msCorner = [4][2]int{{0, 0}, {1, 0}, {1, 1}, {0, 1}}

func msTableLemmas(x *Exec) []*tableLemma {
	edge := x.intTable1("render", "msEdgeTable")
	pair := x.intTable2("render", "msPairTable")
	line := x.intTable2("render", "msLineTable")
	var out []*tableLemma
	if len(edge) != 16 || len(line) != 16 || len(pair) != 4 {
		l := &tableLemma{name: "table.shape", what: "tables have 16/16/4 rows", cases: 1}
		l.fail("unexpected table sizes %d %d %d", len(edge), len(line), len(pair))
		return []*tableLemma{l}
	}
	inside := func(idx, corner int) bool { return idx&(1<<uint(corner)) != 0 }
	lp := &tableLemma{name: "table.pairs-are-square-edges", what: "msPairTable lists the 4 distinct square edges"}
	seen := map[[2]int]bool{}
	for e, p := range pair {
		lp.cases++
		if len(p) != 2 || p[0] < 0 || p[0] > 3 || p[1] < 0 || p[1] > 3 {
			lp.fail("edge %d has bad corners", e)
			continue
		}
		d := 0
		for k := 0; k < 2; k++ {
			if msCorner[p[0]][k] != msCorner[p[1]][k] {
				d++
			}
		}
		if d != 1 {
			lp.fail("edge %d joins non-adjacent corners", e)
		}
		a, b := p[0], p[1]
		if a > b {
			a, b = b, a
		}
		if seen[[2]int{a, b}] {
			lp.fail("edge %d duplicates another edge", e)
		}
		seen[[2]int{a, b}] = true
	}
	out = append(out, lp)
	if len(lp.bad) > 0 {
		return out
	}
	la := &tableLemma{name: "table.edge-bits-are-sign-changes", what: "bit e of msEdgeTable[idx] is set iff the corners of edge e differ in sign"}
	ldeg := &tableLemma{name: "table.each-crossing-edge-ends-exactly-one-segment", what: "in every configuration every crossing edge is an end point of exactly one segment and non-crossing edges of none (so glued end points have degree 2; saddles give two segments on four distinct edges)"}
	for idx := 0; idx < 16; idx++ {
		la.cases++
		ldeg.cases++
		for e := 0; e < 4; e++ {
			cross := inside(idx, pair[e][0]) != inside(idx, pair[e][1])
			bit := edge[idx]&(1<<uint(e)) != 0
			if cross != bit {
				la.fail("idx %d edge %d: crossing=%v but table bit=%v", idx, e, cross, bit)
			}
		}
		if edge[idx]>>4 != 0 {
			la.fail("idx %d: edge table has bits above 3", idx)
		}
		if len(line[idx])%2 != 0 {
			ldeg.fail("idx %d: line row has odd length", idx)
		}
		cnt := [4]int{}
		for _, e := range line[idx] {
			if e < 0 || e > 3 {
				ldeg.fail("idx %d: line row names edge %d", idx, e)
				continue
			}
			cnt[e]++
		}
		for e := 0; e < 4; e++ {
			want := 0
			if edge[idx]&(1<<uint(e)) != 0 {
				want = 1
			}
			if cnt[e] != want {
				ldeg.fail("idx %d: edge %d is an end point of %d segments, expected %d", idx, e, cnt[e], want)
			}
		}
		for i := 0; i+1 < len(line[idx]); i += 2 {
			if line[idx][i] == line[idx][i+1] {
				ldeg.fail("idx %d: segment %d joins an edge to itself", idx, i/2)
			}
		}
	}
	out = append(out, la, ldeg)
	return out
}

//-----------------------------------------------------------------------------
// O1: code <-> table correspondence by symbolic execution

// cellCodeCheck runs fnName (mcToTriangles / msToLines) symbolically on
// symbolic corners/values with the interpolation and degeneracy test opaque,
// and compares every path's result with the table-driven specification.
func cellCodeCheck(e *Engine, fnName string, ncorner int, edgeTab []int, pairTab, rowTab [][]int, vertsPer int, interp string) (g *groupResult) {
	x := e.x
	g = &groupResult{Name: "render." + fnName + "/code-matches-table", Status: "discharged", Backends: []string{"symbolic-exec"},
		What: fmt.Sprintf("for every sign configuration and every outcome of the degeneracy tests, %s returns exactly the table's elements (vertices = %s of the edge's corners and values, winding reversed as in the code), in order, minus those whose vertices the degeneracy test rejects", fnName, interp)}
	defer func() {
		if r := recover(); r != nil {
			if ee, ok := r.(engineErr); ok {
				g.Status = "undecided"
				g.Detail = "engine: " + string(ee)
				return
			}
			panic(r)
		}
	}()
	pkg := x.pkgByNm["render"]
	fn := pkg.Func(fnName)
	if fn == nil {
		fail("no function %s", fnName)
	}
	ct := &Contract{pkg: "render", fnName: fnName, id: "code-matches-table", opts: map[string]string{}, invs: map[int][]*Clause{}}
	x.cur = ct
	freshCtr = map[string]int{}
	for k, n := range x.freshBase {
		freshCtr[k] = n
	}
	ufMemo = map[string]*Term{}
	for k, tm := range x.ufMemoBase {
		ufMemo[k] = tm
	}
	x.schemas = nil
	x.paths = 0
	x.unrolled = 0
	x.mergeIf = false
	x.prune = false
	x.mergeCallMax = 0
	x.safety = false
	x.maxPaths = 60000
	degName := "(*github.com/deadsy/sdfx/sdf.Triangle3).Degenerate"
	if vertsPer == 2 {
		degName = "(github.com/deadsy/sdfx/sdf.Line2).Degenerate"
	}
	x.opaque = map[string]bool{"github.com/deadsy/sdfx/render." + interp: true, degName: true}
	st := x.gstate.fork()
	var args []Value
	for _, p := range fn.Params {
		args = append(args, x.symValue(st, p.Type(), p.Name()))
	}
	pv := args[0].(*Tuple)
	vv := args[1].(*Tuple)
	xv := args[2].(*Term)
	outs := x.callTop(st, fn, args, ct)
	x.opaque = map[string]bool{}
	interpFn := pkg.Func(interp)
	npaths := 0
	seenIdx := map[int]bool{}
	for _, o := range outs {
		if o.kind != oRet {
			g.Status = "refuted"
			g.Detail = "a path of " + fnName + " panics: " + o.msg
			return g
		}
		npaths++
		// index from the path condition
		idx := 0
		known := true
		pcset := map[int]bool{}
		for _, t := range o.st.pc {
			pcset[t.id] = true
		}
		for i := 0; i < ncorner; i++ {
			c := mkLt(vv.el[i].(*Term), xv)
			c2 := mkLe(vv.el[i].(*Term), xv) // a consistent "<=" inside test is a relabelling, not a defect
			switch {
			case pcset[c.id] || pcset[c2.id]:
				idx |= 1 << uint(i)
			case pcset[mkNot(c).id] || pcset[mkNot(c2).id]:
			default:
				known = false
			}
		}
		if !known {
			g.Status = "undecided"
			g.Detail = "path does not determine the sign configuration"
			return g
		}
		seenIdx[idx] = true
		// expected
		point := func(eg int) Value {
			a, b := pairTab[eg][0], pairTab[eg][1]
			var flat []*Term
			for _, v := range []Value{pv.el[a], pv.el[b], vv.el[a], vv.el[b], xv} {
				flatten(v, &flat)
			}
			return x.ufResult(o.st, fmt.Sprintf("%s#0", sanitize(interpFn.Name())), interpFn.Signature.Results().At(0).Type(), flat)
		}
		var expected []Value
		row := rowTab[idx]
		for i := 0; i+vertsPer-1 < len(row); i += vertsPer {
			var verts []Value
			for k := vertsPer - 1; k >= 0; k-- {
				verts = append(verts, point(row[i+k]))
			}
			// degeneracy outcome on this path
			var flat []*Term
			for _, v := range verts {
				flatten(v, &flat)
			}
			flat = append(flat, mkRealInt(0))
			dname := "Degenerate#0"
			dt := x.ufApp(o.st, dname, SBool, flat)
			switch {
			case pcset[dt.id]:
				// dropped
			case pcset[mkNot(dt).id]:
				expected = append(expected, &Tuple{el: verts})
			default:
				g.Status = "refuted"
				g.Detail = fmt.Sprintf("configuration %d: element %d is emitted or dropped without consulting the degeneracy test on its table vertices", idx, i/vertsPer)
				return g
			}
		}
		// actual
		var actual []Value
		if len(o.vals) != 1 {
			fail("unexpected result arity")
		}
		res, ok := o.vals[0].(*SliceV)
		if !ok {
			fail("result is not a slice")
		}
		if res.cell != nil {
			ln, ok := concreteInt(res.len)
			if !ok {
				fail("result length symbolic")
			}
			off, _ := concreteInt(res.off)
			arr := o.st.store[res.cell].(*Tuple)
			for k := 0; k < ln; k++ {
				ptr, ok := arr.el[off+k].(*Ptr)
				if !ok || ptr.cell == nil {
					fail("result element is not a pointer")
				}
				actual = append(actual, x.load(o.st, ptr))
			}
		}
		if len(actual) != len(expected) {
			g.Status = "refuted"
			g.Detail = fmt.Sprintf("configuration %d: code returns %d elements, table specifies %d", idx, len(actual), len(expected))
			return g
		}
		for k := range actual {
			var fa, fe []*Term
			flatten(actual[k], &fa)
			flatten(expected[k], &fe)
			same := len(fa) == len(fe)
			for j := 0; same && j < len(fa); j++ {
				if fa[j] != fe[j] {
					same = false
				}
			}
			if !same {
				g.Status = "refuted"
				g.Detail = fmt.Sprintf("configuration %d: element %d differs from the table specification (vertex order / edge / corner pairing)", idx, k)
				return g
			}
		}
		if edgeTab[idx] == 0 && len(actual) != 0 {
			g.Status = "refuted"
			g.Detail = fmt.Sprintf("configuration %d: elements emitted although no edge crosses", idx)
			return g
		}
	}
	if len(seenIdx) != 1<<uint(ncorner) {
		var missing []int
		for i := 0; i < 1<<uint(ncorner); i++ {
			if !seenIdx[i] {
				missing = append(missing, i)
			}
		}
		sort.Ints(missing)
		g.Status = "refuted"
		g.Detail = fmt.Sprintf("sign configurations never reached by the code: %v", missing)
		return g
	}
	g.Queries = npaths
	g.What += fmt.Sprintf(" (%d paths = %d configurations x degeneracy outcomes, corner coordinates and values symbolic)", npaths, len(seenIdx))
	return g
}
