package main

// Equivalence with the verified baseline (fallback when a proof is stale).
//
// A contract that no longer goes through on a changed tree says nothing by
// itself: the annotations (loop ordinals, named locals, proof scripts) may
// simply no longer fit code that still computes the same thing. Before such a
// failure is reported, the changed function and its verified predecessor (a
// mechanically renamed copy from <verif>/baseline_src, see baseline.go) are
// executed symbolically on the same symbolic arguments, everything inlined,
// external calls uninterpreted, loops without annotations unrolled up to
// equivBound iterations per entry and recursion up to equivRecursion nested
// activations. For every pair of paths whose conditions are compatible the
// solver must show: same kind of outcome, equal results, equal final contents
// of everything that existed at entry, equal sequence of external events.
// Then the relational contract "the function returns what the verified
// version returns" holds (exactly when no bound was hit, otherwise up to the
// bound, and is labelled so), the obligations proved for the baseline carry
// over, and no violation is reported. Anything else - a difference, an
// inconclusive query, an engine limit - leaves the original verdict in place.

import (
	"fmt"
	"os"
	"go/types"
	"path/filepath"
	"sort"
	"strings"
	"time"

	"golang.org/x/tools/go/ssa"
)

const (
	equivBound     = 3
	equivRecursion = 2
	equivMaxPaths  = 1500
	equivRunBudget = 20 * time.Second // symbolic execution of both versions
	equivBudget    = 120 * time.Second // everything, per check run
)

type equivResult struct {
	Status  string `json:"status"` // equivalent | bounded-equivalent | different | unchanged | unavailable
	Detail  string `json:"detail,omitempty"`
	Bound   int    `json:"bound,omitempty"`
	Pairs   int    `json:"pairs"`
	Queries int    `json:"queries"`
	Ms      int64  `json:"ms"`
	closures map[string]bool
	funcs    map[*ssa.Function]bool
}

func (r *equivResult) carries() bool {
	return r != nil && (r.Status == "equivalent" || r.Status == "bounded-equivalent")
}

type equivChecker struct {
	verif, repo string
	base        *baselineInfo
	eng         *Engine
	memo        map[declKey]*equivResult
	err         error
	outDir      string
	started     time.Time
	fa          *frameAn
	inprog      map[declKey]bool
	current     declKey
	bound       int
	intMerge    bool
	under       string // label of the contract whose preconditions are assumed ("" = none)
	memoUnder   map[string]*equivResult
	assumed     int
	lock        bool            // the comparison under way cuts data-dependent loops in lockstep
	lockLoops   map[string]bool // which loops
	symA, symB  map[string]bool // data-dependent loops seen in the bounded runs of the two versions
}

func newEquivChecker(verif, repo, outDir string) *equivChecker {
	c := &equivChecker{verif: verif, repo: repo, memo: map[declKey]*equivResult{}, outDir: outDir}
	c.base, c.err = loadBaseline(verif, repo)
	return c
}

func (c *equivChecker) close() {
	if c != nil {
		c.base.close()
	}
}

// prepare loads the tree once more with the baseline copies needed for keys.
func (c *equivChecker) prepare(keys []declKey) {
	if c.err != nil || c.base == nil || len(c.base.tainted) == 0 {
		return
	}
	var roots []declKey
	for _, k := range keys {
		if i := strings.Index(k.name, "$"); i >= 0 {
			k.name = k.name[:i] // a closure is copied with the function that contains it
		}
		roots = append(roots, k)
	}
	need := c.base.reach(roots)
	if len(need) == 0 {
		return
	}
	ov, err := c.base.overlay(c.repo, need)
	if err != nil {
		c.err = err
		return
	}
	if c.outDir != "" {
		for p, src := range ov {
			writeFileQuiet(filepath.Join(c.outDir, "baseline-copies", strings.ReplaceAll(strings.TrimPrefix(p, c.repo+"/"), "/", "_")), src)
		}
	}
	c.eng, c.err = loadEngineOverlay(c.repo, c.verif, ov)
	if c.err == nil {
		c.fa = newFrameAn(c.eng.x.prog)
	}
}

func (c *equivChecker) lookup(k declKey, prefix string) *ssa.Function {
	x := c.eng.x
	pkg := x.prog.ImportedPackage(modulePath + "/" + k.dir)
	if pkg == nil {
		return nil
	}
	name := k.name
	closure := ""
	if i := strings.Index(name, "$"); i >= 0 {
		name, closure = name[:i], name[i:]
	}
	var fn *ssa.Function
	if k.recv == "" {
		fn = pkg.Func(prefix + name)
	} else {
		tn, ok := pkg.Pkg.Scope().Lookup(k.recv).(*types.TypeName)
		if !ok {
			return nil
		}
		obj, _, _ := types.LookupFieldOrMethod(types.NewPointer(tn.Type()), true, pkg.Pkg, prefix+name)
		f, ok := obj.(*types.Func)
		if !ok {
			return nil
		}
		fn = x.prog.FuncValue(f)
	}
	if fn == nil || closure == "" {
		return fn
	}
	// closures are named f$1, f$1$2, ...: descend one level per "$n"
	want := fn.Name()
	for _, part := range strings.Split(strings.TrimPrefix(closure, "$"), "$") {
		want += "$" + part
		var next *ssa.Function
		for _, an := range fn.AnonFuncs {
			if an.Name() == want {
				next = an
				break
			}
		}
		if next == nil {
			return nil
		}
		fn = next
	}
	return fn
}

func (c *equivChecker) check(k declKey) *equivResult {
	if r, ok := c.memo[k]; ok {
		return r
	}
	if c.started.IsZero() {
		c.started = time.Now()
	}
	if time.Since(c.started) > equivBudget {
		r := &equivResult{Status: "unavailable", Detail: "time budget of the equivalence fallback exhausted"}
		c.memo[k] = r
		return r
	}
	// callees first: a changed callee shown equivalent is abstracted in its callers
	if c.inprog == nil {
		c.inprog = map[declKey]bool{}
	}
	c.inprog[k] = true
	if c.base != nil && c.err == nil {
		parent := k
		if i := strings.Index(k.name, "$"); i >= 0 {
			parent.name = k.name[:i]
		}
		var callees []declKey
		for r := range c.base.calls[parent] {
			if c.base.tainted[r] && r != parent && !c.inprog[r] {
				callees = append(callees, r)
			}
		}
		sort.Slice(callees, func(i, j int) bool { return callees[i].String() < callees[j].String() })
		for _, r := range callees {
			c.check(r)
		}
	}
	delete(c.inprog, k)
	t0 := time.Now()
	r := c.check1(k)
	r.Ms = time.Since(t0).Milliseconds()
	c.memo[k] = r
	return r
}

func (c *equivChecker) check1(k declKey) (res *equivResult) {
	if c.err != nil {
		return &equivResult{Status: "unavailable", Detail: c.err.Error()}
	}
	parent := k
	if i := strings.Index(k.name, "$"); i >= 0 {
		parent.name = k.name[:i]
	}
	if c.base == nil || !c.base.tainted[parent] {
		return &equivResult{Status: "unchanged", Detail: "neither the function nor anything it reaches differs from the verified baseline"}
	}
	if c.eng == nil {
		return &equivResult{Status: "unavailable", Detail: "baseline copies not loaded"}
	}
	fnNew := c.lookup(k, "")
	fnBase := c.lookup(k, basePrefix)
	if fnNew == nil || fnBase == nil {
		return &equivResult{Status: "unavailable", Detail: "function not found in the tree or in the baseline snapshot"}
	}
	defer func() {
		if rec := recover(); rec != nil {
			if ee, ok := rec.(engineErr); ok {
				res = &equivResult{Status: "unavailable", Detail: "engine: " + string(ee)}
				return
			}
			res = &equivResult{Status: "unavailable", Detail: fmt.Sprintf("internal: %v", rec)}
		}
	}()
	var r *equivResult
	c.symA, c.symB = map[string]bool{}, map[string]bool{}
	for bound := equivBound; bound >= 1; bound-- {
		c.bound = bound
		r = c.compare(k, fnNew, fnBase, true)
		if r.Status == "unavailable" && strings.HasPrefix(r.Detail, "engine:") && !strings.Contains(r.Detail, "path limit") && !strings.Contains(r.Detail, "time budget") {
			// branches that cannot be merged into one symbolic state: explore them separately
			r2 := c.compare(k, fnNew, fnBase, false)
			if r2.Status != "unavailable" {
				return r2
			}
			r.Detail += "; explored separately: " + r2.Detail
		}
		// too many paths for this bound: nested data-dependent loops are compared to a smaller one
		if !(r.Status == "unavailable" && (strings.Contains(r.Detail, "path limit") || strings.Contains(r.Detail, "time budget") || strings.Contains(r.Detail, "too many paths"))) {
			break
		}
	}
	if r.Status != "equivalent" && (len(c.symA) > 0 || len(c.symB) > 0) {
		// Some loop depends on symbolic data, so unrolling only covers its first iterations.
		// Lockstep induction: those loops are cut in both versions at the same arbitrary
		// loop-head state (corresponding loop-carried variables and written cells are the same
		// unknowns); the versions must reach each loop in equal states, hand equal states to the
		// next iteration and leave it alike. That covers every number of iterations.
		// Only loops whose header has the same shape in both versions can be cut in lockstep; a
		// loop that was peeled, re-strided, converted or moved into a new helper is unrolled (up
		// to the bound) from whatever state the cut loops before it leave behind.
		cuttable := c.cuttableLoops()
		c.lockLoops = map[string]bool{}
		addLoops := func() {
			for _, m := range []map[string]bool{c.symA, c.symB} {
				for n := range m {
					if cuttable[n] {
						c.lockLoops[n] = true
					}
				}
			}
		}
		addLoops()
		c.lock = true
		var lr *equivResult
		for bound := equivBound; bound >= 1; bound-- {
			c.bound = bound
			for round := 0; round < 5; round++ {
				// cutting a loop makes what it computes unknown, which can make a later loop
				// data-dependent in turn: repeat until no further loop turns up
				before := len(c.lockLoops)
				lr = c.compare(k, fnNew, fnBase, true)
				addLoops()
				if len(c.lockLoops) == before {
					break
				}
			}
			if !(lr.Status == "unavailable" && (strings.Contains(lr.Detail, "path limit") || strings.Contains(lr.Detail, "time budget") || strings.Contains(lr.Detail, "too many paths"))) {
				break
			}
		}
		c.lock = false
		// the induction is the stronger comparison: its answer stands
		if lr.carries() {
			lr.Detail = strings.TrimSpace(lr.Detail + fmt.Sprintf(" %d data-dependent loop(s) by lockstep induction", len(c.lockLoops)))
		} else {
			lr.Detail = fmt.Sprintf("with %d loop(s) cut in lockstep: %s", len(c.lockLoops), lr.Detail)
		}
		r = lr
		if r.Status == "bounded-equivalent" && r.Bound < 2 {
			r = &equivResult{Status: "unavailable", Detail: fmt.Sprintf("loops that changed shape were only followed for %d iteration(s)", r.Bound), Pairs: r.Pairs, Queries: r.Queries}
		}
	}
	if r.carries() {
		for f := range r.funcs {
			fk, ok := c.keyOfSSA(f)
			if !ok {
				return &equivResult{Status: "unavailable", Detail: "a changed function is used as a value: " + f.String()}
			}
			if fk == k || c.inprog[fk] {
				continue
			}
			if rf := c.check(fk); !rf.carries() {
				return &equivResult{Status: rf.Status, Detail: "function value " + fk.String() + ": " + rf.Detail, Pairs: r.Pairs, Queries: r.Queries}
			}
		}
	}
	if r.carries() && len(r.closures) > 0 && !strings.Contains(k.name, "$") {
		// function values built from closures of the function: their bodies are part of what it returns / starts
		var sfxs []string
		for sfx := range r.closures {
			sfxs = append(sfxs, sfx)
		}
		sort.Strings(sfxs)
		for _, sfx := range sfxs {
			kc := k
			kc.name += sfx
			rc := c.check(kc)
			if !rc.carries() {
				return &equivResult{Status: rc.Status, Detail: "closure " + kc.String() + ": " + rc.Detail, Pairs: r.Pairs, Queries: r.Queries}
			}
			if rc.Status == "bounded-equivalent" && r.Status == "equivalent" {
				r.Status, r.Bound = "bounded-equivalent", rc.Bound
			}
		}
	}
	return r
}

// compare runs the comparison with conditional integers merged like any other value; when the
// engine then meets a symbolic index or shift it cannot model, it runs again keeping integers
// concrete (a branch that decides an integer is explored as two paths).
func (c *equivChecker) compare(k declKey, fnNew, fnBase *ssa.Function, merge bool) *equivResult {
	c.intMerge = merge
	r := c.compare1(k, fnNew, fnBase, merge)
	if merge && r.Status == "unavailable" && strings.HasPrefix(r.Detail, "engine:") && !strings.Contains(r.Detail, "path limit") && !strings.Contains(r.Detail, "time budget") {
		c.intMerge = false
		r2 := c.compare1(k, fnNew, fnBase, merge)
		if !(r2.Status == "unavailable" && strings.HasPrefix(r2.Detail, "engine:")) || strings.Contains(r2.Detail, "path limit") || strings.Contains(r2.Detail, "time budget") {
			return r2
		}
	}
	return r
}

func (c *equivChecker) compare1(k declKey, fnNew, fnBase *ssa.Function, merge bool) (res *equivResult) {
	defer func() {
		if rec := recover(); rec != nil {
			if ee, ok := rec.(engineErr); ok {
				res = &equivResult{Status: "unavailable", Detail: "engine: " + string(ee)}
				return
			}
			panic(rec)
		}
	}()
	x := c.eng.x
	if len(fnNew.Params) != len(fnBase.Params) || len(fnNew.FreeVars) != len(fnBase.FreeVars) {
		return &equivResult{Status: "unavailable", Detail: "signature or captured variables changed"}
	}
	for i := range fnNew.Params {
		if !types.Identical(fnNew.Params[i].Type(), fnBase.Params[i].Type()) {
			return &equivResult{Status: "unavailable", Detail: "parameter types changed"}
		}
	}
	for i := range fnNew.FreeVars {
		if !types.Identical(fnNew.FreeVars[i].Type(), fnBase.FreeVars[i].Type()) {
			return &equivResult{Status: "unavailable", Detail: "captured variable types changed"}
		}
	}
	ct := &Contract{pkg: fnNew.Pkg.Pkg.Name(), fnName: k.name, id: "equivalent-to-baseline", opts: map[string]string{}, invs: map[int][]*Clause{}}
	x.cur = ct
	freshCtr = map[string]int{}
	for kk, n := range x.freshBase {
		freshCtr[kk] = n
	}
	ufMemo = map[string]*Term{}
	for kk, tm := range x.ufMemoBase {
		ufMemo[kk] = tm
	}
	x.schemas = nil
	x.mergeIf = merge
	x.prune = false
	x.mergeCallMax = 4
	if !merge {
		x.mergeCallMax = 0
	}
	x.safety = false
	x.splitGoals = true
	x.maxPaths = 20000
	x.opaque = map[string]bool{}
	x.noModular = true
	x.noIntMerge = !c.intMerge
	x.boundK = c.bound
	x.boundRec = equivRecursion
	x.baseRun = false
	x.deadline = time.Now().Add(equivRunBudget)
	x.eqAbstract = c.abstraction
	x.lockstep = c.lock
	x.lockLoops = c.lockLoops
	x.lockSigs = nil
	defer func() { x.lockstep = false; x.symLoops = nil; x.lockEntries = nil }()
	c.current = k
	if i := strings.Index(k.name, "$"); i >= 0 {
		c.current.name = k.name[:i]
	}
	x.active = nil
	defer func() { x.eqAbstract = nil; x.deadline = time.Time{}; x.noIntMerge = false; x.noModular = false; x.boundK = 0; x.boundRec = 0; x.baseRun = false }()

	st0 := x.gstate.fork()
	var args []Value
	for i, p := range fnNew.Params {
		args = append(args, x.symValue(st0, p.Type(), fmt.Sprintf("in%d", i)))
	}
	var bind []Value
	for i, fv := range fnNew.FreeVars {
		et := fv.Type().(*types.Pointer).Elem()
		cell := newCell(fmt.Sprintf("cap%d", i), et)
		st0.store[cell] = x.symValue(st0, et, fmt.Sprintf("cap%d", i))
		bind = append(bind, &Ptr{cell: cell})
	}
	if c.under != "" {
		// the comparison is made under the preconditions of the contract whose obligations are to
		// be carried over (they are proved under exactly these; callers establish them). A clause
		// the engine cannot evaluate here is left out: fewer hypotheses are always sound.
		c.assumeRequires(st0, fnNew, fnBase, args, bind)
	}
	entryCells := map[*Cell]bool{}
	for cl := range st0.store {
		entryCells[cl] = true
	}
	snapCtr := map[string]int{}
	for kk, n := range freshCtr {
		snapCtr[kk] = n
	}
	snapMemo := map[string]*Term{}
	for kk, tm := range ufMemo {
		snapMemo[kk] = tm
	}
	_ = snapMemo
	run := func(fn *ssa.Function, base bool) ([]Out, int) {
		// The n-th unknown of a kind (result of the n-th call of an external function, ...) is the
		// same variable in both runs: their counters restart. Uninterpreted applications are
		// memoised by function and arguments across both runs: the same application is the same
		// variable whichever run meets it first, and their counters keep running.
		nc := map[string]int{}
		for kk, n := range freshCtr {
			if ufHints[kk] {
				nc[kk] = n
			}
		}
		for kk, n := range snapCtr {
			if !ufHints[kk] {
				nc[kk] = n
			}
		}
		freshCtr = nc
		x.paths = 0
		x.boundHits = 0
		x.baseRun = base
		x.recvCtr = 0 // the n-th value received is the same unknown in both runs
		x.lockRunB = base
		x.lockEntries = nil
		x.symLoops = map[string]bool{}
		x.lockShared = map[*Cell]bool{}
		for cl := range entryCells {
			x.lockShared[cl] = true
		}
		for _, rc := range x.regions {
			x.lockShared[rc] = true
		}
		st := st0.fork()
		var outs []Out
		if len(fn.FreeVars) > 0 {
			outs = x.callClosureTop(st, &Func{fn: fn, bind: bind}, args, ct)
		} else {
			outs = x.callTop(st, fn, args, ct)
		}
		var keep []Out
		for _, o := range outs {
			if o.st != nil && !o.st.infeasible() {
				keep = append(keep, o)
			}
		}
		{
			for n := range x.symLoops {
				if base {
					c.symB[n] = true
				} else {
					c.symA[n] = true
				}
			}
		}
		return keep, x.boundHits
	}
	outsA, hitsA := run(fnNew, false)
	entA := x.lockEntries
	outsB, hitsB := run(fnBase, true)
	entB := x.lockEntries
	if os.Getenv("VERIF_EQUIV_DEBUG") != "" {
		fmt.Fprintf(os.Stderr, "=== %s lock=%v bound=%d: %d / %d outcomes, %d / %d bound hits, %d / %d loop entries\n", k, c.lock, c.bound, len(outsA), len(outsB), hitsA, hitsB, len(entA), len(entB))
		for i, o := range outsA {
			fmt.Fprintf(os.Stderr, "  A%d kind=%d msg=%s pc=%d\n", i, o.kind, o.msg, len(o.st.pc))
		}
		for i, o := range outsB {
			fmt.Fprintf(os.Stderr, "  B%d kind=%d msg=%s pc=%d\n", i, o.kind, o.msg, len(o.st.pc))
		}
	}
	if len(outsA) == 0 || len(outsB) == 0 {
		return &equivResult{Status: "unavailable", Detail: "no path completes within the bound"}
	}
	if len(outsA) > equivMaxPaths || len(outsB) > equivMaxPaths {
		return &equivResult{Status: "unavailable", Detail: fmt.Sprintf("too many paths (%d / %d)", len(outsA), len(outsB))}
	}
	res = &equivResult{Status: "equivalent"}
	if hitsA+hitsB > 0 {
		res.Status = "bounded-equivalent"
		res.Bound = c.bound
	}
	base0 := len(st0.pc)
	log0 := len(st0.log)
	cmpStart := time.Now()
	var pairs func(listA, listB []Out, entries bool) *equivResult
	pairs = func(listA, listB []Out, entries bool) *equivResult {
	for ia, a := range listA {
		for ib, b := range listB {
			if entries && a.msg != b.msg {
				continue // states in which different loops are reached are not compared with each other
			}
			if time.Since(cmpStart) > 60*time.Second {
				return &equivResult{Status: "unavailable", Detail: "time budget of the comparison exhausted", Pairs: res.Pairs, Queries: res.Queries}
			}
			okKind := func(k outKind) bool { return k == oRet || k == oPanic || (c.lock && k == oCut) }
			if !okKind(a.kind) || !okKind(b.kind) {
				return &equivResult{Status: "unavailable", Detail: "a path ends at a loop cut"}
			}
			// syntactically contradictory path conditions
			neg := map[int]bool{}
			for _, t := range a.st.pc[base0:] {
				neg[mkNot(t).id] = true
			}
			contra := false
			for _, t := range b.st.pc[base0:] {
				if neg[t.id] || t.isFalse() {
					contra = true
					break
				}
			}
			if contra {
				if os.Getenv("VERIF_EQUIV_DEBUG") == "2" {
					fmt.Fprintf(os.Stderr, "  pair %d/%d skipped: contradictory path conditions\n", ia, ib)
				}
				continue
			}
			res.Pairs++
			var goal *Term
			why := ""
			if a.kind != b.kind || (a.kind == oCut && a.msg != b.msg) {
				goal = tFalse // the two path conditions must exclude each other
			} else {
				cmp := &eqCmp{x: x, sa: a.st, sb: b.st, entry: entryCells, seen: map[[2]*Cell]bool{}}
				var cs []*Term
				if a.kind == oCut && len(a.vals) != len(b.vals) {
					cs = append(cs, cmp.fail("the versions carry different variables around the loop"))
				} else if a.kind == oRet || a.kind == oCut {
					if len(a.vals) != len(b.vals) {
						return &equivResult{Status: "different", Detail: "result arity"}
					}
					for i := range a.vals {
						cs = append(cs, cmp.eq(a.vals[i], b.vals[i]))
					}
				}
				// everything both runs can see: what existed at entry, the object regions of the
				// heap model (created on demand, shared by both runs) and any other cell known to
				// both final states (a cell allocated by one run is unknown to the other)
				shared := map[*Cell]bool{}
				for cl := range entryCells {
					shared[cl] = true
				}
				for _, rc := range x.regions {
					shared[rc] = true
				}
				for cl := range a.st.store {
					if _, ok := b.st.store[cl]; ok {
						shared[cl] = true
					}
				}
				var cells []*Cell
				for cl := range shared {
					cells = append(cells, cl)
				}
				sort.Slice(cells, func(i, j int) bool { return cells[i].id < cells[j].id })
				val := func(st *State, cl *Cell) Value {
					if v, ok := st.store[cl]; ok {
						return v
					}
					return x.gstate.store[cl]
				}
				for _, cl := range cells {
					va, vb := val(a.st, cl), val(b.st, cl)
					if va == vb {
						continue
					}
					cmp.entry[cl] = true
					cs = append(cs, cmp.eq(va, vb))
				}
				// external events; calls of callees that write nothing are compared callee by
				// callee (their order among other events does not matter), everything else in order
				split := func(l []Event) (ord []Event, pure map[string][]Event) {
					pure = map[string][]Event{}
					for _, e := range l {
						if strings.HasPrefix(e.kind, "pure:") {
							pure[e.kind] = append(pure[e.kind], e)
						} else {
							ord = append(ord, e)
						}
					}
					return
				}
				la, pa := split(a.st.log[log0:])
				lb, pb := split(b.st.log[log0:])
				var pnames []string
				for n := range pa {
					pnames = append(pnames, n)
				}
				for n := range pb {
					if _, ok := pa[n]; !ok {
						pnames = append(pnames, n)
					}
				}
				sort.Strings(pnames)
				for _, n := range pnames {
					ea, eb := pa[n], pb[n]
					if len(ea) != len(eb) {
						cs = append(cs, tFalse)
						cmp.why = append(cmp.why, fmt.Sprintf("%d calls of %s against %d", len(ea), n, len(eb)))
						continue
					}
					for i := range ea {
						if len(ea[i].args) != len(eb[i].args) {
							cs = append(cs, tFalse)
							continue
						}
						for j := range ea[i].args {
							cs = append(cs, cmp.eq(ea[i].args[j], eb[i].args[j]))
						}
					}
				}
				if len(la) != len(lb) {
					cs = append(cs, tFalse)
					cmp.why = append(cmp.why, fmt.Sprintf("%d external events against %d", len(la), len(lb)))
				} else {
					for i := range la {
						if la[i].kind != lb[i].kind || len(la[i].args) != len(lb[i].args) {
							cs = append(cs, tFalse)
							cmp.why = append(cmp.why, fmt.Sprintf("event %d: %s against %s", i, la[i].kind, lb[i].kind))
							break
						}
						for j := range la[i].args {
							cs = append(cs, cmp.eq(la[i].args[j], lb[i].args[j]))
						}
					}
				}
				goal = mkAnd(cs...)
				why = strings.Join(cmp.why, "; ")
				for f := range cmp.funcs {
					if res.funcs == nil {
						res.funcs = map[*ssa.Function]bool{}
					}
					res.funcs[f] = true
				}
				for sfx := range cmp.closures {
					if res.closures == nil {
						res.closures = map[string]bool{}
					}
					res.closures[sfx] = true
				}
			}
			if os.Getenv("VERIF_EQUIV_DEBUG") == "2" {
				fmt.Fprintf(os.Stderr, "  pair %d/%d goal trivially true: %v\n", ia, ib, goal.isTrue())
				if ia == 5 && ib == 17 {
					for i := range a.vals {
						fmt.Fprintf(os.Stderr, "    A val %d: %s\n    B val %d: %s\n", i, valueString(a.vals[i]), i, valueString(b.vals[i]))
						if ifc, ok := a.vals[i].(*Iface); ok {
							if p, ok := ifc.val.(*Ptr); ok && p.cell != nil {
								fmt.Fprintf(os.Stderr, "    A content: %s\n", valueString(a.st.store[p.cell]))
							}
						}
						if ifc, ok := b.vals[i].(*Iface); ok {
							if p, ok := ifc.val.(*Ptr); ok && p.cell != nil {
								fmt.Fprintf(os.Stderr, "    B content: %s\n", valueString(b.st.store[p.cell]))
							}
						}
					}
				}
			}
			if goal.isTrue() {
				continue
			}
			hyp := append(append([]*Term{}, x.assumptions(a.st)...), x.assumptions(b.st)...)
			asserts := append(hyp, mkNot(goal))
			res.Queries++
			file := ""
			if c.outDir != "" {
				file = filepath.Join(c.outDir, "equiv", sanitize(k.String())+fmt.Sprintf("_%d_%d.smt2", ia, ib))
			}
			r := solveQuery(asserts, []string{"equivalence with the verified baseline: " + k.String()}, file, 25*time.Second, false)
			switch r.status {
			case "unsat":
			case "sat":
				if os.Getenv("VERIF_EQUIV_DEBUG") != "" {
					fmt.Fprintf(os.Stderr, "--- %s pair %d/%d\nA pc:\n", k, ia, ib)
					for _, t := range a.st.pc[base0:] {
						fmt.Fprintf(os.Stderr, "   %s\n", t)
					}
					fmt.Fprintf(os.Stderr, "B pc:\n")
					for _, t := range b.st.pc[base0:] {
						fmt.Fprintf(os.Stderr, "   %s\n", t)
					}
					fmt.Fprintf(os.Stderr, "A log:\n")
					for _, e := range a.st.log[log0:] {
						fmt.Fprintf(os.Stderr, "   %s\n", e.kind)
					}
					fmt.Fprintf(os.Stderr, "B log:\n")
					for _, e := range b.st.log[log0:] {
						fmt.Fprintf(os.Stderr, "   %s\n", e.kind)
					}
				}
				d := fmt.Sprintf("paths %d/%d: the solver finds inputs on which the function and its verified predecessor differ", ia, ib)
				if why != "" {
					d += " (" + why + ")"
				}
				return &equivResult{Status: "different", Detail: d, Pairs: res.Pairs, Queries: res.Queries}
			default:
				return &equivResult{Status: "unavailable", Detail: fmt.Sprintf("paths %d/%d: %s", ia, ib, r.status), Pairs: res.Pairs, Queries: res.Queries}
			}
		}
	}
	return nil
	}
	if bad := pairs(outsA, outsB, false); bad != nil {
		return bad
	}
	if c.lock {
		// the states in which the two versions reach each cut loop
		toOuts := func(recs []lockRec) []Out {
			var o []Out
			for _, r := range recs {
				o = append(o, Out{st: r.st, kind: oCut, vals: r.vals, msg: "reached " + r.key})
			}
			return o
		}
		if bad := pairs(toOuts(entA), toOuts(entB), true); bad != nil {
			bad.Detail = "state in which a loop is reached: " + bad.Detail
			return bad
		}
	}
	if res.Pairs == 0 {
		return &equivResult{Status: "unavailable", Detail: "no compatible pair of paths"}
	}
	return res
}

// loopsCorrespond: the data-dependent loops of the two versions are the same
// loops (same function, same position) carrying variables of the same types.
func (c *equivChecker) loopsCorrespond(fnNew, fnBase *ssa.Function) bool {
	if len(c.symA) != len(c.symB) {
		return false
	}
	for n := range c.symA {
		if !c.symB[n] {
			return false
		}
	}
	x := c.eng.x
	qual := func(p *types.Package) string { return p.Name() }
	sig := func(fn *ssa.Function, ord int) (string, bool) {
		for h, l := range x.loops(fn) {
			if l.ordinal != ord {
				continue
			}
			var ts []string
			for _, in := range h.Instrs {
				phi, ok := in.(*ssa.Phi)
				if !ok {
					break
				}
				ts = append(ts, types.TypeString(phi.Type(), qual))
			}
			sort.Strings(ts)
			return strings.Join(ts, ","), true
		}
		return "", false
	}
	// resolve each loop name "pkg.fn#ord" in both versions
	find := func(name string, base bool) *ssa.Function {
		for fn := range ssautilAllFunctions(x.prog) {
			n := fn.String()
			if base != strings.Contains(n, basePrefix) {
				continue
			}
			if strings.ReplaceAll(n, basePrefix, "") == name {
				return fn
			}
		}
		return nil
	}
	for n := range c.symA {
		i := strings.LastIndex(n, "#")
		var ord int
		fmt.Sscanf(n[i+1:], "%d", &ord)
		fa := find(n[:i], false)
		fb := find(n[:i], true)
		if fa == nil {
			return false
		}
		if fb == nil {
			fb = fa // an unchanged function: the same loop in both versions
		}
		sa, oka := sig(fa, ord)
		sb, okb := sig(fb, ord)
		if os.Getenv("VERIF_EQUIV_DEBUG") != "" {
			fmt.Fprintf(os.Stderr, "loop %s: %v [%s] / %v [%s]\n", n, fa, sa, fb, sb)
		}
		if !oka || !okb || sa != sb {
			return false
		}
	}
	return true
}

// eqCmp builds the condition "these two values, each in its own final state,
// are indistinguishable".
type eqCmp struct {
	x      *Exec
	sa, sb *State
	entry  map[*Cell]bool
	seen   map[[2]*Cell]bool
	bad    string
	why    []string
	depth  int
	closures map[string]bool // closures whose bodies must be compared as well (name suffixes "$n")
	funcs    map[*ssa.Function]bool // changed named functions used as values
}

// fail: the two values cannot be shown equal structurally. The pair of paths is
// then acceptable only if the solver shows that it cannot occur.
func (c *eqCmp) fail(f string, a ...interface{}) *Term {
	c.why = append(c.why, fmt.Sprintf(f, a...))
	return tFalse
}

func (c *eqCmp) eq(a, b Value) *Term {
	if a == b {
		return tTrue
	}
	c.depth++
	defer func() { c.depth-- }()
	if c.depth > 60 {
		return c.fail("structure too deep")
	}
	switch va := a.(type) {
	case nil:
		if b == nil {
			return tTrue
		}
		return c.fail("absent value against %s", valueString(b))
	case *Term:
		if vb, ok := b.(*Term); ok && va.sort == vb.sort {
			return mkEq(va, vb)
		}
	case *Tuple:
		if vb, ok := b.(*Tuple); ok && len(va.el) == len(vb.el) {
			var cs []*Term
			for i := range va.el {
				cs = append(cs, c.eq(va.el[i], vb.el[i]))
			}
			return mkAnd(cs...)
		}
	case *Fwd:
		if vb, ok := b.(*Fwd); ok {
			return c.eq(va.to, vb.to)
		}
	case *Ptr:
		vb, ok := b.(*Ptr)
		if !ok {
			break
		}
		if va.cell == nil || vb.cell == nil {
			if va.cell == nil && vb.cell == nil {
				return tTrue
			}
			return c.veq(a, b)
		}
		if va.cell == vb.cell {
			return c.veq(a, b)
		}
		if c.entry[va.cell] || c.entry[vb.cell] {
			return tFalse // distinct objects, at least one of which the caller knows
		}
		// two objects allocated by the two runs: compared by content
		if (va.sym == nil) != (vb.sym == nil) || va.mayNil != vb.mayNil {
			return c.fail("pointers of different kinds into fresh objects (%s / %s)", valueString(va), valueString(vb))
		}
		var symEq *Term = tTrue
		if va.sym != nil {
			symEq = mkEq(va.sym, vb.sym)
		}
		ca, oka := c.sa.store[va.cell]
		cb, okb := c.sb.store[vb.cell]
		if !oka || !okb {
			return c.fail("fresh object without contents")
		}
		if len(va.path) == 0 && len(vb.path) == 0 {
			key := [2]*Cell{va.cell, vb.cell}
			if c.seen[key] {
				return symEq
			}
			c.seen[key] = true
			return mkAnd(symEq, c.eq(ca, cb))
		}
		// pointers into the middle of two fresh objects (a local array element against a local
		// variable): what matters is what they point to
		if _, isA := ca.(*SymArr); isA {
			return c.fail("pointer into a fresh symbolic array")
		}
		if _, isB := cb.(*SymArr); isB {
			return c.fail("pointer into a fresh symbolic array")
		}
		subA, ok1 := getPathSafe(ca, va.path)
		subB, ok2 := getPathSafe(cb, vb.path)
		if !ok1 || !ok2 {
			return c.fail("pointer outside its fresh object")
		}
		return mkAnd(symEq, c.eq(subA, subB))
	case *SliceV:
		vb, ok := b.(*SliceV)
		if !ok {
			break
		}
		if va.cell == nil || vb.cell == nil {
			if va.cell == nil && vb.cell == nil {
				return tTrue
			}
			// nil against empty: distinguishable only by == nil; lengths must agree
			return mkAnd(mkEq(sliceLen(va), sliceLen(vb)), tFalse)
		}
		cs := []*Term{mkEq(va.len, vb.len)}
		if va.cell == vb.cell {
			cs = append(cs, mkEq(va.off, vb.off))
			return mkAnd(cs...)
		}
		ca, cb := c.sa.store[va.cell], c.sb.store[vb.cell]
		ta, oka := ca.(*Tuple)
		tb, okb := cb.(*Tuple)
		na, ca1 := concreteInt(va.len)
		nb, cb1 := concreteInt(vb.len)
		oa, ca2 := concreteInt(va.off)
		ob, cb2 := concreteInt(vb.off)
		if oka && okb && ca1 && cb1 && ca2 && cb2 {
			if na != nb {
				return tFalse
			}
			for i := 0; i < na; i++ {
				if oa+i >= len(ta.el) || ob+i >= len(tb.el) {
					return c.fail("slice beyond its backing array")
				}
				cs = append(cs, c.eq(ta.el[oa+i], tb.el[ob+i]))
			}
			return mkAnd(cs...)
		}
		sa, oka := ca.(*SymArr)
		sb, okb := cb.(*SymArr)
		if oka && okb {
			return mkAnd(append(cs, mkEq(va.off, vb.off), c.symArrEq(sa, sb))...)
		}
		return c.fail("slices with backing stores of different kinds")
	case *SymArr:
		if vb, ok := b.(*SymArr); ok {
			return c.symArrEq(va, vb)
		}
	case *Iface:
		switch vb := b.(type) {
		case *Opaque:
			if vb.nilT != nil {
				return c.eq(b, a)
			}
			return c.veq(a, b)
		case *Iface:
			if va.dyn == nil || vb.dyn == nil {
				return mkBool(va.dyn == nil && vb.dyn == nil)
			}
			if !types.Identical(va.dyn, vb.dyn) {
				return tFalse
			}
			return c.eq(va.val, vb.val)
		default:
			return c.veq(a, b)
		}
	case *Str:
		if vb, ok := b.(*Str); ok {
			if va.sym == nil && vb.sym == nil {
				return mkBool(va.s == vb.s)
			}
			if va.sym != nil && vb.sym != nil {
				return mkEq(va.sym, vb.sym)
			}
		}
	case *Opaque:
		if ib, ok := b.(*Iface); ok && va.nilT != nil {
			if ib.dyn == nil {
				return va.nilT // an error of unknown nil-ness against nil
			}
			return c.fail("an unknown error value against a concrete one")
		}
		if vb, ok := b.(*Opaque); ok {
			if va.tag != vb.tag || va.nil != vb.nil {
				return tFalse
			}
			var cs []*Term
			if (va.nilT == nil) != (vb.nilT == nil) || (va.id == nil) != (vb.id == nil) {
				return c.fail("opaque values of different shapes")
			}
			if va.nilT != nil {
				cs = append(cs, mkEq(va.nilT, vb.nilT))
			}
			if va.id != nil {
				cs = append(cs, mkEq(va.id, vb.id))
			}
			return mkAnd(cs...)
		}
	case *AbsObj:
		if _, ok := b.(*AbsObj); ok {
			return c.veq(a, b)
		}
	case *Func:
		if vb, ok := b.(*Func); ok {
			if va.abs != nil || vb.abs != nil {
				return mkBool(va.abs == vb.abs)
			}
			if va.builtin != "" || vb.builtin != "" {
				return mkBool(va.builtin == vb.builtin)
			}
			if baseName0(va.fn) != baseName0(vb.fn) || len(va.bind) != len(vb.bind) {
				return tFalse
			}
			if va.fn != vb.fn && va.fn.Parent() == nil {
				// a changed function against its copy, used as a value (started, deferred, stored):
				// the same value only if the two are equivalent (checked after this comparison)
				if c.funcs == nil {
					c.funcs = map[*ssa.Function]bool{}
				}
				c.funcs[va.fn] = true
			}
			if va.fn != vb.fn && va.fn.Parent() != nil {
				// a closure of the changed function against the closure of its copy: the same
				// value only if their bodies are equivalent too (checked after this comparison)
				root := va.fn
				for root.Parent() != nil {
					root = root.Parent()
				}
				if c.closures == nil {
					c.closures = map[string]bool{}
				}
				c.closures[strings.TrimPrefix(va.fn.Name(), root.Name())] = true
			}
			var cs []*Term
			for i := range va.bind {
				cs = append(cs, c.eq(va.bind[i], vb.bind[i]))
			}
			return mkAnd(cs...)
		}
	case *MapV:
		if vb, ok := b.(*MapV); ok {
			if va.cell != nil && va.cell == vb.cell {
				return c.eq(c.sa.store[va.cell], c.sb.store[vb.cell])
			}
			if va.cell == nil && vb.cell == nil && va.nilmap == vb.nilmap && len(va.keys) == len(vb.keys) {
				var cs []*Term
				for _, k := range va.keys {
					ea, eb := va.entries[k], vb.entries[k]
					cs = append(cs, c.eq(ea[1], eb[1]))
				}
				return mkAnd(cs...)
			}
		}
	case *SymMap:
		if vb, ok := b.(*SymMap); ok && va.name == vb.name && len(va.writes) == len(vb.writes) {
			var cs []*Term
			for i := range va.writes {
				wa, wb := va.writes[i], vb.writes[i]
				if len(wa.key) != len(wb.key) {
					return c.fail("map writes with keys of different shapes")
				}
				for j := range wa.key {
					cs = append(cs, mkEq(wa.key[j], wb.key[j]))
				}
				cs = append(cs, c.eq(wa.val, wb.val))
			}
			return mkAnd(cs...)
		}
	case *Poison:
		if _, ok := b.(*Poison); ok {
			return tTrue
		}
	}
	return c.fail("values of different or unmodelled kinds: %T against %T", a, b)
}

// symArrEq: two symbolic backing stores are equal when they are the same base
// array with the same writes in the same order (sufficient, not necessary).
func (c *eqCmp) symArrEq(a, b *SymArr) *Term {
	if a == b {
		return tTrue
	}
	if normArrName(a.name) != normArrName(b.name) || len(a.pre) != len(b.pre) || len(a.writes) != len(b.writes) {
		return c.fail("symbolic arrays with different write histories (%s, %d writes / %s, %d writes)", a.name, len(a.writes), b.name, len(b.writes))
	}
	var cs []*Term
	for i := range a.pre {
		cs = append(cs, mkEq(a.pre[i], b.pre[i]))
	}
	for i := range a.writes {
		wa, wb := a.writes[i], b.writes[i]
		if (wa.src == nil) != (wb.src == nil) {
			return c.fail("symbolic arrays with different write histories")
		}
		if wa.src != nil {
			cs = append(cs, c.symArrEq(wa.src, wb.src), mkEq(wa.srcOff, wb.srcOff), mkEq(wa.n, wb.n), mkEq(wa.idx, wb.idx))
			continue
		}
		cs = append(cs, mkEq(wa.idx, wb.idx), c.eq(wa.val, wb.val))
	}
	return mkAnd(cs...)
}

func sliceLen(s *SliceV) *Term {
	if s.cell == nil || s.len == nil {
		return mkInt(0)
	}
	return s.len
}

// baseName0: the name of a function value without the baseline prefix (a
// closure of the copy corresponds to the closure of the original).
func baseName0(fn *ssa.Function) string {
	if fn == nil {
		return ""
	}
	return strings.ReplaceAll(fn.String(), basePrefix, "")
}

// normArrName: arrays made during a run (zero-filled, literal, nil) are named
// after allocation counters, which differ between the two runs.
func normArrName(n string) string {
	for _, p := range []string{"zero", "lit", "nil"} {
		if strings.HasPrefix(n, p) {
			rest := strings.TrimLeft(n[len(p):], "0123456789")
			if rest == "" || strings.HasPrefix(rest, "_") {
				return p + rest
			}
		}
	}
	return n
}

//-----------------------------------------------------------------------------
// Calls inside a bounded equivalence run.
//
// A callee that is the same in both versions (nothing it reaches changed), or
// whose two versions have already been shown equivalent, is not executed: the
// call becomes an event "call:<function>" carrying a snapshot of everything
// the callee can see through its arguments; its results are the n-th unknowns
// of that callee (the same variables in both runs), and - unless the frame
// analysis shows that the callee writes nothing visible - everything reachable
// through its pointer and slice arguments is replaced in place by unknowns.
// Small loop-free unchanged helpers are still inlined.

const (
	absNone = iota
	absPure
	absImpure
)

func (c *equivChecker) simple(fn *ssa.Function) bool {
	if len(fn.Blocks) > 3 || len(c.eng.x.loops(fn)) > 0 {
		return false
	}
	for _, b := range fn.Blocks {
		for _, in := range b.Instrs {
			if call, ok := in.(ssa.CallInstruction); ok {
				if callee, ok := call.Common().Value.(*ssa.Function); ok && callee == fn {
					return false
				}
			}
		}
	}
	return true
}

func (c *equivChecker) keyOfSSA(fn *ssa.Function) (declKey, bool) {
	if fn == nil || fn.Parent() != nil {
		return declKey{}, false
	}
	fo, ok := fn.Object().(*types.Func)
	if !ok || fo == nil {
		return declKey{}, false
	}
	k, ok := keyOfFunc(fo)
	if !ok {
		return declKey{}, false
	}
	k.name = strings.TrimPrefix(k.name, basePrefix)
	return k, true
}

// abstraction decides how a call of fn is treated inside a comparison.
func (c *equivChecker) abstraction(fn *ssa.Function) (string, int) {
	if fn.Blocks == nil {
		return "", absNone
	}
	k, ok := c.keyOfSSA(fn)
	if !ok {
		return "", absNone
	}
	how := absImpure
	if c.fa != nil && len(c.fa.summary(fn)) == 0 {
		how = absPure
	}
	if _, inBase := c.base.decls[k]; !inBase {
		return "", absNone // a helper the verified version does not have: inlined
	}
	if k == c.current || c.inprog[k] {
		// a recursive call (direct, or through a function whose comparison is under way): by
		// induction on the depth of the recursion the two versions agree on it, so it is the
		// same unknown function of what it can see in both runs
		return "call:" + k.String(), how
	}
	if !c.base.tainted[k] {
		if c.simple(fn) {
			return "", absNone
		}
		return "call:" + k.String(), how
	}
	if r, ok := c.memo[k]; ok && r.carries() {
		return "call:" + k.String(), how
	}
	return "", absNone
}

func getPathSafe(v Value, path []int) (out Value, ok bool) {
	defer func() {
		if r := recover(); r != nil {
			ok = false
		}
	}()
	return getPath(v, path), true
}

// deepSnap: what a callee can see through v, to a bounded depth.
func (x *Exec) deepSnap(st *State, v Value, depth int, seen map[*Cell]bool) Value {
	switch t := v.(type) {
	case *Ptr:
		if t.cell == nil || depth == 0 || seen[t.cell] {
			return v
		}
		cur, ok := st.store[t.cell]
		if !ok {
			return v
		}
		switch cc := cur.(type) {
		case *SymArr, *SymMap:
			return &Tuple{el: []Value{v, cc}}
		case *Fwd:
			return &Tuple{el: []Value{v, x.deepSnap(st, cc.to, depth-1, seen)}}
		}
		sub, ok := getPathSafe(cur, t.path)
		if !ok {
			return v
		}
		seen[t.cell] = true
		r := &Tuple{el: []Value{v, x.deepSnap(st, sub, depth-1, seen)}}
		delete(seen, t.cell)
		return r
	case *SliceV:
		if t.cell == nil || depth == 0 {
			return v
		}
		cur, ok := st.store[t.cell]
		if !ok {
			return v
		}
		if tu, ok := cur.(*Tuple); ok {
			off, o1 := concreteInt(t.off)
			ln, o2 := concreteInt(t.len)
			if o1 && o2 && off >= 0 && off+ln <= len(tu.el) {
				el := make([]Value, ln)
				for i := 0; i < ln; i++ {
					el[i] = x.deepSnap(st, tu.el[off+i], depth-1, seen)
				}
				return &Tuple{el: []Value{v, &Tuple{el: el}}}
			}
			return &Tuple{el: []Value{v, tu}}
		}
		return &Tuple{el: []Value{v, cur}}
	case *Tuple:
		el := make([]Value, len(t.el))
		same := true
		for i := range t.el {
			el[i] = x.deepSnap(st, t.el[i], depth, seen)
			if el[i] != t.el[i] {
				same = false
			}
		}
		if same {
			return v
		}
		return &Tuple{typ: t.typ, el: el}
	case *Iface:
		if t.dyn == nil {
			return v
		}
		nv := x.deepSnap(st, t.val, depth, seen)
		if nv == t.val {
			return v
		}
		return &Iface{dyn: t.dyn, val: nv, styp: t.styp}
	case *MapV:
		if t.cell != nil {
			if cur, ok := st.store[t.cell]; ok {
				return &Tuple{el: []Value{v, cur}}
			}
		}
	}
	return v
}

// havocReach replaces, in place, everything reachable through v by unknowns.
func (x *Exec) havocReach(st *State, v Value, name string, depth int, seen map[*Cell]bool) {
	switch t := v.(type) {
	case *Ptr:
		if t.cell == nil || depth == 0 || seen[t.cell] {
			return
		}
		seen[t.cell] = true
		old, ok := st.store[t.cell]
		if !ok {
			return
		}
		switch oc := old.(type) {
		case *SymArr:
			st.store[t.cell] = x.havocLike(st, oc, nil, name)
			st.wlog = append(st.wlog, t.cell.id)
			return
		case *Fwd:
			x.havocReach(st, oc.to, name+".f", depth-1, seen)
			return
		case *SymMap:
			return
		}
		sub, ok := getPathSafe(old, t.path)
		if !ok {
			return
		}
		x.havocReach(st, sub, name+".d", depth-1, seen) // what it points to gets names of its own
		var pt types.Type
		if t.cell.typ != nil && len(t.path) == 0 {
			pt = t.cell.typ
		}
		// re-read: the recursion may have changed the cell
		old = st.store[t.cell]
		sub, ok = getPathSafe(old, t.path)
		if !ok {
			return
		}
		st.store[t.cell] = setPath(old, t.path, x.havocLike(st, sub, pt, name))
		st.wlog = append(st.wlog, t.cell.id)
	case *SliceV:
		if t.cell == nil || depth == 0 || seen[t.cell] {
			return
		}
		seen[t.cell] = true
		old, ok := st.store[t.cell]
		if !ok {
			return
		}
		if tu, ok := old.(*Tuple); ok {
			for i := range tu.el {
				x.havocReach(st, tu.el[i], fmt.Sprintf("%s.e%d", name, i), depth-1, seen)
			}
		}
		st.store[t.cell] = x.havocLike(st, st.store[t.cell], nil, name+"$arr")
		st.wlog = append(st.wlog, t.cell.id)
	case *Tuple:
		for i := range t.el {
			x.havocReach(st, t.el[i], fmt.Sprintf("%s.%d", name, i), depth, seen)
		}
	case *Iface:
		if t.dyn != nil {
			x.havocReach(st, t.val, name, depth, seen)
		}
	}
}

// flattenSeen: the terms a callee's result can depend on, from the snapshots of its arguments
// (object identities are left out: only contents). False when something is not a term
// (a symbolic array, an abstract shape, a function value).
func flattenSeen(v Value, out *[]*Term) bool {
	switch t := v.(type) {
	case nil:
		return true
	case *Term:
		*out = append(*out, t)
		return true
	case *Tuple:
		if t.typ == nil && len(t.el) == 2 {
			// a snapshot pair (pointer or slice, what it holds): the contents stand for the object
			switch h := t.el[0].(type) {
			case *Ptr:
				if h.sym != nil {
					*out = append(*out, h.sym)
				}
				return flattenSeen(t.el[1], out)
			case *SliceV:
				*out = append(*out, h.len)
				return flattenSeen(t.el[1], out)
			}
		}
		for _, e := range t.el {
			if !flattenSeen(e, out) {
				return false
			}
		}
		return true
	case *Ptr:
		if t.cell == nil {
			*out = append(*out, mkInt(0))
			return true
		}
		return false // an object whose contents the snapshot could not read
	case *SliceV:
		if t.cell == nil {
			*out = append(*out, mkInt(0))
			return true
		}
		return false
	case *Str:
		if t.sym != nil {
			*out = append(*out, t.sym)
			return true
		}
		return false
	case *Iface:
		if t.dyn == nil {
			*out = append(*out, mkInt(0))
			return true
		}
		return flattenSeen(t.val, out)
	}
	return false
}

func (x *Exec) abstractCall(st *State, name string, fn *ssa.Function, args []Value, impure bool) []Out {
	snap := make([]Value, len(args))
	for i, a := range args {
		snap[i] = x.deepSnap(st, a, 6, map[*Cell]bool{})
	}
	if !impure {
		// a callee that writes nothing visible and sees only terms: its results are uninterpreted
		// functions of what it sees - however often and in whatever order it is called
		var flat []*Term
		ok := true
		for _, sv := range snap {
			if !flattenSeen(sv, &flat) {
				ok = false
				break
			}
		}
		res := fn.Signature.Results()
		for i := 0; ok && i < res.Len(); i++ {
			if _, isPtr := res.At(i).Type().Underlying().(*types.Pointer); isPtr || isErrorType(res.At(i).Type()) || foreignType(res.At(i).Type()) {
				ok = false
			}
			switch res.At(i).Type().Underlying().(type) {
			case *types.Slice, *types.Map, *types.Interface, *types.Signature, *types.Chan:
				ok = false
			}
		}
		if ok {
			vals := make([]Value, res.Len())
			func() {
				defer func() {
					if r := recover(); r != nil {
						if _, isE := r.(engineErr); isE {
							ok = false
							return
						}
						panic(r)
					}
				}()
				for i := 0; i < res.Len(); i++ {
					vals[i] = x.ufResult(st, fmt.Sprintf("%s#%d", sanitize(name), i), res.At(i).Type(), flat)
				}
			}()
			if ok {
				return []Out{{st: st, vals: vals}}
			}
		}
	}
	if impure {
		st.log = append(st.log, Event{kind: name, args: snap})
	} else {
		// a callee that writes nothing: its calls are compared per callee, not in program order
		st.log = append(st.log, Event{kind: "pure:" + name, args: snap})
	}
	st.version++
	if impure {
		seen := map[*Cell]bool{}
		hn := x.occName(st, sanitize(name)+"$w")
		for i, a := range args {
			x.havocReach(st, a, fmt.Sprintf("%s.a%d", hn, i), 6, seen)
		}
	}
	res := fn.Signature.Results()
	vals := make([]Value, res.Len())
	on := x.occName(st, name)
	for i := 0; i < res.Len(); i++ {
		vals[i] = x.havocResult(st, res.At(i).Type(), fmt.Sprintf("%s.r%d", on, i))
	}
	st.log[len(st.log)-1].res = vals
	return []Out{{st: st, vals: vals}}
}

// occName: in a bounded equivalence run, the name of the next unknown of kind
// name on this path (see occMarker); elsewhere name itself.
func (x *Exec) occName(st *State, name string) string {
	if !x.noModular {
		return name
	}
	n := st.occ[name]
	m := make(map[string]int, len(st.occ)+1)
	for k, v := range st.occ {
		m[k] = v
	}
	m[name] = n + 1
	st.occ = m
	return fmt.Sprintf("%s%s%d", name, occMarker, n)
}

// cuttableLoops: names (function#ordinal) of the loops that have the same
// header shape in both versions, and of all loops of unchanged functions.
func (c *equivChecker) cuttableLoops() map[string]bool {
	out := map[string]bool{}
	x := c.eng.x
	un := c.base.unchangedLoops(c.repo, c.current)
	changedFn := map[string][]bool{}
	known := map[string]bool{}
	for r, same := range un {
		if fn := c.lookup(r, ""); fn != nil {
			changedFn[fn.String()] = same
			known[fn.String()] = true
		}
	}
	mark := func(names map[string]bool) {
		for n := range names {
			i := strings.LastIndex(n, "#")
			fnName := n[:i]
			var ord int
			fmt.Sscanf(n[i+1:], "%d", &ord)
			if same, ok := changedFn[fnName]; ok || known[fnName] {
				if same != nil && ord < len(same) && same[ord] {
					out[n] = true
				}
				continue
			}
			// not a changed declaration that exists in both versions: an unchanged function
			// (same loop in both runs) or a helper only one version has (never cut)
			if c.fnInBaseline(fnName) {
				out[n] = true
			}
		}
	}
	mark(c.symA)
	mark(c.symB)
	_ = x
	return out
}

// fnInBaseline: does the function with this SSA name exist in the snapshot and in the tree?
// (A helper one version does not have is never cut: its loop has no counterpart by position.)
func (c *equivChecker) fnInBaseline(ssaName string) bool {
	for k := range c.base.decls {
		if _, stillThere := c.base.newDecls[k]; !stillThere {
			continue
		}
		name := modulePath + "/" + k.dir + "." + k.name
		if k.recv != "" {
			if ssaName == "(*"+modulePath+"/"+k.dir+"."+k.recv+")."+k.name || ssaName == "("+modulePath+"/"+k.dir+"."+k.recv+")."+k.name {
				return true
			}
			continue
		}
		if ssaName == name {
			return true
		}
	}
	return false
}

// veq: equality of two values as the engine's == would decide it; what the
// engine cannot compare is "not shown equal".
func (c *eqCmp) veq(a, b Value) (t *Term) {
	defer func() {
		if r := recover(); r != nil {
			if _, ok := r.(engineErr); ok {
				t = c.fail("values the engine cannot compare (%T, %T)", a, b)
				return
			}
			panic(r)
		}
	}()
	return c.x.valuesEqual(a, b)
}

// assumeRequires assumes the unquantified preconditions of contract c.under on
// the common entry state of the two runs.
func (c *equivChecker) assumeRequires(st *State, fnNew, fnBase *ssa.Function, args, bind []Value) {
	x := c.eng.x
	var ct *Contract
	for _, k := range c.eng.cs.contracts {
		if k.label() == c.under {
			ct = k
		}
	}
	c.assumed = 0
	if ct == nil || ct.lemma {
		return
	}
	env := &Env{vars: map[string]Value{}, pkg: x.pkgByNm[ct.pkg]}
	for i, p := range fnBase.Params {
		env.vars[p.Name()] = args[i] // the names the contract was written with
	}
	for i, p := range fnNew.Params {
		if _, ok := env.vars[p.Name()]; !ok {
			env.vars[p.Name()] = args[i]
		}
	}
	for i, fv := range fnBase.FreeVars {
		if i < len(bind) {
			if p, ok := bind[i].(*Ptr); ok && p.cell != nil {
				env.vars[fv.Name()] = st.store[p.cell]
			}
		}
	}
	x.curEnv = env
	x.curInputs = map[string]Value{}
	try := func(f func()) (ok bool) {
		defer func() {
			if r := recover(); r != nil {
				if _, isE := r.(engineErr); isE {
					ok = false
					return
				}
				panic(r)
			}
		}()
		f()
		return true
	}
	x.specMode++
	defer func() { x.specMode-- }()
	for _, l := range ct.prelets {
		l := l
		try(func() { env.vars[l.name] = x.eval(st, env, l.expr) })
	}
	for _, cl := range ct.requires {
		if len(cl.vars) > 0 {
			continue
		}
		cl := cl
		if try(func() { st.assume(x.evalBool(st, env, cl.expr)) }) {
			c.assumed++
		}
	}
}

// checkUnder compares k with its predecessor under the preconditions of the
// contract labelled label (used when the unconditional comparison fails).
func (c *equivChecker) checkUnder(k declKey, label string) *equivResult {
	if c.memoUnder == nil {
		c.memoUnder = map[string]*equivResult{}
	}
	mk := k.String() + "|" + label
	if r, ok := c.memoUnder[mk]; ok {
		return r
	}
	if c.started.IsZero() {
		c.started = time.Now()
	}
	if time.Since(c.started) > equivBudget || c.err != nil || c.eng == nil {
		r := &equivResult{Status: "unavailable", Detail: "time budget of the equivalence fallback exhausted"}
		c.memoUnder[mk] = r
		return r
	}
	t0 := time.Now()
	saved, had := c.memo[k]
	delete(c.memo, k)
	c.under = label
	r := c.check1(k)
	c.under = ""
	if had {
		c.memo[k] = saved
	} else {
		delete(c.memo, k)
	}
	if r.carries() {
		if c.assumed == 0 {
			// nothing could be assumed: this is the unconditional comparison again
			r = &equivResult{Status: "unavailable", Detail: "no precondition of " + label + " could be assumed"}
		} else {
			r.Detail = strings.TrimSpace(r.Detail + fmt.Sprintf(" under %d precondition(s) of %s", c.assumed, label))
		}
	}
	r.Ms = time.Since(t0).Milliseconds()
	c.memoUnder[mk] = r
	return r
}
