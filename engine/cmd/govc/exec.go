package main

// Forward symbolic execution of go/ssa function bodies.

import (
	"fmt"
	"go/constant"
	"go/token"
	"go/types"
	"math"
	"math/big"
	"strings"
	"time"

	"golang.org/x/tools/go/ssa"
)

const modulePath = "github.com/deadsy/sdfx"

type outKind int

const (
	oRet outKind = iota
	oPanic
	oStopped // reached Frame.stopAt
	oCut     // path ended at a loop cut (back edge after invariant check)
)

type Out struct {
	st   *State
	vals []Value
	kind outKind
	prev *ssa.BasicBlock
	fr   *Frame
	msg  string
}

type Frame struct {
	fn     *ssa.Function
	regs   map[ssa.Value]Value
	env    map[string]envEntry
	stopAt *ssa.BasicBlock
	depth  int
	defers []*ssa.Defer
	dregs  [][]Value // evaluated defer args
	loops  map[*ssa.BasicBlock]bool // loop headers already cut on this path
	ct     *Contract                // contract being verified when this is the top frame
	unroll int                      // loop header visits on this path (unrolling guard)
	visits map[*ssa.BasicBlock]int  // bounded runs: visits of each loop header since its loop was entered
	lockKey    map[*ssa.BasicBlock]string // lockstep: name of the cut of each loop header on this path
	lockFresh  map[*ssa.BasicBlock][]*Cell // lockstep: cells written by the cut loop that this run allocated
	lockPerm   map[*ssa.BasicBlock][]int  // lockstep: position of each header phi in the common order
	rangeAlias map[*ssa.BasicBlock]bool // counting loops whose variable is also visible as rangeindex+1
	iterSig map[*ssa.BasicBlock]string // bounded runs: branches taken in the current iteration of each loop
	prevSig map[*ssa.BasicBlock]string // ... and in the previous one
	forked map[*ssa.BasicBlock]bool // bounded runs: loops (by header) inside which a symbolic branch was forked
	skipHeader *ssa.BasicBlock      // header whose loop-cut processing was just done
	preSt  []*State                 // states at entry of the cut loops (innermost last)
	preFr  []*Frame
}

type envEntry struct {
	v    Value
	addr bool
}

func (f *Frame) clone() *Frame {
	n := &Frame{fn: f.fn, regs: make(map[ssa.Value]Value, len(f.regs)+8), env: make(map[string]envEntry, len(f.env)), stopAt: f.stopAt, depth: f.depth, ct: f.ct, unroll: f.unroll, preSt: f.preSt[:len(f.preSt):len(f.preSt)], preFr: f.preFr[:len(f.preFr):len(f.preFr)]}
	for k, v := range f.regs {
		n.regs[k] = v
	}
	for k, v := range f.env {
		n.env[k] = v
	}
	n.defers = f.defers[:len(f.defers):len(f.defers)]
	n.dregs = f.dregs[:len(f.dregs):len(f.dregs)]
	if f.visits != nil {
		n.visits = make(map[*ssa.BasicBlock]int, len(f.visits))
		for k, v := range f.visits {
			n.visits[k] = v
		}
	}
	n.rangeAlias = f.rangeAlias
	if f.lockKey != nil {
		n.lockKey = make(map[*ssa.BasicBlock]string, len(f.lockKey))
		for k, v := range f.lockKey {
			n.lockKey[k] = v
		}
		n.lockPerm = make(map[*ssa.BasicBlock][]int, len(f.lockPerm))
		for k, v := range f.lockPerm {
			n.lockPerm[k] = v
		}
		n.lockFresh = make(map[*ssa.BasicBlock][]*Cell, len(f.lockFresh))
		for k, v := range f.lockFresh {
			n.lockFresh[k] = v
		}
	}
	if f.iterSig != nil {
		n.iterSig = make(map[*ssa.BasicBlock]string, len(f.iterSig))
		for k, v := range f.iterSig {
			n.iterSig[k] = v
		}
	}
	if f.prevSig != nil {
		n.prevSig = make(map[*ssa.BasicBlock]string, len(f.prevSig))
		for k, v := range f.prevSig {
			n.prevSig[k] = v
		}
	}
	if f.forked != nil {
		n.forked = make(map[*ssa.BasicBlock]bool, len(f.forked))
		for k, v := range f.forked {
			n.forked[k] = v
		}
	}
	if f.loops != nil {
		n.loops = map[*ssa.BasicBlock]bool{}
		for k := range f.loops {
			n.loops[k] = true
		}
	}
	return n
}

type Exec struct {
	prog     *ssa.Program
	pkgByNm  map[string]*ssa.Package
	globals  map[*ssa.Global]*Cell
	gstate   *State
	initRun  map[*ssa.Package]bool
	postdom  map[*ssa.Function]map[*ssa.BasicBlock]*ssa.BasicBlock
	loopInfo map[*ssa.Function]map[*ssa.BasicBlock]*loopT

	// per-run options
	mergeIf      bool
	prune        bool // opt prune: solver-decided branches are not forked
	pruneQueries int
	// bounded equivalence runs (equiv.go)
	noIntMerge bool // if-merging never produces a conditional integer
	noModular bool // callee contracts are not applied: everything is inlined
	boundK    int  // loops without invariants: iterations per entry before the path is dropped (0 = off)
	boundRec  int  // nested activations of one function before the path is dropped (0 = off)
	boundHits int  // paths dropped by one of the two bounds
	baseRun   bool // executing a baseline copy: dynamic dispatch prefers the copied methods
	active    map[*ssa.Function]int
	eqAbstract func(*ssa.Function) (string, int) // bounded equivalence runs: how a call is treated
	// lockstep loop induction (equiv.go): loops that depend on symbolic data are cut in both
	// versions at the same arbitrary loop-head state instead of being unrolled
	lockstep    bool
	lockRunB    bool                   // executing the baseline copy
	lockLoops   map[string]bool        // loops (function#ordinal, prefix stripped) to cut
	lockEntries []lockRec              // states in which the cut loops were reached
	lockSigs    map[string][]phiSig    // run A: the loop-carried variables of each cut loop
	lockShared  map[*Cell]bool         // cells both runs know (entry cells, regions)
	symLoops    map[string]bool        // bounded runs: loops inside which a symbolic branch was forked
	deadline  time.Time // bounded runs: symbolic execution gives up after this instant
	steps     int
	mergeCallMax int
	maxPaths     int
	safety       bool
	specMode     int // >0 while evaluating spec expressions (merge aggressively)

	paths int
	obls  []*Obligation
	cur   *Contract // contract being verified (for obligation naming)
	notes map[string]bool // assumption notes collected during run
	opaque map[string]bool // functions to treat as opaque pure UFs

	lemmaByName map[string]*Contract
	usedLemmas  map[string]bool
	splitGoals  bool
	trigQuadrants bool
	curState    *State
	regions     map[string]*Cell
	schemaCtr   int
	curResultDyn types.Type
	recvCtr     int
	freshBase   map[string]int
	ufMemoBase  map[string]*Term
	entryState  *State
	curSkolems  map[string]Value
	specs       map[string]*SpecFunc
	schemas     []*schema
	curEnv      *Env
	curInputs   map[string]Value
	dry         int
	unrolled    int
	symArrCtr   int
	symStack    map[string]int
	recordedLocals map[string][]localVar // function -> named variables in order, as recorded with the baseline
	renamed     map[string]string // for the function under contract: recorded local name -> its current name
	witnessTuples [][]Expr // hinted witnesses for the existential clause being proved
	sliceCells  map[string]*Cell // backing arrays of slices held by region objects, by owner identity
	recDepth    int
	entryMark   int          // cells with id <= entryMark existed at entry of the function under contract
	regionIDs   map[int]bool // ids of object-region cells
	instKeys    map[*State]map[string]bool
	zeroArrays  map[string]types.Type
	iters       map[*Cell]*rangeIter
	mapOverwrites []string
	oblCount    map[string]int
	pathNaming  map[string]bool
	byFn        map[*ssa.Function][]*Contract
	usedModular map[string]bool
	usedContracts map[string]bool // labels of the contracts applied at call sites in this run
	pathsOf     map[string]int
}

func (x *Exec) note(s string) {
	if x.notes == nil {
		x.notes = map[string]bool{}
	}
	x.notes[s] = true
}

func fail(format string, a ...interface{}) {
	panic(engineErr(fmt.Sprintf(format, a...)))
}

//-----------------------------------------------------------------------------
// constants

func (x *Exec) constValue(c *ssa.Const) Value {
	t := c.Type()
	if c.Value == nil {
		return zeroValue(t)
	}
	if b, ok := t.Underlying().(*types.Basic); ok {
		switch {
		case b.Info()&types.IsBoolean != 0:
			return mkBool(constant.BoolVal(c.Value))
		case b.Info()&types.IsString != 0:
			return &Str{s: constant.StringVal(c.Value)}
		case b.Info()&types.IsInteger != 0:
			r := constRat(c.Value)
			return mkRat(r, SInt)
		case b.Info()&types.IsFloat != 0:
			r := constRat(c.Value)
			if b.Kind() == types.UntypedFloat {
				// every use in code converts the constant to float64 first
				if f, _ := constant.Float64Val(c.Value); !math.IsInf(f, 0) {
					r = new(big.Rat)
					r.SetFloat64(f)
				}
			}
			if pt := piMultiple(r); pt != nil {
				return pt
			}
			return mkRat(r, SReal)
		}
	}
	fail("unsupported constant %v of type %v", c, t)
	return nil
}

func constRat(v constant.Value) *big.Rat {
	switch v.Kind() {
	case constant.Int:
		if i, ok := constant.Int64Val(v); ok {
			return new(big.Rat).SetInt64(i)
		}
		bi, _ := new(big.Int).SetString(v.ExactString(), 10)
		return new(big.Rat).SetInt(bi)
	case constant.Float:
		switch val := constant.Val(v).(type) {
		case *big.Rat:
			return new(big.Rat).Set(val)
		case *big.Float:
			r, _ := val.Rat(nil)
			return r
		}
		f, _ := constant.Float64Val(v)
		r := new(big.Rat)
		r.SetFloat64(f)
		return r
	}
	fail("unsupported constant kind %v", v.Kind())
	return nil
}

// PI handling: float constants that are small rational multiples of math.Pi
// are represented as (p/q)*PI with PI a symbolic real bounded by axioms.
var tPI *Term
var usePiSymbol = true

func piTerm() *Term {
	if tPI == nil {
		tPI = mkVar("PI", SReal)
	}
	return tPI
}

func piAxioms() []*Term {
	lo := mkRat(big.NewRat(314159265358, 100000000000), SReal)
	hi := mkRat(big.NewRat(314159265359, 100000000000), SReal)
	return []*Term{mkLt(lo, piTerm()), mkLt(piTerm(), hi)}
}

func piMultiple(r *big.Rat) *Term {
	if !usePiSymbol {
		return nil
	}
	f, _ := r.Float64()
	if f == 0 || math.IsInf(f, 0) {
		return nil
	}
	ratio := f / math.Pi
	// continued fraction approximation with small denominator
	for q := int64(1); q <= 720; q++ {
		p := math.Round(ratio * float64(q))
		if p == 0 || math.Abs(p) > 100000 {
			continue
		}
		if math.Abs(ratio*float64(q)-p) < 1e-12*math.Abs(p) {
			// exact check: float64(p/q*pi) == f ?
			if float64(p)/float64(q)*math.Pi == f || math.Abs(float64(p)/float64(q)*math.Pi-f) <= 2*math.Abs(f)*2.3e-16 {
				return mkMul(mkRat(big.NewRat(int64(p), q), SReal), piTerm())
			}
		}
	}
	return nil
}

//-----------------------------------------------------------------------------
// symbolic inputs

func (x *Exec) symValue(st *State, t types.Type, name string) Value {
	if d := isSDFIface(t); d != 0 {
		return x.newAbsObj(st, t, name, d)
	}
	switch u := t.Underlying().(type) {
	case *types.Basic:
		if s, ok := sortOf(t); ok {
			v := freshVar(name, s)
			if s == SInt {
				rangeAxiom(st, v, t)
			}
			return v
		}
		if u.Info()&types.IsString != 0 {
			return &Str{sym: freshVar(name+"$str", SInt)}
		}
	case *types.Struct:
		el := make([]Value, u.NumFields())
		for i := range el {
			el[i] = x.symValue(st, u.Field(i).Type(), name+"."+u.Field(i).Name())
		}
		return &Tuple{typ: t, el: el}
	case *types.Array:
		el := make([]Value, u.Len())
		for i := range el {
			el[i] = x.symValue(st, u.Elem(), fmt.Sprintf("%s[%d]", name, i))
		}
		return &Tuple{typ: t, el: el}
	case *types.Pointer:
		k := types.TypeString(u.Elem(), nil)
		if x.symStack[k] > 0 {
			// a link of a recursive structure: an unknown, possibly nil, object of the region
			id := freshVar(name+"$id", SInt)
			st.axiom(mkLe(mkInt(0), id))
			return &Ptr{cell: x.regionCell(u.Elem()), sym: id, mayNil: true}
		}
		if x.symStack == nil {
			x.symStack = map[string]int{}
		}
		x.symStack[k]++
		c := newCell(name, u.Elem())
		st.store[c] = x.symValue(st, u.Elem(), name)
		x.symStack[k]--
		return &Ptr{cell: c}
	case *types.Signature:
		return &Func{abs: &AbsFun{name: sanitize(name), sig: u}}
	case *types.Slice:
		c := newCell(name, types.NewArray(u.Elem(), -1))
		an := sanitize(name)
		if !x.noModular {
			// two unknown slices must never share their contents because they share a name hint
			// (two calls of one summarised or external function on a path): the contents of a
			// symbolic array are an uninterpreted function named after it
			k := "symarrname$" + an
			n := freshCtr[k]
			freshCtr[k] = n + 1
			if n > 0 {
				an = fmt.Sprintf("%s_n%d", an, n)
			}
		}
		st.store[c] = &SymArr{elem: u.Elem(), name: an}
		ln := freshVar(name+"$len", SInt)
		st.axiom(mkLe(mkInt(0), ln))
		cp := freshVar(name+"$cap", SInt)
		st.axiom(mkLe(ln, cp))
		nl := freshVar(name+"$isnil", SBool)
		st.axiom(mkImplies(nl, mkAnd(mkEq(ln, mkInt(0)), mkEq(cp, mkInt(0)))))
		return &SliceV{cell: c, off: mkInt(0), len: ln, cap: cp, elem: u.Elem(), named: t, nilT: nl}
	case *types.Interface:
		return &Opaque{typ: t, tag: name}
	case *types.Map:
		c := newCell(name, t)
		st.store[c] = &SymMap{name: sanitize(name), vt: u.Elem()}
		return &MapV{typ: t, cell: c, entries: map[string][2]Value{}}
	}
	return &Opaque{typ: t, tag: name}
}

func (x *Exec) newAbsObj(st *State, t types.Type, name string, dim int) *AbsObj {
	o := &AbsObj{name: sanitize(name), typ: t, dim: dim, stamp: cellCtr}
	// bounding box: find the Box2/Box3 type via the interface method
	it := t.Underlying().(*types.Interface)
	for i := 0; i < it.NumMethods(); i++ {
		m := it.Method(i)
		if m.Name() == "BoundingBox" {
			rt := m.Type().(*types.Signature).Results().At(0).Type()
			o.bb = x.symValue(st, rt, "BB("+name+")")
		}
	}
	return o
}

//-----------------------------------------------------------------------------
// memory

// escape: a pointer to a freshly allocated object is about to be stored into a
// symbolic array. The object moves into its type's symbolic region (fresh
// identity, distinct from nil and from the other moved objects) so that the
// array holds pointers of one shape; the old cell forwards to it. Identities
// are labels: only equality between them and with nil (0) is ever observed.
func (x *Exec) escape(st *State, v Value) Value {
	switch t := v.(type) {
	case *Tuple:
		var el []Value
		for i, e := range t.el {
			ne := x.escape(st, e)
			if ne != e && el == nil {
				el = append([]Value{}, t.el...)
			}
			if el != nil {
				el[i] = ne
			}
		}
		if el != nil {
			return &Tuple{typ: t.typ, el: el}
		}
		return v
	case *Ptr:
		if t.cell == nil || t.sym != nil || len(t.path) != 0 || x.regionIDs[t.cell.id] {
			return v
		}
		if t.cell.typ == nil || !regionable(t.cell.typ) || foreignType(t.cell.typ) {
			return v
		}
		cur, ok := st.store[t.cell]
		if !ok {
			return v
		}
		if fw, ok := cur.(*Fwd); ok {
			return fw.to
		}
		if _, ok := cur.(*Tuple); !ok {
			return v
		}
		content := x.escape(st, cur)
		// identities of objects that exist already (inputs, earlier iterations of a cut loop)
		// are positive and nil is 0: a negative constant is a fresh identity, distinct from all
		// of them and from the other objects allocated on this path
		var id *Term
		if t.cell.id <= st.cutMark {
			// the object existed before the innermost cut loop was entered: earlier iterations may
			// already have stored it into the (havocked) array, so its identity is an unknown
			// non-nil one, not a fresh one
			id = freshVar("obj$id", SInt)
			st.axiom(mkNot(mkEq(id, mkInt(0))))
		} else {
			st.nalloc++
			id = mkInt(int64(-st.nalloc))
		}
		rp := &Ptr{cell: x.regionCell(t.cell.typ), sym: id}
		x.storeTo(st, rp, content)
		st.store[t.cell] = &Fwd{to: rp}
		return rp
	}
	return v
}

// derefCheck: a possibly-nil region pointer is dereferenced. Under a safety
// contract that is an obligation; otherwise the path continues with the pointer
// non-nil (a nil dereference panics, and the contracts speak about returns).
func (x *Exec) derefCheck(st *State, fr *Frame, p *Ptr, pos token.Pos) {
	if p == nil || !p.mayNil || p.sym == nil {
		return
	}
	if x.specMode > 0 {
		return
	}
	nz := mkNot(mkEq(p.sym, mkInt(0)))
	if x.safety && fr != nil {
		x.oblige(st, "safety.nil@"+x.posTag(pos, fr), nz, "nil dereference")
	}
	st.assume(nz)
}

func (x *Exec) load(st *State, p *Ptr) Value {
	if p.cell == nil {
		fail("nil pointer dereference")
	}
	if p.mayNil && p.sym != nil && x.specMode == 0 {
		// executing code: a nil dereference panics, the path continues only for a non-nil
		// pointer (specification expressions read an arbitrary value through nil instead)
		st.assume(mkNot(mkEq(p.sym, mkInt(0))))
	}
	v, ok := st.store[p.cell]
	if !ok {
		if gv, isG := x.gstate.store[p.cell]; isG {
			// global first touched after this state was forked (foreign package variable)
			st.store[p.cell] = gv
			v = gv
		} else {
			fail("load from unknown cell %s", p.cell.name)
		}
	}
	if fw, ok := v.(*Fwd); ok {
		if p.sym != nil {
			fail("symbolic index into an object that moved to its region")
		}
		return x.load(st, &Ptr{cell: fw.to.cell, sym: fw.to.sym, path: p.path})
	}
	if sa, ok := v.(*SymArr); ok {
		return x.symArrLoad(st, sa, p)
	}
	if p.sym != nil {
		pre, off, suf := splitSymPath(p.path)
		arr, ok := getPath(v, pre).(*Tuple)
		if !ok {
			fail("symbolic index into non-aggregate")
		}
		n := len(arr.el) - off
		el := make([]Value, n)
		for i := 0; i < n; i++ {
			el[i] = getPath(arr.el[off+i], suf)
		}
		return x.selectSym(el, 0, n, p.sym)
	}
	return getPath(v, p.path)
}

func isArrayType(t types.Type) bool {
	_, ok := t.Underlying().(*types.Array)
	return ok
}

// regionCell: the symbolic array holding all objects of type t that are only
// known through pointers found in symbolic data (elements of received batches
// etc.), indexed by pointer identity.
func (x *Exec) regionCell(t types.Type) *Cell {
	k := types.TypeString(t, nil)
	if c, ok := x.regions[k]; ok {
		return c
	}
	c := newCell("region$"+k, types.NewArray(t, -1))
	x.regions[k] = c
	if x.regionIDs == nil {
		x.regionIDs = map[int]bool{}
	}
	x.regionIDs[c.id] = true
	x.gstate.store[c] = &SymArr{elem: t, name: "heap_" + sanitize(k)}
	return c
}

// splitSymPath splits a path at the symbolic-index marker.
func splitSymPath(path []int) (pre []int, off int, suf []int) {
	for i, s := range path {
		if s <= -1000000 {
			return path[:i], -1000000 - s, path[i+1:]
		}
	}
	fail("symbolic pointer without marker")
	return
}

func (x *Exec) storeTo(st *State, p *Ptr, nv Value) {
	if p.cell == nil {
		fail("nil pointer store")
	}
	v, ok := st.store[p.cell]
	if !ok {
		if gv, isG := x.gstate.store[p.cell]; isG {
			st.store[p.cell] = gv
			v = gv
		} else {
			fail("store to unknown cell %s", p.cell.name)
		}
	}
	if fw, ok := v.(*Fwd); ok {
		if p.sym != nil {
			fail("symbolic index into an object that moved to its region")
		}
		x.storeTo(st, &Ptr{cell: fw.to.cell, sym: fw.to.sym, path: p.path}, nv)
		return
	}
	if sa, ok := v.(*SymArr); ok {
		if len(p.path) == 0 {
			nv = x.escape(st, nv)
		}
		st.store[p.cell] = x.symArrStore(st, sa, p, nv)
	} else if p.sym != nil {
		pre, off, suf := splitSymPath(p.path)
		arr, ok := getPath(v, pre).(*Tuple)
		if !ok {
			fail("symbolic index into non-aggregate")
		}
		el := append([]Value{}, arr.el...)
		for i := off; i < len(el); i++ {
			upd := setPath(el[i], suf, nv)
			m, ok := iteValue(mkEq(p.sym, mkInt(int64(i-off))), upd, el[i])
			if !ok {
				fail("symbolic store: elements not mergeable")
			}
			el[i] = m
		}
		st.store[p.cell] = setPath(v, pre, &Tuple{typ: arr.typ, el: el})
	} else {
		st.store[p.cell] = setPath(v, p.path, nv)
	}
	st.wlog = append(st.wlog, p.cell.id)
	if st.written != nil {
		st.written[p.cell] = true
	}
}

// pureSince: did the execution from pre to post leave everything that existed
// before mark (cell id watermark) untouched and produce no other effect?
func pureSince(pre, post *State, mark int) bool {
	if post.version != pre.version || len(post.wlog) < len(pre.wlog) {
		return false
	}
	for _, id := range post.wlog[len(pre.wlog):] {
		if id <= mark {
			return false
		}
	}
	return true
}

// symbolic arrays: element at symbolic index; leaves are UF selects.
func (x *Exec) symArrElem(st *State, sa *SymArr, idx *Term) Value {
	if et, ok := x.zeroArrays[sa.name]; ok {
		return zeroValue(et)
	}
	return x.symLeaf(st, sa.elem, sa.name, idx, sa.pre...)
}

func (x *Exec) symLeaf(st *State, t types.Type, name string, idx *Term, pre ...*Term) Value {
	sargs := append(append([]*Term{}, pre...), idx)
	if d := isSDFIface(t); d != 0 {
		// element of a symbolic array of shapes: a member of the family of abstract shapes of
		// that array; which shape it is, its box and whether it is nil depend on the index only
		return &AbsObj{name: "arr_" + sanitize(name), typ: t, dim: d, fam: true, idx: sargs, stamp: cellCtr,
			nilT: x.ufApp(st, "nil_arr_"+sanitize(name), SBool, sargs)}
	}
	switch u := t.Underlying().(type) {
	case *types.Basic:
		if s, ok := sortOf(t); ok {
			v := x.ufApp(st, "sel_"+name, s, sargs)
			if s == SInt {
				rangeAxiom(st, v, t)
			}
			return v
		}
		if u.Info()&types.IsString != 0 {
			return &Str{sym: x.ufApp(st, "sel_"+name+"$str", SInt, sargs)}
		}
	case *types.Slice:
		if strings.HasPrefix(name, "heap_") {
			// a slice held by an object of a symbolic region: length, capacity, nil-ness and
			// elements are functions of the object's identity; the backing array is read-only
			ln := x.ufApp(st, "sel_"+name+"$len", SInt, sargs)
			cp := x.ufApp(st, "sel_"+name+"$cap", SInt, sargs)
			nl := x.ufApp(st, "sel_"+name+"$isnil", SBool, sargs)
			st.axiom(mkAnd(mkLe(mkInt(0), ln), mkLe(ln, cp), mkImplies(nl, mkAnd(mkEq(ln, mkInt(0)), mkEq(cp, mkInt(0))))))
			var kb strings.Builder
			kb.WriteString(name)
			for _, a := range sargs {
				fmt.Fprintf(&kb, ",%d", a.id)
			}
			if x.sliceCells == nil {
				x.sliceCells = map[string]*Cell{}
			}
			c := x.sliceCells[kb.String()]
			if c == nil {
				c = newCell(name+"$arr", types.NewArray(u.Elem(), -1))
				x.sliceCells[kb.String()] = c
			}
			if _, ok := st.store[c]; !ok {
				st.store[c] = &SymArr{elem: u.Elem(), name: name + "$arr", pre: sargs, ro: true}
			}
			return &SliceV{cell: c, off: mkInt(0), len: ln, cap: cp, elem: u.Elem(), named: t, nilT: nl}
		}
	case *types.Pointer:
		id := x.ufApp(st, "sel_"+name+"$ptr", SInt, sargs)
		if _, isStruct := u.Elem().Underlying().(*types.Struct); isStruct || isArrayType(u.Elem()) {
			if !foreignType(u.Elem()) {
				// unknown objects of a module type live in one symbolic region indexed by identity;
				// pointers stored in symbolic aggregates are taken to be non-nil (identity 0 is nil)
				st.axiom(mkLe(mkInt(1), id))
				return &Ptr{cell: x.regionCell(u.Elem()), sym: id}
			}
		}
		return &Opaque{typ: t, tag: "elem$" + name, id: id}
	case *types.Struct:
		el := make([]Value, u.NumFields())
		for i := range el {
			el[i] = x.symLeaf(st, u.Field(i).Type(), name+"."+u.Field(i).Name(), idx, pre...)
		}
		return &Tuple{typ: t, el: el}
	case *types.Array:
		el := make([]Value, u.Len())
		for i := range el {
			el[i] = x.symLeaf(st, u.Elem(), fmt.Sprintf("%s.%d", name, i), idx, pre...)
		}
		return &Tuple{typ: t, el: el}
	}
	// interfaces, slices, maps inside symbolic aggregates: not modelled structurally
	return &Opaque{typ: t, tag: "elem$" + name, id: x.ufApp(st, "sel_"+name+"$opq", SInt, sargs)}
}

func (x *Exec) symArrLoad(st *State, sa *SymArr, p *Ptr) Value {
	if p.sym == nil {
		fail("symbolic array access without index")
	}
	v := x.symArrElem(st, sa, p.sym)
	for i := 0; i < len(sa.writes); i++ {
		w := sa.writes[i]
		var nv Value
		var ok bool
		if w.src != nil {
			// bulk copy: indices [idx, idx+n) come from src[srcOff ...]
			in := mkAnd(mkLe(w.idx, p.sym), mkLt(p.sym, mkAdd(w.idx, w.n)))
			sv := x.symArrLoad(st, w.src, &Ptr{cell: p.cell, sym: mkAdd(w.srcOff, mkSub(p.sym, w.idx))})
			nv, ok = iteValue(in, sv, v)
		} else {
			nv, ok = iteValue(mkEq(w.idx, p.sym), w.val, v)
		}
		if !ok {
			// non-mergeable element kinds (pointers): keep the written value when the index matches syntactically
			if w.src == nil && w.idx == p.sym {
				v = w.val
				continue
			}
			if w.src == nil {
				if _, isPtr := w.val.(*Ptr); isPtr {
					v = &Opaque{tag: "elem$" + sa.name}
					continue
				}
			}
			fail("cannot merge symbolic array element")
		}
		v = nv
	}
	return getPath(v, p.path)
}

func (x *Exec) symArrStore(st *State, sa *SymArr, p *Ptr, nv Value) *SymArr {
	if p.sym == nil {
		fail("symbolic array store without index")
	}
	var full Value = nv
	if len(p.path) > 0 {
		old := x.symArrLoad(st, sa, &Ptr{cell: p.cell, sym: p.sym})
		full = setPath(old, p.path, nv)
	}
	if sa.ro {
		fail("store into the backing array of a slice held by a symbolic object (%s) is not modelled", sa.name)
	}
	n := &SymArr{elem: sa.elem, name: sa.name, pre: sa.pre}
	n.writes = append(append([]symWrite{}, sa.writes...), symWrite{idx: p.sym, val: full})
	return n
}

//-----------------------------------------------------------------------------
// globals

func (x *Exec) globalCell(g *ssa.Global) *Cell {
	if c, ok := x.globals[g]; ok {
		return c
	}
	et := g.Type().(*types.Pointer).Elem()
	c := newCell(g.Pkg.Pkg.Name()+"."+g.Name(), et)
	x.globals[g] = c
	if g.Pkg != nil && !strings.HasPrefix(g.Pkg.Pkg.Path(), modulePath) {
		x.gstate.store[c] = &Opaque{typ: et, tag: "global$" + g.Name()}
	} else {
		x.gstate.store[c] = zeroValue(et)
	}
	return c
}

// runInits executes the module packages' init functions on the global state.
func (x *Exec) runInits(pkgs []*ssa.Package) {
	for _, p := range pkgs {
		if p == nil || !strings.HasPrefix(p.Pkg.Path(), modulePath) {
			continue
		}
		// make sure all globals have cells
		for _, m := range p.Members {
			if g, ok := m.(*ssa.Global); ok {
				x.globalCell(g)
			}
		}
	}
	for _, p := range pkgs {
		if p == nil || !strings.HasPrefix(p.Pkg.Path(), modulePath) {
			continue
		}
		x.runInit(p)
	}
}

func (x *Exec) runInit(p *ssa.Package) {
	if x.initRun[p] {
		return
	}
	x.initRun[p] = true
	fn := p.Func("init")
	if fn == nil {
		return
	}
	func() {
		defer func() {
			if r := recover(); r != nil {
				if e, ok := r.(engineErr); ok {
					fmt.Printf("note: init of %s partially executed: %v\n", p.Pkg.Path(), e)
					return
				}
				panic(r)
			}
		}()
		save := x.mergeIf
		outs := x.callFn(x.gstate, fn, nil, 0)
		x.mergeIf = save
		if len(outs) == 1 && outs[0].kind == oRet {
			x.gstate = outs[0].st
		} else {
			fmt.Printf("note: init of %s produced %d outcomes\n", p.Pkg.Path(), len(outs))
			if len(outs) > 0 {
				x.gstate = outs[0].st
			}
		}
	}()
}

//-----------------------------------------------------------------------------
// register access

func (x *Exec) val(fr *Frame, v ssa.Value) Value {
	switch c := v.(type) {
	case *ssa.Const:
		return x.constValue(c)
	case *ssa.Global:
		return &Ptr{cell: x.globalCell(c)}
	case *ssa.Function:
		return &Func{fn: c}
	case *ssa.Builtin:
		return &Func{builtin: c.Name()}
	}
	r, ok := fr.regs[v]
	if !ok {
		fail("unbound SSA value %s (%T) in %s", v.Name(), v, fr.fn)
	}
	return r
}

func (x *Exec) term(fr *Frame, v ssa.Value) *Term {
	t, ok := x.val(fr, v).(*Term)
	if !ok {
		fail("expected scalar for %s in %s, got %s", v.Name(), fr.fn, valueString(x.val(fr, v)))
	}
	return t
}

//-----------------------------------------------------------------------------
// calls

func (x *Exec) callFn(st *State, fn *ssa.Function, args []Value, depth int) []Out {
	if depth > 40 {
		fail("call depth exceeded at %s (recursion without contract?)", fn)
	}
	if outs, ok := x.intrinsic(st, fn, args); ok {
		return outs
	}
	if x.cur != nil && x.cur.lemma && fn.Pkg != nil {
		if x.cur.called == nil {
			x.cur.called = map[*ssa.Function]bool{}
		}
		x.cur.called[fn] = true
	}
	if fn.Blocks == nil {
		return x.externalCall(st, fn.String(), fn.Signature, args)
	}
	if fn.Pkg != nil && !strings.HasPrefix(fn.Pkg.Pkg.Path(), modulePath) {
		return x.externalCall(st, fn.String(), fn.Signature, args)
	}
	if fn.Pkg == nil {
		// synthetic wrappers / bound methods / instantiations
		if fn.Synthetic != "" && fn.Object() != nil && fn.Object().Pkg() != nil && !strings.HasPrefix(fn.Object().Pkg().Path(), modulePath) {
			return x.externalCall(st, fn.String(), fn.Signature, args)
		}
	}
	if x.eqAbstract != nil && depth > 0 {
		if name, how := x.eqAbstract(fn); how != absNone {
			return x.abstractCall(st, name, fn, args, how == absImpure)
		}
	}
	if !x.noModular {
		if cts := x.modularContracts(fn); cts != nil && depth > 0 {
			return x.applyContract(st, fn, cts, args)
		}
	}
	fr := &Frame{fn: fn, regs: map[ssa.Value]Value{}, env: map[string]envEntry{}, depth: depth}
	if len(args) != len(fn.Params) {
		fail("arity mismatch calling %s: %d args for %d params", fn, len(args), len(fn.Params))
	}
	for i, p := range fn.Params {
		fr.regs[p] = args[i]
		fr.env[p.Name()] = envEntry{v: args[i]}
	}
	if x.boundRec > 0 {
		if x.active == nil {
			x.active = map[*ssa.Function]int{}
		}
		if x.active[fn] > x.boundRec {
			x.boundHits++
			return nil
		}
		x.active[fn]++
		defer func() { x.active[fn]-- }()
	}
	return x.run(st, fr, fn.Blocks[0], 0, nil)
}

func (x *Exec) callClosure(st *State, f *Func, args []Value, depth int) []Out {
	if f.abs != nil {
		return x.absFunCall(st, f.abs, args)
	}
	if f.builtin != "" {
		fail("call of builtin value %s", f.builtin)
	}
	if f.fn == nil {
		fail("call of nil function value")
	}
	if len(f.bind) == 0 {
		return x.callFn(st, f.fn, args, depth)
	}
	fn := f.fn
	if fn.Blocks == nil {
		fail("closure without body %s", fn)
	}
	fr := &Frame{fn: fn, regs: map[ssa.Value]Value{}, env: map[string]envEntry{}, depth: depth}
	for i, p := range fn.Params {
		fr.regs[p] = args[i]
		fr.env[p.Name()] = envEntry{v: args[i]}
	}
	for i, fv := range fn.FreeVars {
		fr.regs[fv] = f.bind[i]
		fr.env[fv.Name()] = envEntry{v: f.bind[i], addr: true}
	}
	return x.run(st, fr, fn.Blocks[0], 0, nil)
}

func (x *Exec) absFunCall(st *State, a *AbsFun, args []Value) []Out {
	var flat []*Term
	for _, v := range args {
		if !flatten(v, &flat) {
			fail("abstract function %s called with non-scalar argument", a.name)
		}
	}
	res := a.sig.Results()
	vals := make([]Value, res.Len())
	for i := 0; i < res.Len(); i++ {
		vals[i] = x.ufResult(st, fmt.Sprintf("%s#%d", a.name, i), res.At(i).Type(), flat)
	}
	return []Out{{st: st, vals: vals}}
}

// ufResult returns the (Ackermannized) result of applying uninterpreted
// function name to args; leaves of aggregate results get one UF each.
func (x *Exec) ufResult(st *State, name string, t types.Type, args []*Term) Value {
	switch u := t.Underlying().(type) {
	case *types.Basic:
		if s, ok := sortOf(t); ok {
			return x.ufApp(st, name, s, args)
		}
	case *types.Struct:
		el := make([]Value, u.NumFields())
		for i := range el {
			el[i] = x.ufResult(st, name+"."+u.Field(i).Name(), u.Field(i).Type(), args)
		}
		return &Tuple{typ: t, el: el}
	case *types.Array:
		el := make([]Value, u.Len())
		for i := range el {
			el[i] = x.ufResult(st, fmt.Sprintf("%s.%d", name, i), u.Elem(), args)
		}
		return &Tuple{typ: t, el: el}
	}
	fail("unsupported uninterpreted result type %v", t)
	return nil
}

var ufMemo = map[string]*Term{}

// ufHints: name hints whose fresh variables stand for uninterpreted applications (memoised by
// function and arguments); the others stand for the n-th unknown of their kind on a path.
var ufHints = map[string]bool{}

// ufApp: Ackermannized application. Same (name,args) -> same variable.
func (x *Exec) ufApp(st *State, name string, s Sort, args []*Term) *Term {
	var sb strings.Builder
	sb.WriteString(name)
	for _, a := range args {
		fmt.Fprintf(&sb, ",%d", a.id)
	}
	k := sb.String()
	r, ok := ufMemo[k]
	if !ok {
		ufHints[sanitize(name)] = true
		r = freshVarCounted(name, s)
		ufMemo[k] = r
	}
	found := false
	for _, ap := range st.apps {
		if ap.res == r {
			found = true
			break
		}
	}
	if !found {
		st.apps = append(st.apps, appRec{fn: name, args: args, res: r})
	}
	return r
}

// congruenceSkipped is set by congruenceAxioms when it left a function out.
var congruenceSkipped bool

// congruenceAxioms: pairwise functional consistency of recorded applications.
func congruenceAxioms(apps []appRec) []*Term {
	var out []*Term
	by := map[string][]appRec{}
	var names []string
	for _, a := range apps {
		if _, ok := by[a.fn]; !ok {
			names = append(names, a.fn)
		}
		by[a.fn] = append(by[a.fn], a)
	}
	for _, n := range names {
		l := by[n]
		if len(l) > 80 {
			// too many applications for pairwise consistency: a model of such a query may be
			// spurious, so a "sat" answer is downgraded to undecided (see congruenceSkipped)
			congruenceSkipped = true
			continue
		}
		for i := 0; i < len(l); i++ {
			for j := i + 1; j < len(l); j++ {
				if len(l[i].args) != len(l[j].args) {
					continue
				}
				var eqs []*Term
				for k := range l[i].args {
					eqs = append(eqs, mkEq(l[i].args[k], l[j].args[k]))
				}
				cg := mkImplies(mkAnd(eqs...), mkEq(l[i].res, l[j].res))
				registerDef(cg, l[i].res, l[j].res)
				if _, ok := axiomDefines[cg.id]; ok && len(axiomDefines[cg.id]) == 2 {
					axiomNeedsAll[cg.id] = true
				}
				out = append(out, cg)
			}
		}
	}
	return out
}

// theoryAxioms: pairwise facts about the uninterpreted exp / log
// applications: strict monotonicity and log(exp t) = t in its order form.
func theoryAxioms(apps []appRec) []*Term {
	var out []*Term
	var exps, logs []appRec
	for _, a := range apps {
		switch a.fn {
		case "exp":
			exps = append(exps, a)
		case "log":
			logs = append(logs, a)
		}
	}
	// pow2: positive, doubling with the exponent
	var pows []appRec
	for _, a := range apps {
		if a.fn == "pow2" {
			pows = append(pows, a)
		}
	}
	for i, a := range pows {
		out = append(out, mkImplies(mkLe(mkInt(0), a.args[0]), mkLe(mkInt(1), a.res)))
		out = append(out, mkImplies(mkEq(a.args[0], mkInt(0)), mkEq(a.res, mkInt(1))))
		out = append(out, mkImplies(mkEq(a.args[0], mkInt(1)), mkEq(a.res, mkInt(2))))
		for j, b := range pows {
			if i == j {
				continue
			}
			out = append(out, mkImplies(mkAnd(mkLe(mkInt(0), b.args[0]), mkEq(a.args[0], mkAdd(b.args[0], mkInt(1)))), mkEq(a.res, mkMul(mkInt(2), b.res))))
		}
	}
	// double angle: cos(t) = 1 - 2 sin(t/2)^2 and sin(t) = 2 sin(t/2) cos(t/2), for applications
	// whose arguments are syntactically t and t/2
	{
		sinAt := map[int]*Term{}
		cosAt := map[int]*Term{}
		var argsSeen []*Term
		for _, a := range apps {
			if len(a.args) != 1 {
				continue
			}
			switch a.fn {
			case "sin":
				sinAt[a.args[0].id] = a.res
				argsSeen = append(argsSeen, a.args[0])
			case "cos":
				cosAt[a.args[0].id] = a.res
			}
		}
		halfC := mkRat(big.NewRat(1, 2), SReal)
		for _, t := range argsSeen {
			for _, u := range []*Term{mkMul(halfC, t), mkDiv(t, mkRealInt(2))} {
				su, cu := sinAt[u.id], cosAt[u.id]
				st, ct := sinAt[t.id], cosAt[t.id]
				if su == nil || cu == nil || st == nil || ct == nil || u == t {
					continue
				}
				d1 := mkEq(ct, mkSub(mkRealInt(1), mkMul(mkRealInt(2), mkMul(su, su))))
				d2 := mkEq(st, mkMul(mkRealInt(2), mkMul(su, cu)))
				registerDef(d1, ct, su)
				registerDef(d2, st, su)
				axiomNeedsAll[d1.id] = true
				axiomNeedsAll[d2.id] = true
				out = append(out, d1, d2)
			}
		}
	}
	// pow2 against log2: 2^n >= y  <=>  n >= log2(y)   (n >= 0, y > 0), and log2 is monotone
	var log2s []appRec
	for _, a := range apps {
		if a.fn == "log2" {
			log2s = append(log2s, a)
		}
	}
	for _, pw := range pows {
		for _, lg := range log2s {
			y := lg.args[0]
			pre := mkAnd(mkLe(mkInt(0), pw.args[0]), mkLt(mkRealInt(0), y))
			out = append(out, mkImplies(pre, mkEq(mkLe(lg.res, coerce(pw.args[0], SReal)), mkLe(y, coerce(pw.res, SReal)))))
		}
	}
	for _, lg := range log2s {
		// anchors: log2(1) = 0, log2(2) = 1 (with monotonicity)
		y := lg.args[0]
		pos := mkLt(mkRealInt(0), y)
		out = append(out, mkImplies(pos, mkAnd(
			mkEq(mkLe(mkRealInt(0), lg.res), mkLe(mkRealInt(1), y)),
			mkEq(mkLt(mkRealInt(0), lg.res), mkLt(mkRealInt(1), y)),
			mkEq(mkLe(mkRealInt(1), lg.res), mkLe(mkRealInt(2), y)),
			mkEq(mkLt(mkRealInt(1), lg.res), mkLt(mkRealInt(2), y)))))
	}
	for i := 0; i < len(log2s); i++ {
		for j := i + 1; j < len(log2s); j++ {
			pos := mkAnd(mkLt(mkRealInt(0), log2s[i].args[0]), mkLt(mkRealInt(0), log2s[j].args[0]))
			out = append(out, mkImplies(pos, mkEq(mkLt(log2s[i].args[0], log2s[j].args[0]), mkLt(log2s[i].res, log2s[j].res))))
		}
	}
	zero := mkRealInt(0)
	for i := 0; i < len(exps); i++ {
		for j := i + 1; j < len(exps); j++ {
			out = append(out, mkEq(mkLt(exps[i].args[0], exps[j].args[0]), mkLt(exps[i].res, exps[j].res)))
		}
	}
	for i := 0; i < len(logs); i++ {
		for j := i + 1; j < len(logs); j++ {
			pos := mkAnd(mkLt(zero, logs[i].args[0]), mkLt(zero, logs[j].args[0]))
			out = append(out, mkImplies(pos, mkEq(mkLt(logs[i].args[0], logs[j].args[0]), mkLt(logs[i].res, logs[j].res))))
		}
	}
	for _, l := range logs {
		for _, ex := range exps {
			// log(s) compared with t = log(exp(t)) through s compared with exp(t)
			out = append(out, mkImplies(mkLt(zero, l.args[0]), mkAnd(
				mkEq(mkLt(l.args[0], ex.res), mkLt(l.res, ex.args[0])),
				mkEq(mkEq(l.args[0], ex.res), mkEq(l.res, ex.args[0])))))
		}
	}
	return out
}

func (x *Exec) externalCall(st *State, name string, sig *types.Signature, args []Value) []Out {
	x.note("external call " + name + ": results arbitrary; memory reachable through its pointer arguments is havocked, nothing else changes")
	// event arguments are recorded by value: what a pointer argument pointed to at the time of the call
	snap := make([]Value, len(args))
	for i, a := range args {
		snap[i] = a
		if x.noModular {
			// bounded equivalence runs compare everything the callee can see, at the time of the call
			snap[i] = x.deepSnap(st, a, 6, map[*Cell]bool{})
			continue
		}
		if ifc, isI := a.(*Iface); isI && ifc.dyn != nil {
			a = ifc.val
		}
		if p, ok := a.(*Ptr); ok && p.cell != nil {
			if cur, ok := st.store[p.cell]; ok {
				if _, isSym := cur.(*SymArr); !isSym {
					snap[i] = getPath(cur, p.path)
				}
			}
		}
	}
	st.log = append(st.log, Event{kind: "ext:" + name, args: snap})
	st.version++
	for _, a := range args {
		if ifc, isI := a.(*Iface); isI && ifc.dyn != nil {
			a = ifc.val // pointer passed as interface{} (binary.Read, fmt ...)
		}
		p, ok := a.(*Ptr)
		if !ok || p.cell == nil {
			continue
		}
		old, ok := st.store[p.cell]
		if !ok {
			continue
		}
		if _, isSym := old.(*SymArr); isSym {
			continue
		}
		sub := getPath(old, p.path)
		var pt types.Type
		if p.cell.typ != nil && len(p.path) == 0 {
			pt = p.cell.typ
		}
		st.store[p.cell] = setPath(old, p.path, x.havocLike(st, sub, pt, x.occName(st, "ext$"+sanitize(name))))
		st.wlog = append(st.wlog, p.cell.id)
	}
	res := sig.Results()
	vals := make([]Value, res.Len())
	rn := name
	if x.noModular {
		rn = x.occName(st, sanitize(name))
	}
	for i := 0; i < res.Len(); i++ {
		if x.noModular {
			vals[i] = x.havocResult(st, res.At(i).Type(), fmt.Sprintf("%s.r%d", rn, i))
		} else {
			vals[i] = x.havocResult(st, res.At(i).Type(), name)
		}
	}
	st.log[len(st.log)-1].res = vals
	return []Out{{st: st, vals: vals}}
}

func isErrorType(t types.Type) bool {
	n, ok := t.(*types.Named)
	return ok && n.Obj().Pkg() == nil && n.Obj().Name() == "error"
}

func (x *Exec) havocResult(st *State, t types.Type, name string) Value {
	if isErrorType(t) {
		return &Opaque{typ: t, tag: "err:" + name, nilT: freshVar("errnil$"+name, SBool)}
	}
	if foreignType(t) {
		return &Opaque{typ: t, tag: "ext$" + name}
	}
	return x.symValue(st, t, "ext$"+name)
}

// foreignType: pointers / structs / interfaces declared outside the module
// are not modelled structurally.
func foreignType(t types.Type) bool {
	if p, ok := t.(*types.Pointer); ok {
		t = p.Elem()
	}
	n, ok := t.(*types.Named)
	if !ok {
		return false
	}
	if n.Obj().Pkg() == nil {
		return false
	}
	return !strings.HasPrefix(n.Obj().Pkg().Path(), modulePath)
}

func (x *Exec) doCall(st *State, fr *Frame, c *ssa.CallCommon) []Out {
	args := make([]Value, 0, len(c.Args)+1)
	if c.IsInvoke() {
		recv := x.val(fr, c.Value)
		for _, a := range c.Args {
			args = append(args, x.val(fr, a))
		}
		return x.invoke(st, recv, c.Method, args, fr.depth+1)
	}
	for _, a := range c.Args {
		args = append(args, x.val(fr, a))
	}
	switch callee := c.Value.(type) {
	case *ssa.Function:
		return x.callFn(st, callee, args, fr.depth+1)
	case *ssa.Builtin:
		return x.builtin(st, fr, callee.Name(), args, c)
	default:
		f, ok := x.val(fr, c.Value).(*Func)
		if !ok {
			fail("call of non-function value %s", valueString(x.val(fr, c.Value)))
		}
		return x.callClosure(st, f, args, fr.depth+1)
	}
}

func (x *Exec) recordEvalPoint(st *State, method string, args []Value) {
	if method != "Evaluate" || len(args) == 0 {
		return
	}
	var flat []*Term
	if !flatten(args[len(args)-1], &flat) || len(flat) < 2 || len(flat) > 3 {
		return
	}
	for _, ap := range st.apps {
		if ap.fn == "evalpt" && len(ap.args) == len(flat) {
			same := true
			for i := range flat {
				if ap.args[i] != flat[i] {
					same = false
				}
			}
			if same {
				return
			}
		}
	}
	st.apps = append(st.apps, appRec{fn: "evalpt", args: flat, res: tTrue})
}

func (x *Exec) invoke(st *State, recv Value, m *types.Func, args []Value, depth int) []Out {
	x.recordEvalPoint(st, m.Name(), args)
	switch r := recv.(type) {
	case *AbsObj:
		return x.absObjCall(st, r, m.Name(), args)
	case *Iface:
		if r.dyn == nil {
			fail("method %s called on nil interface", m.Name())
		}
		if ao, ok := r.val.(*AbsObj); ok {
			return x.absObjCall(st, ao, m.Name(), args)
		}
		var fn *ssa.Function
		if x.baseRun {
			// a baseline copy calls the copied method of a concrete type, when there is one
			if obj, _, _ := types.LookupFieldOrMethod(r.dyn, true, m.Pkg(), basePrefix+m.Name()); obj != nil {
				if f, ok := obj.(*types.Func); ok {
					fn = x.prog.LookupMethod(r.dyn, f.Pkg(), f.Name())
				}
			}
		}
		if fn == nil {
			fn = x.prog.LookupMethod(r.dyn, m.Pkg(), m.Name())
		}
		if fn == nil {
			fail("no method %s on %v", m.Name(), r.dyn)
		}
		return x.callFn(st, fn, append([]Value{r.val}, args...), depth)
	case *Opaque:
		return x.externalCall(st, "("+r.tag+")."+m.Name(), m.Type().(*types.Signature), args)
	}
	fail("invoke %s on unsupported receiver %s", m.Name(), valueString(recv))
	return nil
}

func (x *Exec) absObjCall(st *State, o *AbsObj, method string, args []Value) []Out {
	if o.alt != nil {
		ra := x.absObjCall(st, o.alt.a, method, args)
		rb := x.absObjCall(st, o.alt.b, method, args)
		v, ok := iteValue(o.alt.c, ra[0].vals[0], rb[0].vals[0])
		if !ok {
			fail("abstract shape: results of %s not mergeable", method)
		}
		return []Out{{st: st, vals: []Value{v}}}
	}
	if o.fam && x.specMode == 0 && o.nilT != nil {
		// executing code: a call on a nil element panics, the path continues for a non-nil one
		st.assume(mkNot(o.nilT))
	}
	switch method {
	case "BoundingBox":
		if o.fam {
			it := o.typ.Underlying().(*types.Interface)
			for i := 0; i < it.NumMethods(); i++ {
				if m := it.Method(i); m.Name() == "BoundingBox" {
					rt := m.Type().(*types.Signature).Results().At(0).Type()
					return []Out{{st: st, vals: []Value{x.ufResult(st, "BB_"+o.name, rt, o.idx)}}}
				}
			}
			fail("abstract shape family %s: no BoundingBox method", o.name)
		}
		if o.bb == nil {
			// the nil shape: its box is unspecified
			if it, ok := o.typ.Underlying().(*types.Interface); ok {
				for i := 0; i < it.NumMethods(); i++ {
					if m := it.Method(i); m.Name() == "BoundingBox" {
						o.bb = x.symValue(st, m.Type().(*types.Signature).Results().At(0).Type(), "BB(nil)")
					}
				}
			}
		}
		return []Out{{st: st, vals: []Value{o.bb}}}
	case "Evaluate":
		flat := append([]*Term{}, o.idx...)
		flatten(args[0], &flat)
		r := x.ufApp(st, "Ev_"+o.name, SReal, flat)
		return []Out{{st: st, vals: []Value{r}}}
	}
	fail("abstract shape %s: unsupported method %s", o.name, method)
	return nil
}

//-----------------------------------------------------------------------------
// main interpreter loop

func (x *Exec) run(st *State, fr *Frame, b *ssa.BasicBlock, idx int, prev *ssa.BasicBlock) []Out {
	for {
		if st.infeasible() {
			return nil
		}
		if !x.deadline.IsZero() {
			x.steps++
			if x.steps&0xf == 0 && time.Now().After(x.deadline) {
				fail("time budget of the bounded run exhausted")
			}
		}
		if idx == 0 && fr.skipHeader == b {
			// continuation right after a loop cut: phis are already assigned
			fr.skipHeader = nil
			idx = x.countPhis(b)
			if idx == 0 {
				nst, next, nprev, outs, done := x.runInstrs(st, fr, b, 0, prev)
				if done {
					return outs
				}
				st, prev, b = nst, nprev, next
				continue
			}
		}
		if idx == 0 {
			if fr.stopAt == b {
				return []Out{{st: st, kind: oStopped, prev: prev, fr: fr}}
			}
			// loop cut handling
			if outs, handled := x.loopHeader(st, fr, b, prev); handled {
				return outs
			}
			// phis (simultaneous)
			n := 0
			var pv []Value
			for _, in := range b.Instrs {
				phi, ok := in.(*ssa.Phi)
				if !ok {
					break
				}
				n++
				pi := -1
				for i, p := range b.Preds {
					if p == prev {
						pi = i
						break
					}
				}
				if pi < 0 {
					fail("phi without matching predecessor in %s", fr.fn)
				}
				pv = append(pv, x.val(fr, phi.Edges[pi]))
			}
			for i := 0; i < n; i++ {
				phi := b.Instrs[i].(*ssa.Phi)
				fr.regs[phi] = pv[i]
				if phi.Comment != "" {
					fr.env[phi.Comment] = envEntry{v: pv[i]}
				}
			}
			idx = n
		}
		nst, next, nprev, outs, done := x.runInstrs(st, fr, b, idx, prev)
		if done {
			return outs
		}
		st = nst
		prev = nprev
		b = next
		idx = 0
	}
}

// runInstrs executes instructions of b from idx. Returns either the next
// block to continue with, or done=true with the outcomes.
func (x *Exec) runInstrs(st *State, fr *Frame, b *ssa.BasicBlock, idx int, prev *ssa.BasicBlock) (*State, *ssa.BasicBlock, *ssa.BasicBlock, []Out, bool) {
	for i := idx; i < len(b.Instrs); i++ {
		switch in := b.Instrs[i].(type) {
		case *ssa.DebugRef:
			if id, ok := in.Expr.(interface{ String() string }); ok {
				_ = id
			}
			if obj := in.Object(); obj != nil {
				if vobj, isVar := obj.(*types.Var); isVar && !vobj.IsField() {
					if v, ok := x.tryVal(fr, in.X); ok {
						fr.env[obj.Name()] = envEntry{v: v, addr: in.IsAddr}
					}
				}
			}
		case *ssa.Alloc:
			et := in.Type().(*types.Pointer).Elem()
			c := newCell(fr.fn.Name()+"."+in.Comment, et)
			st.store[c] = zeroValue(et)
			fr.regs[in] = &Ptr{cell: c}
			if in.Comment != "" {
				fr.env[in.Comment] = envEntry{v: fr.regs[in], addr: true}
			}
		case *ssa.BinOp:
			fr.regs[in] = x.binop(st, in.Op, x.val(fr, in.X), x.val(fr, in.Y), in.X.Type())
		case *ssa.UnOp:
			if in.Op == token.MUL {
				// load through a pointer that is nil on this path: a panic (the path ends), and an
				// obligation under a safety contract
				if p, ok := x.val(fr, in.X).(*Ptr); ok && p.cell == nil {
					if x.safety {
						x.oblige(st, "safety.nil@"+x.posTag(in.Pos(), fr), tFalse, "nil dereference")
					}
					return nil, nil, nil, []Out{{st: st, kind: oPanic, msg: "nil pointer dereference"}}, true
				}
			}
			fr.regs[in] = x.unop(st, fr, in)
		case *ssa.FieldAddr:
			p := x.ptr(fr, in.X)
			x.derefCheck(st, fr, p, in.Pos())
			if p.cell == nil {
				if x.safety {
					x.oblige(st, "safety.nil@"+x.posTag(in.Pos(), fr), tFalse, "nil dereference")
				}
				return nil, nil, nil, []Out{{st: st, kind: oPanic, msg: "nil pointer dereference"}}, true
			}
			fr.regs[in] = &Ptr{cell: p.cell, path: appendPath(p.path, in.Field), sym: p.sym}
		case *ssa.Field:
			t, ok := x.val(fr, in.X).(*Tuple)
			if !ok {
				fail("Field on non-tuple")
			}
			fr.regs[in] = t.el[in.Field]
		case *ssa.IndexAddr:
			outs, v := x.indexAddr(st, fr, in)
			if outs != nil {
				return nil, nil, nil, outs, true
			}
			fr.regs[in] = v
		case *ssa.Index:
			fr.regs[in] = x.index(st, fr, in)
		case *ssa.Store:
			p := x.ptr(fr, in.Addr)
			if p.cell == nil {
				return nil, nil, nil, []Out{{st: st, kind: oPanic, msg: "nil pointer store"}}, true
			}
			x.storeTo(st, p, x.val(fr, in.Val))
		case *ssa.Convert:
			fr.regs[in] = x.convert(st, x.val(fr, in.X), in.X.Type(), in.Type())
		case *ssa.ChangeType:
			fr.regs[in] = retype(x.val(fr, in.X), in.Type())
		case *ssa.ChangeInterface:
			fr.regs[in] = x.val(fr, in.X)
		case *ssa.MakeInterface:
			v := x.val(fr, in.X)
			if ao, ok := v.(*AbsObj); ok {
				fr.regs[in] = ao
			} else {
				fr.regs[in] = &Iface{dyn: in.X.Type(), val: v}
			}
		case *ssa.TypeAssert:
			fr.regs[in] = x.typeAssert(st, fr, in)
		case *ssa.MakeClosure:
			f := &Func{fn: in.Fn.(*ssa.Function)}
			for _, bnd := range in.Bindings {
				f.bind = append(f.bind, x.val(fr, bnd))
			}
			fr.regs[in] = f
		case *ssa.MakeSlice:
			fr.regs[in] = x.makeSlice(st, fr, in)
		case *ssa.MakeMap:
			fr.regs[in] = &MapV{typ: in.Type(), entries: map[string][2]Value{}}
		case *ssa.MakeChan:
			fr.regs[in] = &Opaque{typ: in.Type(), tag: "chan"}
		case *ssa.MapUpdate:
			x.mapUpdate(st, fr, in)
		case *ssa.Lookup:
			fr.regs[in] = x.lookup(st, fr, in)
		case *ssa.Slice:
			outs, v := x.sliceOp(st, fr, in)
			if outs != nil {
				return nil, nil, nil, outs, true
			}
			fr.regs[in] = v
		case *ssa.Extract:
			t, ok := x.val(fr, in.Tuple).(*Tuple)
			if !ok {
				fail("Extract on non-tuple")
			}
			fr.regs[in] = t.el[in.Index]
		case *ssa.Range:
			fr.regs[in] = x.rangeInit(st, fr, in)
		case *ssa.Next:
			fr.regs[in] = x.rangeNext(st, fr, in)
		case *ssa.Send:
			st.log = append(st.log, Event{kind: "send", args: []Value{x.val(fr, in.Chan), x.val(fr, in.X)}})
			st.version++
		case *ssa.Go:
			var gargs []Value
			if x.noModular {
				// bounded equivalence runs: which function is started, with what
				gargs = x.callDescr(st, fr, &in.Call)
			}
			st.log = append(st.log, Event{kind: "go", args: gargs})
			st.version++
		case *ssa.Defer:
			fr.defers = append(fr.defers, in)
			var av []Value
			if !in.Call.IsInvoke() {
				if _, isFn := in.Call.Value.(*ssa.Function); !isFn {
					if _, isB := in.Call.Value.(*ssa.Builtin); !isB {
						av = append(av, x.val(fr, in.Call.Value))
					}
				}
			} else {
				av = append(av, x.val(fr, in.Call.Value))
			}
			for _, a := range in.Call.Args {
				av = append(av, x.val(fr, a))
			}
			fr.dregs = append(fr.dregs, av)
		case *ssa.RunDefers:
			for k := len(fr.defers) - 1; k >= 0; k-- {
				d := fr.defers[k]
				if x.noModular {
					var dargs []Value
					if fn, ok := d.Call.Value.(*ssa.Function); ok && !d.Call.IsInvoke() {
						dargs = append(dargs, &Func{fn: fn})
					}
					if k < len(fr.dregs) {
						for _, a := range fr.dregs[k] {
							dargs = append(dargs, x.deepSnap(st, a, 6, map[*Cell]bool{}))
						}
					}
					name := "deferred"
					if d.Call.IsInvoke() {
						name += ":" + d.Call.Method.Name()
					}
					st.log = append(st.log, Event{kind: name, args: dargs})
					continue
				}
				st.log = append(st.log, Event{kind: "deferred:" + d.Call.String()})
			}
			fr.defers = nil
			fr.dregs = nil
		case *ssa.Call:
			if fr.ct != nil && len(fr.ct.callAsserts) > 0 {
				x.checkCallAsserts(st, fr, in.Common())
			}
			mark := cellCtr
			outs := x.doCall(st, fr, in.Common())
			outs = x.maybeMergeOuts(st, outs, mark)
			if len(outs) == 1 && outs[0].kind == oRet {
				st = outs[0].st
				fr.regs[in] = resultValue(in.Type(), outs[0].vals)
				continue
			}
			var res []Out
			for _, o := range outs {
				if o.kind != oRet {
					if o.kind == oPanic || o.kind == oCut {
						res = append(res, o)
					}
					continue
				}
				fr2 := fr.clone()
				fr2.regs[in] = resultValue(in.Type(), o.vals)
				res = append(res, x.run(o.st, fr2, b, i+1, prev)...)
			}
			return nil, nil, nil, res, true
		case *ssa.If:
			c := x.term(fr, in.Cond)
			if c.isTrue() {
				return st, b.Succs[0], b, nil, false
			}
			if c.isFalse() {
				return st, b.Succs[1], b, nil, false
			}
			if x.mergeIf || x.specMode > 0 {
				if nb, ok := x.tryMergeRegion(st, fr, b, c); ok {
					// phis at nb already assigned
					outs := x.run(st, fr, nb, x.countPhis(nb), b)
					return nil, nil, nil, outs, true
				}
			}
			x.paths++
			if x.paths > x.maxPaths {
				fail("path limit %d exceeded in %s", x.maxPaths, fr.fn)
			}
			if x.prune {
				// opt prune: a branch the path condition already decides is not explored
				if x.infeasible(st, c) {
					st.assume(mkNot(c))
					return st, b.Succs[1], b, nil, false
				}
				if x.infeasible(st, mkNot(c)) {
					st.assume(c)
					return st, b.Succs[0], b, nil, false
				}
			}
			st1 := st.fork()
			st2 := st.fork()
			fr2 := fr.clone()
			st1.assume(c)
			st2.assume(mkNot(c))
			keep0 := x.boundedFork(fr, b, 0)
			keep1 := x.boundedFork(fr2, b, 1)
			var res []Out
			if keep0 {
				res = x.run(st1, fr, b.Succs[0], 0, b)
			} else {
				x.boundHits++
			}
			if keep1 {
				res = append(res, x.run(st2, fr2, b.Succs[1], 0, b)...)
			} else {
				x.boundHits++
			}
			return nil, nil, nil, res, true
		case *ssa.Jump:
			return st, b.Succs[0], b, nil, false
		case *ssa.Return:
			vals := make([]Value, len(in.Results))
			for k, r := range in.Results {
				vals[k] = x.val(fr, r)
			}
			return nil, nil, nil, []Out{{st: st, vals: vals, kind: oRet, fr: fr}}, true
		case *ssa.Panic:
			msg := valueString(x.val(fr, in.X))
			if x.safety && fr.depth >= 0 {
				x.oblige(st, "safety.panic@"+x.posTag(in.Pos(), fr), tFalse, "explicit panic reachable: "+msg)
			}
			return nil, nil, nil, []Out{{st: st, kind: oPanic, msg: msg}}, true
		default:
			fail("unsupported SSA instruction %T (%s) in %s", in, in, fr.fn)
		}
	}
	fail("block without terminator in %s", fr.fn)
	return nil, nil, nil, nil, true
}

func (x *Exec) tryVal(fr *Frame, v ssa.Value) (val Value, ok bool) {
	defer func() {
		if r := recover(); r != nil {
			ok = false
		}
	}()
	return x.val(fr, v), true
}

func (x *Exec) countPhis(b *ssa.BasicBlock) int {
	n := 0
	for _, in := range b.Instrs {
		if _, ok := in.(*ssa.Phi); !ok {
			break
		}
		n++
	}
	return n
}

func appendPath(p []int, i int) []int {
	n := make([]int, len(p)+1)
	copy(n, p)
	n[len(p)] = i
	return n
}

func resultValue(t types.Type, vals []Value) Value {
	if tt, ok := t.(*types.Tuple); ok {
		if tt.Len() == 0 {
			return nil
		}
		return &Tuple{typ: t, el: vals}
	}
	if len(vals) == 1 {
		return vals[0]
	}
	if len(vals) == 0 {
		return nil
	}
	return &Tuple{typ: t, el: vals}
}

func retype(v Value, t types.Type) Value {
	if tp, ok := v.(*Tuple); ok {
		return &Tuple{typ: t, el: tp.el}
	}
	if sv, ok := v.(*SliceV); ok {
		n := *sv
		n.named = t
		return &n
	}
	return v
}

func (x *Exec) ptr(fr *Frame, v ssa.Value) *Ptr {
	p, ok := x.val(fr, v).(*Ptr)
	if !ok {
		fail("expected pointer for %s in %s, got %s", v.Name(), fr.fn, valueString(x.val(fr, v)))
	}
	return p
}

func (x *Exec) posTag(p token.Pos, fr *Frame) string {
	if !p.IsValid() {
		return fr.fn.Name()
	}
	pos := x.prog.Fset.Position(p)
	// line-free tag: function name + source text column is unstable; use
	// function-relative ordinal instead.
	_ = pos
	return fr.fn.Name()
}

//-----------------------------------------------------------------------------
// merging

// maybeMergeOuts merges several pure normal outcomes into one with ite values.
func (x *Exec) maybeMergeOuts(st *State, outs []Out, mark int) []Out {
	if len(outs) <= 1 {
		return outs
	}
	limit := x.mergeCallMax
	if x.specMode > 0 {
		limit = 64
	}
	if len(outs) > limit {
		return outs
	}
	for _, o := range outs {
		if o.kind != oRet || !pureSince(st, o.st, mark) {
			return outs
		}
		if len(o.st.pc) < len(st.pc) {
			return outs
		}
	}
	base := len(st.pc)
	// merged value: ite chain over path condition deltas (last outcome is default)
	nvals := len(outs[0].vals)
	merged := make([]Value, nvals)
	last := outs[len(outs)-1]
	copy(merged, last.vals)
	for i := len(outs) - 2; i >= 0; i-- {
		cond := mkAnd(outs[i].st.pc[base:]...)
		for k := 0; k < nvals; k++ {
			v, ok := iteValue(cond, outs[i].vals[k], merged[k])
			if !ok {
				return outs
			}
			merged[k] = v
		}
	}
	// union axioms/apps into st; the disjunction of deltas is implied (paths partition)
	for _, o := range outs {
		for _, a := range o.st.ax {
			st.axiom(a)
		}
		for _, ap := range o.st.apps {
			found := false
			for _, q := range st.apps {
				if q.res == ap.res {
					found = true
					break
				}
			}
			if !found {
				st.apps = append(st.apps, ap)
			}
		}
		// new cells allocated in callee (fresh, unreachable unless returned) are merged in
		for c, v := range o.st.store {
			if _, ok := st.store[c]; !ok {
				st.store[c] = v
			}
		}
	}
	return []Out{{st: st, vals: merged, kind: oRet}}
}

func (x *Exec) postDoms(fn *ssa.Function) map[*ssa.BasicBlock]*ssa.BasicBlock {
	if pd, ok := x.postdom[fn]; ok {
		return pd
	}
	// iterative post-dominator sets on small CFGs
	n := len(fn.Blocks)
	all := make([]map[int]bool, n)
	isExit := func(b *ssa.BasicBlock) bool { return len(b.Succs) == 0 }
	for i, b := range fn.Blocks {
		all[i] = map[int]bool{}
		if isExit(b) {
			all[i][i] = true
		} else {
			for j := 0; j < n; j++ {
				all[i][j] = true
			}
		}
	}
	changed := true
	for changed {
		changed = false
		for i := n - 1; i >= 0; i-- {
			b := fn.Blocks[i]
			if isExit(b) {
				continue
			}
			var inter map[int]bool
			for _, s := range b.Succs {
				if inter == nil {
					inter = map[int]bool{}
					for k := range all[s.Index] {
						inter[k] = true
					}
				} else {
					for k := range inter {
						if !all[s.Index][k] {
							delete(inter, k)
						}
					}
				}
			}
			inter[i] = true
			if len(inter) != len(all[i]) {
				all[i] = inter
				changed = true
			}
		}
	}
	pd := map[*ssa.BasicBlock]*ssa.BasicBlock{}
	for i, b := range fn.Blocks {
		// immediate post-dominator: the strict post-dominator that is post-dominated by all others
		var best *ssa.BasicBlock
		for j := range all[i] {
			if j == i {
				continue
			}
			c := fn.Blocks[j]
			if best == nil || all[j][best.Index] {
				// c is post-dominated by best => c is closer
				if best == nil || all[c.Index][best.Index] {
					best = c
				}
			}
		}
		// verify closeness: best must be post-dominated by every other strict pdom
		if best != nil {
			for j := range all[i] {
				if j == i || j == best.Index {
					continue
				}
				if !all[best.Index][j] {
					best = nil
					break
				}
			}
		}
		pd[b] = best
	}
	x.postdom[fn] = pd
	return pd
}

// tryMergeRegion executes both branches of the If ending block b up to the
// immediate post-dominator; if the region is pure the join phis are assigned
// ite-merged values and execution can continue there on a single path.
func (x *Exec) tryMergeRegion(st *State, fr *Frame, b *ssa.BasicBlock, c *Term) (*ssa.BasicBlock, bool) {
	j := x.postDoms(fr.fn)[b]
	if j == nil {
		return nil, false
	}
	if li := x.loops(fr.fn); li != nil {
		// do not merge across loop headers / back edges
		if _, isHdr := li[j]; isHdr {
			return nil, false
		}
		for h, l := range li {
			_ = h
			if l.body[b] != l.body[j] {
				return nil, false
			}
		}
	}
	saveObls := len(x.obls)
	savePaths := x.paths
	mark := cellCtr
	var outs []Out
	ok := func() (ok bool) {
		defer func() {
			if r := recover(); r != nil {
				if _, isE := r.(engineErr); isE {
					ok = false
					return
				}
				panic(r)
			}
		}()
		for k := 0; k < 2; k++ {
			s2 := st.fork()
			f2 := fr.clone()
			f2.stopAt = j
			if k == 0 {
				s2.assume(c)
			} else {
				s2.assume(mkNot(c))
			}
			saveMerge := x.mergeIf
			o := x.run(s2, f2, b.Succs[k], 0, b)
			x.mergeIf = saveMerge
			outs = append(outs, o...)
			if len(outs) > 12 {
				return false
			}
		}
		return true
	}()
	reject := func() (*ssa.BasicBlock, bool) {
		x.obls = x.obls[:saveObls]
		x.paths = savePaths
		return nil, false
	}
	if !ok || len(x.obls) != saveObls || len(outs) == 0 {
		return reject()
	}
	for _, o := range outs {
		if o.kind != oStopped || !pureSince(st, o.st, mark) || o.fr.stopAt != j {
			return reject()
		}
	}
	base := len(st.pc)
	nphi := x.countPhis(j)
	vals := make([]Value, nphi)
	for pi := 0; pi < nphi; pi++ {
		phi := j.Instrs[pi].(*ssa.Phi)
		get := func(o Out) Value {
			for i, p := range j.Preds {
				if p == o.prev {
					return x.val(o.fr, phi.Edges[i])
				}
			}
			fail("merge: no pred")
			return nil
		}
		m := get(outs[len(outs)-1])
		for i := len(outs) - 2; i >= 0; i-- {
			cond := mkAnd(outs[i].st.pc[base:]...)
			v, ok := iteValue(cond, get(outs[i]), m)
			if !ok {
				return reject()
			}
			if x.noIntMerge {
				// integers steer indices, shifts and loop bounds: a conditional integer is
				// explored as two paths instead (bounded equivalence runs)
				if tv, isT := v.(*Term); isT && tv.sort == SInt && tv != m && tv != get(outs[i]) {
					return reject()
				}
			}
			m = v
		}
		vals[pi] = m
	}
	for _, o := range outs {
		for _, a := range o.st.ax {
			st.axiom(a)
		}
		for _, ap := range o.st.apps {
			found := false
			for _, q := range st.apps {
				if q.res == ap.res {
					found = true
					break
				}
			}
			if !found {
				st.apps = append(st.apps, ap)
			}
		}
		for cl, v := range o.st.store {
			if _, ok := st.store[cl]; !ok {
				st.store[cl] = v
			}
		}
	}
	for pi := 0; pi < nphi; pi++ {
		phi := j.Instrs[pi].(*ssa.Phi)
		fr.regs[phi] = vals[pi]
		if phi.Comment != "" {
			fr.env[phi.Comment] = envEntry{v: vals[pi]}
		}
	}
	x.paths = savePaths // the merged region continues as a single path
	return j, true
}

// checkCallAsserts: "callassert <callee> <expr>" obligations of the contract
// under verification, evaluated over the caller's Go variables at the call.
func (x *Exec) checkCallAsserts(st *State, fr *Frame, c *ssa.CallCommon) {
	callee, ok := c.Value.(*ssa.Function)
	if !ok {
		return
	}
	for _, ca := range fr.ct.callAsserts {
		if ca.label != callee.Name() {
			continue
		}
		env := x.frameEnv(fr)
		x.specMode++
		t := x.evalClause(st, env, ca)
		x.specMode--
		x.oblige(st, "call."+callee.Name()+".guard", t, "at every call of "+callee.Name()+": "+ca.text)
	}
}

// infeasible reports whether the hypotheses at st together with c are
// unsatisfiable according to a solver (a short query; "no answer" keeps the path).
func (x *Exec) infeasible(st *State, c *Term) bool {
	asserts := append(append([]*Term{}, x.assumptions(st)...), c)
	r := solveQuery(asserts, nil, "", 3*time.Second, false)
	x.pruneQueries++
	return r.status == "unsat"
}

// callDescr: the callee (as a function value) and the argument values of a go statement.
func (x *Exec) callDescr(st *State, fr *Frame, c *ssa.CallCommon) []Value {
	var out []Value
	if c.IsInvoke() {
		out = append(out, &Str{s: c.Method.Name()}, x.val(fr, c.Value))
	} else if fn, ok := c.Value.(*ssa.Function); ok {
		out = append(out, &Func{fn: fn})
	} else if _, ok := c.Value.(*ssa.Builtin); !ok {
		out = append(out, x.val(fr, c.Value))
	}
	for _, a := range c.Args {
		out = append(out, x.deepSnap(st, x.val(fr, a), 6, map[*Cell]bool{}))
	}
	return out
}
