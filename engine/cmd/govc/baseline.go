package main

// Baseline copies: the verified (pinned) source of the module is kept under
// <verif>/baseline_src. When a proof no longer goes through on a changed tree,
// the functions whose text changed - and every function that reaches one of
// them - are copied from that snapshot, mechanically renamed VerifBase_<name>,
// into an overlay file of the same package, so that the new function and the
// verified one can be executed symbolically side by side on the same inputs
// (equiv.go). Nothing is written to the repository.

import (
	"bytes"
	"fmt"
	"go/ast"
	goparser "go/parser"
	"go/printer"
	"go/token"
	"go/types"
	"os"
	"os/exec"
	"path/filepath"
	"sort"
	"strings"

	"golang.org/x/tools/go/packages"
)

const basePrefix = "VerifBase_"

// declKey names a function or method declaration: directory of the package
// relative to the module root, receiver type name ("" for functions), name.
type declKey struct{ dir, recv, name string }

func (k declKey) String() string {
	if k.recv != "" {
		return k.dir + "." + k.recv + "." + k.name
	}
	return k.dir + "." + k.name
}

func recvName(d *ast.FuncDecl) string {
	if d.Recv == nil || len(d.Recv.List) != 1 {
		return ""
	}
	t := d.Recv.List[0].Type
	if s, ok := t.(*ast.StarExpr); ok {
		t = s.X
	}
	if ix, ok := t.(*ast.IndexExpr); ok {
		t = ix.X
	}
	if id, ok := t.(*ast.Ident); ok {
		return id.Name
	}
	return "?"
}

func declText(fset *token.FileSet, d *ast.FuncDecl) string {
	doc := d.Doc
	d.Doc = nil
	var b bytes.Buffer
	printer.Fprint(&b, fset, d)
	d.Doc = doc
	return b.String()
}

// parseDecls parses the non-test Go files of dir (one package directory).
func parseDecls(fset *token.FileSet, root, dir string) map[declKey]*ast.FuncDecl {
	out := map[declKey]*ast.FuncDecl{}
	ents, err := os.ReadDir(filepath.Join(root, dir))
	if err != nil {
		return out
	}
	for _, e := range ents {
		n := e.Name()
		if e.IsDir() || !strings.HasSuffix(n, ".go") || strings.HasSuffix(n, "_test.go") || n == "verif_contracts.go" {
			continue
		}
		f, err := goparser.ParseFile(fset, filepath.Join(root, dir, n), nil, goparser.SkipObjectResolution)
		if err != nil {
			continue
		}
		for _, d := range f.Decls {
			if fd, ok := d.(*ast.FuncDecl); ok && fd.Body != nil {
				out[declKey{dir, recvName(fd), fd.Name.Name}] = fd
			}
		}
	}
	return out
}

var baselineDirs = []string{"sdf", "render", "obj", "vec/v2", "vec/v3", "vec/v2i", "vec/v3i", "vec/p2", "vec/conv", "render/dc"}

// changedDecls compares the snapshot with the tree under repo: declarations
// whose printed text differs or that no longer exist.
func changedDecls(snap, repo string) map[declKey]bool {
	delta := map[declKey]bool{}
	for _, dir := range baselineDirs {
		fa, fb := token.NewFileSet(), token.NewFileSet()
		old := parseDecls(fa, snap, dir)
		cur := parseDecls(fb, repo, dir)
		for k, d := range old {
			nd, ok := cur[k]
			if !ok || declText(fa, d) != declText(fb, nd) {
				delta[k] = true
			}
		}
	}
	return delta
}

type baselineInfo struct {
	dir     string // scratch copy of the snapshot (removed by close)
	pkgs    map[string]*packages.Package // by directory
	decls   map[declKey]*ast.FuncDecl
	declPkg map[declKey]*packages.Package
	calls   map[declKey]map[declKey]bool
	delta   map[declKey]bool
	tainted map[declKey]bool
	newDecls map[declKey]*ast.FuncDecl // the declarations of the tree (parsed on demand)
	newFset  *token.FileSet
}

func (b *baselineInfo) close() {
	if b != nil && b.dir != "" {
		os.RemoveAll(b.dir)
	}
}

func keyOfFunc(f *types.Func) (declKey, bool) {
	if f.Pkg() == nil || !strings.HasPrefix(f.Pkg().Path(), modulePath) {
		return declKey{}, false
	}
	dir := strings.TrimPrefix(strings.TrimPrefix(f.Pkg().Path(), modulePath), "/")
	sig, _ := f.Type().(*types.Signature)
	recv := ""
	if sig != nil && sig.Recv() != nil {
		t := sig.Recv().Type()
		if p, ok := t.(*types.Pointer); ok {
			t = p.Elem()
		}
		n, ok := t.(*types.Named)
		if !ok {
			return declKey{}, false
		}
		if _, isI := n.Underlying().(*types.Interface); isI {
			return declKey{}, false
		}
		recv = n.Obj().Name()
	}
	return declKey{dir, recv, f.Name()}, true
}

// loadBaseline type-checks a scratch copy of the snapshot and computes the
// static reference graph between its declarations.
func loadBaseline(verif, repo string) (*baselineInfo, error) {
	snap := filepath.Join(verif, "baseline_src")
	if _, err := os.Stat(filepath.Join(snap, "go.mod")); err != nil {
		return nil, fmt.Errorf("no baseline snapshot at %s", snap)
	}
	delta := changedDecls(snap, repo)
	if len(delta) == 0 {
		return &baselineInfo{delta: delta, tainted: map[declKey]bool{}}, nil
	}
	tmp, err := os.MkdirTemp("/var/tmp", "verif-base-")
	if err != nil {
		return nil, err
	}
	if out, err := exec.Command("cp", "-r", snap+"/.", tmp).CombinedOutput(); err != nil {
		os.RemoveAll(tmp)
		return nil, fmt.Errorf("copy snapshot: %v %s", err, out)
	}
	b := &baselineInfo{dir: tmp, pkgs: map[string]*packages.Package{}, decls: map[declKey]*ast.FuncDecl{}, declPkg: map[declKey]*packages.Package{}, calls: map[declKey]map[declKey]bool{}, delta: delta, tainted: map[declKey]bool{}}
	cfg := &packages.Config{
		Mode: packages.NeedName | packages.NeedFiles | packages.NeedCompiledGoFiles | packages.NeedImports | packages.NeedDeps | packages.NeedTypes | packages.NeedSyntax | packages.NeedTypesInfo,
		Dir:  tmp,
		Env:  append(os.Environ(), "GOFLAGS=-mod=mod", "GOPROXY=off", "GOSUMDB=off", "GOTOOLCHAIN=local"),
	}
	pkgs, err := packages.Load(cfg, "./sdf", "./render", "./obj", "./vec/...", "./render/dc")
	if err != nil {
		b.close()
		return nil, err
	}
	var all []*packages.Package
	packages.Visit(pkgs, nil, func(p *packages.Package) {
		if strings.HasPrefix(p.PkgPath, modulePath) {
			all = append(all, p)
		}
	})
	for _, p := range all {
		if len(p.Errors) > 0 {
			b.close()
			return nil, fmt.Errorf("baseline snapshot does not type-check: %v", p.Errors[0])
		}
		dir := strings.TrimPrefix(strings.TrimPrefix(p.PkgPath, modulePath), "/")
		b.pkgs[dir] = p
		for _, f := range p.Syntax {
			for _, d := range f.Decls {
				fd, ok := d.(*ast.FuncDecl)
				if !ok || fd.Body == nil {
					continue
				}
				k := declKey{dir, recvName(fd), fd.Name.Name}
				b.decls[k] = fd
				b.declPkg[k] = p
				refs := map[declKey]bool{}
				ast.Inspect(fd, func(n ast.Node) bool {
					id, ok := n.(*ast.Ident)
					if !ok {
						return true
					}
					if fo, ok := p.TypesInfo.Uses[id].(*types.Func); ok {
						if ck, ok := keyOfFunc(fo); ok {
							refs[ck] = true
						}
					}
					return true
				})
				b.calls[k] = refs
			}
		}
	}
	// tainted: changed, or references a tainted declaration
	for k := range delta {
		if _, ok := b.decls[k]; ok {
			b.tainted[k] = true
		}
	}
	for changed := true; changed; {
		changed = false
		for k, refs := range b.calls {
			if b.tainted[k] {
				continue
			}
			for r := range refs {
				if b.tainted[r] {
					b.tainted[k] = true
					changed = true
					break
				}
			}
		}
	}
	return b, nil
}

// reach returns the tainted declarations reachable from the roots.
func (b *baselineInfo) reach(roots []declKey) map[declKey]bool {
	seen := map[declKey]bool{}
	var walk func(k declKey)
	walk = func(k declKey) {
		if seen[k] {
			return
		}
		seen[k] = true
		for r := range b.calls[k] {
			walk(r)
		}
	}
	for _, r := range roots {
		walk(r)
	}
	out := map[declKey]bool{}
	for k := range seen {
		if b.tainted[k] {
			out[k] = true
		}
	}
	return out
}

// overlay renders the renamed copies of need as one extra file per package
// directory of repo.
func (b *baselineInfo) overlay(repo string, need map[declKey]bool) (map[string][]byte, error) {
	byDir := map[string][]declKey{}
	for k := range need {
		byDir[k.dir] = append(byDir[k.dir], k)
	}
	out := map[string][]byte{}
	for dir, keys := range byDir {
		sort.Slice(keys, func(i, j int) bool { return keys[i].String() < keys[j].String() })
		p := b.pkgs[dir]
		imports := map[string]string{} // local name -> path
		var body bytes.Buffer
		for _, k := range keys {
			fd := b.decls[k]
			// rename references to copied declarations and collect the imports used
			ast.Inspect(fd, func(n ast.Node) bool {
				id, ok := n.(*ast.Ident)
				if !ok {
					return true
				}
				switch o := p.TypesInfo.Uses[id].(type) {
				case *types.Func:
					if ck, ok := keyOfFunc(o); ok && need[ck] && !strings.HasPrefix(id.Name, basePrefix) {
						id.Name = basePrefix + id.Name
					}
				case *types.PkgName:
					imports[id.Name] = o.Imported().Path()
				}
				return true
			})
			if !strings.HasPrefix(fd.Name.Name, basePrefix) {
				fd.Name.Name = basePrefix + fd.Name.Name
			}
			fd.Doc = nil
			if err := printer.Fprint(&body, p.Fset, fd); err != nil {
				return nil, err
			}
			body.WriteString("\n\n")
		}
		var src bytes.Buffer
		src.WriteString("//go:build verif\n\n// Code generated from the verified baseline snapshot; not part of the repository.\n\npackage " + p.Name + "\n\n")
		var names []string
		for n := range imports {
			names = append(names, n)
		}
		sort.Strings(names)
		if len(names) > 0 {
			src.WriteString("import (\n")
			for _, n := range names {
				fmt.Fprintf(&src, "\t%s %q\n", n, imports[n])
			}
			src.WriteString(")\n\n")
		}
		src.Write(body.Bytes())
		out[filepath.Join(repo, dir, "zz_verif_baseline.go")] = src.Bytes()
	}
	return out, nil
}

// loopShapes: the headers of the loops of a declaration with every identifier
// blanked ("for _ := 0; _ < _; _++", "for _, _ := range _._"): what a rename
// leaves alone and what peeling, re-striding or converting a loop changes.
func loopShapes(fset *token.FileSet, d *ast.FuncDecl) []string {
	var out []string
	blank := func(n ast.Node) string {
		if n == nil {
			return ""
		}
		var b bytes.Buffer
		printer.Fprint(&b, fset, n)
		src := b.String()
		// blank identifiers: a crude lexer is enough (keywords never occur inside these fragments
		// except range/len-like builtins, which are kept as written)
		var o strings.Builder
		i := 0
		for i < len(src) {
			c := src[i]
			if c == '_' || c >= 'a' && c <= 'z' || c >= 'A' && c <= 'Z' {
				j := i
				for j < len(src) && (src[j] == '_' || src[j] >= 'a' && src[j] <= 'z' || src[j] >= 'A' && src[j] <= 'Z' || src[j] >= '0' && src[j] <= '9') {
					j++
				}
				w := src[i:j]
				switch w {
				case "len", "cap", "range", "true", "false", "nil":
					o.WriteString(w)
				default:
					o.WriteString("_")
				}
				i = j
				continue
			}
			if c != ' ' && c != '\t' && c != '\n' {
				o.WriteByte(c)
			}
			i++
		}
		return o.String()
	}
	ast.Inspect(d, func(n ast.Node) bool {
		switch st := n.(type) {
		case *ast.ForStmt:
			out = append(out, "for "+blank(st.Init)+";"+blank(st.Cond)+";"+blank(st.Post))
		case *ast.RangeStmt:
			kv := 0
			if st.Key != nil {
				kv++
			}
			if st.Value != nil {
				kv++
			}
			out = append(out, fmt.Sprintf("range%d %s", kv, blank(st.X)))
		}
		return true
	})
	return out
}

// sameLoopShapes: do the declarations that changed between the snapshot and
// the tree, as far as they are reachable from k, have the same loop headers
// (helpers the snapshot does not have count for the tree)?
func (b *baselineInfo) sameLoopShapes(repo string, k declKey) bool {
	if b.newDecls == nil {
		b.newDecls = map[declKey]*ast.FuncDecl{}
		b.newFset = token.NewFileSet()
		for _, dir := range baselineDirs {
			for kk, d := range parseDecls(b.newFset, repo, dir) {
				b.newDecls[kk] = d
			}
		}
	}
	var sa, sb []string
	for r := range b.reach([]declKey{k}) {
		if !b.delta[r] {
			continue
		}
		if d, ok := b.decls[r]; ok {
			sb = append(sb, loopShapes(b.declPkg[r].Fset, d)...)
		}
		if d, ok := b.newDecls[r]; ok {
			sa = append(sa, loopShapes(b.newFset, d)...)
		}
	}
	for kk, d := range b.newDecls {
		if _, inBase := b.decls[kk]; !inBase {
			sa = append(sa, loopShapes(b.newFset, d)...)
		}
	}
	sort.Strings(sa)
	sort.Strings(sb)
	if len(sa) != len(sb) {
		return false
	}
	for i := range sa {
		if sa[i] != sb[i] {
			return false
		}
	}
	return true
}

// unchangedLoops: for every changed declaration reachable from k that exists
// in both versions, the positions (in source order) of the loops whose header
// shape is the same in both; nil for a declaration whose number of loops changed.
func (b *baselineInfo) unchangedLoops(repo string, k declKey) map[declKey][]bool {
	b.sameLoopShapes(repo, k) // parses the tree on first use
	out := map[declKey][]bool{}
	for r := range b.reach([]declKey{k}) {
		od, ok1 := b.decls[r]
		nd, ok2 := b.newDecls[r]
		if !ok1 || !ok2 {
			continue
		}
		so := loopShapes(b.declPkg[r].Fset, od)
		sn := loopShapes(b.newFset, nd)
		if len(so) != len(sn) {
			out[r] = nil
			continue
		}
		same := make([]bool, len(so))
		for i := range so {
			same[i] = so[i] == sn[i]
		}
		out[r] = same
	}
	return out
}
