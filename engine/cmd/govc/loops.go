package main

// Natural loops and invariant-based loop cutting.

import (
	"fmt"
	"go/token"
	"go/types"
	"os"
	"sort"
	"strings"

	"golang.org/x/tools/go/ssa"
)

type loopT struct {
	header  *ssa.BasicBlock
	body    map[*ssa.BasicBlock]bool
	ordinal int
}

func (x *Exec) loops(fn *ssa.Function) map[*ssa.BasicBlock]*loopT {
	if l, ok := x.loopInfo[fn]; ok {
		return l
	}
	res := map[*ssa.BasicBlock]*loopT{}
	for _, b := range fn.Blocks {
		for _, s := range b.Succs {
			if s.Dominates(b) {
				// back edge b -> s
				l := res[s]
				if l == nil {
					l = &loopT{header: s, body: map[*ssa.BasicBlock]bool{s: true}}
					res[s] = l
				}
				// nodes that reach b without passing s
				stack := []*ssa.BasicBlock{b}
				for len(stack) > 0 {
					n := stack[len(stack)-1]
					stack = stack[:len(stack)-1]
					if l.body[n] {
						continue
					}
					l.body[n] = true
					stack = append(stack, n.Preds...)
				}
			}
		}
	}
	var hs []*ssa.BasicBlock
	for h := range res {
		hs = append(hs, h)
	}
	sort.Slice(hs, func(i, j int) bool { return hs[i].Index < hs[j].Index })
	for i, h := range hs {
		res[h].ordinal = i
	}
	x.loopInfo[fn] = res
	return res
}

const unrollLimit = 1200

func (x *Exec) loopHeader(st *State, fr *Frame, b *ssa.BasicBlock, prev *ssa.BasicBlock) ([]Out, bool) {
	li := x.loops(fr.fn)
	l := li[b]
	if l == nil {
		return nil, false
	}
	var invs []*Clause
	if fr.ct != nil {
		invs = fr.ct.invs[l.ordinal]
	}
	lock := false
	if len(invs) == 0 && x.lockstep && x.lockLoops[loopName(fr.fn, l)] {
		lock = true
	}
	if len(invs) == 0 && x.boundK > 0 && !lock {
		// bounded run: at most boundK iterations per entry of this loop
		if fr.visits == nil {
			fr.visits = map[*ssa.BasicBlock]int{}
		}
		if !l.body[prev] {
			fr.visits[b] = 0 // entered from outside: iterations are counted per entry
			delete(fr.visits, l.header) // (same key; kept for clarity)
			if fr.forked != nil {
				delete(fr.forked, b)
			}
		}
		if !l.body[prev] {
			delete(fr.iterSig, b)
			delete(fr.prevSig, b)
		}
		fr.visits[b]++
		if fr.forked[b] && fr.visits[b] > x.boundK+1 {
			// a loop whose course depends on symbolic data: boundK iterations per entry are
			// explored freely; beyond that only "more of the same" - an iteration that takes
			// exactly the branches the previous one took - up to boundTail iterations, which
			// reaches what only shows with many elements (every third, the fifth, aliasing)
			if fr.visits[b] > boundTail+1 || fr.iterSig[b] != fr.prevSig[b] {
				x.boundHits++
				return nil, true
			}
		}
		if fr.iterSig != nil {
			if fr.prevSig == nil {
				fr.prevSig = map[*ssa.BasicBlock]string{}
			}
			fr.prevSig[b] = fr.iterSig[b]
			fr.iterSig[b] = ""
		}
		fr.unroll++
		if fr.unroll > unrollLimit {
			if os.Getenv("VERIF_EQUIV_DEBUG") != "" {
				fmt.Fprintf(os.Stderr, "unroll limit in %s loop %d, visits %v, pc tail:\n", fr.fn, l.ordinal, fr.visits)
				n := len(st.pc)
				for i := n - 12; i < n; i++ {
					if i >= 0 {
						fmt.Fprintf(os.Stderr, "   %s\n", st.pc[i])
					}
				}
			}
			fail("loop %d of %s does not unroll (no invariant given)", l.ordinal, fr.fn)
		}
		return nil, false
	}
	if len(invs) == 0 && !lock {
		fr.unroll++
		if fr.unroll > unrollLimit {
			fail("loop %d of %s does not unroll (no invariant given)", l.ordinal, fr.fn)
		}
		return nil, false
	}
	// environment with phi inputs from prev
	nphi := x.countPhis(b)
	pi := -1
	for i, p := range b.Preds {
		if p == prev {
			pi = i
		}
	}
	if pi < 0 {
		fail("loop header without matching predecessor")
	}
	in := make([]Value, nphi)
	for i := 0; i < nphi; i++ {
		in[i] = x.val(fr, b.Instrs[i].(*ssa.Phi).Edges[pi])
	}
	evalInvs := func(s *State, f *Frame, tag string, assume bool) {
		x.specMode++
		defer func() { x.specMode-- }()
		env := x.frameEnv(f)
		for k, cl := range invs {
			if assume && hasExists(cl) {
				s.assume(x.assumeClause(s, env, cl, func(n string, v Value) { f.env[n] = envEntry{v: v} }))
				continue
			}
			if assume && len(cl.vars) > 0 {
				// quantified invariant: an instantiable fact about the loop-head state
				x.schemaCtr++
				snapEnv := x.frameEnv(f.clone())
				s.schemas = append(s.schemas, &schema{vars: cl.vars, expr: cl.expr, env: snapEnv, st: s.fork(), text: fmt.Sprintf("inv%d.%d@%d:%s", l.ordinal, k, x.schemaCtr, cl.text)})
				continue
			}
			if !assume && fr.ct != nil {
				x.witnessTuples = fr.ct.witnesses[l.ordinal]
			}
			t := x.evalClause(s, env, cl)
			x.witnessTuples = nil
			if assume {
				s.assume(t)
			} else {
				x.oblige(s, fmt.Sprintf("inv%d.%d.%s", l.ordinal, k, tag), t, "loop invariant: "+cl.text)
			}
		}
	}
	setPhis := func(f *Frame, vals []Value) {
		hasRange := false
		for i := 0; i < nphi; i++ {
			phi := b.Instrs[i].(*ssa.Phi)
			f.regs[phi] = vals[i]
			if phi.Comment != "" {
				f.env[phi.Comment] = envEntry{v: vals[i]}
				if phi.Comment == "rangeindex" {
					hasRange = true
					if lv := rangeLenValue(b, phi); lv != nil {
						if v, ok := f.regs[lv]; ok {
							// the length the range statement took before its first iteration
							f.env["rangelen"] = envEntry{v: v}
						}
					}
				}
			}
		}
		if !hasRange {
			// a counting loop "for i := 0; ...; i++" that used to be (or may be read as) a range
			// loop: annotations written for the range form speak of rangeindex == i - 1
			if k := countingPhi(b, l); k >= 0 {
				if t, ok := vals[k].(*Term); ok && t.sort == SInt {
					f.env["rangeindex"] = envEntry{v: mkSub(t, mkInt(1))}
				}
			}
		}
	}
	if lock && fr.loops[b] && !l.body[prev] {
		// lockstep: an enclosing loop that is being unrolled comes round to this loop again:
		// it is reached anew, as the next cut loop on this path
		delete(fr.loops, b)
	}
	if fr.loops[b] {
		// back edge: invariant must be preserved; path ends
		if !l.body[prev] {
			fail("re-entry of cut loop %d (header block %d) from block %d of %s", l.ordinal, b.Index, prev.Index, fr.fn)
		}
		f2 := fr.clone()
		setPhis(f2, in)
		evalInvs(st, f2, "preserve", false)
		if fr.ct != nil {
			// body clauses see the loop variables as they were at the start of this iteration
			f3 := fr.clone()
			for i := 0; i < nphi; i++ {
				phi := b.Instrs[i].(*ssa.Phi)
				if phi.Comment != "" {
					f3.env[phi.Comment] = envEntry{v: fr.regs[phi]}
				}
			}
			env := x.frameEnv(f3)
			for k, cl := range fr.ct.bodies[l.ordinal] {
				x.specMode++
				t := x.evalClause(st, env, cl)
				x.specMode--
				x.oblige(st, fmt.Sprintf("body%d.%d", l.ordinal, k), t, "every iteration: "+cl.text)
			}
		}
		if lock {
			// lockstep: the state handed to the next iteration, loop-carried values in the common order
			return []Out{{st: st, kind: oCut, vals: x.lockVals(st, fr, b, in), msg: fr.lockKey[b]}}, true
		}
		return []Out{{st: st, kind: oCut}}, true
	}
	// entry
	if lock {
		x.lockEnter(st, fr, b, in)
	}
	f2 := fr.clone()
	setPhis(f2, in)
	fr.preSt = append(fr.preSt, st.fork())
	fr.preFr = append(fr.preFr, f2)
	f2.preSt, f2.preFr = fr.preSt, fr.preFr
	var savedGen map[int]*Term
	if fr.ct != nil && len(fr.ct.forget[l.ordinal]) > 0 {
		// the invariants must hold of the forgotten variables whatever their values are: prove the
		// entry obligations with their compound values generalised to fresh variables
		savedGen = st.gen
		st.gen = map[int]*Term{}
		for k, t := range savedGen {
			st.gen[k] = t
		}
		var gen func(v Value, name string)
		gen = func(v Value, name string) {
			switch t := v.(type) {
			case *Term:
				if len(t.args) > 0 {
					if _, done := st.gen[t.id]; !done {
						st.gen[t.id] = freshVar("gen$"+name, t.sort)
					}
				}
			case *Tuple:
				for i, e := range t.el {
					gen(e, fmt.Sprintf("%s.%d", name, i))
				}
			}
		}
		for _, name := range fr.ct.forget[l.ordinal] {
			if ee, ok := f2.env[name]; ok && !ee.addr {
				gen(ee.v, name)
			}
		}
	}
	evalInvs(st, f2, "entry", false)
	if savedGen != nil || (fr.ct != nil && len(fr.ct.forget[l.ordinal]) > 0) {
		st.gen = savedGen
	}
	if fr.ct != nil && x.dry == 0 {
		env := x.frameEnv(f2)
		for k, cl := range fr.ct.entries[l.ordinal] {
			x.specMode++
			t := x.evalClause(st, env, cl)
			x.specMode--
			x.oblige(st, fmt.Sprintf("atentry%d.%d", l.ordinal, k), t, "when the loop is reached: "+cl.text)
		}
	}
	// write set by dry runs
	written := map[*Cell]bool{}
	for round := 0; round < 4; round++ {
		d := st.fork()
		d.written = map[*Cell]bool{}
		df := fr.clone()
		df.loops = map[*ssa.BasicBlock]bool{b: true}
		for k := range fr.loops {
			df.loops[k] = true
		}
		x.havocLoop(d, df, b, nphi, written)
		saveObl := len(x.obls)
		savePaths := x.paths
		x.dry++
		outs := func() (outs []Out) {
			defer func() { x.dry-- }()
			df.ct = &Contract{invs: map[int][]*Clause{}} // no nested cutting during dry run: unroll or fail
			df.ct = fr.ct
			df.stopAt = nil
			return x.runBodyOnce(d, df, b, nphi, prev)
		}()
		x.obls = x.obls[:saveObl]
		x.paths = savePaths
		before := len(written)
		for _, o := range outs {
			// only states that flow back to the loop head matter: what an exit path writes
			// after leaving the loop is not part of the loop's frame
			if o.kind == oCut && o.st != nil && o.st.written != nil {
				for c := range o.st.written {
					if _, existed := st.store[c]; existed {
						written[c] = true
					}
				}
			}
		}
		if len(written) == before {
			break
		}
	}
	if fr.loops == nil {
		fr.loops = map[*ssa.BasicBlock]bool{}
	}
	fr.loops[b] = true
	if lock {
		if fr.lockFresh == nil {
			fr.lockFresh = map[*ssa.BasicBlock][]*Cell{}
		}
		fr.lockFresh[b] = x.lockFreshWritten(written)
		if x.dry == 0 {
			// the state in which the loop is reached, including what the cells it is about to
			// overwrite hold
			x.lockEntries = append(x.lockEntries, lockRec{key: fr.lockKey[b], vals: x.lockVals(st, fr, b, in), st: st.fork()})
		}
	}
	x.havocLoop(st, fr, b, nphi, written)
	if fr.ct != nil && len(fr.ct.forget[l.ordinal]) > 0 {
		// path-condition conjuncts about the forgotten values are dropped with them
		// (dropping hypotheses is always sound); invariants carry what the loop needs
		gone := map[int]bool{}
		var collect func(v Value)
		collect = func(v Value) {
			switch t := v.(type) {
			case *Term:
				if len(t.args) > 0 {
					gone[t.id] = true
				}
			case *Tuple:
				for _, e := range t.el {
					collect(e)
				}
			}
		}
		for _, name := range fr.ct.forget[l.ordinal] {
			if ee, ok := fr.env[name]; ok && !ee.addr {
				collect(ee.v)
			}
		}
		memo := map[int]bool{}
		var mentions func(t *Term) bool
		mentions = func(t *Term) bool {
			if gone[t.id] {
				return true
			}
			if r, ok := memo[t.id]; ok {
				return r
			}
			r := false
			for _, a := range t.args {
				if mentions(a) {
					r = true
					break
				}
			}
			memo[t.id] = r
			return r
		}
		var keep []*Term
		for _, t := range st.pc {
			if !mentions(t) {
				keep = append(keep, t)
			}
		}
		st.pc = keep
	}
	if fr.ct != nil {
		for _, name := range fr.ct.forget[l.ordinal] {
			ee, ok := fr.env[name]
			if !ok || ee.addr {
				// not a register-allocated variable here: nothing to abstract (forgetting less is sound)
				continue
			}
			nv := x.havocLike(st, ee.v, nil, fr.fn.Name()+"$"+name)
			if tp, isT := ee.v.(*Tuple); isT {
				nv = x.havocLike(st, ee.v, tp.typ, fr.fn.Name()+"$"+name)
			}
			for k, rv := range fr.regs {
				if rv == ee.v {
					fr.regs[k] = nv
				}
			}
			fr.env[name] = envEntry{v: nv}
		}
	}
	st.logMark = len(st.log)
	st.cutMark = cellCtr
	evalInvs(st, fr, "assume", true)
	if nphi == 0 {
		fr.skipHeader = b
	}
	return x.run(st, fr, b, nphi, prev), true
}

// runBodyOnce executes from the loop header (phis assigned) until the back
// edge (reported as oCut by the recursive header handling) or function exit.
func (x *Exec) runBodyOnce(st *State, fr *Frame, b *ssa.BasicBlock, nphi int, prev *ssa.BasicBlock) []Out {
	var outs []Out
	func() {
		defer func() {
			if r := recover(); r != nil {
				if _, ok := r.(engineErr); ok {
					return
				}
				panic(r)
			}
		}()
		if nphi == 0 {
			fr.skipHeader = b
		}
		outs = x.run(st, fr, b, nphi, prev)
	}()
	return outs
}

func (x *Exec) havocLoop(st *State, fr *Frame, b *ssa.BasicBlock, nphi int, written map[*Cell]bool) {
	lk := ""
	if x.lockstep {
		lk = fr.lockKey[b]
	}
	for i := 0; i < nphi; i++ {
		phi := b.Instrs[i].(*ssa.Phi)
		name := phi.Comment
		if name == "" {
			name = phi.Name()
		}
		hn := fr.fn.Name() + "$" + name
		if lk != "" {
			// the same unknown for corresponding loop-carried variables of the two versions
			pos := i
			if pm := fr.lockPerm[b]; i < len(pm) {
				pos = pm[i]
			}
			hn = fmt.Sprintf("%s.p%d", lk, pos)
		}
		old := fr.regs[phi]
		var nv Value
		if old != nil {
			nv = x.havocLike(st, old, phi.Type(), hn)
		} else {
			nv = x.symValue(st, phi.Type(), hn)
		}
		fr.regs[phi] = nv
		if phi.Comment != "" {
			fr.env[phi.Comment] = envEntry{v: nv}
			if phi.Comment == "rangeindex" {
				if lv := rangeLenValue(b, phi); lv != nil {
					if v, ok := fr.regs[lv]; ok {
						fr.env["rangelen"] = envEntry{v: v}
					}
				}
			}
		}
	}
	if _, has := fr.env["rangeindex"]; !has || fr.rangeAlias[b] {
		if l := x.loops(fr.fn)[b]; l != nil {
			if k := countingPhi(b, l); k >= 0 {
				if t, ok := fr.regs[b.Instrs[k].(*ssa.Phi)].(*Term); ok && t.sort == SInt {
					fr.env["rangeindex"] = envEntry{v: mkSub(t, mkInt(1))}
					if fr.rangeAlias == nil {
						fr.rangeAlias = map[*ssa.BasicBlock]bool{}
					}
					fr.rangeAlias[b] = true
				}
			}
		}
	}
	var cells []*Cell
	for c := range written {
		cells = append(cells, c)
	}
	sort.Slice(cells, func(i, j int) bool { return cells[i].id < cells[j].id })
	nf := 0
	for _, c := range cells {
		hn := "loop$" + c.name
		if lk != "" {
			if x.lockShared[c] {
				hn = fmt.Sprintf("%s.wc%d", lk, c.id) // a cell both runs know
			} else {
				hn = fmt.Sprintf("%s.wf%d", lk, nf) // the n-th written cell that this run allocated
				nf++
			}
		}
		st.store[c] = x.havocLike(st, st.store[c], c.typ, hn)
		st.wlog = append(st.wlog, c.id)
	}
}

// loopName: a loop of a function, the same for a function and its baseline copy.
func loopName(fn *ssa.Function, l *loopT) string {
	return fmt.Sprintf("%s#%d", strings.ReplaceAll(fn.String(), basePrefix, ""), l.ordinal)
}

type lockRec struct {
	key  string
	vals []Value
	st   *State
}

type phiSig struct{ typ, entry string }

func permute(vals []Value, perm []int) []Value {
	if perm == nil {
		return vals
	}
	n := 0
	for i, p := range perm {
		if i < len(vals) && p >= n {
			n = p + 1
		}
	}
	out := make([]Value, n)
	for i, v := range vals {
		if i < len(perm) {
			out[perm[i]] = v
		}
	}
	return out
}

// lockEnter: a loop cut in lockstep is reached. It gets the name of the n-th
// such loop on this path; its loop-carried variables are put in an order
// common to both versions (run A fixes it, run B matches its own variables to
// it by type and entry value); the state in which the loop is reached is
// recorded, to be compared between the versions.
func (x *Exec) lockEnter(st *State, fr *Frame, b *ssa.BasicBlock, in []Value) {
	lk := x.occName(st, "lk")
	if fr.lockKey == nil {
		fr.lockKey = map[*ssa.BasicBlock]string{}
		fr.lockPerm = map[*ssa.BasicBlock][]int{}
	}
	fr.lockKey[b] = lk
	qual := func(p *types.Package) string { return p.Name() }
	sigs := make([]phiSig, len(in))
	for i := range in {
		phi := b.Instrs[i].(*ssa.Phi)
		sigs[i] = phiSig{typ: types.TypeString(phi.Type(), qual)}
		if t, ok := in[i].(*Term); ok {
			sigs[i].entry = t.String()
		}
	}
	perm := make([]int, len(in))
	for i := range perm {
		perm[i] = i
	}
	if !x.lockRunB {
		if x.lockSigs == nil {
			x.lockSigs = map[string][]phiSig{}
		}
		if _, ok := x.lockSigs[lk]; !ok {
			x.lockSigs[lk] = sigs
		}
	} else if ref, ok := x.lockSigs[lk]; ok {
		used := make([]bool, len(ref))
		for i := range perm {
			perm[i] = -1
		}
		// same type and same entry value first, then same type in order
		for pass := 0; pass < 2; pass++ {
			for i, sg := range sigs {
				if perm[i] >= 0 {
					continue
				}
				for j, rs := range ref {
					if used[j] || rs.typ != sg.typ || (pass == 0 && (rs.entry != sg.entry || sg.entry == "")) {
						continue
					}
					perm[i], used[j] = j, true
					break
				}
			}
		}
		next := len(ref)
		for i := range perm {
			if perm[i] < 0 {
				perm[i] = next // a variable the other version does not carry
				next++
			}
		}
	}
	// congruent counters: two loop-carried variables that start from the same value and are both
	// advanced by the same constant are the same variable (a redundant index one version dropped)
	step := func(i int) (string, bool) {
		phi := b.Instrs[i].(*ssa.Phi)
		l := x.loops(fr.fn)[b]
		res := ""
		for ei, e := range phi.Edges {
			if l == nil || !l.body[b.Preds[ei]] {
				continue
			}
			bo, ok := e.(*ssa.BinOp)
			if !ok || bo.X != ssa.Value(phi) {
				return "", false
			}
			cst, ok := bo.Y.(*ssa.Const)
			if !ok || cst.Value == nil {
				return "", false
			}
			s := bo.Op.String() + cst.Value.ExactString()
			if res != "" && res != s {
				return "", false
			}
			res = s
		}
		return res, res != ""
	}
	for i := range perm {
		si, ok := step(i)
		if !ok || sigs[i].entry == "" {
			continue
		}
		for j := 0; j < i; j++ {
			if sj, ok := step(j); ok && sj == si && sigs[j] == sigs[i] {
				perm[i] = perm[j]
				break
			}
		}
	}
	fr.lockPerm[b] = perm
}

// lockFreshWritten: the cells the cut loop writes that this run allocated
// itself (the other run does not know them), in allocation order: their
// contents are compared position by position, like the loop-carried values.
func (x *Exec) lockFreshWritten(written map[*Cell]bool) []*Cell {
	var cells []*Cell
	for c := range written {
		if !x.lockShared[c] {
			cells = append(cells, c)
		}
	}
	sort.Slice(cells, func(i, j int) bool { return cells[i].id < cells[j].id })
	return cells
}

// lockVals: what a cut loop hands on - loop-carried values in the common
// order, then the contents of the fresh cells it writes.
func (x *Exec) lockVals(st *State, fr *Frame, b *ssa.BasicBlock, in []Value) []Value {
	vals := append([]Value{}, permute(in, fr.lockPerm[b])...)
	for _, c := range fr.lockFresh[b] {
		vals = append(vals, st.store[c])
	}
	return vals
}


// havocLike returns a fresh symbolic value of the same shape as old.
func (x *Exec) havocLike(st *State, old Value, t types.Type, name string) Value {
	switch o := old.(type) {
	case *Term:
		v := freshVar(name, o.sort)
		rangeAxiom(st, v, t)
		return v
	case *Tuple:
		el := make([]Value, len(o.el))
		for i := range el {
			var ft types.Type
			if o.typ != nil {
				switch u := o.typ.Underlying().(type) {
				case *types.Struct:
					ft = u.Field(i).Type()
				case *types.Array:
					ft = u.Elem()
				}
			}
			el[i] = x.havocLike(st, o.el[i], ft, fmt.Sprintf("%s.%d", name, i))
		}
		return &Tuple{typ: o.typ, el: el}
	case *SymArr:
		return &SymArr{elem: o.elem, name: x.havocArrName(o.name)}
	case *SliceV:
		// a slice variable assigned in the loop: fresh symbolic contents and length
		ln := freshVar(name+"$len", SInt)
		st.axiom(mkLe(mkInt(0), ln))
		cp := freshVar(name+"$cap", SInt)
		st.axiom(mkLe(ln, cp))
		cell := newCell(name, types.NewArray(o.elem, -1))
		st.store[cell] = &SymArr{elem: o.elem, name: x.havocArrName(sanitize(name))}
		nl := freshVar(name+"$isnil", SBool)
		st.axiom(mkImplies(nl, mkAnd(mkEq(ln, mkInt(0)), mkEq(cp, mkInt(0)))))
		return &SliceV{cell: cell, off: mkInt(0), len: ln, cap: cp, elem: o.elem, named: o.named, nilT: nl}
	case *Ptr, *Func, *AbsObj, *Iface, *Opaque, *Str, *MapV:
		return old
	}
	return old
}

// frameEnv builds a spec environment from the current Go variable bindings.
func (x *Exec) frameEnv(fr *Frame) *Env {
	env := &Env{vars: map[string]Value{}, frame: fr, frameFirst: true}
	if n := len(fr.preSt); n > 0 {
		env.preSt = fr.preSt[n-1]
		pf := fr.preFr[n-1]
		env.preEnv = &Env{vars: map[string]Value{}, frame: pf, frameFirst: true}
		if pf.fn.Pkg != nil {
			env.preEnv.pkg = pf.fn.Pkg
		} else if pf.fn.Parent() != nil {
			env.preEnv.pkg = pf.fn.Parent().Pkg
		}
	}
	if fr.fn.Pkg != nil {
		env.pkg = fr.fn.Pkg
	} else if fr.fn.Parent() != nil {
		env.pkg = fr.fn.Parent().Pkg
	}
	if x.curEnv != nil {
		env.parent = x.curEnv
		env.old = x.curEnv.old
		env.oldEnv = x.curEnv.oldEnv
		if env.pkg == nil {
			env.pkg = x.curEnv.pkg
		}
	}
	return env
}

// boundedFork is called in a bounded run when a symbolic branch is forked at
// block b: every loop containing b now depends on symbolic data, and its
// iterations are counted (see loopHeader).
const boundTail = 13

func (x *Exec) boundedFork(fr *Frame, b *ssa.BasicBlock, succ int) (keep bool) {
	keep = true
	if x.boundK <= 0 {
		return
	}
	for h, l := range x.loops(fr.fn) {
		if l.body[b] {
			if fr.forked == nil {
				fr.forked = map[*ssa.BasicBlock]bool{}
			}
			fr.forked[h] = true
			if fr.iterSig == nil {
				fr.iterSig = map[*ssa.BasicBlock]string{}
			}
			fr.iterSig[h] += fmt.Sprintf("%d:%d;", b.Index, succ)
			// in the tail (beyond the freely explored iterations) an iteration may only repeat the
			// previous one: a branch that departs from it is dropped at once, unless it leaves the loop
			if fr.visits[h] > x.boundK+1 && l.body[b.Succs[succ]] && !strings.HasPrefix(fr.prevSig[h], fr.iterSig[h]) {
				keep = false
			}
			if x.symLoops != nil {
				x.symLoops[loopName(fr.fn, l)] = true
			}
		}
	}
	return keep
}

// havocArrName names the unknown contents of a havocked array. In a bounded
// equivalence run the n-th array havocked under a name is the same unknown in
// both runs (the counters restart with the run); elsewhere a global counter.
func (x *Exec) havocArrName(base string) string {
	if x.noModular {
		if strings.Contains(base, occMarker) {
			return base + "_e"
		}
		k := "symarr$" + base
		n := freshCtr[k]
		freshCtr[k] = n + 1
		return fmt.Sprintf("%s_e%d", base, n)
	}
	x.symArrCtr++
	return fmt.Sprintf("%s_h%d", base, x.symArrCtr)
}

// countingPhi: index of the header phi of a loop that starts at 0 outside the
// loop and is incremented by 1 inside it (-1 unless there is exactly one).
// rangeLenValue: for the header block of a "for i := range slice" loop, the SSA value of the
// length taken before the loop (the bound the hidden index is compared with).
func rangeLenValue(b *ssa.BasicBlock, phi *ssa.Phi) ssa.Value {
	var inc ssa.Value
	for _, in := range b.Instrs {
		bo, ok := in.(*ssa.BinOp)
		if !ok {
			continue
		}
		if bo.Op == token.ADD && bo.X == ssa.Value(phi) {
			inc = bo
		}
		if bo.Op == token.LSS && inc != nil && bo.X == inc {
			if _, isConst := bo.Y.(*ssa.Const); isConst {
				return nil
			}
			return bo.Y
		}
	}
	return nil
}

func countingPhi(b *ssa.BasicBlock, l *loopT) int {
	found := -1
	for i, in := range b.Instrs {
		phi, ok := in.(*ssa.Phi)
		if !ok {
			break
		}
		bt, isB := phi.Type().Underlying().(*types.Basic)
		if !isB || bt.Kind() != types.Int {
			continue
		}
		okIn, okOut := false, false
		for ei, e := range phi.Edges {
			if l.body[b.Preds[ei]] {
				if bo, ok := e.(*ssa.BinOp); ok && bo.Op == token.ADD {
					if c, ok := bo.Y.(*ssa.Const); ok && c.Value != nil && c.Int64() == 1 && bo.X == ssa.Value(phi) {
						okIn = true
						continue
					}
				}
				okIn = false
				break
			} else {
				if c, ok := e.(*ssa.Const); ok && c.Value != nil && c.Int64() == 0 {
					okOut = true
				} else {
					okOut = false
					break
				}
			}
		}
		if okIn && okOut {
			if found >= 0 {
				return -1
			}
			found = i
		}
	}
	return found
}
