package main

// Operators, conversions, slices, maps, builtins.

import (
	"fmt"
	"go/token"
	"go/types"
	"math/big"
	"sort"

	"golang.org/x/tools/go/ssa"
)

func (x *Exec) binop(st *State, op token.Token, a, b Value, opndType types.Type) Value {
	x.curState = st
	ta, aok := a.(*Term)
	tb, bok := b.(*Term)
	if aok && bok {
		isInt := ta.sort == SInt && tb.sort == SInt
		switch op {
		case token.ADD:
			return x.wrapInt(st, mkAdd(ta, tb), opndType)
		case token.SUB:
			return x.wrapInt(st, mkSub(ta, tb), opndType)
		case token.MUL:
			return x.wrapInt(st, mkMul(ta, tb), opndType)
		case token.QUO:
			if isInt {
				return mkIntQuo(ta, tb)
			}
			return mkDiv(ta, tb)
		case token.REM:
			return mkIntRem(ta, tb)
		case token.LSS:
			return mkLt(ta, tb)
		case token.LEQ:
			return mkLe(ta, tb)
		case token.GTR:
			return mkGt(ta, tb)
		case token.GEQ:
			return mkGe(ta, tb)
		case token.EQL:
			return mkEq(ta, tb)
		case token.NEQ:
			return mkNot(mkEq(ta, tb))
		case token.LAND:
			return mkAnd(ta, tb)
		case token.LOR:
			return mkOr(ta, tb)
		case token.SHL, token.SHR, token.AND, token.OR, token.XOR, token.AND_NOT:
			return x.bitop(op, ta, tb, opndType)
		}
		fail("unsupported binop %v on terms", op)
	}
	switch op {
	case token.EQL:
		return x.valuesEqual(a, b)
	case token.NEQ:
		return mkNot(x.valuesEqual(a, b))
	case token.ADD:
		sa, ok1 := a.(*Str)
		sb, ok2 := b.(*Str)
		if ok1 && ok2 && sa.sym == nil && sb.sym == nil {
			return &Str{s: sa.s + sb.s}
		}
		if ok1 && ok2 {
			return &Str{sym: freshVar("strcat", SInt)}
		}
	}
	fail("unsupported binop %v on %s, %s", op, valueString(a), valueString(b))
	return nil
}

// intRange returns the bit width and signedness of sized integer types
// narrower than 64 bits (0 for int, int64, uint, uint64, uintptr: those are
// read as mathematical integers, assumption A2).
func intRange(typ types.Type) (bits int, unsigned bool) {
	b, ok := typ.Underlying().(*types.Basic)
	if !ok {
		return 0, false
	}
	switch b.Kind() {
	case types.Uint8:
		return 8, true
	case types.Uint16:
		return 16, true
	case types.Uint32:
		return 32, true
	case types.Int8:
		return 8, false
	case types.Int16:
		return 16, false
	case types.Int32:
		return 32, false
	}
	return 0, false
}

func mkMod(a *Term, m int64) *Term {
	if a.isConst() && a.rat.IsInt() {
		r := new(big.Int).Mod(a.rat.Num(), big.NewInt(m))
		return mkRat(new(big.Rat).SetInt(r), SInt)
	}
	return mkOp("mod", SInt, a, mkInt(m))
}

// wrapInt: arithmetic in 8/16/32-bit integer types wraps as the machine does.
func (x *Exec) wrapInt(st *State, t *Term, typ types.Type) *Term {
	if t.sort != SInt || typ == nil {
		return t
	}
	bits, unsigned := intRange(typ)
	if bits == 0 {
		return t
	}
	m := int64(1) << uint(bits)
	if unsigned {
		return mkMod(t, m)
	}
	return mkSub(mkMod(mkAdd(t, mkInt(m/2)), m), mkInt(m/2))
}

// rangeAxiom constrains a symbolic value of a sized integer type.
func rangeAxiom(st *State, v *Term, typ types.Type) {
	if v.sort != SInt || typ == nil {
		return
	}
	b, ok := typ.Underlying().(*types.Basic)
	if !ok {
		return
	}
	bits, unsigned := intRange(typ)
	if bits == 0 {
		if b.Info()&types.IsUnsigned != 0 {
			st.axiom(mkLe(mkInt(0), v))
		}
		return
	}
	m := int64(1) << uint(bits)
	if unsigned {
		st.axiom(mkAnd(mkLe(mkInt(0), v), mkLt(v, mkInt(m))))
	} else {
		st.axiom(mkAnd(mkLe(mkInt(-m/2), v), mkLt(v, mkInt(m/2))))
	}
}

// pow2: 2^n for symbolic n (Ackermannised; theoryAxioms relates consecutive exponents).
func (x *Exec) pow2(n *Term) *Term {
	if i, ok := n.int64(); ok && i >= 0 && i < 62 {
		return mkInt(1 << uint(i))
	}
	if x.curState == nil {
		fail("symbolic shift outside an execution")
	}
	return x.ufApp(x.curState, "pow2", SInt, []*Term{n})
}

func (x *Exec) bitop(op token.Token, a, b *Term, typ types.Type) *Term {
	ai, aok := a.int64()
	bi, bok := b.int64()
	unsigned := false
	bits := 64
	if bt, ok := typ.Underlying().(*types.Basic); ok {
		unsigned = bt.Info()&types.IsUnsigned != 0
		switch bt.Kind() {
		case types.Uint8, types.Int8:
			bits = 8
		case types.Uint16, types.Int16:
			bits = 16
		case types.Uint32, types.Int32:
			bits = 32
		}
	}
	if aok && bok {
		var r int64
		switch op {
		case token.SHL:
			if bi >= 63 {
				fail("shift too large")
			}
			r = ai << uint(bi)
		case token.SHR:
			if unsigned {
				r = int64(uint64(ai) >> uint(bi))
			} else {
				r = ai >> uint(bi)
			}
		case token.AND:
			r = ai & bi
		case token.OR:
			r = ai | bi
		case token.XOR:
			r = ai ^ bi
		case token.AND_NOT:
			r = ai &^ bi
		}
		if unsigned && bits < 64 {
			r &= (1 << uint(bits)) - 1
		}
		return mkInt(r)
	}
	// symbolic cases we can express arithmetically
	switch op {
	case token.SHL:
		if bok && bi >= 0 && bi < 62 {
			return mkMul(a, mkInt(1<<uint(bi)))
		}
		if aok && ai == 1 {
			return x.pow2(b)
		}
	case token.SHR:
		if bok && bi >= 0 && bi < 62 {
			return mkOp("div", SInt, a, mkInt(1<<uint(bi)))
		}
	case token.AND:
		if bok && bi > 0 && (bi&(bi+1)) == 0 { // mask 2^k-1
			return mkOp("mod", SInt, a, mkInt(bi+1))
		}
	}
	fail("unsupported symbolic bit operation %v", op)
	return nil
}

func (x *Exec) valuesEqual(a, b Value) *Term {
	switch va := a.(type) {
	case *Term:
		if vb, ok := b.(*Term); ok {
			return mkEq(va, vb)
		}
	case *Tuple:
		vb, ok := b.(*Tuple)
		if ok && len(va.el) == len(vb.el) {
			var cs []*Term
			for i := range va.el {
				cs = append(cs, x.valuesEqual(va.el[i], vb.el[i]))
			}
			return mkAnd(cs...)
		}
	case *Ptr:
		if ob, ok := b.(*Opaque); ok && ob.id != nil && va.sym != nil && len(va.path) == 0 {
			return mkEq(va.sym, ob.id) // identities of unknown objects
		}
		if vb, ok := b.(*Ptr); ok {
			if va.cell == nil && vb.cell != nil && vb.mayNil && vb.sym != nil {
				return mkEq(vb.sym, mkInt(0))
			}
			if vb.cell == nil && va.cell != nil && va.mayNil && va.sym != nil {
				return mkEq(va.sym, mkInt(0))
			}
			if va.cell == nil || vb.cell == nil {
				return mkBool(va.cell == vb.cell)
			}
			if va.cell != vb.cell || !pathEq(va.path, vb.path) {
				return tFalse
			}
			if va.sym != nil && vb.sym != nil {
				return mkEq(va.sym, vb.sym)
			}
			return tTrue
		}
	case *Iface:
		switch vb := b.(type) {
		case *Iface:
			if va.dyn == nil || vb.dyn == nil {
				return mkBool(va.dyn == nil && vb.dyn == nil)
			}
			if !types.Identical(va.dyn, vb.dyn) {
				return tFalse
			}
			return x.valuesEqual(va.val, vb.val)
		case *AbsObj:
			if va.dyn == nil && vb.nilT != nil {
				return vb.nilT
			}
			return tFalse
		case *Opaque:
			if va.dyn == nil {
				return x.valuesEqual(b, a)
			}
		}
	case *AbsObj:
		if va.alt != nil {
			return mkIte(va.alt.c, x.valuesEqual(va.alt.a, b), x.valuesEqual(va.alt.b, b))
		}
		if vb, ok := b.(*AbsObj); ok && vb.alt != nil {
			return mkIte(vb.alt.c, x.valuesEqual(a, vb.alt.a), x.valuesEqual(a, vb.alt.b))
		}
		switch vb := b.(type) {
		case *AbsObj:
			if va.fam && vb.fam && va.name == vb.name && len(va.idx) == len(vb.idx) {
				var eqs []*Term
				for i := range va.idx {
					eqs = append(eqs, mkEq(va.idx[i], vb.idx[i]))
				}
				return mkAnd(eqs...)
			}
			return mkBool(va == vb)
		case *Iface:
			if vb.dyn == nil && va.nilT != nil {
				return va.nilT // comparison with nil
			}
			return tFalse // abstract shapes are non-nil and distinct from concrete ones
		}
	case *Opaque:
		if pb, ok := b.(*Ptr); ok && va.id != nil && pb.sym != nil && len(pb.path) == 0 {
			return mkEq(va.id, pb.sym)
		}
		isNilB := false
		switch vb := b.(type) {
		case *Iface:
			isNilB = vb.dyn == nil
		case *Ptr:
			isNilB = vb.cell == nil
		case *Opaque:
			if va == vb {
				return tTrue
			}
			if va.id != nil && vb.id != nil {
				return mkEq(va.id, vb.id)
			}
		}
		if isNilB {
			if va.nilT != nil {
				return va.nilT
			}
			return mkBool(va.nil)
		}
	case *Str:
		if vb, ok := b.(*Str); ok {
			if va.sym == nil && vb.sym == nil {
				return mkBool(va.s == vb.s)
			}
			if va.sym != nil && vb.sym != nil {
				return mkEq(va.sym, vb.sym)
			}
			// symbolic vs concrete: uninterpreted predicate
			s, c := va, vb
			if s.sym == nil {
				s, c = vb, va
			}
			return mkApp("streq_"+sanitize(c.s), SBool, s.sym)
		}
	case *SliceV:
		if vb, ok := b.(*SliceV); ok {
			if vb.cell == nil && va.cell == nil {
				return tTrue
			}
			if vb.cell == nil || va.cell == nil {
				// comparison with nil: a symbolic input slice may or may not be nil
				s := va
				if va.cell == nil {
					s = vb
				}
				if s.nilT != nil {
					return s.nilT
				}
				return tFalse
			}
			// == on non-nil slices exists only in specifications: the same view of the same backing array
			if va.cell != vb.cell {
				return tFalse
			}
			return mkAnd(mkEq(va.off, vb.off), mkEq(va.len, vb.len))
		}
	case *Func:
		if vb, ok := b.(*Func); ok {
			an := va.fn == nil && va.abs == nil && va.builtin == ""
			bn := vb.fn == nil && vb.abs == nil && vb.builtin == ""
			if an || bn {
				return mkBool(an && bn)
			}
		}
	case *MapV:
		if vb, ok := b.(*MapV); ok && (va.nilmap || vb.nilmap) {
			return mkBool(va.nilmap && vb.nilmap)
		}
	}
	if _, ok := b.(*Opaque); ok {
		if _, ok2 := a.(*Opaque); !ok2 {
			return x.valuesEqual(b, a)
		}
	}
	// an unspecified value compared with anything: unknown truth value
	for _, v := range []Value{a, b} {
		if op, ok := v.(*Opaque); ok && op.id != nil && (op.tag == "noevent" || op.tag == "unspecified") {
			x.symArrCtr++
			return freshVar(fmt.Sprintf("unspeceq%d", x.symArrCtr), SBool)
		}
	}
	fail("unsupported equality between %s and %s", valueString(a), valueString(b))
	return nil
}

func (x *Exec) unop(st *State, fr *Frame, in *ssa.UnOp) Value {
	v := x.val(fr, in.X)
	switch in.Op {
	case token.MUL:
		p, ok := v.(*Ptr)
		if !ok {
			fail("load through non-pointer %s", valueString(v))
		}
		if p.cell == nil {
			if x.safety {
				x.oblige(st, "safety.nil@"+fr.fn.Name(), tFalse, "nil dereference")
			}
			fail("nil pointer dereference in %s", fr.fn)
		}
		return x.load(st, p)
	case token.SUB:
		return mkNeg(v.(*Term))
	case token.NOT:
		return mkNot(v.(*Term))
	case token.ARROW:
		return x.chanRecv(st, fr, in, v)
	case token.XOR:
		if t, ok := v.(*Term); ok {
			if i, ok := t.int64(); ok {
				return mkInt(^i)
			}
		}
	}
	fail("unsupported unop %v", in.Op)
	return nil
}

// chanRecv: a receive yields an arbitrary value of the element type (the next
// element of the ghost sequence of values sent on the channel, A6) and, in the
// comma-ok form, an arbitrary "more to come" flag.
func (x *Exec) chanRecv(st *State, fr *Frame, in *ssa.UnOp, ch Value) Value {
	x.note("channel receive yields the next sent value, each exactly once and in order (A6); values themselves arbitrary")
	var et types.Type
	if tt, ok := in.Type().(*types.Tuple); ok {
		et = tt.At(0).Type()
	} else {
		et = in.Type()
	}
	x.recvCtr++
	rname := fmt.Sprintf("recv%d", x.recvCtr)
	okname := fmt.Sprintf("recvok%d", x.recvCtr)
	if x.noModular {
		rname = x.occName(st, "recv")
		okname = rname + "ok"
	}
	v := x.symValue(st, et, rname)
	st.log = append(st.log, Event{kind: "recv", args: []Value{ch, v}})
	st.version++
	if in.CommaOk {
		ok := freshVar(okname, SBool)
		return &Tuple{typ: in.Type(), el: []Value{v, ok}}
	}
	return v
}

func (x *Exec) convert(st *State, v Value, from, to types.Type) Value {
	sf, okf := sortOf(from)
	stt, okt := sortOf(to)
	if okf && okt {
		t := v.(*Term)
		if sf == stt {
			if sf == SReal {
				fb := from.Underlying().(*types.Basic)
				tb := to.Underlying().(*types.Basic)
				if fb.Kind() == types.Float64 && tb.Kind() == types.Float32 {
					x.note("float32(x) treated as identity on reals (A1)")
				}
			}
			if sf == SInt {
				tb := to.Underlying().(*types.Basic)
				fb := from.Underlying().(*types.Basic)
				if bits, _ := intRange(to); bits != 0 {
					return x.wrapInt(st, t, to)
				}
				if narrower(fb, tb) {
					x.note(fmt.Sprintf("integer conversion %s->%s assumed not to truncate (A2)", fb.Name(), tb.Name()))
				}
			}
			return t
		}
		if sf == SInt && stt == SReal {
			return coerce(t, SReal)
		}
		if sf == SReal && stt == SInt {
			return mkToInt(t)
		}
	}
	// string conversions etc.
	if _, ok := to.Underlying().(*types.Basic); ok {
		if s, ok := v.(*Str); ok {
			return s
		}
	}
	if _, ok := to.Underlying().(*types.Slice); ok {
		if s, ok := v.(*Str); ok {
			_ = s
			return &Opaque{typ: to, tag: "bytes"}
		}
	}
	if _, ok := v.(*Ptr); ok {
		return v
	}
	if _, ok := v.(*Opaque); ok {
		return &Opaque{typ: to, tag: "conv"}
	}
	fail("unsupported conversion %v -> %v", from, to)
	return nil
}

func narrower(from, to *types.Basic) bool {
	size := func(b *types.Basic) int {
		switch b.Kind() {
		case types.Int8, types.Uint8:
			return 8
		case types.Int16, types.Uint16:
			return 16
		case types.Int32, types.Uint32:
			return 32
		}
		return 64
	}
	if size(to) < size(from) {
		return true
	}
	fu := from.Info()&types.IsUnsigned != 0
	tu := to.Info()&types.IsUnsigned != 0
	return fu != tu
}

//-----------------------------------------------------------------------------
// indexing

func concreteInt(t *Term) (int, bool) {
	i, ok := t.int64()
	return int(i), ok
}

// indexAddr: returns (panic outs, value)
func (x *Exec) indexAddr(st *State, fr *Frame, in *ssa.IndexAddr) ([]Out, Value) {
	base := x.val(fr, in.X)
	idx := x.term(fr, in.Index)
	switch b := base.(type) {
	case *Ptr: // pointer to array
		if b.cell == nil {
			fail("index of nil array pointer")
		}
		at, ok := in.X.Type().Underlying().(*types.Pointer).Elem().Underlying().(*types.Array)
		if !ok {
			fail("IndexAddr through pointer to non-array")
		}
		if b.sym != nil {
			// element of a symbolically indexed aggregate: inner index must be concrete
			i, ok := concreteInt(idx)
			if !ok {
				fail("nested symbolic index")
			}
			if i < 0 || int64(i) >= at.Len() {
				return []Out{{st: st, kind: oPanic, msg: "index out of range"}}, nil
			}
			return nil, &Ptr{cell: b.cell, path: appendPath(b.path, i), sym: b.sym}
		}
		return x.elemPtr(st, fr, b.cell, b.path, 0, mkInt(at.Len()), idx, in)
	case *SliceV:
		if b.cell == nil {
			if x.safety {
				x.oblige(st, x.safetyName(fr, in, "index"), tFalse, "index of nil/empty slice")
			}
			return []Out{{st: st, kind: oPanic, msg: "index out of range (nil slice)"}}, nil
		}
		if _, isSym := st.store[b.cell].(*SymArr); isSym {
			if x.safety {
				x.oblige(st, x.safetyName(fr, in, "index"), mkAnd(mkLe(mkInt(0), idx), mkLt(idx, b.len)), "index in range")
			}
			x.noteBounds(fr)
			return nil, &Ptr{cell: b.cell, sym: mkAdd(b.off, idx)}
		}
		off, ok := concreteInt(b.off)
		if !ok {
			fail("symbolic slice offset on concrete backing")
		}
		return x.elemPtr(st, fr, b.cell, nil, off, b.len, idx, in)
	}
	fail("IndexAddr on %s", valueString(base))
	return nil, nil
}

func (x *Exec) noteBounds(fr *Frame) {
	if !x.safety {
		x.note("index bounds not checked outside safety contracts (assumed in range)")
	}
}

func (x *Exec) safetyName(fr *Frame, in ssa.Instruction, kind string) string {
	// ordinal of this instruction among same-kind instructions in the function
	n := 0
	for _, b := range fr.fn.Blocks {
		for _, i2 := range b.Instrs {
			if i2 == in {
				return fmt.Sprintf("safety.%s@%s#%d", kind, fr.fn.Name(), n)
			}
			switch i2.(type) {
			case *ssa.IndexAddr, *ssa.Index, *ssa.Slice, *ssa.Lookup:
				n++
			}
		}
	}
	return fmt.Sprintf("safety.%s@%s", kind, fr.fn.Name())
}

func (x *Exec) elemPtr(st *State, fr *Frame, cell *Cell, path []int, off int, ln *Term, idx *Term, in ssa.Instruction) ([]Out, Value) {
	if i, ok := concreteInt(idx); ok {
		if l, ok := concreteInt(ln); ok {
			if i < 0 || i >= l {
				if x.safety {
					x.oblige(st, x.safetyName(fr, in, "index"), tFalse, fmt.Sprintf("index %d out of range [0,%d)", i, l))
				}
				return []Out{{st: st, kind: oPanic, msg: "index out of range"}}, nil
			}
		} else if x.safety {
			x.oblige(st, x.safetyName(fr, in, "index"), mkLt(idx, ln), "index in range")
		}
		return nil, &Ptr{cell: cell, path: appendPath(path, off+i)}
	}
	// symbolic index into concrete aggregate: case split over the (bounded) length
	l, ok := concreteInt(ln)
	if !ok {
		fail("symbolic index with symbolic length on concrete backing")
	}
	if x.safety {
		x.oblige(st, x.safetyName(fr, in, "index"), mkAnd(mkLe(mkInt(0), idx), mkLt(idx, ln)), "index in range")
	}
	if l > 64 {
		fail("symbolic index into aggregate of length %d", l)
	}
	return nil, &Ptr{cell: cell, path: appendPath(path, -1000000-off), sym: idx}
}

func (x *Exec) index(st *State, fr *Frame, in *ssa.Index) Value {
	base := x.val(fr, in.X)
	idx := x.term(fr, in.Index)
	switch b := base.(type) {
	case *Tuple:
		if i, ok := concreteInt(idx); ok {
			if i < 0 || i >= len(b.el) {
				fail("constant index out of range")
			}
			return b.el[i]
		}
		return x.selectSym(b.el, 0, len(b.el), idx)
	case *Str:
		return &Opaque{typ: types.Typ[types.Byte], tag: "strbyte"}
	}
	fail("Index on %s", valueString(base))
	return nil
}

func (x *Exec) selectSym(el []Value, off, n int, idx *Term) Value {
	if n == 0 {
		// out-of-range read in a specification: unspecified value
		x.symArrCtr++
		return &Opaque{tag: "unspecified", id: freshVar(fmt.Sprintf("unspec%d", x.symArrCtr), SInt)}
	}
	v := el[off+n-1]
	for i := n - 2; i >= 0; i-- {
		nv, ok := iteValue(mkEq(idx, mkInt(int64(i))), el[off+i], v)
		if !ok {
			fail("cannot select among non-mergeable elements")
		}
		v = nv
	}
	return v
}

func (x *Exec) makeSlice(st *State, fr *Frame, in *ssa.MakeSlice) Value {
	ln := x.term(fr, in.Len)
	cp := x.term(fr, in.Cap)
	et := in.Type().Underlying().(*types.Slice).Elem()
	if c, ok := concreteInt(cp); ok {
		if l, ok := concreteInt(ln); ok {
			if c > 1<<16 {
				fail("make of %d elements", c)
			}
			el := make([]Value, c)
			for i := range el {
				el[i] = zeroValue(et)
			}
			cell := newCell("make", types.NewArray(et, int64(c)))
			st.store[cell] = &Tuple{typ: cell.typ, el: el}
			return &SliceV{cell: cell, off: mkInt(0), len: mkInt(int64(l)), cap: mkInt(int64(c)), elem: et}
		}
	}
	// symbolic length: fresh symbolic array whose elements are zero
	if x.safety {
		x.oblige(st, x.safetyName(fr, in, "make"), mkAnd(mkLe(mkInt(0), ln), mkLe(ln, cp)), "make: 0 <= len <= cap")
	}
	cell := newCell("make", types.NewArray(et, -1))
	sa := &SymArr{elem: et, name: fmt.Sprintf("zero%d", cell.id)}
	st.store[cell] = sa
	x.zeroArrays[sa.name] = et
	return &SliceV{cell: cell, off: mkInt(0), len: ln, cap: cp, elem: et}
}

// sliceOp: x[lo:hi:max]
func (x *Exec) sliceOp(st *State, fr *Frame, in *ssa.Slice) ([]Out, Value) {
	base := x.val(fr, in.X)
	var lo, hi *Term
	if in.Low != nil {
		lo = x.term(fr, in.Low)
	} else {
		lo = mkInt(0)
	}
	switch b := base.(type) {
	case *SliceV:
		if in.High != nil {
			hi = x.term(fr, in.High)
		} else {
			hi = b.len
		}
		if x.safety {
			x.oblige(st, x.safetyName(fr, in, "slice"), mkAnd(mkLe(mkInt(0), lo), mkLe(lo, hi), mkLe(hi, b.cap)), "slice bounds in range")
		} else {
			if lc, ok := concreteInt(lo); ok {
				if hc, ok := concreteInt(hi); ok {
					if cc, ok := concreteInt(b.cap); ok && (lc < 0 || lc > hc || hc > cc) {
						return []Out{{st: st, kind: oPanic, msg: "slice bounds out of range"}}, nil
					}
				}
			}
		}
		if b.cell == nil {
			return nil, b
		}
		ncap := mkSub(b.cap, lo)
		if in.Max != nil {
			ncap = mkSub(x.term(fr, in.Max), lo)
		}
		return nil, &SliceV{cell: b.cell, off: mkAdd(b.off, lo), len: mkSub(hi, lo), cap: ncap, elem: b.elem}
	case *Ptr: // *array
		arr, ok := getPath(st.store[b.cell], b.path).(*Tuple)
		if !ok || len(b.path) != 0 {
			fail("slicing of nested array")
		}
		n := mkInt(int64(len(arr.el)))
		if in.High != nil {
			hi = x.term(fr, in.High)
		} else {
			hi = n
		}
		et := arr.typ.Underlying().(*types.Array).Elem()
		return nil, &SliceV{cell: b.cell, off: lo, len: mkSub(hi, lo), cap: mkSub(n, lo), elem: et}
	case *Str:
		if b.sym == nil {
			l, ok1 := concreteInt(lo)
			h := len(b.s)
			ok2 := true
			if in.High != nil {
				h, ok2 = concreteInt(x.term(fr, in.High))
			}
			if ok1 && ok2 && l >= 0 && l <= h && h <= len(b.s) {
				return nil, &Str{s: b.s[l:h]}
			}
		}
		return nil, &Str{sym: freshVar("substr", SInt)}
	}
	fail("Slice on %s", valueString(base))
	return nil, nil
}

//-----------------------------------------------------------------------------
// maps (concrete keys)

func keyRepr(v Value) (string, bool) {
	switch k := v.(type) {
	case *Str:
		if k.sym == nil {
			return "s:" + k.s, true
		}
	case *Term:
		if k.isConst() {
			return "t:" + k.String(), true
		}
	case *Tuple:
		s := "{"
		for _, e := range k.el {
			r, ok := keyRepr(e)
			if !ok {
				return "", false
			}
			s += r + ","
		}
		return s + "}", true
	}
	return "", false
}

func (x *Exec) mapUpdate(st *State, fr *Frame, in *ssa.MapUpdate) {
	m, ok := x.val(fr, in.Map).(*MapV)
	if !ok {
		fail("MapUpdate on %s", valueString(x.val(fr, in.Map)))
	}
	k := x.val(fr, in.Key)
	if m.cell != nil {
		sm := st.store[m.cell].(*SymMap)
		var kt []*Term
		if !flatten(k, &kt) {
			fail("symbolic map with non-scalar key")
		}
		n := &SymMap{name: sm.name, vt: sm.vt}
		n.writes = append(append([]mapWrite{}, sm.writes...), mapWrite{key: kt, val: x.val(fr, in.Value)})
		st.store[m.cell] = n
		st.wlog = append(st.wlog, m.cell.id)
		if st.written != nil {
			st.written[m.cell] = true
		}
		return
	}
	r, ok := keyRepr(k)
	if !ok {
		fail("map update with symbolic key")
	}
	// maps are reference types: mutate shared object but keep states independent by copy-on-write per state
	nm := x.mapForWrite(st, m)
	if _, exists := nm.entries[r]; !exists {
		nm.keys = append(nm.keys, r)
	} else {
		x.mapOverwrites = append(x.mapOverwrites, r)
	}
	nm.entries[r] = [2]Value{k, x.val(fr, in.Value)}
	st.version++
}

// mapForWrite: maps are mutated in place (they are only used for concrete
// table construction, on a single path).
func (x *Exec) mapForWrite(st *State, m *MapV) *MapV { return m }

func (x *Exec) lookup(st *State, fr *Frame, in *ssa.Lookup) Value {
	base := x.val(fr, in.X)
	if s, ok := base.(*Str); ok {
		_ = s
		return &Opaque{typ: types.Typ[types.Byte], tag: "strbyte"}
	}
	m, ok := base.(*MapV)
	if !ok {
		fail("Lookup on %s", valueString(base))
	}
	k := x.val(fr, in.Index)
	vt := m.typ.Underlying().(*types.Map).Elem()
	if m.cell != nil {
		val, has := x.symMapLookup(st, m, k)
		if in.CommaOk {
			return &Tuple{typ: in.Type(), el: []Value{val, has}}
		}
		z, ok := iteValue(has, val, zeroValue(vt))
		if !ok {
			fail("symbolic map lookup: value not mergeable with zero")
		}
		return z
	}
	r, ok := keyRepr(k)
	if !ok {
		if len(m.keys) == 0 {
			// empty concrete map: nothing is present
			if in.CommaOk {
				return &Tuple{typ: in.Type(), el: []Value{zeroValue(vt), tFalse}}
			}
			return zeroValue(vt)
		}
		fail("map lookup with symbolic key")
	}
	e, found := m.entries[r]
	var v Value
	if found {
		v = e[1]
	} else {
		v = zeroValue(vt)
	}
	if in.CommaOk {
		return &Tuple{typ: in.Type(), el: []Value{v, mkBool(found)}}
	}
	return v
}

type rangeIter struct {
	m    *MapV
	keys []string
	pos  int
	str  *Str
}

func (x *Exec) rangeInit(st *State, fr *Frame, in *ssa.Range) Value {
	switch b := x.val(fr, in.X).(type) {
	case *MapV:
		keys := append([]string{}, b.keys...)
		sort.Strings(keys)
		c := newCell("rangeiter", nil)
		st.store[c] = &Opaque{tag: "iter"}
		x.iters[c] = &rangeIter{m: b, keys: keys}
		return &Ptr{cell: c}
	case *Str:
		if b.sym != nil {
			fail("range over symbolic string")
		}
		c := newCell("rangeiter", nil)
		st.store[c] = &Opaque{tag: "iter"}
		x.iters[c] = &rangeIter{str: b}
		return &Ptr{cell: c}
	}
	fail("Range over %s", valueString(x.val(fr, in.X)))
	return nil
}

func (x *Exec) rangeNext(st *State, fr *Frame, in *ssa.Next) Value {
	p := x.ptr(fr, in.Iter)
	it := x.iters[p.cell]
	// position is stored per state in the cell
	pos := 0
	if t, ok := st.store[p.cell].(*Term); ok {
		pos, _ = concreteInt(t)
	}
	tt := in.Type().(*types.Tuple)
	if it.m != nil {
		if pos >= len(it.keys) {
			return &Tuple{typ: tt, el: []Value{tFalse, zeroValue(tt.At(1).Type()), zeroValue(tt.At(2).Type())}}
		}
		e := it.m.entries[it.keys[pos]]
		st.store[p.cell] = mkInt(int64(pos + 1))
		return &Tuple{typ: tt, el: []Value{tTrue, e[0], e[1]}}
	}
	rs := []rune(it.str.s)
	if pos >= len(rs) {
		return &Tuple{typ: tt, el: []Value{tFalse, mkInt(0), mkInt(0)}}
	}
	st.store[p.cell] = mkInt(int64(pos + 1))
	// byte index of rune pos
	bi := len(string(rs[:pos]))
	return &Tuple{typ: tt, el: []Value{tTrue, mkInt(int64(bi)), mkInt(int64(rs[pos]))}}
}

//-----------------------------------------------------------------------------

func (x *Exec) typeAssert(st *State, fr *Frame, in *ssa.TypeAssert) Value {
	v := x.val(fr, in.X)
	mk := func(val Value, ok bool) Value {
		if in.CommaOk {
			return &Tuple{typ: in.Type(), el: []Value{val, mkBool(ok)}}
		}
		if !ok {
			fail("type assertion fails")
		}
		return val
	}
	_, toIface := in.AssertedType.Underlying().(*types.Interface)
	switch i := v.(type) {
	case *AbsObj:
		if toIface {
			return mk(i, true)
		}
		return mk(zeroValue(in.AssertedType), false)
	case *Iface:
		if i.dyn == nil {
			return mk(zeroValue(in.AssertedType), false)
		}
		if toIface {
			if types.Implements(i.dyn, in.AssertedType.Underlying().(*types.Interface)) {
				return mk(i, true)
			}
			return mk(zeroValue(in.AssertedType), false)
		}
		if types.Identical(i.dyn, in.AssertedType) {
			return mk(i.val, true)
		}
		return mk(zeroValue(in.AssertedType), false)
	}
	fail("TypeAssert on %s", valueString(v))
	return nil
}

//-----------------------------------------------------------------------------
// builtins

func (x *Exec) builtin(st *State, fr *Frame, name string, args []Value, c *ssa.CallCommon) []Out {
	ret := func(v ...Value) []Out { return []Out{{st: st, vals: v}} }
	switch name {
	case "len":
		switch a := args[0].(type) {
		case *SliceV:
			return ret(a.len)
		case *Str:
			if a.sym == nil {
				return ret(mkInt(int64(len(a.s))))
			}
			l := mkApp("strlen", SInt, a.sym)
			st.axiom(mkLe(mkInt(0), l))
			return ret(l)
		case *Tuple:
			return ret(mkInt(int64(len(a.el))))
		case *MapV:
			return ret(mkInt(int64(len(a.keys))))
		case *Ptr:
			arr := getPath(st.store[a.cell], a.path).(*Tuple)
			return ret(mkInt(int64(len(arr.el))))
		case *Opaque:
			l := freshVar("len$"+a.tag, SInt)
			st.axiom(mkLe(mkInt(0), l))
			return ret(l)
		}
	case "cap":
		if a, ok := args[0].(*SliceV); ok {
			return ret(a.cap)
		}
	case "append":
		return ret(x.appendSlice(st, fr, args[0].(*SliceV), args[1]))
	case "copy":
		dst, ok1 := args[0].(*SliceV)
		src, ok2 := args[1].(*SliceV)
		if !ok1 || !ok2 {
			fail("copy: operands are not slices")
		}
		n := mkMin(dst.len, src.len)
		if dst.cell == nil || src.cell == nil {
			return ret(mkInt(0))
		}
		srcElem := func(i *Term) Value {
			return x.load(st, x.elemPtrAt(st, src, i))
		}
		switch db := st.store[dst.cell].(type) {
		case *Tuple:
			off, okOff := concreteInt(dst.off)
			l, okLen := concreteInt(dst.len)
			if !okOff || !okLen {
				fail("copy into a concrete array through a symbolic window is not modelled")
			}
			el := append([]Value{}, db.el...)
			for i := 0; i < l; i++ {
				nv, ok := iteValue(mkLt(mkInt(int64(i)), n), srcElem(mkInt(int64(i))), el[off+i])
				if !ok {
					fail("copy: elements not mergeable")
				}
				el[off+i] = nv
			}
			st.store[dst.cell] = &Tuple{typ: db.typ, el: el}
			st.wlog = append(st.wlog, dst.cell.id)
			if st.written != nil {
				st.written[dst.cell] = true
			}
		case *SymArr:
			if db.ro {
				fail("copy into the backing array of a slice held by a symbolic object is not modelled")
			}
			var sa *SymArr
			switch sb := st.store[src.cell].(type) {
			case *SymArr:
				sa = sb
			case *Tuple:
				x.symArrCtr++
				sa = &SymArr{elem: src.elem, name: fmt.Sprintf("lit%d", x.symArrCtr)}
				for i, e := range sb.el {
					sa.writes = append(sa.writes, symWrite{idx: mkInt(int64(i)), val: e})
				}
			default:
				fail("copy: unsupported source backing")
			}
			nd := &SymArr{elem: db.elem, name: db.name, pre: db.pre}
			nd.writes = append(append([]symWrite{}, db.writes...), symWrite{idx: dst.off, src: sa, srcOff: src.off, n: n})
			st.store[dst.cell] = nd
			st.wlog = append(st.wlog, dst.cell.id)
			if st.written != nil {
				st.written[dst.cell] = true
			}
		default:
			fail("copy: unsupported destination backing")
		}
		return ret(n)
	case "close":
		st.log = append(st.log, Event{kind: "close", args: args})
		st.version++
		return ret()
	case "min", "max":
		a, b := args[0].(*Term), args[1].(*Term)
		if name == "min" {
			return ret(mkMin(a, b))
		}
		return ret(mkMax(a, b))
	case "print", "println":
		return ret()
	case "ssa:wrapnilchk":
		// receiver of a value method called through a pointer: panics when nil
		if p, ok := args[0].(*Ptr); ok {
			if p.cell == nil {
				return []Out{{st: st, kind: oPanic, msg: "value method called using nil pointer"}}
			}
			x.derefCheck(st, fr, p, 0)
		}
		return ret(args[0])
	case "delete":
		fail("delete builtin not modelled")
	}
	fail("unsupported builtin %s(%s)", name, valueString(args[0]))
	return nil
}

// elemPtrAt: pointer to element i of a slice (concrete or symbolic backing).
func (x *Exec) elemPtrAt(st *State, s *SliceV, i *Term) *Ptr {
	if _, ok := st.store[s.cell].(*SymArr); ok {
		return &Ptr{cell: s.cell, sym: mkAdd(s.off, i)}
	}
	off, ok1 := concreteInt(s.off)
	k, ok2 := concreteInt(i)
	if !ok1 || !ok2 {
		fail("symbolic index into a concrete array (copy)")
	}
	return &Ptr{cell: s.cell, path: []int{off + k}}
}

func (x *Exec) appendSlice(st *State, fr *Frame, s *SliceV, more Value) Value {
	m, ok := more.(*SliceV)
	if !ok {
		if _, isStr := more.(*Str); isStr {
			return &Opaque{typ: nil, tag: "bytes"}
		}
		fail("append of %s", valueString(more))
	}
	if m.cell == nil || (m.len.isConst() && m.len.rat.Sign() == 0) {
		return s
	}
	sl, ok1 := concreteInt(s.len)
	ml, ok2 := concreteInt(m.len)
	sc, ok3 := concreteInt(s.cap)
	so, ok4 := concreteInt(s.off)
	mo, ok5 := concreteInt(m.off)
	_, sSym := st.store[s.cell].(*SymArr)
	_, mSym := st.store[m.cell].(*SymArr)
	if s.cell == nil {
		sSym = false
	}
	if ok1 && ok2 && ok3 && ok4 && ok5 && !sSym && !mSym {
		src := st.store[m.cell].(*Tuple)
		if s.cell != nil && sl+ml <= sc {
			// in place
			arr := st.store[s.cell].(*Tuple)
			el := append([]Value{}, arr.el...)
			for i := 0; i < ml; i++ {
				el[so+sl+i] = src.el[mo+i]
			}
			st.store[s.cell] = &Tuple{typ: arr.typ, el: el}
			st.wlog = append(st.wlog, s.cell.id)
			if st.written != nil {
				st.written[s.cell] = true
			}
			return &SliceV{cell: s.cell, off: s.off, len: mkInt(int64(sl + ml)), cap: s.cap, elem: s.elem}
		}
		el := make([]Value, 0, sl+ml)
		if s.cell != nil {
			arr := st.store[s.cell].(*Tuple)
			el = append(el, arr.el[so:so+sl]...)
		}
		el = append(el, src.el[mo:mo+ml]...)
		et := s.elem
		if et == nil {
			et = m.elem
		}
		cell := newCell("append", types.NewArray(et, int64(len(el))))
		st.store[cell] = &Tuple{typ: cell.typ, el: el}
		return &SliceV{cell: cell, off: mkInt(0), len: mkInt(int64(len(el))), cap: mkInt(int64(len(el))), elem: et}
	}
	return x.appendSym(st, fr, s, m)
}

var _ = big.NewInt

// symMapLookup returns (value, present) for key k of a symbolic map.
func (x *Exec) symMapLookup(st *State, m *MapV, k Value) (Value, *Term) {
	sm := st.store[m.cell].(*SymMap)
	var kt []*Term
	if !flatten(k, &kt) {
		fail("symbolic map with non-scalar key")
	}
	var val Value = x.ufResult(st, "mapval_"+sm.name, sm.vt, kt)
	has := x.ufApp(st, "maphas_"+sm.name, SBool, kt)
	for _, w := range sm.writes {
		var eqs []*Term
		for i := range kt {
			eqs = append(eqs, mkEq(kt[i], w.key[i]))
		}
		hit := mkAnd(eqs...)
		nv, ok := iteValue(hit, w.val, val)
		if !ok {
			fail("symbolic map: values not mergeable")
		}
		val = nv
		has = mkOr(hit, has)
	}
	return val, has
}
