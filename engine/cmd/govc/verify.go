package main

// Contract verification driver: builds obligations for a contract block.

import (
	"time"
	"fmt"
	"os"
	"go/types"
	"sort"
	"strings"

	"golang.org/x/tools/go/ssa"
)

type Obligation struct {
	incomplete bool // some uninterpreted function had too many applications for pairwise congruence axioms
	name     string
	props    []string
	contract *Contract
	assume   []*Term
	goal     *Term
	what     string
	semantics string
	// for replay
	inputs map[string]Value
	path   int
	// results
	res Result
	expectSat bool // reachability probe: must be sat
	apps      []appRec
	entry     *State
	skolems   map[string]Value
	resultDyn types.Type // dynamic type of the first result when it is an interface holding a module type
	letDyn    map[string]types.Type // dynamic types of let-bound interface values
}

type schema struct {
	vars []qvar
	expr Expr
	env  *Env
	text string
	st   *State // when set: the state the fact speaks about (loop head snapshot)
}

// hasExists: the clause starts with "exists k int ::" (never mixed with forall).
func hasExists(cl *Clause) bool {
	for _, v := range cl.vars {
		if v.ex {
			return true
		}
	}
	return false
}

// assumeClause evaluates a clause that is a hypothesis. An existential is
// skolemised: its witness becomes a ghost variable, bound through bind so that
// later clauses of the same frame can name it (and offer it as a candidate).
func (x *Exec) assumeClause(st *State, env *Env, cl *Clause, bind func(string, Value)) *Term {
	if !hasExists(cl) {
		return x.evalBool(st, env, cl.expr)
	}
	e2 := env.child()
	var tuple []*Term
	for _, v := range cl.vars {
		if !v.ex {
			fail("exists and forall cannot be mixed in one clause: %s", cl.text)
		}
		w := freshVar("wit$"+v.name, SInt)
		st.wits = append(st.wits[:len(st.wits):len(st.wits)], w)
		tuple = append(tuple, w)
		e2.vars[v.name] = w
		if bind != nil {
			bind(v.name, w)
		}
	}
	st.witTuples = append(st.witTuples[:len(st.witTuples):len(st.witTuples)], tuple)
	return x.evalBool(st, e2, cl.expr)
}

// existsCandidates: integer terms in scope that may serve as a witness.
func (x *Exec) existsCandidates(env *Env) []*Term {
	seen := map[int]bool{}
	var out []*Term
	add := func(v Value) {
		if t, ok := v.(*Term); ok && t.sort == SInt && !seen[t.id] {
			seen[t.id] = true
			out = append(out, t)
		}
	}
	for c := env; c != nil; c = c.parent {
		var names []string
		for n := range c.vars {
			names = append(names, n)
		}
		sort.Strings(names)
		for _, n := range names {
			add(c.vars[n])
		}
		if c.frame != nil {
			names = names[:0]
			for n := range c.frame.env {
				names = append(names, n)
			}
			sort.Strings(names)
			for _, n := range names {
				if ee := c.frame.env[n]; !ee.addr {
					add(ee.v)
				}
			}
		}
	}
	add(mkInt(0))
	// the value a loop counter had one step earlier / later is a common witness
	base := append([]*Term{}, out...)
	for _, t := range base {
		if !t.isConst() && !strings.HasPrefix(t.name, "wit$") {
			add(mkSub(t, mkInt(1)))
		}
	}
	if len(out) > 16 {
		out = out[:16]
	}
	return out
}

func (x *Exec) evalClause(st *State, env *Env, cl *Clause) *Term {
	x.curSkolems = nil // the skolems of an earlier goal are not part of this one
	if len(cl.vars) == 0 {
		return x.evalBool(st, env, cl.expr)
	}
	if hasExists(cl) {
		// existential goal: some integer in scope is a witness
		cands := x.existsCandidates(env)
		var evs []qvar
		for _, v := range cl.vars {
			if !v.ex {
				fail("exists and forall cannot be mixed in one clause: %s", cl.text)
			}
			evs = append(evs, v)
		}
		if len(evs) > 3 {
			fail("at most three existential variables per clause")
		}
		var alts []*Term
		if tuples := x.witnessTuples; len(tuples) > 0 {
			// hinted witnesses: the tuple assumed so far (ghost variables) and the given tuples
			try := func(vals []Value) {
				e3 := env.child()
				for i, v := range evs {
					e3.vars[v.name] = vals[i]
				}
				alts = append(alts, x.evalBool(st, e3, cl.expr))
			}
			var ghost []Value
			okGhost := true
			for _, v := range evs {
				gv, ok := env.lookup(v.name)
				if !ok {
					okGhost = false
					break
				}
				ghost = append(ghost, gv)
			}
			if okGhost {
				try(ghost)
			}
			for _, tp := range tuples {
				if len(tp) != len(evs) {
					fail("witness tuple of %d expressions for %d existential variables", len(tp), len(evs))
				}
				var vals []Value
				for _, e := range tp {
					vals = append(vals, x.evalNum(st, env, e))
				}
				try(vals)
			}
			return mkOr(alts...)
		}
		var rec func(i int, e2 *Env)
		rec = func(i int, e2 *Env) {
			if i == len(evs) {
				alts = append(alts, x.evalBool(st, e2, cl.expr))
				return
			}
			for _, c := range cands {
				e3 := e2.child()
				e3.vars[evs[i].name] = c
				rec(i+1, e3)
			}
		}
		rec(0, env)
		return mkOr(alts...)
	}
	// quantified goal: skolemize with fresh symbolic values
	e2 := env.child()
	x.curSkolems = map[string]Value{}
	for _, v := range cl.vars {
		vt := x.resolveType(env.pkg, v.typ)
		if pt, ok := vt.Underlying().(*types.Pointer); ok && !foreignType(pt.Elem()) {
			// an arbitrary (possibly nil) object of the type's region
			id := freshVar("sk$"+v.name+"$id", SInt)
			st.axiom(mkLe(mkInt(0), id))
			e2.vars[v.name] = &Ptr{cell: x.regionCell(pt.Elem()), sym: id, mayNil: true}
		} else {
			e2.vars[v.name] = x.symValue(st, vt, "sk$"+v.name)
		}
		x.curSkolems[v.name] = e2.vars[v.name]
	}
	return x.evalBool(st, e2, cl.expr)
}

// oblige records a proof obligation at the current state.
// contractBudget bounds the symbolic execution (not the solving) of one contract.
var contractBudget = 150 * time.Second

func (x *Exec) oblige(st *State, name string, goal *Term, what string) {
	if x.dry > 0 {
		return
	}
	ct := x.cur
	full := name
	props := []string{}
	if ct != nil {
		full = ct.label() + "/" + name
		props = ct.props
	}
	// unique naming: path suffix
	x.oblCount[full]++
	if n := x.oblCount[full]; n > 1 || x.pathNaming[full] {
		x.pathNaming[full] = true
	}
	congruenceSkipped = false
	assume := x.assumptions(st)
	incomplete := congruenceSkipped
	if len(st.gen) > 0 {
		// generalisation is applied uniformly to hypotheses and goal (proving the more general VC)
		cache := map[int]*Term{}
		na := make([]*Term, len(assume))
		for i, t := range assume {
			na[i] = replaceTerms(t, st.gen, cache)
		}
		assume = na
		goal = replaceTerms(goal, st.gen, cache)
	}
	goals := []*Term{goal}
	if x.splitGoals {
		goals = splitGoal(goal, 0)
	}
	for _, gl := range goals {
		o := &Obligation{name: full, props: props, contract: ct, goal: gl, what: what, path: x.oblCount[full], inputs: x.curInputs}
		o.assume = assume
		o.incomplete = incomplete
		o.apps = st.apps
		o.entry = x.entryState
		o.skolems = x.curSkolems
		o.resultDyn = x.curResultDyn
		if ct != nil && x.curEnv != nil {
			for _, sst := range ct.script {
				if sst.kind != "let" {
					continue
				}
				if lv, ok := x.curEnv.lookup(sst.let.name); ok {
					if ifc, ok := lv.(*Iface); ok && ifc.dyn != nil {
						if o.letDyn == nil {
							o.letDyn = map[string]types.Type{}
						}
						o.letDyn[sst.let.name] = ifc.dyn
					}
				}
			}
		}
		x.obls = append(x.obls, o)
	}
}

// assumptions assembles the hypothesis set valid at st: path condition,
// definitional axioms, instantiated schemas and congruence axioms.
func (x *Exec) assumptions(st *State) []*Term {
	var out []*Term
	seen := map[int]bool{}
	add := func(t *Term) {
		if !t.isTrue() && !seen[t.id] {
			seen[t.id] = true
			out = append(out, t)
		}
	}
	if st.focused {
		// focused proof state: only the selected facts, later assumptions and definitional axioms
		// (and, when asked for with the pseudo-label "requires", the instances of the quantified
		// preconditions / invariants)
		if st.focusSchemas && len(x.schemas)+len(st.schemas) > 0 {
			work := st.fork()
			for _, t := range x.instantiate(work) {
				add(t)
			}
			for _, t := range work.ax {
				add(t)
			}
			for _, t := range congruenceAxioms(work.apps) {
				add(t)
			}
		}
		for _, t := range st.focus {
			add(t)
		}
		for _, t := range st.pc[st.focusAt:] {
			add(t)
		}
		if st.focusNoDefs {
			// "focus no-definitions ...": a step that needs only the named facts (pure arithmetic over
			// values whose defining equations would only slow the solver down)
			return out
		}
		for _, t := range st.ax {
			add(t)
		}
		// consistency of the uninterpreted applications and their theory facts stay available
		// (the relevance filter keeps only those whose values are mentioned)
		for _, t := range congruenceAxioms(st.apps) {
			add(t)
		}
		for _, t := range theoryAxioms(st.apps) {
			add(t)
		}
		return out
	}
	work := st
	if len(x.schemas)+len(st.schemas) > 0 {
		work = st.fork()
		insts := x.instantiate(work)
		for _, t := range insts {
			add(t)
		}
	}
	for _, t := range work.pc {
		add(t)
	}
	for _, t := range work.ax {
		add(t)
	}
	for _, t := range congruenceAxioms(work.apps) {
		add(t)
	}
	for _, t := range theoryAxioms(work.apps) {
		add(t)
	}
	return out
}

func (x *Exec) instantiate(st *State) []*Term {
	var out []*Term
	x.specMode++
	defer func() { x.specMode-- }()
	rounds := 2
	if x.cur != nil {
		if v, ok := x.cur.opts["inst-rounds"]; ok {
			fmt.Sscanf(v, "%d", &rounds)
		}
	}
	for round := 0; round < rounds; round++ {
		apps := append([]appRec{}, st.apps...)
		all := append(append([]*schema{}, x.schemas...), st.schemas...)
		for _, sc := range all {
			// candidate argument tuples per variable
			cands := make([][]Value, len(sc.vars))
			for i, v := range sc.vars {
				t := x.resolveType(sc.env.pkg, v.typ)
				cands[i] = x.candidates(st, apps, t)
			}
			total := 1
			for _, c := range cands {
				total *= len(c)
			}
			if os.Getenv("VERIF_DEBUG_INST") != "" {
				fmt.Printf("inst %s: cands=%v total=%d apps=%d\n", sc.text[:min(len(sc.text), 50)], func() []int { var n []int; for _, c := range cands { n = append(n, len(c)) }; return n }(), total, len(apps))
			}
			if total > 100 && len(sc.vars) >= 3 {
				// many integer variables: the cartesian product of the candidates drowns the solver
				// (or is over the cap and gives nothing). Instantiate tuple-wise instead: at the
				// arbitrary values of the goal (matched by name, else by position) and at the
				// witness tuples of the existential clauses assumed on this path.
				if tuples := x.alignedTuples(st, sc); tuples != nil {
					cands = nil
					for _, tp := range tuples {
						env := sc.env.child()
						key := sc.text
						for i, v := range sc.vars {
							env.vars[v.name] = tp[i]
							key += fmt.Sprintf("|%d,", tp[i].id)
						}
						if x.instSeen(st, key) {
							continue
						}
						if sc.st != nil {
							tmp := sc.st.fork()
							tmp.apps = st.apps
							tmp.ax = st.ax
							t := x.evalBool(tmp, env, sc.expr)
							st.apps = tmp.apps
							st.ax = tmp.ax
							out = append(out, t)
						} else {
							out = append(out, x.evalBool(st, env, sc.expr))
						}
					}
					continue
				}
			}
			if total == 0 || total > 400 {
				continue
			}
			idx := make([]int, len(cands))
			for {
				env := sc.env.child()
				for i, v := range sc.vars {
					env.vars[v.name] = cands[i][idx[i]]
				}
				key := sc.text
				for i := range idx {
					var fl []*Term
					uh := false
					x.flattenIdentity(cands[i][idx[i]], &fl, &uh)
					key += "|"
					for _, t := range fl {
						key += fmt.Sprintf("%d,", t.id)
					}
				}
				if !x.instSeen(st, key) {
					if sc.st != nil {
						// evaluate against the snapshot heap, but collect the applications / axioms here
						tmp := sc.st.fork()
						tmp.apps = st.apps
						tmp.ax = st.ax
						t := x.evalBool(tmp, env, sc.expr)
						st.apps = tmp.apps
						st.ax = tmp.ax
						out = append(out, t)
					} else {
						t := x.evalBool(st, env, sc.expr)
						out = append(out, t)
					}
				}
				k := len(idx) - 1
				for k >= 0 {
					idx[k]++
					if idx[k] < len(cands[k]) {
						break
					}
					idx[k] = 0
					k--
				}
				if k < 0 {
					break
				}
			}
		}
		if len(st.apps) == len(apps) {
			break
		}
	}
	return out
}

// alignedTuples: for a schema whose variables are all integers, the tuples it is instantiated at
// when the product of the candidates is too large; nil when the schema has another shape.
func (x *Exec) alignedTuples(st *State, sc *schema) [][]*Term {
	n := len(sc.vars)
	for _, v := range sc.vars {
		t := x.resolveType(sc.env.pkg, v.typ)
		if vs, ok := sortOf(t); !ok || vs != SInt {
			return nil
		}
	}
	out := [][]*Term{}
	// the goal's arbitrary values, by name
	byName := make([]*Term, 0, n)
	for _, v := range sc.vars {
		if tv, ok := x.curSkolems[v.name].(*Term); ok && tv.sort == SInt {
			byName = append(byName, tv)
		}
	}
	if len(byName) == n {
		out = append(out, byName)
	} else {
		var names []string
		for nm, sv := range x.curSkolems {
			if tv, ok := sv.(*Term); ok && tv.sort == SInt {
				names = append(names, nm)
			}
		}
		if len(names) == n {
			sort.Strings(names)
			tp := make([]*Term, n)
			for i, nm := range names {
				tp[i] = x.curSkolems[nm].(*Term)
			}
			out = append(out, tp)
		}
	}
	for _, tp := range st.witTuples {
		if len(tp) == n {
			out = append(out, tp)
		}
	}
	return out
}

func (x *Exec) instSeen(st *State, key string) bool {
	if x.instKeys == nil {
		x.instKeys = map[*State]map[string]bool{}
	}
	m := x.instKeys[st]
	if m == nil {
		m = map[string]bool{}
		x.instKeys[st] = m
	}
	if m[key] {
		return true
	}
	m[key] = true
	return false
}

// candidates: values of type t at which abstract shapes have been evaluated.
func (x *Exec) candidates(st *State, apps []appRec, t types.Type) []Value {
	var out []Value
	seen := map[string]bool{}
	s, ok := t.Underlying().(*types.Struct)
	if ok {
		for _, a := range apps {
			if !(strings.HasPrefix(a.fn, "Ev_") || a.fn == "evalpt" || strings.HasPrefix(a.fn, "maphas_")) {
				continue
			}
			if strings.HasPrefix(a.fn, "Ev_arr_") && len(a.args) > s.NumFields() {
				// a member of a family of shapes: the point is what follows the member's index
				a = appRec{fn: a.fn, args: a.args[len(a.args)-s.NumFields():], res: a.res}
			}
			if len(a.args) != s.NumFields() {
				continue
			}
			sortsOK := true
			for i, at := range a.args {
				if fs, ok := sortOf(s.Field(i).Type()); !ok || fs != at.sort {
					sortsOK = false
				}
			}
			if !sortsOK {
				continue
			}
			el := make([]Value, len(a.args))
			k := ""
			for i, t := range a.args {
				el[i] = t
				k += fmt.Sprintf("%d,", t.id)
			}
			if !seen[k] {
				seen[k] = true
				out = append(out, &Tuple{typ: t, el: el})
			}
		}
		return out
	}
	if pt, ok := t.Underlying().(*types.Pointer); ok && !foreignType(pt.Elem()) {
		// objects of the type's region whose fields have been read
		rc := x.regionCell(pt.Elem())
		prefix := "sel_heap_" + sanitize(types.TypeString(pt.Elem(), nil)) + "."
		for _, a := range apps {
			if !strings.HasPrefix(a.fn, prefix) || len(a.args) < 1 {
				continue
			}
			k := fmt.Sprintf("%d", a.args[0].id)
			if !seen[k] {
				seen[k] = true
				out = append(out, &Ptr{cell: rc, sym: a.args[0], mayNil: true})
			}
		}
		return out
	}
	if vs, ok := sortOf(t); ok {
		// the arbitrary values of the goal being proved (its skolems) are where hypotheses over
		// the same sort are needed first
		{
			var names []string
			for n := range x.curSkolems {
				names = append(names, n)
			}
			sort.Strings(names)
			for _, n := range names {
				if tv, ok := x.curSkolems[n].(*Term); ok && tv.sort == vs {
					k := fmt.Sprintf("%d", tv.id)
					if !seen[k] {
						seen[k] = true
						out = append(out, tv)
					}
				}
			}
		}
		// witnesses of assumed existential clauses: universally quantified hypotheses are needed at them
		if vs == SInt {
			for _, w := range st.wits {
				k := fmt.Sprintf("%d", w.id)
				if !seen[k] {
					seen[k] = true
					out = append(out, w)
				}
			}
		}
		// arguments of applications of abstract function values (a blend function held in a field):
		// facts quantified over their arguments are instantiated where they are applied
		for _, a := range apps {
			if !strings.Contains(a.fn, "#") || strings.HasPrefix(a.fn, "ret_") {
				continue
			}
			for _, arg := range a.args {
				if arg.sort != vs {
					continue
				}
				k := fmt.Sprintf("%d", arg.id)
				if !seen[k] {
					seen[k] = true
					out = append(out, arg)
				}
			}
		}
		for _, a := range apps {
			if strings.HasPrefix(a.fn, "Ev_") || a.fn == "evalpt" || strings.HasPrefix(a.fn, "sqrt") || len(a.args) != 1 {
				continue
			}
			if strings.HasPrefix(a.fn, "sel_heap_") || a.args[0].sort != vs {
				// object identities are not indices; a variable ranges over terms of its own sort
				continue
			}
			k := fmt.Sprintf("%d", a.args[0].id)
			if !seen[k] {
				seen[k] = true
				out = append(out, a.args[0])
			}
		}
	}
	return out
}

//-----------------------------------------------------------------------------

func (x *Exec) resolveFunc(ct *Contract) *ssa.Function {
	pkg := x.pkgByNm[ct.pkg]
	if pkg == nil {
		fail("contract %s: package %s not loaded", ct.fnName, ct.pkg)
	}
	name := ct.fnName
	closure := ""
	if i := strings.Index(name, "$"); i >= 0 {
		closure = name[i:]
		name = name[:i]
	}
	var fn *ssa.Function
	if i := strings.Index(name, "."); i >= 0 {
		tn, mn := name[:i], name[i+1:]
		tn = strings.Trim(tn, "(*)")
		o := pkg.Pkg.Scope().Lookup(tn)
		if o == nil {
			fail("contract %s: unknown type %s", ct.fnName, tn)
		}
		fn = x.findMethod(o.Type(), mn)
		if fn == nil {
			fn = x.findMethod(types.NewPointer(o.Type()), mn)
		}
		if fn == nil {
			fail("contract %s: no method %s on %s", ct.fnName, mn, tn)
		}
	} else {
		fn = pkg.Func(name)
		if fn == nil {
			fail("contract %s: no function %s in package %s", ct.fnName, name, ct.pkg)
		}
	}
	if closure != "" {
		for _, af := range fn.AnonFuncs {
			if af.Name() == name[strings.LastIndex(name, ".")+1:]+closure || strings.HasSuffix(af.Name(), closure) {
				return af
			}
		}
		fail("contract %s: closure %s not found", ct.fnName, closure)
	}
	return fn
}

func (x *Exec) modularContracts(fn *ssa.Function) []*Contract {
	var out []*Contract
	for _, c := range x.byFn[fn] {
		if c.modular {
			out = append(out, c)
			continue
		}
		// "summarise Type.Method id": within the contract being verified, calls of that function
		// are seen through its (separately verified) contract of that id
		if x.cur != nil {
			for _, sm := range x.cur.summarise {
				if sm[0] == c.fnName && sm[1] == c.id && c.pkg == x.cur.pkg {
					out = append(out, c)
				}
			}
		}
	}
	return out
}

// evaluableAtCallSite: a postcondition can be stated in the caller's terms (trial evaluation on a
// throw-away copy of the state; "unknown identifier" means it names the callee's locals).
func (x *Exec) evaluableAtCallSite(st *State, env *Env, ct *Contract, cl *Clause) (ok bool) {
	ok = true
	defer func() {
		if r := recover(); r != nil {
			e, isE := r.(engineErr)
			if !isE || !strings.Contains(e.Error(), "unknown identifier") {
				panic(r)
			}
			ok = false
		}
	}()
	x.specMode++
	defer func() { x.specMode-- }()
	x.dry++
	defer func() { x.dry-- }()
	tmp := st.fork()
	e2 := env.child()
	for _, q := range ct.foralls {
		if _, has := e2.lookup(q.name); !has {
			e2.vars[q.name] = x.symValue(tmp, x.resolveType(env.pkg, q.typ), "try$"+q.name)
		}
	}
	for _, v := range cl.vars {
		vt := x.resolveType(env.pkg, v.typ)
		if pt, isP := vt.Underlying().(*types.Pointer); isP && !foreignType(pt.Elem()) {
			e2.vars[v.name] = &Ptr{cell: x.regionCell(pt.Elem()), sym: freshVar("try$"+v.name, SInt), mayNil: true}
		} else {
			e2.vars[v.name] = x.symValue(tmp, vt, "try$"+v.name)
		}
	}
	x.evalBool(tmp, e2, cl.expr)
	return
}

// applyContract: call site sees only the callee's contract.
func (x *Exec) applyContract(st *State, fn *ssa.Function, cts []*Contract, args []Value) []Out {
	res := fn.Signature.Results()
	vals := make([]Value, res.Len())
	resMark := cellCtr
	var flatArgs []*Term
	pure := true
	readsOnly := false
	for _, ct := range cts {
		if ct.pure {
			readsOnly = true
		}
	}
	usedPtr := false
	for _, a := range args {
		if p, ok := a.(*Ptr); ok && readsOnly {
			// a function that only reads: its result is determined by the identity of the
			// object it is given and the contents of the shared heap (the epoch)
			usedPtr = true
			if p.cell == nil {
				flatArgs = append(flatArgs, mkInt(0), mkInt(0))
				continue
			}
			flatArgs = append(flatArgs, mkInt(int64(p.cell.id)))
			for _, k := range p.path {
				flatArgs = append(flatArgs, mkInt(int64(k)))
			}
			if p.sym != nil {
				flatArgs = append(flatArgs, p.sym)
			} else {
				flatArgs = append(flatArgs, mkInt(-1))
			}
			continue
		}
		if !flatten(a, &flatArgs) {
			pure = false
		}
	}
	if usedPtr {
		flatArgs = append(flatArgs, mkInt(int64(x.heapEpochFor(st, args))))
	}
	for i := 0; i < res.Len(); i++ {
		if pure && !isErrorType(res.At(i).Type()) && ufSupported(res.At(i).Type()) {
			// pure function of scalar arguments: equal arguments give equal results
			vals[i] = x.ufResult(st, fmt.Sprintf("ret_%s#%d", sanitize(fn.Name()), i), res.At(i).Type(), flatArgs)
		} else if pt, ok := res.At(i).Type().Underlying().(*types.Pointer); ok && !foreignType(pt.Elem()) && regionable(pt.Elem()) {
			// a pointer result: some object of the type's region, or nil (identity 0); which one is
			// a function of the arguments when the callee only reads
			var id *Term
			if pure {
				id = x.ufApp(st, fmt.Sprintf("ret_%s#%d$id", sanitize(fn.Name()), i), SInt, flatArgs)
			} else {
				id = freshVar("ret$"+fn.Name()+"$id", SInt)
			}
			st.axiom(mkLe(mkInt(0), id))
			vals[i] = &Ptr{cell: x.regionCell(pt.Elem()), sym: id, mayNil: true}
		} else {
			vals[i] = x.havocResult(st, res.At(i).Type(), "ret$"+fn.Name())
		}
	}
	pre := st.fork() // state before the call, for old() in the callee's postconditions
	for _, ct := range cts {
		env := &Env{vars: map[string]Value{}, pkg: x.pkgByNm[ct.pkg]}
		recNames := recordedParamNames(x.recordedLocals[fn.String()], fn)
		for i, p := range fn.Params {
			if rn := recNames[p]; rn != "" && rn != p.Name() {
				// the parameter was renamed since the contract was written
				if _, clash := env.vars[rn]; !clash {
					env.vars[rn] = args[i]
				}
			}
			env.vars[p.Name()] = args[i]
		}
		env.old = pre
		env.oldEnv = &Env{vars: env.vars, pkg: env.pkg}
		if len(ct.prelets) > 0 {
			// entry values named by the contract: evaluated in the state before the call
			x.specMode++
			tmp := pre.fork()
			tmp.apps = st.apps
			tmp.ax = st.ax
			for _, l := range ct.prelets {
				env.vars[l.name] = x.eval(tmp, env, l.expr)
			}
			st.apps = tmp.apps
			st.ax = tmp.ax
			x.specMode--
		}
		// contract-level "forall v T": clauses mentioning v are not call preconditions; they
		// qualify the postconditions that mention v (forall v :: requires(v) ==> ensures(v))
		fa := map[string]bool{}
		for _, q := range ct.foralls {
			fa[q.name] = true
		}
		inSpec := x.specMode > 0
		var qreq Expr
		for _, cl := range ct.requires {
			if len(fa) > 0 && mentionsIdent(cl.expr, fa) {
				if qreq == nil {
					qreq = cl.expr
				} else {
					qreq = &EBin{op: "&&", l: qreq, r: cl.expr}
				}
				continue
			}
			if inSpec {
				// a call inside a specification expression: the function is used as a total
				// mathematical function and its contract is known only where the precondition holds
				continue
			}
			// quantified preconditions are proved for an arbitrary (skolem) instance
			x.specMode++
			t := x.evalClause(st, env, cl)
			x.specMode--
			x.oblige(st, fmt.Sprintf("call.%s.pre", fn.Name()), t, "precondition of "+ct.label()+": "+cl.text)
		}
		// frame of the summarised callee: the listed locations get arbitrary new contents
		for _, he := range ct.havocs {
			if inSpec {
				fail("%s modifies memory and cannot be called in a specification expression", ct.label())
			}
			x.havocLocation(st, env, he, fn.Name())
		}
		bindResults(env, fn, vals)
		// lets of the contract that can be evaluated from the caller's side are made available
		unavailable := map[string]bool{}
		for _, sst := range ct.script {
			if sst.kind != "let" {
				continue
			}
			if mentionsIdent(sst.let.expr, fa) || mentionsIdent(sst.let.expr, unavailable) || mentionsEvents(sst.let.expr) {
				unavailable[sst.let.name] = true
				continue
			}
			func() {
				defer func() {
					if r := recover(); r != nil {
						if _, ok := r.(engineErr); !ok {
							panic(r)
						}
						unavailable[sst.let.name] = true
					}
				}()
				x.specMode++
				defer func() { x.specMode-- }()
				env.vars[sst.let.name] = x.eval(st, env, sst.let.expr)
			}()
		}
		// "r.f == s" for an abstract shape: the arbitrary shape made up for the result's field is that one
		if !inSpec {
			for _, cl := range ct.ensures {
				if len(cl.vars) == 0 && !mentionsEvents(cl.expr) && !(len(fa) > 0 && mentionsIdent(cl.expr, fa)) {
					x.unifyAbstract(st, env, cl.expr, resMark, vals)
				}
			}
		}
		for _, cl := range ct.ensures {
			if len(unavailable) > 0 && mentionsIdent(cl.expr, unavailable) {
				continue
			}
			if inSpec {
				// inside a specification expression the call only names the function's value;
				// what the contract says about it is learnt at real call sites or by "use"
				continue
			}
			if mentionsEvents(cl.expr) {
				// postconditions about the callee's own events / proof-script lets describe its body, not a fact the caller can use
				continue
			}
			if !x.evaluableAtCallSite(st, env, ct, cl) {
				// the clause names locals of the callee's body: nothing the caller can use (dropping a fact is sound)
				continue
			}
			if len(fa) > 0 && mentionsIdent(cl.expr, fa) {
				if len(cl.vars) > 0 {
					continue
				}
				ex := cl.expr
				if qreq != nil {
					ex = &EBin{op: "==>", l: qreq, r: ex}
				}
				x.schemaCtr++
				st.schemas = append(st.schemas, &schema{vars: ct.foralls, expr: ex, env: env, text: fmt.Sprintf("%s@%d:%s", ct.label(), x.schemaCtr, cl.text)})
				continue
			}
			if len(cl.vars) > 0 && !hasExists(cl) {
				// quantified postcondition: becomes an instantiable schema for the caller
				x.schemaCtr++
				st.schemas = append(st.schemas, &schema{vars: cl.vars, expr: cl.expr, env: env, text: fmt.Sprintf("%s@%d:%s", ct.label(), x.schemaCtr, cl.text)})
				continue
			}
			fact := x.assumeClause(st, env, cl, func(n string, v Value) { env.vars[n] = v })
			// what a callee guarantees about its (uninterpreted) result is of use only where that
			// result matters: a definitional fact for the relevance filter
			{
				var leaves []*Term
				for _, rv := range vals {
					flatten(rv, &leaves)
				}
				tv := termVars(fact)
				var defs []*Term
				for _, l := range leaves {
					if l.op == "v" && tv[l.id] {
						defs = append(defs, l)
					}
				}
				if len(defs) > 0 {
					registerDef(fact, defs...)
				}
			}
			st.assume(fact)
		}
		if ct.trusted != "" {
			x.note("trusted contract " + ct.label() + ": " + ct.trusted)
		}
	}
	x.usedModular[fn.String()] = true
	if x.usedContracts == nil {
		x.usedContracts = map[string]bool{}
	}
	for _, ct := range cts {
		x.usedContracts[ct.label()] = true
	}
	// the summarised call is an event (arguments by value), so contracts can say which calls happen
	snap := make([]Value, len(args))
	for i, a := range args {
		snap[i] = a
		if p, ok := a.(*Ptr); ok && p.cell != nil {
			if cur, ok := st.store[p.cell]; ok {
				if _, isSym := cur.(*SymArr); !isSym && p.sym == nil {
					snap[i] = getPath(cur, p.path)
				}
			}
		}
	}
	if x.specMode > 0 {
		return []Out{{st: st, vals: vals}}
	}
	st.log = append(st.log, Event{kind: "call:" + qualifiedName(fn), args: snap, res: vals, raw: append([]Value{}, args...)})
	st.version++
	return []Out{{st: st, vals: vals}}
}

// unifyAbstract: a postcondition conjunct "a == b" between two abstract shapes,
// one of which was made up for the havocked result of this call, is realised by
// making the result hold the other one (abstract shapes are compared by identity).
func (x *Exec) unifyAbstract(st *State, env *Env, e Expr, mark int, vals []Value) {
	b, ok := e.(*EBin)
	if !ok {
		return
	}
	if b.op == "&&" {
		x.unifyAbstract(st, env, b.l, mark, vals)
		x.unifyAbstract(st, env, b.r, mark, vals)
		return
	}
	if b.op != "==" {
		return
	}
	try := func(e Expr) (v Value) {
		defer func() {
			if r := recover(); r != nil {
				if _, ok := r.(engineErr); !ok {
					panic(r)
				}
				v = nil
			}
		}()
		x.specMode++
		defer func() { x.specMode-- }()
		return x.eval(st, env, e)
	}
	if !mentionsResultField(b.l) && !mentionsResultField(b.r) {
		return
	}
	lv, rv := try(b.l), try(b.r)
	la, lok := lv.(*AbsObj)
	ra, rok := rv.(*AbsObj)
	if !lok || !rok || la == ra {
		return
	}
	var from *AbsObj
	var to Value
	switch {
	case la.stamp > mark && ra.stamp <= mark:
		from, to = la, ra
	case ra.stamp > mark && la.stamp <= mark:
		from, to = ra, la
	default:
		return
	}
	var subst func(v Value) Value
	subst = func(v Value) Value {
		switch t := v.(type) {
		case *AbsObj:
			if t == from {
				return to
			}
		case *Tuple:
			var el []Value
			for i, e := range t.el {
				ne := subst(e)
				if ne != e && el == nil {
					el = append([]Value{}, t.el...)
				}
				if el != nil {
					el[i] = ne
				}
			}
			if el != nil {
				return &Tuple{typ: t.typ, el: el}
			}
		case *Iface:
			if nv := subst(t.val); nv != t.val {
				return &Iface{dyn: t.dyn, val: nv}
			}
		}
		return v
	}
	for c, v := range st.store {
		if c.id > mark {
			if nv := subst(v); nv != v {
				st.store[c] = nv
			}
		}
	}
	for i := range vals {
		vals[i] = subst(vals[i])
	}
}

// mentionsResultField: the expression selects a component of the result (r.f, r0.f, result.f).
func mentionsResultField(e Expr) bool {
	switch n := e.(type) {
	case *ESel:
		if id, ok := n.x.(*EIdent); ok {
			switch id.name {
			case "r", "r0", "r1", "result":
				return true
			}
		}
		return mentionsResultField(n.x)
	case *EIndex:
		return mentionsResultField(n.x)
	}
	return false
}

// heapEpoch counts the writes so far to memory that existed when the function
// under contract was entered (parameters' targets, globals, object regions):
// two reads-only calls with the same epoch saw the same shared heap.
func (x *Exec) heapEpoch(st *State) int {
	n := 0
	for _, id := range st.wlog {
		if id <= x.entryMark || x.regionIDs[id] {
			n++
		}
	}
	return n
}

// regionable: objects of struct or array type can live in a symbolic region
// when all their components can be read back from one (scalars, nested
// structs/arrays, pointers, slices - not interfaces, maps, functions, channels).
func regionable(t types.Type) bool {
	switch t.Underlying().(type) {
	case *types.Struct, *types.Array:
		return regionComponent(t, 0)
	}
	return false
}

func regionComponent(t types.Type, depth int) bool {
	if depth > 6 {
		return true
	}
	switch u := t.Underlying().(type) {
	case *types.Basic:
		return true
	case *types.Struct:
		for i := 0; i < u.NumFields(); i++ {
			if !regionComponent(u.Field(i).Type(), depth+1) {
				return false
			}
		}
		return true
	case *types.Array:
		return regionComponent(u.Elem(), depth+1)
	case *types.Pointer, *types.Slice:
		return true
	}
	return false
}

// qualifiedName: "Type.method" for methods, the plain name otherwise.
func qualifiedName(fn *ssa.Function) string {
	if recv := fn.Signature.Recv(); recv != nil {
		t := recv.Type()
		if pt, ok := t.(*types.Pointer); ok {
			t = pt.Elem()
		}
		if nt, ok := t.(*types.Named); ok {
			return nt.Obj().Name() + "." + fn.Name()
		}
	}
	return fn.Name()
}

// heapEpochFor: the epoch relevant to a reads-only call with these arguments.
// When every pointer argument points to pointer-free data (a plain value
// object), only writes to those objects' own cells can change what the callee
// reads; otherwise the global epoch is used.
func (x *Exec) heapEpochFor(st *State, args []Value) int {
	own := map[int]bool{}
	for _, a := range args {
		switch p := a.(type) {
		case *Ptr:
			if p.cell == nil {
				continue
			}
			if p.cell.typ == nil || hasPointers(p.cell.typ, 0) {
				return x.heapEpoch(st)
			}
			own[p.cell.id] = true
		case *SliceV, *MapV, *Iface, *Func, *AbsObj, *Opaque:
			return x.heapEpoch(st)
		}
	}
	n := 0
	for _, id := range st.wlog {
		if own[id] {
			n++
		}
	}
	return n
}

func hasPointers(t types.Type, depth int) bool {
	if depth > 8 {
		return true
	}
	switch u := t.Underlying().(type) {
	case *types.Basic:
		return u.Kind() == types.UnsafePointer || u.Info()&types.IsString != 0 && false
	case *types.Struct:
		for i := 0; i < u.NumFields(); i++ {
			if hasPointers(u.Field(i).Type(), depth+1) {
				return true
			}
		}
		return false
	case *types.Array:
		return hasPointers(u.Elem(), depth+1)
	}
	return true
}

func bindResults(env *Env, fn *ssa.Function, vals []Value) {
	res := fn.Signature.Results()
	for i := 0; i < res.Len(); i++ {
		if _, clash := env.lookup(fmt.Sprintf("r%d", i)); !clash {
			env.vars[fmt.Sprintf("r%d", i)] = vals[i]
		}
		if n := res.At(i).Name(); n != "" && n != "_" {
			env.vars[n] = vals[i]
		}
	}
	if len(vals) >= 1 {
		clash := false
		for _, p := range fn.Params {
			if p.Name() == "r" {
				clash = true // a parameter named r keeps its meaning; use "result"
			}
		}
		if !clash {
			env.vars["r"] = vals[0]
		}
		env.vars["result"] = vals[0]
	}
	if len(vals) >= 2 {
		env.vars["err"] = vals[len(vals)-1]
	}
}

type finalState struct {
	st  *State
	env *Env
}

// verifyContract generates all obligations for one contract block.
func (x *Exec) verifyContract(ct *Contract) (err error) {
	defer func() {
		if r := recover(); r != nil {
			if e, ok := r.(engineErr); ok {
				err = e
				return
			}
			if os.Getenv("VERIF_DEBUG") != "" {
				panic(r)
			}
			err = fmt.Errorf("internal: %v", r)
		}
	}()
	if os.Getenv("VERIF_DEBUG_INST") != "" {
		fmt.Printf("enter %s specMode=%d dry=%d\n", ct.label(), x.specMode, x.dry)
	}
	x.specMode, x.dry = 0, 0 // never inherited from an earlier contract of the run
	for _, a := range ct.assumes {
		x.note("hypothesis of " + ct.label() + " (assumed, not proved): " + a)
	}
	x.cur = ct
	// symbolic execution of one contract has a time budget: changed code under annotations that
	// no longer fit it (a loop that lost its invariant) can otherwise unroll without end
	x.deadline = time.Now().Add(contractBudget)
	x.steps = 0
	defer func() { x.deadline = time.Time{} }()
	freshCtr = map[string]int{}
	for k, n := range x.freshBase {
		freshCtr[k] = n
	}
	// the application memo must be reset together with the name counters: otherwise a
	// fresh name could coincide with a variable memoised for a different application
	ufMemo = map[string]*Term{}
	for k, t := range x.ufMemoBase {
		ufMemo[k] = t
	}
	x.schemas = nil
	x.paths = 0
	x.unrolled = 0
	x.instKeys = nil
	x.mergeIf = ct.opts["split"] == ""
	x.prune = ct.opts["prune"] != ""
	x.mergeCallMax = 4
	if v, ok := ct.opts["mergecall"]; ok {
		fmt.Sscanf(v, "%d", &x.mergeCallMax)
	}
	x.safety = ct.opts["safety"] != ""
	x.splitGoals = ct.opts["nosplitgoal"] == ""
	x.trigQuadrants = ct.opts["trig-quadrants"] != ""
	x.maxPaths = 20000
	x.opaque = map[string]bool{}
	if v, ok := ct.opts["opaque"]; ok {
		for _, f := range strings.Fields(v) {
			x.opaque[f] = true
		}
	}
	pkg := x.pkgByNm[ct.pkg]
	st := x.gstate.fork()
	env := &Env{vars: map[string]Value{}, pkg: pkg}
	x.curEnv = env
	x.curInputs = map[string]Value{}
	var fn *ssa.Function
	var args []Value
	x.renamed = nil
	if !ct.lemma {
		fn = x.resolveFunc(ct)
		ct.fn = fn
		x.renamed = renamedLocals(x.recordedLocals[fn.String()], fn)
		for _, p := range fn.Params {
			v := x.symValue(st, p.Type(), p.Name())
			for _, np := range ct.nilParams {
				if np == p.Name() {
					v = zeroValue(p.Type())
				}
			}
			args = append(args, v)
			env.vars[p.Name()] = v
			x.curInputs[p.Name()] = v
		}
		for i, fv := range fn.FreeVars {
			// closures verified stand-alone: free variables are symbolic cells
			_ = i
			et := fv.Type().(*types.Pointer).Elem()
			c := newCell(fv.Name(), et)
			st.store[c] = x.symValue(st, et, fv.Name())
			env.vars[fv.Name()] = st.store[c]
			x.curInputs[fv.Name()] = st.store[c]
		}
	} else {
		for _, p := range ct.params {
			v := x.symValue(st, x.resolveType(pkg, p.typ), p.name)
			env.vars[p.name] = v
			x.curInputs[p.name] = v
		}
	}
	for _, q := range ct.foralls {
		v := x.symValue(st, x.resolveType(pkg, q.typ), q.name)
		env.vars[q.name] = v
		x.curInputs[q.name] = v
	}
	x.specMode++
	for _, l := range ct.prelets {
		env.vars[l.name] = x.eval(st, env, l.expr)
	}
	for _, cl := range ct.requires {
		if len(cl.vars) > 0 && !hasExists(cl) {
			x.schemas = append(x.schemas, &schema{vars: cl.vars, expr: cl.expr, env: env, text: cl.text})
			continue
		}
		rt := x.assumeClause(st, env, cl, func(n string, v Value) { env.vars[n] = v })
		st.reqFacts = append(st.reqFacts, rt)
		st.assume(rt)
	}
	// vacuity probe: preconditions must be satisfiable
	probeAssume := x.assumptions(st)
	for _, cl := range ct.examples {
		probeAssume = append(append([]*Term{}, probeAssume...), x.evalBool(st, env, cl.expr))
	}
	x.specMode--
	probe := &Obligation{name: ct.label() + "/vacuity.requires", props: ct.props, contract: ct, goal: tFalse, expectSat: true, what: "preconditions satisfiable", assume: probeAssume}
	x.obls = append(x.obls, probe)

	entry := st.fork()
	x.entryState = entry
	x.entryMark = cellCtr
	// quantified preconditions speak about the entry state, whatever the heap looks like later
	for _, sc := range x.schemas {
		sc.st = entry
	}
	entryEnv := env
	var finals []finalState
	if ct.lemma {
		finals = []finalState{{st, env}}
	} else {
		var outs []Out
		if len(fn.FreeVars) > 0 {
			f := &Func{fn: fn}
			for _, fv := range fn.FreeVars {
				// find cell created above by name
				for c := range st.store {
					if c.name == fv.Name() && c.typ == fv.Type().(*types.Pointer).Elem() {
						f.bind = append(f.bind, &Ptr{cell: c})
						break
					}
				}
			}
			outs = x.callClosureTop(st, f, args, ct)
		} else {
			outs = x.callTop(st, fn, args, ct)
		}
		nret := 0
		for _, o := range outs {
			if o.kind != oRet {
				continue
			}
			nret++
			e2 := env.child()
			e2.old = entry
			e2.oldEnv = entryEnv
			e2.frame = o.fr // Go locals of the verified function are visible after the parameters
			bindResults(e2, fn, o.vals)
			finals = append(finals, finalState{o.st, e2})
		}
		x.pathsOf[ct.label()] = len(outs)
		if nret == 0 && len(ct.ensures) > 0 {
			why := ""
			for _, o := range outs {
				if o.kind == oPanic {
					why = " (a path panics: " + o.msg + ")"
					break
				}
			}
			fail("no returning path in %s%s", fn, why)
		}
	}
	// proof script in source order: let (forking), assert, use, generalize
	for _, sst := range ct.script {
		switch sst.kind {
		case "do":
			var next []finalState
			for _, f := range finals {
				for _, so := range x.evalLetFork(f.st, f.env, sst.let.expr) {
					next = append(next, finalState{so.st, f.env})
				}
			}
			finals = next
		case "let":
			var next []finalState
			for _, f := range finals {
				var outs []specOut
				var why string
				smode, sdry := x.specMode, x.dry
				func() {
					defer func() {
						if r := recover(); r != nil {
							// a recovered panic must not leave the spec-mode / dry-run depth raised
							x.specMode, x.dry = smode, sdry
							e, ok := r.(engineErr)
							if !ok || !strings.Contains(e.Error(), "unknown identifier") && !strings.Contains(e.Error(), "undefined on this path") && !strings.Contains(e.Error(), "on nil interface") {
								panic(r)
							}
							why = e.Error()
						}
					}()
					outs = x.evalLetFork(f.st, f.env, sst.let.expr)
				}()
				if why != "" {
					// a Go local that does not exist on this path (early return): the let is
					// undefined here and may only occur where evaluation is short-circuited
					e3 := f.env.child()
					e3.vars[sst.let.name] = &Poison{msg: "let " + sst.let.name + " is undefined on this path (" + why + ")"}
					next = append(next, finalState{f.st, e3})
					continue
				}
				for _, so := range outs {
					e3 := f.env.child()
					e3.vars[sst.let.name] = so.val
					next = append(next, finalState{so.st, e3})
				}
			}
			finals = next
		case "assert":
			x.specMode++
			for _, f := range finals {
				if f.st.infeasible() {
					continue
				}
				x.curEnv = f.env
				cl := sst.clause
				t := x.evalClause(f.st, f.env, cl)
				lbl := cl.label
				if lbl == "" {
					for k, c2 := range ct.asserts {
						if c2 == cl {
							lbl = fmt.Sprintf("%d", k)
						}
					}
				}
				x.oblige(f.st, "assert."+lbl, t, cl.text)
				f.st.assume(t)
				if len(cl.vars) > 0 && !hasExists(cl) {
					// a universally quantified assertion was proved for arbitrary values (skolems):
					// from here on it is an instantiable fact about the state it was proved in
					x.schemaCtr++
					f.st.schemas = append(f.st.schemas, &schema{vars: cl.vars, expr: cl.expr, env: f.env, st: f.st.fork(), text: fmt.Sprintf("assert.%s@%d:%s", lbl, x.schemaCtr, cl.text)})
				}
				if f.st.labelled == nil {
					f.st.labelled = map[string]*Term{}
				}
				f.st.labelled[lbl] = t
			}
			x.specMode--
		case "use":
			lem := x.lemmaByName[ct.pkg+"."+sst.name]
			if lem == nil {
				fail("use of unknown lemma %s", sst.name)
			}
			if len(lem.params) != len(sst.args) {
				fail("lemma %s takes %d arguments", sst.name, len(lem.params))
			}
			x.usedLemmas[lem.label()] = true
			x.specMode++
			for _, f := range finals {
				le := &Env{vars: map[string]Value{}, pkg: f.env.pkg}
				skip := false
				smode, sdry := x.specMode, x.dry
				func() {
					defer func() {
						if r := recover(); r != nil {
							x.specMode, x.dry = smode, sdry
							e, ok := r.(engineErr)
							if !ok || !strings.Contains(e.Error(), "unknown identifier") && !strings.Contains(e.Error(), "undefined on this path") {
								panic(r)
							}
							skip = true // the lemma's arguments do not exist on this path (early return)
						}
					}()
					for i, p := range lem.params {
						val := x.eval(f.st, f.env, sst.args[i])
						if p.typ == "real" || p.typ == "float64" {
							val = x.coerceTo(val, types.Typ[types.Float64])
						}
						le.vars[p.name] = val
					}
				}()
				if skip {
					continue
				}
				// the lemma's own lets (abbreviations used by its hypotheses and conclusions)
				for _, l := range lem.prelets {
					le.vars[l.name] = x.eval(f.st, le, l.expr)
				}
				for _, ls := range lem.script {
					if ls.kind == "let" {
						le.vars[ls.let.name] = x.eval(f.st, le, ls.let.expr)
					}
				}
				var pre, post []*Term
				for _, cl := range lem.requires {
					pre = append(pre, x.evalBool(f.st, le, cl.expr))
				}
				for _, cl := range lem.ensures {
					if len(cl.vars) > 0 {
						fail("lemma %s has a quantified conclusion", sst.name)
					}
					post = append(post, x.evalBool(f.st, le, cl.expr))
				}
				f.st.assume(mkImplies(mkAnd(pre...), mkAnd(post...)))
			}
			x.specMode--
		case "focus":
			for _, f := range finals {
				var keep []*Term
				f.st.focusSchemas = false
				f.st.focusNoDefs = false
				for _, lbl := range strings.Fields(sst.text) {
					if lbl == "no-definitions" {
						f.st.focusNoDefs = true
						continue
					}
					if lbl == "path-int" {
						// the integer / boolean part of the path condition (which branch, which index),
						// without the conjuncts that compare real-valued terms
						for _, pt := range f.st.pc {
							if !mentionsRealVar(pt, map[int]bool{}) {
								keep = append(keep, pt)
							}
						}
						continue
					}
					if lbl == "requires" {
						f.st.focusSchemas = true
						for _, rt := range f.st.reqFacts {
							keep = append(keep, rt)
						}
						continue
					}
					t, ok := f.st.labelled[lbl]
					if !ok {
						fail("focus: no asserted fact labelled %q", lbl)
					}
					keep = append(keep, t)
				}
				f.st.focus = keep
				f.st.focusAt = len(f.st.pc)
				f.st.focused = true
			}
		case "unfocus":
			for _, f := range finals {
				f.st.focused = false
			}
		case "generalize":
			for i := range finals {
				x.generalize(finals[i].st, finals[i].env, sst.name)
			}
		}
	}
	if len(finals) == 0 && len(ct.ensures) > 0 {
		fail("no path reaches the postconditions of %s (vacuous contract)", ct.label())
	}
	// every loop clause must have produced at least one obligation (the loop body must be completable)
	have := map[string]bool{}
	for _, o := range x.obls {
		if o.contract == ct {
			n := o.name[len(ct.label())+1:]
			have[n] = true
		}
	}
	for ord, cls := range ct.invs {
		if len(cls) > 0 && !have[fmt.Sprintf("inv%d.0.preserve", ord)] {
			fail("loop %d of %s: no path completes an iteration (vacuous invariant)", ord, ct.label())
		}
	}
	for ord, cls := range ct.bodies {
		if len(cls) > 0 && !have[fmt.Sprintf("body%d.0", ord)] {
			fail("loop %d of %s: no path completes an iteration (vacuous body clause)", ord, ct.label())
		}
	}
	x.specMode++
	defer func() { x.specMode-- }()
	for _, f := range finals {
		x.curEnv = f.env
		if f.st.infeasible() {
			continue
		}
		x.curResultDyn = nil
		if rv, ok := f.env.lookup("r"); ok {
			if ifc, ok := rv.(*Iface); ok && ifc.dyn != nil {
				x.curResultDyn = ifc.dyn
			}
		}
		for k, cl := range ct.ensures {
			lbl := cl.label
			if lbl == "" {
				lbl = fmt.Sprintf("%d", k)
			}
			s2 := f.st.fork()
			x.witnessTuples = ct.witnesses[-1]
			t := x.evalClause(s2, f.env, cl)
			x.witnessTuples = nil
			if len(ct.cases) == 0 {
				x.oblige(s2, "post."+lbl, t, cl.text)
				continue
			}
			// explicit case split: 2^k queries, one per sign pattern of the case conditions
			var conds []*Term
			for _, c := range ct.cases {
				conds = append(conds, x.evalBool(s2, f.env, c.expr))
			}
			for m := 0; m < 1<<uint(len(conds)); m++ {
				s3 := s2.fork()
				for k, c := range conds {
					if m&(1<<uint(k)) != 0 {
						s3.assume(c)
					} else {
						s3.assume(mkNot(c))
					}
				}
				x.oblige(s3, "post."+lbl, t, cl.text)
			}
		}
	}
	return nil
}

type specOut struct {
	st  *State
	val Value
}

// evalLetFork evaluates a let expression; if it is a call the callee is run
// with normal path forking so that later obligations are split per path.
func (x *Exec) evalLetFork(st *State, env *Env, e Expr) []specOut {
	call, ok := e.(*ECall)
	if !ok {
		x.specMode++
		defer func() { x.specMode-- }()
		return []specOut{{st, x.eval(st, env, e)}}
	}
	sel, isSel := call.fun.(*ESel)
	if id, isId := call.fun.(*EIdent); isId {
		if _, bound := env.lookup(id.name); !bound {
			_, isSpec := x.specs[id.name]
			switch id.name {
			case "sq", "abs", "min", "max", "sqrt", "ite", "real", "floor", "len", "old", "pre", "final", "isnil", "sin", "cos", "nsent", "sent", "samecell", "maphas", "mapval", "nev", "evarg", "evptr", "evbefore", "evres", "merged", "folded", "pow2", "nevmatch":
				isSpec = true
			}
			if isSpec {
				x.specMode++
				defer func() { x.specMode-- }()
				return []specOut{{st, x.eval(st, env, e)}}
			}
		}
	}
	x.specMode++
	var args []Value
	for _, a := range call.args {
		args = append(args, x.eval(st, env, a))
	}
	var outs []Out
	run := func(f func() []Out) {
		x.specMode--
		save := x.specMode
		x.specMode = 0
		outs = f()
		x.specMode = save
	}
	if isSel {
		isPkg := false
		if id, ok := sel.x.(*EIdent); ok {
			if _, bound := env.lookup(id.name); !bound && (x.pkgByNm[id.name] != nil) {
				isPkg = true
			}
		}
		if !isPkg {
			recv := x.eval(st, env, sel.x)
			if x.isNilRecv(recv) {
				// e.g. constructor error path returning a nil shape: nothing to evaluate on this path
				x.specMode--
				return nil
			}
			if f, ok := x.funcField(st, recv, sel.name); ok {
				if f.fn != nil {
					x.coerceArgs(args, f.fn.Signature)
				}
				run(func() []Out { return x.callClosure(st, f, args, 1) })
				goto done
			}
			run(func() []Out { return x.methodOuts(st, recv, sel.name, args) })
			goto done
		}
	}
	{
		fv := x.eval(st, env, call.fun)
		f, ok := fv.(*Func)
		if !ok {
			x.specMode--
			fail("let: call of non-function")
		}
		if f.fn != nil {
			args = x.packVariadic(st, args, f.fn.Signature)
			x.coerceArgs(args, f.fn.Signature)
		}
		run(func() []Out { return x.callClosure(st, f, args, 1) })
	}
done:
	var res []specOut
	for _, o := range outs {
		if o.kind != oRet {
			continue
		}
		var v Value
		if len(o.vals) == 1 {
			v = o.vals[0]
		} else if len(o.vals) > 1 {
			v = &Tuple{el: o.vals}
		}
		res = append(res, specOut{o.st, v})
	}
	return res
}

func (x *Exec) isNilRecv(v Value) bool {
	switch t := v.(type) {
	case *Iface:
		return t.dyn == nil
	case *Ptr:
		return t.cell == nil
	}
	return false
}

func (x *Exec) methodOuts(st *State, recv Value, name string, args []Value) []Out {
	if ao, ok := recv.(*AbsObj); ok {
		return x.absObjCall(st, ao, name, args)
	}
	if i, ok := recv.(*Iface); ok && i.dyn != nil {
		if ao, ok := i.val.(*AbsObj); ok {
			return x.absObjCall(st, ao, name, args)
		}
		fn := x.findMethod(i.dyn, name)
		if fn == nil {
			fail("no method %s on %v", name, i.dyn)
		}
		all := append([]Value{i.val}, args...)
		ps := fn.Signature.Params()
		for k := 0; k < ps.Len() && k < len(args); k++ {
			all[k+1] = x.coerceTo(all[k+1], ps.At(k).Type())
		}
		return x.callFn(st, fn, all, 1)
	}
	t := x.typeOfValue(st, recv)
	if t == nil {
		fail("cannot call method %s on %s", name, valueString(recv))
	}
	fn := x.findMethod(t, name)
	rv := recv
	if fn == nil {
		if pt, ok := t.(*types.Pointer); ok {
			fn = x.findMethod(pt.Elem(), name)
			if fn != nil {
				rv = x.load(st, recv.(*Ptr))
			}
		} else {
			fn = x.findMethod(types.NewPointer(t), name)
			if fn != nil {
				c := newCell("spec$tmp", t)
				st.store[c] = recv
				rv = &Ptr{cell: c}
			}
		}
	}
	if fn == nil {
		fail("no method %s on %v", name, t)
	}
	all := append([]Value{rv}, args...)
	ps := fn.Signature.Params()
	for k := 0; k < ps.Len() && k < len(args); k++ {
		all[k+1] = x.coerceTo(all[k+1], ps.At(k).Type())
	}
	return x.callFn(st, fn, all, 1)
}

func (x *Exec) callTop(st *State, fn *ssa.Function, args []Value, ct *Contract) []Out {
	if fn.Blocks == nil {
		fail("function %s has no body", fn)
	}
	fr := &Frame{fn: fn, regs: map[ssa.Value]Value{}, env: map[string]envEntry{}, depth: 0, ct: ct}
	for i, p := range fn.Params {
		fr.regs[p] = args[i]
		fr.env[p.Name()] = envEntry{v: args[i]}
	}
	return x.run(st, fr, fn.Blocks[0], 0, nil)
}

func (x *Exec) callClosureTop(st *State, f *Func, args []Value, ct *Contract) []Out {
	fn := f.fn
	fr := &Frame{fn: fn, regs: map[ssa.Value]Value{}, env: map[string]envEntry{}, depth: 0, ct: ct}
	for i, p := range fn.Params {
		fr.regs[p] = args[i]
		fr.env[p.Name()] = envEntry{v: args[i]}
	}
	for i, fv := range fn.FreeVars {
		fr.regs[fv] = f.bind[i]
		fr.env[fv.Name()] = envEntry{v: f.bind[i], addr: true}
	}
	return x.run(st, fr, fn.Blocks[0], 0, nil)
}

// finalizeNames makes obligation names unique (adds #pN when a name repeats).
func finalizeNames(obls []*Obligation) {
	count := map[string]int{}
	for _, o := range obls {
		count[o.name]++
	}
	idx := map[string]int{}
	for _, o := range obls {
		if count[o.name] > 1 {
			idx[o.name]++
			o.name = fmt.Sprintf("%s#p%d", o.name, idx[o.name])
		}
	}
}

func sortedKeys(m map[string]bool) []string {
	var out []string
	for k := range m {
		out = append(out, k)
	}
	sort.Strings(out)
	return out
}

// splitGoal: conjunctions (also under an implication / disjunction) are
// proved conjunct by conjunct.
func splitGoal(g *Term, depth int) []*Term {
	if depth > 3 {
		return []*Term{g}
	}
	if g.op == "and" {
		var out []*Term
		for _, a := range g.args {
			out = append(out, splitGoal(a, depth+1)...)
		}
		return out
	}
	if g.op == "or" {
		for i, a := range g.args {
			if a.op == "and" {
				var rest []*Term
				rest = append(rest, g.args[:i]...)
				rest = append(rest, g.args[i+1:]...)
				var out []*Term
				for _, b := range a.args {
					out = append(out, splitGoal(mkOr(append(append([]*Term{}, rest...), b)...), depth+1)...)
				}
				if len(out) <= 16 {
					return out
				}
				return []*Term{g}
			}
		}
	}
	return []*Term{g}
}

// generalize replaces the (compound) component terms of variable name by
// fresh variables everywhere in the state: later obligations may only use
// what has been asserted about it so far.
func (x *Exec) generalize(st *State, env *Env, name string) {
	var val Value
	func() {
		defer func() {
			if r := recover(); r != nil {
				if _, ok := r.(engineErr); !ok {
					panic(r)
				}
				val = nil // a Go local that does not exist on this path (early return)
			}
		}()
		val = x.evalIdent(st, env, name)
	}()
	if val == nil {
		return
	}
	var leaves []*Term
	if !flatten(val, &leaves) {
		fail("generalize: %s is not a scalar aggregate", name)
	}
	m := map[int]*Term{}
	for i, t := range leaves {
		// strip cheap wrappers so that -l, 2*l, l+1 stay related to l
		for {
			if t.op == "neg" {
				t = t.args[0]
				continue
			}
			if t.op == "*" && t.args[0].isConst() {
				t = t.args[1]
				continue
			}
			if (t.op == "+" || t.op == "-") && t.args[1].isConst() {
				t = t.args[0]
				continue
			}
			if t.op == "+" && t.args[0].isConst() {
				t = t.args[1]
				continue
			}
			break
		}
		if t.op == "v" || t.op == "c" {
			continue
		}
		if _, done := m[t.id]; done {
			continue
		}
		m[t.id] = freshVar(fmt.Sprintf("gen$%s.%d", name, i), t.sort)
	}
	if len(m) == 0 {
		return
	}
	if st.gen == nil {
		st.gen = map[int]*Term{}
	}
	for k, t := range m {
		st.gen[k] = t
	}
	cache := map[int]*Term{}
	rep := func(t *Term) *Term { return replaceTerms(t, m, cache) }
	npc := make([]*Term, len(st.pc))
	for i, t := range st.pc {
		npc[i] = rep(t)
	}
	st.pc = npc
	nax := make([]*Term, len(st.ax))
	for i, t := range st.ax {
		nax[i] = rep(t)
	}
	st.ax = nax
	apps := make([]appRec, len(st.apps))
	for i, a := range st.apps {
		na := appRec{fn: a.fn, res: rep(a.res)}
		for _, t := range a.args {
			na.args = append(na.args, rep(t))
		}
		apps[i] = na
	}
	st.apps = apps
	// flatten the visible environment into a private copy (parents are shared between paths)
	flat := map[string]Value{}
	var chain []*Env
	for c := env; c != nil; c = c.parent {
		chain = append(chain, c)
	}
	for i := len(chain) - 1; i >= 0; i-- {
		for k, v := range chain[i].vars {
			flat[k] = replaceValue(v, rep)
		}
	}
	env.vars = flat
	env.parent = nil
	for c, v := range st.store {
		st.store[c] = replaceValue(v, rep)
	}
}

func replaceValue(v Value, rep func(*Term) *Term) Value {
	switch t := v.(type) {
	case *Term:
		return rep(t)
	case *Tuple:
		el := make([]Value, len(t.el))
		ch := false
		for i, e := range t.el {
			el[i] = replaceValue(e, rep)
			if el[i] != e {
				ch = true
			}
		}
		if !ch {
			return v
		}
		return &Tuple{typ: t.typ, el: el}
	}
	return v
}

func replaceTerms(t *Term, m map[int]*Term, cache map[int]*Term) *Term {
	if r, ok := m[t.id]; ok {
		return r
	}
	if r, ok := cache[t.id]; ok {
		return r
	}
	var r *Term
	if len(t.args) == 0 {
		r = t
	} else {
		args := make([]*Term, len(t.args))
		ch := false
		for i, a := range t.args {
			args[i] = replaceTerms(a, m, cache)
			if args[i] != a {
				ch = true
			}
		}
		if ch {
			r = rebuild(t, args)
		} else {
			r = t
		}
	}
	cache[t.id] = r
	return r
}

// ufSupported: result types that can be produced by an uninterpreted function
// (scalars and aggregates of scalars).
func ufSupported(t types.Type) bool {
	switch u := t.Underlying().(type) {
	case *types.Basic:
		_, ok := sortOf(t)
		return ok
	case *types.Struct:
		for i := 0; i < u.NumFields(); i++ {
			if !ufSupported(u.Field(i).Type()) {
				return false
			}
		}
		return true
	case *types.Array:
		return ufSupported(u.Elem())
	}
	return false
}

// mentionsRealVar: does the term contain a real-sorted variable?
func mentionsRealVar(t *Term, seen map[int]bool) bool {
	if seen[t.id] {
		return false
	}
	seen[t.id] = true
	if t.op == "v" && t.sort == SReal {
		return true
	}
	for _, a := range t.args {
		if mentionsRealVar(a, seen) {
			return true
		}
	}
	return false
}

// mentionsIdent: does the expression use one of the names as a free identifier?
func mentionsIdent(e Expr, names map[string]bool) bool {
	switch n := e.(type) {
	case *EIdent:
		return names[n.name]
	case *ESel:
		return mentionsIdent(n.x, names)
	case *ECall:
		if mentionsIdent(n.fun, names) {
			return true
		}
		for _, a := range n.args {
			if mentionsIdent(a, names) {
				return true
			}
		}
	case *EIndex:
		return mentionsIdent(n.x, names) || mentionsIdent(n.i, names)
	case *EUn:
		return mentionsIdent(n.x, names)
	case *EBin:
		return mentionsIdent(n.l, names) || mentionsIdent(n.r, names)
	case *EComp:
		for _, a := range n.elems {
			if mentionsIdent(a, names) {
				return true
			}
		}
	}
	return false
}

// mentionsEvents: does the expression use the ghost-log builtins or a let of the proof script?
func mentionsEvents(e Expr) bool {
	found := false
	var walk func(e Expr)
	walk = func(e Expr) {
		switch n := e.(type) {
		case *ECall:
			if id, ok := n.fun.(*EIdent); ok {
				switch id.name {
				case "nev", "evarg", "evptr", "evres", "evbefore", "nevmatch", "nsent", "sent":
					found = true
				}
			}
			walk(n.fun)
			for _, a := range n.args {
				walk(a)
			}
		case *EIdent:
			if n.name == "pruned" {
				found = true
			}
		case *ESel:
			walk(n.x)
		case *EBin:
			walk(n.l)
			walk(n.r)
		case *EUn:
			walk(n.x)
		case *EIndex:
			walk(n.x)
			walk(n.i)
		case *EComp:
			for _, a := range n.elems {
				walk(a)
			}
		}
	}
	walk(e)
	return found
}

// havocLocation: e must denote a struct field reached through pointers (p.f, p.f.g).
func (x *Exec) havocLocation(st *State, env *Env, e Expr, who string) {
	sel, ok := e.(*ESel)
	if !ok {
		fail("havoc needs a field selector")
	}
	base := x.eval(st, env, sel.x)
	p, ok := base.(*Ptr)
	if !ok || p.cell == nil || p.sym != nil {
		fail("havoc: base of %s is not a plain pointer", sel.name)
	}
	cur := getPath(st.store[p.cell], p.path)
	tp, ok := cur.(*Tuple)
	if !ok {
		fail("havoc: base is not a struct")
	}
	stt, ok := tp.typ.Underlying().(*types.Struct)
	if !ok {
		fail("havoc: base is not a struct")
	}
	for i := 0; i < stt.NumFields(); i++ {
		if stt.Field(i).Name() == sel.name {
			nv := x.havocLike(st, tp.el[i], stt.Field(i).Type(), "havoc$"+who+"$"+sel.name)
			st.store[p.cell] = setPath(st.store[p.cell], appendPath(p.path, i), nv)
			st.wlog = append(st.wlog, p.cell.id)
			return
		}
	}
	fail("havoc: no field %s", sel.name)
}
