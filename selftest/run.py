#!/usr/bin/env python3
"""Must-fail / must-pass corpus for the /verif checks.
Each mutant is a small compiling change to /repo applied to a scratch copy
(outside /repo and /verif); the named check must report the named obligation.
Each refactor is a behaviour-preserving edit; the named check must stay quiet.
Usage: selftest/run.py [name-substring ...]"""
import json, os, shutil, subprocess, sys, tempfile

VERIF = os.path.dirname(os.path.dirname(os.path.abspath(__file__)))
REPO = os.environ.get("VERIF_REPO", "/repo")
corpus = json.load(open(os.path.join(VERIF, "selftest", "corpus.json")))
sel = sys.argv[1:]
scratch_root = os.environ.get("VERIF_SCRATCH", "/var/tmp/verif-scratch.%d" % os.getpid())
fails = 0
ran = 0
env = dict(os.environ, GOFLAGS="-mod=mod", GOPROXY="off", GOSUMDB="off", GOTOOLCHAIN="local")
shard = os.environ.get("VERIF_SHARD", "")  # "i/n": run every n-th case starting at i
for idx, case in enumerate(corpus):
    name = case["name"]
    if sel and not any(s in name for s in sel):
        continue
    if shard:
        si, sn = shard.split("/")
        if idx % int(sn) != int(si):
            continue
    ran += 1
    d = os.path.join(scratch_root, "r")
    shutil.rmtree(scratch_root, ignore_errors=True)
    os.makedirs(scratch_root)
    subprocess.check_call(["rsync", "-a", "--exclude", ".git", "--exclude", "examples", "--exclude", "docs", "--exclude", "files", REPO + "/", d + "/"])
    try:
        ok_apply = True
        if "patch" in case:
            p = subprocess.run(["patch", "-p1", "-s", "-d", d, "-i", os.path.join(VERIF, case["patch"])], capture_output=True, text=True)
            if p.returncode != 0:
                print("FAIL %s: patch does not apply: %s" % (name, p.stdout + p.stderr)); fails += 1; continue
        for ed in case.get("edits", []):
            path = os.path.join(d, ed["file"])
            s = open(path).read()
            if ed["old"] not in s:
                print("FAIL %s: edit anchor not found in %s" % (name, ed["file"])); ok_apply = False; break
            s = s.replace(ed["old"], ed["new"], 1)
            open(path, "w").write(s)
        if not ok_apply:
            fails += 1; continue
        b = subprocess.run(["go", "build", "./sdf", "./render", "./obj"], cwd=d, env=env, capture_output=True, text=True)
        if b.returncode != 0:
            print("FAIL %s: mutant does not compile: %s" % (name, b.stderr[:300])); fails += 1; continue
        for prop in case["properties"]:
            cmd = [os.path.join(VERIF, "check"), prop, "--repo", d, "--no-evidence"]
            if case.get("only"):
                cmd += ["--only", case["only"]]
            r = subprocess.run(cmd, capture_output=True, text=True, env=env)
            out = r.stdout + r.stderr
            if case["kind"] == "mutant":
                hit = r.returncode == 1 and "VIOLATION property=%s" % prop in out and all(e in out for e in case.get("expect", []))
                print("%s %s [%s]%s" % ("ok  " if hit else "MISS", name, prop, "" if hit else " exit=%d\n%s" % (r.returncode, out[-600:])))
                if not hit: fails += 1
            else:
                quiet = r.returncode == 0 and "VIOLATION" not in out
                print("%s %s [%s] (refactor)%s" % ("ok  " if quiet else "FALSE-ALARM", name, prop, "" if quiet else " exit=%d\n%s" % (r.returncode, out[-600:])))
                if not quiet: fails += 1
    finally:
        shutil.rmtree(scratch_root, ignore_errors=True)
print("selftest: %d cases, %d failures" % (ran, fails))
sys.exit(1 if fails else 0)
