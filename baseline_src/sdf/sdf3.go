//-----------------------------------------------------------------------------
/*

3D Signed Distance Functions

*/
//-----------------------------------------------------------------------------

package sdf

import (
	"errors"
	"math"

	"github.com/deadsy/sdfx/vec/conv"
	"github.com/deadsy/sdfx/vec/p2"
	v2 "github.com/deadsy/sdfx/vec/v2"
	v3 "github.com/deadsy/sdfx/vec/v3"
	"github.com/deadsy/sdfx/vec/v3i"
)

//-----------------------------------------------------------------------------

// SDF3 is the interface to a 3d signed distance function object.
type SDF3 interface {
	Evaluate(p v3.Vec) float64
	BoundingBox() Box3
}

//-----------------------------------------------------------------------------
// Basic SDF Functions

/*
func sdfBox3d(p, s v3.Vec) float64 {
	d := p.Abs().Sub(s)
	return d.Max(v3.Vec{0, 0, 0}).Length() + Min(d.MaxComponent(), 0)
}
*/

func sdfBox3d(p, s v3.Vec) float64 {
	d := p.Abs().Sub(s)
	if d.X > 0 && d.Y > 0 && d.Z > 0 {
		return d.Length()
	}
	if d.X > 0 && d.Y > 0 {
		return v2.Vec{d.X, d.Y}.Length()
	}
	if d.X > 0 && d.Z > 0 {
		return v2.Vec{d.X, d.Z}.Length()
	}
	if d.Y > 0 && d.Z > 0 {
		return v2.Vec{d.Y, d.Z}.Length()
	}
	if d.X > 0 {
		return d.X
	}
	if d.Y > 0 {
		return d.Y
	}
	if d.Z > 0 {
		return d.Z
	}
	return d.MaxComponent()
}

//-----------------------------------------------------------------------------

// SorSDF3 solid of revolution, SDF2 to SDF3.
type SorSDF3 struct {
	sdf   SDF2
	theta float64 // angle for partial revolutions
	norm  v2.Vec  // pre-calculated normal to theta line
	bb    Box3
}

// RevolveTheta3D returns an SDF3 for a solid of revolution.
func RevolveTheta3D(sdf SDF2, theta float64) (SDF3, error) {
	if sdf == nil {
		return nil, nil
	}
	if theta < 0 {
		return nil, ErrMsg("theta < 0")
	}
	s := SorSDF3{}
	s.sdf = sdf
	// normalize theta
	s.theta = math.Mod(math.Abs(theta), Tau)
	sin := math.Sin(s.theta)
	cos := math.Cos(s.theta)
	// pre-calculate the normal to the theta line
	s.norm = v2.Vec{-sin, cos}
	// work out the bounding box
	var vset v2.VecSet
	if s.theta == 0 {
		vset = []v2.Vec{{1, 1}, {-1, -1}}
	} else {
		vset = []v2.Vec{{0, 0}, {1, 0}, {cos, sin}}
		if s.theta > 0.5*Pi {
			vset = append(vset, v2.Vec{0, 1})
		}
		if s.theta > Pi {
			vset = append(vset, v2.Vec{-1, 0})
		}
		if s.theta > 1.5*Pi {
			vset = append(vset, v2.Vec{0, -1})
		}
	}
	bb := s.sdf.BoundingBox()
	l := math.Max(math.Abs(bb.Min.X), math.Abs(bb.Max.X))
	vmin := vset.Min().MulScalar(l)
	vmax := vset.Max().MulScalar(l)
	s.bb = Box3{v3.Vec{vmin.X, vmin.Y, bb.Min.Y}, v3.Vec{vmax.X, vmax.Y, bb.Max.Y}}
	return &s, nil
}

// Revolve3D returns an SDF3 for a solid of revolution.
func Revolve3D(sdf SDF2) (SDF3, error) {
	return RevolveTheta3D(sdf, 0)
}

// Evaluate returns the minimum distance to a solid of revolution.
func (s *SorSDF3) Evaluate(p v3.Vec) float64 {
	x := math.Sqrt(p.X*p.X + p.Y*p.Y)
	a := s.sdf.Evaluate(v2.Vec{x, p.Z})
	b := a
	if s.theta != 0 {
		// combine two vertical planes to give an intersection wedge
		d := s.norm.Dot(v2.Vec{p.X, p.Y})
		if s.theta < Pi {
			b = math.Max(-p.Y, d) // intersect
		} else {
			b = math.Min(-p.Y, d) // union
		}
	}
	// return the intersection
	return math.Max(a, b)
}

// BoundingBox returns the bounding box for a solid of revolution.
func (s *SorSDF3) BoundingBox() Box3 {
	return s.bb
}

//-----------------------------------------------------------------------------

// ExtrudeSDF3 extrudes an SDF2 to an SDF3.
type ExtrudeSDF3 struct {
	sdf     SDF2
	height  float64
	extrude ExtrudeFunc
	bb      Box3
}

// Extrude3D does a linear extrude on an SDF3.
func Extrude3D(sdf SDF2, height float64) SDF3 {
	s := ExtrudeSDF3{}
	s.sdf = sdf
	s.height = height / 2
	s.extrude = NormalExtrude
	// work out the bounding box
	bb := sdf.BoundingBox()
	s.bb = Box3{v3.Vec{bb.Min.X, bb.Min.Y, -s.height}, v3.Vec{bb.Max.X, bb.Max.Y, s.height}}
	return &s
}

// TwistExtrude3D extrudes an SDF2 while rotating by twist radians over the height of the extrusion.
func TwistExtrude3D(sdf SDF2, height, twist float64) SDF3 {
	s := ExtrudeSDF3{}
	s.sdf = sdf
	s.height = height / 2
	s.extrude = TwistExtrude(height, twist)
	// work out the bounding box
	bb := sdf.BoundingBox()
	l := maxVertexLength2(bb)
	s.bb = Box3{v3.Vec{-l, -l, -s.height}, v3.Vec{l, l, s.height}}
	return &s
}

// maxVertexLength2 returns the distance from the origin to the furthest vertex of a 2d box.
func maxVertexLength2(bb Box2) float64 {
	l := 0.0
	for _, v := range bb.Vertices() {
		l = math.Max(l, v.Length())
	}
	return l
}

// ScaleExtrude3D extrudes an SDF2 and scales it over the height of the extrusion.
func ScaleExtrude3D(sdf SDF2, height float64, scale v2.Vec) SDF3 {
	s := ExtrudeSDF3{}
	s.sdf = sdf
	s.height = height / 2
	s.extrude = ScaleExtrude(height, scale)
	// work out the bounding box
	bb := sdf.BoundingBox()
	bb = bb.Extend(Box2{bb.Min.Mul(scale), bb.Max.Mul(scale)})
	s.bb = Box3{v3.Vec{bb.Min.X, bb.Min.Y, -s.height}, v3.Vec{bb.Max.X, bb.Max.Y, s.height}}
	return &s
}

// ScaleTwistExtrude3D extrudes an SDF2 and scales and twists it over the height of the extrusion.
func ScaleTwistExtrude3D(sdf SDF2, height, twist float64, scale v2.Vec) SDF3 {
	s := ExtrudeSDF3{}
	s.sdf = sdf
	s.height = height / 2
	s.extrude = ScaleTwistExtrude(height, twist, scale)
	// work out the bounding box
	bb := sdf.BoundingBox()
	// the twist sweeps the profile through a disc, the scaling then stretches each axis
	l := maxVertexLength2(bb)
	lx := l * math.Max(1, scale.X)
	ly := l * math.Max(1, scale.Y)
	s.bb = Box3{v3.Vec{-lx, -ly, -s.height}, v3.Vec{lx, ly, s.height}}
	return &s
}

// Evaluate returns the minimum distance to an extrusion.
func (s *ExtrudeSDF3) Evaluate(p v3.Vec) float64 {
	// sdf for the projected 2d surface
	a := s.sdf.Evaluate(s.extrude(p))
	// sdf for the extrusion region: z = [-height, height]
	b := math.Abs(p.Z) - s.height
	// return the intersection
	return math.Max(a, b)
}

// SetExtrude sets the extrusion control function.
func (s *ExtrudeSDF3) SetExtrude(extrude ExtrudeFunc) {
	s.extrude = extrude
}

// BoundingBox returns the bounding box for an extrusion.
func (s *ExtrudeSDF3) BoundingBox() Box3 {
	return s.bb
}

//-----------------------------------------------------------------------------
// Linear extrude an SDF2 with rounded edges.
// Note: The height of the extrusion is adjusted for the rounding.
// The underlying SDF2 shape is not modified.

// ExtrudeRoundedSDF3 extrudes an SDF2 to an SDF3 with rounded edges.
type ExtrudeRoundedSDF3 struct {
	sdf    SDF2
	height float64
	round  float64
	bb     Box3
}

// ExtrudeRounded3D extrudes an SDF2 to an SDF3 with rounded edges.
func ExtrudeRounded3D(sdf SDF2, height, round float64) (SDF3, error) {
	if round == 0 {
		// revert to non-rounded case
		return Extrude3D(sdf, height), nil
	}
	if sdf == nil {
		return nil, errors.New("sdf == nil")
	}
	if height <= 0 {
		return nil, errors.New("height <= 0")
	}
	if round < 0 {
		return nil, errors.New("round < 0")
	}
	if height < 2*round {
		return nil, errors.New("height < 2 * round")
	}
	s := ExtrudeRoundedSDF3{
		sdf:    sdf,
		height: (height / 2) - round,
		round:  round,
	}
	// work out the bounding box
	bb := sdf.BoundingBox()
	s.bb = Box3{v3.Vec{bb.Min.X, bb.Min.Y, -s.height}.SubScalar(round), v3.Vec{bb.Max.X, bb.Max.Y, s.height}.AddScalar(round)}
	return &s, nil
}

// Evaluate returns the minimum distance to a rounded extrusion.
func (s *ExtrudeRoundedSDF3) Evaluate(p v3.Vec) float64 {
	// sdf for the projected 2d surface
	a := s.sdf.Evaluate(v2.Vec{p.X, p.Y})
	b := math.Abs(p.Z) - s.height
	var d float64
	if b > 0 {
		// outside the object Z extent
		if a < 0 {
			// inside the boundary
			d = b
		} else {
			// outside the boundary
			d = math.Sqrt((a * a) + (b * b))
		}
	} else {
		// within the object Z extent
		if a < 0 {
			// inside the boundary
			d = math.Max(a, b)
		} else {
			// outside the boundary
			d = a
		}
	}
	return d - s.round
}

// BoundingBox returns the bounding box for a rounded extrusion.
func (s *ExtrudeRoundedSDF3) BoundingBox() Box3 {
	return s.bb
}

//-----------------------------------------------------------------------------
// Extrude/Loft (with rounded edges)
// Blend between sdf0 and sdf1 as we move from bottom to top.

// LoftSDF3 is an extrusion between two SDF2s.
type LoftSDF3 struct {
	sdf0, sdf1 SDF2
	height     float64
	round      float64
	bb         Box3
}

// Loft3D extrudes an SDF3 that transitions between two SDF2 shapes.
func Loft3D(sdf0, sdf1 SDF2, height, round float64) (SDF3, error) {
	if sdf0 == nil {
		return nil, errors.New("sdf0 == nil")
	}
	if sdf1 == nil {
		return nil, errors.New("sdf1 == nil")
	}
	if height <= 0 {
		return nil, errors.New("height <= 0")
	}
	if round < 0 {
		return nil, errors.New("round < 0")
	}
	if height < 2*round {
		return nil, errors.New("height < 2 * round")
	}
	s := LoftSDF3{
		sdf0:   sdf0,
		sdf1:   sdf1,
		height: (height / 2) - round,
		round:  round,
	}
	// work out the bounding box
	bb0 := sdf0.BoundingBox()
	bb1 := sdf1.BoundingBox()
	bb := bb0.Extend(bb1)
	s.bb = Box3{v3.Vec{bb.Min.X, bb.Min.Y, -s.height}.SubScalar(round), v3.Vec{bb.Max.X, bb.Max.Y, s.height}.AddScalar(round)}
	return &s, nil
}

// Evaluate returns the minimum distance to a loft extrusion.
func (s *LoftSDF3) Evaluate(p v3.Vec) float64 {
	// work out the mix value as a function of height
	k := Clamp((0.5*p.Z/s.height)+0.5, 0, 1)
	// mix the 2D SDFs
	a0 := s.sdf0.Evaluate(v2.Vec{p.X, p.Y})
	a1 := s.sdf1.Evaluate(v2.Vec{p.X, p.Y})
	a := Mix(a0, a1, k)

	b := math.Abs(p.Z) - s.height
	var d float64
	if b > 0 {
		// outside the object Z extent
		if a < 0 {
			// inside the boundary
			d = b
		} else {
			// outside the boundary
			d = math.Sqrt((a * a) + (b * b))
		}
	} else {
		// within the object Z extent
		if a < 0 {
			// inside the boundary
			d = math.Max(a, b)
		} else {
			// outside the boundary
			d = a
		}
	}
	return d - s.round
}

// BoundingBox returns the bounding box for a loft extrusion.
func (s *LoftSDF3) BoundingBox() Box3 {
	return s.bb
}

//-----------------------------------------------------------------------------
// Box (exact distance field)

// BoxSDF3 is a 3d box.
type BoxSDF3 struct {
	size  v3.Vec
	round float64
	bb    Box3
}

// Box3D return an SDF3 for a 3d box (rounded corners with round > 0).
func Box3D(size v3.Vec, round float64) (SDF3, error) {
	if size.LTEZero() {
		return nil, ErrMsg("size <= 0")
	}
	if round < 0 {
		return nil, ErrMsg("round < 0")
	}
	size = size.MulScalar(0.5)
	s := BoxSDF3{}
	s.size = size.SubScalar(round)
	s.round = round
	s.bb = Box3{size.Neg(), size}
	return &s, nil
}

// Evaluate returns the minimum distance to a 3d box.
func (s *BoxSDF3) Evaluate(p v3.Vec) float64 {
	return sdfBox3d(p, s.size) - s.round
}

// BoundingBox returns the bounding box for a 3d box.
func (s *BoxSDF3) BoundingBox() Box3 {
	return s.bb
}

//-----------------------------------------------------------------------------
// Sphere (exact distance field)

// SphereSDF3 is a sphere.
type SphereSDF3 struct {
	radius float64
	bb     Box3
}

// Sphere3D return an SDF3 for a sphere.
func Sphere3D(radius float64) (SDF3, error) {
	if radius <= 0 {
		return nil, ErrMsg("radius <= 0")
	}
	s := SphereSDF3{}
	s.radius = radius
	d := v3.Vec{radius, radius, radius}
	s.bb = Box3{d.Neg(), d}
	return &s, nil
}

// Evaluate returns the minimum distance to a sphere.
func (s *SphereSDF3) Evaluate(p v3.Vec) float64 {
	return p.Length() - s.radius
}

// BoundingBox returns the bounding box for a sphere.
func (s *SphereSDF3) BoundingBox() Box3 {
	return s.bb
}

//-----------------------------------------------------------------------------
// Cylinder (exact distance field)

// CylinderSDF3 is a cylinder.
type CylinderSDF3 struct {
	height float64
	radius float64
	round  float64
	bb     Box3
}

// Cylinder3D return an SDF3 for a cylinder (rounded edges with round > 0).
func Cylinder3D(height, radius, round float64) (SDF3, error) {
	if radius <= 0 {
		return nil, ErrMsg("radius <= 0")
	}
	if round < 0 {
		return nil, ErrMsg("round < 0")
	}
	if round > radius {
		return nil, ErrMsg("round > radius")
	}
	if height < 2.0*round {
		return nil, ErrMsg("height < 2 * round")
	}
	s := CylinderSDF3{}
	s.height = (height / 2) - round
	s.radius = radius - round
	s.round = round
	d := v3.Vec{radius, radius, height / 2}
	s.bb = Box3{d.Neg(), d}
	return &s, nil
}

// Capsule3D return an SDF3 for a capsule.
func Capsule3D(height, radius float64) (SDF3, error) {
	return Cylinder3D(height, radius, radius)
}

// Evaluate returns the minimum distance to a cylinder.
func (s *CylinderSDF3) Evaluate(p v3.Vec) float64 {
	d := sdfBox2d(v2.Vec{v2.Vec{p.X, p.Y}.Length(), p.Z}, v2.Vec{s.radius, s.height})
	return d - s.round
}

// BoundingBox returns the bounding box for a cylinder.
func (s *CylinderSDF3) BoundingBox() Box3 {
	return s.bb
}

//-----------------------------------------------------------------------------
// Truncated Cone (exact distance field)

// ConeSDF3 is a truncated cone.
type ConeSDF3 struct {
	r0     float64 // base radius
	r1     float64 // top radius
	height float64 // half height
	round  float64 // rounding offset
	u      v2.Vec  // normalized cone slope vector
	n      v2.Vec  // normal to cone slope (points outward)
	l      float64 // length of cone slope
	bb     Box3    // bounding box
}

// Cone3D returns the SDF3 for a trucated cone (round > 0 gives rounded edges).
func Cone3D(height, r0, r1, round float64) (SDF3, error) {
	if height <= 0 {
		return nil, ErrMsg("height <= 0")
	}
	if round < 0 {
		return nil, ErrMsg("round < 0")
	}
	if height < 2.0*round {
		return nil, ErrMsg("height < 2 * round")
	}
	s := ConeSDF3{}
	s.height = (height / 2) - round
	s.round = round
	// cone slope vector and normal
	s.u = v2.Vec{r1, height / 2}.Sub(v2.Vec{r0, -height / 2}).Normalize()
	s.n = v2.Vec{s.u.Y, -s.u.X}
	// inset the radii for the rounding
	ofs := round / s.n.X
	s.r0 = r0 - (1+s.n.Y)*ofs
	s.r1 = r1 - (1-s.n.Y)*ofs
	// cone slope length
	s.l = v2.Vec{s.r1, s.height}.Sub(v2.Vec{s.r0, -s.height}).Length()
	// work out the bounding box
	r := math.Max(s.r0+round, s.r1+round)
	s.bb = Box3{v3.Vec{-r, -r, -height / 2}, v3.Vec{r, r, height / 2}}
	return &s, nil
}

// Evaluate returns the minimum distance to a trucated cone.
func (s *ConeSDF3) Evaluate(p v3.Vec) float64 {
	// convert to SoR 2d coordinates
	p2 := v2.Vec{v2.Vec{p.X, p.Y}.Length(), p.Z}
	// is p2 above the cone?
	if p2.Y >= s.height && p2.X <= s.r1 {
		return p2.Y - s.height - s.round
	}
	// is p2 below the cone?
	if p2.Y <= -s.height && p2.X <= s.r0 {
		return -p2.Y - s.height - s.round
	}
	// distance to slope line
	v := p2.Sub(v2.Vec{s.r0, -s.height})
	dSlope := v.Dot(s.n)
	// is p2 inside the cone?
	if dSlope < 0 && math.Abs(p2.Y) < s.height {
		return -math.Min(-dSlope, s.height-math.Abs(p2.Y)) - s.round
	}
	// is p2 closest to the slope line?
	t := v.Dot(s.u)
	if t >= 0 && t <= s.l {
		return dSlope - s.round
	}
	// is p2 closest to the base radius vertex?
	if t < 0 {
		return v.Length() - s.round
	}
	// p2 is closest to the top radius vertex
	return p2.Sub(v2.Vec{s.r1, s.height}).Length() - s.round
}

// BoundingBox return the bounding box for the trucated cone..
func (s *ConeSDF3) BoundingBox() Box3 {
	return s.bb
}

//-----------------------------------------------------------------------------
// Transform SDF3 (rotation, translation - distance preserving)

// TransformSDF3 is an SDF3 transformed with a 4x4 transformation matrix.
type TransformSDF3 struct {
	sdf     SDF3
	matrix  M44
	inverse M44
	bb      Box3
}

// Transform3D applies a transformation matrix to an SDF3.
func Transform3D(sdf SDF3, matrix M44) SDF3 {
	s := TransformSDF3{}
	s.sdf = sdf
	s.matrix = matrix
	s.inverse = matrix.Inverse()
	s.bb = matrix.MulBox(sdf.BoundingBox())
	return &s
}

// Evaluate returns the minimum distance to a transformed SDF3.
// Distance is *not* preserved with scaling.
func (s *TransformSDF3) Evaluate(p v3.Vec) float64 {
	return s.sdf.Evaluate(s.inverse.MulPosition(p))
}

// BoundingBox returns the bounding box of a transformed SDF3.
func (s *TransformSDF3) BoundingBox() Box3 {
	return s.bb
}

//-----------------------------------------------------------------------------
// Uniform XYZ Scaling of SDF3s (we can work out the distance)

// ScaleUniformSDF3 is an SDF3 scaled uniformly in XYZ directions.
type ScaleUniformSDF3 struct {
	sdf     SDF3
	k, invK float64
	bb      Box3
}

// ScaleUniform3D uniformly scales an SDF3 on all axes.
func ScaleUniform3D(sdf SDF3, k float64) SDF3 {
	m := Scale3d(v3.Vec{k, k, k})
	return &ScaleUniformSDF3{
		sdf:  sdf,
		k:    k,
		invK: 1.0 / k,
		bb:   m.MulBox(sdf.BoundingBox()),
	}
}

// Evaluate returns the minimum distance to a uniformly scaled SDF3.
// The distance is correct with scaling.
func (s *ScaleUniformSDF3) Evaluate(p v3.Vec) float64 {
	q := p.MulScalar(s.invK)
	return s.sdf.Evaluate(q) * s.k
}

// BoundingBox returns the bounding box of a uniformly scaled SDF3.
func (s *ScaleUniformSDF3) BoundingBox() Box3 {
	return s.bb
}

//-----------------------------------------------------------------------------

// UnionSDF3 is a union of SDF3s.
type UnionSDF3 struct {
	sdf []SDF3
	min MinFunc
	bb  Box3
}

// Union3D returns the union of multiple SDF3 objects.
func Union3D(sdf ...SDF3) SDF3 {
	if len(sdf) == 0 {
		return nil
	}
	s := UnionSDF3{}
	// strip out any nils
	s.sdf = make([]SDF3, 0, len(sdf))
	for _, x := range sdf {
		if x != nil {
			s.sdf = append(s.sdf, x)
		}
	}
	if len(s.sdf) == 0 {
		return nil
	}
	if len(s.sdf) == 1 {
		// only one sdf - not really a union
		return s.sdf[0]
	}
	// work out the bounding box
	bb := s.sdf[0].BoundingBox()
	for _, x := range s.sdf {
		bb = bb.Extend(x.BoundingBox())
	}
	s.bb = bb
	s.min = math.Min
	return &s
}

// Evaluate returns the minimum distance to an SDF3 union.
func (s *UnionSDF3) Evaluate(p v3.Vec) float64 {
	var d float64
	for i, x := range s.sdf {
		if i == 0 {
			d = x.Evaluate(p)
		} else {
			d = s.min(d, x.Evaluate(p))
		}
	}
	return d
}

// SetMin sets the minimum function to control blending.
func (s *UnionSDF3) SetMin(min MinFunc) {
	s.min = min
}

// BoundingBox returns the bounding box of an SDF3 union.
func (s *UnionSDF3) BoundingBox() Box3 {
	return s.bb
}

//-----------------------------------------------------------------------------

// DifferenceSDF3 is the difference of two SDF3s, s0 - s1.
type DifferenceSDF3 struct {
	s0  SDF3
	s1  SDF3
	max MaxFunc
	bb  Box3
}

// Difference3D returns the difference of two SDF3s, s0 - s1.
func Difference3D(s0, s1 SDF3) SDF3 {
	if s1 == nil {
		return s0
	}
	if s0 == nil {
		return nil
	}
	s := DifferenceSDF3{}
	s.s0 = s0
	s.s1 = s1
	s.max = math.Max
	s.bb = s0.BoundingBox()
	return &s
}

// Evaluate returns the minimum distance to the SDF3 difference.
func (s *DifferenceSDF3) Evaluate(p v3.Vec) float64 {
	return s.max(s.s0.Evaluate(p), -s.s1.Evaluate(p))
}

// SetMax sets the maximum function to control blending.
func (s *DifferenceSDF3) SetMax(max MaxFunc) {
	s.max = max
}

// BoundingBox returns the bounding box of the SDF3 difference.
func (s *DifferenceSDF3) BoundingBox() Box3 {
	return s.bb
}

//-----------------------------------------------------------------------------

// ElongateSDF3 is the elongation of an SDF3.
type ElongateSDF3 struct {
	sdf    SDF3   // the sdf being elongated
	hp, hn v3.Vec // positive/negative elongation vector
	bb     Box3   // bounding box
}

// Elongate3D returns the elongation of an SDF3.
func Elongate3D(sdf SDF3, h v3.Vec) SDF3 {
	h = h.Abs()
	s := ElongateSDF3{
		sdf: sdf,
		hp:  h.MulScalar(0.5),
		hn:  h.MulScalar(-0.5),
	}
	// bounding box
	bb := sdf.BoundingBox()
	bb0 := bb.Translate(s.hp)
	bb1 := bb.Translate(s.hn)
	s.bb = bb0.Extend(bb1)
	return &s
}

// Evaluate returns the minimum distance to a elongated SDF2.
func (s *ElongateSDF3) Evaluate(p v3.Vec) float64 {
	q := p.Sub(p.Clamp(s.hn, s.hp))
	return s.sdf.Evaluate(q)
}

// BoundingBox returns the bounding box of an elongated SDF3.
func (s *ElongateSDF3) BoundingBox() Box3 {
	return s.bb
}

//-----------------------------------------------------------------------------

// IntersectionSDF3 is the intersection of two SDF3s.
type IntersectionSDF3 struct {
	s0  SDF3
	s1  SDF3
	max MaxFunc
	bb  Box3
}

// Intersect3D returns the intersection of two SDF3s.
func Intersect3D(s0, s1 SDF3) SDF3 {
	if s0 == nil || s1 == nil {
		return nil
	}
	s := IntersectionSDF3{}
	s.s0 = s0
	s.s1 = s1
	s.max = math.Max
	// TODO fix bounding box
	s.bb = s0.BoundingBox()
	return &s
}

// Evaluate returns the minimum distance to the SDF3 intersection.
func (s *IntersectionSDF3) Evaluate(p v3.Vec) float64 {
	return s.max(s.s0.Evaluate(p), s.s1.Evaluate(p))
}

// SetMax sets the maximum function to control blending.
func (s *IntersectionSDF3) SetMax(max MaxFunc) {
	s.max = max
}

// BoundingBox returns the bounding box of an SDF3 intersection.
func (s *IntersectionSDF3) BoundingBox() Box3 {
	return s.bb
}

//-----------------------------------------------------------------------------

// CutSDF3 makes a planar cut through an SDF3.
type CutSDF3 struct {
	sdf SDF3
	a   v3.Vec // point on plane
	n   v3.Vec // normal to plane
	bb  Box3   // bounding box
}

// Cut3D cuts an SDF3 along a plane passing through a with normal n.
// The SDF3 on the same side as the normal remains.
func Cut3D(sdf SDF3, a, n v3.Vec) SDF3 {
	s := CutSDF3{}
	s.sdf = sdf
	s.a = a
	s.n = n.Normalize().Neg()
	// TODO - cut the bounding box
	s.bb = sdf.BoundingBox()
	return &s
}

// Evaluate returns the minimum distance to the cut SDF3.
func (s *CutSDF3) Evaluate(p v3.Vec) float64 {
	return math.Max(p.Sub(s.a).Dot(s.n), s.sdf.Evaluate(p))
}

// BoundingBox returns the bounding box of the cut SDF3.
func (s *CutSDF3) BoundingBox() Box3 {
	return s.bb
}

//-----------------------------------------------------------------------------

// ArraySDF3 stores an XYZ array of a given SDF3
type ArraySDF3 struct {
	sdf  SDF3
	num  v3i.Vec
	step v3.Vec
	min  MinFunc
	bb   Box3
}

// Array3D returns an XYZ array of a given SDF3
func Array3D(sdf SDF3, num v3i.Vec, step v3.Vec) SDF3 {
	// check the number of steps
	if num.X <= 0 || num.Y <= 0 || num.Z <= 0 {
		return nil
	}
	s := ArraySDF3{}
	s.sdf = sdf
	s.num = num
	s.step = step
	s.min = math.Min
	// work out the bounding box
	bb0 := sdf.BoundingBox()
	bb1 := bb0.Translate(step.Mul(conv.V3iToV3(num.SubScalar(1))))
	s.bb = bb0.Extend(bb1)
	return &s
}

// SetMin sets the minimum function to control blending.
func (s *ArraySDF3) SetMin(min MinFunc) {
	s.min = min
}

// Evaluate returns the minimum distance to an XYZ SDF3 array.
func (s *ArraySDF3) Evaluate(p v3.Vec) float64 {
	d := math.MaxFloat64
	for j := 0; j < s.num.X; j++ {
		for k := 0; k < s.num.Y; k++ {
			for l := 0; l < s.num.Z; l++ {
				x := p.Sub(v3.Vec{float64(j) * s.step.X, float64(k) * s.step.Y, float64(l) * s.step.Z})
				d = s.min(d, s.sdf.Evaluate(x))
			}
		}
	}
	return d
}

// BoundingBox returns the bounding box of an XYZ SDF3 array.
func (s *ArraySDF3) BoundingBox() Box3 {
	return s.bb
}

//-----------------------------------------------------------------------------

// RotateUnionSDF3 creates a union of SDF3s rotated about the z-axis.
type RotateUnionSDF3 struct {
	sdf  SDF3
	num  int
	step M44
	min  MinFunc
	bb   Box3
}

// RotateUnion3D creates a union of SDF3s rotated about the z-axis.
func RotateUnion3D(sdf SDF3, num int, step M44) SDF3 {
	// check the number of steps
	if num <= 0 {
		return nil
	}
	s := RotateUnionSDF3{}
	s.sdf = sdf
	s.num = num
	s.step = step.Inverse()
	s.min = math.Min
	// work out the bounding box
	v := sdf.BoundingBox().Vertices()
	bbMin := v[0]
	bbMax := v[0]
	for i := 0; i < s.num; i++ {
		bbMin = bbMin.Min(v.Min())
		bbMax = bbMax.Max(v.Max())
		mulVertices3(v, step)
	}
	s.bb = Box3{bbMin, bbMax}
	return &s
}

// Evaluate returns the minimum distance to a rotate/union object.
func (s *RotateUnionSDF3) Evaluate(p v3.Vec) float64 {
	d := math.MaxFloat64
	rot := Identity3d()
	for i := 0; i < s.num; i++ {
		x := rot.MulPosition(p)
		d = s.min(d, s.sdf.Evaluate(x))
		rot = rot.Mul(s.step)
	}
	return d
}

// SetMin sets the minimum function to control blending.
func (s *RotateUnionSDF3) SetMin(min MinFunc) {
	s.min = min
}

// BoundingBox returns the bounding box of a rotate/union object.
func (s *RotateUnionSDF3) BoundingBox() Box3 {
	return s.bb
}

//-----------------------------------------------------------------------------

// RotateCopySDF3 rotates and creates N copies of an SDF3 about the z-axis.
type RotateCopySDF3 struct {
	sdf   SDF3
	theta float64
	bb    Box3
}

// RotateCopy3D rotates and creates N copies of an SDF3 about the z-axis.
func RotateCopy3D(
	sdf SDF3, // SDF3 to rotate and copy
	num int, // number of copies
) SDF3 {
	// check the number of steps
	if num <= 0 {
		return nil
	}
	s := RotateCopySDF3{}
	s.sdf = sdf
	s.theta = Tau / float64(num)
	// work out the bounding box
	bb := sdf.BoundingBox()
	zmax := bb.Max.Z
	zmin := bb.Min.Z
	rmax := 0.0
	// find the bounding box vertex with the greatest distance from the z-axis
	// TODO - revisit - should go by real vertices
	for _, v := range bb.Vertices() {
		l := v2.Vec{v.X, v.Y}.Length()
		if l > rmax {
			rmax = l
		}
	}
	s.bb = Box3{v3.Vec{-rmax, -rmax, zmin}, v3.Vec{rmax, rmax, zmax}}
	return &s
}

// Evaluate returns the minimum distance to a rotate/copy SDF3.
func (s *RotateCopySDF3) Evaluate(p v3.Vec) float64 {
	// Map p to a point in the first copy sector.
	p2d := v2.Vec{p.X, p.Y}
	p2d = conv.P2ToV2(p2.Vec{p2d.Length(), SawTooth(math.Atan2(p2d.Y, p2d.X), s.theta)})
	return s.sdf.Evaluate(v3.Vec{p2d.X, p2d.Y, p.Z})
}

// BoundingBox returns the bounding box of a rotate/copy SDF3.
func (s *RotateCopySDF3) BoundingBox() Box3 {
	return s.bb
}

//-----------------------------------------------------------------------------

/* WIP

// Connector3 defines a 3d connection point.
type Connector3 struct {
	Name     string
	Position v3.Vec
	Vector   v3.Vec
	Angle    float64
}

// ConnectedSDF3 is an SDF3 with connection points defined.
type ConnectedSDF3 struct {
	sdf        SDF3
	connectors []Connector3
}

// AddConnector adds connection points to an SDF3.
func AddConnector(sdf SDF3, connectors ...Connector3) SDF3 {
	// is the sdf already connected?
	if s, ok := sdf.(*ConnectedSDF3); ok {
		// append connection points
		s.connectors = append(s.connectors, connectors...)
		return s
	}
	// return a new connected sdf
	return &ConnectedSDF3{
		sdf:        sdf,
		connectors: connectors,
	}
}

// Evaluate returns the minimum distance to a connected SDF3.
func (s *ConnectedSDF3) Evaluate(p v3.Vec) float64 {
	return s.sdf.Evaluate(p)
}

// BoundingBox returns the bounding box of a connected SDF3.
func (s *ConnectedSDF3) BoundingBox() Box3 {
	return s.sdf.BoundingBox()
}

*/

//-----------------------------------------------------------------------------

// OffsetSDF3 offsets the distance function of an existing SDF3.
type OffsetSDF3 struct {
	sdf    SDF3    // the underlying SDF
	offset float64 // the distance the SDF is offset by
	bb     Box3    // bounding box
}

// Offset3D returns an SDF3 that offsets the distance function of another SDF3.
func Offset3D(sdf SDF3, offset float64) SDF3 {
	s := OffsetSDF3{
		sdf:    sdf,
		offset: offset,
	}
	// bounding box
	bb := sdf.BoundingBox()
	s.bb = NewBox3(bb.Center(), bb.Size().AddScalar(2*offset))
	return &s
}

// Evaluate returns the minimum distance to an offset SDF3.
func (s *OffsetSDF3) Evaluate(p v3.Vec) float64 {
	return s.sdf.Evaluate(p) - s.offset
}

// BoundingBox returns the bounding box of an offset SDF3.
func (s *OffsetSDF3) BoundingBox() Box3 {
	return s.bb
}

//-----------------------------------------------------------------------------

// ShellSDF3 shells the surface of an existing SDF3.
type ShellSDF3 struct {
	sdf   SDF3    // parent sdf3
	delta float64 // half shell thickness
	bb    Box3    // bounding box
}

// Shell3D returns an SDF3 that shells the surface of an existing SDF3.
func Shell3D(sdf SDF3, thickness float64) (SDF3, error) {
	if thickness <= 0 {
		return nil, ErrMsg("thickness <= 0")
	}
	return &ShellSDF3{
		sdf:   sdf,
		delta: 0.5 * thickness,
		bb:    sdf.BoundingBox().Enlarge(v3.Vec{thickness, thickness, thickness}),
	}, nil
}

// Evaluate returns the minimum distance to a shelled SDF3.
func (s *ShellSDF3) Evaluate(p v3.Vec) float64 {
	return math.Abs(s.sdf.Evaluate(p)) - s.delta
}

// BoundingBox returns the bounding box of a shelled SDF3.
func (s *ShellSDF3) BoundingBox() Box3 {
	return s.bb
}

//-----------------------------------------------------------------------------

// LineOf3D returns a union of 3D objects positioned along a line from p0 to p1.
func LineOf3D(s SDF3, p0, p1 v3.Vec, pattern string) SDF3 {
	var objects []SDF3
	if pattern != "" {
		x := p0
		dx := p1.Sub(p0).DivScalar(float64(len(pattern)))
		for _, c := range pattern {
			if c == 'x' {
				objects = append(objects, Transform3D(s, Translate3d(x)))
			}
			x = x.Add(dx)
		}
	}
	return Union3D(objects...)
}

//-----------------------------------------------------------------------------

// Multi3D creates a union of an SDF3 at translated positions.
func Multi3D(s SDF3, positions v3.VecSet) SDF3 {
	if (s == nil) || (len(positions) == 0) {
		return nil
	}
	objects := make([]SDF3, len(positions))
	for i, p := range positions {
		objects[i] = Transform3D(s, Translate3d(p))
	}
	return Union3D(objects...)
}

//-----------------------------------------------------------------------------

// Orient3D creates a union of an SDF3 at oriented directions.
func Orient3D(s SDF3, base v3.Vec, directions v3.VecSet) SDF3 {
	if (s == nil) || (len(directions) == 0) {
		return nil
	}
	objects := make([]SDF3, len(directions))
	for i, d := range directions {
		objects[i] = Transform3D(s, RotateToVector(base, d))
	}
	return Union3D(objects...)
}

//-----------------------------------------------------------------------------
