//-----------------------------------------------------------------------------
/*

Cams

*/
//-----------------------------------------------------------------------------

package sdf

import (
	"errors"
	"math"

	v2 "github.com/deadsy/sdfx/vec/v2"
)

//-----------------------------------------------------------------------------
// Flat Flank Cams

// FlatFlankCamSDF2 is 2d cam profile.
// The profile is made from a base circle, a smaller nose circle and flat, tangential flanks.
type FlatFlankCamSDF2 struct {
	distance   float64 // center to center circle distance
	baseRadius float64 // radius of base circle
	noseRadius float64 // radius of nose circle
	a          v2.Vec  // lower point on flank line
	u          v2.Vec  // normalised line vector for flank
	l          float64 // length of flank line
	bb         Box2    // bounding box
}

// FlatFlankCam2D creates a 2D cam profile.
// The profile is made from a base circle, a smaller nose circle and flat, tangential flanks.
// The base circle is centered on the origin.
// The nose circle is located on the positive y axis.
func FlatFlankCam2D(
	distance float64, // circle to circle center distance
	baseRadius float64, // radius of base circle
	noseRadius float64, // radius of nose circle
) (SDF2, error) {
	s := FlatFlankCamSDF2{}
	s.distance = distance
	s.baseRadius = baseRadius
	s.noseRadius = noseRadius
	// work out the flank line
	sin := (baseRadius - noseRadius) / distance
	cos := math.Sqrt(1 - sin*sin)
	// first point on line
	s.a = v2.Vec{cos, sin}.MulScalar(baseRadius)
	// second point on line
	b := v2.Vec{cos, sin}.MulScalar(noseRadius).Add(v2.Vec{0, distance})
	// line information
	u := b.Sub(s.a)
	s.u = u.Normalize()
	s.l = u.Length()
	// work out the bounding box
	s.bb = Box2{v2.Vec{-baseRadius, -baseRadius}, v2.Vec{baseRadius, distance + noseRadius}}
	return &s, nil
}

// Evaluate returns the minimum distance to the cam.
func (s *FlatFlankCamSDF2) Evaluate(p v2.Vec) float64 {
	// we have symmetry about the y-axis
	p = v2.Vec{math.Abs(p.X), p.Y}
	// vector to first point of flank line
	v := p.Sub(s.a)
	// work out the t-parameter of the projection onto the flank line
	t := v.Dot(s.u)
	var d float64
	if t < 0 {
		// the nearest point is on the major circle
		d = p.Length() - s.baseRadius
	} else if t <= s.l {
		// the nearest point is on the flank line
		d = v.Dot(v2.Vec{s.u.Y, -s.u.X})
	} else {
		// the nearest point is on the minor circle
		d = p.Sub(v2.Vec{0, s.distance}).Length() - s.noseRadius
	}
	return d
}

// BoundingBox returns the bounding box for the cam.
func (s *FlatFlankCamSDF2) BoundingBox() Box2 {
	return s.bb
}

// MakeFlatFlankCam makes a flat flank cam profile from design parameters.
func MakeFlatFlankCam(
	lift float64, // follower lift distance from base circle
	duration float64, // angle over which the follower lifts from the base circle
	maxDiameter float64, // maximum diameter of cam rotation
) (SDF2, error) {

	if maxDiameter <= 0 {
		return nil, errors.New("maxDiameter <= 0")
	}
	if lift <= 0 {
		return nil, errors.New("lift <= 0")
	}
	if duration <= 0 || duration >= Pi {
		return nil, errors.New("invalid duration")
	}

	baseRadius := (maxDiameter / 2.0) - lift
	if baseRadius <= 0 {
		return nil, errors.New("baseRadius <= 0")
	}

	delta := duration / 2.0
	c := math.Cos(delta)
	noseRadius := baseRadius - (lift*c)/(1-c)
	if noseRadius <= 0 {
		return nil, errors.New("noseRadius <= 0")
	}
	distance := baseRadius + lift - noseRadius
	return FlatFlankCam2D(distance, baseRadius, noseRadius)
}

//-----------------------------------------------------------------------------
// Three Arc Cams

// ThreeArcCamSDF2 is 2d cam profile.
// The profile is made from a base circle, a smaller nose circle and circular flank arcs.
type ThreeArcCamSDF2 struct {
	distance    float64 // center to center circle distance
	baseRadius  float64 // radius of base circle
	noseRadius  float64 // radius of nose circle
	flankRadius float64 // radius of flank circle
	flankCenter v2.Vec  // center of flank circle (+ve x-axis flank arc)
	thetaBase   float64 // base/flank intersection angle wrt flank center
	thetaNose   float64 // nose/flank intersection angle wrt flank center
	bb          Box2    // bounding box
}

// ThreeArcCam2D creates a 2D cam profile.
// The profile is made from a base circle, a smaller nose circle and circular flank arcs.
// The base circle is centered on the origin.
// The nose circle is located on the positive y axis.
// The flank arcs are tangential to the base and nose circles.
func ThreeArcCam2D(
	distance float64, // circle to circle center distance
	baseRadius float64, // radius of base circle
	noseRadius float64, // radius of nose circle
	flankRadius float64, // radius of flank arc
) (SDF2, error) {
	// check for the minimum size flank radius
	if flankRadius < (baseRadius+distance+noseRadius)/2.0 {
		return nil, errors.New("flankRadius too small")
	}
	s := ThreeArcCamSDF2{}
	s.distance = distance
	s.baseRadius = baseRadius
	s.noseRadius = noseRadius
	s.flankRadius = flankRadius
	// work out the center for the flank radius
	// the flank arc center must lie on the intersection
	// of two circles about the base/nose circles
	r0 := flankRadius - baseRadius
	r1 := flankRadius - noseRadius
	y := ((r0 * r0) - (r1 * r1) + (distance * distance)) / (2.0 * distance)
	x := -math.Sqrt((r0 * r0) - (y * y)) // < 0 result, +ve x-axis flank arc
	s.flankCenter = v2.Vec{x, y}
	// work out theta for the intersection of flank arc and base radius
	p := v2.Vec{0, 0}.Sub(s.flankCenter)
	s.thetaBase = math.Atan2(p.Y, p.X)
	// work out theta for the intersection of flank arc and nose radius
	p = v2.Vec{0, distance}.Sub(s.flankCenter)
	s.thetaNose = math.Atan2(p.Y, p.X)
	// work out the bounding box
	// TODO fix this - it's wrong if the flank radius is small
	s.bb = Box2{v2.Vec{-baseRadius, -baseRadius}, v2.Vec{baseRadius, distance + noseRadius}}
	return &s, nil
}

// Evaluate returns the minimum distance to the cam.
func (s *ThreeArcCamSDF2) Evaluate(p v2.Vec) float64 {
	// we have symmetry about the y-axis
	p0 := v2.Vec{math.Abs(p.X), p.Y}
	// work out the theta angle wrt the flank center
	v := p0.Sub(s.flankCenter)
	t := math.Atan2(v.Y, v.X)
	// work out the minimum distance
	var d float64
	if t < s.thetaBase {
		// the closest point is on the base radius
		d = p0.Length() - s.baseRadius
	} else if t > s.thetaNose {
		// the closest point is on the nose radius
		d = p0.Sub(v2.Vec{0, s.distance}).Length() - s.noseRadius
	} else {
		// the closest point is on the flank radius
		d = v.Length() - s.flankRadius
	}
	return d
}

// BoundingBox returns the bounding box for the cam.
func (s *ThreeArcCamSDF2) BoundingBox() Box2 {
	return s.bb
}

// MakeThreeArcCam makes a three arc cam profile from design parameters.
func MakeThreeArcCam(
	lift float64, // follower lift distance from base circle
	duration float64, // angle over which the follower lifts from the base circle
	maxDiameter float64, // maximum diameter of cam rotation
	k float64, // tunable, bigger k = rounder nose, E.g. 1.05
) (SDF2, error) {

	if maxDiameter <= 0 {
		return nil, errors.New("maxDiameter <= 0")
	}
	if lift <= 0 {
		return nil, errors.New("lift <= 0")
	}
	if duration <= 0 {
		return nil, errors.New("invalid duration")
	}
	if k <= 1.0 {
		return nil, errors.New("invalid k")
	}

	baseRadius := (maxDiameter / 2.0) - lift
	if baseRadius <= 0 {
		return nil, errors.New("baseRadius <= 0")
	}

	// Given the duration we know where the flank arc intersects the base circle.
	theta := (Pi - duration) / 2.0
	p0 := v2.Vec{math.Cos(theta), math.Sin(theta)}.MulScalar(baseRadius)
	// This gives us a line back to the flank arc center
	l0 := newLinePV(p0, p0.Neg())

	//The flank arc intersects the y axis above the lift height.
	p1 := v2.Vec{0, k * (baseRadius + lift)}

	// The perpendicular bisector of p0 and p1 passes through the flank arc center.
	pMid := p1.Add(p0).MulScalar(0.5)
	u := p1.Sub(p0)
	l1 := newLinePV(pMid, v2.Vec{u.Y, -u.X})

	// Intersect to find the flank arc center.
	flankRadius, _, err := l0.Intersect(l1)
	if err != nil {
		return nil, err
	}
	flankCenter := l0.Position(flankRadius)

	// The nose circle is tangential to the flank arcs and the lift line.
	j := baseRadius + lift
	f := flankRadius
	cx := flankCenter.X
	cy := flankCenter.Y
	noseRadius := ((cx * cx) + (cy * cy) - (f * f) + (j * j) - (2 * cy * j)) / (2 * (j - f - cy))

	// distance between base and nose circles
	distance := baseRadius + lift - noseRadius
	return ThreeArcCam2D(distance, baseRadius, noseRadius, flankRadius)
}

//-----------------------------------------------------------------------------
