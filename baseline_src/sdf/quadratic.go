//-----------------------------------------------------------------------------
/*

Quadratic Solver

*/
//-----------------------------------------------------------------------------

package sdf

import "math"

//-----------------------------------------------------------------------------

type qSoln int

const (
	zeroSoln qSoln = iota
	oneSoln
	twoSoln
	infSoln
)

// Return the real solutions of ax^2 + bx + c = 0
func quadratic(a, b, c float64) ([]float64, qSoln) {
	// TODO Fix all comparisons to 0
	if a == 0 {
		if b == 0 {
			if c == 0 {
				// a = 0, b = 0, c = 0
				return nil, infSoln
			}
			// a = 0, b = 0, c != 0
			return nil, zeroSoln
		}
		// a =0, b != 0, c != 0
		return []float64{-c / b}, oneSoln
	}
	det := b*b - 4*a*c
	if det < 0 {
		return nil, zeroSoln
	}
	x := -b / (2 * a)
	if det == 0 {
		return []float64{x}, oneSoln
	}
	d := math.Sqrt(det) / (2 * a)
	return []float64{x + d, x - d}, twoSoln
}

//-----------------------------------------------------------------------------
