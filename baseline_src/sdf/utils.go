//-----------------------------------------------------------------------------

//-----------------------------------------------------------------------------

package sdf

import (
	"fmt"
	"math"
	"math/rand"
	"runtime"

	"github.com/deadsy/sdfx/vec/conv"
	v2 "github.com/deadsy/sdfx/vec/v2"
	v3 "github.com/deadsy/sdfx/vec/v3"
)

//-----------------------------------------------------------------------------
// constants

// Pi (3.14159...)
const Pi = math.Pi

// Tau (2 * Pi).
const Tau = 2 * math.Pi

// MillimetresPerInch is millimetres per inch (25.4)
const MillimetresPerInch = 25.4

// InchesPerMillimetre is inches per millimetre
const InchesPerMillimetre = 1.0 / MillimetresPerInch

// Mil is millimetres per 1/1000 of an inch
const Mil = MillimetresPerInch / 1000.0

const sqrtHalf = 0.7071067811865476
const tolerance = 1e-9
const epsilon = 1e-12

//-----------------------------------------------------------------------------

// From go 1.20 the rand.* are initialized to a random seed.
// Different results are generated every run. We want consistent
// results from run to run for binary verification, so we have
// our own local random source.

var sdfRand = rand.New(rand.NewSource(1))

// randomRange returns a random float64 [a,b)
func randomRange(a, b float64) float64 {
	return a + (b-a)*sdfRand.Float64()
}

//-----------------------------------------------------------------------------

// DtoR converts degrees to radians
func DtoR(degrees float64) float64 {
	return (Pi / 180) * degrees
}

// RtoD converts radians to degrees
func RtoD(radians float64) float64 {
	return (180 / Pi) * radians
}

//-----------------------------------------------------------------------------

func minInt(a, b int) int {
	if a < b {
		return a
	}
	return b
}

func maxInt(a, b int) int {
	if a > b {
		return a
	}
	return b
}

//-----------------------------------------------------------------------------

// Clamp x between a and b, assume a <= b
func Clamp(x, a, b float64) float64 {
	if x < a {
		return a
	}
	if x > b {
		return b
	}
	return x
}

// Mix does a linear interpolation from x to y, a = [0,1]
func Mix(x, y, a float64) float64 {
	return x + (a * (y - x))
}

//-----------------------------------------------------------------------------

// Sign returns the sign of x
func Sign(x float64) float64 {
	if x < 0 {
		return -1
	}
	if x > 0 {
		return 1
	}
	return 0
}

//-----------------------------------------------------------------------------

// SawTooth generates a sawtooth function. Returns [-period/2, period/2)
func SawTooth(x, period float64) float64 {
	x += period / 2
	t := x / period
	return period*(t-math.Floor(t)) - period/2
}

//-----------------------------------------------------------------------------

// MinFunc is a minimum functions for SDF blending.
type MinFunc func(a, b float64) float64

// RoundMin returns a minimum function that uses a quarter-circle to join the two objects smoothly.
func RoundMin(k float64) MinFunc {
	return func(a, b float64) float64 {
		u := v2.Vec{k - a, k - b}.Max(v2.Vec{0, 0})
		return math.Max(k, math.Min(a, b)) - u.Length()
	}
}

// ChamferMin returns a minimum function that makes a 45-degree chamfered edge (the diagonal of a square of size <r>).
// TODO: why the holes in the rendering?
func ChamferMin(k float64) MinFunc {
	return func(a, b float64) float64 {
		return math.Min(math.Min(a, b), (a-k+b)*sqrtHalf)
	}
}

// ExpMin returns a minimum function with exponential smoothing (k = 32).
func ExpMin(k float64) MinFunc {
	return func(a, b float64) float64 {
		return -math.Log(math.Exp(-k*a)+math.Exp(-k*b)) / k
	}
}

// PowMin returns  a minimum function (k = 8).
// TODO - weird results, is this correct?
func PowMin(k float64) MinFunc {
	return func(a, b float64) float64 {
		a = math.Pow(a, k)
		b = math.Pow(b, k)
		return math.Pow((a*b)/(a+b), 1/k)
	}
}

func poly(a, b, k float64) float64 {
	h := Clamp(0.5+0.5*(b-a)/k, 0.0, 1.0)
	return Mix(b, a, h) - k*h*(1.0-h)
}

// PolyMin returns a minimum function (Try k = 0.1, a bigger k gives a bigger fillet).
func PolyMin(k float64) MinFunc {
	return func(a, b float64) float64 {
		return poly(a, b, k)
	}
}

//-----------------------------------------------------------------------------

// MaxFunc is a maximum function for SDF blending.
type MaxFunc func(a, b float64) float64

// PolyMax returns a maximum function (Try k = 0.1, a bigger k gives a bigger fillet).
func PolyMax(k float64) MaxFunc {
	return func(a, b float64) float64 {
		return -poly(-a, -b, k)
	}
}

//-----------------------------------------------------------------------------

// ExtrudeFunc maps v3.Vec to v2.Vec - the point used to evaluate the SDF2.
type ExtrudeFunc func(p v3.Vec) v2.Vec

// NormalExtrude returns an extrusion function.
func NormalExtrude(p v3.Vec) v2.Vec {
	return v2.Vec{p.X, p.Y}
}

// TwistExtrude returns an extrusion function that twists with z.
func TwistExtrude(height, twist float64) ExtrudeFunc {
	k := twist / height
	return func(p v3.Vec) v2.Vec {
		m := Rotate(p.Z * k)
		return m.MulPosition(v2.Vec{p.X, p.Y})
	}
}

// ScaleExtrude returns an extrusion functions that scales with z.
func ScaleExtrude(height float64, scale v2.Vec) ExtrudeFunc {
	inv := v2.Vec{1 / scale.X, 1 / scale.Y}
	m := inv.Sub(v2.Vec{1, 1}).DivScalar(height) // slope
	b := inv.MulScalar(0.5).AddScalar(0.5)       // intercept
	return func(p v3.Vec) v2.Vec {
		return v2.Vec{p.X, p.Y}.Mul(m.MulScalar(p.Z).Add(b))
	}
}

// ScaleTwistExtrude returns an extrusion function that scales and twists with z.
func ScaleTwistExtrude(height, twist float64, scale v2.Vec) ExtrudeFunc {
	k := twist / height
	inv := v2.Vec{1 / scale.X, 1 / scale.Y}
	m := inv.Sub(v2.Vec{1, 1}).DivScalar(height) // slope
	b := inv.MulScalar(0.5).AddScalar(0.5)       // intercept
	return func(p v3.Vec) v2.Vec {
		// Scale and then Twist
		pnew := v2.Vec{p.X, p.Y}.Mul(m.MulScalar(p.Z).Add(b)) // Scale
		return Rotate(p.Z * k).MulPosition(pnew)              // Twist

		// Twist and then scale
		//pnew := Rotate(p.Z * k).MulPosition(v2.Vec{p.X, p.Y})
		//return pnew.Mul(m.MulScalar(p.Z).Add(b))
	}
}

//-----------------------------------------------------------------------------
// Raycasting

func sigmoidScaled(x float64) float64 {
	return 2/(1+math.Exp(-x)) - 1
}

// Raycast3 collides a ray (with an origin point from and a direction dir) with an SDF3.
// sigmoid is useful for fixing bad distance functions (those that do not accurately represent the distance to the
// closest surface, but will probably imply more evaluations)
// stepScale controls precision (less stepSize, more precision, but more SDF evaluations): use 1 if SDF indicates
// distance to the closest surface.
// It returns the collision point, how many normalized distances to reach it (t), and the number of steps performed
// If no surface is found (in maxDist and maxSteps), t is < 0
func Raycast3(s SDF3, from, dir v3.Vec, scaleAndSigmoid, stepScale, epsilon, maxDist float64, maxSteps int) (collision v3.Vec, t float64, steps int) {
	t = 0
	dirN := dir.Normalize()
	pos := from
	for {
		val := math.Abs(s.Evaluate(pos))
		//log.Print("Raycast step #", steps, " at ", pos, " with value ", val, "\n")
		if val < epsilon {
			collision = pos // Success
			break
		}
		steps++
		if steps == maxSteps {
			t = -1 // Failure
			break
		}
		if scaleAndSigmoid > 0 {
			val = sigmoidScaled(val * 10)
		}
		delta := val * stepScale
		t += delta
		pos = pos.Add(dirN.MulScalar(delta))
		if t < 0 || t > maxDist {
			t = -1 // Failure
			break
		}
	}
	//log.Println("Raycast did", steps, "steps")
	return
}

// Raycast2 see Raycast3. NOTE: implementation using Raycast3 (inefficient?)
func Raycast2(s SDF2, from, dir v2.Vec, scaleAndSigmoid, stepScale, epsilon, maxDist float64, maxSteps int) (v2.Vec, float64, int) {
	collision, t, steps := Raycast3(Extrude3D(s, 1), conv.V2ToV3(from, 0), conv.V2ToV3(dir, 0), scaleAndSigmoid, stepScale, epsilon, maxDist, maxSteps)
	return v2.Vec{collision.X, collision.Y}, t, steps
}

//-----------------------------------------------------------------------------
// Normals

// Normal3 returns the normal of an SDF3 at a point (doesn't need to be on the surface).
// Computed by sampling it several times inside a box of side 2*eps centered on p.
func Normal3(s SDF3, p v3.Vec, eps float64) v3.Vec {
	return v3.Vec{
		X: s.Evaluate(p.Add(v3.Vec{X: eps})) - s.Evaluate(p.Add(v3.Vec{X: -eps})),
		Y: s.Evaluate(p.Add(v3.Vec{Y: eps})) - s.Evaluate(p.Add(v3.Vec{Y: -eps})),
		Z: s.Evaluate(p.Add(v3.Vec{Z: eps})) - s.Evaluate(p.Add(v3.Vec{Z: -eps})),
	}.Normalize()
}

// Normal2 returns the normal of an SDF3 at a point (doesn't need to be on the surface).
// Computed by sampling it several times inside a box of side 2*eps centered on p.
func Normal2(s SDF2, p v2.Vec, eps float64) v2.Vec {
	return v2.Vec{
		X: s.Evaluate(p.Add(v2.Vec{X: eps})) - s.Evaluate(p.Add(v2.Vec{X: -eps})),
		Y: s.Evaluate(p.Add(v2.Vec{Y: eps})) - s.Evaluate(p.Add(v2.Vec{Y: -eps})),
	}.Normalize()
}

//-----------------------------------------------------------------------------

// FloatDecode returns a string that decodes the float64 bitfields.
func FloatDecode(x float64) string {
	i := math.Float64bits(x)
	s := int((i >> 63) & 1)
	f := i & ((1 << 52) - 1)
	e := int((i>>52)&((1<<11)-1)) - 1023
	return fmt.Sprintf("s %d f 0x%013x e %d", s, f, e)
}

// FloatEncode encodes a float64 from sign, fraction and exponent values.
func FloatEncode(s int, f uint64, e int) float64 {
	s &= 1
	exp := uint64(e+1023) & ((1 << 11) - 1)
	f &= (1 << 52) - 1
	return math.Float64frombits(uint64(s)<<63 | exp<<52 | f)
}

//-----------------------------------------------------------------------------
// Floating Point Comparisons
// See: http://floating-point-gui.de/errors/NearlyEqualsTest.java

/*

const minNormal = 2.2250738585072014e-308 // 2**-1022

// EqualFloat64 compares two float64 values for equality.
func EqualFloat64(a, b, epsilon float64) bool {
	if a == b {
		return true
	}
	absA := math.Abs(a)
	absB := math.Abs(b)
	diff := math.Abs(a - b)
	if a == 0 || b == 0 || diff < minNormal {
		// a or b is zero or both are extremely close to it
		// relative error is less meaningful here
		return diff < (epsilon * minNormal)
	}
	// use relative error
	return diff/math.Min((absA+absB), math.MaxFloat64) < epsilon
}

*/

// EqualFloat64 compares two float64 values for equality.
func EqualFloat64(a, b, epsilon float64) bool {
	if a == b {
		return true
	}
	return math.Abs(a-b) < epsilon
}

// SnapFloat64 snaps a float value to b if it is within epsilon of b.
func SnapFloat64(a, b, epsilon float64) float64 {
	if EqualFloat64(a, b, epsilon) {
		return b
	}
	return a
}

//-----------------------------------------------------------------------------

// ZeroSmall zeroes out values that are small relative to a quantity.
func ZeroSmall(x, y, epsilon float64) float64 {
	if math.Abs(x)/y < epsilon {
		return 0
	}
	return x
}

//-----------------------------------------------------------------------------

// ErrMsg returns an error with a message function name and line number.
func ErrMsg(msg string) error {
	pc, _, line, ok := runtime.Caller(1)
	if !ok {
		return fmt.Errorf("?: %s", msg)
	}
	fn := runtime.FuncForPC(pc)
	return fmt.Errorf("%s line %d: %s", fn.Name(), line, msg)
}

//-----------------------------------------------------------------------------
