//-----------------------------------------------------------------------------
/*

Text Operations

Convert a string and font specification into an SDF2

*/
//-----------------------------------------------------------------------------

package sdf

import (
	"io/ioutil"
	"strings"

	v2 "github.com/deadsy/sdfx/vec/v2"
	"github.com/golang/freetype/truetype"
	"golang.org/x/image/font"
	"golang.org/x/image/math/fixed"
)

//-----------------------------------------------------------------------------

type align int

const (
	lAlign align = iota // left hand side x = 0
	rAlign              // right hand side x = 0
	cAlign              // center x = 0
)

// Text stores a UTF8 string and it's rendering parameters.
type Text struct {
	s      string
	halign align
}

//-----------------------------------------------------------------------------

// pToV2 converts a truetype point to a v2.Vec
func pToV2(p truetype.Point) v2.Vec {
	return v2.Vec{float64(p.X), float64(p.Y)}
}

//-----------------------------------------------------------------------------

// glyphCurve returns the SDF2 for the n-th curve of the glyph
func glyphCurve(g *truetype.GlyphBuf, n int) (SDF2, bool, error) {
	// get the start and end point
	start := 0
	if n != 0 {
		start = g.Ends[n-1]
	}
	end := g.Ends[n] - 1

	// build a bezier curve from the points
	// work out the cw/ccw direction
	b := NewBezier()
	sum := 0.0
	offPrev := false
	vPrev := pToV2(g.Points[end])

	for i := start; i <= end; i++ {
		p := g.Points[i]
		v := pToV2(p)
		// is the point off/on the curve?
		off := p.Flags&1 == 0
		// do we have an implicit on point?
		if off && offPrev {
			// implicit on point at the midpoint of the 2 off points
			b.AddV2(v.Add(vPrev).MulScalar(0.5))
		}
		// add the point
		x := b.AddV2(v)
		if off {
			x.Mid()
		}
		// accumulate the cw/ccw direction
		sum += (v.X - vPrev.X) * (v.Y + vPrev.Y)
		// next point...
		vPrev = v
		offPrev = off
	}
	b.Close()

	s, err := b.Mesh2D()
	if err != nil {
		return nil, false, err
	}

	return s, sum > 0, err
}

// glyphConvert returns the SDF2 for a glyph
func glyphConvert(g *truetype.GlyphBuf) (SDF2, error) {
	var s0 SDF2
	for n := 0; n < len(g.Ends); n++ {
		s1, cw, err := glyphCurve(g, n)
		if err != nil {
			return nil, err
		}
		if cw {
			s0 = Union2D(s0, s1)
		} else {
			s0 = Difference2D(s0, s1)
		}
	}
	return s0, nil
}

//-----------------------------------------------------------------------------

// lineSDF2 returns an SDF2 slice for a line of text
func lineSDF2(f *truetype.Font, l string) ([]SDF2, float64, error) {
	iPrev := truetype.Index(0)
	scale := fixed.Int26_6(f.FUnitsPerEm())
	xOfs := 0.0

	var ss []SDF2

	for _, r := range l {
		i := f.Index(r)

		// get the glyph metrics
		hm := f.HMetric(scale, i)

		// apply kerning
		k := f.Kern(scale, iPrev, i)
		xOfs += float64(k)
		iPrev = i

		// load the glyph
		g := &truetype.GlyphBuf{}
		err := g.Load(f, scale, i, font.HintingNone)
		if err != nil {
			return nil, 0, err
		}

		s, err := glyphConvert(g)
		if err != nil {
			return nil, 0, err
		}
		if s != nil {
			s = Transform2D(s, Translate2d(v2.Vec{xOfs, 0}))
			ss = append(ss, s)
		}

		xOfs += float64(hm.AdvanceWidth)
	}

	return ss, xOfs, nil
}

//-----------------------------------------------------------------------------
// public api

// NewText returns a text object (text and alignment).
func NewText(s string) *Text {
	return &Text{
		s:      s,
		halign: cAlign,
	}
}

// LoadFont loads a truetype (*.ttf) font file.
func LoadFont(fname string) (*truetype.Font, error) {
	// read the font file
	b, err := ioutil.ReadFile(fname)
	if err != nil {
		return nil, err
	}
	return truetype.Parse(b)
}

// Text2D returns a sized SDF2 for a text object.
func Text2D(f *truetype.Font, t *Text, h float64) (SDF2, error) {
	scale := fixed.Int26_6(f.FUnitsPerEm())
	lines := strings.Split(t.s, "\n")
	yOfs := 0.0
	vm := f.VMetric(scale, f.Index('\n'))
	ah := float64(vm.AdvanceHeight)

	var ss []SDF2

	for i := range lines {
		ssLine, hlen, err := lineSDF2(f, lines[i])
		if err != nil {
			return nil, err
		}
		xOfs := 0.0
		if t.halign == rAlign {
			xOfs = -hlen
		} else if t.halign == cAlign {
			xOfs = -hlen / 2.0
		}
		for i := range ssLine {
			ssLine[i] = Transform2D(ssLine[i], Translate2d(v2.Vec{xOfs, yOfs}))
		}
		ss = append(ss, ssLine...)
		yOfs -= ah
	}

	return CenterAndScale2D(Union2D(ss...), h/ah), nil
}

//-----------------------------------------------------------------------------
