//-----------------------------------------------------------------------------
/*

Polygon Building Code

*/
//-----------------------------------------------------------------------------

package sdf

import (
	"fmt"
	"math"

	"github.com/deadsy/sdfx/vec/conv"
	"github.com/deadsy/sdfx/vec/p2"
	v2 "github.com/deadsy/sdfx/vec/v2"
)

//-----------------------------------------------------------------------------

// Polygon stores a set of 2d polygon vertices.
type Polygon struct {
	closed  bool            // is the polygon closed or open?
	reverse bool            // return the vertices in reverse order
	vlist   []PolygonVertex // list of polygon vertices
}

// PolygonVertex is a polygon vertex.
type PolygonVertex struct {
	relative bool    // vertex position is relative to previous vertex
	vtype    pvType  // type of polygon vertex
	vertex   v2.Vec  // vertex coordinates
	facets   int     // number of polygon facets to create when smoothing
	radius   float64 // radius of smoothing (0 == none)
}

// pvType is the type of a polygon vertex.
type pvType int

const (
	pvNormal pvType = iota // normal vertex
	pvSmooth               // smooth the vertex
	pvArc                  // replace the line segment with an arc
)

//-----------------------------------------------------------------------------
// Operations on Polygon Vertices

// Rel positions the polygon vertex relative to the prior vertex.
func (v *PolygonVertex) Rel() *PolygonVertex {
	v.relative = true
	return v
}

// Polar treats the polygon vertex values as polar coordinates (r, theta).
func (v *PolygonVertex) Polar() *PolygonVertex {
	v.vertex = conv.P2ToV2(p2.Vec{v.vertex.X, v.vertex.Y})
	return v
}

// Smooth marks the polygon vertex for smoothing.
func (v *PolygonVertex) Smooth(radius float64, facets int) *PolygonVertex {
	if radius != 0 && facets != 0 {
		v.radius = radius
		v.facets = facets
		v.vtype = pvSmooth
	}
	return v
}

// Chamfer marks the polygon vertex for chamfering.
func (v *PolygonVertex) Chamfer(size float64) *PolygonVertex {
	// Fake it with a 1 facet smoothing.
	// The size will be inaccurate for anything other than
	// 90 degree segments, but this is easy, and I'm lazy ...
	if size != 0 {
		v.radius = size * sqrtHalf
		v.facets = 1
		v.vtype = pvSmooth
	}
	return v
}

// Arc replaces a line segment with a circular arc.
func (v *PolygonVertex) Arc(radius float64, facets int) *PolygonVertex {
	if radius != 0 && facets != 0 {
		v.radius = radius
		v.facets = facets
		v.vtype = pvArc
	}
	return v
}

//-----------------------------------------------------------------------------

// nextVertex returns the next vertex in the polygon.
func (p *Polygon) nextVertex(i int) *PolygonVertex {
	if i == len(p.vlist)-1 {
		if p.closed {
			return &p.vlist[0]
		}
		return nil
	}
	return &p.vlist[i+1]
}

// prevVertex returns the previous vertex in the polygon.
func (p *Polygon) prevVertex(i int) *PolygonVertex {
	if i == 0 {
		if p.closed {
			return &p.vlist[len(p.vlist)-1]
		}
		return nil
	}
	return &p.vlist[i-1]
}

//-----------------------------------------------------------------------------
// convert line segments to arcs

// arcVertex replaces a line segment with a circular arc.
func (p *Polygon) arcVertex(i int) bool {
	// check the vertex
	v := &p.vlist[i]
	if v.vtype != pvArc {
		return false
	}
	// now it's a normal vertex
	v.vtype = pvNormal
	// check for the previous vertex
	pv := p.prevVertex(i)
	if pv == nil {
		return false
	}
	// The sign of the radius indicates which side of the chord the arc is on.
	side := Sign(v.radius)
	radius := math.Abs(v.radius)
	// two points on the chord
	a := pv.vertex
	b := v.vertex
	// Normal to chord
	ba := b.Sub(a).Normalize()
	n := v2.Vec{ba.Y, -ba.X}.MulScalar(side)
	// midpoint
	mid := a.Add(b).MulScalar(0.5)
	// distance from a to midpoint
	dMid := mid.Sub(a).Length()
	// distance from midpoint to center of arc
	dCenter := math.Sqrt((radius * radius) - (dMid * dMid))
	// center of arc
	c := mid.Add(n.MulScalar(dCenter))
	// work out the angle
	ac := a.Sub(c).Normalize()
	bc := b.Sub(c).Normalize()
	dtheta := -side * math.Acos(ac.Dot(bc)) / float64(v.facets)
	// rotation matrix
	m := Rotate(dtheta)
	// radius vector
	rv := m.MulPosition(a.Sub(c))
	// work out the new vertices
	vlist := make([]PolygonVertex, v.facets-1)
	for j := range vlist {
		vlist[j] = PolygonVertex{vertex: c.Add(rv)}
		rv = m.MulPosition(rv)
	}
	// insert the new vertices between the arc endpoints
	p.vlist = append(p.vlist[:i], append(vlist, p.vlist[i:]...)...)
	return true
}

// createArcs converts polygon line segments to arcs.
func (p *Polygon) createArcs() {
	done := false
	for done == false {
		done = true
		for i := range p.vlist {
			if p.arcVertex(i) {
				done = false
			}
		}
	}
}

//-----------------------------------------------------------------------------
// vertex smoothing

// Smooth the i-th vertex, return true if we smoothed it.
func (p *Polygon) smoothVertex(i int) bool {
	// check the vertex
	v := p.vlist[i]
	if v.vtype != pvSmooth {
		// fixed point
		return false
	}
	// get the next and previous points
	vn := p.nextVertex(i)
	vp := p.prevVertex(i)
	if vp == nil || vn == nil {
		// can't smooth the endpoints of an open polygon
		return false
	}
	// work out the angle
	v0 := vp.vertex.Sub(v.vertex).Normalize()
	v1 := vn.vertex.Sub(v.vertex).Normalize()
	theta := math.Acos(v0.Dot(v1))
	// distance from vertex to circle tangent
	d1 := v.radius / math.Tan(theta/2.0)
	if d1 > vp.vertex.Sub(v.vertex).Length() || d1 > vn.vertex.Sub(v.vertex).Length() {
		// unable to smooth - radius is too large
		return false
	}
	// tangent points
	p0 := v.vertex.Add(v0.MulScalar(d1))
	// distance from vertex to circle center
	d2 := v.radius / math.Sin(theta/2.0)
	// center of circle
	vc := v0.Add(v1).Normalize()
	c := v.vertex.Add(vc.MulScalar(d2))
	// rotation angle
	dtheta := Sign(v1.Cross(v0)) * (Pi - theta) / float64(v.facets)
	// rotation matrix
	rm := Rotate(dtheta)
	// radius vector
	rv := p0.Sub(c)
	// work out the new points
	points := make([]PolygonVertex, v.facets+1)
	for j := range points {
		points[j] = PolygonVertex{vertex: c.Add(rv)}
		rv = rm.MulPosition(rv)
	}
	// replace the old point with the new points
	p.vlist = append(p.vlist[:i], append(points, p.vlist[i+1:]...)...)
	return true
}

// smoothVertices smoothes the vertices of a polygon.
func (p *Polygon) smoothVertices() {
	done := false
	for done == false {
		done = true
		for i := range p.vlist {
			if p.smoothVertex(i) {
				done = false
			}
		}
	}
}

//-----------------------------------------------------------------------------

// relToAbs converts relative vertices to absolute vertices.
func (p *Polygon) relToAbs() error {
	for i := range p.vlist {
		v := &p.vlist[i]
		if v.relative {
			pv := p.prevVertex(i)
			if pv.relative {
				return fmt.Errorf("relative vertex needs an absolute reference")
			}
			v.vertex = v.vertex.Add(pv.vertex)
			v.relative = false
		}
	}
	return nil
}

//-----------------------------------------------------------------------------

func (p *Polygon) fixups() {
	p.relToAbs()
	p.createArcs()
	p.smoothVertices()
}

//-----------------------------------------------------------------------------
// Public API for polygons

// Close closes the polygon.
func (p *Polygon) Close() {
	p.closed = true
}

// Closed returns true/fale if the polygon is closed/open.
func (p *Polygon) Closed() bool {
	return p.closed
}

// Reverse reverses the order the vertices are returned.
func (p *Polygon) Reverse() {
	p.reverse = true
}

// NewPolygon returns an empty polygon.
func NewPolygon() *Polygon {
	return &Polygon{}
}

// AddV2 adds a V2 vertex to a polygon.
func (p *Polygon) AddV2(x v2.Vec) *PolygonVertex {
	v := PolygonVertex{}
	v.vertex = x
	v.vtype = pvNormal
	p.vlist = append(p.vlist, v)
	return &p.vlist[len(p.vlist)-1]
}

// AddV2Set adds a set of V2 vertices to a polygon.
func (p *Polygon) AddV2Set(x []v2.Vec) {
	for _, v := range x {
		p.AddV2(v)
	}
}

// Add an x,y vertex to a polygon.
func (p *Polygon) Add(x, y float64) *PolygonVertex {
	return p.AddV2(v2.Vec{x, y})
}

// Drop the last vertex from the list.
func (p *Polygon) Drop() {
	p.vlist = p.vlist[:len(p.vlist)-1]
}

// Vertices returns the vertices of the polygon.
func (p *Polygon) Vertices() []v2.Vec {
	if p.vlist == nil {
		return nil
	}
	p.fixups()
	n := len(p.vlist)
	v := make([]v2.Vec, n)
	if p.reverse {
		for i, pv := range p.vlist {
			v[n-1-i] = pv.vertex
		}
	} else {
		for i, pv := range p.vlist {
			v[i] = pv.vertex
		}
	}
	return v
}

// Mesh2D returns the Mesh2D for the polygon.
func (p *Polygon) Mesh2D() (SDF2, error) {
	return Polygon2D(p.Vertices())
}

//-----------------------------------------------------------------------------

// Nagon return the vertices of a N sided regular polygon.
func Nagon(n int, radius float64) v2.VecSet {
	if n < 3 {
		return nil
	}
	m := Rotate(Tau / float64(n))
	v := make(v2.VecSet, n)
	p := v2.Vec{radius, 0}
	for i := 0; i < n; i++ {
		v[i] = p
		p = m.MulPosition(p)
	}
	return v
}

//-----------------------------------------------------------------------------
