//-----------------------------------------------------------------------------
/*

Voxel-based cache/smoothing to remove deep SDF2/SDF3 hierarchies and speed up evaluation

*/
//-----------------------------------------------------------------------------

package sdf

import (
	"github.com/deadsy/sdfx/vec/conv"
	v3 "github.com/deadsy/sdfx/vec/v3"
	"github.com/deadsy/sdfx/vec/v3i"
)

//-----------------------------------------------------------------------------

// VoxelSDF3 is the SDF that represents a pre-computed voxel-based SDF3.
// It can be used as a cache, or for smoothing.
//
// CACHE:
// It can be used to speed up all evaluations required by the surface mesher at the cost of scene setup time and accuracy.
//
// SMOOTHING (meshCells <<< renderer's meshCells):
// It performs trilinear mapping for inner values and may be used as a cache for any other SDF, losing some accuracy.
//
// WARNING: It may lose sharp features, even if meshCells is high.
type VoxelSDF3 struct {
	// voxelCorners are the values of this SDF in each voxel corner
	voxelCorners map[v3i.Vec]float64 // TODO: Octree + k-d tree to simplify/reduce memory consumption + speed-up access?
	// bb is the bounding box.
	bb Box3
	// Number of voxelCorners to consider
	numVoxels v3i.Vec
}

// NewVoxelSDF3 returns a VoxelSDF3.
// This populates the whole cache from the given SDF.
// The progress listener may be nil.
func NewVoxelSDF3(s SDF3, meshCells int, progress chan float64) SDF3 {
	bb := s.BoundingBox() // TODO: Use default code to avoid duplication
	bbSize := bb.Size()
	resolution := bbSize.MaxComponent() / float64(meshCells)
	cells := conv.V3ToV3i(bbSize.DivScalar(resolution))

	voxelCorners := map[v3i.Vec]float64{}
	voxelCornerIndex := v3i.Vec{}
	for voxelCornerIndex.X = 0; voxelCornerIndex.X <= cells.X; voxelCornerIndex.X++ {
		for voxelCornerIndex.Y = 0; voxelCornerIndex.Y <= cells.Y; voxelCornerIndex.Y++ {
			for voxelCornerIndex.Z = 0; voxelCornerIndex.Z <= cells.Z; voxelCornerIndex.Z++ {
				voxelCorner := bb.Min.Add(bbSize.Mul(conv.V3iToV3(voxelCornerIndex)).Div(conv.V3iToV3(cells)))
				voxelCorners[voxelCornerIndex] = s.Evaluate(voxelCorner)
			}
		}
		if progress != nil {
			progress <- float64(voxelCornerIndex.X) / float64(cells.X)
		}
	}

	return &VoxelSDF3{
		voxelCorners: voxelCorners,
		bb:           bb,
		numVoxels:    cells,
	}
}

// Evaluate returns the minimum distance to a VoxelSDF3.
func (m *VoxelSDF3) Evaluate(p v3.Vec) float64 {
	// Find the voxel's {0,0,0} corner quickly and compute p's displacement
	voxelSize := m.bb.Size().Div(conv.V3iToV3(m.numVoxels))
	voxelStartIndex := conv.V3ToV3i(p.Sub(m.bb.Min).Div(voxelSize))
	voxelStart := m.bb.Min.Add(voxelSize.Mul(conv.V3iToV3(voxelStartIndex)))
	d := p.Sub(voxelStart).Div(voxelSize) // [0, 1) for each dimension
	// Get the values at the voxel's corners
	c000 := m.voxelCorners[voxelStartIndex]
	c001 := m.voxelCorners[voxelStartIndex.Add(v3i.Vec{0, 0, 1})]
	c010 := m.voxelCorners[voxelStartIndex.Add(v3i.Vec{0, 1, 0})]
	c011 := m.voxelCorners[voxelStartIndex.Add(v3i.Vec{0, 1, 1})]
	c100 := m.voxelCorners[voxelStartIndex.Add(v3i.Vec{1, 0, 0})]
	c101 := m.voxelCorners[voxelStartIndex.Add(v3i.Vec{1, 0, 1})]
	c110 := m.voxelCorners[voxelStartIndex.Add(v3i.Vec{1, 1, 0})]
	c111 := m.voxelCorners[voxelStartIndex.Add(v3i.Vec{1, 1, 1})]
	// Perform trilinear interpolation over the voxel's corners
	// - 4 linear interpolations
	c00 := c000*(1-d.X) + c100*d.X
	c01 := c001*(1-d.X) + c101*d.X
	c10 := c010*(1-d.X) + c110*d.X
	c11 := c011*(1-d.X) + c111*d.X
	// - 2 bilinear interpolations
	c0 := c00*(1-d.Y) + c10*d.Y
	c1 := c01*(1-d.Y) + c11*d.Y
	// - 1 trilinear interpolation
	c := c0*(1-d.Z) + c1*d.Z
	return c
}

// BoundingBox returns the bounding box for a VoxelSDF3.
func (m *VoxelSDF3) BoundingBox() Box3 {
	return m.bb
}

//-----------------------------------------------------------------------------
