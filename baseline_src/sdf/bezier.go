//-----------------------------------------------------------------------------
/*

Create curves using Bezier splines.

*/
//-----------------------------------------------------------------------------

package sdf

import (
	"errors"
	"fmt"
	"log"
	"math"

	"github.com/deadsy/sdfx/vec/conv"
	"github.com/deadsy/sdfx/vec/p2"
	v2 "github.com/deadsy/sdfx/vec/v2"
)

//-----------------------------------------------------------------------------

// colinearSlow return true if 3 points are colinear (slow test).
func colinearSlow(a, b, c v2.Vec, tolerance float64) bool {
	// use the cross product as a measure of colinearity
	pa := a.Sub(c).Normalize()
	pb := b.Sub(c).Normalize()
	return math.Abs(pa.Cross(pb)) < tolerance
}

// colinearFast return true if 3 points are colinear (fast test).
func colinearFast(a, b, c v2.Vec, tolerance float64) bool {
	// use the cross product as a measure of colinearity
	ac := a.Sub(b)
	bc := b.Sub(c)
	return math.Abs(ac.Cross(bc)) < tolerance
}

//-----------------------------------------------------------------------------

// BezierPolynomial contains the bezier polynomial parameters.
type BezierPolynomial struct {
	n             int     // polynomial order
	a, b, c, d, e float64 // polynomial coefficients
}

// Return the bezier polynomial function value.
func (p *BezierPolynomial) f0(t float64) float64 {
	switch p.n {
	case 0:
		// point
		return p.a
	case 1:
		// linear
		return p.a + t*p.b
	case 2:
		// quadratic
		return p.a + t*(p.b+t*p.c)
	case 3:
		// cubic
		return p.a + t*(p.b+t*(p.c+t*p.d))
	case 4:
		// quartic
		return p.a + t*(p.b+t*(p.c+t*(p.d+t*p.e)))
	default:
		log.Panicf("bad polynomial order %d", p.n)
		return 0
	}
}

// Return the 1st derivative of the bezier polynomial.
func (p *BezierPolynomial) f1(t float64) float64 {
	switch p.n {
	case 0:
		// point
		return 0
	case 1:
		// linear
		return p.b
	case 2:
		// quadratic
		return p.b + t*2*p.c
	case 3:
		// cubic
		return p.b + t*(2*p.c+t*3*p.d)
	case 4:
		// quartic
		return p.b + t*(2*p.c+t*(3*p.d+t*4*p.e))
	default:
		log.Panicf("bad polynomial order %d", p.n)
		return 0
	}
}

// Return the 2nd derivative of the bezier polynomial.
func (p *BezierPolynomial) f2(t float64) float64 {
	switch p.n {
	case 0:
		// point
		return 0
	case 1:
		// linear
		return 0
	case 2:
		// quadratic
		return 2 * p.c
	case 3:
		// cubic
		return 2 * (p.c + t*3*p.d)
	case 4:
		// quartic
		return 2 * (p.c + t*3*(p.d+t*2*p.e))
	default:
		log.Panicf("bad polynomial order %d", p.n)
		return 0
	}
}

// Set calculates bezier polynomial coefficients given the end/control points.
func (p *BezierPolynomial) Set(x []float64) {
	p.n = len(x) - 1
	switch p.n {
	case 0:
		// point
		p.a = x[0]
	case 1:
		// linear
		p.a = x[0]
		p.b = -x[0] + x[1]
	case 2:
		// quadratic
		p.a = x[0]
		p.b = -2*x[0] + 2*x[1]
		p.c = x[0] - 2*x[1] + x[2]
	case 3:
		// cubic
		p.a = x[0]
		p.b = -3*x[0] + 3*x[1]
		p.c = 3*x[0] - 6*x[1] + 3*x[2]
		p.d = -x[0] + 3*x[1] - 3*x[2] + x[3]
	case 4:
		// quartic
		p.a = x[0]
		p.b = -4*x[0] + 4*x[1]
		p.c = 6*x[0] - 12*x[1] + 6*x[2]
		p.d = -4*x[0] + 12*x[1] - 12*x[2] + 4*x[3]
		p.e = x[0] - 4*x[1] + 6*x[2] - 4*x[3] + x[4]
	default:
		log.Panicf("bad polynomial order %d", p.n)
		return
	}
	// zero out any very small coefficients
	sum := math.Abs(p.a) + math.Abs(p.b) + math.Abs(p.c) + math.Abs(p.d) + math.Abs(p.e)
	p.a = ZeroSmall(p.a, sum, epsilon)
	p.b = ZeroSmall(p.b, sum, epsilon)
	p.c = ZeroSmall(p.c, sum, epsilon)
	p.d = ZeroSmall(p.d, sum, epsilon)
	p.e = ZeroSmall(p.e, sum, epsilon)
	// reduce the polynomial to the lowest order
	if p.n == 4 && p.e == 0 {
		p.n = 3
	}
	if p.n == 3 && p.d == 0 {
		p.n = 2
	}
	if p.n == 2 && p.c == 0 {
		p.n = 1
	}
	if p.n == 1 && p.b == 0 {
		p.n = 0
	}
}

//-----------------------------------------------------------------------------

// BezierSpline contains the x/y bezier curves for a 2D spline.
type BezierSpline struct {
	tolerance float64          // tolerance for adaptive sampling
	px, py    BezierPolynomial // x/y bezier polynomials
}

// Return the function value for a given t value.
func (s *BezierSpline) f0(t float64) v2.Vec {
	return v2.Vec{s.px.f0(t), s.py.f0(t)}
}

// Sample generates polygon samples for a bezier spline.
func (s *BezierSpline) Sample(p *Polygon, t0, t1 float64, p0, p1 v2.Vec, n int) {

	// test the midpoint
	tmid := (t0 + t1) / 2
	pmid := s.f0(tmid)
	if colinearSlow(pmid, p0, p1, s.tolerance) {
		// the curve could be periodic so perturb the midpoint
		// pick a t value in [0.45,0.55]
		k := 0.45 + 0.1*sdfRand.Float64()
		t2 := t0 + k*(t1-t0)
		p2 := s.f0(t2)
		if colinearSlow(p2, p0, p1, s.tolerance) {
			// looks flat enough, add the line segment
			if t0 == 0 {
				// add p0 for the first point on the spline
				p.AddV2(p0)
			}
			p.AddV2(p1)
			return
		}
	}
	// have we hit the recursion limit?
	if n > 8 {
		fmt.Printf("warn: bezier spline resursion limit %v\n", s)
		if t0 == 0 {
			// add p0 for the first point on the spline
			p.AddV2(p0)
		}
		p.AddV2(p1)
		return
	}
	// not flat enough, subdivide and recurse
	s.Sample(p, t0, tmid, p0, pmid, n+1)
	s.Sample(p, tmid, t1, pmid, p1, n+1)
}

// NewBezierSpline returns a bezier spline from the provided control/end points.
func NewBezierSpline(p []v2.Vec) *BezierSpline {
	//fmt.Printf("%v\n", p)
	s := BezierSpline{}
	// closer to 0, more polygon line segments
	s.tolerance = 0.02 // sin(theta)
	// work out the polynomials
	x := make([]float64, len(p))
	y := make([]float64, len(p))
	for i, v := range p {
		x[i] = v.X
		y[i] = v.Y
	}
	s.px.Set(x)
	s.py.Set(y)
	return &s
}

//-----------------------------------------------------------------------------

// bezierVertexType specifies the type of bezier control/endpoint.
type bezierVertexType int

const (
	endpoint bezierVertexType = iota // endpoint
	midpoint                         // midpoint
)

// BezierVertex specifies the vertex for a bezier curve.
type BezierVertex struct {
	vtype     bezierVertexType // type of bezier vertex
	vertex    v2.Vec           // vertex coordinates
	handleFwd v2.Vec           // polar coordinates of forward handle
	handleRev v2.Vec           // polar coordinates of reverse handle
}

// Bezier curve specification..
type Bezier struct {
	closed bool           // is the curve closed or open?
	vlist  []BezierVertex // list of bezier vertices
}

//-----------------------------------------------------------------------------

// Convert handles to control points.
func (b *Bezier) handles() {
	// new control vertex list
	var vlist []BezierVertex
	for _, v := range b.vlist {
		fwd := v.handleFwd
		rev := v.handleRev
		v.handleFwd = v2.Vec{}
		v.handleRev = v2.Vec{}
		// add a control midpoint for the reverse handle
		if rev.X != 0 {
			cp := BezierVertex{}
			cp.vtype = midpoint
			cp.vertex = conv.P2ToV2(p2.Vec{rev.X, rev.Y}).Add(v.vertex)
			vlist = append(vlist, cp)
		}
		// add the original curve end point.
		vlist = append(vlist, v)
		// add a control midpoint for the forward handle
		if fwd.X != 0 {
			cp := BezierVertex{}
			cp.vtype = midpoint
			cp.vertex = conv.P2ToV2(p2.Vec{fwd.X, fwd.Y}).Add(v.vertex)
			vlist = append(vlist, cp)
		}
	}
	// find the first endpoint control vertex
	i := 0
	for i = range vlist {
		if vlist[i].vtype == endpoint {
			break
		}
	}
	// move any leading midpoints to the end of the list
	if i != 0 {
		vlist = append(vlist[i:], vlist[:i]...)
	}
	// replace the original control vertex list
	b.vlist = vlist
}

// Take care of curve closure.
func (b *Bezier) closure() error {
	// do we need to close the curve?
	if !b.closed {
		return nil
	}
	if len(b.vlist) == 0 || len(b.vlist) == 1 {
		return errors.New("bad number of vertices")
	}
	first := b.vlist[0]
	last := b.vlist[len(b.vlist)-1]
	if first.vtype != endpoint {
		return errors.New("first control vertex should be an endpoint")
	}
	if last.vtype == endpoint {
		if !last.vertex.Equals(first.vertex, tolerance) {
			// the first and last vertices aren't equal.
			// add the first vertex to close the curve
			b.vlist = append(b.vlist, first)
		}
	} else if last.vtype == midpoint {
		// add the first vertex to close the curve
		b.vlist = append(b.vlist, first)
	} else {
		return errors.New("bad vertex type")
	}
	return nil
}

// Do some validation checks on the control vertices.
func (b *Bezier) validate() error {
	// basic checks
	n := len(b.vlist)
	if n < 2 {
		return errors.New("bezier curve must have at least two points")
	}
	if b.vlist[0].vtype != endpoint {
		return errors.New("bezier curve must start with an endpoint")
	}
	if !b.closed && b.vlist[n-1].vtype != endpoint {
		return errors.New("non-closed bezier curve must end with an endpoint")
	}
	return nil
}

// Post definition control point fixups.
func (b *Bezier) fixups() error {
	b.handles()
	err := b.closure()
	if err != nil {
		return err
	}
	err = b.validate()
	if err != nil {
		return err
	}
	return nil
}

//-----------------------------------------------------------------------------
// Public API for Bezier Curves.

// NewBezier returns an empty bezier curve.
func NewBezier() *Bezier {
	return &Bezier{}
}

// Close the bezier curve.
func (b *Bezier) Close() {
	b.closed = true
}

// AddV2 adds a V2 vertex to a polygon.
func (b *Bezier) AddV2(x v2.Vec) *BezierVertex {
	v := BezierVertex{}
	v.vertex = x
	v.vtype = endpoint
	b.vlist = append(b.vlist, v)
	return &b.vlist[len(b.vlist)-1]
}

// Add an x,y vertex to a polygon.
func (b *Bezier) Add(x, y float64) *BezierVertex {
	return b.AddV2(v2.Vec{x, y})
}

// Mid marks the vertex as a mid-curve control point.
func (v *BezierVertex) Mid() *BezierVertex {
	v.vtype = midpoint
	return v
}

// HandleFwd sets the slope handle in the forward direction.
func (v *BezierVertex) HandleFwd(theta, r float64) *BezierVertex {
	if v.vtype == midpoint {
		log.Panicf("can't place a handle on a curve midpoint")
	}
	v.handleFwd = v2.Vec{math.Abs(r), theta}
	return v
}

// HandleRev sets the slope handle in the reverse direction.
func (v *BezierVertex) HandleRev(theta, r float64) *BezierVertex {
	if v.vtype == midpoint {
		log.Panicf("can't place a handle on a curve midpoint")
	}
	v.handleRev = v2.Vec{math.Abs(r), theta}
	return v
}

// Handle marks the vertex with a slope control handle.
func (v *BezierVertex) Handle(theta, fwd, rev float64) *BezierVertex {
	v.HandleFwd(theta, fwd)
	v.HandleRev(theta+Pi, rev)
	return v
}

// Polygon returns a polygon approximating the bezier curve.
func (b *Bezier) Polygon() (*Polygon, error) {
	err := b.fixups()
	if err != nil {
		return nil, err
	}
	// generate the splines from the vertices
	var splines []*BezierSpline
	var vertices []v2.Vec
	n := len(b.vlist)
	state := endpoint
	i := 0
	for i < n {
		v := b.vlist[i]
		if state == endpoint {
			if v.vtype == endpoint {
				// start of spline
				vertices = []v2.Vec{v.vertex}
				// get the midpoints
				i++
				state = midpoint
			} else {
				return nil, errors.New("bad vertex type")
			}
		} else if state == midpoint {
			if v.vtype == endpoint {
				// end of spline
				vertices = append(vertices, v.vertex)
				splines = append(splines, NewBezierSpline(vertices))
				// this endpoint is the start of the next spline, don't advance
				state = endpoint
				// check for the last endpoint
				if i == n-1 {
					// end of the list
					break
				}
			} else if v.vtype == midpoint {
				// add a spline midpoint
				vertices = append(vertices, v.vertex)
				i++
			} else {
				return nil, errors.New("bad vertex type")
			}
		} else {
			return nil, errors.New("bad state")
		}
	}
	// render the splines to a polygon
	p := NewPolygon()
	n = len(splines)
	for i, s := range splines {
		if s.px.n == 0 && s.py.n == 0 {
			// This is a point, not a curve. Skip it.
			continue
		}
		// Add the spline vertices
		s.Sample(p, 0, 1, s.f0(0), s.f0(1), 0)
		if i != n-1 {
			// drop the last vertex since it is the first vertex of the next spline
			p.Drop()
		}
	}
	return p, nil
}

// Mesh2D returns the Mesh2D for the bezier curve.
func (b *Bezier) Mesh2D() (SDF2, error) {
	p, err := b.Polygon()
	if err != nil {
		return nil, err
	}
	return p.Mesh2D()
}

//-----------------------------------------------------------------------------
