//-----------------------------------------------------------------------------
/*

2D Signed Distance Functions

*/
//-----------------------------------------------------------------------------

package sdf

import (
	"math"

	"github.com/deadsy/sdfx/vec/conv"
	"github.com/deadsy/sdfx/vec/p2"
	v2 "github.com/deadsy/sdfx/vec/v2"
	"github.com/deadsy/sdfx/vec/v2i"
	v3 "github.com/deadsy/sdfx/vec/v3"
)

//-----------------------------------------------------------------------------

// SDF2 is the interface to a 2d signed distance function object.
type SDF2 interface {
	Evaluate(p v2.Vec) float64
	BoundingBox() Box2
}

//-----------------------------------------------------------------------------
// Basic SDF Functions

func sdfBox2d(p, s v2.Vec) float64 {
	p = p.Abs()
	d := p.Sub(s)
	k := s.Y - s.X
	if d.X > 0 && d.Y > 0 {
		return d.Length()
	}
	if p.Y-p.X > k {
		return d.Y
	}
	return d.X
}

//-----------------------------------------------------------------------------
// 2D Circle

// CircleSDF2 is the 2d signed distance object for a circle.
type CircleSDF2 struct {
	radius float64
	bb     Box2
}

// Circle2D returns the SDF2 for a 2d circle.
func Circle2D(radius float64) (SDF2, error) {
	if radius < 0 {
		return nil, ErrMsg("radius < 0")
	}
	s := CircleSDF2{}
	s.radius = radius
	d := v2.Vec{radius, radius}
	s.bb = Box2{d.Neg(), d}
	return &s, nil
}

// Evaluate returns the minimum distance to a 2d circle.
func (s *CircleSDF2) Evaluate(p v2.Vec) float64 {
	return p.Length() - s.radius
}

// BoundingBox returns the bounding box of a 2d circle.
func (s *CircleSDF2) BoundingBox() Box2 {
	return s.bb
}

//-----------------------------------------------------------------------------
// 2D Box (rounded corners with round > 0)

// BoxSDF2 is the 2d signed distance object for a rectangular box.
type BoxSDF2 struct {
	size  v2.Vec
	round float64
	bb    Box2
}

// Box2D returns a 2d box.
func Box2D(size v2.Vec, round float64) SDF2 {
	size = size.MulScalar(0.5)
	s := BoxSDF2{}
	s.size = size.SubScalar(round)
	s.round = round
	s.bb = Box2{size.Neg(), size}
	return &s
}

// Evaluate returns the minimum distance to a 2d box.
func (s *BoxSDF2) Evaluate(p v2.Vec) float64 {
	return sdfBox2d(p, s.size) - s.round
}

// BoundingBox returns the bounding box for a 2d box.
func (s *BoxSDF2) BoundingBox() Box2 {
	return s.bb
}

//-----------------------------------------------------------------------------
// 2D Line

// LineSDF2 is the 2d signed distance object for a line.
type LineSDF2 struct {
	l     float64 // line length
	round float64 // rounding
	bb    Box2    // bounding box
}

// Line2D returns a line from (-l/2,0) to (l/2,0).
func Line2D(l, round float64) SDF2 {
	s := LineSDF2{}
	s.l = l / 2
	s.round = round
	s.bb = Box2{v2.Vec{-s.l - round, -round}, v2.Vec{s.l + round, round}}
	return &s
}

// Evaluate returns the minimum distance to a 2d line.
func (s *LineSDF2) Evaluate(p v2.Vec) float64 {
	p = p.Abs()
	if p.X <= s.l {
		return p.Y - s.round
	}
	return p.Sub(v2.Vec{s.l, 0}).Length() - s.round
}

// BoundingBox returns the bounding box for a 2d line.
func (s *LineSDF2) BoundingBox() Box2 {
	return s.bb
}

//-----------------------------------------------------------------------------

// OffsetSDF2 offsets the distance function of an existing SDF2.
type OffsetSDF2 struct {
	sdf    SDF2
	offset float64
	bb     Box2
}

// Offset2D returns an SDF2 that offsets the distance function of another SDF2.
func Offset2D(sdf SDF2, offset float64) SDF2 {
	s := OffsetSDF2{}
	s.sdf = sdf
	s.offset = offset
	// work out the bounding box
	bb := sdf.BoundingBox()
	s.bb = NewBox2(bb.Center(), bb.Size().AddScalar(2*offset))
	return &s
}

// Evaluate returns the minimum distance to an offset SDF2.
func (s *OffsetSDF2) Evaluate(p v2.Vec) float64 {
	return s.sdf.Evaluate(p) - s.offset
}

// BoundingBox returns the bounding box of an offset SDF2.
func (s *OffsetSDF2) BoundingBox() Box2 {
	return s.bb
}

//-----------------------------------------------------------------------------

// IntersectionSDF2 is the intersection of two SDF2s.
type IntersectionSDF2 struct {
	s0  SDF2
	s1  SDF2
	max MaxFunc
	bb  Box2
}

// Intersect2D returns the intersection of two SDF2s.
func Intersect2D(s0, s1 SDF2) SDF2 {
	if s0 == nil || s1 == nil {
		return nil
	}
	s := IntersectionSDF2{}
	s.s0 = s0
	s.s1 = s1
	s.max = math.Max
	// TODO fix bounding box
	s.bb = s0.BoundingBox()
	return &s
}

// Evaluate returns the minimum distance to the SDF2 intersection.
func (s *IntersectionSDF2) Evaluate(p v2.Vec) float64 {
	return s.max(s.s0.Evaluate(p), s.s1.Evaluate(p))
}

// SetMax sets the maximum function to control blending.
func (s *IntersectionSDF2) SetMax(max MaxFunc) {
	s.max = max
}

// BoundingBox returns the bounding box of an SDF2 intersection.
func (s *IntersectionSDF2) BoundingBox() Box2 {
	return s.bb
}

//-----------------------------------------------------------------------------
// Cut an SDF2 along a line

// CutSDF2 is an SDF2 made by cutting across an existing SDF2.
type CutSDF2 struct {
	sdf SDF2
	a   v2.Vec // point on line
	n   v2.Vec // normal to line
	bb  Box2   // bounding box
}

// Cut2D cuts the SDF2 along a line from a in direction v.
// The SDF2 to the right of the line remains.
func Cut2D(sdf SDF2, a, v v2.Vec) SDF2 {
	s := CutSDF2{}
	s.sdf = sdf
	s.a = a
	v = v.Normalize()
	s.n = v2.Vec{-v.Y, v.X}
	// TODO - cut the bounding box
	s.bb = sdf.BoundingBox()
	return &s
}

// Evaluate returns the minimum distance to cut SDF2.
func (s *CutSDF2) Evaluate(p v2.Vec) float64 {
	return math.Max(p.Sub(s.a).Dot(s.n), s.sdf.Evaluate(p))
}

// BoundingBox returns the bounding box for the cut SDF2.
func (s *CutSDF2) BoundingBox() Box2 {
	return s.bb
}

//-----------------------------------------------------------------------------
// Transform SDF2 (rotation and translation are distance preserving)

// TransformSDF2 transorms an SDF2 with rotation, translation and scaling.
type TransformSDF2 struct {
	sdf  SDF2
	mInv M33
	bb   Box2
}

// Transform2D applies a transformation matrix to an SDF2.
// Distance is *not* preserved with scaling.
func Transform2D(sdf SDF2, m M33) SDF2 {
	s := TransformSDF2{}
	s.sdf = sdf
	s.mInv = m.Inverse()
	s.bb = m.MulBox(sdf.BoundingBox())
	return &s
}

// Evaluate returns the minimum distance to a transformed SDF2.
// Distance is *not* preserved with scaling.
func (s *TransformSDF2) Evaluate(p v2.Vec) float64 {
	q := s.mInv.MulPosition(p)
	return s.sdf.Evaluate(q)
}

// BoundingBox returns the bounding box of a transformed SDF2.
func (s *TransformSDF2) BoundingBox() Box2 {
	return s.bb
}

//-----------------------------------------------------------------------------
// Uniform XY Scaling of SDF2s (we can work out the distance)

// ScaleUniformSDF2 scales another SDF2 on each axis.
type ScaleUniformSDF2 struct {
	sdf     SDF2
	k, invk float64
	bb      Box2
}

// ScaleUniform2D scales an SDF2 by k on each axis.
// Distance is correct with scaling.
func ScaleUniform2D(sdf SDF2, k float64) SDF2 {
	m := Scale2d(v2.Vec{k, k})
	return &ScaleUniformSDF2{
		sdf:  sdf,
		k:    k,
		invk: 1.0 / k,
		bb:   m.MulBox(sdf.BoundingBox()),
	}
}

// Evaluate returns the minimum distance to an SDF2 with uniform scaling.
func (s *ScaleUniformSDF2) Evaluate(p v2.Vec) float64 {
	q := p.MulScalar(s.invk)
	return s.sdf.Evaluate(q) * s.k
}

// BoundingBox returns the bounding box of an SDF2 with uniform scaling.
func (s *ScaleUniformSDF2) BoundingBox() Box2 {
	return s.bb
}

//-----------------------------------------------------------------------------

// Center2D centers the origin of an SDF2 on it's bounding box.
func Center2D(s SDF2) SDF2 {
	ofs := s.BoundingBox().Center().Neg()
	return Transform2D(s, Translate2d(ofs))
}

// CenterAndScale2D centers the origin of an SDF2 on it's bounding box, and then scales it.
// Distance is correct with scaling.
func CenterAndScale2D(s SDF2, k float64) SDF2 {
	ofs := s.BoundingBox().Center().Neg()
	s = Transform2D(s, Translate2d(ofs))
	return ScaleUniform2D(s, k)
}

//-----------------------------------------------------------------------------
// ArraySDF2: Create an X by Y array of a given SDF2

// ArraySDF2 defines an XY grid array of an existing SDF2.
type ArraySDF2 struct {
	sdf  SDF2
	num  v2i.Vec // grid size
	step v2.Vec  // grid step size
	min  MinFunc
	bb   Box2
}

// Array2D returns an XY grid array of an existing SDF2.
func Array2D(sdf SDF2, num v2i.Vec, step v2.Vec) SDF2 {
	// check the number of steps
	if num.X <= 0 || num.Y <= 0 {
		return nil
	}
	s := ArraySDF2{}
	s.sdf = sdf
	s.num = num
	s.step = step
	s.min = math.Min
	// work out the bounding box
	bb0 := sdf.BoundingBox()
	bb1 := bb0.Translate(step.Mul(conv.V2iToV2(num.SubScalar(1))))
	s.bb = bb0.Extend(bb1)
	return &s
}

// SetMin sets the minimum function to control blending.
func (s *ArraySDF2) SetMin(min MinFunc) {
	s.min = min
}

// Evaluate returns the minimum distance to a grid array of SDF2s.
func (s *ArraySDF2) Evaluate(p v2.Vec) float64 {
	d := math.MaxFloat64
	for j := 0; j < s.num.X; j++ {
		for k := 0; k < s.num.Y; k++ {
			x := p.Sub(v2.Vec{float64(j) * s.step.X, float64(k) * s.step.Y})
			d = s.min(d, s.sdf.Evaluate(x))
		}
	}
	return d
}

// BoundingBox returns the bounding box of a grid array of SDF2s.
func (s *ArraySDF2) BoundingBox() Box2 {
	return s.bb
}

//-----------------------------------------------------------------------------

// RotateUnionSDF2 defines a union of rotated SDF2s.
type RotateUnionSDF2 struct {
	sdf  SDF2
	num  int
	step M33
	min  MinFunc
	bb   Box2
}

// RotateUnion2D returns a union of rotated SDF2s.
func RotateUnion2D(sdf SDF2, num int, step M33) SDF2 {
	// check the number of steps
	if num <= 0 {
		return nil
	}
	s := RotateUnionSDF2{}
	s.sdf = sdf
	s.num = num
	s.step = step.Inverse()
	s.min = math.Min
	// work out the bounding box
	v := sdf.BoundingBox().Vertices()
	bbMin := v[0]
	bbMax := v[0]
	for i := 0; i < s.num; i++ {
		bbMin = bbMin.Min(v.Min())
		bbMax = bbMax.Max(v.Max())
		mulVertices2(v, step)
	}
	s.bb = Box2{bbMin, bbMax}
	return &s
}

// Evaluate returns the minimum distance to a union of rotated SDF2s.
func (s *RotateUnionSDF2) Evaluate(p v2.Vec) float64 {
	d := math.MaxFloat64
	rot := Identity2d()
	for i := 0; i < s.num; i++ {
		x := rot.MulPosition(p)
		d = s.min(d, s.sdf.Evaluate(x))
		rot = rot.Mul(s.step)
	}
	return d
}

// SetMin sets the minimum function to control blending.
func (s *RotateUnionSDF2) SetMin(min MinFunc) {
	s.min = min
}

// BoundingBox returns the bounding box of a union of rotated SDF2s.
func (s *RotateUnionSDF2) BoundingBox() Box2 {
	return s.bb
}

//-----------------------------------------------------------------------------

// RotateCopySDF2 copies an SDF2 n times in a full circle.
type RotateCopySDF2 struct {
	sdf   SDF2
	theta float64
	bb    Box2
}

// RotateCopy2D rotates and copies an SDF2 n times in a full circle.
func RotateCopy2D(sdf SDF2, n int) SDF2 {
	// check the number of steps
	if n <= 0 {
		return nil
	}
	s := RotateCopySDF2{}
	s.sdf = sdf
	s.theta = Tau / float64(n)
	// work out the bounding box
	bb := sdf.BoundingBox()
	rmax := 0.0
	// find the bounding box vertex with the greatest distance from the origin
	for _, v := range bb.Vertices() {
		l := v.Length()
		if l > rmax {
			rmax = l
		}
	}
	s.bb = Box2{v2.Vec{-rmax, -rmax}, v2.Vec{rmax, rmax}}
	return &s
}

// Evaluate returns the minimum distance to a rotate/copy SDF2.
func (s *RotateCopySDF2) Evaluate(p v2.Vec) float64 {
	// Map p to a point in the first copy sector.
	pnew := conv.P2ToV2(p2.Vec{p.Length(), SawTooth(math.Atan2(p.Y, p.X), s.theta)})
	return s.sdf.Evaluate(pnew)
}

// BoundingBox returns the bounding box of a rotate/copy SDF2.
func (s *RotateCopySDF2) BoundingBox() Box2 {
	return s.bb
}

//-----------------------------------------------------------------------------

// SliceSDF2 creates an SDF2 from a planar slice through an SDF3.
type SliceSDF2 struct {
	sdf SDF3   // the sdf3 being sliced
	a   v3.Vec // 3d point for 2d origin
	u   v3.Vec // vector for the 2d x-axis
	v   v3.Vec // vector for the 2d y-axis
	bb  Box2   // bounding box
}

// Slice2D returns an SDF2 created from a planar slice through an SDF3.
func Slice2D(
	sdf SDF3, // SDF3 to be sliced
	a v3.Vec, // point on slicing plane
	n v3.Vec, // normal to slicing plane
) SDF2 {
	s := SliceSDF2{}
	s.sdf = sdf
	s.a = a
	// work out the x/y vectors on the plane.
	if n.X == 0 {
		s.u = v3.Vec{1, 0, 0}
	} else if n.Y == 0 {
		s.u = v3.Vec{0, 1, 0}
	} else if n.Z == 0 {
		s.u = v3.Vec{0, 0, 1}
	} else {
		s.u = v3.Vec{n.Y, -n.X, 0}
	}
	s.v = n.Cross(s.u)
	s.u = s.u.Normalize()
	s.v = s.v.Normalize()
	// work out the bounding box
	// TODO: This is bigger than it needs to be. We could consider intersection
	// between the plane and the edges of the 3d bounding box for a smaller 2d
	// bounding box in some circumstances.
	v3Verts := sdf.BoundingBox().Vertices()
	v2Verts := make(v2.VecSet, len(v3Verts))
	n = n.Normalize()
	for i, v := range v3Verts {
		// project the 3d bounding box vertex onto the plane
		va := v.Sub(s.a)
		pa := va.Sub(n.MulScalar(n.Dot(va)))
		// work out the 3d point in terms of the 2d unit vectors
		v2Verts[i] = v2.Vec{pa.Dot(s.u), pa.Dot(s.v)}
	}
	s.bb = Box2{v2Verts.Min(), v2Verts.Max()}
	return &s
}

// Evaluate returns the minimum distance to the sliced SDF2.
func (s *SliceSDF2) Evaluate(p v2.Vec) float64 {
	pnew := s.a.Add(s.u.MulScalar(p.X)).Add(s.v.MulScalar(p.Y))
	return s.sdf.Evaluate(pnew)
}

// BoundingBox returns the bounding box of the sliced SDF2.
func (s *SliceSDF2) BoundingBox() Box2 {
	return s.bb
}

//-----------------------------------------------------------------------------

// UnionSDF2 is a union of multiple SDF2 objects.
type UnionSDF2 struct {
	sdf []SDF2
	min MinFunc
	bb  Box2
}

// Union2D returns the union of multiple SDF2 objects.
func Union2D(sdf ...SDF2) SDF2 {
	if len(sdf) == 0 {
		return nil
	}
	s := UnionSDF2{}
	// strip out any nils
	s.sdf = make([]SDF2, 0, len(sdf))
	for _, x := range sdf {
		if x != nil {
			s.sdf = append(s.sdf, x)
		}
	}
	if len(s.sdf) == 0 {
		return nil
	}
	if len(s.sdf) == 1 {
		// only one sdf - not really a union
		return s.sdf[0]
	}
	// work out the bounding box
	bb := s.sdf[0].BoundingBox()
	for _, x := range s.sdf {
		bb = bb.Extend(x.BoundingBox())
	}
	s.bb = bb
	s.min = math.Min
	return &s
}

// Evaluate returns the minimum distance to the SDF2 union.
func (s *UnionSDF2) Evaluate(p v2.Vec) float64 {

	// work out the min/max distance for every bounding box
	vs := make([]Interval, len(s.sdf))
	minDist2 := -1.0
	minIndex := 0
	for i := range s.sdf {
		vs[i] = s.sdf[i].BoundingBox().MinMaxDist2(p)
		// as we go record the sdf with the minimum minimum d2 value
		if minDist2 < 0 || vs[i][0] < minDist2 {
			minDist2 = vs[i][0]
			minIndex = i
		}
	}

	var d float64
	first := true
	for i := range s.sdf {
		// only an sdf whose min/max distances overlap
		// the minimum box are worthy of consideration
		if i == minIndex || vs[minIndex].Overlap(vs[i]) {
			x := s.sdf[i].Evaluate(p)
			if first {
				first = false
				d = x
			} else {
				d = s.min(d, x)
			}
		}
	}
	return d
}

// EvaluateSlow returns the minimum distance to the SDF2 union.
func (s *UnionSDF2) EvaluateSlow(p v2.Vec) float64 {
	var d float64
	for i := range s.sdf {
		x := s.sdf[i].Evaluate(p)
		if i == 0 {
			d = x
		} else {
			d = s.min(d, x)
		}
	}
	return d
}

// SetMin sets the minimum function to control SDF2 blending.
func (s *UnionSDF2) SetMin(min MinFunc) {
	s.min = min
}

// BoundingBox returns the bounding box of an SDF2 union.
func (s *UnionSDF2) BoundingBox() Box2 {
	return s.bb
}

//-----------------------------------------------------------------------------

// DifferenceSDF2 is the difference of two SDF2s.
type DifferenceSDF2 struct {
	s0  SDF2
	s1  SDF2
	max MaxFunc
	bb  Box2
}

// Difference2D returns the difference of two SDF2 objects, s0 - s1.
func Difference2D(s0, s1 SDF2) SDF2 {
	if s1 == nil {
		return s0
	}
	if s0 == nil {
		return nil
	}
	s := DifferenceSDF2{}
	s.s0 = s0
	s.s1 = s1
	s.max = math.Max
	s.bb = s0.BoundingBox()
	return &s
}

// Evaluate returns the minimum distance to the difference of two SDF2s.
func (s *DifferenceSDF2) Evaluate(p v2.Vec) float64 {
	return s.max(s.s0.Evaluate(p), -s.s1.Evaluate(p))
}

// SetMax sets the maximum function to control blending.
func (s *DifferenceSDF2) SetMax(max MaxFunc) {
	s.max = max
}

// BoundingBox returns the bounding box of the difference of two SDF2s.
func (s *DifferenceSDF2) BoundingBox() Box2 {
	return s.bb
}

//-----------------------------------------------------------------------------

// ElongateSDF2 is the elongation of an SDF2.
type ElongateSDF2 struct {
	sdf    SDF2   // the sdf being elongated
	hp, hn v2.Vec // positive/negative elongation vector
	bb     Box2   // bounding box
}

// Elongate2D returns the elongation of an SDF2.
func Elongate2D(sdf SDF2, h v2.Vec) SDF2 {
	h = h.Abs()
	s := ElongateSDF2{
		sdf: sdf,
		hp:  h.MulScalar(0.5),
		hn:  h.MulScalar(-0.5),
	}
	// bounding box
	bb := sdf.BoundingBox()
	bb0 := bb.Translate(s.hp)
	bb1 := bb.Translate(s.hn)
	s.bb = bb0.Extend(bb1)
	return &s
}

// Evaluate returns the minimum distance to an elongated SDF2.
func (s *ElongateSDF2) Evaluate(p v2.Vec) float64 {
	q := p.Sub(p.Clamp(s.hn, s.hp))
	return s.sdf.Evaluate(q)
}

// BoundingBox returns the bounding box of an elongated SDF2.
func (s *ElongateSDF2) BoundingBox() Box2 {
	return s.bb
}

//-----------------------------------------------------------------------------

// GenerateMesh2D generates a set of internal mesh points for an SDF2.
func GenerateMesh2D(s SDF2, grid v2i.Vec) (v2.VecSet, error) {

	// create the grid mapping for the bounding box
	m, err := NewMap2(s.BoundingBox(), grid, false)
	if err != nil {
		return nil, err
	}

	// create the vertex set storage
	vset := make(v2.VecSet, 0, grid.X*grid.Y)

	// iterate across the grid and add the vertices if they are inside the SDF2
	for i := 0; i < grid.X; i++ {
		for j := 0; j < grid.Y; j++ {
			v := m.ToV2(v2i.Vec{i, j})
			if s.Evaluate(v) <= 0 {
				vset = append(vset, v)
			}
		}
	}

	return vset, nil
}

//-----------------------------------------------------------------------------

// LineOf2D returns a union of 2D objects positioned along a line from p0 to p1.
func LineOf2D(s SDF2, p0, p1 v2.Vec, pattern string) SDF2 {
	var objects []SDF2
	if pattern != "" {
		x := p0
		dx := p1.Sub(p0).DivScalar(float64(len(pattern)))
		for _, c := range pattern {
			if c == 'x' {
				objects = append(objects, Transform2D(s, Translate2d(x)))
			}
			x = x.Add(dx)
		}
	}
	return Union2D(objects...)
}

//-----------------------------------------------------------------------------

// Multi2D creates a union of an SDF2 at a set of 2D positions.
func Multi2D(s SDF2, positions v2.VecSet) SDF2 {
	if (s == nil) || (len(positions) == 0) {
		return nil
	}
	objects := make([]SDF2, len(positions))
	for i, p := range positions {
		objects[i] = Transform2D(s, Translate2d(p))
	}
	return Union2D(objects...)
}

//-----------------------------------------------------------------------------
