//-----------------------------------------------------------------------------
/*

3D Boxes

*/
//-----------------------------------------------------------------------------

package sdf

import (
	"math"

	v3 "github.com/deadsy/sdfx/vec/v3"
)

//-----------------------------------------------------------------------------

// Box3 is a 3d bounding box.
type Box3 struct {
	Min, Max v3.Vec
}

// NewBox3 creates a 3d box with a given center and size.
func NewBox3(center, size v3.Vec) Box3 {
	half := size.MulScalar(0.5)
	return Box3{center.Sub(half), center.Add(half)}
}

// Extend returns a box enclosing two 3d boxes.
func (a Box3) Extend(b Box3) Box3 {
	return Box3{a.Min.Min(b.Min), a.Max.Max(b.Max)}
}

// Include enlarges a 3d box to include a point.
func (a Box3) Include(v v3.Vec) Box3 {
	return Box3{a.Min.Min(v), a.Max.Max(v)}
}

// Translate translates a 3d box.
func (a Box3) Translate(v v3.Vec) Box3 {
	return Box3{a.Min.Add(v), a.Max.Add(v)}
}

// Size returns the size of a 3d box.
func (a Box3) Size() v3.Vec {
	return a.Max.Sub(a.Min)
}

// Center returns the center of a 3d box.
func (a Box3) Center() v3.Vec {
	return a.Min.Add(a.Size().MulScalar(0.5))
}

// ScaleAboutCenter returns a new 3d box scaled about the center of a box.
func (a Box3) ScaleAboutCenter(k float64) Box3 {
	return NewBox3(a.Center(), a.Size().MulScalar(k))
}

// Enlarge returns a new 3d box enlarged by a size vector.
func (a Box3) Enlarge(v v3.Vec) Box3 {
	v = v.MulScalar(0.5)
	return Box3{a.Min.Sub(v), a.Max.Add(v)}
}

// Cube returns a cubical box larger than the original box.
func (a Box3) Cube() Box3 {
	side := a.Size().MaxComponent()
	return Box3{a.Min, a.Min.Add(v3.Vec{side, side, side})}
}

// Contains checks if the 3d box contains the point.
func (a Box3) Contains(v v3.Vec) bool {
	return a.Min.X <= v.X &&
		a.Min.Y <= v.Y &&
		a.Min.Z <= v.Z &&
		v.X <= a.Max.X &&
		v.Y <= a.Max.Y &&
		v.Z <= a.Max.Z
}

// Vertices returns a slice of 3d box corner vertices.
func (a Box3) Vertices() v3.VecSet {
	return []v3.Vec{
		a.Min,
		{a.Min.X, a.Min.Y, a.Max.Z},
		{a.Min.X, a.Max.Y, a.Min.Z},
		{a.Min.X, a.Max.Y, a.Max.Z},
		{a.Max.X, a.Min.Y, a.Min.Z},
		{a.Max.X, a.Min.Y, a.Max.Z},
		{a.Max.X, a.Max.Y, a.Min.Z},
		a.Max,
	}
}

// Snap a point to the box edges
func (a *Box3) Snap(p v3.Vec, epsilon float64) v3.Vec {
	p.X = SnapFloat64(p.X, a.Min.X, epsilon)
	p.X = SnapFloat64(p.X, a.Max.X, epsilon)
	p.Y = SnapFloat64(p.Y, a.Min.Y, epsilon)
	p.Y = SnapFloat64(p.Y, a.Max.Y, epsilon)
	p.Z = SnapFloat64(p.Z, a.Min.Z, epsilon)
	p.Z = SnapFloat64(p.Z, a.Max.Z, epsilon)
	return p
}

// Equals test the equality of 3d boxes.
func (a Box3) Equals(b Box3, delta float64) bool {
	return a.Min.Equals(b.Min, delta) && a.Max.Equals(b.Max, delta)
}

//-----------------------------------------------------------------------------
// Box Sub-Octants

func (a Box3) oct0() Box3 {
	delta := a.Size().MulScalar(0.5)
	ll := a.Min
	return Box3{ll, ll.Add(delta)}
}

func (a Box3) oct1() Box3 {
	delta := a.Size().MulScalar(0.5)
	ll := v3.Vec{a.Min.X + delta.X, a.Min.Y, a.Min.Z}
	return Box3{ll, ll.Add(delta)}
}

func (a Box3) oct2() Box3 {
	delta := a.Size().MulScalar(0.5)
	ll := v3.Vec{a.Min.X, a.Min.Y + delta.Y, a.Min.Z}
	return Box3{ll, ll.Add(delta)}
}

func (a Box3) oct3() Box3 {
	delta := a.Size().MulScalar(0.5)
	ll := v3.Vec{a.Min.X + delta.X, a.Min.Y + delta.Y, a.Min.Z}
	return Box3{ll, ll.Add(delta)}
}

func (a Box3) oct4() Box3 {
	delta := a.Size().MulScalar(0.5)
	ll := v3.Vec{a.Min.X, a.Min.Y, a.Min.Z + delta.Z}
	return Box3{ll, ll.Add(delta)}
}

func (a Box3) oct5() Box3 {
	delta := a.Size().MulScalar(0.5)
	ll := v3.Vec{a.Min.X + delta.X, a.Min.Y, a.Min.Z + delta.Z}
	return Box3{ll, ll.Add(delta)}
}

func (a Box3) oct6() Box3 {
	delta := a.Size().MulScalar(0.5)
	ll := v3.Vec{a.Min.X, a.Min.Y + delta.Y, a.Min.Z + delta.Z}
	return Box3{ll, ll.Add(delta)}
}

func (a Box3) oct7() Box3 {
	delta := a.Size().MulScalar(0.5)
	ll := a.Min.Add(delta)
	return Box3{ll, ll.Add(delta)}
}

//-----------------------------------------------------------------------------
// Minimum/Maximum distances from a point to a box

// MinMaxDist2 returns the minimum and maximum dist * dist from a point to a box.
// Points within the box have minimum distance = 0.
func (a Box3) MinMaxDist2(p v3.Vec) Interval {
	maxDist2 := 0.0
	minDist2 := 0.0

	// translate the box so p is at the origin
	a = a.Translate(p.Neg())

	// consider the vertices
	vs := a.Vertices()
	for i := range vs {
		d2 := vs[i].Length2()
		if i == 0 {
			minDist2 = d2
		} else {
			minDist2 = math.Min(minDist2, d2)
		}
		maxDist2 = math.Max(maxDist2, d2)
	}

	// consider the faces (for the minimum)
	withinX := a.Min.X < 0 && a.Max.X > 0
	withinY := a.Min.Y < 0 && a.Max.Y > 0
	withinZ := a.Min.Z < 0 && a.Max.Z > 0

	if withinX && withinY && withinZ {
		minDist2 = 0
	} else {
		if withinX && withinY {
			d := math.Min(math.Abs(a.Max.Z), math.Abs(a.Min.Z))
			minDist2 = math.Min(minDist2, d*d)
		}
		if withinX && withinZ {
			d := math.Min(math.Abs(a.Max.Y), math.Abs(a.Min.Y))
			minDist2 = math.Min(minDist2, d*d)
		}
		if withinY && withinZ {
			d := math.Min(math.Abs(a.Max.X), math.Abs(a.Min.X))
			minDist2 = math.Min(minDist2, d*d)
		}
		// consider the edges (for the minimum)
		dx := math.Min(math.Abs(a.Max.X), math.Abs(a.Min.X))
		dy := math.Min(math.Abs(a.Max.Y), math.Abs(a.Min.Y))
		dz := math.Min(math.Abs(a.Max.Z), math.Abs(a.Min.Z))
		if withinX {
			minDist2 = math.Min(minDist2, dy*dy+dz*dz)
		}
		if withinY {
			minDist2 = math.Min(minDist2, dx*dx+dz*dz)
		}
		if withinZ {
			minDist2 = math.Min(minDist2, dx*dx+dy*dy)
		}
	}

	return Interval{minDist2, maxDist2}
}

//-----------------------------------------------------------------------------

// Random returns a random point within 3d box.
func (a *Box3) Random() v3.Vec {
	return v3.Vec{
		randomRange(a.Min.X, a.Max.X),
		randomRange(a.Min.Y, a.Max.Y),
		randomRange(a.Min.Z, a.Max.Z),
	}
}

// RandomTriangle returns a random triangle that lies within the box
func (a *Box3) RandomTriangle() Triangle3 {
	return Triangle3{
		a.Random(),
		a.Random(),
		a.Random(),
	}
}

// RandomSet returns a set of random points from within a 3d box.
func (a *Box3) RandomSet(n int) v3.VecSet {
	s := make([]v3.Vec, n)
	for i := range s {
		s[i] = a.Random()
	}
	return s
}

//-----------------------------------------------------------------------------
