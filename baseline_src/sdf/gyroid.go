//-----------------------------------------------------------------------------
/*

Gyroids

https://en.wikipedia.org/wiki/Gyroid

*/
//-----------------------------------------------------------------------------

package sdf

import v3 "github.com/deadsy/sdfx/vec/v3"

//-----------------------------------------------------------------------------

// GyroidSDF3 is a 3d gyroid.
type GyroidSDF3 struct {
	k v3.Vec // scaling factor
}

// Gyroid3D returns a 3d gyroid.
func Gyroid3D(scale v3.Vec) (SDF3, error) {
	return &GyroidSDF3{
		k: v3.Vec{Tau / scale.X, Tau / scale.Y, Tau / scale.Z},
	}, nil
}

// Evaluate returns the minimum distance to a 3d gyroid.
func (s *GyroidSDF3) Evaluate(p v3.Vec) float64 {
	p = p.Mul(s.k)
	return p.Sin().Dot(v3.Vec{p.Y, p.Z, p.X}.Cos())
}

// BoundingBox returns the bounding box for a 3d gyroid.
func (s *GyroidSDF3) BoundingBox() Box3 {
	// The surface is defined for all xyz, so the bounding box is a point at the origin.
	// To use the surface it needs to be intersected an external bounding volume.
	return Box3{}
}

//-----------------------------------------------------------------------------
