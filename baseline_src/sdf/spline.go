//-----------------------------------------------------------------------------
/*

Interpolate using Cubic Splines

x(t) = a + bt + ct^2 + dt^3 for t in [0,1]
y(t) = a + bt + ct^2 + dt^3 for t in [0,1]

1st and 2nd derivatives are continuous across intervals.
2nd derivatives == 0 at the endpoints (natural splines).
See: http://mathworld.wolfram.com/CubicSpline.html

*/
//-----------------------------------------------------------------------------

package sdf

import (
	"errors"
	"fmt"
	"math"

	v2 "github.com/deadsy/sdfx/vec/v2"
	v3 "github.com/deadsy/sdfx/vec/v3"
)

//-----------------------------------------------------------------------------

// triDiagonal solves the tridiagonal matrix equation m.x = d, returns x.
// See: https://en.wikipedia.org/wiki/Tridiagonal_matrix_algorithm
func triDiagonal(m []v3.Vec, d []float64) ([]float64, error) {
	// Sanity checks
	n := len(m)
	if len(d) != n {
		return nil, errors.New("bad sizes rows(m) != rows(d)")
	}
	if m[0].X != 0 || m[n-1].Z != 0 {
		return nil, errors.New("bad values for tridiagonal matrix")
	}
	if m[0].Y == 0 {
		return nil, errors.New("m[0].Y == 0")
	}
	cp := make([]float64, n) // c-prime
	x := make([]float64, n)  // d-prime -> x solution
	// elimination
	cp[0] = m[0].Z / m[0].Y
	x[0] = d[0] / m[0].Y
	for i := 1; i < n; i++ {
		denom := m[i].Y - m[i].X*cp[i-1]
		if denom == 0 {
			return nil, errors.New("denom == 0")
		}
		cp[i] = m[i].Z / denom
		x[i] = (d[i] - m[i].X*x[i-1]) / denom
	}
	// back substitution
	for i := n - 2; i >= 0; i-- {
		x[i] -= cp[i] * x[i+1]
	}
	return x, nil
}

//-----------------------------------------------------------------------------

// CubicPolynomial is a cubic polynomial
type CubicPolynomial struct {
	a, b, c, d float64 // polynomial coefficients
}

// Return the function value for a given t value.
func (p *CubicPolynomial) f0(t float64) float64 {
	return p.a + t*(p.b+t*(p.c+p.d*t))
}

// Return the first derivative for a given t value.
func (p *CubicPolynomial) f1(t float64) float64 {
	return p.b + t*(2*p.c+3*p.d*t)
}

// Return the second derivative for a given t value.
func (p *CubicPolynomial) f2(t float64) float64 {
	return 2*p.c + 6*p.d*t
}

// Set cubic polynomial coefficient values.
func (p *CubicPolynomial) Set(y0, y1, D0, D1 float64) {
	p.a = y0
	p.b = D0
	p.c = 3*(y1-y0) - 2*D0 - D1
	p.d = 2*(y0-y1) + D0 + D1
	// Zero out any coefficients that are small relative to the others.
	sum := math.Abs(p.a) + math.Abs(p.b) + math.Abs(p.c) + math.Abs(p.d)
	p.a = ZeroSmall(p.a, sum, epsilon)
	p.b = ZeroSmall(p.b, sum, epsilon)
	p.c = ZeroSmall(p.c, sum, epsilon)
	p.d = ZeroSmall(p.d, sum, epsilon)
}

// Return the t values for f1 == 0 (local minima/maxima)
func (p *CubicPolynomial) f1Zeroes() []float64 {
	t, _ := quadratic(3*p.d, 2*p.c, p.b)
	return t
}

//-----------------------------------------------------------------------------

// CubicSpline is a 2d cubic spline.
type CubicSpline struct {
	idx    int             // index within spline set
	p0, p1 v2.Vec          // end points of cubic spline
	px, py CubicPolynomial // cubic polynomial
}

// Return the function value for a given t value.
func (s *CubicSpline) f0(t float64) v2.Vec {
	return v2.Vec{s.px.f0(t), s.py.f0(t)}
}

// Return the first derivative for a given t value.
func (s *CubicSpline) f1(t float64) v2.Vec {
	return v2.Vec{s.px.f1(t), s.py.f1(t)}
}

// Return the second derivative for a given t value.
func (s *CubicSpline) f2(t float64) v2.Vec {
	return v2.Vec{s.px.f2(t), s.py.f2(t)}
}

// BoundingBox returns the bounding box for a cubic spline.
func (s *CubicSpline) BoundingBox() Box2 {
	p := v2.VecSet{s.p0, s.p1}
	// x minima/maxima
	for _, t := range s.px.f1Zeroes() {
		p = append(p, s.f0(Clamp(t, 0, 1)))
	}
	// y minima/maxima
	for _, t := range s.py.f1Zeroes() {
		p = append(p, s.f0(Clamp(t, 0, 1)))
	}
	return Box2{p.Min(), p.Max()}
}

const nrTolerance = 0.0001
const nrMaxIters = 10

// nrIterate is Newton-Raphson Iteration for minimum spline distance.
func (s *CubicSpline) nrIterate(t float64, p v2.Vec) float64 {
	// We are minimising the distance squared function.
	// We are looking for the zeroes of the first derivative of this function.
	// dx = x0 - p.X
	// dy = y0 - p.Y
	// d0 = dx*dx + dy*dy // distance * distance
	// d1 = 2*(dx*x1 + dy*y1)
	// d2 = 2*(dx*x2 + x1*x1 + dy*y2 + y1*y1)
	// tnew = t - d1 / d2
	f0 := s.f0(t)
	f1 := s.f1(t)
	f2 := s.f2(t)
	dx := f0.X - p.X
	dy := f0.Y - p.Y
	return t - (dx*f1.X+dy*f1.Y)/(dx*f2.X+f1.X*f1.X+dy*f2.Y+f1.Y*f1.Y)
}

//-----------------------------------------------------------------------------

// CubicSplineSDF2 is an SDF2 made from a set of cubic splines.
type CubicSplineSDF2 struct {
	spline   []CubicSpline // cubic splines
	maxiters int           // max newton-raphson iterations
	bb       Box2          // bounding box
}

// find an individual spline and t value within the set of cubic splines making up the SDF2.
func (s *CubicSplineSDF2) find(t float64) (*CubicSpline, float64) {
	n := len(s.spline)
	t = Clamp(t, 0, float64(n))
	i := int(t)
	t -= float64(i)
	// correct for the last spline
	if i == n {
		i--
		t = 1
	}
	return &s.spline[i], t
}

// f0 returns the function value for a given t value.
func (s *CubicSplineSDF2) f0(t float64) v2.Vec {
	cs, t := s.find(t)
	return cs.f0(t)
}

// f1 returns the first derivative for a given t value.
func (s *CubicSplineSDF2) f1(t float64) v2.Vec {
	cs, t := s.find(t)
	return cs.f1(t)
}

// f2 returns the second derivative for a given t value.
func (s *CubicSplineSDF2) f2(t float64) v2.Vec {
	cs, t := s.find(t)
	return cs.f2(t)
}

// d0 returns the distance squared between a point and a point on the splines curve.
func (s *CubicSplineSDF2) d0(t float64, p v2.Vec) float64 {
	f0 := s.f0(t)
	dx := f0.X - p.X
	dy := f0.Y - p.Y
	return dx*dx + dy*dy
}

func (s *CubicSplineSDF2) d1(t float64, p v2.Vec) float64 {
	f0 := s.f0(t)
	f1 := s.f1(t)
	dx := f0.X - p.X
	dy := f0.Y - p.Y
	return 2 * (dx*f1.X + dy*f1.Y)
}

func (s *CubicSplineSDF2) d2(t float64, p v2.Vec) float64 {
	f0 := s.f0(t)
	f1 := s.f1(t)
	f2 := s.f2(t)
	dx := f0.X - p.X
	dy := f0.Y - p.Y
	return 2 * (dx*f2.X + f1.X*f1.X + dy*f2.Y + f1.Y*f1.Y)
}

// CubicSpline2D returns an SDF2 made from a set of cubic splines.
func CubicSpline2D(knot []v2.Vec) (SDF2, error) {
	if len(knot) < 2 {
		return nil, errors.New("cubic splines need at least 2 knots")
	}
	s := CubicSplineSDF2{}
	s.maxiters = nrMaxIters

	// Build and solve the tridiagonal matrices
	n := len(knot)
	m := make([]v3.Vec, n)
	dx := make([]float64, n)
	dy := make([]float64, n)
	for i := 1; i < n-1; i++ {
		m[i] = v3.Vec{1, 4, 1}
		dx[i] = 3 * (knot[i+1].X - knot[i-1].X)
		dy[i] = 3 * (knot[i+1].Y - knot[i-1].Y)
	}
	// Special case the end splines.
	// Assume the 2nd derivative at the end points is 0.
	m[0] = v3.Vec{0, 2, 1}
	dx[0] = 3 * (knot[1].X - knot[0].X)
	dy[0] = 3 * (knot[1].Y - knot[0].Y)
	m[n-1] = v3.Vec{1, 2, 0}
	dx[n-1] = 3 * (knot[n-1].X - knot[n-2].X)
	dy[n-1] = 3 * (knot[n-1].Y - knot[n-2].Y)
	// solve to give the first derivatives at the knot points
	xx, err := triDiagonal(m, dx)
	if err != nil {
		return nil, err
	}
	xy, err := triDiagonal(m, dy)
	if err != nil {
		return nil, err
	}

	// The solution data are the first derivatives.
	// Reformat as the cubic polynomial coefficients.
	s.spline = make([]CubicSpline, n-1)
	for i := 0; i < n-1; i++ {
		s.spline[i].idx = i
		s.spline[i].p0 = knot[i]
		s.spline[i].p1 = knot[i+1]
		s.spline[i].px.Set(knot[i].X, knot[i+1].X, xx[i], xx[i+1])
		s.spline[i].py.Set(knot[i].Y, knot[i+1].Y, xy[i], xy[i+1])
	}

	// work out the bounding box
	s.bb = s.spline[0].BoundingBox()
	for i := 1; i < n-1; i++ {
		s.bb = s.bb.Extend(s.spline[i].BoundingBox())
	}
	return &s, nil
}

// Evaluate returns the minimum distance from a point to the cubic spline SDF2.
// Note: This uses Newton-Raphson minimisation and is unstable in some circumstances.
// A simple (and slower) solution is to convert the cubic spline SDF2 to a polygon
// SDF2 and use that for rendering.
func (s *CubicSplineSDF2) Evaluate(p v2.Vec) float64 {

	// initial estimate
	n := 9 // len(s.spline)
	cs, t := s.find(float64(n) / 2)

	var i int
	for i = 0; i < s.maxiters; i++ {

		tOld := t
		t = cs.nrIterate(t, p)
		fmt.Printf("%d tOld %f t %f\n", cs.idx, tOld, t)

		if t < 0 {
			// previous spline
			if cs.idx == 0 {
				// no previous splines
				t = 0
				break
			}
			// find the previous spline
			cs, t = s.find(float64(cs.idx) + t)
		} else if t > 1 {
			// next spline
			if cs.idx == n-1 {
				// on the last spline
				t = 1
				break
			}
			// find the next spline
			cs, t = s.find(float64(cs.idx) + t)
		} else {
			// on the same spline
			if math.Abs(t-tOld) < nrTolerance*math.Abs(t) {
				// The t estimate is within tolerance
				break
			}
		}
	}
	t += float64(cs.idx)
	dmin := math.Sqrt(s.d0(t, p))

	//if i == s.maxiters {
	//	// deliberately cause rendering problems
	//	dmin = 0
	//}

	//fmt.Printf("p %v f0 %v t %f\n", p, s.f0(t), t)

	return dmin
}

// BoundingBox returns the 2d bounding box of a cubic spline.
func (s *CubicSplineSDF2) BoundingBox() Box2 {
	return s.bb
}

//-----------------------------------------------------------------------------

// Polygonize returns a polygon approximating the cubic spline SDF2.
func (s *CubicSplineSDF2) Polygonize(n int) *Polygon {
	p := NewPolygon()
	dt := float64(len(s.spline)) / float64(n-1)
	t := 0.0
	for i := 0; i < n; i++ {
		p.AddV2(s.f0(t))
		t += dt
	}
	return p
}

// PolySpline2D returns a polygon SDF2 approximating a cubic spline SDF2.
func (s *CubicSplineSDF2) PolySpline2D(n int) (SDF2, error) {
	p := s.Polygonize(n)
	return Polygon2D(p.Vertices())
}

//-----------------------------------------------------------------------------
