//-----------------------------------------------------------------------------
/*

Screws

Screws are made by taking a 2D thread profile, rotating it about the z-axis and
spiralling it upwards as we move along z.

The 2D thread profiles are a polygon of a single thread centered on the y-axis with
the x-axis as the screw axis. Most thread profiles are symmetric about the y-axis
but a few aren't (E.g. buttress threads) so in general we build the profile of
an entire pitch period.

This code doesn't deal with thread tolerancing. If you want threads to fit properly
the radius of the thread will need to be tweaked (+/-) to give internal/external thread
clearance.

*/
//-----------------------------------------------------------------------------

package sdf

import (
	"fmt"
	"log"
	"math"

	v2 "github.com/deadsy/sdfx/vec/v2"
	v3 "github.com/deadsy/sdfx/vec/v3"
)

//-----------------------------------------------------------------------------
// Thread Database - lookup standard screw threads by name

// ThreadParameters stores the values that define a thread.
type ThreadParameters struct {
	Name         string  // name of screw thread
	Radius       float64 // nominal major radius of screw
	Pitch        float64 // thread to thread distance of screw
	Taper        float64 // thread taper (radians)
	HexFlat2Flat float64 // hex head flat to flat distance
	Units        string  // "inch" or "mm"
}

// ToMillimetre converts thread parameters from inch to millimetre.
func (t *ThreadParameters) ToMillimetre() *ThreadParameters {
	if t.Units == "mm" {
		return t
	}
	return &ThreadParameters{
		Name:         t.Name,
		Radius:       t.Radius * MillimetresPerInch,
		Pitch:        t.Pitch * MillimetresPerInch,
		Taper:        t.Taper,
		HexFlat2Flat: t.HexFlat2Flat * MillimetresPerInch,
		Units:        "mm",
	}
}

type threadDatabase map[string]*ThreadParameters

var threadDB = initThreadLookup()

// UTSAdd adds a Unified Thread Standard to the thread database.
func (m threadDatabase) UTSAdd(
	name string, // thread name
	diameter float64, // screw major diameter
	tpi float64, // threads per inch
	ftof float64, // hex head flat to flat distance
) {
	if ftof <= 0 {
		log.Panicf("bad flat to flat distance for thread \"%s\"", name)
	}
	t := ThreadParameters{}
	t.Name = name
	t.Radius = 0.5 * diameter
	t.Pitch = 1.0 / tpi
	t.HexFlat2Flat = ftof
	t.Units = "inch"
	m[name] = &t
}

// ISOAdd adds an ISO Thread Standard to the thread database.
func (m threadDatabase) ISOAdd(
	name string, // thread name
	diameter float64, // screw major diamater
	pitch float64, // thread pitch
	ftof float64, // hex head flat to flat distance
) {
	if ftof <= 0 {
		log.Panicf("bad flat to flat distance for thread \"%s\"", name)
	}
	t := ThreadParameters{}
	t.Name = name
	t.Radius = 0.5 * diameter
	t.Pitch = pitch
	t.HexFlat2Flat = ftof
	t.Units = "mm"
	m[name] = &t
}

// NPTAdd adds an National Pipe Thread to the thread database.
func (m threadDatabase) NPTAdd(
	name string, // thread name
	diameter float64, // screw major diameter
	tpi float64, // threads per inch
	ftof float64, // hex head flat to flat distance
) {
	if ftof <= 0 {
		log.Panicf("bad flat to flat distance for thread \"%s\"", name)
	}
	t := ThreadParameters{}
	t.Name = name
	t.Radius = 0.5 * diameter
	t.Pitch = 1.0 / tpi
	t.Taper = math.Atan(1.0 / 32.0)
	t.HexFlat2Flat = ftof
	t.Units = "inch"
	m[name] = &t
}

// initThreadLookup adds a collection of standard threads to the thread database.
func initThreadLookup() threadDatabase {
	m := make(threadDatabase)
	// UTS Coarse
	m.UTSAdd("unc_4_40", 0.112, 40, 0.183) // ftof?
	m.UTSAdd("unc_6_32", 0.138, 32, 0.226) // ftof?
	m.UTSAdd("unc_8_32", 0.164, 32, 0.27)  // ftof?
	m.UTSAdd("unc_10_24", 0.19, 24, 0.312) // ftof?
	m.UTSAdd("unc_1/4", 1.0/4.0, 20, 7.0/16.0)
	m.UTSAdd("unc_5/16", 5.0/16.0, 18, 1.0/2.0)
	m.UTSAdd("unc_3/8", 3.0/8.0, 16, 9.0/16.0)
	m.UTSAdd("unc_7/16", 7.0/16.0, 14, 5.0/8.0)
	m.UTSAdd("unc_1/2", 1.0/2.0, 13, 3.0/4.0)
	m.UTSAdd("unc_9/16", 9.0/16.0, 12, 13.0/16.0)
	m.UTSAdd("unc_5/8", 5.0/8.0, 11, 15.0/16.0)
	m.UTSAdd("unc_3/4", 3.0/4.0, 10, 9.0/8.0)
	m.UTSAdd("unc_7/8", 7.0/8.0, 9, 21.0/16.0)
	m.UTSAdd("unc_1", 1.0, 8, 3.0/2.0)

	// UTS Fine
	m.UTSAdd("unf_4_48", 0.112, 48, 0.183) // ftof?
	m.UTSAdd("unf_6_40", 0.138, 40, 0.226) // ftof?
	m.UTSAdd("unf_8_36", 0.164, 36, 0.27)  // ftof?
	m.UTSAdd("unf_10_32", 0.19, 32, 0.312) // ftof?
	m.UTSAdd("unf_1/4", 1.0/4.0, 28, 7.0/16.0)
	m.UTSAdd("unf_5/16", 5.0/16.0, 24, 1.0/2.0)
	m.UTSAdd("unf_3/8", 3.0/8.0, 24, 9.0/16.0)
	m.UTSAdd("unf_7/16", 7.0/16.0, 20, 5.0/8.0)
	m.UTSAdd("unf_1/2", 1.0/2.0, 20, 3.0/4.0)
	m.UTSAdd("unf_9/16", 9.0/16.0, 18, 13.0/16.0)
	m.UTSAdd("unf_5/8", 5.0/8.0, 18, 15.0/16.0)
	m.UTSAdd("unf_3/4", 3.0/4.0, 16, 9.0/8.0)
	m.UTSAdd("unf_7/8", 7.0/8.0, 14, 21.0/16.0)
	m.UTSAdd("unf_1", 1.0, 12, 3.0/2.0)

	// National Pipe Thread. Face to face distance taken from ASME B16.11 Plug Manufacturer (mm)
	m.NPTAdd("npt_1/8", 0.405, 27, 11.2*InchesPerMillimetre)
	m.NPTAdd("npt_1/4", 0.540, 18, 15.7*InchesPerMillimetre)
	m.NPTAdd("npt_3/8", 0.675, 18, 17.5*InchesPerMillimetre)
	m.NPTAdd("npt_1/2", 0.840, 14, 22.4*InchesPerMillimetre)
	m.NPTAdd("npt_3/4", 1.050, 14, 26.9*InchesPerMillimetre)
	m.NPTAdd("npt_1", 1.315, 11.5, 35.1*InchesPerMillimetre)
	m.NPTAdd("npt_1_1/4", 1.660, 11.5, 44.5*InchesPerMillimetre)
	m.NPTAdd("npt_1_1/2", 1.900, 11.5, 50.8*InchesPerMillimetre)
	m.NPTAdd("npt_2", 2.375, 11.5, 63.5*InchesPerMillimetre)
	m.NPTAdd("npt_2_1/2", 2.875, 8, 76.2*InchesPerMillimetre)
	m.NPTAdd("npt_3", 3.500, 8, 88.9*InchesPerMillimetre)
	m.NPTAdd("npt_4", 4.500, 8, 117.3*InchesPerMillimetre)

	// ISO Coarse
	m.ISOAdd("M1x0.25", 1, 0.25, 1.75)    // ftof?
	m.ISOAdd("M1.2x0.25", 1.2, 0.25, 2.0) // ftof?
	m.ISOAdd("M1.6x0.35", 1.6, 0.35, 3.2)
	m.ISOAdd("M2x0.4", 2, 0.4, 4)
	m.ISOAdd("M2.5x0.45", 2.5, 0.45, 5)
	m.ISOAdd("M3x0.5", 3, 0.5, 6)
	m.ISOAdd("M4x0.7", 4, 0.7, 7)
	m.ISOAdd("M5x0.8", 5, 0.8, 8)
	m.ISOAdd("M6x1", 6, 1, 10)
	m.ISOAdd("M8x1.25", 8, 1.25, 13)
	m.ISOAdd("M10x1.5", 10, 1.5, 17)
	m.ISOAdd("M12x1.75", 12, 1.75, 19)
	m.ISOAdd("M16x2", 16, 2, 24)
	m.ISOAdd("M20x2.5", 20, 2.5, 30)
	m.ISOAdd("M24x3", 24, 3, 36)
	m.ISOAdd("M30x3.5", 30, 3.5, 46)
	m.ISOAdd("M36x4", 36, 4, 55)
	m.ISOAdd("M42x4.5", 42, 4.5, 65)
	m.ISOAdd("M48x5", 48, 5, 75)
	m.ISOAdd("M56x5.5", 56, 5.5, 85)
	m.ISOAdd("M64x6", 64, 6, 95)

	// ISO Fine
	m.ISOAdd("M1x0.2", 1, 0.2, 1.75)    // ftof?
	m.ISOAdd("M1.2x0.2", 1.2, 0.2, 2.0) // ftof?
	m.ISOAdd("M1.6x0.2", 1.6, 0.2, 3.2)
	m.ISOAdd("M2x0.25", 2, 0.25, 4)
	m.ISOAdd("M2.5x0.35", 2.5, 0.35, 5)
	m.ISOAdd("M3x0.35", 3, 0.35, 6)
	m.ISOAdd("M4x0.5", 4, 0.5, 7)
	m.ISOAdd("M5x0.5", 5, 0.5, 8)
	m.ISOAdd("M6x0.75", 6, 0.75, 10)
	m.ISOAdd("M8x1", 8, 1, 13)
	m.ISOAdd("M10x1.25", 10, 1.25, 17)
	m.ISOAdd("M12x1.5", 12, 1.5, 19)
	m.ISOAdd("M16x1.5", 16, 1.5, 24)
	m.ISOAdd("M20x2", 20, 2, 30)
	m.ISOAdd("M24x2", 24, 2, 36)
	m.ISOAdd("M30x2", 30, 2, 46)
	m.ISOAdd("M36x3", 36, 3, 55)
	m.ISOAdd("M42x3", 42, 3, 65)
	m.ISOAdd("M48x3", 48, 3, 75)
	m.ISOAdd("M56x4", 56, 4, 85)
	m.ISOAdd("M64x4", 64, 4, 95)
	return m
}

// ThreadLookup lookups the parameters for a thread by name.
func ThreadLookup(name string) (*ThreadParameters, error) {
	if t, ok := threadDB[name]; ok {
		return t, nil
	}
	return nil, fmt.Errorf("thread \"%s\" not found", name)
}

// HexRadius returns the hex head radius.
func (t *ThreadParameters) HexRadius() float64 {
	return t.HexFlat2Flat / (2.0 * math.Cos(DtoR(30)))
}

// HexHeight returns the hex head height (empirical).
func (t *ThreadParameters) HexHeight() float64 {
	return 2.0 * t.HexRadius() * (5.0 / 12.0)
}

//-----------------------------------------------------------------------------
// Thread Profiles

// AcmeThread returns the 2d profile for an acme thread.
func AcmeThread(
	radius float64, // radius of thread
	pitch float64, // thread to thread distance
) (SDF2, error) {

	h := radius - 0.5*pitch
	theta := DtoR(29.0 / 2.0)
	delta := 0.25 * pitch * math.Tan(theta)
	xOfs0 := 0.25*pitch - delta
	xOfs1 := 0.25*pitch + delta

	acme := NewPolygon()
	acme.Add(radius, 0)
	acme.Add(radius, h)
	acme.Add(xOfs1, h)
	acme.Add(xOfs0, radius)
	acme.Add(-xOfs0, radius)
	acme.Add(-xOfs1, h)
	acme.Add(-radius, h)
	acme.Add(-radius, 0)

	return Polygon2D(acme.Vertices())
}

// ISOThread returns the 2d profile for an ISO/UTS thread.
// https://en.wikipedia.org/wiki/ISO_metric_screw_thread
// https://en.wikipedia.org/wiki/Unified_Thread_Standard
func ISOThread(
	radius float64, // radius of thread
	pitch float64, // thread to thread distance
	external bool, // external (or internal) thread
) (SDF2, error) {

	theta := DtoR(30.0)
	h := pitch / (2.0 * math.Tan(theta))
	rMajor := radius
	r0 := rMajor - (7.0/8.0)*h

	iso := NewPolygon()
	if external {
		rRoot := (pitch / 8.0) / math.Cos(theta)
		xOfs := (1.0 / 16.0) * pitch
		iso.Add(pitch, 0)
		iso.Add(pitch, r0+h)
		iso.Add(pitch/2.0, r0).Smooth(rRoot, 5)
		iso.Add(xOfs, rMajor)
		iso.Add(-xOfs, rMajor)
		iso.Add(-pitch/2.0, r0).Smooth(rRoot, 5)
		iso.Add(-pitch, r0+h)
		iso.Add(-pitch, 0)
	} else {
		rMinor := r0 + (1.0/4.0)*h
		rCrest := (pitch / 16.0) / math.Cos(theta)
		xOfs := (1.0 / 8.0) * pitch
		iso.Add(pitch, 0)
		iso.Add(pitch, rMinor)
		iso.Add(pitch/2-xOfs, rMinor)
		iso.Add(0, r0+h).Smooth(rCrest, 5)
		iso.Add(-pitch/2+xOfs, rMinor)
		iso.Add(-pitch, rMinor)
		iso.Add(-pitch, 0)
	}
	return Polygon2D(iso.Vertices())
}

// ANSIButtressThread returns the 2d profile for an ANSI 45/7 buttress thread.
// https://en.wikipedia.org/wiki/Buttress_thread
// AMSE B1.9-1973
func ANSIButtressThread(
	radius float64, // radius of thread
	pitch float64, // thread to thread distance
) (SDF2, error) {
	t0 := math.Tan(DtoR(45.0))
	t1 := math.Tan(DtoR(7.0))
	b := 0.6 // thread engagement

	h0 := pitch / (t0 + t1)
	h1 := ((b / 2.0) * pitch) + (0.5 * h0)
	hp := pitch / 2.0

	tp := NewPolygon()
	tp.Add(pitch, 0)
	tp.Add(pitch, radius)
	tp.Add(hp-((h0-h1)*t1), radius)
	tp.Add(t0*h0-hp, radius-h1).Smooth(0.0714*pitch, 5)
	tp.Add((h0-h1)*t0-hp, radius)
	tp.Add(-pitch, radius)
	tp.Add(-pitch, 0)

	return Polygon2D(tp.Vertices())
}

// PlasticButtressThread returns the 2d profile for a screw top style plastic buttress thread.
// Similar to ANSI 45/7 - but with more corner rounding
func PlasticButtressThread(
	radius float64, // radius of thread
	pitch float64, // thread to thread distance
) (SDF2, error) {
	t0 := math.Tan(DtoR(45.0))
	t1 := math.Tan(DtoR(7.0))
	b := 0.6 // thread engagement

	h0 := pitch / (t0 + t1)
	h1 := ((b / 2.0) * pitch) + (0.5 * h0)
	hp := pitch / 2.0

	tp := NewPolygon()
	tp.Add(pitch, 0)
	tp.Add(pitch, radius)
	tp.Add(hp-((h0-h1)*t1), radius).Smooth(0.05*pitch, 5)
	tp.Add(t0*h0-hp, radius-h1).Smooth(0.15*pitch, 5)
	tp.Add((h0-h1)*t0-hp, radius).Smooth(0.15*pitch, 5)
	tp.Add(-pitch, radius)
	tp.Add(-pitch, 0)

	return Polygon2D(tp.Vertices())
}

//-----------------------------------------------------------------------------

// ScrewSDF3 is a 3d screw form.
type ScrewSDF3 struct {
	thread SDF2    // 2D thread profile
	pitch  float64 // thread to thread distance
	lead   float64 // distance per turn (starts * pitch)
	length float64 // total length of screw
	taper  float64 // thread taper angle
	starts int     // number of thread starts
	bb     Box3    // bounding box
}

// Screw3D returns a screw SDF3.
func Screw3D(
	thread SDF2, // 2D thread profile
	length float64, // length of screw
	taper float64, // thread taper angle (radians)
	pitch float64, // thread to thread distance
	starts int, // number of thread starts (< 0 for left hand threads)
) (SDF3, error) {
	if thread == nil {
		return nil, ErrMsg("thread == nil")
	}
	if length <= 0 {
		return nil, ErrMsg("length <= 0")
	}
	if taper < 0 {
		return nil, ErrMsg("taper < 0")
	}
	if taper >= Pi*0.5 {
		return nil, ErrMsg("taper >= Pi * 0.5")
	}
	if pitch <= 0 {
		return nil, ErrMsg("pitch <= 0")
	}
	s := ScrewSDF3{}
	s.thread = thread
	s.pitch = pitch
	s.length = length / 2
	s.taper = taper
	s.lead = -pitch * float64(starts)
	// Work out the bounding box.
	// The max-y axis of the sdf2 bounding box is the radius of the thread.
	bb := s.thread.BoundingBox()
	r := bb.Max.Y
	// add the taper increment
	r += s.length * math.Tan(taper)
	s.bb = Box3{v3.Vec{-r, -r, -s.length}, v3.Vec{r, r, s.length}}
	return &s, nil
}

// Evaluate returns the minimum distance to a 3d screw form.
func (s *ScrewSDF3) Evaluate(p v3.Vec) float64 {
	// map the 3d point back to the xy space of the profile
	p0 := v2.Vec{}
	// the distance from the 3d z-axis maps to the 2d y-axis
	p0.Y = math.Sqrt(p.X*p.X + p.Y*p.Y)
	if s.taper != 0 {
		p0.Y += p.Z * math.Atan(s.taper)
	}
	// the x/y angle and the z-height map to the 2d x-axis
	// ie: the position along thread pitch
	theta := math.Atan2(p.Y, p.X)
	z := p.Z + s.lead*theta/Tau
	p0.X = SawTooth(z, s.pitch)
	// get the thread profile distance
	d0 := s.thread.Evaluate(p0)
	// create a region for the screw length
	d1 := math.Abs(p.Z) - s.length
	// return the intersection
	return math.Max(d0, d1)
}

// BoundingBox returns the bounding box for a 3d screw form.
func (s *ScrewSDF3) BoundingBox() Box3 {
	return s.bb
}

//-----------------------------------------------------------------------------
