//-----------------------------------------------------------------------------
/*

2D Mesh, 2d line segments connected to create closed polygons.

*/
//-----------------------------------------------------------------------------

package sdf

import (
	"math"

	v2 "github.com/deadsy/sdfx/vec/v2"
)

//-----------------------------------------------------------------------------

// lineInfo stores pre-calculated line information.
type lineInfo struct {
	line       *Line2  // line segment
	unitVector v2.Vec  // unit vector for line segment
	length     float64 // length of line segment
}

// newLineInfo pre-calculates the line segment information.
func newLineInfo(l *Line2) *lineInfo {
	v := l[1].Sub(l[0])
	return &lineInfo{
		line:       l,
		unitVector: v.Normalize(),
		length:     v.Length(),
	}
}

func convertLines(lSet []*Line2) []*lineInfo {
	li := make([]*lineInfo, len(lSet))
	for i := range lSet {
		li[i] = newLineInfo(lSet[i])
	}
	return li
}

// minDistance2 returns the minium distance squared between a point and the line.
func (a *lineInfo) minDistance2(p v2.Vec) float64 {
	var d2 float64
	pa := p.Sub(a.line[0])
	// t-parameter of projection onto line
	t := pa.Dot(a.unitVector)
	if t < 0 {
		// distance to vertex 0 of line
		d2 = a.line[0].Sub(p).Length2()
	} else if t > a.length {
		// distance to vertex 1 of line
		d2 = a.line[1].Sub(p).Length2()
	} else {
		// normal distance from p to line
		dn := pa.Dot(v2.Vec{a.unitVector.Y, -a.unitVector.X})
		d2 = dn * dn
	}
	return d2
}

// winding returns a winding number increment for a line segment.
func (a *lineInfo) winding(p v2.Vec) int {
	ay := a.line[0].Y
	by := a.line[1].Y
	dn := p.Sub(a.line[0]).Dot(v2.Vec{a.unitVector.Y, -a.unitVector.X})
	if ay <= p.Y {
		if by > p.Y && dn < 0 { // upward crossing
			return 1
		}
	} else {
		if by <= p.Y && dn > 0 { // downward crossing
			return -1
		}
	}
	return 0
}

//-----------------------------------------------------------------------------

const qtMaxLevel = 3

type qtNode struct {
	level    int         // quadtree level
	box      Box2        // bounding box for the node
	center   v2.Vec      // pre-calculated from box
	halfSide float64     // pre-calculated from box
	child    [4]*qtNode  // child nodes (sw, se, nw, ne)
	leaf     []*lineInfo // leaf information (non-nil for a leaf node)
}

func qtBuild(level int, box Box2, lSet []*Line2) *qtNode {

	if len(lSet) == 0 {
		// empty node
		return nil
	}

	halfSide := 0.5 * (box.Max.X - box.Min.X)
	center := box.Center()

	if len(lSet) == 1 || level == qtMaxLevel {
		// leaf node
		return &qtNode{
			level:    level,
			box:      box,
			halfSide: halfSide,
			center:   center,
			leaf:     convertLines(lSet),
		}
	}

	// non-leaf node
	box0 := box.quad0()
	box1 := box.quad1()
	box2 := box.quad2()
	box3 := box.quad3()
	return &qtNode{
		level:    level,
		box:      box,
		halfSide: halfSide,
		center:   center,
		child: [4]*qtNode{
			qtBuild(level+1, box0, box0.lineFilter(lSet)),
			qtBuild(level+1, box1, box1.lineFilter(lSet)),
			qtBuild(level+1, box2, box2.lineFilter(lSet)),
			qtBuild(level+1, box3, box3.lineFilter(lSet)),
		},
	}
}

// boxes returns the set of boxes used by this node.
func (node *qtNode) boxes() []*Box2 {
	if node == nil {
		return nil
	}
	if node.leaf != nil {
		return []*Box2{&node.box}
	}
	boxes := []*Box2{&node.box}
	boxes = append(boxes, node.child[0].boxes()...)
	boxes = append(boxes, node.child[1].boxes()...)
	boxes = append(boxes, node.child[2].boxes()...)
	boxes = append(boxes, node.child[3].boxes()...)
	return boxes
}

// searchOrder returns the child search order for this node.
// Order by minimum distance to the child boxes.
func (node *qtNode) searchOrder(p v2.Vec) [4]int {
	// translate the point so the node box center is at the origin
	p = p.Sub(node.center)
	if p.X >= 0 {
		if p.Y >= 0 {
			// quad3
			if p.Y >= p.X {
				return [4]int{3, 2, 1, 0}
			}
			return [4]int{3, 1, 2, 0}
		}
		// quad1
		if p.Y <= -p.X {
			return [4]int{1, 0, 3, 2}
		}
		return [4]int{1, 3, 0, 2}
	}
	if p.Y >= 0 {
		// quad2
		if p.Y >= -p.X {
			return [4]int{2, 3, 0, 1}
		}
		return [4]int{2, 0, 3, 1}
	}
	// quad0
	if p.Y <= p.X {
		return [4]int{0, 1, 2, 3}
	}
	return [4]int{0, 2, 1, 3}
}

// minBoxDist2 returns the minimum distance squared from a point to the node box.
// Inside the box is a zero distance.
func (node *qtNode) minBoxDist2(p v2.Vec) float64 {
	// translate the point so the node box center is at the origin
	// work in a single quadrant
	p = p.Sub(node.center).Abs()
	dx := p.X - node.halfSide
	dy := p.Y - node.halfSide
	// inside the box
	if dx < 0 && dy < 0 {
		return 0
	}
	if dy < 0 {
		return dx * dx
	}
	if dx < 0 {
		return dy * dy
	}
	return (dx * dx) + (dy * dy)
}

// minFeatureDist2 returns the minimum distance squared from a point to the leaf feature.
func (node *qtNode) minLeafDist2(p v2.Vec) float64 {
	dd := math.MaxFloat64
	for _, li := range node.leaf {
		dd = math.Min(dd, li.minDistance2(p))
	}
	return dd
}

func (node *qtNode) minDist2(p v2.Vec, dd float64) float64 {
	if node == nil || node.minBoxDist2(p) >= dd {
		// no new minimums here
		return dd
	}
	if node.leaf != nil {
		// measure the leaf
		return math.Min(dd, node.minLeafDist2(p))
	}
	// search the child nodes
	for _, i := range node.searchOrder(p) {
		dd = node.child[i].minDist2(p, dd)
	}
	return dd
}

// winding returns the winding number for the quadtree node
func (node *qtNode) winding(p v2.Vec, wn int) int {
	if node == nil {
		return wn
	}
	// leaf node
	if node.leaf != nil {
		for _, li := range node.leaf {
			wn += li.winding(p)
		}
		return wn
	}
	// child nodes: explore in +ve x-axis order
	// translate the point so the node box center is at the origin
	q := p.Sub(node.center)
	if q.X < 0 {
		if q.Y < 0 {
			wn = node.child[0].winding(p, wn)
			wn = node.child[1].winding(p, wn)
		} else {
			wn = node.child[2].winding(p, wn)
			wn = node.child[3].winding(p, wn)
		}
	} else {
		if q.Y < 0 {
			wn = node.child[1].winding(p, wn)
		} else {
			wn = node.child[3].winding(p, wn)
		}
	}
	return wn
}

//-----------------------------------------------------------------------------
// Mesh2D. 2D mesh evaluation with quadtree speedup.

// MeshSDF2 is SDF2 made from a set of line segments.
type MeshSDF2 struct {
	qt *qtNode // quadtree root
	bb Box2    // bounding box
}

// Mesh2D returns an SDF2 made from a set of line segments.
func Mesh2D(mesh []*Line2) (SDF2, error) {
	n := len(mesh)
	if n == 0 {
		return nil, ErrMsg("no 2d line segments")
	}

	// work out the bounding box
	bb := mesh[0].BoundingBox()
	for _, edge := range mesh {
		bb = bb.Include(edge[0]).Include(edge[1])
	}

	// The quadtree box is derived from the bounding box.
	// Square it up for simpler math.
	// Scale it slightly to contain line segments on the top/right edges.
	qtBox := bb.Square().ScaleAboutCenter(1.01)

	// build the quadtree
	qt := qtBuild(0, qtBox, mesh)

	return &MeshSDF2{
		qt: qt,
		bb: bb,
	}, nil
}

// Evaluate returns the minimum distance for a 2d mesh.
func (s *MeshSDF2) Evaluate(p v2.Vec) float64 {
	d2 := s.qt.minDist2(p, math.MaxFloat64)
	wn := s.qt.winding(p, 0)
	// normalise d*d to d
	d := math.Sqrt(d2)
	if wn != 0 {
		// p is inside the polygon
		return -d
	}
	return d
}

// Boxes returns the full set of quadtree boxes.
func (s *MeshSDF2) Boxes() []*Box2 {
	return s.qt.boxes()
}

// BoundingBox returns the bounding box of a 2d mesh.
func (s *MeshSDF2) BoundingBox() Box2 {
	return s.bb
}

//-----------------------------------------------------------------------------

// VertexToLine converts a set of vertices into a set of line segments.
func VertexToLine(vertex []v2.Vec, closed bool) []*Line2 {
	n := len(vertex)
	if n < 2 {
		return nil
	}
	if closed {
		if !vertex[0].Equals(vertex[n-1], tolerance) {
			vertex = append(vertex, vertex[0])
		}
	}
	// create the segments
	line := make([]*Line2, len(vertex)-1)
	for i := range line {
		line[i] = &Line2{vertex[i], vertex[i+1]}
	}
	return line
}

// Polygon2D returns a Mesh2D built with polygon vertices.
func Polygon2D(vertex []v2.Vec) (SDF2, error) {
	n := len(vertex)
	if n < 3 {
		return nil, ErrMsg("number of vertices < 3")
	}
	return Mesh2D(VertexToLine(vertex, true))
}

//-----------------------------------------------------------------------------
// Mesh2D Slow. Provided for testing and benchmarking purposes.

// Note: Mesh2DSlow should produce the same distance results as Mesh2D but there
// may be small floating point differences because Mesh2D is breaking the line
// segments into smaller pieces to contain them within the quadtree nodes.
// Experimentally these deltas are very small, but can result in different STL
// and DXF files.

// MeshSDF2Slow is SDF2 made from a set of line segments.
type MeshSDF2Slow struct {
	mesh []*lineInfo
	bb   Box2 // bounding box
}

// Mesh2DSlow returns an SDF2 made from a set of line segments.
func Mesh2DSlow(mesh []*Line2) (SDF2, error) {
	n := len(mesh)
	if n == 0 {
		return nil, ErrMsg("no 2d line segments")
	}

	// work out the bounding box
	bb := mesh[0].BoundingBox()
	for _, edge := range mesh {
		bb = bb.Include(edge[0]).Include(edge[1])
	}

	return &MeshSDF2Slow{
		mesh: convertLines(mesh),
		bb:   bb,
	}, nil
}

// Evaluate returns the minimum distance for a 2d mesh.
func (s *MeshSDF2Slow) Evaluate(p v2.Vec) float64 {
	d2 := math.MaxFloat64 // d^2 to mesh (>0)
	wn := 0               // winding number (inside/outside)
	for _, li := range s.mesh {
		d2 = math.Min(d2, li.minDistance2(p))
		wn += li.winding(p)
	}
	// normalise d*d to d
	d := math.Sqrt(d2)
	if wn != 0 {
		// p is inside the polygon
		return -d
	}
	return d
}

// BoundingBox returns the bounding box of a 2d mesh.
func (s *MeshSDF2Slow) BoundingBox() Box2 {
	return s.bb
}

//-----------------------------------------------------------------------------
