//-----------------------------------------------------------------------------
/*

Linear Gear Rack

*/
//-----------------------------------------------------------------------------

package sdf

import (
	"math"

	v2 "github.com/deadsy/sdfx/vec/v2"
)

//-----------------------------------------------------------------------------
// 2D Gear Rack

// GearRackParms defines the parameters for a gear rack.
type GearRackParms struct {
	NumberTeeth   int     // number of rack teeth
	Module        float64 // pitch circle diameter / number of gear teeth
	PressureAngle float64 // gear pressure angle (radians)
	Backlash      float64 // backlash expressed as units of pitch circumference
	BaseHeight    float64 // height of rack base
}

// GearRackSDF2 is a 2d linear gear rack.
type GearRackSDF2 struct {
	tooth  SDF2    // polygon for rack tooth
	pitch  float64 // tooth to tooth pitch
	length float64 // half the total rack length
	bb     Box2    // bounding box
}

// GearRack2D returns the 2D profile for a gear rack.
func GearRack2D(k *GearRackParms) (SDF2, error) {

	if k.NumberTeeth <= 0 {
		return nil, ErrMsg("NumberTeeth <= 0")
	}
	if k.Module <= 0 {
		return nil, ErrMsg("Module <= 0")
	}
	if k.PressureAngle <= 0 {
		return nil, ErrMsg("PressureAngle <= 0")
	}
	if k.Backlash < 0 {
		return nil, ErrMsg("Backlash <= 0")
	}
	if k.BaseHeight < 0 {
		return nil, ErrMsg("BaseHeight < 0")
	}

	s := GearRackSDF2{}

	// addendum: distance from pitch line to top of tooth
	addendum := k.Module * 1.0
	// dedendum: distance from pitch line to root of tooth
	dedendum := k.Module * 1.25
	// total tooth height
	toothHeight := k.BaseHeight + addendum + dedendum
	// tooth_pitch: tooth to tooth distance along pitch line
	pitch := k.Module * Pi

	// x size of tooth flank
	dx := (addendum + dedendum) * math.Tan(k.PressureAngle)
	// 1/2 x size of tooth top
	dxt := ((pitch / 2.0) - dx) / 2.0
	// x size of backlash
	bl := k.Backlash / 2.0

	// create a half tooth profile centered on the y-axis
	tooth := []v2.Vec{
		{pitch, 0},
		{pitch, k.BaseHeight},
		{dx + dxt - bl, k.BaseHeight},
		{dxt - bl, toothHeight},
		{-pitch, toothHeight},
		{-pitch, 0},
	}
	tp, err := Polygon2D(tooth)
	if err != nil {
		return nil, err
	}

	s.tooth = tp
	s.pitch = pitch
	s.length = pitch * float64(k.NumberTeeth) * 0.5
	s.bb = Box2{v2.Vec{-s.length, 0}, v2.Vec{s.length, toothHeight}}
	return &s, nil
}

// Evaluate returns the minimum distance to the gear rack.
func (s *GearRackSDF2) Evaluate(p v2.Vec) float64 {
	// map p.X back to the [0,half_pitch) domain
	p0 := v2.Vec{math.Abs(SawTooth(p.X, s.pitch)), p.Y}
	// get the tooth profile distance
	d0 := s.tooth.Evaluate(p0)
	// create a region for the rack length
	d1 := math.Abs(p.X) - s.length
	// return the intersection
	return math.Max(d0, d1)
}

// BoundingBox returns the bounding box for the gear rack.
func (s *GearRackSDF2) BoundingBox() Box2 {
	return s.bb
}

//-----------------------------------------------------------------------------
