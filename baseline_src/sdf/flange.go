//-----------------------------------------------------------------------------
/*

Flanges

*/
//-----------------------------------------------------------------------------

package sdf

import (
	"math"

	v2 "github.com/deadsy/sdfx/vec/v2"
)

//-----------------------------------------------------------------------------

// Flange1 is a flange shape made from a center circle with two side circles.
type Flange1 struct {
	distance     float64 // distance from center to side
	centerRadius float64 // radius of center circle
	sideRadius   float64 // radius of side circle
	a            v2.Vec  // center point on flank line
	u            v2.Vec  // normalised line vector for flank
	l            float64 // length of flank line
	bb           Box2    // bounding box
}

// NewFlange1 returns a flange shape made from a center circle with two side circles.
func NewFlange1(
	distance float64, // distance from center to side circle
	centerRadius float64, // radius of center circle
	sideRadius float64, // radius of side circle
) SDF2 {
	s := Flange1{}
	s.distance = distance
	s.centerRadius = centerRadius
	s.sideRadius = sideRadius
	// work out the flank line
	sin := (centerRadius - sideRadius) / distance
	cos := math.Sqrt(1 - sin*sin)
	// first point on line
	s.a = v2.Vec{sin, cos}.MulScalar(centerRadius)
	// second point on line
	b := v2.Vec{sin, cos}.MulScalar(sideRadius).Add(v2.Vec{distance, 0})
	// line information
	u := b.Sub(s.a)
	s.u = u.Normalize()
	s.l = u.Length()
	// work out the bounding box
	w := distance + sideRadius
	h := centerRadius
	s.bb = Box2{v2.Vec{-w, -h}, v2.Vec{w, h}}
	return &s
}

// Evaluate returns the minimum distance to the flange.
func (s *Flange1) Evaluate(p v2.Vec) float64 {
	// We are symmetrical about the x and y axis.
	// So- only consider the 1st quadrant.
	p = p.Abs()
	// vector to first point of flank line
	v := p.Sub(s.a)
	// work out the t-parameter of the projection onto the flank line
	t := v.Dot(s.u)
	var d float64
	if t < 0 {
		// the nearest point is on the center circle
		d = p.Length() - s.centerRadius
	} else if t <= s.l {
		// the nearest point is on the flank line
		d = v.Dot(v2.Vec{-s.u.Y, s.u.X})
	} else {
		// the nearest point is on the side circle
		d = p.Sub(v2.Vec{s.distance, 0}).Length() - s.sideRadius
	}
	return d
}

// BoundingBox returns the bounding box for the flange.
func (s *Flange1) BoundingBox() Box2 {
	return s.bb
}

//-----------------------------------------------------------------------------
