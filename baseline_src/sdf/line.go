//-----------------------------------------------------------------------------
/*

2D lines

*/
//-----------------------------------------------------------------------------

package sdf

import (
	"fmt"
	"math"
	"sync"

	v2 "github.com/deadsy/sdfx/vec/v2"
)

//-----------------------------------------------------------------------------

// Interval is a closed interval on real numbers.
type Interval [2]float64

// Sort sorts the interval endpoints lowest to highest.
func (a Interval) Sort() Interval {
	if a[0] <= a[1] {
		return a
	}
	return Interval{a[1], a[0]}
}

// Equals returns true if a == b within the tolerance limit.
func (a Interval) Equals(b Interval, tolerance float64) bool {
	return math.Abs(a[0]-b[0]) <= tolerance && math.Abs(a[1]-b[1]) <= tolerance
}

// Overlap returns true if two intervals overlap.
func (a Interval) Overlap(b Interval) bool {
	return b[0] <= a[1] && a[0] <= b[1]
}

// Intersect returns the intersection of two intervals.
func (a Interval) Intersect(b Interval) *Interval {
	if a.Overlap(b) {
		return &Interval{math.Max(a[0], b[0]), math.Min(a[1], b[1])}
	}
	return nil
}

//-----------------------------------------------------------------------------

// Line2 is a 2d line defined with end-points.
type Line2 [2]v2.Vec

// BoundingBox returns a bounding box for the line.
func (a *Line2) BoundingBox() Box2 {
	return Box2{Min: a[0], Max: a[0]}.Include(a[1])
}

// Reverse the direction of a line segment.
func (a *Line2) Reverse() *Line2 {
	return &Line2{a[1], a[0]}
}

// Equals returns true if the lines are the same (within tolerance).
func (a *Line2) Equals(b *Line2, tolerance float64) bool {
	return a[0].Equals(b[0], tolerance) && a[1].Equals(b[1], tolerance)
}

// Degenerate returns true if the line is degenerate.
func (a Line2) Degenerate(tolerance float64) bool {
	// check for identical vertices
	return a[0].Equals(a[1], tolerance)
}

// IntersectLine intersects 2 line segments.
// https://stackoverflow.com/questions/563198/how-do-you-detect-where-two-line-segments-intersect
func (a *Line2) IntersectLine(b *Line2) []v2.Vec {

	p := a[0]
	r := a[1].Sub(a[0])
	q := b[0]
	s := b[1].Sub(b[0])

	k0 := r.Cross(s)        // r x s
	k1 := q.Sub(p).Cross(r) // (q - p) x r

	if k0 == 0 {
		if k1 != 0 {
			// parallel, non-intersecting
			return nil
		}

		// collinear lines
		k2 := 1.0 / r.Dot(r)
		t0 := q.Sub(p).Dot(r) * k2
		t1 := t0 + s.Dot(r)*k2

		t := Interval{t0, t1}.Sort()
		x := t.Intersect(Interval{0, 1})
		if x != nil {
			// collinear, intersecting
			p0 := p.Add(r.MulScalar(x[0]))
			if x[0] == x[1] {
				return []v2.Vec{p0}
			}
			p1 := p.Add(r.MulScalar(x[1]))
			return []v2.Vec{p0, p1}
		}

		// collinear, non-intersecting
		return nil
	}
	// non-parallel
	u := k1 / k0
	t := q.Sub(p).Cross(s) / k0
	if u >= 0 && u <= 1 && t >= 0 && t <= 1 {
		p0 := p.Add(r.MulScalar(t))
		return []v2.Vec{p0}
	}
	// non-parallel, non-intersecting
	return nil
}

//-----------------------------------------------------------------------------
// Line2 Buffering

// We write lines to a channel to decouple the rendering routines from the
// routine that writes file output. We have a lot of lines and channels
// are not very fast, so it's best to bundle many lines into a single channel
// write. The renderer doesn't naturally do that, so we buffer lines before
// writing them to the channel.

// Line2Writer is the interface of a line writer/closer object.
type Line2Writer interface {
	Write(in []*Line2) error
	Close() error
}

// size the buffer to avoid re-allocations when appending.
const lBufferSize = 128
const lBufferMargin = 4 // marching squares produces 0 to 2 lines

// Line2Buffer buffers lines before writing them to a channel.
type Line2Buffer struct {
	buf  []*Line2        // line buffer
	out  chan<- []*Line2 // output channel
	lock sync.Mutex      // lock the the buffer during access
}

// NewLine2Buffer returns a Line2Buffer.
func NewLine2Buffer(out chan<- []*Line2) Line2Writer {
	return &Line2Buffer{
		buf: make([]*Line2, 0, lBufferSize+lBufferMargin),
		out: out,
	}
}

func (a *Line2Buffer) Write(in []*Line2) error {
	a.lock.Lock()
	a.buf = append(a.buf, in...)
	if len(a.buf) >= lBufferSize {
		a.out <- a.buf
		a.buf = make([]*Line2, 0, lBufferSize+lBufferMargin)
	}
	a.lock.Unlock()
	return nil
}

// Close flushes out any remaining lines in the buffer.
func (a *Line2Buffer) Close() error {
	a.lock.Lock()
	if len(a.buf) != 0 {
		a.out <- a.buf
		a.buf = nil
	}
	a.lock.Unlock()
	return nil
}

//-----------------------------------------------------------------------------

// geometryLine is a 2d line defined as either point/point or point/vector.
type geometryLine struct {
	segment bool    // is this a line segment?
	length  float64 // segment length
	a       v2.Vec  // line start point
	b       v2.Vec  // line end point point (if segment)
	v       v2.Vec  // normalized line vector
}

// NewLinePV returns a 2d line defined by a point and vector.
func newLinePV(p, v v2.Vec) geometryLine {
	l := geometryLine{}
	l.segment = false
	l.length = 0.0
	l.a = p
	l.v = v.Normalize()
	return l
}

// NewLinePP returns a 2d line segment defined by 2 points.
func newLinePP(a, b v2.Vec) geometryLine {
	l := geometryLine{}
	v := b.Sub(a)
	l.segment = true
	l.length = v.Length()
	l.a = a
	l.b = b
	l.v = v.Normalize()
	return l
}

// Position returns the position on the line given the t value.
func (l geometryLine) Position(t float64) v2.Vec {
	return l.a.Add(l.v.MulScalar(t))
}

// Intersect returns the t parameters for the intersection between lines l and lx
func (l geometryLine) Intersect(lx geometryLine) (float64, float64, error) {
	m := M22{l.v.X, -lx.v.X, l.v.Y, -lx.v.Y}
	if m.Determinant() == 0 {
		return 0, 0, fmt.Errorf("zero/many")
	}
	p := lx.a.Sub(l.a)
	t := m.Inverse().MulPosition(p)
	return t.X, t.Y, nil
}

// Distance returns the distance to the line.
// Greater than 0 implies to the right of the line vector.
func (l geometryLine) Distance(p v2.Vec) float64 {

	n := v2.Vec{l.v.Y, -l.v.X} // normal to line
	ap := p.Sub(l.a)           // line from a to p
	dn := ap.Dot(n)            // normal distance to line

	var d float64
	if l.segment {
		// this is a line segment - consider endpoints
		t := ap.Dot(l.v) // t-parameter of projection onto line
		if t < 0 {
			d = ap.Length()
		} else if t > l.length {
			bp := p.Sub(l.b) // line from b to p
			d = bp.Length()
		} else {
			// return the normal distance
			return dn
		}
	} else {
		// not a line segment - just return the normal distance
		return dn
	}

	if dn < 0 {
		d = -d
	}
	return d
}

//-----------------------------------------------------------------------------
