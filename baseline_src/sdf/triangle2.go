//-----------------------------------------------------------------------------
/*

2D Triangles

*/
//-----------------------------------------------------------------------------

package sdf

import (
	"math"

	v2 "github.com/deadsy/sdfx/vec/v2"
)

//-----------------------------------------------------------------------------

// Triangle2 is a 2D triangle
type Triangle2 [3]v2.Vec

// Circumcenter returns the circumcenter of a triangle.
func (t Triangle2) Circumcenter() (v2.Vec, error) {

	var m1, m2, mx1, mx2, my1, my2 float64
	var xc, yc float64

	x1 := t[0].X
	x2 := t[1].X
	x3 := t[2].X

	y1 := t[0].Y
	y2 := t[1].Y
	y3 := t[2].Y

	fabsy1y2 := math.Abs(y1 - y2)
	fabsy2y3 := math.Abs(y2 - y3)

	// Check for coincident points
	if fabsy1y2 < epsilon && fabsy2y3 < epsilon {
		return v2.Vec{}, ErrMsg("coincident points")
	}

	if fabsy1y2 < epsilon {
		m2 = -(x3 - x2) / (y3 - y2)
		mx2 = (x2 + x3) / 2.0
		my2 = (y2 + y3) / 2.0
		xc = (x2 + x1) / 2.0
		yc = m2*(xc-mx2) + my2
	} else if fabsy2y3 < epsilon {
		m1 = -(x2 - x1) / (y2 - y1)
		mx1 = (x1 + x2) / 2.0
		my1 = (y1 + y2) / 2.0
		xc = (x3 + x2) / 2.0
		yc = m1*(xc-mx1) + my1
	} else {
		m1 = -(x2 - x1) / (y2 - y1)
		m2 = -(x3 - x2) / (y3 - y2)
		mx1 = (x1 + x2) / 2.0
		mx2 = (x2 + x3) / 2.0
		my1 = (y1 + y2) / 2.0
		my2 = (y2 + y3) / 2.0
		xc = (m1*mx1 - m2*mx2 + my2 - my1) / (m1 - m2)
		if fabsy1y2 > fabsy2y3 {
			yc = m1*(xc-mx1) + my1
		} else {
			yc = m2*(xc-mx2) + my2
		}
	}

	return v2.Vec{xc, yc}, nil
}

// InCircumcircle return inside == true if the point is inside the circumcircle of the triangle.
// Returns done == true if the vertex and the subsequent x-ordered vertices are outside the circumcircle.
func (t Triangle2) InCircumcircle(p v2.Vec) (inside, done bool) {
	c, err := t.Circumcenter()
	if err != nil {
		inside = false
		done = true
		return
	}

	// radius squared of circumcircle
	dx := t[0].X - c.X
	dy := t[0].Y - c.Y
	r2 := dx*dx + dy*dy

	// distance squared from circumcenter to point
	dx = p.X - c.X
	dy = p.Y - c.Y
	d2 := dx*dx + dy*dy

	// is the point within the circumcircle?
	inside = d2-r2 <= epsilon

	// If this vertex has an x-value beyond the circumcenter and the distance based on the x-delta
	// is greater than the circumradius, then this triangle is done for this and all subsequent vertices
	// since the vertex list has been sorted by x-value.
	done = (dx > 0) && (dx*dx > r2)

	return
}

//-----------------------------------------------------------------------------
