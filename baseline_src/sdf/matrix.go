//-----------------------------------------------------------------------------
/*

Matrix Operations

*/
//-----------------------------------------------------------------------------

package sdf

import (
	"math"

	v2 "github.com/deadsy/sdfx/vec/v2"
	v3 "github.com/deadsy/sdfx/vec/v3"
)

//-----------------------------------------------------------------------------

// M44 is a 4x4 matrix.
type M44 [16]float64

// M33 is a 3x3 matrix.
type M33 [9]float64

// M22 is a 2x2 matrix.
type M22 [4]float64

//-----------------------------------------------------------------------------

// RandomM22 returns a 2x2 matrix with random elements.
func RandomM22(a, b float64) M22 {
	return M22{randomRange(a, b),
		randomRange(a, b),
		randomRange(a, b),
		randomRange(a, b)}
}

// RandomM33 returns a 3x3 matrix with random elements.
func RandomM33(a, b float64) M33 {
	return M33{randomRange(a, b),
		randomRange(a, b),
		randomRange(a, b),
		randomRange(a, b),
		randomRange(a, b),
		randomRange(a, b),
		randomRange(a, b),
		randomRange(a, b),
		randomRange(a, b)}
}

// RandomM44 returns a 4x4 matrix with random elements.
func RandomM44(a, b float64) M44 {
	return M44{
		randomRange(a, b),
		randomRange(a, b),
		randomRange(a, b),
		randomRange(a, b),
		randomRange(a, b),
		randomRange(a, b),
		randomRange(a, b),
		randomRange(a, b),
		randomRange(a, b),
		randomRange(a, b),
		randomRange(a, b),
		randomRange(a, b),
		randomRange(a, b),
		randomRange(a, b),
		randomRange(a, b),
		randomRange(a, b)}
}

//-----------------------------------------------------------------------------

// Identity3d returns a 4x4 identity matrix.
func Identity3d() M44 {
	return M44{
		1, 0, 0, 0,
		0, 1, 0, 0,
		0, 0, 1, 0,
		0, 0, 0, 1}
}

// Identity2d returns a 3x3 identity matrix.
func Identity2d() M33 {
	return M33{
		1, 0, 0,
		0, 1, 0,
		0, 0, 1}
}

// Identity returns a 2x2 identity matrix.
func Identity() M22 {
	return M22{
		1, 0,
		0, 1}
}

// Translate3d returns a 4x4 translation matrix.
func Translate3d(v v3.Vec) M44 {
	return M44{
		1, 0, 0, v.X,
		0, 1, 0, v.Y,
		0, 0, 1, v.Z,
		0, 0, 0, 1}
}

// Translate2d returns a 3x3 translation matrix.
func Translate2d(v v2.Vec) M33 {
	return M33{
		1, 0, v.X,
		0, 1, v.Y,
		0, 0, 1}
}

// Scale3d returns a 4x4 scaling matrix.
// Scaling does not preserve distance. See: ScaleUniform3D()
func Scale3d(v v3.Vec) M44 {
	return M44{
		v.X, 0, 0, 0,
		0, v.Y, 0, 0,
		0, 0, v.Z, 0,
		0, 0, 0, 1}
}

// Scale2d returns a 3x3 scaling matrix.
// Scaling does not preserve distance. See: ScaleUniform2D().
func Scale2d(v v2.Vec) M33 {
	return M33{
		v.X, 0, 0,
		0, v.Y, 0,
		0, 0, 1}
}

// Rotate3d returns an orthographic 4x4 rotation matrix (right hand rule).
func Rotate3d(v v3.Vec, a float64) M44 {
	v = v.Normalize()
	s := math.Sin(a)
	c := math.Cos(a)
	m := 1 - c
	return M44{
		m*v.X*v.X + c, m*v.X*v.Y - v.Z*s, m*v.Z*v.X + v.Y*s, 0,
		m*v.X*v.Y + v.Z*s, m*v.Y*v.Y + c, m*v.Y*v.Z - v.X*s, 0,
		m*v.Z*v.X - v.Y*s, m*v.Y*v.Z + v.X*s, m*v.Z*v.Z + c, 0,
		0, 0, 0, 1}
}

// RotateX returns a 4x4 matrix with rotation about the X axis.
func RotateX(a float64) M44 {
	return Rotate3d(v3.Vec{1, 0, 0}, a)
}

// RotateY returns a 4x4 matrix with rotation about the Y axis.
func RotateY(a float64) M44 {
	return Rotate3d(v3.Vec{0, 1, 0}, a)
}

// RotateZ returns a 4x4 matrix with rotation about the Z axis.
func RotateZ(a float64) M44 {
	return Rotate3d(v3.Vec{0, 0, 1}, a)
}

// MirrorXY returns a 4x4 matrix with mirroring across the XY plane.
func MirrorXY() M44 {
	return M44{
		1, 0, 0, 0,
		0, 1, 0, 0,
		0, 0, -1, 0,
		0, 0, 0, 1}
}

// MirrorXZ returns a 4x4 matrix with mirroring across the XZ plane.
func MirrorXZ() M44 {
	return M44{
		1, 0, 0, 0,
		0, -1, 0, 0,
		0, 0, 1, 0,
		0, 0, 0, 1}
}

// MirrorYZ returns a 4x4 matrix with mirroring across the YZ plane.
func MirrorYZ() M44 {
	return M44{
		-1, 0, 0, 0,
		0, 1, 0, 0,
		0, 0, 1, 0,
		0, 0, 0, 1}
}

// MirrorXeqY returns a 4x4 matrix with mirroring across the X == Y plane.
func MirrorXeqY() M44 {
	return M44{
		0, 1, 0, 0,
		1, 0, 0, 0,
		0, 0, 1, 0,
		0, 0, 0, 1}
}

// MirrorX returns a 3x3 matrix with mirroring across the X axis.
func MirrorX() M33 {
	return M33{
		1, 0, 0,
		0, -1, 0,
		0, 0, 1}
}

// MirrorY returns a 3x3 matrix with mirroring across the Y axis.
func MirrorY() M33 {
	return M33{
		-1, 0, 0,
		0, 1, 0,
		0, 0, 1}
}

// Rotate2d returns an orthographic 3x3 rotation matrix (right hand rule).
func Rotate2d(a float64) M33 {
	s := math.Sin(a)
	c := math.Cos(a)
	return M33{
		c, -s, 0,
		s, c, 0,
		0, 0, 1}
}

// Rotate returns an orthographic 2x2 rotation matrix (right hand rule).
func Rotate(a float64) M22 {
	s := math.Sin(a)
	c := math.Cos(a)
	return M22{
		c, -s,
		s, c,
	}
}

// RotateToVector returns the rotation matrix that transforms a onto the same direction as b.
func RotateToVector(a, b v3.Vec) M44 {
	// is either vector == 0?
	if a.Equals(v3.Vec{}, epsilon) || b.Equals(v3.Vec{}, epsilon) {
		return Identity3d()
	}
	// normalize both vectors
	a = a.Normalize()
	b = b.Normalize()
	// are the vectors the same?
	if a.Equals(b, epsilon) {
		return Identity3d()
	}
	// are the vectors opposite (180 degrees apart)?
	if a.Neg().Equals(b, epsilon) {
		return M44{
			-1, 0, 0, 0,
			0, -1, 0, 0,
			0, 0, -1, 0,
			0, 0, 0, 1}
	}
	// general case
	// See:	https://math.stackexchange.com/questions/180418/calculate-rotation-matrix-to-align-vector-a-to-vector-b-in-3d
	v := a.Cross(b)
	k := 1 / (1 + a.Dot(b))
	vx := M33{0, -v.Z, v.Y, v.Z, 0, -v.X, -v.Y, v.X, 0}
	r := Identity2d().Add(vx).Add(vx.Mul(vx).MulScalar(k))
	return M44{
		r[0], r[1], r[2], 0,
		r[3], r[4], r[5], 0,
		r[6], r[7], r[8], 0,
		0, 0, 0, 1,
	}
}

//-----------------------------------------------------------------------------

// Equals tests the equality of 4x4 matrices.
func (a M44) Equals(b M44, tolerance float64) bool {
	return (math.Abs(a[0]-b[0]) < tolerance &&
		math.Abs(a[1]-b[1]) < tolerance &&
		math.Abs(a[2]-b[2]) < tolerance &&
		math.Abs(a[3]-b[3]) < tolerance &&
		math.Abs(a[4]-b[4]) < tolerance &&
		math.Abs(a[5]-b[5]) < tolerance &&
		math.Abs(a[6]-b[6]) < tolerance &&
		math.Abs(a[7]-b[7]) < tolerance &&
		math.Abs(a[8]-b[8]) < tolerance &&
		math.Abs(a[9]-b[9]) < tolerance &&
		math.Abs(a[10]-b[10]) < tolerance &&
		math.Abs(a[11]-b[11]) < tolerance &&
		math.Abs(a[12]-b[12]) < tolerance &&
		math.Abs(a[13]-b[13]) < tolerance &&
		math.Abs(a[14]-b[14]) < tolerance &&
		math.Abs(a[15]-b[15]) < tolerance)
}

// Equals tests the equality of 3x3 matrices.
func (a M33) Equals(b M33, tolerance float64) bool {
	return (math.Abs(a[0]-b[0]) < tolerance &&
		math.Abs(a[1]-b[1]) < tolerance &&
		math.Abs(a[2]-b[2]) < tolerance &&
		math.Abs(a[3]-b[3]) < tolerance &&
		math.Abs(a[4]-b[4]) < tolerance &&
		math.Abs(a[5]-b[5]) < tolerance &&
		math.Abs(a[6]-b[6]) < tolerance &&
		math.Abs(a[7]-b[7]) < tolerance &&
		math.Abs(a[8]-b[8]) < tolerance)
}

// Equals tests the equality of 2x2 matrices.
func (a M22) Equals(b M22, tolerance float64) bool {
	return (math.Abs(a[0]-b[0]) < tolerance &&
		math.Abs(a[1]-b[1]) < tolerance &&
		math.Abs(a[2]-b[2]) < tolerance &&
		math.Abs(a[3]-b[3]) < tolerance)
}

//-----------------------------------------------------------------------------

// MulPosition multiplies a v3.Vec position with a rotate/translate matrix.
func (a M44) MulPosition(b v3.Vec) v3.Vec {
	return v3.Vec{a[0]*b.X + a[1]*b.Y + a[2]*b.Z + a[3],
		a[4]*b.X + a[5]*b.Y + a[6]*b.Z + a[7],
		a[8]*b.X + a[9]*b.Y + a[10]*b.Z + a[11]}
}

// MulPosition multiplies a v2.Vec position with a rotate/translate matrix.
func (a M33) MulPosition(b v2.Vec) v2.Vec {
	return v2.Vec{a[0]*b.X + a[1]*b.Y + a[2], a[3]*b.X + a[4]*b.Y + a[5]}
}

// MulPosition multiplies a v2.Vec position with a rotate matrix.
func (a M22) MulPosition(b v2.Vec) v2.Vec {
	return v2.Vec{a[0]*b.X + a[1]*b.Y, a[2]*b.X + a[3]*b.Y}
}

//-----------------------------------------------------------------------------

// mulVertices2 multiples a set of v2.Vec vertices by a rotate/translate matrix.
func mulVertices2(v v2.VecSet, a M33) {
	for i := range v {
		v[i] = a.MulPosition(v[i])
	}
}

// mulVertices3 multiples a set of v3.Vec vertices by a rotate/translate matrix.
func mulVertices3(v v3.VecSet, a M44) {
	for i := range v {
		v[i] = a.MulPosition(v[i])
	}
}

//-----------------------------------------------------------------------------

// Mul multiplies 4x4 matrices.
func (a M44) Mul(b M44) M44 {
	return M44{
		a[0]*b[0] + a[1]*b[4] + a[2]*b[8] + a[3]*b[12],
		a[0]*b[1] + a[1]*b[5] + a[2]*b[9] + a[3]*b[13],
		a[0]*b[2] + a[1]*b[6] + a[2]*b[10] + a[3]*b[14],
		a[0]*b[3] + a[1]*b[7] + a[2]*b[11] + a[3]*b[15],
		a[4]*b[0] + a[5]*b[4] + a[6]*b[8] + a[7]*b[12],
		a[4]*b[1] + a[5]*b[5] + a[6]*b[9] + a[7]*b[13],
		a[4]*b[2] + a[5]*b[6] + a[6]*b[10] + a[7]*b[14],
		a[4]*b[3] + a[5]*b[7] + a[6]*b[11] + a[7]*b[15],
		a[8]*b[0] + a[9]*b[4] + a[10]*b[8] + a[11]*b[12],
		a[8]*b[1] + a[9]*b[5] + a[10]*b[9] + a[11]*b[13],
		a[8]*b[2] + a[9]*b[6] + a[10]*b[10] + a[11]*b[14],
		a[8]*b[3] + a[9]*b[7] + a[10]*b[11] + a[11]*b[15],
		a[12]*b[0] + a[13]*b[4] + a[14]*b[8] + a[15]*b[12],
		a[12]*b[1] + a[13]*b[5] + a[14]*b[9] + a[15]*b[13],
		a[12]*b[2] + a[13]*b[6] + a[14]*b[10] + a[15]*b[14],
		a[12]*b[3] + a[13]*b[7] + a[14]*b[11] + a[15]*b[15],
	}
}

// Mul multiplies 3x3 matrices.
func (a M33) Mul(b M33) M33 {
	return M33{
		a[0]*b[0] + a[1]*b[3] + a[2]*b[6],
		a[0]*b[1] + a[1]*b[4] + a[2]*b[7],
		a[0]*b[2] + a[1]*b[5] + a[2]*b[8],
		a[3]*b[0] + a[4]*b[3] + a[5]*b[6],
		a[3]*b[1] + a[4]*b[4] + a[5]*b[7],
		a[3]*b[2] + a[4]*b[5] + a[5]*b[8],
		a[6]*b[0] + a[7]*b[3] + a[8]*b[6],
		a[6]*b[1] + a[7]*b[4] + a[8]*b[7],
		a[6]*b[2] + a[7]*b[5] + a[8]*b[8],
	}
}

// Mul multiplies 2x2 matrices.
func (a M22) Mul(b M22) M22 {
	return M22{
		a[0]*b[0] + a[1]*b[2],
		a[0]*b[1] + a[1]*b[3],
		a[2]*b[0] + a[3]*b[2],
		a[2]*b[1] + a[3]*b[3],
	}
}

//-----------------------------------------------------------------------------

// Add two 3x3 matrices.
func (a M33) Add(b M33) M33 {
	return M33{
		a[0] + b[0],
		a[1] + b[1],
		a[2] + b[2],
		a[3] + b[3],
		a[4] + b[4],
		a[5] + b[5],
		a[6] + b[6],
		a[7] + b[7],
		a[8] + b[8],
	}
}

//-----------------------------------------------------------------------------

// MulScalar multiplies each 3x3 matrix component by a scalar.
func (a M33) MulScalar(k float64) M33 {
	return M33{
		k * a[0], k * a[1], k * a[2],
		k * a[3], k * a[4], k * a[5],
		k * a[6], k * a[7], k * a[8],
	}
}

//-----------------------------------------------------------------------------
// Transform bounding boxes - keep them axis aligned
// http://dev.theomader.com/transform-bounding-boxes/

// MulBox rotates/translates a 3d bounding box and resizes for axis-alignment.
func (a M44) MulBox(box Box3) Box3 {
	r := v3.Vec{a[0], a[4], a[8]}
	u := v3.Vec{a[1], a[5], a[9]}
	b := v3.Vec{a[2], a[6], a[10]}
	t := v3.Vec{a[3], a[7], a[11]}
	xa := r.MulScalar(box.Min.X)
	xb := r.MulScalar(box.Max.X)
	ya := u.MulScalar(box.Min.Y)
	yb := u.MulScalar(box.Max.Y)
	za := b.MulScalar(box.Min.Z)
	zb := b.MulScalar(box.Max.Z)
	xa, xb = xa.Min(xb), xa.Max(xb)
	ya, yb = ya.Min(yb), ya.Max(yb)
	za, zb = za.Min(zb), za.Max(zb)
	min := xa.Add(ya).Add(za).Add(t)
	max := xb.Add(yb).Add(zb).Add(t)
	return Box3{min, max}
}

// MulBox rotates/translates a 2d bounding box and resizes for axis-alignment.
func (a M33) MulBox(box Box2) Box2 {
	r := v2.Vec{a[0], a[3]}
	u := v2.Vec{a[1], a[4]}
	t := v2.Vec{a[2], a[5]}
	xa := r.MulScalar(box.Min.X)
	xb := r.MulScalar(box.Max.X)
	ya := u.MulScalar(box.Min.Y)
	yb := u.MulScalar(box.Max.Y)
	xa, xb = xa.Min(xb), xa.Max(xb)
	ya, yb = ya.Min(yb), ya.Max(yb)
	min := xa.Add(ya).Add(t)
	max := xb.Add(yb).Add(t)
	return Box2{min, max}
}

//-----------------------------------------------------------------------------

// Determinant returns the determinant of a 4x4 matrix.
func (a M44) Determinant() float64 {
	return (a[0]*a[5]*a[10]*a[15] - a[0]*a[5]*a[11]*a[14] +
		a[0]*a[6]*a[11]*a[13] - a[0]*a[6]*a[9]*a[15] +
		a[0]*a[7]*a[9]*a[14] - a[0]*a[7]*a[10]*a[13] -
		a[1]*a[6]*a[11]*a[12] + a[1]*a[6]*a[8]*a[15] -
		a[1]*a[7]*a[8]*a[14] + a[1]*a[7]*a[10]*a[12] -
		a[1]*a[4]*a[10]*a[15] + a[1]*a[4]*a[11]*a[14] +
		a[2]*a[7]*a[8]*a[13] - a[2]*a[7]*a[9]*a[12] +
		a[2]*a[4]*a[9]*a[15] - a[2]*a[4]*a[11]*a[13] +
		a[2]*a[5]*a[11]*a[12] - a[2]*a[5]*a[8]*a[15] -
		a[3]*a[4]*a[9]*a[14] + a[3]*a[4]*a[10]*a[13] -
		a[3]*a[5]*a[10]*a[12] + a[3]*a[5]*a[8]*a[14] -
		a[3]*a[6]*a[8]*a[13] + a[3]*a[6]*a[9]*a[12])
}

// Determinant returns the determinant of a 3x3 matrix.
func (a M33) Determinant() float64 {
	return (a[0]*(a[4]*a[8]-a[7]*a[5]) -
		a[1]*(a[3]*a[8]-a[6]*a[5]) +
		a[2]*(a[3]*a[7]-a[6]*a[4]))
}

// Determinant returns the determinant of a 2x2 matrix.
func (a M22) Determinant() float64 {
	return a[0]*a[3] - a[1]*a[2]
}

//-----------------------------------------------------------------------------

// Inverse returns the inverse of a 4x4 matrix.
func (a M44) Inverse() M44 {
	d := 1 / a.Determinant()
	return M44{
		(a[6]*a[11]*a[13] - a[7]*a[10]*a[13] + a[7]*a[9]*a[14] - a[5]*a[11]*a[14] - a[6]*a[9]*a[15] + a[5]*a[10]*a[15]) * d,
		(a[3]*a[10]*a[13] - a[2]*a[11]*a[13] - a[3]*a[9]*a[14] + a[1]*a[11]*a[14] + a[2]*a[9]*a[15] - a[1]*a[10]*a[15]) * d,
		(a[2]*a[7]*a[13] - a[3]*a[6]*a[13] + a[3]*a[5]*a[14] - a[1]*a[7]*a[14] - a[2]*a[5]*a[15] + a[1]*a[6]*a[15]) * d,
		(a[3]*a[6]*a[9] - a[2]*a[7]*a[9] - a[3]*a[5]*a[10] + a[1]*a[7]*a[10] + a[2]*a[5]*a[11] - a[1]*a[6]*a[11]) * d,
		(a[7]*a[10]*a[12] - a[6]*a[11]*a[12] - a[7]*a[8]*a[14] + a[4]*a[11]*a[14] + a[6]*a[8]*a[15] - a[4]*a[10]*a[15]) * d,
		(a[2]*a[11]*a[12] - a[3]*a[10]*a[12] + a[3]*a[8]*a[14] - a[0]*a[11]*a[14] - a[2]*a[8]*a[15] + a[0]*a[10]*a[15]) * d,
		(a[3]*a[6]*a[12] - a[2]*a[7]*a[12] - a[3]*a[4]*a[14] + a[0]*a[7]*a[14] + a[2]*a[4]*a[15] - a[0]*a[6]*a[15]) * d,
		(a[2]*a[7]*a[8] - a[3]*a[6]*a[8] + a[3]*a[4]*a[10] - a[0]*a[7]*a[10] - a[2]*a[4]*a[11] + a[0]*a[6]*a[11]) * d,
		(a[5]*a[11]*a[12] - a[7]*a[9]*a[12] + a[7]*a[8]*a[13] - a[4]*a[11]*a[13] - a[5]*a[8]*a[15] + a[4]*a[9]*a[15]) * d,
		(a[3]*a[9]*a[12] - a[1]*a[11]*a[12] - a[3]*a[8]*a[13] + a[0]*a[11]*a[13] + a[1]*a[8]*a[15] - a[0]*a[9]*a[15]) * d,
		(a[1]*a[7]*a[12] - a[3]*a[5]*a[12] + a[3]*a[4]*a[13] - a[0]*a[7]*a[13] - a[1]*a[4]*a[15] + a[0]*a[5]*a[15]) * d,
		(a[3]*a[5]*a[8] - a[1]*a[7]*a[8] - a[3]*a[4]*a[9] + a[0]*a[7]*a[9] + a[1]*a[4]*a[11] - a[0]*a[5]*a[11]) * d,
		(a[6]*a[9]*a[12] - a[5]*a[10]*a[12] - a[6]*a[8]*a[13] + a[4]*a[10]*a[13] + a[5]*a[8]*a[14] - a[4]*a[9]*a[14]) * d,
		(a[1]*a[10]*a[12] - a[2]*a[9]*a[12] + a[2]*a[8]*a[13] - a[0]*a[10]*a[13] - a[1]*a[8]*a[14] + a[0]*a[9]*a[14]) * d,
		(a[2]*a[5]*a[12] - a[1]*a[6]*a[12] - a[2]*a[4]*a[13] + a[0]*a[6]*a[13] + a[1]*a[4]*a[14] - a[0]*a[5]*a[14]) * d,
		(a[1]*a[6]*a[8] - a[2]*a[5]*a[8] + a[2]*a[4]*a[9] - a[0]*a[6]*a[9] - a[1]*a[4]*a[10] + a[0]*a[5]*a[10]) * d,
	}
}

// Inverse returns the inverse of a 3x3 matrix.
func (a M33) Inverse() M33 {
	d := 1 / a.Determinant()
	return M33{
		(a[4]*a[8] - a[5]*a[7]) * d,
		(a[7]*a[2] - a[1]*a[8]) * d,
		(a[1]*a[5] - a[4]*a[2]) * d,
		(a[5]*a[6] - a[8]*a[3]) * d,
		(a[8]*a[0] - a[6]*a[2]) * d,
		(a[2]*a[3] - a[5]*a[0]) * d,
		(a[3]*a[7] - a[6]*a[4]) * d,
		(a[6]*a[1] - a[0]*a[7]) * d,
		(a[0]*a[4] - a[1]*a[3]) * d,
	}
}

// Inverse returns the inverse of a 2x2 matrix.
func (a M22) Inverse() M22 {
	d := 1 / a.Determinant()
	return M22{
		a[3] * d,
		-a[1] * d,
		-a[2] * d,
		a[0] * d,
	}
}

//-----------------------------------------------------------------------------

// NewM44 returns a new matrix. Input is in row-major order.
func NewM44(x [16]float64) M44 {
	return M44{
		x[0], x[1], x[2], x[3],
		x[4], x[5], x[6], x[7],
		x[8], x[9], x[10], x[11],
		x[12], x[13], x[14], x[15],
	}
}

// Values returns the matrix values in row-major order.
func (a M44) Values() [16]float64 {
	return [16]float64{
		a[0], a[1], a[2], a[3],
		a[4], a[5], a[6], a[7],
		a[8], a[9], a[10], a[11],
		a[12], a[13], a[14], a[15],
	}
}

//-----------------------------------------------------------------------------

// NewM33 returns a new matrix. Input is in row-major order.
func NewM33(x [9]float64) M33 {
	return M33{
		x[0], x[1], x[2],
		x[3], x[4], x[5],
		x[6], x[7], x[8],
	}
}

// Values returns the matrix values in row-major order.
func (a M33) Values() [9]float64 {
	return [9]float64{
		a[0], a[1], a[2],
		a[3], a[4], a[5],
		a[6], a[7], a[8],
	}
}

//-----------------------------------------------------------------------------

// NewM22 returns a new matrix. Input is in row-major order.
func NewM22(x [4]float64) M22 {
	return M22{
		x[0], x[1],
		x[2], x[3]}
}

// Values returns the matrix values in row-major order.
func (a M22) Values() [4]float64 {
	return [4]float64{
		a[0], a[1],
		a[2], a[3]}
}

//-----------------------------------------------------------------------------
