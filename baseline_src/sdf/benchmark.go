//-----------------------------------------------------------------------------
/*

Report benchmarking results for evaluations on SDF2/SDF3 objects.

*/
//-----------------------------------------------------------------------------

package sdf

import (
	"fmt"
	"time"
)

//-----------------------------------------------------------------------------

const nEvals = 1000000

//-----------------------------------------------------------------------------

// fmtEPS returns a string with a formatted evaluations per second.
func fmtEPS(eps float64) string {
	if eps > 1000000000.0 {
		return fmt.Sprintf("%.2f G evals/sec", eps/1000000000.0)
	} else if eps > 1000000.0 {
		return fmt.Sprintf("%.2f M evals/sec", eps/1000000.0)
	} else if eps > 1000.0 {
		return fmt.Sprintf("%.2f K evals/sec", eps/1000.0)
	}
	return fmt.Sprintf("%.2f evals/sec", eps)
}

//-----------------------------------------------------------------------------

// BenchmarkSDF2 reports the evaluation speed for an SDF2.
func BenchmarkSDF2(description string, s SDF2) {
	// sample over a region larger than the bounding box
	box := NewBox2(s.BoundingBox().Center(), s.BoundingBox().Size().MulScalar(1.2))
	points := box.RandomSet(nEvals)

	start := time.Now()
	for _, p := range points {
		s.Evaluate(p)
	}
	elapsed := time.Since(start)

	eps := float64(nEvals) * float64(time.Second) / float64(elapsed)
	fmt.Printf("%s %s\n", description, fmtEPS(eps))
}

//-----------------------------------------------------------------------------

// BenchmarkSDF3 reports the evaluation speed for an SDF3.
func BenchmarkSDF3(description string, s SDF3) {
	// sample over a region larger than the bounding box
	box := NewBox3(s.BoundingBox().Center(), s.BoundingBox().Size().MulScalar(1.2))
	points := box.RandomSet(nEvals)

	start := time.Now()
	for _, p := range points {
		s.Evaluate(p)
	}
	elapsed := time.Since(start)

	eps := float64(nEvals) * float64(time.Second) / float64(elapsed)
	fmt.Printf("%s %s\n", description, fmtEPS(eps))
}

//-----------------------------------------------------------------------------
