//-----------------------------------------------------------------------------
/*

2D Boxes

*/
//-----------------------------------------------------------------------------

package sdf

import (
	"errors"
	"math"

	"github.com/deadsy/sdfx/vec/conv"
	v2 "github.com/deadsy/sdfx/vec/v2"
	"github.com/deadsy/sdfx/vec/v2i"
)

//-----------------------------------------------------------------------------

// Box2 is a 2d bounding box.
type Box2 struct {
	Min, Max v2.Vec
}

// NewBox2 creates a 2d box with a given center and size.
func NewBox2(center, size v2.Vec) Box2 {
	half := size.MulScalar(0.5)
	return Box2{center.Sub(half), center.Add(half)}
}

// Extend returns a box enclosing two 2d boxes.
func (a Box2) Extend(b Box2) Box2 {
	return Box2{a.Min.Min(b.Min), a.Max.Max(b.Max)}
}

// Include enlarges a 2d box to include a point.
func (a Box2) Include(v v2.Vec) Box2 {
	return Box2{a.Min.Min(v), a.Max.Max(v)}
}

// Translate translates a 2d box.
func (a Box2) Translate(v v2.Vec) Box2 {
	return Box2{a.Min.Add(v), a.Max.Add(v)}
}

// Size returns the size of a 2d box.
func (a Box2) Size() v2.Vec {
	return a.Max.Sub(a.Min)
}

// Center returns the center of a 2d box.
func (a Box2) Center() v2.Vec {
	return a.Min.Add(a.Size().MulScalar(0.5))
}

// ScaleAboutCenter returns a new 2d box scaled about the center of a box.
func (a Box2) ScaleAboutCenter(k float64) Box2 {
	return NewBox2(a.Center(), a.Size().MulScalar(k))
}

// Enlarge returns a new 2d box enlarged by a size vector.
func (a Box2) Enlarge(v v2.Vec) Box2 {
	v = v.MulScalar(0.5)
	return Box2{a.Min.Sub(v), a.Max.Add(v)}
}

// Square returns a square box larger than the original box.
func (a Box2) Square() Box2 {
	side := a.Size().MaxComponent()
	return Box2{a.Min, a.Min.Add(v2.Vec{side, side})}
}

// Contains checks if the 2d box contains the point.
func (a Box2) Contains(v v2.Vec) bool {
	return v.X >= a.Min.X &&
		v.Y >= a.Min.Y &&
		v.X <= a.Max.X &&
		v.Y <= a.Max.Y
}

// Vertices returns a slice of 2d box corner vertices.
func (a Box2) Vertices() v2.VecSet {
	return []v2.Vec{
		a.Min,              // bl
		{a.Max.X, a.Min.Y}, // br
		{a.Min.X, a.Max.Y}, // tl
		a.Max,              // tr
	}
}

// Snap a point to the box edges
func (a *Box2) Snap(p v2.Vec, delta float64) v2.Vec {
	p.X = SnapFloat64(p.X, a.Min.X, delta)
	p.X = SnapFloat64(p.X, a.Max.X, delta)
	p.Y = SnapFloat64(p.Y, a.Min.Y, delta)
	p.Y = SnapFloat64(p.Y, a.Max.Y, delta)
	return p
}

// Equals test the equality of 2d boxes.
func (a Box2) Equals(b Box2, delta float64) bool {
	return (a.Min.Equals(b.Min, delta) && a.Max.Equals(b.Max, delta))
}

//-----------------------------------------------------------------------------
// Box Sub-Quadrants
//
// The quadrants share the box's own corner and centre coordinates, so that the
// edges of neighbouring quadrants (at every level) are the same numbers.

// quad0 returns the 0th quadtree box of a box (lower-left).
func (a Box2) quad0() Box2 {
	c := a.Center()
	return Box2{a.Min, c}
}

// quad1 returns the 1st quadtree box of a box (lower-right).
func (a Box2) quad1() Box2 {
	c := a.Center()
	return Box2{v2.Vec{c.X, a.Min.Y}, v2.Vec{a.Max.X, c.Y}}
}

// quad2 returns the 2nd quadtree box of a box (top-left).
func (a Box2) quad2() Box2 {
	c := a.Center()
	return Box2{v2.Vec{a.Min.X, c.Y}, v2.Vec{c.X, a.Max.Y}}
}

// quad3 returns the 3rd quadtree box of a box (top-right).
func (a Box2) quad3() Box2 {
	c := a.Center()
	return Box2{c, a.Max}
}

//-----------------------------------------------------------------------------

// bottomLeft returns the bottom-left corner of a 2d bounding box.
func (a Box2) bottomLeft() v2.Vec {
	return a.Min
}

// topLeft returns the top-left corner of a 2d bounding box.
func (a Box2) topLeft() v2.Vec {
	return v2.Vec{a.Min.X, a.Max.Y}
}

// Map2 maps a 2d region to integer grid coordinates.
type Map2 struct {
	bb    Box2    // bounding box
	grid  v2i.Vec // integral dimension
	delta v2.Vec
	flipy bool // flip the y-axis
}

// NewMap2 returns a 2d region to grid coordinates map.
func NewMap2(bb Box2, grid v2i.Vec, flipy bool) (*Map2, error) {
	// sanity check the bounding box
	bbSize := bb.Size()
	if bbSize.X <= 0 || bbSize.Y <= 0 {
		return nil, errors.New("bad bounding box")
	}
	// sanity check the integer dimensions
	if grid.X <= 0 || grid.Y <= 0 {
		return nil, errors.New("bad grid dimensions")
	}
	m := Map2{}
	m.bb = bb
	m.grid = grid
	m.flipy = flipy
	m.delta = bbSize.Div(conv.V2iToV2(grid))
	return &m, nil
}

// ToV2 converts grid integer coordinates to 2d region float coordinates.
func (m *Map2) ToV2(p v2i.Vec) v2.Vec {
	ofs := conv.V2iToV2(p).AddScalar(0.5).Mul(m.delta)
	var origin v2.Vec
	if m.flipy {
		origin = m.bb.topLeft()
		ofs.Y = -ofs.Y
	} else {
		origin = m.bb.bottomLeft()
	}
	return origin.Add(ofs)
}

// ToV2i converts 2d region float coordinates to grid integer coordinates.
func (m *Map2) ToV2i(p v2.Vec) v2i.Vec {
	var v v2.Vec
	if m.flipy {
		v = p.Sub(m.bb.topLeft())
		v.Y = -v.Y
	} else {
		v = p.Sub(m.bb.bottomLeft())
	}
	return conv.V2ToV2i(v.Div(m.delta))
}

//-----------------------------------------------------------------------------
// Minimum/Maximum distances from a point to a box

// MinMaxDist2 returns the minimum and maximum dist * dist from a point to a box.
// Points within the box have minimum distance = 0.
func (a Box2) MinMaxDist2(p v2.Vec) Interval {
	maxDist2 := 0.0
	minDist2 := 0.0

	// translate the box so p is at the origin
	a = a.Translate(p.Neg())

	// consider the vertices
	vs := a.Vertices()

	for i := range vs {
		d2 := vs[i].Length2()
		if i == 0 {
			minDist2 = d2
		} else {
			minDist2 = math.Min(minDist2, d2)
		}
		maxDist2 = math.Max(maxDist2, d2)
	}

	// consider the sides (for the minimum)
	withinX := a.Min.X < 0 && a.Max.X > 0
	withinY := a.Min.Y < 0 && a.Max.Y > 0

	if withinX && withinY {
		minDist2 = 0
	} else {
		if withinX {
			d := math.Min(math.Abs(a.Max.Y), math.Abs(a.Min.Y))
			minDist2 = math.Min(minDist2, d*d)
		}
		if withinY {
			d := math.Min(math.Abs(a.Max.X), math.Abs(a.Min.X))
			minDist2 = math.Min(minDist2, d*d)
		}
	}

	return Interval{minDist2, maxDist2}
}

//-----------------------------------------------------------------------------

// tAppend appends a t-value to the slice if it is unique and in range.
func tAppend(set []float64, t float64) []float64 {
	if t < 0 || t > 1 {
		// out of range
		return set
	}
	for i := range set {
		if EqualFloat64(set[i], t, tolerance) {
			return set
		}
	}
	return append(set, t)
}

// lineIntersect returns a line/box intersection.
func (a *Box2) lineIntersect(l *Line2) *Line2 {

	u := l[0]
	v := l[1].Sub(l[0])

	if v.Y == 0 && u.Y == a.Max.Y {
		// no solutions on the top box edge
		return nil
	}

	if v.X == 0 && u.X == a.Max.X {
		// no solutions on the right box edge
		return nil
	}

	// early exit for a line entirely within the box
	if a.Contains(l[0]) && a.Contains(l[1]) {
		return l
	}

	tSet := []float64{0, 1}

	if v.Y != 0 {
		// consider intersection with y-sides (top/bottom)
		k := 1.0 / v.Y
		tSet = tAppend(tSet, (a.Min.Y-u.Y)*k)
		tSet = tAppend(tSet, (a.Max.Y-u.Y)*k)
	}

	if v.X != 0 {
		// consider intersection with x-sides (left/right)
		k := 1.0 / v.X
		tSet = tAppend(tSet, (a.Min.X-u.X)*k)
		tSet = tAppend(tSet, (a.Max.X-u.X)*k)
	}

	// filter the t-values
	var pSet []v2.Vec
	for _, t := range tSet {
		p := u.Add(v.MulScalar(t))
		if t == 1 {
			// the end point itself: u + v can differ from l[1] in the last bit
			p = l[1]
		}
		p = a.Snap(p, tolerance)
		// is the point in the box?
		if a.Contains(p) {
			pSet = append(pSet, p)
		}
	}

	if len(pSet) != 2 {
		return nil
	}

	// make sure it's aligned with the original line
	vx := pSet[1].Sub(pSet[0])
	if v.Dot(vx) > 0 {
		return &Line2{pSet[0], pSet[1]}
	}
	return &Line2{pSet[1], pSet[0]}
}

// lineFilter returns the intersection of a box and a set of line segments.
func (a *Box2) lineFilter(lSet []*Line2) []*Line2 {
	var out []*Line2
	for _, l := range lSet {
		x := a.lineIntersect(l)
		if x != nil {
			out = append(out, x)
		}
	}
	return out
}

//-----------------------------------------------------------------------------

// Random returns a random point within a 2d box.
func (a *Box2) Random() v2.Vec {
	return v2.Vec{
		randomRange(a.Min.X, a.Max.X),
		randomRange(a.Min.Y, a.Max.Y),
	}
}

// RandomSet returns a set of random points from within a 2d box.
func (a *Box2) RandomSet(n int) v2.VecSet {
	s := make([]v2.Vec, n)
	for i := range s {
		s[i] = a.Random()
	}
	return s
}

//-----------------------------------------------------------------------------
