//-----------------------------------------------------------------------------
/*

3D Mesh, 3d triangles connected to create manifold objects.

*/
//-----------------------------------------------------------------------------

package sdf

import (
	v2 "github.com/deadsy/sdfx/vec/v2"
	v3 "github.com/deadsy/sdfx/vec/v3"
)

//-----------------------------------------------------------------------------

// triangleInfo stores pre-calculated triangle information.
type triangleInfo struct {
	m M44       // rotate/translate to XY matrix
	t [3]v2.Vec // transformed triangle vertices
	e [3]v2.Vec // anti-clockwise (from +z) unit edge vectors
	n [3]v2.Vec // outward pointing unit normals to edge vectors
}

// newTriangleInfo pre-calculates the triangle information.
func newTriangleInfo(t *Triangle3) *triangleInfo {

	m := t.rotateToXY()

	x1 := m.MulPosition(t[1]) // maps to x axis
	x2 := m.MulPosition(t[2]) // maps to xy plane

	// triangle vertices on xy plane
	t0 := v2.Vec{0, 0}
	t1 := v2.Vec{x1.X, 0}
	t2 := v2.Vec{x2.X, x2.Y}

	// triangle edge vectors
	e0 := t1.Sub(t0).Normalize()
	e1 := t2.Sub(t1).Normalize()
	e2 := t0.Sub(t2).Normalize()

	// normals to triangle edges
	n0 := v2.Vec{e0.Y, -e0.X}
	n1 := v2.Vec{e1.Y, -e1.X}
	n2 := v2.Vec{e2.Y, -e2.X}

	return &triangleInfo{
		m: m,
		t: [3]v2.Vec{t0, t1, t2},
		e: [3]v2.Vec{e0, e1, e2},
		n: [3]v2.Vec{n0, n1, n2},
	}
}

func convertTriangles(tSet []*Triangle3) []*triangleInfo {
	ti := make([]*triangleInfo, len(tSet))
	for i := range tSet {
		ti[i] = newTriangleInfo(tSet[i])
	}
	return ti
}

// minDistance2 returns the minium distance squared between a point and the triangle.
func (a *triangleInfo) minDistance2(p v3.Vec) float64 {

	// See: https://www.researchgate.net/publication/243787422_3D_Distance_from_a_Point_to_a_Triangle
	// We use the 2d method. Rotate/translate the point and triangle so the triangle is in the XY
	// plane and then project p onto the xy plane for consideration of the plane/edge/vertex cases.

	// rotate/translate the point so the triangle is in the xy plane.
	p = a.m.MulPosition(p)

	// pXY is the closest point on the XY plane
	pXY := v2.Vec{p.X, p.Y}

	// pXY wrt the triangle vertices
	pXY0 := pXY.Sub(a.t[0])
	pXY1 := pXY.Sub(a.t[1])
	pXY2 := pXY.Sub(a.t[2])

	d2 := p.Z * p.Z

	// edge 0
	if pXY0.Cross(a.e[0]) > 0 {
		// right of edge 0
		if pXY0.Cross(a.n[0]) > 0 {
			// closest to vertex 0
			return d2 + pXY0.Length2()
		}
		if pXY1.Cross(a.n[0]) < 0 {
			// closest to vertex 1
			return d2 + pXY1.Length2()
		}
		// closest to edge 0
		dn := pXY0.Dot(a.n[0])
		return d2 + (dn * dn)
	}

	// edge 1
	if pXY1.Cross(a.e[1]) > 0 {
		// right of edge 1
		if pXY1.Cross(a.n[1]) > 0 {
			// closest to vertex 1
			return d2 + pXY1.Length2()
		}
		if pXY2.Cross(a.n[1]) < 0 {
			// closest to vertex 2
			return d2 + pXY2.Length2()
		}
		// closest to edge 1
		dn := pXY1.Dot(a.n[1])
		return d2 + (dn * dn)
	}

	// edge 2
	if pXY2.Cross(a.e[2]) > 0 {
		// right of edge 2
		if pXY2.Cross(a.n[2]) > 0 {
			// closest to vertex 2
			return d2 + pXY2.Length2()
		}
		if pXY0.Cross(a.n[2]) < 0 {
			// closest to vertex 0
			return d2 + pXY0.Length2()
		}
		// closest to edge 2
		dn := pXY2.Dot(a.n[2])
		return d2 + (dn * dn)
	}

	// left of all edges, pXY is in the triangle
	return d2
}

//-----------------------------------------------------------------------------
// Mesh3D. 3D mesh evaluation with octree speedup.

// MeshSDF3 is an SDF3 made from a set of 3d triangles.
type MeshSDF3 struct {
	mesh []*Triangle3
	bb   Box3 // bounding box
}

// Mesh3D returns an SDF3 made from a set of triangles.
func Mesh3D(mesh []*Triangle3) (SDF3, error) {
	n := len(mesh)
	if n == 0 {
		return nil, ErrMsg("no triangles")
	}

	// work out the bounding box
	bb := mesh[0].BoundingBox()
	for _, t := range mesh {
		bb = bb.Extend(t.BoundingBox())
	}

	return &MeshSDF3{
		mesh: mesh,
		bb:   bb,
	}, nil
}

// Evaluate returns the minimum distance for a 2d mesh.
func (s *MeshSDF3) Evaluate(p v3.Vec) float64 {
	// TODO
	return 0
}

// BoundingBox returns the bounding box of a 3d mesh.
func (s *MeshSDF3) BoundingBox() Box3 {
	return s.bb
}

//-----------------------------------------------------------------------------
// Mesh3D Slow. Provided for testing and benchmarking purposes.

// MeshSDF3Slow is an SDF3 made from a set of 3d triangles.
type MeshSDF3Slow struct {
	mesh []*Triangle3
	bb   Box3 // bounding box
}

// Mesh3DSlow returns an SDF3 made from a set of triangles.
func Mesh3DSlow(mesh []*Triangle3) (SDF3, error) {
	n := len(mesh)
	if n == 0 {
		return nil, ErrMsg("no triangles")
	}

	// work out the bounding box
	bb := mesh[0].BoundingBox()
	for _, t := range mesh {
		bb = bb.Extend(t.BoundingBox())
	}

	return &MeshSDF3Slow{
		mesh: mesh,
		bb:   bb,
	}, nil
}

// Evaluate returns the minimum distance for a 2d mesh.
func (s *MeshSDF3Slow) Evaluate(p v3.Vec) float64 {
	// TODO
	return 0
}

// BoundingBox returns the bounding box of a 3d mesh.
func (s *MeshSDF3Slow) BoundingBox() Box3 {
	return s.bb
}

//-----------------------------------------------------------------------------
