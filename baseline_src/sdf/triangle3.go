//-----------------------------------------------------------------------------
/*

3D Triangles

*/
//-----------------------------------------------------------------------------

package sdf

import (
	"sync"

	v3 "github.com/deadsy/sdfx/vec/v3"
	"github.com/dhconnelly/rtreego"
)

//-----------------------------------------------------------------------------

// Triangle3 is a 3D triangle
type Triangle3 [3]v3.Vec

// Normal returns the normal vector to the plane defined by the 3D triangle.
func (t *Triangle3) Normal() v3.Vec {
	e1 := t[1].Sub(t[0])
	e2 := t[2].Sub(t[0])
	return e1.Cross(e2).Normalize()
}

// Degenerate returns true if the triangle is degenerate.
func (t *Triangle3) Degenerate(tolerance float64) bool {
	// check for identical vertices
	if t[0].Equals(t[1], tolerance) {
		return true
	}
	if t[1].Equals(t[2], tolerance) {
		return true
	}
	if t[2].Equals(t[0], tolerance) {
		return true
	}
	// TODO more tests needed
	return false
}

// BoundingBox returns a bounding box for the triangle.
func (t *Triangle3) BoundingBox() Box3 {
	return Box3{Min: t[0], Max: t[0]}.Include(t[1]).Include(t[2])
}

// Equals tests if two triangles are equal within tolerance.
func (t *Triangle3) Equals(a *Triangle3, tolerance float64) bool {
	return t[0].Equals(a[0], tolerance) &&
		t[1].Equals(a[1], tolerance) &&
		t[2].Equals(a[2], tolerance)
}

// rotateVertex rotates the vertices of a triangle
func (t *Triangle3) rotateVertex() Triangle3 {
	return Triangle3{t[2], t[0], t[1]}
}

//-----------------------------------------------------------------------------

func v3ToPoint(v v3.Vec) rtreego.Point {
	return rtreego.Point{v.X, v.Y, v.Z}
}

// Bounds returns a r-tree bounding rectangle for the triangle.
func (t *Triangle3) Bounds() rtreego.Rect {
	b := t.BoundingBox()
	r, _ := rtreego.NewRectFromPoints(v3ToPoint(b.Min), v3ToPoint(b.Max))
	return r
}

//-----------------------------------------------------------------------------

// rotateToXY returns the transformation matrix that maps
// t[0] to the origin, t[1] to the x axis (x > 0), t[2] to the xy plane (y > 0)
func (t *Triangle3) rotateToXY() M44 {

	a := t[0]        // maps to the origin
	b := t[1].Sub(a) // maps to the x-axis
	c := t[2].Sub(a) // maps to the xy-plane

	// u maps to the x-axis
	u := b.Normalize()
	// w maps to the z-axis (normal to the triangle plane)
	w := c.Cross(u).Normalize()
	// v maps to the xy-plane (in the plane of the triangle)
	v := u.Cross(w)

	// translate to the origin
	m := Translate3d(a.Neg())

	return M44{
		u.X, u.Y, u.Z, 0,
		v.X, v.Y, v.Z, 0,
		w.X, w.Y, w.Z, 0,
		0, 0, 0, 1,
	}.Mul(m)
}

//-----------------------------------------------------------------------------
// https://en.wikipedia.org/wiki/Möller–Trumbore_intersection_algorithm

func (t *Triangle3) intersectRay(rp, rv v3.Vec) []v3.Vec {

	e1 := t[1].Sub(t[0])
	e2 := t[2].Sub(t[0])
	h := rv.Cross(e2)
	a := e1.Dot(h)

	if EqualFloat64(a, 0, epsilon) {
		// This ray is parallel to this triangle.
		return nil
	}

	f := 1.0 / a
	s := rp.Sub(t[0])
	u := f * s.Dot(h)

	if u < 0 || u > 1 {
		return nil
	}

	q := s.Cross(e1)
	v := f * rv.Dot(q)

	if v < 0 || u+v > 1 {
		return nil
	}

	// At this stage we can compute t to find out where the intersection point is on the line.
	rt := f * e2.Dot(q)

	if rt > epsilon {
		return []v3.Vec{rp.Add(rv.MulScalar(rt))}
	}

	// This means that there is a line intersection but not a ray intersection.
	return nil
}

//-----------------------------------------------------------------------------

// WriteTriangles writes a stream of triangles to a slice.
func WriteTriangles(wg *sync.WaitGroup, triangles *[]*Triangle3) chan<- []*Triangle3 {
	// External code writes triangles to this channel.
	// This goroutine reads the channel and appends the triangles to a slice.
	c := make(chan []*Triangle3)

	wg.Add(1)
	go func() {
		defer wg.Done()
		// read triangles from the channel and append them to the slice
		for ts := range c {
			for _, t := range ts {
				*triangles = append(*triangles, t)
			}
		}
	}()

	return c
}

//-----------------------------------------------------------------------------
// Triangle3 Buffering

// We write triangles to a channel to decouple the rendering routines from the
// routine that writes file output. We have a lot of triangles and channels
// are not very fast, so it's best to bundle many triangles into a single channel
// write. The renderer doesn't naturally do that, so we buffer triangles before
// writing them to the channel.

// Triangle3Writer is the interface of a triangle writer/closer object.
type Triangle3Writer interface {
	Write(in []*Triangle3) error
	Close() error
}

// size the buffer to avoid re-allocations when appending.
const tBufferSize = 256
const tBufferMargin = 8 // marching cubes produces 0 to 5 triangles

// Triangle3Buffer buffers triangles before writing them to a channel.
type Triangle3Buffer struct {
	buf  []*Triangle3        // triangle buffer
	out  chan<- []*Triangle3 // output channel
	lock sync.Mutex          // lock the the buffer during access
}

// NewTriangle3Buffer returns a Triangle3Buffer.
func NewTriangle3Buffer(out chan<- []*Triangle3) Triangle3Writer {
	return &Triangle3Buffer{
		buf: make([]*Triangle3, 0, tBufferSize+tBufferMargin),
		out: out,
	}
}

func (a *Triangle3Buffer) Write(in []*Triangle3) error {
	a.lock.Lock()
	a.buf = append(a.buf, in...)
	if len(a.buf) >= tBufferSize {
		a.out <- a.buf
		a.buf = make([]*Triangle3, 0, tBufferSize+tBufferMargin)
	}
	a.lock.Unlock()
	return nil
}

// Close flushes out any remaining triangles in the buffer.
func (a *Triangle3Buffer) Close() error {
	a.lock.Lock()
	if len(a.buf) != 0 {
		a.out <- a.buf
		a.buf = nil
	}
	a.lock.Unlock()
	return nil
}

//-----------------------------------------------------------------------------
