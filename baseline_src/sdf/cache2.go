//-----------------------------------------------------------------------------
/*

2D Evaluation Cache

In some cases (E.g. extrusion) 2d SDFs get evaluated repeatedly at the same points.
If a map lookup is cheaper than a distance evaluation it's possible to save time
by caching evaluation results. This SDF2 wraps an underlying SDF2 and caches the
evaluations.

*/
//-----------------------------------------------------------------------------

package sdf

import (
	"fmt"
	"sync"

	v2 "github.com/deadsy/sdfx/vec/v2"
)

//-----------------------------------------------------------------------------

// CacheSDF2 is an SDF2 cache.
type CacheSDF2 struct {
	sdf         SDF2
	cache       map[v2.Vec]float64
	reads, hits uint
	lock        sync.Mutex // lock the cache and counters during access
}

// Cache2D wraps the passed SDF2 with an evaluation cache.
func Cache2D(sdf SDF2) SDF2 {
	return &CacheSDF2{
		sdf:   sdf,
		cache: make(map[v2.Vec]float64),
	}
}

func (s *CacheSDF2) String() string {
	r := float64(s.hits) / float64(s.reads)
	return fmt.Sprintf("reads %d hits %d (%.2f)", s.reads, s.hits, r)
}

// Evaluate returns the minimum distance to a cached 2d sdf.
func (s *CacheSDF2) Evaluate(p v2.Vec) float64 {
	s.lock.Lock()
	s.reads++
	d, ok := s.cache[p]
	if ok {
		s.hits++
	}
	s.lock.Unlock()
	if ok {
		return d
	}
	d = s.sdf.Evaluate(p)
	s.lock.Lock()
	s.cache[p] = d
	s.lock.Unlock()
	return d
}

// BoundingBox returns the bounding box of a cached 2d sdf.
func (s *CacheSDF2) BoundingBox() Box2 {
	return s.sdf.BoundingBox()
}

//-----------------------------------------------------------------------------
