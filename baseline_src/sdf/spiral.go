//-----------------------------------------------------------------------------
/*

2D Spirals

https://math.stackexchange.com/questions/175106/distance-between-point-and-a-spiral

*/
//-----------------------------------------------------------------------------

package sdf

import (
	"errors"
	"math"

	"github.com/deadsy/sdfx/vec/conv"
	"github.com/deadsy/sdfx/vec/p2"
	v2 "github.com/deadsy/sdfx/vec/v2"
)

//-----------------------------------------------------------------------------

// polarDist2 returns the distance squared between two polar points.
func polarDist2(p0, p1 p2.Vec) float64 {
	return (p0.R * p0.R) + (p1.R * p1.R) - 2.0*p0.R*p1.R*math.Cos(p0.Theta-p1.Theta)
}

//-----------------------------------------------------------------------------

// arcSpiral is an archimedean spiral.
type arcSpiral struct {
	a, n, k float64 // r = a * pow(theta, 1/n) + k
}

// radius returns the radius for a given theta.
func (s *arcSpiral) radius(theta float64) float64 {
	var r float64
	if s.a == 0 {
		r = s.k
	} else {
		if s.n == 1.0 {
			r = s.a*theta + s.k
		} else {
			r = math.Pow(theta, 1.0/s.n) + s.k
		}
	}
	return r
}

// theta returns the theta(s) for a given radius.
func (s *arcSpiral) theta(radius float64) ([]float64, error) {
	if s.a == 0 {
		if s.k == radius {
			// infinite solutions
			return nil, errors.New("inf")
		}
		// no solutions
		return nil, nil
	}
	if s.n == 1.0 {
		return []float64{(radius - s.k) / s.a}, nil
	}
	return []float64{math.Exp(s.n * math.Log((radius-s.k)/s.a))}, nil
}

//-----------------------------------------------------------------------------

// ArcSpiralSDF2 is a 2d Archimedean spiral.
type ArcSpiralSDF2 struct {
	spiral     arcSpiral
	d          float64 // offset distance
	start, end p2.Vec  // start/end positions
	bb         Box2
}

// ArcSpiral2D returns a 2d Archimedean spiral (r = m*theta + b).
func ArcSpiral2D(
	a, k float64, // r = m*theta + b
	start, end float64, // start/end angle (radians)
	d float64, // offset distance
) (SDF2, error) {

	// sanity checking
	if start == end {
		return nil, errors.New("start == end")
	}
	if a == 0 {
		return nil, errors.New("a == 0")
	}

	s := ArcSpiralSDF2{
		spiral: arcSpiral{a, 1.0, k},
		d:      d,
	}

	// start and end points
	if start > end {
		start, end = end, start
	}
	s.start = p2.Vec{s.spiral.radius(start), start}
	s.end = p2.Vec{s.spiral.radius(end), end}

	// bounding box
	rMax := math.Max(math.Abs(s.spiral.radius(start)), math.Abs(s.spiral.radius(end))) + d
	s.bb = Box2{v2.Vec{-rMax, -rMax}, v2.Vec{rMax, rMax}}
	return &s, nil
}

// Evaluate returns the minimum distance to a 2d Archimedean spiral.
func (s *ArcSpiralSDF2) Evaluate(p v2.Vec) float64 {
	pp := conv.V2ToP2(p)

	// end points
	d2 := math.Min(polarDist2(pp, s.start), polarDist2(pp, s.end))

	thetas, err := s.spiral.theta(pp.R)
	if err == nil {
		for _, theta := range thetas {
			n := math.Round((pp.Theta - theta) / Tau)
			theta = pp.Theta - (Tau * n)

			if theta >= s.start.Theta && theta <= s.end.Theta {
				d2 = math.Min(d2, polarDist2(pp, p2.Vec{s.spiral.radius(theta), theta}))
			} else {

				if theta < s.start.Theta {
					for theta < s.start.Theta {
						theta += Tau
					}
					if theta < s.end.Theta {
						d2 = math.Min(d2, polarDist2(pp, p2.Vec{s.spiral.radius(theta), theta}))
					}
				}

				if theta > s.end.Theta {
					for theta > s.end.Theta {
						theta -= Tau
					}
					if theta > s.start.Theta {
						d2 = math.Min(d2, polarDist2(pp, p2.Vec{s.spiral.radius(theta), theta}))
					}
				}

			}
		}
	}

	return math.Sqrt(d2) - s.d
}

// BoundingBox returns the bounding box of a 2d Archimedean spiral.
func (s *ArcSpiralSDF2) BoundingBox() Box2 {
	return s.bb
}

//-----------------------------------------------------------------------------
