//-----------------------------------------------------------------------------
/*

Output a 2D line set to a DXF file.

*/
//-----------------------------------------------------------------------------

package render

import (
	"errors"
	"fmt"
	"sync"

	"github.com/deadsy/sdfx/sdf"
	v2 "github.com/deadsy/sdfx/vec/v2"
	"github.com/yofu/dxf"
	"github.com/yofu/dxf/color"
	"github.com/yofu/dxf/drawing"
	"github.com/yofu/dxf/table"
)

//-----------------------------------------------------------------------------

// DXF is a dxf drawing object.
type DXF struct {
	name    string
	drawing *drawing.Drawing
}

// NewDXF returns an empty dxf drawing object.
func NewDXF(name string) *DXF {
	d := dxf.NewDrawing()
	d.AddLayer("Lines", dxf.DefaultColor, dxf.DefaultLineType, true)
	d.AddLayer("Points", color.Red, table.LT_CONTINUOUS, true)
	return &DXF{
		name:    name,
		drawing: d,
	}
}

// Line adds a line to a dxf drawing object.
func (d *DXF) Line(line *sdf.Line2) {
	d.drawing.ChangeLayer("Lines")
	d.drawing.Line(line[0].X, line[0].Y, 0, line[1].X, line[1].Y, 0)
}

// Lines adds a set of lines to a dxf drawing object.
func (d *DXF) Lines(lines []*sdf.Line2) {
	for _, l := range lines {
		d.Line(l)
	}
}

// Points adds a set of points to a dxf drawing object.
func (d *DXF) Points(s v2.VecSet, r float64) {
	d.drawing.ChangeLayer("Points")
	for _, p := range s {
		d.drawing.Circle(p.X, p.Y, 0, r)
	}
}

// Triangle adds a triangle to a dxf drawing object.
func (d *DXF) Triangle(t sdf.Triangle2) {
	l0 := sdf.Line2{t[0], t[1]}
	l1 := sdf.Line2{t[1], t[2]}
	l2 := sdf.Line2{t[2], t[0]}
	d.Lines([]*sdf.Line2{&l0, &l1, &l2})
}

// Box adds a box to a dxf drawing object.
func (d *DXF) Box(a *sdf.Box2) {
	l0 := sdf.Line2{a.Min, v2.Vec{a.Max.X, a.Min.Y}}
	l1 := sdf.Line2{l0[1], a.Max}
	l2 := sdf.Line2{l1[1], v2.Vec{a.Min.X, a.Max.Y}}
	l3 := sdf.Line2{l2[1], l0[0]}
	d.Lines([]*sdf.Line2{&l0, &l1, &l2, &l3})
}

// Save writes a dxf drawing object to a file.
func (d *DXF) Save() error {
	err := d.drawing.SaveAs(d.name)
	if err != nil {
		return err
	}
	return nil
}

//-----------------------------------------------------------------------------

// SaveDXF writes line segments to a DXF file.
func SaveDXF(path string, mesh []*sdf.Line2) error {
	d := NewDXF(path)
	d.drawing.ChangeLayer("Lines")
	for i := range mesh {
		p0 := mesh[i][0]
		p1 := mesh[i][1]
		d.drawing.Line(p0.X, p0.Y, 0, p1.X, p1.Y, 0)
	}
	err := d.Save()
	if err != nil {
		return err
	}
	return nil
}

//-----------------------------------------------------------------------------

// writeDXF writes a stream of line segments to a DXF file.
func writeDXF(wg *sync.WaitGroup, path string) (chan<- []*sdf.Line2, error) {

	d := NewDXF(path)
	d.drawing.ChangeLayer("Lines")

	// External code writes line segments to this channel.
	// This goroutine reads the channel and writes line segments to the file.
	c := make(chan []*sdf.Line2)

	wg.Add(1)
	go func() {
		defer wg.Done()
		for ls := range c {
			for _, l := range ls {
				p0 := l[0]
				p1 := l[1]
				d.drawing.Line(p0.X, p0.Y, 0, p1.X, p1.Y, 0)
			}
		}
		err := d.Save()
		if err != nil {
			fmt.Printf("%s\n", err)
			return
		}
	}()

	return c, nil
}

//-----------------------------------------------------------------------------

// Poly outputs a polygon as a 2D DXF file.
func Poly(p *sdf.Polygon, path string) error {

	vlist := p.Vertices()
	if vlist == nil {
		return errors.New("no vertices")
	}

	fmt.Printf("rendering %s\n", path)
	d := NewDXF(path)

	for i := 0; i < len(vlist)-1; i++ {
		d.Line(&sdf.Line2{vlist[i], vlist[i+1]})
	}

	if p.Closed() {
		p0 := vlist[len(vlist)-1]
		p1 := vlist[0]
		if !p0.Equals(p1, tolerance) {
			d.Line(&sdf.Line2{p0, p1})
		}
	}

	return d.Save()
}

//-----------------------------------------------------------------------------
