package dc

import (
	"log"
	"math"

	v3 "github.com/deadsy/sdfx/vec/v3"
)

func (dc *DualContouringV2) determinant(a, b, c, d, e, f, g, h, i float64) float64 {
	return a*e*i + b*f*g + c*d*h - a*f*h - b*d*i - c*e*g
}

/* dcSolve3x3 Solves for x in  A*x = b. 'A' contains the matrix row-wise. 'b' and 'x' are column vectors. Uses cramer's rule. */
func (dc *DualContouringV2) solve3x3(A []v3.Vec, b []float64) v3.Vec {
	det := dc.determinant(
		A[0].X, A[0].Y, A[0].Z,
		A[1].X, A[1].Y, A[1].Z,
		A[2].X, A[2].Y, A[2].Z)
	if math.Abs(det) <= 1e-12 {
		if !dc.qefFailedImplWarned {
			log.Println("[DualContouringV1] WARNING: Oh-oh - small determinant:", det)
			dc.qefFailedImplWarned = true
		}
		return v3.Vec{X: math.Inf(1)}
	}
	return v3.Vec{
		X: dc.determinant(
			b[0], A[0].Y, A[0].Z,
			b[1], A[1].Y, A[1].Z,
			b[2], A[2].Y, A[2].Z),
		Y: dc.determinant(
			A[0].X, b[0], A[0].Z,
			A[1].X, b[1], A[1].Z,
			A[2].X, b[2], A[2].Z),
		Z: dc.determinant(
			A[0].X, A[0].Y, b[0],
			A[1].X, A[1].Y, b[1],
			A[2].X, A[2].Y, b[2]),
	}.DivScalar(det)
}

func (dc *DualContouringV2) leastSquares(A []v3.Vec, b []float64) v3.Vec {
	// assert len(A) == len(b)
	if len(A) == 3 {
		return dc.solve3x3(A, b)
	}
	AtA := [3]v3.Vec{}
	Atb := [3]float64{}
	for i := 0; i < 3; i++ {
		for j := 0; j < 3; j++ {
			sum := 0.
			for k := 0; k < len(A); k++ {
				sum += A[k].Get(i) * A[k].Get(j)
			}
			AtA[i].Set(j, sum)
		}
	}
	for i := 0; i < 3; i++ {
		sum := 0.
		for k := 0; k < len(A); k++ {
			sum += A[k].Get(i) * b[k]
		}
		Atb[i] = sum
	}
	return dc.solve3x3(AtA[:], Atb[:])
}
