//-----------------------------------------------------------------------------
/*

Dual Contouring

Convert an SDF3 to a triangle mesh.
Uses octree space subdivision.
Supports sharp edges and octree-based mesh simplification.
Based on: https://github.com/nickgildea/DualContouringSample

*/
//-----------------------------------------------------------------------------

package dc

import (
	"fmt"
	"math"
	"sort"

	"github.com/deadsy/sdfx/sdf"
	"github.com/deadsy/sdfx/vec/conv"
	v3 "github.com/deadsy/sdfx/vec/v3"
	"github.com/deadsy/sdfx/vec/v3i"
	"gonum.org/v1/gonum/mat"
)

//-----------------------------------------------------------------------------

// DualContouringV1 renders using dual contouring (octree sampling, sharp edges!, automatic simplification)
type DualContouringV1 struct {
	// Simplify: how much to simplify (if >=0).
	// NOTE: Meshing might fail with simplification enabled (FIXME),
	// but the mesh might can still simplified later using external tools (the main benefit of dual contouring is sharp edges).
	Simplify float64
	// RCond [0, 1) is the parameter that controls the accuracy of sharp edges, with lower being more accurate
	// but it can cause instability leading to large wrong triangles. Leave the default if unsure.
	RCond float64
	// LockVertices makes sure each vertex stays in its voxel, avoiding small or bad triangles that may be generated
	// otherwise, but it also may remove some sharp edges.
	LockVertices bool
}

// NewDualContouringV1 see DualContouringV1
func NewDualContouringV1(simplify float64, RCond float64, lockVertices bool) *DualContouringV1 {
	return &DualContouringV1{Simplify: simplify, RCond: RCond, LockVertices: lockVertices}
}

// Info returns a string describing the rendered volume.
func (m *DualContouringV1) Info(s sdf.SDF3, meshCells int) string {
	bbSize := s.BoundingBox().Size()
	resolution := bbSize.MaxComponent() / float64(meshCells)
	cells := conv.V3ToV3i(bbSize.DivScalar(resolution))
	return fmt.Sprintf("%dx%dx%d, resolution %.2f", cells.X, cells.Y, cells.Z, resolution)
}

// Render produces a 3d triangle mesh over the bounding volume of an sdf3.
func (m *DualContouringV1) Render(s sdf.SDF3, meshCells int, output chan<- *sdf.Triangle3) {
	if m.RCond == 0 {
		m.RCond = 1e-3
	}
	// work out the sampling resolution to use
	bbSize := s.BoundingBox().Size()
	resolution := bbSize.MaxComponent() / float64(meshCells)
	cells := conv.V3ToV3i(bbSize.DivScalar(resolution))
	// Build the octree
	dcOctreeRootNode := dcNewOctree(cells, m.RCond, m.LockVertices)
	dcOctreeRootNode.Populate(s)
	// Simplify it
	if m.Simplify >= 0 {
		dcOctreeRootNode.Simplify(s, m.Simplify)
	}
	// Generate the final mesh
	dcOctreeRootNode.GenerateMesh(output)
}

//-----------------------------------------------------------------------------

var dcChildMinOffsets = [8]v3i.Vec{
	{0, 0, 0},
	{0, 0, 1},
	{0, 1, 0},
	{0, 1, 1},
	{1, 0, 0},
	{1, 0, 1},
	{1, 1, 0},
	{1, 1, 1},
}

var dcEdgevmap = [12][2]int{
	{0, 4}, {1, 5}, {2, 6}, {3, 7}, // x-axis
	{0, 2}, {1, 3}, {4, 6}, {5, 7}, // y-axis
	{0, 1}, {2, 3}, {4, 5}, {6, 7}, // z-axis
}
var dcEdgemask = [3]int{5, 3, 6}

var dcVertMap = [8][3]int{
	{0, 0, 0},
	{0, 0, 1},
	{0, 1, 0},
	{0, 1, 1},
	{1, 0, 0},
	{1, 0, 1},
	{1, 1, 0},
	{1, 1, 1},
}

var dcFaceMap = [6][4]int{{4, 8, 5, 9}, {6, 10, 7, 11}, {0, 8, 1, 10}, {2, 9, 3, 11}, {0, 4, 2, 6}, {1, 5, 3, 7}}

var dcCellProcFaceMask = [12][3]int{{0, 4, 0}, {1, 5, 0}, {2, 6, 0}, {3, 7, 0}, {0, 2, 1}, {4, 6, 1}, {1, 3, 1}, {5, 7, 1}, {0, 1, 2}, {2, 3, 2}, {4, 5, 2}, {6, 7, 2}}

var dcCellProcEdgeMask = [6][5]int{{0, 1, 2, 3, 0}, {4, 5, 6, 7, 0}, {0, 4, 1, 5, 1}, {2, 6, 3, 7, 1}, {0, 2, 4, 6, 2}, {1, 3, 5, 7, 2}}

var dcFaceProcFaceMask = [3][4][3]int{
	{{4, 0, 0}, {5, 1, 0}, {6, 2, 0}, {7, 3, 0}},
	{{2, 0, 1}, {6, 4, 1}, {3, 1, 1}, {7, 5, 1}},
	{{1, 0, 2}, {3, 2, 2}, {5, 4, 2}, {7, 6, 2}},
}

var dcFaceProcEdgeMask = [3][4][6]int{
	{{1, 4, 0, 5, 1, 1}, {1, 6, 2, 7, 3, 1}, {0, 4, 6, 0, 2, 2}, {0, 5, 7, 1, 3, 2}},
	{{0, 2, 3, 0, 1, 0}, {0, 6, 7, 4, 5, 0}, {1, 2, 0, 6, 4, 2}, {1, 3, 1, 7, 5, 2}},
	{{1, 1, 0, 3, 2, 0}, {1, 5, 4, 7, 6, 0}, {0, 1, 5, 0, 4, 1}, {0, 3, 7, 2, 6, 1}},
}

var dcEdgeProcEdgeMask = [3][2][5]int{
	{{3, 2, 1, 0, 0}, {7, 6, 5, 4, 0}},
	{{5, 1, 4, 0, 1}, {7, 3, 6, 2, 1}},
	{{6, 4, 2, 0, 2}, {7, 5, 3, 1, 2}},
}

var dcProcessEdgeMask = [3][4]int{{3, 2, 1, 0}, {7, 5, 6, 4}, {11, 10, 9, 8}}

type dcOctreeNodeType uint

const (
	dcOctreeNodeTypeInternal   dcOctreeNodeType = iota
	dcOctreeNodeTypePseudoLeaf                  // A simplified leaf node
	dcOctreeNodeTypeLeaf
)

type dcOctree struct {
	kind           dcOctreeNodeType
	minOffset      v3i.Vec
	size, meshSize int
	cellCounts     v3i.Vec
	children       [8]*dcOctree
	drawInfo       *dcOctreeDrawInfo
	// Extra parameters
	rCond        float64
	lockVertices bool
}

type dcOctreeDrawInfo struct {
	index, corners          int
	position, averageNormal v3.Vec
	qef                     *dcQefSolver
}

// nextPowerOfTwo is https://stackoverflow.com/questions/466204/rounding-up-to-next-power-of-2
func nextPowerOfTwo(v int) int {
	v--
	v |= v >> 1
	v |= v >> 2
	v |= v >> 4
	v |= v >> 8
	v |= v >> 16
	v++
	return v
}

// dcNewOctree builds the whole octree structure (without simplification) for the given size.
func dcNewOctree(cellCounts v3i.Vec, rCond float64, lockVertices bool) *dcOctree {
	cellCounts = v3i.Vec{ // Need powers of 2 for this algorithm (round-up for more precision)
		nextPowerOfTwo(cellCounts.X),
		nextPowerOfTwo(cellCounts.Y),
		nextPowerOfTwo(cellCounts.Z),
	}
	// Compute the complete octree with the largest component as the size and then ignoring cells outside of bounds
	cubicSize := int(conv.V3iToV3(cellCounts).MaxComponent())
	rootNode := &dcOctree{
		kind:         dcOctreeNodeTypeInternal,
		minOffset:    v3i.Vec{0, 0, 0},
		size:         cubicSize,
		meshSize:     cubicSize,
		cellCounts:   cellCounts,
		children:     [8]*dcOctree{},
		drawInfo:     nil,
		rCond:        rCond,
		lockVertices: lockVertices,
	}
	return rootNode
}

func (node *dcOctree) Populate(d sdf.SDF3) {
	minOffset := node.minOffset
	meshSize := node.meshSize
	cellCounts := node.cellCounts
	maxOffset := minOffset.AddScalar(meshSize)
	// Avoid generating any octree node outside the bounding volume (may filter before reaching leaves)
	if minOffset.X > (meshSize+cellCounts.X)/2 || maxOffset.X < (meshSize-cellCounts.X)/2 ||
		minOffset.Y > (meshSize+cellCounts.Y)/2 || maxOffset.Y < (meshSize-cellCounts.Y)/2 ||
		minOffset.Z > (meshSize+cellCounts.Z)/2 || maxOffset.Z < (meshSize-cellCounts.Z)/2 {
		return
	}
	childSize := node.size / 2
	for i := 0; i < 8; i++ {
		childMinOffset := minOffset.Add(conv.V3ToV3i(conv.V3iToV3(dcChildMinOffsets[i]).MulScalar(float64(childSize))))
		node.children[i] = &dcOctree{
			kind:         dcOctreeNodeTypeInternal,
			minOffset:    childMinOffset,
			size:         childSize,
			meshSize:     meshSize,
			cellCounts:   cellCounts,
			children:     [8]*dcOctree{},
			drawInfo:     nil,
			rCond:        node.rCond,
			lockVertices: node.lockVertices,
		}
		// Recursive children or a leaf node
		if childSize > 1 {
			node.children[i].Populate(d)
		} else {
			node.children[i].computeOctreeLeaf(d)
		}
	}
}

func (node *dcOctree) relToSDF(d sdf.SDF3, i v3i.Vec) v3.Vec {
	bb := d.BoundingBox()
	return bb.Min.Add(bb.Size().Mul(conv.V3iToV3(i).DivScalar(float64(node.meshSize)).
		Div(conv.V3iToV3(node.cellCounts).DivScalar(float64(node.meshSize)))))
}

// computeOctreeLeaf computes the required leaf information that later will be used for meshing
func (node *dcOctree) computeOctreeLeaf(d sdf.SDF3) {
	corners := 0
	for i := 0; i < 8; i++ {
		cornerPos := node.relToSDF(d, node.minOffset.Add(dcChildMinOffsets[i]))
		isSolid := d.Evaluate(cornerPos) < 0
		if isSolid {
			corners = corners | (1 << i)
		}
	}
	if corners == 0 || corners == 255 {
		// voxel is fully inside or outside the volume: store nil for this child
		return
	}
	// otherwise, the voxel contains the surface, so find the edge intersections
	const maxCrossings = 6
	edgeCount := 0
	normalSum := v3.Vec{X: 0, Y: 0, Z: 0}
	qefSolver := new(dcQefSolver)
	for i := 0; i < 12 && edgeCount < maxCrossings; i++ {
		c1 := dcEdgevmap[i][0]
		c2 := dcEdgevmap[i][1]
		m1 := (corners >> c1) & 1
		m2 := (corners >> c2) & 1
		if (m1 == 1 && m2 == 1) || (m1 == 0 && m2 == 0) {
			// no zero crossing on this edge
			continue
		}
		p1 := node.relToSDF(d, node.minOffset.Add(dcChildMinOffsets[c1]))
		p2 := node.relToSDF(d, node.minOffset.Add(dcChildMinOffsets[c2]))
		p := dcApproximateZeroCrossingPosition(d, p1, p2)
		n := dcCalculateSurfaceNormal(d, p)
		qefSolver.Add(p, n)
		normalSum = normalSum.Add(n)
		edgeCount++
	}
	qefPosition := qefSolver.Solve(node.rCond)
	// See documentation of the next function
	if node.lockVertices {
		qefPosition = dcBoundVertexPosition(d, node, qefPosition, qefSolver)
	}
	node.drawInfo = &dcOctreeDrawInfo{
		index:         -1,
		corners:       corners,
		position:      qefPosition,
		averageNormal: normalSum.DivScalar(float64(edgeCount)).Normalize(),
		qef:           qefSolver,
	}
	node.kind = dcOctreeNodeTypeLeaf
}

// dcBoundVertexPosition binds the given vertex to their right voxel by using the mass point if out of bounds.
// NOTE: The next code avoids small triangles and even bad meshes (on noisy fields?), but reduces sharp edge accuracy
func dcBoundVertexPosition(d sdf.SDF3, leaf *dcOctree, qefPosition v3.Vec, qefSolver *dcQefSolver) v3.Vec {
	// Avoid placing vertex outside node bounds
	min := leaf.relToSDF(d, leaf.minOffset)
	max := leaf.relToSDF(d, leaf.minOffset.Add(v3i.Vec{leaf.size, leaf.size, leaf.size}))
	if qefPosition.X < min.X || qefPosition.Y < min.Y || qefPosition.Z < min.Z ||
		qefPosition.X > max.X || qefPosition.Y > max.Y || qefPosition.Z > max.Z {
		//log.Println("Fixing vertex position", qefPosition, "-->", qefSolver.massPointSum)
		qefPosition = qefSolver.MassPoint()
	} else {
		//log.Println("NOT fixing vertex position", qefPosition)
	}
	return qefPosition
}

// Simplify optionally simplifies the octree structure merging planar faces before meshing
// should be called several times to support multi-level simplification (until false is returned)
func (node *dcOctree) Simplify(d sdf.SDF3, threshold float64) {
	if node == nil {
		return
	}
	if node.kind != dcOctreeNodeTypeInternal {
		return // can't Simplify!
	}
	isCollapsible := true
	qefSolver := new(dcQefSolver)
	signs := [8]int{-1, -1, -1, -1, -1, -1, -1, -1}
	midSign := -1
	edgeCount := 0
	for i := 0; i < 8; i++ {
		node.children[i].Simplify(d, threshold)
		if node.children[i] != nil {
			if node.children[i].kind == dcOctreeNodeTypeInternal {
				isCollapsible = false
			} else {
				qefSolver.AddSolver(node.children[i].drawInfo.qef)
				midSign = (node.children[i].drawInfo.corners >> (7 - i)) & 1
				signs[i] = (node.children[i].drawInfo.corners >> i) & 1
				edgeCount++
			}
		}
	}
	if !isCollapsible { // at least one child is an internal node, can't collapse
		return
	}
	// If no children have surface, force simplifying this node (position shouldn't matter, and qef will be left empty for no influence on parents)
	qefPosition := node.relToSDF(d, node.minOffset)
	if qefSolver.numPoints > 0 {
		// Otherwise, solve the qef of our children
		qefPosition = qefSolver.Solve(node.rCond)
		qefError := qefSolver.GetError() // Errors caused by forced simplification
		// See documentation of the next function
		if node.lockVertices {
			qefPosition = dcBoundVertexPosition(d, node, qefPosition, qefSolver)
		}
		if qefError > threshold {
			return
		}
	}
	// Build the pseudo leaf node as all checks passed
	node.kind = dcOctreeNodeTypePseudoLeaf
	node.drawInfo = new(dcOctreeDrawInfo)
	node.drawInfo.position = qefPosition
	node.drawInfo.qef = qefSolver
	for i := 0; i < 8; i++ {
		if signs[i] == -1 { // Undetermined, use centre sign instead
			node.drawInfo.corners |= midSign << i
		} else {
			node.drawInfo.corners |= signs[i] << i
		}
	}
	for i := 0; i < 8; i++ {
		child := node.children[i]
		if child != nil && (child.kind == dcOctreeNodeTypePseudoLeaf || child.kind == dcOctreeNodeTypeLeaf) {
			node.drawInfo.averageNormal = node.drawInfo.averageNormal.Add(child.drawInfo.averageNormal)
		}
	}
	node.drawInfo.averageNormal = node.drawInfo.averageNormal.Normalize()
	// Remove simplified children
	for i := 0; i < 8; i++ {
		node.children[i] = nil
	}
	return
}

func (node *dcOctree) generateVertexIndices(vertexBuffer *[]v3.Vec) {
	if node == nil { // Does not contain the surface
		return
	}
	if node.kind == dcOctreeNodeTypeInternal { // Add vertices to children
		for i := 0; i < 8; i++ {
			node.children[i].generateVertexIndices(vertexBuffer)
		}
	} else { // Leaf or pseudo-leaf node: add one vertex
		node.drawInfo.index = len(*vertexBuffer)
		*vertexBuffer = append(*vertexBuffer, node.drawInfo.position)
	}
}

func (node *dcOctree) contourCellProc(indexBuffer *[]int) {
	if node == nil { // Does not contain the surface
		return
	}
	if node.kind == dcOctreeNodeTypeInternal {
		for i := 0; i < 8; i++ {
			node.children[i].contourCellProc(indexBuffer)
		}
		for i := 0; i < 12; i++ {
			c := dcCellProcFaceMask[i][0:2]
			faceNodes0 := node.children[c[0]]
			faceNodes1 := node.children[c[1]]
			dcContourFaceProc([2]*dcOctree{faceNodes0, faceNodes1}, dcCellProcFaceMask[i][2], indexBuffer)
		}
		for i := 0; i < 6; i++ {
			edgeNodes := [4]*dcOctree{}
			c := dcCellProcEdgeMask[i][0:4]
			for j := 0; j < 4; j++ {
				edgeNodes[j] = node.children[c[j]]
			}
			dcContourEdgeProc(edgeNodes, dcCellProcEdgeMask[i][4], indexBuffer)
		}
	}
}

func dcContourFaceProc(node [2]*dcOctree, dir int, indexBuffer *[]int) {
	if node[0] == nil || node[1] == nil { // Does not contain the surface
		return
	}
	if node[0].kind == dcOctreeNodeTypeInternal || node[1].kind == dcOctreeNodeTypeInternal {
		for i := 0; i < 4; i++ {
			faceNodes := [2]*dcOctree{}
			c := dcFaceProcFaceMask[dir][i][0:2]
			for j := 0; j < 2; j++ {
				if node[j].kind != dcOctreeNodeTypeInternal {
					faceNodes[j] = node[j]
				} else {
					faceNodes[j] = node[j].children[c[j]]
				}
			}
			dcContourFaceProc(faceNodes, dcFaceProcFaceMask[dir][i][2], indexBuffer)
		}
		orders := [2][4]int{
			{0, 0, 1, 1},
			{0, 1, 0, 1},
		}
		for i := 0; i < 4; i++ {
			edgeNodes := [4]*dcOctree{}
			c := dcFaceProcEdgeMask[dir][i][1:5]
			order := orders[dcFaceProcEdgeMask[dir][i][0]]
			for j := 0; j < 4; j++ {
				if node[order[j]].kind == dcOctreeNodeTypeLeaf || node[order[j]].kind == dcOctreeNodeTypePseudoLeaf {
					edgeNodes[j] = node[order[j]]
				} else {
					edgeNodes[j] = node[order[j]].children[c[j]]
				}
			}
			dcContourEdgeProc(edgeNodes, dcFaceProcEdgeMask[dir][i][5], indexBuffer)
		}
	}
}

func dcContourEdgeProc(node [4]*dcOctree, dir int, indexBuffer *[]int) {
	if node[0] == nil || node[1] == nil || node[2] == nil || node[3] == nil { // Does not contain the surface
		return
	}
	if node[0].kind != dcOctreeNodeTypeInternal && node[1].kind != dcOctreeNodeTypeInternal &&
		node[2].kind != dcOctreeNodeTypeInternal && node[3].kind != dcOctreeNodeTypeInternal {
		dcContourProcessEdge(node, dir, indexBuffer)
	} else {
		for i := 0; i < 2; i++ {
			edgeNodes := [4]*dcOctree{}
			c := dcEdgeProcEdgeMask[dir][i][0:4]
			for j := 0; j < 4; j++ {
				if node[j].kind != dcOctreeNodeTypeInternal {
					edgeNodes[j] = node[j]
				} else {
					edgeNodes[j] = node[j].children[c[j]]
				}
			}
			dcContourEdgeProc(edgeNodes, dcEdgeProcEdgeMask[dir][i][4], indexBuffer)
		}
	}
}

func dcContourProcessEdge(node [4]*dcOctree, dir int, indexBuffer *[]int) {
	minSize := math.MaxInt
	minIndex := 0
	indices := [4]int{-1, -1, -1, -1}
	flip := false
	signChange := [4]bool{false, false, false, false}
	for i := 0; i < 4; i++ {
		edge := dcProcessEdgeMask[dir][i]
		c1 := dcEdgevmap[edge][0]
		c2 := dcEdgevmap[edge][1]
		m1 := (node[i].drawInfo.corners >> c1) & 1
		m2 := (node[i].drawInfo.corners >> c2) & 1
		if node[i].size < minSize {
			minSize = node[i].size
			minIndex = i
			flip = m1 != 0 // Make the triangles face the right way
		}
		indices[i] = node[i].drawInfo.index
		signChange[i] = m1 != m2
	}
	if signChange[minIndex] {
		if !flip {
			*indexBuffer = append(*indexBuffer, indices[0])
			*indexBuffer = append(*indexBuffer, indices[1])
			*indexBuffer = append(*indexBuffer, indices[3])

			*indexBuffer = append(*indexBuffer, indices[0])
			*indexBuffer = append(*indexBuffer, indices[3])
			*indexBuffer = append(*indexBuffer, indices[2])
		} else {
			*indexBuffer = append(*indexBuffer, indices[0])
			*indexBuffer = append(*indexBuffer, indices[3])
			*indexBuffer = append(*indexBuffer, indices[1])

			*indexBuffer = append(*indexBuffer, indices[0])
			*indexBuffer = append(*indexBuffer, indices[2])
			*indexBuffer = append(*indexBuffer, indices[3])
		}
	}
}

func (node *dcOctree) GenerateMesh(output chan<- *sdf.Triangle3) {
	vertexBuffer := new([]v3.Vec)
	indexBuffer := new([]int)
	// Populate buffers
	node.generateVertexIndices(vertexBuffer)
	node.contourCellProc(indexBuffer)
	// Return triangles
	for tri := 0; tri < len(*indexBuffer)/3; tri++ {
		triangle := &sdf.Triangle3{
			(*vertexBuffer)[(*indexBuffer)[tri*3]],
			(*vertexBuffer)[(*indexBuffer)[tri*3+1]],
			(*vertexBuffer)[(*indexBuffer)[tri*3+2]],
		}
		//log.Println("Outputting triangle:", triangle)
		output <- triangle
	}
}

// dcQefSolver is used for vertex position estimation (sharp edges!)
type dcQefSolver struct {
	ata                  *mat.SymDense
	atb, massPointSum, x v3.Vec
	btb                  float64
	numPoints            int
	hasSolution          bool
}

func (q *dcQefSolver) Add(p, n v3.Vec) {
	n = n.Normalize()
	if q.ata == nil {
		q.ata = mat.NewSymDense(3, nil)
	}
	q.ata.SetSym(0, 0, q.ata.At(0, 0)+n.X*n.X)
	q.ata.SetSym(0, 1, q.ata.At(0, 1)+n.X*n.Y)
	q.ata.SetSym(0, 2, q.ata.At(0, 2)+n.X*n.Z)
	q.ata.SetSym(1, 1, q.ata.At(1, 1)+n.Y*n.Y)
	q.ata.SetSym(1, 2, q.ata.At(1, 2)+n.Y*n.Z)
	q.ata.SetSym(2, 2, q.ata.At(2, 2)+n.Z*n.Z)
	dot := p.Dot(n)
	q.atb = q.atb.Add(n.MulScalar(dot))
	q.btb += dot * dot
	q.massPointSum = q.massPointSum.Add(p)
	q.numPoints++
	q.hasSolution = false
}

func (q *dcQefSolver) AddSolver(q2 *dcQefSolver) {
	if q.ata == nil {
		q.ata = mat.NewSymDense(3, nil)
	}
	if q2.ata != nil {
		q.ata.AddSym(q.ata, q2.ata)
	}
	q.atb = q.atb.Add(q2.atb)
	q.btb += q2.btb
	q.massPointSum = q.massPointSum.Add(q2.massPointSum)
	q.numPoints += q2.numPoints
	q.hasSolution = false
}

func (q *dcQefSolver) MassPoint() v3.Vec {
	return q.massPointSum.DivScalar(float64(q.numPoints))
}

func (q *dcQefSolver) Solve(rCond float64) v3.Vec {
	// assert q.ata != nil (some points inserted)
	// VecUtils::scale(this->massPointSum, 1.0f / this->data.numPoints);
	massPointClone := q.MassPoint()
	// MatUtils::vmul_symmetric(tmpv, this->ata, this->massPoint);
	var tmpV mat.Dense
	tmpV.Mul(q.ata, toVec(massPointClone))
	// VecUtils::sub(this->atb, this->atb, tmpv); (with later reset in same function: declare new variable)
	atb := q.atb.Sub(toV3(&tmpV))

	// const float result = Svd::solveSymmetric(this->ata, this->atb, this->x, svd_tol, svd_sweeps, pinv_tol);
	var x mat.VecDense
	// SVD
	svd := new(mat.SVD)
	if !svd.Factorize(q.ata, mat.SVDThin) {
		return massPointClone // If factorization fails (for example for Box), return the mass point
	}
	_ = svd.SolveVecTo(&x, toVec(atb), svd.Rank(rCond))
	// QR (needs stabilization)
	//qr := new(mat.QR)
	//qr.Factorize(q.ata)
	//_ = qr.SolveVecTo(&x, true, toVec(atb))

	// VecUtils::addScaled(this->x, 1, this->massPoint); (previous clear in this function makes this ok)
	q.x = massPointClone.Add(toV3(&x))
	// VecUtils::addScaled(this->x, 1, this->massPointSum);
	q.hasSolution = true
	return q.x
}

func (q *dcQefSolver) GetError() float64 {
	return q.getErrorPos(&q.x)
}

func (q *dcQefSolver) getErrorPos(pos *v3.Vec) float64 {
	//MatUtils::vmul_symmetric(atax, this->ata, pos);
	var atax mat.Dense
	atax.Mul(q.ata, toVec(*pos))
	// return VecUtils::dot(pos, atax) - 2 * VecUtils::dot(pos, this->atb) + this->data.btb;
	return pos.Dot(toV3(&atax)) - 2*pos.Dot(q.atb) + q.btb
}

func toVec(massPointClone v3.Vec) *mat.VecDense {
	return mat.NewVecDense(3, []float64{massPointClone.X, massPointClone.Y, massPointClone.Z})
}

func toV3(x mat.Matrix) v3.Vec {
	return v3.Vec{X: x.At(0, 0), Y: x.At(1, 0), Z: x.At(2, 0)}
}

//-----------------------------------------------------------------------------

func dcApproximateZeroCrossingPosition(d sdf.SDF3, p0, p1 v3.Vec) v3.Vec {
	const steps = 8. // good enough precision? Note that errors easily explode or cause noise/instability on future operations
	// Original implementation:
	//minValue := math.MaxFloat64
	//t := 0.
	//const increment = 1. / steps // Relative to p0 <--> p1 edge length
	//for currentT := 0.; currentT <= 1.; currentT += increment {
	//	p := p0.Add(p1.Sub(p0).MulScalar(currentT))
	//	d := math.Abs(d.Evaluate(p))
	//	if d < minValue {
	//		minValue = d
	//		t = currentT
	//	}
	//}
	//return p0.Add(p1.Sub(p0).MulScalar(t))
	// Alternative: binary search. IMPORTANT: leads to better simplification!
	fakeElems := math.Pow(2, steps)
	searchSolid := !(d.Evaluate(p0) < 0)
	foundIndex := sort.Search(int(fakeElems), func(fakeElem int) bool {
		currentT := float64(fakeElem) / fakeElems
		p := p0.Add(p1.Sub(p0).MulScalar(currentT))
		foundSolid := d.Evaluate(p) < 0
		return searchSolid && foundSolid || !searchSolid && !foundSolid
	})
	t := float64(foundIndex) / fakeElems
	//log.Println("t:", t, "val:", d.Evaluate(p0.Add(p1.Sub(p0).MulScalar(t))))
	return p0.Add(p1.Sub(p0).MulScalar(t))
}

func dcCalculateSurfaceNormal(d sdf.SDF3, p v3.Vec) v3.Vec {
	const eps = 0.001
	return v3.Vec{
		X: d.Evaluate(p.Add(v3.Vec{X: eps})) - d.Evaluate(p.Add(v3.Vec{X: -eps})),
		Y: d.Evaluate(p.Add(v3.Vec{Y: eps})) - d.Evaluate(p.Add(v3.Vec{Y: -eps})),
		Z: d.Evaluate(p.Add(v3.Vec{Z: eps})) - d.Evaluate(p.Add(v3.Vec{Z: -eps})),
	}.Normalize()
}
