package dc

import "github.com/deadsy/sdfx/sdf"

//-----------------------------------------------------------------------------
// UTILITIES/MISC
//-----------------------------------------------------------------------------

func dcFlip(t *sdf.Triangle3) *sdf.Triangle3 {
	t[1], t[2] = t[2], t[1]
	return t
}

func dcMaxI(i int, i2 int) int {
	if i >= i2 {
		return i
	}
	return i2
}
